(** C19 for MultiProgress frames: the row counter of the multi draw target along every history of
    the system model (Sys.step), by combining "every attempted multi draw is one draw_to_term call"
    (MultiProofs.ms_draw_unfold / C02_frame) with the per-draw row count
    (TermBottomProofs.draw_to_term_count).  No terminal semantics is needed.  The ghost and erase-count
    sections are stated without I/O failures ([SingleBar.nofail]); the bound [multi_rows_le_H]
    (Section RowsH) holds for EVERY fault oracle: a failed draw leaves the count capped at H
    (Sys.term_draw, fix 7d42cff).

    [act_shift] / [op_shift] / [hist_shift]: the padding rows ([shift], 0 under Top alignment)
    counted by the LAST attempted draw_to_term call on the multi target (ghost, computed from the
    arguments of that call; carried over calls that do not draw; 0 after suspend, whose redraw
    erases nothing).
    multi_rows_bounded     : after every history  last_line_count <= H + hist_shift
    multi_rows_bounded_top : Top alignment throughout (no set_alignment(Bottom)): last_line_count <= H *)
From IndModel Require Import Term MultiSpec.
From IndModel Require SingleBar.
From IndProofs Require Import TermProofs TermBottomProofs MultiProofs MultiFrame.
From IndProofs Require SingleBarProofs.
From Coq Require Import List NArith Bool Lia ZifyBool ZifyNat ZifyN.
Import ListNotations.
Local Open Scope N_scope.
Arguments N.add : simpl never.
Arguments N.sub : simpl never.
Arguments N.mul : simpl never.
Arguments N.div : simpl never.
Arguments N.modulo : simpl never.
Arguments N.min : simpl never.
Arguments nthN {A} l i d : simpl never.

Notation nofail := SingleBar.nofail.

(** a multi draw carrying `extra` lines (MultiProgress::println) is always forced *)
Definition act_wf (a : maction) : Prop :=
  match a with
  | ADraw force (Some _) => force = true
  | _ => True
  end.

Section Rows.
  Variable W H : N.

  Definition BInv (m : mstate) (sh : N) : Prop := target_n (ms_target m) <= H + sh.

  (** Top alignment everywhere: MultiState.alignment and the alignment left in the DrawState *)
  Definition TopAl (m : mstate) : Prop :=
    ms_align m = Top /\ forall tg, ms_target m = TTerm tg -> tt_align tg = Top.

  (** the ghost: padding rows counted by the last attempted draw_to_term call *)
  Definition act_shift (now : N) (m : mstate) (a : maction) (sh : N) : N :=
    match a with
    | ADraw force extra =>
        if ms_attempt W m force extra now
        then draw_shift (ms_align m) (ms_frame m extra) (ms_erase_n m extra) W H
        else sh
    | AClear => match ms_target m with
                | TTerm tg => draw_shift (tt_align tg) [] (region_count m) W H
                | _ => sh
                end
    | ASuspend _ => match ms_target m with TTerm _ => 0 | _ => sh end
    | _ => sh
    end.

  Fixpoint acts_shift (now : N) (m : mstate) (c : N) (acts : list maction) (sh : N) : N :=
    match acts with
    | [] => sh
    | a :: r => let '(m1, _, c1, _) := mp_exec1 W H nofail now m c a in
                acts_shift now m1 c1 r (act_shift now m a sh)
    end.

  Definition op_shift (s : sys) (now : N) (o : op) (sh : N) : N :=
    acts_shift now (s_mp s) (s_calls s) (op_actions W s now o) sh.

  Fixpoint hist_shift (s : sys) (ops : list (N * op)) (sh : N) : N :=
    match ops with
    | [] => sh
    | (now, o) :: r => hist_shift (step_sys W H nofail s now o) r (op_shift s now o sh)
    end.

  (* ---------------------------------------------------------------- one draw_to_term call *)
  Lemma term_draw_n tg ls c :
    let tg' := fst4 (term_draw W H nofail tg ls c) in
    tt_n tg' = bar_rows (painted ls W H 0) W + draw_shift (tt_align tg) ls (N.min (tt_n tg) H) W H
    /\ tt_align tg' = tt_align tg.
  Proof.
    cbv zeta. unfold term_draw, fst4.
    pose proof (draw_to_term_count ls (tt_n tg) (tt_align tg) (tt_below tg) W H) as Hc.
    destruct (draw_to_term ls (tt_n tg) (tt_align tg) (tt_below tg) W H) as [[ops n'] below'].
    rewrite SingleBarProofs.emit_nofail. cbn [fst snd tt_n tt_align] in *. auto.
  Qed.

  (** after fix 7d42cff (the count is capped at the height before it is used) EVERY draw leaves
      last_line_count <= H, under either alignment *)
  Lemma term_draw_le tg ls c : tt_n (fst4 (term_draw W H nofail tg ls c)) <= H.
  Proof.
    unfold term_draw, fst4.
    pose proof (draw_rows_bounded_bottom W H ls (tt_n tg) (tt_below tg)) as Hb.
    pose proof (SingleBarProofs.draw_rows_bounded W H ls (tt_n tg) (tt_below tg)) as Ht.
    cbv zeta in Hb, Ht.
    destruct (tt_align tg).
    - destruct (draw_to_term ls (tt_n tg) Top (tt_below tg) W H) as [[ops n'] below'].
      rewrite SingleBarProofs.emit_nofail. cbn [fst snd tt_n] in *. lia.
    - destruct (draw_to_term ls (tt_n tg) Bottom (tt_below tg) W H) as [[ops n'] below'].
      rewrite SingleBarProofs.emit_nofail. cbn [fst snd tt_n] in *. lia.
  Qed.

  Lemma painted_rows_le ls : bar_rows (painted ls W H 0) W <= H.
  Proof. pose proof (painted_bar_rows_le W H ls 0 ltac:(lia)). lia. Qed.

  Lemma vlc_pos l r : 0 < visual_line_count (l :: r) W.
  Proof. rewrite visual_line_count_cons. unfold wrapped_height. lia. Qed.

  (** a draw that carries text lines is never refused by the refresh limiter *)
  Lemma has_text_forced m force extra :
    act_wf (ADraw force extra) -> ms_has_text m extra = true ->
    (force || (0 <? visual_line_count (ms_orphans m) W)) = true.
  Proof.
    unfold act_wf, ms_has_text. intros Hwf Ht. destruct extra as [e|]; [now rewrite Hwf|].
    cbn [orb] in Ht. destruct (ms_orphans m) as [|l r]; [discriminate|].
    apply orb_true_iff. right. apply N.ltb_lt. apply vlc_pos.
  Qed.

  (* ---------------------------------------------------------------- MultiState::draw *)
  Lemma ms_draw_rows m force extra now c :
    act_wf (ADraw force extra) ->
    let m' := fst4 (ms_draw W H nofail m force extra now c) in
    (ms_attempt W m force extra now = false -> target_n (ms_target m') = target_n (ms_target m)
                                               /\ ms_align m' = ms_align m
                                               /\ (forall tg', ms_target m' = TTerm tg' ->
                                                     exists tg, ms_target m = TTerm tg /\ tt_align tg' = tt_align tg))
    /\ (ms_attempt W m force extra now = true ->
          target_n (ms_target m') <= H
          /\ ms_align m' = ms_align m
          /\ (forall tg', ms_target m' = TTerm tg' -> tt_align tg' = ms_align m)).
  Proof.
    intros Hwf. cbv zeta. destruct (ms_target m) as [|tg|i] eqn:Ht.
    - rewrite ms_draw_hidden by (rewrite Ht; discriminate). unfold fst4, ms_attempt; cbn [fst]. rewrite Ht.
      split; [|discriminate]. intros _. split; [reflexivity|]. split; [reflexivity|]. intros tg'; discriminate.
    - rewrite (ms_draw_unfold W H nofail m force extra now c tg Ht). unfold ms_attempt, ms_erase_n. rewrite Ht.
      fold (ms_has_text m extra). cbn zeta.
      set (ht := ms_has_text m extra) in *.
      set (tg1 := if ht then tt_adjust_clear tg (ms_zombie_lines m) else tg).
      set (fo := force || (0 <? visual_line_count (ms_orphans m) W)).
      destruct (tt_allow_fields tg1 fo now) as (En & Eb & Ea).
      assert (E1 : tt_n tg1 = tt_n tg + (if ht then ms_zombie_lines m else 0)).
      { unfold tg1. destruct ht; cbn; lia. }
      assert (Ea1 : tt_align tg1 = tt_align tg) by (unfold tg1; destruct ht; reflexivity).
      destruct (fst (tt_allow tg1 fo now)) eqn:Eal; cbn [negb fst snd].
      + split; [discriminate|]. intros _.
        match goal with |- context [term_draw W H nofail ?t ?l c] =>
          destruct (term_draw_n t l c) as (_ & Ta); pose proof (term_draw_le t l c) as Tn;
          set (td := term_draw W H nofail t l c) in * end.
        cbn [tt_n tt_align] in Tn, Ta. unfold fst4 in Tn, Ta.
        match goal with |- context [fold_left ms_remove_idx ?zs ?m0] =>
          destruct (fold_remove_other zs m0) as (Fa & _ & _ & Ft); set (m2 := fold_left ms_remove_idx zs m0) in * end.
        cbn [ms_target ms_align set_ms_target set_ms_zombie_lines set_ms_orphans] in Fa, Ft.
        cbn [target_n].
        unfold fst4. destruct ht; cbn [fst].
        * rewrite Ft, Fa. cbn [target_n]. split; [lia|]. split; [reflexivity|].
          intros tg' Etg'. injection Etg' as <-. exact Ta.
        * cbn [ms_target ms_align set_ms_target set_ms_zombie_lines]. rewrite Ft, Fa.
          cbn [target_adjust_keep target_n tt_adjust_keep tt_n]. split; [lia|]. split; [reflexivity|].
          intros tg' Etg'. injection Etg' as <-. cbn [tt_align]. exact Ta.
      + split; [|discriminate]. intros _. unfold fst4; cbn [fst].
        cbn [ms_target ms_align set_ms_target set_ms_zombie_lines target_n].
        assert (Hht : ht = false).
        { destruct ht eqn:Eht; [|reflexivity]. exfalso.
          assert (Hfo : fo = true) by (apply (has_text_forced m force extra); assumption).
          unfold tt_allow in Eal. rewrite Hfo in Eal. cbn in Eal. discriminate. }
        rewrite En, E1, Hht. split; [lia|]. split; [reflexivity|].
        intros tg' Etg'. injection Etg' as <-. exists tg. split; [reflexivity|]. now rewrite Ea, Ea1.
    - rewrite ms_draw_hidden by (rewrite Ht; discriminate). unfold fst4, ms_attempt; cbn [fst]. rewrite Ht.
      split; [|discriminate]. intros _. split; [reflexivity|]. split; [reflexivity|]. intros tg'; discriminate.
  Qed.
  (* ---------------------------------------------------------------- MultiState::clear / suspend *)
  Lemma ms_clear_rows m c :
    let m' := fst4 (ms_clear W H nofail m c) in
    ms_align m' = ms_align m
    /\ match ms_target m with
       | TTerm tg => exists tg', ms_target m' = TTerm tg' /\ ms_zombie_lines m' = 0
                       /\ tt_n tg' = draw_shift (tt_align tg) [] (N.min (region_count m) H) W H
                       /\ tt_align tg' = tt_align tg
       | _ => ms_target m' = ms_target m
       end.
  Proof.
    cbv zeta. unfold ms_clear, region_count. destruct (ms_target m) as [|tg|i] eqn:Ht.
    - unfold fst4; cbn [fst]. now rewrite Ht.
    - destruct (term_draw_n (tt_adjust_clear tg (ms_zombie_lines m)) [] c) as (Tn & Ta).
      unfold fst4 in *.
      destruct (term_draw W H nofail (tt_adjust_clear tg (ms_zombie_lines m)) [] c) as [[[tg2 e] c'] ok].
      cbn [fst] in *. cbn [ms_align ms_target ms_zombie_lines set_ms_target set_ms_zombie_lines].
      split; [reflexivity|]. exists tg2. split; [reflexivity|]. split; [reflexivity|].
      cbn [tt_adjust_clear tt_n tt_align target_n] in *. split; [|exact Ta].
      rewrite Tn. unfold bar_rows. cbn. lia.
    - unfold fst4; cbn [fst]. now rewrite Ht.
  Qed.

  Lemma ms_clear_le m c : target_n (ms_target m) <= H ->
    target_n (ms_target (fst4 (ms_clear W H nofail m c))) <= H.
  Proof.
    intros Hn. unfold ms_clear. destruct (ms_target m) as [|tg|i] eqn:Ht.
    - unfold fst4; cbn [fst]. now rewrite Ht.
    - pose proof (term_draw_le (tt_adjust_clear tg (ms_zombie_lines m)) [] c) as Tn. unfold fst4 in *.
      destruct (term_draw W H nofail (tt_adjust_clear tg (ms_zombie_lines m)) [] c) as [[[tg2 e] c'] ok].
      cbn [fst ms_target set_ms_target set_ms_zombie_lines target_n] in *. exact Tn.
    - unfold fst4; cbn [fst]. now rewrite Ht.
  Qed.

  Lemma draw_shift_zero al ls : draw_shift al ls 0 W H = 0.
  Proof. destruct al; [reflexivity | apply bottom_shift_zero]. Qed.

  Lemma ms_suspend_rows m ws now c :
    let m' := fst (fst (ms_suspend W H nofail m ws now c)) in
    target_n (ms_target m') <= H /\ (TopAl m -> TopAl m').
  Proof.
    cbv zeta. unfold ms_suspend.
    pose proof (ms_clear_rows m c) as Hcl. cbv zeta in Hcl. unfold fst4 in Hcl.
    destruct (ms_clear W H nofail m c) as [[[m1 e1] c1] ok1]. cbn [fst] in Hcl.
    destruct Hcl as (Hal1 & Hcl).
    set (m1' := set_ms_target m1 _).
    destruct (emit_each nofail c1 (map TLine ws)) as [e2 c2].
    pose proof (ms_draw_rows m1' true None now c2 I) as Hd. cbv zeta in Hd. unfold fst4 in Hd.
    destruct (ms_draw W H nofail m1' true None now c2) as [[[m3 e3] c3] ok3]. cbn [fst] in *.
    destruct Hd as (Hno & Hyes).
    assert (Hal1' : ms_align m1' = ms_align m) by (unfold m1'; cbn; exact Hal1).
    destruct (ms_target m) as [|tg|i] eqn:Ht.
    - assert (Ht1 : ms_target m1' = THidden) by (unfold m1'; cbn; now rewrite Hcl).
      assert (Hatt : ms_attempt W m1' true None now = false) by (unfold ms_attempt; now rewrite Ht1).
      destruct (Hno Hatt) as (Hn3 & Ha3 & Hta3). rewrite Hn3, Ht1. cbn [target_n]. split; [lia|].
      intros [HA _]. split; [congruence|]. intros tg' Etg'. destruct (Hta3 tg' Etg') as (tg0 & E0 & _). congruence.
    - destruct Hcl as (tg' & Ht1 & Hz1 & _ & Hta1).
      assert (Ht1' : ms_target m1' = TTerm (mktt 0 (tt_rl tg') (tt_align tg') (tt_below tg')))
        by (unfold m1'; cbn; now rewrite Ht1).
      assert (Hz1' : ms_zombie_lines m1' = 0) by (unfold m1'; cbn; exact Hz1).
      assert (Her : ms_erase_n m1' None = 0).
      { unfold ms_erase_n. rewrite Ht1', Hz1'. cbn [target_n tt_n]. destruct (ms_has_text m1' None); lia. }
      destruct (ms_attempt W m1' true None now) eqn:Hatt.
      + destruct (Hyes eq_refl) as (Hn3 & Ha3 & Hta3).
        split; [lia|]. intros [HA HT]. split; [congruence|]. intros tg3 E3. rewrite (Hta3 tg3 E3). congruence.
      + destruct (Hno eq_refl) as (Hn3 & Ha3 & Hta3). rewrite Hn3, Ht1'. cbn [target_n tt_n]. split; [lia|].
        intros [HA HT]. split; [congruence|]. intros tg3 E3. destruct (Hta3 tg3 E3) as (tg0 & E0 & E0').
        rewrite E0'. rewrite Ht1' in E0. injection E0 as <-. cbn [tt_align]. rewrite Hta1. now apply HT.
    - assert (Ht1 : ms_target m1' = TMulti i) by (unfold m1'; cbn; now rewrite Hcl).
      assert (Hatt : ms_attempt W m1' true None now = false) by (unfold ms_attempt; now rewrite Ht1).
      destruct (Hno Hatt) as (Hn3 & Ha3 & Hta3). rewrite Hn3, Ht1. cbn [target_n]. split; [lia|].
      intros [HA _]. split; [congruence|]. intros tg' Etg'. destruct (Hta3 tg' Etg') as (tg0 & E0 & _). congruence.
  Qed.

  (* ---------------------------------------------------------------- the other MultiState methods *)
  Lemma ms_insert_target m loc m1 idx : ms_insert m loc = Some (m1, idx) ->
    ms_target m1 = ms_target m /\ ms_align m1 = ms_align m.
  Proof.
    unfold ms_insert. destruct (ms_free m) as [|i fr]; destruct loc; cbn;
      try (intros E; injection E as <- _; cbn; auto);
      match goal with |- context [posN ?a ?b] => destruct (posN a b) end;
      try discriminate; intros E; injection E as <- _; cbn; auto.
  Qed.

  Lemma ms_mark_target m idx :
    target_n (ms_target (ms_mark_zombie W m idx)) <= target_n (ms_target m)
    /\ ms_align (ms_mark_zombie W m idx) = ms_align m
    /\ (forall tg', ms_target (ms_mark_zombie W m idx) = TTerm tg' ->
          exists tg, ms_target m = TTerm tg /\ tt_align tg' = tt_align tg).
  Proof.
    split; [apply (mark_zombie_counts W m idx)|].
    unfold ms_mark_zombie. destruct (ms_order m) as [|first rest]; [split; [reflexivity|]; eauto|].
    destruct (negb (idx =? first)); [cbn; split; [reflexivity|]; eauto|].
    match goal with |- context [ms_remove_idx ?m0 idx] => destruct (remove_idx_other m0 idx) as (Ea & _ & _ & Et) end.
    rewrite Ea, Et. cbn [ms_target ms_align set_ms_target set_ms_zombie_lines]. split; [reflexivity|].
    intros tg' E. destruct (ms_target m) as [|tg|i]; cbn [target_adjust_keep] in E; try discriminate.
    injection E as <-. exists tg. split; reflexivity.
  Qed.

  (* ---------------------------------------------------------------- one MultiState method call *)
  Lemma act_binv now m c a sh : act_wf a -> BInv m sh ->
    BInv (fst4 (mp_exec1 W H nofail now m c a)) (act_shift now m a sh).
  Proof.
    unfold BInv. intros Hwf Hinv. destruct a as [idx texts bars|force extra| |ws|idx|loc|idx|al|ws];
      cbn [mp_exec1 act_shift].
    - unfold fst4; cbn. exact Hinv.
    - destruct (ms_draw_rows m force extra now c Hwf) as (Hno & Hyes).
      destruct (ms_attempt W m force extra now).
      + destruct (Hyes eq_refl) as (Hy & _). lia.
      + destruct (Hno eq_refl) as (-> & _). exact Hinv.
    - pose proof (ms_clear_le m c) as Hle. destruct (ms_clear_rows m c) as (_ & Hcl).
      destruct (ms_target m) as [|tg|i] eqn:Ht.
      + rewrite Hcl. cbn. lia.
      + assert (Hb : target_n (ms_target (fst4 (ms_clear W H nofail m c))) <= H); [|lia].
        destruct Hcl as (tg' & Et & _). rewrite Et in *. cbn [target_n] in *.
        pose proof (term_draw_le (tt_adjust_clear tg (ms_zombie_lines m)) [] c) as Tn.
        unfold ms_clear in Et. rewrite Ht in Et. unfold fst4 in *.
        destruct (term_draw W H nofail (tt_adjust_clear tg (ms_zombie_lines m)) [] c) as [[[tg2 e] c'] ok].
        cbn [fst ms_target set_ms_target set_ms_zombie_lines] in *. injection Et as <-. lia.
      + rewrite Hcl. cbn. lia.
    - destruct (ms_suspend_rows m ws now c) as (Hs & _).
      destruct (ms_suspend W H nofail m ws now c) as [[m' e] c']. unfold fst4; cbn [fst] in *.
      destruct (ms_target m); lia.
    - unfold fst4; cbn [fst]. destruct (remove_idx_other m idx) as (_ & _ & _ & ->). exact Hinv.
    - unfold fst4; cbn [fst]. destruct (ms_insert m loc) as [[m1 i]|] eqn:Ei; [|exact Hinv].
      destruct (ms_insert_target m loc m1 i Ei) as (-> & _). exact Hinv.
    - unfold fst4; cbn [fst]. destruct (ms_mark_target m idx) as (Hle & _). lia.
    - unfold fst4; cbn. exact Hinv.
    - destruct (emit_each nofail c (map TLine ws)) as [e c']. unfold fst4; cbn. exact Hinv.
  Qed.

  Lemma act_top now m c a : act_wf a -> a <> AAlign Bottom -> TopAl m ->
    TopAl (fst4 (mp_exec1 W H nofail now m c a)) /\ act_shift now m a 0 = 0.
  Proof.
    intros Hwf Hnb [HA HT]. destruct a as [idx texts bars|force extra| |ws|idx|loc|idx|al|ws];
      cbn [mp_exec1 act_shift].
    - unfold fst4; cbn. split; [split; assumption | reflexivity].
    - destruct (ms_draw_rows m force extra now c Hwf) as (Hno & Hyes). rewrite HA.
      destruct (ms_attempt W m force extra now).
      + destruct (Hyes eq_refl) as (_ & Ha & Hta). split; [|reflexivity].
        split; [congruence|]. intros tg' E. rewrite (Hta tg' E). exact HA.
      + destruct (Hno eq_refl) as (_ & Ha & Hta). split; [|reflexivity].
        split; [congruence|]. intros tg' E. destruct (Hta tg' E) as (tg & E0 & ->). now apply HT.
    - destruct (ms_clear_rows m c) as (Ha & Hcl). destruct (ms_target m) as [|tg|i] eqn:Ht.
      + split; [|reflexivity]. split; [congruence|]. intros tg' E. congruence.
      + destruct Hcl as (tg' & Et & _ & _ & Eal). rewrite (HT tg eq_refl). split; [|reflexivity].
        split; [congruence|]. intros tg2 E. rewrite Et in E. injection E as <-. rewrite Eal. now apply HT.
      + split; [|reflexivity]. split; [congruence|]. intros tg' E. congruence.
    - destruct (ms_suspend_rows m ws now c) as (_ & Hs).
      destruct (ms_suspend W H nofail m ws now c) as [[m' e] c']. unfold fst4; cbn [fst] in *.
      split; [apply Hs; split; assumption|]. now destruct (ms_target m).
    - unfold fst4; cbn [fst]. destruct (remove_idx_other m idx) as (Ea & _ & _ & Et).
      split; [|reflexivity]. split; [congruence|]. intros tg' E. apply HT. congruence.
    - unfold fst4; cbn [fst]. split; [|reflexivity]. destruct (ms_insert m loc) as [[m1 i]|] eqn:Ei; [|split; assumption].
      destruct (ms_insert_target m loc m1 i Ei) as (Et & Ea). split; [congruence|]. intros tg' E. apply HT. congruence.
    - unfold fst4; cbn [fst]. destruct (ms_mark_target m idx) as (_ & Ea & Hta). split; [|reflexivity].
      split; [congruence|]. intros tg' E. destruct (Hta tg' E) as (tg & E0 & ->). now apply HT.
    - unfold fst4; cbn. split; [|reflexivity]. destruct al; [|congruence]. split; [reflexivity | exact HT].
    - destruct (emit_each nofail c (map TLine ws)) as [e c']. unfold fst4; cbn. split; [split; assumption | reflexivity].
  Qed.
End Rows.

(* ------------------------------------------------------------------ the method calls of a public call *)
Definition act_ok (nb : bool) (a : maction) : Prop := act_wf a /\ (nb = true -> a <> AAlign Bottom).

Ltac ok_tac :=
  repeat (first [ apply Forall_nil
                | apply Forall_cons; [split; [first [exact I | reflexivity] | intros _; discriminate]|] ]).

Section Ops.
  Variable W H : N.

  Lemma draw_actions_ok nb s b force : Forall (act_ok nb) (draw_actions W s b force).
  Proof. unfold draw_actions. destruct (b_target (get_bar s b)); ok_tac. Qed.

  Lemma op_actions_ok nb s now o : (nb = true -> o <> OSetAlign Bottom) ->
    Forall (act_ok nb) (op_actions W s now o).
  Proof.
    intros Hnb.
    assert (Hp : forall b f, Forall (act_ok nb) (pos_actions W s b f now)).
    { intros b f. unfold pos_actions, tick_actions.
      destruct (ap_allow _ now) as [[|] ap']; [apply draw_actions_ok | constructor]. }
    destruct o; cbn [op_actions]; unfold tick_actions, finish_actions;
      try apply draw_actions_ok; try apply Hp; try (now ok_tac).
    - destruct (b_target (get_bar s b)); ok_tac.
    - destruct (b_target (get_bar s b)); ok_tac.
    - apply Forall_app. split.
      + destruct (finished (get_bar s b)); [constructor | apply draw_actions_ok].
      + destruct (b_target (get_bar s b)); ok_tac.
    - destruct loc; cbn;
        repeat match goal with
               | |- context [match b_target ?x with _ => _ end] => destruct (b_target x)
               | |- context [match ms_insert ?m ?l with _ => _ end] => destruct (ms_insert m l)
               end; ok_tac.
    - destruct (b_target (get_bar s b)); ok_tac.
    - constructor; [|constructor]. split; [exact I|]. intros Hn E. injection E as ->. now apply Hnb.
  Qed.
End Ops.

(* ------------------------------------------------------------------ public calls and histories *)
Section Runs.
  Variable W H : N.

  Lemma mp_run_binv now acts : forall m c sh, Forall act_wf acts -> BInv H m sh ->
    BInv H (fst (fst (mp_run W H nofail now m c acts))) (acts_shift W H now m c acts sh).
  Proof.
    induction acts as [|a r IH]; intros m c sh Hwf Hinv; cbn [mp_run acts_shift]; [exact Hinv|].
    inversion Hwf as [|x y Ha Hr]; subst.
    pose proof (act_binv W H now m c a sh Ha Hinv) as Hb. unfold fst4 in Hb.
    destruct (mp_exec1 W H nofail now m c a) as [[[m1 e1] c1] ok1]. cbn [fst] in Hb.
    specialize (IH m1 c1 _ Hr Hb).
    destruct (mp_run W H nofail now m1 c1 r) as [[m2 e2] c2]. exact IH.
  Qed.

  Lemma mp_run_top now acts : forall m c, Forall (act_ok true) acts -> TopAl m ->
    TopAl (fst (fst (mp_run W H nofail now m c acts))) /\ acts_shift W H now m c acts 0 = 0.
  Proof.
    induction acts as [|a r IH]; intros m c Hok Htop; cbn [mp_run acts_shift]; [split; [exact Htop | reflexivity]|].
    inversion Hok as [|x y [Ha Hnb] Hr]; subst.
    destruct (act_top W H now m c a Ha (Hnb eq_refl) Htop) as (Ht1 & Hs1). unfold fst4 in Ht1.
    destruct (mp_exec1 W H nofail now m c a) as [[[m1 e1] c1] ok1]. cbn [fst] in Ht1. rewrite Hs1.
    specialize (IH m1 c1 Hr Ht1).
    destruct (mp_run W H nofail now m1 c1 r) as [[m2 e2] c2]. exact IH.
  Qed.

  Lemma step_binv s now o sh : BInv H (s_mp s) sh ->
    BInv H (s_mp (step_sys W H nofail s now o)) (op_shift W H s now o sh).
  Proof.
    intros Hinv. destruct (step_mp W H nofail s now o) as [E _]. cbn [fst] in E. rewrite E.
    apply mp_run_binv; [|exact Hinv].
    eapply Forall_impl; [|apply (op_actions_ok W false s now o); discriminate]. intros a [Ha _]. exact Ha.
  Qed.

  Lemma step_top s now o : o <> OSetAlign Bottom -> TopAl (s_mp s) ->
    TopAl (s_mp (step_sys W H nofail s now o)) /\ op_shift W H s now o 0 = 0.
  Proof.
    intros Ho Htop. destruct (step_mp W H nofail s now o) as [E _]. cbn [fst] in E. rewrite E.
    apply mp_run_top; [|exact Htop]. apply op_actions_ok. intros _. exact Ho.
  Qed.

  (** C19 for MultiProgress, every history (valid or not), any alignment: after every call the
      last_line_count of the multi target is at most H + the padding counted by the last draw *)
  Theorem multi_rows_bounded : forall ops s sh, BInv H (s_mp s) sh ->
    BInv H (s_mp (run W H nofail s ops)) (hist_shift W H s ops sh).
  Proof.
    induction ops as [|[now o] r IH]; intros s sh Hinv; cbn [run hist_shift]; [exact Hinv|].
    apply IH. apply step_binv. exact Hinv.
  Qed.

  (** ... and under Top alignment (the default; no set_alignment(Bottom) in the history) the ghost
      is 0: last_line_count <= H after every call *)
  Theorem multi_rows_bounded_top : forall ops s,
    TopAl (s_mp s) -> target_n (ms_target (s_mp s)) <= H ->
    Forall (fun x => snd x <> OSetAlign Bottom) ops ->
    let s' := run W H nofail s ops in
    target_n (ms_target (s_mp s')) <= H /\ hist_shift W H s ops 0 = 0 /\ TopAl (s_mp s').
  Proof.
    induction ops as [|[now o] r IH]; intros s Htop Hn Hops; cbn [run hist_shift]; [auto|].
    inversion Hops as [|x y Ho Hr]; subst. cbn [snd] in Ho.
    destruct (step_top s now o Ho Htop) as (Ht1 & Hs1). rewrite Hs1.
    assert (Hb : BInv H (s_mp (step_sys W H nofail s now o)) 0).
    { rewrite <- Hs1. apply step_binv. unfold BInv. lia. }
    unfold BInv in Hb. apply IH; [exact Ht1 | lia | exact Hr].
  Qed.

  (** both forms for the statement in props/C19.v *)
  Theorem multi_rows_bounded_full ops s :
    target_n (ms_target (s_mp s)) <= H ->
    let s' := run W H nofail s ops in
    target_n (ms_target (s_mp s')) <= H + hist_shift W H s ops 0
    /\ (TopAl (s_mp s) -> Forall (fun x => snd x <> OSetAlign Bottom) ops ->
        target_n (ms_target (s_mp s')) <= H).
  Proof.
    intros Hn. cbv zeta. split.
    - apply (multi_rows_bounded ops s 0). unfold BInv. lia.
    - intros Htop Hops. now destruct (multi_rows_bounded_top ops s Htop Hn Hops).
  Qed.

  (** the ghost advances call by call *)
  Lemma run_snoc fails ops : forall s now o,
    run W H fails s (ops ++ [(now, o)]) = step_sys W H fails (run W H fails s ops) now o.
  Proof. induction ops as [|[n1 o1] r IH]; intros s now o; cbn [run app]; [reflexivity | apply IH]. Qed.

  Lemma hist_shift_snoc ops : forall s sh now o,
    hist_shift W H s (ops ++ [(now, o)]) sh
    = op_shift W H (run W H nofail s ops) now o (hist_shift W H s ops sh).
  Proof. induction ops as [|[n1 o1] r IH]; intros s sh now o; cbn [run hist_shift app]; [reflexivity | apply IH]. Qed.
End Runs.

(* ------------------------------------------------------------------ erase COUNT exactness without Fits
   Top alignment, no dropped bars (no zombies), no I/O failures: after every history the
   last_line_count of the multi target is EXACTLY the number of rows of the Bar lines that the last
   attempted draw painted (the maximal fitting prefix of its frame), zombie_lines_count = 0, so the
   next draw erases exactly that many rows - whether or not the frames fit the terminal height. *)
Lemma Forall_updN {A} (P : A -> Prop) (f : A -> A) : (forall x, P x -> P (f x)) ->
  forall l i, Forall P l -> Forall P (updN l i f).
Proof.
  intros Hf. induction l as [|x l IH]; intros i Hl; [destruct i; constructor|].
  inversion Hl as [|y z Hx Hl']; subst. destruct i as [|i]; cbn [updN]; constructor; auto.
Qed.

Definition act_ok2 (a : maction) : Prop :=
  act_wf a /\ a <> AAlign Bottom /\ forall i, a <> AMark i.

Ltac ok2_tac :=
  repeat (first [ apply Forall_nil
                | apply Forall_cons;
                  [split; [first [exact I | reflexivity] | split; [discriminate | intros; discriminate]]|] ]).

Section EraseCount.
  Variable W H : N.

  Definition NoZ (m : mstate) : Prop :=
    ms_zombie_lines m = 0 /\ Forall (fun mem => m_zombie mem = false) (ms_members m).

  (** ghost: the line vector of the last attempted draw_to_term call on the multi target *)
  Definition act_frame (now : N) (m : mstate) (c : N) (a : maction) (g : list line) : list line :=
    match a with
    | ADraw force extra => if ms_attempt W m force extra now then ms_frame m extra else g
    | AClear => match ms_target m with TTerm _ => [] | _ => g end
    | ASuspend _ =>
        match ms_target m with
        | TTerm _ => let m1 := suspend_mid W H nofail m c in
                     if ms_attempt W m1 true None now then ms_frame m1 None else []
        | _ => g
        end
    | _ => g
    end.

  Fixpoint acts_frame (now : N) (m : mstate) (c : N) (acts : list maction) (g : list line) : list line :=
    match acts with
    | [] => g
    | a :: r => let '(m1, _, c1, _) := mp_exec1 W H nofail now m c a in
                acts_frame now m1 c1 r (act_frame now m c a g)
    end.

  Definition op_frame (s : sys) (now : N) (o : op) (g : list line) : list line :=
    acts_frame now (s_mp s) (s_calls s) (op_actions W s now o) g.

  Fixpoint hist_frame (s : sys) (ops : list (N * op)) (g : list line) : list line :=
    match ops with
    | [] => g
    | (now, o) :: r => hist_frame (step_sys W H nofail s now o) r (op_frame s now o g)
    end.

  Definition EInv (m : mstate) (g : list line) : Prop :=
    NoZ m /\ TopAl m /\ target_n (ms_target m) = bar_rows (painted g W H 0) W.

  Lemma head_zombies_none order mems :
    Forall (fun mem => m_zombie mem = false) mems -> head_zombies order mems = [].
  Proof.
    intros Hf. destruct order as [|i r]; [reflexivity|]. cbn [head_zombies].
    replace (m_zombie (nthN mems i member_default)) with false; [reflexivity|].
    unfold nthN. destruct (Nat.lt_ge_cases (N.to_nat i) (length mems)) as [Hlt|Hge].
    - symmetry. exact (proj1 (Forall_nth _ mems) Hf (N.to_nat i) member_default Hlt).
    - now rewrite nth_overflow.
  Qed.

  Lemma ms_draw_nz m force extra now c :
    act_wf (ADraw force extra) -> NoZ m -> ms_align m = Top ->
    let m' := fst4 (ms_draw W H nofail m force extra now c) in
    NoZ m'
    /\ (ms_attempt W m force extra now = true ->
          target_n (ms_target m') = bar_rows (painted (ms_frame m extra) W H 0) W)
    /\ (ms_attempt W m force extra now = false -> target_n (ms_target m') = target_n (ms_target m)).
  Proof.
    intros Hwf [Hz Hm] Hal. cbv zeta. destruct (ms_target m) as [|tg|i] eqn:Ht.
    - rewrite ms_draw_hidden by (rewrite Ht; discriminate). unfold fst4, ms_attempt; cbn [fst]. rewrite Ht.
      split; [split; assumption|]. split; [discriminate | reflexivity].
    - rewrite (ms_draw_unfold W H nofail m force extra now c tg Ht). unfold ms_attempt, zombie_rows. rewrite Ht.
      fold (ms_has_text m extra). cbn zeta. rewrite (head_zombies_none _ _ Hm). cbn [fold_left].
      set (ht := ms_has_text m extra) in *.
      set (tg1 := if ht then tt_adjust_clear tg (ms_zombie_lines m) else tg).
      set (fo := force || (0 <? visual_line_count (ms_orphans m) W)).
      destruct (tt_allow_fields tg1 fo now) as (En & Eb & Ea).
      assert (E1 : tt_n tg1 = tt_n tg) by (unfold tg1; destruct ht; cbn; lia).
      destruct (fst (tt_allow tg1 fo now)) eqn:Eal; cbn [negb fst snd].
      + match goal with |- context [term_draw W H nofail ?t ?l c] =>
          destruct (term_draw_n W H t l c) as (Tn & Ta); set (td := term_draw W H nofail t l c) in * end.
        cbn [tt_n tt_align] in Tn, Ta. unfold fst4 in Tn, Ta. rewrite Hal in Tn. cbn [draw_shift] in Tn.
        unfold fst4, NoZ. destruct ht; cbn [fst];
          cbn [ms_target ms_members ms_zombie_lines set_ms_target set_ms_zombie_lines set_ms_orphans
               target_adjust_keep target_n tt_adjust_keep tt_n]; rewrite ?N.min_0_l.
        * split; [split; [reflexivity | exact Hm]|]. split; [intros _; lia | discriminate].
        * split; [split; [lia | exact Hm]|]. split; [|discriminate].
          intros _. lia.
      + unfold fst4, NoZ; cbn [fst]. cbn [ms_target ms_members ms_zombie_lines set_ms_target set_ms_zombie_lines target_n].
        split; [split; [destruct ht; [reflexivity | exact Hz] | exact Hm]|]. split; [discriminate|].
        intros _. rewrite En, E1. reflexivity.
    - rewrite ms_draw_hidden by (rewrite Ht; discriminate). unfold fst4, ms_attempt; cbn [fst]. rewrite Ht.
      split; [split; assumption|]. split; [discriminate | reflexivity].
  Qed.
  Lemma ms_clear_nz m c : NoZ m -> NoZ (fst4 (ms_clear W H nofail m c)).
  Proof.
    intros [Hz Hm]. unfold ms_clear, NoZ, fst4. destruct (ms_target m) as [|tg|i]; cbn [fst]; [auto| |auto].
    destruct (term_draw W H nofail (tt_adjust_clear tg (ms_zombie_lines m)) [] c) as [[[tg2 e] c'] ok].
    cbn. auto.
  Qed.

  Lemma ms_insert_nz m loc m1 idx : ms_insert m loc = Some (m1, idx) -> NoZ m -> NoZ m1.
  Proof.
    intros E [Hz Hm]. unfold NoZ.
    assert (Hupd : forall i, Forall (fun mem => m_zombie mem = false)
                               (updN (ms_members m) i (fun _ => member_default))).
    { intros i. apply Forall_updN; [reflexivity | exact Hm]. }
    assert (Happ : Forall (fun mem => m_zombie mem = false) (ms_members m ++ [member_default])).
    { apply Forall_app. split; [exact Hm | constructor; [reflexivity | constructor]]. }
    unfold ms_insert in E. destruct (ms_free m) as [|i fr]; destruct loc; cbn in E;
      try (injection E as <- _; cbn; auto);
      match type of E with context [posN ?a ?b] => destruct (posN a b) end;
      try discriminate; injection E as <- _; cbn; auto.
  Qed.

  Lemma ms_suspend_eq m ws now c :
    exists c2, fst (fst (ms_suspend W H nofail m ws now c))
               = fst4 (ms_draw W H nofail (suspend_mid W H nofail m c) true None now c2).
  Proof.
    unfold ms_suspend, suspend_mid, fst4.
    destruct (ms_clear W H nofail m c) as [[[m1 e1] c1] ok1]. cbn [fst].
    destruct (emit_each nofail c1 (map TLine ws)) as [e2 c2]. exists c2.
    destruct (ms_draw W H nofail _ true None now c2) as [[[m3 e3] c3] ok3]. reflexivity.
  Qed.

  Lemma painted_nil_rows : bar_rows (painted [] W H 0) W = 0.
  Proof. reflexivity. Qed.

  (** one MultiState method call (not mark_zombie, not set_alignment(Bottom)) *)
  Lemma act_einv now m c a g : act_ok2 a -> EInv m g ->
    EInv (fst4 (mp_exec1 W H nofail now m c a)) (act_frame now m c a g).
  Proof.
    intros (Hwf & Hnb & Hnm) (HZ & HT & Hn).
    destruct (act_top W H now m c a Hwf Hnb HT) as (HT' & _).
    split; [|split; [exact HT'|]]; clear HT'.
    - (* no zombies *)
      destruct a as [idx texts bars|force extra| |ws|idx|loc|idx|al|ws]; cbn [mp_exec1].
      + unfold fst4; cbn [fst]. destruct HZ as [Hz Hm]. split; [exact Hz|]. cbn.
        apply Forall_updN; [intros x Hx; exact Hx | exact Hm].
      + exact (proj1 (ms_draw_nz m force extra now c Hwf HZ (proj1 HT))).
      + apply ms_clear_nz. exact HZ.
      + destruct (ms_suspend_eq m ws now c) as (c2 & E).
        destruct (ms_suspend W H nofail m ws now c) as [[m' e] c']. unfold fst4 at 1; cbn [fst] in *. rewrite E.
        apply (ms_draw_nz _ true None now c2 I).
        * pose proof (ms_clear_nz m c HZ) as [Hz1 Hm1]. unfold suspend_mid. split; cbn; assumption.
        * unfold suspend_mid. cbn [ms_align set_ms_target]. rewrite (proj1 (ms_clear_rows W H m c)). exact (proj1 HT).
      + unfold fst4; cbn [fst]. destruct HZ as [Hz Hm]. unfold ms_remove_idx.
        destruct (memN idx (ms_free m)); [split; assumption|]. split; [exact Hz|]. cbn.
        apply Forall_updN; [reflexivity | exact Hm].
      + unfold fst4; cbn [fst]. destruct (ms_insert m loc) as [[m1 i]|] eqn:Ei; [|exact HZ].
        exact (ms_insert_nz m loc m1 i Ei HZ).
      + exfalso. exact (Hnm idx eq_refl).
      + unfold fst4; cbn. exact HZ.
      + destruct (emit_each nofail c (map TLine ws)) as [e c']. unfold fst4; cbn. exact HZ.
    - (* the count *)
      destruct a as [idx texts bars|force extra| |ws|idx|loc|idx|al|ws]; cbn [mp_exec1 act_frame].
      + unfold fst4; cbn. exact Hn.
      + destruct (ms_draw_nz m force extra now c Hwf HZ (proj1 HT)) as (_ & Hy & Hno).
        destruct (ms_attempt W m force extra now); [exact (Hy eq_refl) | rewrite (Hno eq_refl); exact Hn].
      + destruct (ms_clear_rows W H m c) as (_ & Hcl). destruct (ms_target m) as [|tg|i] eqn:Ht.
        * rewrite Hcl. exact Hn.
        * destruct Hcl as (tg' & Et & _ & En & _). rewrite Et. cbn [target_n]. rewrite En.
          rewrite (proj2 HT tg Ht). reflexivity.
        * rewrite Hcl. exact Hn.
      + destruct (ms_suspend_eq m ws now c) as (c2 & E).
        destruct (ms_suspend W H nofail m ws now c) as [[m' e] c']. unfold fst4 at 1; cbn [fst] in *. rewrite E.
        set (m1 := suspend_mid W H nofail m c).
        assert (HZ1 : NoZ m1).
        { pose proof (ms_clear_nz m c HZ) as [Hz1 Hm1]. unfold m1, suspend_mid. split; cbn; assumption. }
        assert (Hal1 : ms_align m1 = Top).
        { unfold m1, suspend_mid. cbn [ms_align set_ms_target]. rewrite (proj1 (ms_clear_rows W H m c)). exact (proj1 HT). }
        destruct (ms_draw_nz m1 true None now c2 I HZ1 Hal1) as (_ & Hy & Hno).
        destruct (ms_clear_rows W H m c) as (_ & Hcl).
        destruct (ms_target m) as [|tg|i] eqn:Ht.
        * assert (Ht1 : ms_target m1 = THidden) by (unfold m1, suspend_mid; cbn; now rewrite Hcl).
          assert (Hatt : ms_attempt W m1 true None now = false) by (unfold ms_attempt; now rewrite Ht1).
          rewrite (Hno Hatt), Ht1. exact Hn.
        * destruct Hcl as (tg' & Et & _).
          assert (Ht1 : target_n (ms_target m1) = 0) by (unfold m1, suspend_mid; cbn; now rewrite Et).
          destruct (ms_attempt W m1 true None now); [exact (Hy eq_refl) | rewrite (Hno eq_refl), Ht1; reflexivity].
        * assert (Ht1 : ms_target m1 = TMulti i) by (unfold m1, suspend_mid; cbn; now rewrite Hcl).
          assert (Hatt : ms_attempt W m1 true None now = false) by (unfold ms_attempt; now rewrite Ht1).
          rewrite (Hno Hatt), Ht1. exact Hn.
      + unfold fst4; cbn [fst]. destruct (remove_idx_other m idx) as (_ & _ & _ & ->). exact Hn.
      + unfold fst4; cbn [fst]. destruct (ms_insert m loc) as [[m1 i]|] eqn:Ei; [|exact Hn].
        destruct (ms_insert_target m loc m1 i Ei) as (-> & _). exact Hn.
      + exfalso. exact (Hnm idx eq_refl).
      + unfold fst4; cbn. exact Hn.
      + destruct (emit_each nofail c (map TLine ws)) as [e c']. unfold fst4; cbn. exact Hn.
  Qed.

  Lemma mp_run_einv now acts : forall m c g, Forall act_ok2 acts -> EInv m g ->
    EInv (fst (fst (mp_run W H nofail now m c acts))) (acts_frame now m c acts g).
  Proof.
    induction acts as [|a r IH]; intros m c g Hok Hinv; cbn [mp_run acts_frame]; [exact Hinv|].
    inversion Hok as [|x y Ha Hr]; subst.
    pose proof (act_einv now m c a g Ha Hinv) as Hb. unfold fst4 in Hb.
    destruct (mp_exec1 W H nofail now m c a) as [[[m1 e1] c1] ok1]. cbn [fst] in Hb.
    specialize (IH m1 c1 _ Hr Hb).
    destruct (mp_run W H nofail now m1 c1 r) as [[m2 e2] c2]. exact IH.
  Qed.

  Lemma draw_actions_ok2 s b force : Forall act_ok2 (draw_actions W s b force).
  Proof. unfold draw_actions. destruct (b_target (get_bar s b)); ok2_tac. Qed.

  Lemma op_actions_ok2 s now o : o <> OSetAlign Bottom -> (forall b, o <> ODrop b) ->
    Forall act_ok2 (op_actions W s now o).
  Proof.
    intros Hnb Hnd.
    assert (Hp : forall b f, Forall act_ok2 (pos_actions W s b f now)).
    { intros b f. unfold pos_actions, tick_actions.
      destruct (ap_allow _ now) as [[|] ap']; [apply draw_actions_ok2 | constructor]. }
    destruct o; cbn [op_actions]; unfold tick_actions, finish_actions;
      try apply draw_actions_ok2; try apply Hp; try (now ok2_tac).
    - destruct (b_target (get_bar s b)); ok2_tac.
    - destruct (b_target (get_bar s b)); ok2_tac.
    - exfalso. exact (Hnd b eq_refl).
    - destruct loc; cbn;
        repeat match goal with
               | |- context [match b_target ?x with _ => _ end] => destruct (b_target x)
               | |- context [match ms_insert ?m ?l with _ => _ end] => destruct (ms_insert m l)
               end; ok2_tac.
    - destruct (b_target (get_bar s b)); ok2_tac.
    - constructor; [|constructor]. split; [exact I|]. split; [|intros; discriminate].
      intros E. injection E as ->. now apply Hnb.
  Qed.

  Definition quiet_op (o : op) : Prop := o <> OSetAlign Bottom /\ forall b, o <> ODrop b.

  Theorem multi_erase_count : forall ops s g,
    EInv (s_mp s) g -> Forall (fun x => quiet_op (snd x)) ops ->
    EInv (s_mp (run W H nofail s ops)) (hist_frame s ops g).
  Proof.
    induction ops as [|[now o] r IH]; intros s g Hinv Hops; cbn [run hist_frame]; [exact Hinv|].
    inversion Hops as [|x y [Ho1 Ho2] Hr]; subst. cbn [snd] in *.
    apply IH; [|exact Hr]. unfold op_frame.
    destruct (step_mp W H nofail s now o) as [E _]. cbn [fst] in E. rewrite E.
    apply mp_run_einv; [apply op_actions_ok2; assumption | exact Hinv].
  Qed.

  (** the statement for props/C19.v: the counters after every history, and what the NEXT attempted
      draw erases *)
  Theorem multi_erase_count_full ops s :
    NoZ (s_mp s) -> TopAl (s_mp s) -> target_n (ms_target (s_mp s)) = 0 ->
    Forall (fun x => quiet_op (snd x)) ops ->
    let m' := s_mp (run W H nofail s ops) in
    let P := painted (hist_frame s ops []) W H 0 in
    target_n (ms_target m') = bar_rows P W /\ bar_rows P W <= H
    /\ ms_zombie_lines m' = 0
    /\ (forall extra, ms_erase_n m' extra = bar_rows P W).
  Proof.
    intros HZ HT Hn Hops. cbv zeta.
    destruct (multi_erase_count ops s [] (conj HZ (conj HT Hn)) Hops) as ([Hz Hm] & _ & Hc).
    split; [exact Hc|]. split; [apply painted_rows_le|]. split; [exact Hz|].
    intros extra. unfold ms_erase_n. rewrite Hz, Hc. destruct (ms_has_text _ extra); lia.
  Qed.
End EraseCount.

(* ------------------------------------------------------------------ last_line_count <= H, no ghost
   After fix 7d42cff (the count is capped at the terminal height before it is used) the bound needs
   no padding ghost any more: every attempted draw leaves last_line_count <= H under either alignment
   ([term_draw_le]); LineAdjust::Clear inflates the count only inside a call that draws right away
   (a draw carrying text lines is never refused by the limiter), LineAdjust::Keep only lowers it. *)
Section RowsH.
  Variable W H : N.
  (** ANY fault oracle: [fails k] = the k-th fallible terminal call fails *)
  Variable fails : N -> bool.

  (** after fix 7d42cff EVERY draw leaves last_line_count <= H, under either alignment, ALSO when a
      terminal call of the draw fails: the code caps `*bar_count` in place before its first fallible
      call (Sys.term_draw: [N.min (tt_n t) H] after a failed draw) *)
  Lemma term_draw_le_f tg ls c : tt_n (fst4 (term_draw W H fails tg ls c)) <= H.
  Proof.
    unfold term_draw, fst4.
    pose proof (draw_rows_bounded_bottom W H ls (tt_n tg) (tt_below tg)) as Hb.
    pose proof (SingleBarProofs.draw_rows_bounded W H ls (tt_n tg) (tt_below tg)) as Ht.
    cbv zeta in Hb, Ht.
    destruct (tt_align tg).
    - destruct (draw_to_term ls (tt_n tg) Top (tt_below tg) W H) as [[ops n'] below'].
      destruct (emit fails c ops) as [[e c'] [|]]; cbn [fst snd tt_n] in *; lia.
    - destruct (draw_to_term ls (tt_n tg) Bottom (tt_below tg) W H) as [[ops n'] below'].
      destruct (emit fails c ops) as [[e c'] [|]]; cbn [fst snd tt_n] in *; lia.
  Qed.

  Lemma ms_clear_le_f m c : target_n (ms_target m) <= H ->
    target_n (ms_target (fst4 (ms_clear W H fails m c))) <= H.
  Proof.
    intros Hn. unfold ms_clear. destruct (ms_target m) as [|tg|i] eqn:Ht.
    - unfold fst4; cbn [fst]. now rewrite Ht.
    - pose proof (term_draw_le_f (tt_adjust_clear tg (ms_zombie_lines m)) [] c) as Tn. unfold fst4 in *.
      destruct (term_draw W H fails (tt_adjust_clear tg (ms_zombie_lines m)) [] c) as [[[tg2 e] c'] ok].
      cbn [fst ms_target set_ms_target set_ms_zombie_lines target_n] in *. exact Tn.
    - unfold fst4; cbn [fst]. now rewrite Ht.
  Qed.

  (** MultiState::draw: a refused draw carries no text lines (has_text_forced), so LineAdjust::Clear has
      not inflated the count; an attempted draw ends in [term_draw] (<= H, failed or not), Keep only
      lowers the count *)
  Lemma ms_draw_le_f m force extra now c : act_wf (ADraw force extra) -> target_n (ms_target m) <= H ->
    target_n (ms_target (fst4 (ms_draw W H fails m force extra now c))) <= H.
  Proof.
    intros Hwf Hinv. destruct (ms_target m) as [|tg|i] eqn:Ht.
    - rewrite ms_draw_hidden by (rewrite Ht; discriminate). unfold fst4; cbn [fst]. now rewrite Ht.
    - rewrite (ms_draw_unfold W H fails m force extra now c tg Ht). cbn zeta.
      set (ht := ms_has_text m extra) in *.
      set (tg1 := if ht then tt_adjust_clear tg (ms_zombie_lines m) else tg).
      set (fo := force || (0 <? visual_line_count (ms_orphans m) W)).
      destruct (tt_allow_fields tg1 fo now) as (En & Eb & Ea).
      destruct (fst (tt_allow tg1 fo now)) eqn:Eal; cbn [negb fst snd].
      + match goal with |- context [term_draw W H fails ?t ?l c] =>
          pose proof (term_draw_le_f t l c) as Tn; set (td := term_draw W H fails t l c) in * end.
        unfold fst4 in Tn.
        match goal with |- context [fold_left ms_remove_idx ?zs ?m0] =>
          destruct (fold_remove_other zs m0) as (Fa & _ & _ & Ft); set (m2 := fold_left ms_remove_idx zs m0) in * end.
        cbn [ms_target ms_align set_ms_target set_ms_zombie_lines set_ms_orphans] in Fa, Ft.
        unfold fst4. destruct ht; cbn [fst].
        * rewrite Ft. cbn [target_n]. exact Tn.
        * cbn [ms_target set_ms_target set_ms_zombie_lines]. rewrite Ft.
          cbn [target_adjust_keep target_n tt_adjust_keep tt_n]. lia.
      + unfold fst4; cbn [fst]. cbn [ms_target set_ms_target set_ms_zombie_lines target_n].
        assert (Hht : ht = false).
        { destruct ht eqn:Eht; [|reflexivity]. exfalso.
          assert (Hfo : fo = true) by (apply (has_text_forced W m force extra); assumption).
          unfold tt_allow in Eal. rewrite Hfo in Eal. cbn in Eal. discriminate. }
        rewrite En. unfold tg1. rewrite Hht. cbn [target_n] in Hinv. exact Hinv.
    - rewrite ms_draw_hidden by (rewrite Ht; discriminate). unfold fst4; cbn [fst]. now rewrite Ht.
  Qed.

  Lemma ms_suspend_le_f m ws now c : target_n (ms_target m) <= H ->
    target_n (ms_target (fst (fst (ms_suspend W H fails m ws now c)))) <= H.
  Proof.
    intros Hinv. unfold ms_suspend.
    pose proof (ms_clear_le_f m c Hinv) as Hcl. unfold fst4 in Hcl.
    destruct (ms_clear W H fails m c) as [[[m1 e1] c1] ok1]. cbn [fst] in Hcl.
    set (m1' := set_ms_target m1 _).
    destruct (emit_each fails c1 (map TLine ws)) as [e2 c2].
    assert (H1 : target_n (ms_target m1') <= H).
    { unfold m1'. cbn [ms_target set_ms_target]. destruct (ms_target m1); cbn [target_n tt_n]; lia. }
    pose proof (ms_draw_le_f m1' true None now c2 I H1) as Hd. unfold fst4 in Hd.
    destruct (ms_draw W H fails m1' true None now c2) as [[[m3 e3] c3] ok3]. cbn [fst] in *. exact Hd.
  Qed.

  Lemma act_le_H now m c a : act_wf a -> target_n (ms_target m) <= H ->
    target_n (ms_target (fst4 (mp_exec1 W H fails now m c a))) <= H.
  Proof.
    intros Hwf Hinv. destruct a as [idx texts bars|force extra| |ws|idx|loc|idx|al|ws]; cbn [mp_exec1].
    - unfold fst4; cbn. exact Hinv.
    - apply ms_draw_le_f; assumption.
    - apply ms_clear_le_f. exact Hinv.
    - pose proof (ms_suspend_le_f m ws now c Hinv) as Hs.
      destruct (ms_suspend W H fails m ws now c) as [[m' e] c']. unfold fst4; cbn [fst] in *. exact Hs.
    - unfold fst4; cbn [fst]. destruct (remove_idx_other m idx) as (_ & _ & _ & ->). exact Hinv.
    - unfold fst4; cbn [fst]. destruct (ms_insert m loc) as [[m1 i]|] eqn:Ei; [|exact Hinv].
      destruct (ms_insert_target m loc m1 i Ei) as (-> & _). exact Hinv.
    - unfold fst4; cbn [fst]. destruct (ms_mark_target W m idx) as (Hle & _). lia.
    - unfold fst4; cbn. exact Hinv.
    - destruct (emit_each fails c (map TLine ws)) as [e c']. unfold fst4; cbn. exact Hinv.
  Qed.

  Lemma mp_run_le_H now acts : forall m c, Forall act_wf acts -> target_n (ms_target m) <= H ->
    target_n (ms_target (fst (fst (mp_run W H fails now m c acts)))) <= H.
  Proof.
    induction acts as [|a r IH]; intros m c Hwf Hinv; cbn [mp_run]; [exact Hinv|].
    inversion Hwf as [|x y Ha Hr]; subst.
    pose proof (act_le_H now m c a Ha Hinv) as Hb. unfold fst4 in Hb.
    destruct (mp_exec1 W H fails now m c a) as [[[m1 e1] c1] ok1]. cbn [fst] in Hb.
    specialize (IH m1 c1 Hr Hb).
    destruct (mp_run W H fails now m1 c1 r) as [[m2 e2] c2]. exact IH.
  Qed.

  Lemma step_le_H s now o : target_n (ms_target (s_mp s)) <= H ->
    target_n (ms_target (s_mp (step_sys W H fails s now o))) <= H.
  Proof.
    intros Hinv. destruct (step_mp W H fails s now o) as [E _]. cbn [fst] in E. rewrite E.
    apply mp_run_le_H; [|exact Hinv].
    eapply Forall_impl; [|apply (op_actions_ok W false s now o); discriminate]. intros a [Ha _]. exact Ha.
  Qed.

  (** C19 (c) for MultiProgress, every history of public calls (valid or not), ANY alignment and
      any alignment changes, ANY fault oracle (every terminal call may fail or not): after every call
      last_line_count <= H *)
  Theorem multi_rows_le_H : forall ops s, target_n (ms_target (s_mp s)) <= H ->
    target_n (ms_target (s_mp (run W H fails s ops))) <= H.
  Proof.
    induction ops as [|[now o] r IH]; intros s Hinv; cbn [run]; [exact Hinv|].
    apply IH. apply step_le_H. exact Hinv.
  Qed.
End RowsH.
