(** C06_equiv over histories that contain iterator-exhaustion events ([iop] of model/SimCheck.v). *)
From IndModel Require Import Base Text Draw Sys SimSpec SysCheck SimCheck.
From IndProofs Require Import SimProofs.
From Coq Require Import List NArith Bool Lia.
Import ListNotations.
Open Scope N_scope.

Lemma istep_logic W H fails s now io :
  bars_logic (fst (fst (istep W H fails s now io))) = ilstep now io (bars_logic s).
Proof.
  destruct io as [o|b|b]; cbn [istep ilstep].
  - apply step_logic.
  - apply iter_none_logic.
  - pose proof (iter_none_logic W H fails s now b) as H1.
    destruct (iter_none_step W H fails s now b) as [[s1 e1] ok1]. cbn [fst] in H1.
    pose proof (step_logic W H fails s1 now (ODrop b)) as H2.
    destruct (step W H fails s1 now (ODrop b)) as [[s2 e2] ok2]. cbn [fst] in *.
    rewrite H2, H1. reflexivity.
Qed.

Lemma iter_none_all_hidden W H fails s now b :
  all_hidden s -> all_hidden (fst (fst (iter_none_step W H fails s now b))).
Proof.
  intros Hh. unfold iter_none_step. destruct (finished (get_bar s b)); [exact Hh|].
  now apply all_hidden_preserved.
Qed.

Lemma istep_all_hidden W H fails s now io :
  all_hidden s -> all_hidden (fst (fst (istep W H fails s now io))).
Proof.
  intros Hh. destruct io as [o|b|b]; cbn [istep].
  - now apply all_hidden_preserved.
  - now apply iter_none_all_hidden.
  - pose proof (iter_none_all_hidden W H fails s now b Hh) as H1.
    destruct (iter_none_step W H fails s now b) as [[s1 e1] ok1]. cbn [fst] in H1.
    pose proof (all_hidden_preserved W H fails s1 now (ODrop b) H1) as H2.
    destruct (step W H fails s1 now (ODrop b)) as [[s2 e2] ok2]. exact H2.
Qed.

Lemma istep_silent W H fails s now io :
  all_hidden s -> iclosure_writes io = [] -> snd (fst (istep W H fails s now io)) = [].
Proof.
  intros Hh Hc. destruct io as [o|b|b]; cbn [istep iclosure_writes] in *.
  - destruct (step_silent W H fails s now o (all_hidden_subject s o Hh)) as (He & _ & _).
    rewrite He, Hc. reflexivity.
  - apply iter_none_silent. now apply all_hidden_bar.
  - pose proof (iter_none_all_hidden W H fails s now b Hh) as H1.
    destruct (iter_none_silent W H fails s now b (all_hidden_bar s b Hh)) as [He1 _].
    destruct (iter_none_step W H fails s now b) as [[s1 e1] ok1]. cbn [fst snd] in *.
    destruct (step_silent W H fails s1 now (ODrop b) (all_hidden_subject s1 _ H1)) as (He2 & _ & _).
    destruct (step W H fails s1 now (ODrop b)) as [[s2 e2] ok2]. cbn [fst snd] in *.
    rewrite He1, He2. reflexivity.
Qed.

Lemma irun_logics_spec W H fails h : forall s ls,
  bars_logic s = ls ->
  irun_logics W H fails s h
  = (fix go ls h := match h with [] => [] | (now, io) :: r => ilstep now io ls :: go (ilstep now io ls) r end) ls h.
Proof.
  induction h as [|[now io] r IH]; intros s ls Hl; cbn [irun_logics]; [reflexivity|].
  pose proof (istep_logic W H fails s now io) as Hs.
  destruct (istep W H fails s now io) as [[s1 e] ok]. cbn [fst] in Hs. rewrite Hl in Hs.
  rewrite Hs. f_equal. apply IH. exact Hs.
Qed.

(** C06_equiv with iterator events: equal logic stays equal after every event - ops AND the end
    of a wrapped iterator - whatever the targets, terminals, MultiProgress states, fault oracles;
    and the system in which nothing can draw makes no terminal call over the whole history. *)
Theorem equiv_with_iterators W1 H1 f1 W2 H2 f2 s1 s2 h :
  bars_logic s1 = bars_logic s2 ->
  irun_logics W1 H1 f1 s1 h = irun_logics W2 H2 f2 s2 h.
Proof.
  intros Heq. rewrite (irun_logics_spec W1 H1 f1 h s1 _ eq_refl), (irun_logics_spec W2 H2 f2 h s2 _ eq_refl), Heq.
  reflexivity.
Qed.

Theorem irun_all_hidden_silent W H fails h : forall s,
  all_hidden s -> Forall (fun x => iclosure_writes (snd x) = []) h ->
  snd (irun W H fails s h) = [] /\ all_hidden (fst (irun W H fails s h)).
Proof.
  induction h as [|[now io] r IH]; intros s Hh Hc; cbn [irun]; [split; [reflexivity|exact Hh]|].
  inversion Hc as [|? ? Hio Hr]; subst. cbn [snd] in Hio.
  pose proof (istep_silent W H fails s now io Hh Hio) as He.
  pose proof (istep_all_hidden W H fails s now io Hh) as Hp.
  destruct (istep W H fails s now io) as [[s1 e] ok]. cbn [fst snd] in *.
  destruct (IH s1 Hp Hr) as [He2 Hh2]. destruct (irun W H fails s1 r) as [s2 e2]. cbn [fst snd] in *.
  subst. split; [reflexivity|exact Hh2].
Qed.

Theorem equiv_with_iterators_hidden W1 H1 f1 W2 H2 f2 s1 s2 h :
  bars_logic s1 = bars_logic s2 -> all_hidden s1 ->
  Forall (fun x => iclosure_writes (snd x) = []) h ->
  irun_logics W1 H1 f1 s1 h = irun_logics W2 H2 f2 s2 h /\ snd (irun W1 H1 f1 s1 h) = [].
Proof.
  intros Heq Hh Hc. split; [now apply equiv_with_iterators|].
  apply (irun_all_hidden_silent W1 H1 f1 h s1 Hh Hc).
Qed.
