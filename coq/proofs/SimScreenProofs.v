(** C04 at screen level for the standalone bar: composition of C01's screen theorem
    (SingleBarProofs.c01_screen, terminal semantics of model/Term.v) with the call-level
    final-frame theorem (SimProofs.finish_paints_standalone). *)
From IndModel Require Import Base Text Draw Sys SimSpec SingleBar.
From IndProofs Require Import TermProofs SingleBarProofs SimProofs.
From Coq Require Import List NArith Bool Lia.
Import ListNotations.
Open Scope N_scope.

Lemma sb_run_snoc W H st h x : sb_run W H st (h ++ [x]) = sb_step W H (sb_run W H st h) x.
Proof. unfold sb_run. rewrite fold_left_app. reflexivity. Qed.

Lemma finishing_step W H s tg now o k :
  b_target (get_bar s 0) = TTerm tg -> finishing_op s o = Some k ->
  let fb := final_of k (get_bar s 0) in
  let '(s', e, _) := step W H nofail s now o in
  e <> [] /\ frame_of (get_bar s' 0) = frame_of fb /\ logic_of (get_bar s' 0)
     = (match o with ODrop _ => lw_alive (logic_of fb) false | _ => logic_of fb end)
  /\ op_log o = [].
Proof.
  intros Ht Hop. cbv zeta.
  assert (Hfin : forall k0,
    let '(s', e, _) := step W H nofail s now (OFinish 0 k0) in
    e <> [] /\ get_bar s' 0 = set_b_target (final_of k0 (get_bar s 0))
                 (TTerm (mktt (draw_n (frame_of (final_of k0 (get_bar s 0))) (tt_n tg) (tt_align tg) (tt_below tg) W H)
                              (tt_rl tg) (tt_align tg)
                              (draw_below (frame_of (final_of k0 (get_bar s 0))) (tt_n tg) (tt_align tg) (tt_below tg) W H)))
    /\ (forall idx, b_target (get_bar s' 0) <> TMulti idx)).
  { intros k0. pose proof (finish_paints_standalone W H s 0 tg k0 now Ht) as Hp. cbv zeta in Hp.
    change no_faults with nofail in Hp.
    destruct (step W H nofail s now (OFinish 0 k0)) as [[s' e] ok].
    destruct Hp as (He & _ & Hg & _). split; [|split; [exact Hg|]].
    - rewrite He. apply draw_to_term_nonempty.
    - intros idx. rewrite Hg. discriminate. }
  destruct o as [| | | | | | | | | | | | | | | |b k0|b| | |b| | | | | |]; try discriminate Hop.
  - destruct b; [|discriminate Hop]. inversion Hop; subst k0. specialize (Hfin k).
    destruct (step W H nofail s now (OFinish 0 k)) as [[s' e] ok]. destruct Hfin as (He & Hg & _).
    rewrite Hg. split; [exact He|]. split; [apply frame_of_set_target|]. split; reflexivity.
  - destruct b; [|discriminate Hop]. inversion Hop; subst k. rewrite finish_using_style_eq.
    specialize (Hfin (b_on_finish (get_bar s 0))).
    destruct (step W H nofail s now (OFinish 0 (b_on_finish (get_bar s 0)))) as [[s' e] ok].
    destruct Hfin as (He & Hg & _). rewrite Hg. split; [exact He|]. split; [apply frame_of_set_target|].
    split; reflexivity.
  - destruct b; [|discriminate Hop]. cbn [finishing_op] in Hop.
    destruct (finished (get_bar s 0)) eqn:Ef; [discriminate Hop|]. inversion Hop; subst k.
    pose proof (drop_unfinished_eq W H nofail s 0 now Ef) as Hd. rewrite finish_using_style_eq in Hd.
    specialize (Hfin (b_on_finish (get_bar s 0))).
    destruct (step W H nofail s now (OFinish 0 (b_on_finish (get_bar s 0)))) as [[s1 e] ok].
    destruct Hfin as (He & Hg & Hnm). rewrite Hd.
    rewrite (mark_zombie_standalone W s1 0 Hnm).
    assert (Hin : (N.to_nat 0 < length (s_bars s1))%nat).
    { apply target_in_range. rewrite Hg. discriminate. }
    rewrite (get_bar_upd_in s1 0 _ Hin), Hg.
    split; [exact He|]. split; [rewrite frame_of_set_alive; apply frame_of_set_target|]. split; reflexivity.
Qed.

(** C04_final_screen_standalone: any history of the single standalone bar under C01's provisos
    (W, H >= 1; suspend closures write non-empty lines; [Fits]: the bar rows of every painted
    frame - the final one included - fit the terminal height) followed by a finishing call
    (finish variant / finish_using_style / drop of the unfinished bar): afterwards the screen is
    earlier output ++ the log ++ the rendering of the FINAL state (rows of W cells, only blank
    rows below), the cursor is at column 0 of the row below, and the bar's logic is the final
    state of C04_final_state. *)
Theorem finish_screen_standalone (W H : N) pre s0 t0 h now o :
  1 <= W -> 1 <= H ->
  sb_initial s0 -> ready (N.to_nat W) (N.to_nat H) pre t0 ->
  hist_ok W H s0 (ghost_for t0) (h ++ [(now, o)]) -> Fits W H s0 (h ++ [(now, o)]) ->
  let st1 := sb_run W H (s0, ghost_for t0, t0) h in
  let st2 := sb_run W H (s0, ghost_for t0, t0) (h ++ [(now, o)]) in
  forall k, finishing_op (fst (fst st1)) o = Some k ->
  let final := final_of k (get_bar (fst (fst st1)) 0) in
  let rows := pre ++ wrap (N.to_nat W) (g_log (snd (fst st1))) ++ wrap (N.to_nat W) (map lt (frame_of final)) in
  (exists j, screen (N.to_nat W) (snd st2)
             = map (pad (N.to_nat W)) rows ++ repeat (repeat SP (N.to_nat W)) j)
  /\ next_cell (N.to_nat W) (snd st2) = (length rows, 0%nat)
  /\ logic_of (get_bar (fst (fst st2)) 0)
     = (match o with ODrop _ => lw_alive (logic_of final) false | _ => logic_of final end).
Proof.
  intros HW HH Hi Hr Hok Hf. cbv zeta. intros k Hop.
  pose proof (c01_screen W H HW HH pre s0 t0 _ Hi Hr Hok Hf) as Hs. cbv zeta in Hs.
  pose proof (c01_invariant W H HW HH pre s0 t0 h Hi Hr (hist_ok_prefix _ _ _ _ _ _ Hok) (fits_prefix _ _ _ _ _ Hf)) as Hinv.
  rewrite sb_run_snoc in *.
  destruct (sb_run W H (s0, ghost_for t0, t0) h) as [[s1 g1] t1]. cbn [fst snd] in *.
  unfold SInv in Hinv. cbn [fst snd] in Hinv.
  destruct Hinv as (b & tg & Hsb & _). pose proof (SB_get _ _ _ Hsb) as Hg. destruct Hsb as [_ Hbt].
  assert (Ht : b_target (get_bar s1 0) = TTerm tg) by (rewrite Hg; exact Hbt).
  pose proof (finishing_step W H s1 tg now o k Ht Hop) as Hfs. cbv zeta in Hfs.
  unfold sb_step in *. cbn [fst snd] in *.
  destruct (step W H nofail s1 now o) as [[s2 e] ok]. cbn [fst snd] in *.
  destruct Hfs as (He & Hfr & Hlog & Hol).
  unfold expected_rows, gstep in Hs. cbn [g_log g_frame] in Hs. rewrite Hol, app_nil_r in Hs.
  destruct e as [|e0 er]; [congruence|]. rewrite Hfr in Hs.
  destruct Hs as [Hs1 Hs2]. split; [exact Hs1|]. split; [exact Hs2|exact Hlog].
Qed.
