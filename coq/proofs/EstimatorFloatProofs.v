(** C09 – statements about the binary64 (Flocq) instance [FL] of the estimator model:
    the two f64 artefacts inside the property's quantifier (NaN at the instant of a recorded
    backwards seek; rate exactly 0 once the weight underflows) and float-side sanity
    (finite, non-negative rate whenever the supplied powf values are weights). *)
From IndModel Require Import Base Estimator.
From IndGen Require Import Constants.
From IndProofs Require Import EstimatorProofs EstimatorBarProofs.
From Coq Require Import Reals Lra Lia ZArith NArith List Bool.
From Flocq Require Import Core.Zaux Core.Raux Core.Defs Core.Generic_fmt Core.FLT IEEE754.BinarySingleNaN.
Import ListNotations.

(** * NaN at the instant of a recorded backwards seek (no reset anywhere in the history):
    create at 0 (length 100); update(set_pos 10) at 1 s; update(set_pos 5) at 2 s; query at 2 s.
    The table holds what 0.1f64.powf returns for the two exponents that occur (1/15 and 0). *)
Definition nan_wit_ops : list eop :=
  [Adv 1000000000; UpdPos 10; Adv 1000000000; UpdPos 5; Query].
Definition nan_wit_tbl : list (N * N) :=
  [(4589468260265693457, 4605900657403858723); (0, ONE_BITS)]%N.

Theorem fl_rewind_instant_nan :
  exists tbl len t0 ops,
    table_ok tbl = true /\ forallb (fun o => negb (is_reset_op o)) ops = true /\
    run_obs (FL.ar tbl) FL.to_bits len t0 ops =
      [(NAN_BITS, Some 0, Some 2000000000, 2000000000)%N].
Proof.
  exists nan_wit_tbl, (Some 100%N), 0%N, nan_wit_ops.
  split; [reflexivity|]. split; [reflexivity|]. vm_compute. reflexivity.
Qed.

(** * The rate is exactly 0 (and eta() = 0) as soon as powf returns 0 for both ages, whatever
    the estimator has learned *)
Definition fzero64 : FL.F := B754_zero false.

Lemma fl_one_minus_zero : forall p, sub (FL.arp p) (fone (FL.arp p)) fzero64 = fone (FL.arp p).
Proof. intros p. vm_compute. reflexivity. Qed.

Theorem fl_rate_zero_when_weight_zero : forall p (e : est FL.F) now,
  is_finite (sm e) = true -> is_finite (dsm e) = true ->
  est_weight (FL.arp p) (dur_secs (FL.arp p) (since now (prev_time e))) = fzero64 ->
  est_weight (FL.arp p) (dur_secs (FL.arp p) (since now (start_time e))) = fzero64 ->
  is_zero (FL.arp p) (est_sps (FL.arp p) e now) = true.
Proof.
  intros p e now Hs Hd H1 H2. unfold est_sps. cbv zeta. change (T (FL.arp p)) with FL.F in *. rewrite H1, H2, fl_one_minus_zero.
  destruct (sm e) as [s1| | |s1 m1 e1 B1]; try discriminate Hs;
    destruct (dsm e) as [s2| | |s2 m2 e2 B2]; try discriminate Hd;
    destruct s1, s2; vm_compute; reflexivity.
Qed.

Theorem fl_eta_zero_when_weight_zero : forall p (b : bar FL.F) now,
  is_finite (sm (b_est b)) = true -> is_finite (dsm (b_est b)) = true ->
  est_weight (FL.arp p) (dur_secs (FL.arp p) (since now (prev_time (b_est b)))) = fzero64 ->
  est_weight (FL.arp p) (dur_secs (FL.arp p) (since now (start_time (b_est b)))) = fzero64 ->
  bar_eta (FL.arp p) b now = Some 0%N.
Proof.
  intros p b now Hs Hd H1 H2.
  apply (eta_no_rate (FL.arp p)).
  exact (fl_rate_zero_when_weight_zero p (b_est b) now Hs Hd H1 H2).
Qed.
