(** C09 – statements about the binary64 (Flocq) instance [FL] of the estimator model:
    the two f64 artefacts inside the property's quantifier (NaN at the instant of a recorded
    backwards seek; rate exactly 0 once the weight underflows) and float-side sanity
    (finite, non-negative rate whenever the supplied powf values are weights). *)
From IndModel Require Import Base Estimator.
From IndGen Require Import Constants.
From IndProofs Require Import EstimatorProofs EstimatorBarProofs.
From Coq Require Import Reals Lra Lia ZArith NArith List Bool.
From Flocq Require Import Core Sterbenz BinarySingleNaN.
Import ListNotations.

(** * The instant of a recorded backwards seek (no reset anywhere in the history):
    create at 0 (length 100); update(set_pos 10) at 1 s; update(set_pos 5) at 2 s; query at 2 s.
    The table holds what 0.1f64.powf returns for the two exponents that occur (1/15 and 0).
    REGRESSION: the function before fix 56491a5 yields NaN (0 * 1 / 0); the current one 0.0, and
    the whole observation is (per_sec +0.0, eta 0, duration = elapsed = 2 s). *)
Definition nan_wit_ops : list eop :=
  [Adv 1000000000; UpdPos 10; Adv 1000000000; UpdPos 5; Query].
Definition nan_wit_tbl : list (N * N) :=
  [(4589468260265693457, 4605900657403858723); (0, ONE_BITS)]%N.

Theorem fl_rewind_instant_pre_56491a5 :
  exists tbl len t0 ops,
    table_ok tbl = true /\ forallb (fun o => negb (is_reset_op o)) ops = true /\
    let b := fst (run_state (FL.ar tbl) ops t0 (bar_new (FL.ar tbl) len t0)) in
    let now := snd (run_state (FL.ar tbl) ops t0 (bar_new (FL.ar tbl) len t0)) in
    (t0 < now)%N /\ b_done b = false /\
    FL.to_bits (est_sps_pre_56491a5 (FL.ar tbl) (b_est b) now) = NAN_BITS /\
    FL.to_bits (est_sps (FL.ar tbl) (b_est b) now) = 0%N /\
    run_obs (FL.ar tbl) FL.to_bits len t0 ops = [(0, Some 0, Some 2000000000, 2000000000)%N].
Proof.
  exists nan_wit_tbl, (Some 100%N), 0%N, nan_wit_ops.
  split; [reflexivity|]. split; [reflexivity|]. cbv zeta.
  split; [vm_compute; reflexivity|]. split; [vm_compute; reflexivity|].
  split; [vm_compute; reflexivity|]. split; vm_compute; reflexivity.
Qed.

(** * The rate is exactly 0 (and eta() = 0) as soon as powf returns 0 for both ages, whatever
    the estimator has learned *)
Definition fzero64 : FL.F := B754_zero false.

(* no [vm_compute] to a normal form that contains a float: reading back the proof inside
   [B754_finite] is what is slow, not the computation *)
Lemma fsub_zero_r : forall x : FL.F, is_finite_strict x = true ->
  @Bminus 53 1024 FL.Hp FL.Hm mode_NE x fzero64 = x.
Proof. intros [s|s| |s m e H] Hx; try discriminate Hx. reflexivity. Qed.

Lemma fone_strict : forall p, is_finite_strict (fone (FL.arp p)) = true.
Proof. intros p. vm_compute. reflexivity. Qed.

Lemma zero_rate_shape : forall o s d : FL.F,
  is_finite_strict o = true -> is_finite s = true -> is_finite d = true ->
  FL.fis_zero
    (@Bdiv 53 1024 FL.Hp FL.Hm mode_NE
       (@Bplus 53 1024 FL.Hp FL.Hm mode_NE
          (@Bmult 53 1024 FL.Hp FL.Hm mode_NE d fzero64)
          (@Bmult 53 1024 FL.Hp FL.Hm mode_NE
             (@Bdiv 53 1024 FL.Hp FL.Hm mode_NE (@Bmult 53 1024 FL.Hp FL.Hm mode_NE s fzero64) o) o))
       o) = true.
Proof.
  intros [so|so| |so mo eo Ho] [ss|ss| |ss ms es Hs] [sd|sd| |sd md ed Hd] Fo Fs Fd;
    try discriminate Fo; try discriminate Fs; try discriminate Fd;
    destruct so, ss, sd; reflexivity.
Qed.

Theorem fl_rate_zero_when_weight_zero : forall p (e : est FL.F) now,
  is_finite (sm e) = true -> is_finite (dsm e) = true ->
  est_weight (FL.arp p) (dur_secs (FL.arp p) (since now (prev_time e))) = fzero64 ->
  est_weight (FL.arp p) (dur_secs (FL.arp p) (since now (start_time e))) = fzero64 ->
  is_zero (FL.arp p) (est_sps (FL.arp p) e now) = true.
Proof.
  intros p e now Hs Hd H1 H2. unfold est_sps. cbv zeta. change (T (FL.arp p)) with FL.F in *.
  rewrite H1, H2.
  change (sub (FL.arp p)) with (@Bminus 53 1024 FL.Hp FL.Hm mode_NE).
  rewrite (fsub_zero_r _ (fone_strict p)).
  assert (Hnz : is_zero (FL.arp p) (fone (FL.arp p)) = false).
  { cbn [is_zero FL.arp]. assert (H := fone_strict p).
    destruct (fone (FL.arp p)); try discriminate H. reflexivity. }
  rewrite Hnz.
  exact (zero_rate_shape (fone (FL.arp p)) (sm e) (dsm e) (fone_strict p) Hs Hd).
Qed.

Theorem fl_eta_zero_when_weight_zero : forall p (b : bar FL.F) now,
  is_finite (sm (b_est b)) = true -> is_finite (dsm (b_est b)) = true ->
  est_weight (FL.arp p) (dur_secs (FL.arp p) (since now (prev_time (b_est b)))) = fzero64 ->
  est_weight (FL.arp p) (dur_secs (FL.arp p) (since now (start_time (b_est b)))) = fzero64 ->
  bar_eta (FL.arp p) b now = Some 0%N.
Proof.
  intros p b now Hs Hd H1 H2.
  apply (eta_no_rate (FL.arp p)).
  exact (fl_rate_zero_when_weight_zero p (b_est b) now Hs Hd H1 H2).
Qed.

(** * Float-side sanity: the rate is finite and non-negative in binary64
    Toolbox: round-to-nearest-even in binary64, monotone, fixes powers of two. *)
Notation fexp64 := (FLT_exp (-1074) 53).
Notation RN := (round radix2 fexp64 ZnearestE).
Notation fmt := (generic_format radix2 fexp64).
Notation F := FL.F.
Notation fadd := (@Bplus 53 1024 FL.Hp FL.Hm mode_NE).
Notation fsub := (@Bminus 53 1024 FL.Hp FL.Hm mode_NE).
Notation fmul := (@Bmult 53 1024 FL.Hp FL.Hm mode_NE).
Notation fdiv := (@Bdiv 53 1024 FL.Hp FL.Hm mode_NE).

#[local] Instance prec_gt_0_53 : Prec_gt_0 53 := FL.Hp.
#[local] Instance valid_fexp64 : Valid_exp fexp64 := FLT_exp_valid (-1074) 53.
#[local] Instance monotone_fexp64 : Monotone_exp fexp64 := FLT_exp_monotone (-1074) 53.

Lemma fmt_bpow : forall k, (-1074 <= k)%Z -> fmt (bpow radix2 k).
Proof. intros k Hk. apply generic_format_FLT_bpow; [exact FL.Hp | exact Hk]. Qed.

Lemma fmt_B2R : forall x : F, fmt (B2R x).
Proof. intros x. apply (generic_format_B2R 53 1024 x). Qed.

Lemma RN_le_bpow : forall x k, (-1074 <= k)%Z -> x <= bpow radix2 k -> RN x <= bpow radix2 k.
Proof. intros x k Hk H. apply round_le_generic; auto with typeclass_instances. now apply fmt_bpow. Qed.

Lemma RN_ge_bpow : forall x k, (-1074 <= k)%Z -> bpow radix2 k <= x -> bpow radix2 k <= RN x.
Proof. intros x k Hk H. apply round_ge_generic; auto with typeclass_instances. now apply fmt_bpow. Qed.

Lemma RN_ge_0 : forall x, 0 <= x -> 0 <= RN x.
Proof.
  intros x H. apply round_ge_generic; auto with typeclass_instances. apply generic_format_0.
Qed.

Lemma RN_le_fmt : forall x y, fmt y -> x <= y -> RN x <= y.
Proof. intros x y Hy H. apply round_le_generic; auto with typeclass_instances. Qed.

Lemma no_overflow64 : forall x, 0 <= x <= bpow radix2 1023 ->
  Rlt_bool (Rabs (round radix2 (SpecFloat.fexp 53 1024) (round_mode mode_NE) x)) (bpow radix2 1024) = true.
Proof.
  intros x [H0 H1]. apply Rlt_bool_true.
  change (SpecFloat.fexp 53 1024) with fexp64. cbn [round_mode].
  rewrite Rabs_pos_eq by now apply RN_ge_0.
  apply Rle_lt_trans with (bpow radix2 1023); [apply RN_le_bpow; [lia | exact H1]|].
  apply bpow_lt. lia.
Qed.

(** finite, non-negative and at most 2^k *)
Definition bnd (x : F) (k : Z) : Prop := is_finite x = true /\ 0 <= B2R x <= bpow radix2 k.

Lemma bnd_weaken : forall x k k', bnd x k -> (k <= k')%Z -> bnd x k'.
Proof.
  intros x k k' (Hf & H0 & H1) Hk. split; [exact Hf|]. split; [exact H0|].
  apply Rle_trans with (1 := H1). now apply bpow_le.
Qed.

Lemma fmul_bnd : forall a b ka kb, bnd a ka -> bnd b kb -> (-1074 <= ka + kb <= 1023)%Z ->
  bnd (fmul a b) (ka + kb) /\ B2R (fmul a b) = RN (B2R a * B2R b).
Proof.
  intros a b ka kb (Fa & Ha0 & Ha1) (Fb & Hb0 & Hb1) Hk.
  assert (Hp : 0 <= B2R a * B2R b <= bpow radix2 (ka + kb)).
  { split; [now apply Rmult_le_pos|]. rewrite bpow_plus. apply Rmult_le_compat; assumption. }
  pose proof (Bmult_correct 53 1024 FL.Hp FL.Hm mode_NE a b) as H.
  rewrite no_overflow64 in H.
  - destruct H as (H1 & H2 & _). rewrite Fa, Fb in H2.
    change (SpecFloat.fexp 53 1024) with fexp64 in H1. cbn [round_mode] in H1.
    split; [|exact H1]. split; [exact H2|]. rewrite H1. split.
    + apply RN_ge_0, Hp.
    + apply RN_le_bpow; [lia | apply Hp].
  - split; [apply Hp|]. apply Rle_trans with (1 := proj2 Hp). apply bpow_le. lia.
Qed.

Lemma fdiv_bnd : forall a b ka kb, bnd a ka -> is_finite b = true -> bpow radix2 kb <= B2R b ->
  (-1074 <= ka - kb <= 1023)%Z ->
  bnd (fdiv a b) (ka - kb) /\ B2R (fdiv a b) = RN (B2R a / B2R b).
Proof.
  intros a b ka kb (Fa & Ha0 & Ha1) Fb Hb Hk.
  assert (Hb0 : 0 < B2R b) by (apply Rlt_le_trans with (2 := Hb); apply bpow_gt_0).
  assert (Hq : 0 <= B2R a / B2R b <= bpow radix2 (ka - kb)).
  { split; [apply Rmult_le_pos; [exact Ha0 | left; now apply Rinv_0_lt_compat]|].
    unfold Zminus. rewrite bpow_plus, bpow_opp. unfold Rdiv.
    apply Rmult_le_compat; try assumption.
    - left. now apply Rinv_0_lt_compat.
    - apply Rinv_le; [apply bpow_gt_0 | exact Hb]. }
  pose proof (Bdiv_correct 53 1024 FL.Hp FL.Hm mode_NE a b ltac:(lra)) as H.
  rewrite no_overflow64 in H.
  - destruct H as (H1 & H2 & _). rewrite Fa in H2.
    change (SpecFloat.fexp 53 1024) with fexp64 in H1. cbn [round_mode] in H1.
    split; [|exact H1]. split; [exact H2|]. rewrite H1. split.
    + apply RN_ge_0, Hq.
    + apply RN_le_bpow; [lia | apply Hq].
  - split; [apply Hq|]. apply Rle_trans with (1 := proj2 Hq). apply bpow_le. lia.
Qed.

Lemma fadd_bnd : forall a b k, is_finite a = true -> is_finite b = true ->
  0 <= B2R a -> 0 <= B2R b -> B2R a + B2R b <= bpow radix2 k -> (-1074 <= k <= 1023)%Z ->
  bnd (fadd a b) k /\ B2R (fadd a b) = RN (B2R a + B2R b).
Proof.
  intros a b k Fa Fb Ha Hb Hs Hk.
  pose proof (Bplus_correct 53 1024 FL.Hp FL.Hm mode_NE a b Fa Fb) as H.
  rewrite no_overflow64 in H.
  - destruct H as (H1 & H2 & _).
    change (SpecFloat.fexp 53 1024) with fexp64 in H1. cbn [round_mode] in H1.
    split; [|exact H1]. split; [exact H2|]. rewrite H1. split.
    + apply RN_ge_0. lra.
    + apply RN_le_bpow; [lia | exact Hs].
  - split; [lra|]. apply Rle_trans with (1 := Hs). apply bpow_le. lia.
Qed.

Definition fone64 : F := FL.of_Z 1 false.
Lemma fone64_correct : is_finite fone64 = true /\ B2R fone64 = 1.
Proof. split; [reflexivity|]. vm_compute. lra. Qed.

(** 1 - w for a weight w in [0,1] *)
Lemma fsub_one_bnd : forall w, bnd w 0 ->
  bnd (fsub fone64 w) 0 /\ B2R (fsub fone64 w) = RN (1 - B2R w).
Proof.
  intros w (Fw & H0 & H1). change (bpow radix2 0) with 1 in H1.
  destruct fone64_correct as [F1 E1].
  pose proof (Bminus_correct 53 1024 FL.Hp FL.Hm mode_NE fone64 w F1 Fw) as H.
  rewrite E1 in H.
  rewrite no_overflow64 in H.
  - destruct H as (H2 & H3 & _).
    change (SpecFloat.fexp 53 1024) with fexp64 in H2. cbn [round_mode] in H2.
    split; [|exact H2]. split; [exact H3|]. rewrite H2. split.
    + apply RN_ge_0. lra.
    + apply RN_le_bpow; [lia|]. change (bpow radix2 0) with 1. lra.
  - split; [lra|]. apply Rle_trans with 1; [lra|]. change 1 with (bpow radix2 0). apply bpow_le. lia.
Qed.

(** a binary64 number below 1 is at most 1 - 2^-53, hence 1 - w >= 2^-53 *)
Lemma fmt_lt1 : forall x, fmt x -> x < 1 -> x <= 1 - bpow radix2 (-53).
Proof.
  intros x Fx H.
  replace (1 - bpow radix2 (-53)) with (pred radix2 fexp64 1).
  - apply pred_ge_gt; auto with typeclass_instances.
    change 1 with (bpow radix2 0). apply fmt_bpow. lia.
  - change 1 with (bpow radix2 0). rewrite pred_bpow. reflexivity.
Qed.

Lemma fsub_one_pos : forall w, bnd w 0 -> B2R w < 1 -> bpow radix2 (-53) <= B2R (fsub fone64 w).
Proof.
  intros w Hw Hlt. destruct (fsub_one_bnd w Hw) as [_ E]. rewrite E.
  apply RN_ge_bpow; [lia|]. assert (H := fmt_lt1 (B2R w) (fmt_B2R w) Hlt). lra.
Qed.

(** [n as f64] for an unsigned 64-bit n *)
Lemma of_int_bnd : forall p n, (n < U64)%N ->
  bnd (of_int (FL.arp p) n) 64 /\ B2R (of_int (FL.arp p) n) = RN (IZR (Z.of_N n)).
Proof.
  intros p n Hn. cbn [of_int FL.arp]. unfold FL.of_Z.
  pose proof (binary_normalize_correct 53 1024 FL.Hp FL.Hm mode_NE (Z.of_N n) 0 false) as H.
  cbv zeta in H.
  assert (E : F2R (Float radix2 (Z.of_N n) 0) = IZR (Z.of_N n)) by (unfold F2R; simpl; ring).
  rewrite E in H.
  assert (Hr : 0 <= IZR (Z.of_N n) <= bpow radix2 64).
  { split; [apply IZR_le; lia|]. change (bpow radix2 64) with (IZR (2 ^ 64)). apply IZR_le.
    unfold U64 in Hn. lia. }
  rewrite no_overflow64 in H.
  - destruct H as (H1 & H2 & _).
    change (SpecFloat.fexp 53 1024) with fexp64 in H1. cbn [round_mode] in H1.
    split; [|exact H1]. split; [exact H2|]. rewrite H1. split.
    + apply RN_ge_0, Hr.
    + apply RN_le_bpow; [lia | apply Hr].
  - split; [apply Hr|]. apply Rle_trans with (1 := proj2 Hr). apply bpow_le. lia.
Qed.

Lemma of_int_range : forall p n lo hi, (n < U64)%N -> (-1074 <= lo)%Z -> (-1074 <= hi)%Z ->
  bpow radix2 lo <= IZR (Z.of_N n) <= bpow radix2 hi ->
  bpow radix2 lo <= B2R (of_int (FL.arp p) n) <= bpow radix2 hi.
Proof.
  intros p n lo hi Hn Hlo Hhi [H1 H2]. destruct (of_int_bnd p n Hn) as [_ E]. rewrite E.
  split; [now apply RN_ge_bpow | now apply RN_le_bpow].
Qed.

Lemma bpow_double : forall k, bpow radix2 (k + 1) = bpow radix2 k + bpow radix2 k.
Proof. intros k. rewrite bpow_plus_1. change (IZR radix2) with 2. ring. Qed.

(** ** durations in seconds, the exponent handed to powf *)
Lemma NS_range : bpow radix2 29 <= IZR (Z.of_N NS_PER_SEC) <= bpow radix2 30.
Proof.
  unfold NS_PER_SEC. change (bpow radix2 29) with (IZR (2 ^ 29)). change (bpow radix2 30) with (IZR (2 ^ 30)).
  split; apply IZR_le; cbn; lia.
Qed.

(** [dur_secs d] for a duration below 2^64 ns: finite, at most 2^65, and at least 2^-30 when d >= 1 *)
Lemma dur_secs_bnd : forall p d, (d < U64)%N ->
  bnd (dur_secs (FL.arp p) d) 65 /\
  ((1 <= d)%N -> bpow radix2 (-30) <= B2R (dur_secs (FL.arp p) d)).
Proof.
  intros p d Hd. unfold dur_secs.
  assert (Hq : (d / NS_PER_SEC < U64)%N).
  { apply N.le_lt_trans with d; [|exact Hd]. apply N.div_le_upper_bound; [discriminate|].
    unfold NS_PER_SEC. lia. }
  assert (Hm : (d mod NS_PER_SEC < NS_PER_SEC)%N) by (apply N.mod_lt; discriminate).
  assert (Hm64 : (d mod NS_PER_SEC < U64)%N) by (unfold NS_PER_SEC, U64 in *; lia).
  destruct (of_int_bnd p (d / NS_PER_SEC) Hq) as [Bq Eq].
  destruct (of_int_bnd p (d mod NS_PER_SEC) Hm64) as [Bm Em].
  assert (Bm30 : bnd (of_int (FL.arp p) (d mod NS_PER_SEC)) 30).
  { destruct Bm as (Fm & Hm0 & _). split; [exact Fm|]. split; [exact Hm0|].
    rewrite Em. apply RN_le_bpow; [lia|]. apply Rle_trans with (2 := proj2 NS_range).
    apply IZR_le. lia. }
  assert (HNS64 : (NS_PER_SEC < U64)%N) by (unfold NS_PER_SEC, U64; lia).
  destruct (of_int_bnd p NS_PER_SEC HNS64) as [(FN & _) _].
  destruct (of_int_range p NS_PER_SEC 29 30 HNS64 ltac:(lia) ltac:(lia) NS_range) as [HN29 HN30].
  destruct (fdiv_bnd _ _ 30 29 Bm30 FN HN29 ltac:(lia)) as [Bf Ef].
  change (30 - 29)%Z with 1%Z in Bf.
  change (div (FL.arp p)) with fdiv. change (add (FL.arp p)) with fadd.
  destruct Bq as (Fq & Hq0 & Hq1). destruct Bf as (Ff & Hf0 & Hf1).
  assert (Hsum : B2R (of_int (FL.arp p) (d / NS_PER_SEC)) +
                 B2R (fdiv (of_int (FL.arp p) (d mod NS_PER_SEC)) (of_int (FL.arp p) NS_PER_SEC))
                 <= bpow radix2 65).
  { change 65%Z with (64 + 1)%Z. rewrite bpow_double.
    assert (bpow radix2 1 <= bpow radix2 64) by (apply bpow_le; lia). lra. }
  destruct (fadd_bnd _ _ 65 Fq Ff Hq0 Hf0 Hsum ltac:(lia)) as [Bs Es].
  split; [exact Bs|].
  intros H1. rewrite Es. apply RN_ge_bpow; [lia|].
  destruct (N.eq_dec (d / NS_PER_SEC) 0) as [Z | NZ].
  - (* below one second: the fraction is at least 1 / 2^30 *)
    assert (Hm1 : (1 <= d mod NS_PER_SEC)%N).
    { assert (E := N.div_mod d NS_PER_SEC ltac:(discriminate)). rewrite Z in E. lia. }
    assert (Hmr : 1 <= B2R (of_int (FL.arp p) (d mod NS_PER_SEC))).
    { rewrite Em. change 1 with (bpow radix2 0). apply RN_ge_bpow; [lia|].
      change (bpow radix2 0) with (IZR 1). apply IZR_le. lia. }
    assert (Hfr : bpow radix2 (-30) <=
              B2R (of_int (FL.arp p) (d mod NS_PER_SEC)) / B2R (of_int (FL.arp p) NS_PER_SEC)).
    { assert (HNpos : 0 < B2R (of_int (FL.arp p) NS_PER_SEC)).
      { apply Rlt_le_trans with (2 := HN29). apply bpow_gt_0. }
      apply Rle_trans with (1 / B2R (of_int (FL.arp p) NS_PER_SEC)).
      - change (-30)%Z with (- (30))%Z. rewrite bpow_opp. unfold Rdiv. rewrite Rmult_1_l.
        apply Rinv_le; [exact HNpos | exact HN30].
      - unfold Rdiv. apply Rmult_le_compat_r; [left; now apply Rinv_0_lt_compat | exact Hmr]. }
    rewrite Ef. assert (H2 := RN_ge_bpow _ (-30) ltac:(lia) Hfr). lra.
  - assert (Hq1' : 1 <= B2R (of_int (FL.arp p) (d / NS_PER_SEC))).
    { rewrite Eq. change 1 with (bpow radix2 0). apply RN_ge_bpow; [lia|].
      change (bpow radix2 0) with (IZR 1). apply IZR_le.
      assert (0 < d / NS_PER_SEC)%N by (apply N.neq_0_lt_0; exact NZ). lia. }
    assert (bpow radix2 (-30) <= 1) by (change 1 with (bpow radix2 0); apply bpow_le; lia).
    lra.
Qed.

Lemma W15_range : bpow radix2 3 <= IZR (Z.of_N EST_WEIGHTING_SECONDS) <= bpow radix2 4.
Proof.
  unfold EST_WEIGHTING_SECONDS. change (bpow radix2 3) with (IZR 8). change (bpow radix2 4) with (IZR 16).
  split; apply IZR_le; cbn; lia.
Qed.

(** the exponent [age / 15.0]: finite, non-negative, at least 2^-34 when the age is >= 1 ns *)
Lemma exponent_bnd : forall p d, (d < U64)%N ->
  let x := div (FL.arp p) (dur_secs (FL.arp p) d) (of_int (FL.arp p) EST_WEIGHTING_SECONDS) in
  bnd x 62 /\ ((1 <= d)%N -> bpow radix2 (-34) <= B2R x).
Proof.
  intros p d Hd x. destruct (dur_secs_bnd p d Hd) as [Bd Hlow].
  assert (H15 : (EST_WEIGHTING_SECONDS < U64)%N) by (unfold EST_WEIGHTING_SECONDS, U64; lia).
  destruct (of_int_bnd p EST_WEIGHTING_SECONDS H15) as [(F15 & _) _].
  destruct (of_int_range p EST_WEIGHTING_SECONDS 3 4 H15 ltac:(lia) ltac:(lia) W15_range) as [H3 H4].
  destruct (fdiv_bnd _ _ 65 3 Bd F15 H3 ltac:(lia)) as [Bx Ex].
  change (65 - 3)%Z with 62%Z in Bx. split; [exact Bx|].
  intros H1. unfold x. change (div (FL.arp p)) with fdiv. rewrite Ex. apply RN_ge_bpow; [lia|].
  specialize (Hlow H1).
  assert (Hpos : 0 < B2R (of_int (FL.arp p) EST_WEIGHTING_SECONDS)).
  { apply Rlt_le_trans with (2 := H3). apply bpow_gt_0. }
  change (-34)%Z with (-30 + - (4))%Z. rewrite bpow_plus, bpow_opp. unfold Rdiv.
  apply Rmult_le_compat; try assumption.
  - apply bpow_ge_0.
  - left. apply Rinv_0_lt_compat, bpow_gt_0.
  - apply Rinv_le; assumption.
Qed.

(** [pow_ok p] (model/Estimator.v): what the supplied [powf] has to satisfy *)
(** non-vacuity: the step function "1 at exponent 0, 1/2 above" satisfies it (so does every
    monotone, faithfully rounded powf) *)
Definition HALF_BITS : N := 4602678819172646912.   (* 0.5 *)
Definition pow_step (x : F) : F := if FL.fis_zero x then fone64 else FL.of_bits HALF_BITS.
Lemma pow_ok_step : pow_ok pow_step.
Proof.
  intros x Fx Hx. unfold pow_step.
  assert (Hh : is_finite (FL.of_bits HALF_BITS) = true /\ B2R (FL.of_bits HALF_BITS) = / 2).
  { split; [reflexivity|]. vm_compute. lra. }
  destruct Hh as [Fh Eh]. destruct fone64_correct as [F1 E1].
  destruct x as [s|s| |s m e H]; cbn [FL.fis_zero]; try discriminate Fx.
  - split; [split; [exact F1 | rewrite E1; lra]|].
    intros Hb. cbn [B2R] in Hb. assert (0 < bpow radix2 (-34)) by apply bpow_gt_0. lra.
  - split; [split; [exact Fh | rewrite Eh; lra] | intros _; rewrite Eh; lra].
Qed.

Lemma weight_bnd : forall p d, pow_ok p -> (d < U64)%N ->
  bnd (est_weight (FL.arp p) (dur_secs (FL.arp p) d)) 0 /\
  ((1 <= d)%N -> B2R (est_weight (FL.arp p) (dur_secs (FL.arp p) d)) < 1).
Proof.
  intros p d Hp Hd. unfold est_weight. destruct (exponent_bnd p d Hd) as [(Fx & Hx0 & _) Hlow].
  cbn [pow_base FL.arp]. destruct (Hp _ Fx Hx0) as [Hw Hlt]. split; [exact Hw|].
  intros H1. apply Hlt. now apply Hlow.
Qed.

(** the normaliser 1 - weight(age): in [2^-53, 1] for every age >= 1 ns *)
Lemma total_weight_bnd : forall p d, pow_ok p -> (d < U64)%N -> (1 <= d)%N ->
  let tw := sub (FL.arp p) (fone (FL.arp p)) (est_weight (FL.arp p) (dur_secs (FL.arp p) d)) in
  bnd tw 0 /\ bpow radix2 (-53) <= B2R tw.
Proof.
  intros p d Hp Hd H1 tw. destruct (weight_bnd p d Hp Hd) as [Hw Hlt].
  unfold tw. change (sub (FL.arp p)) with fsub. change (fone (FL.arp p)) with fone64.
  split; [apply (fsub_one_bnd _ Hw) | apply (fsub_one_pos _ Hw (Hlt H1))].
Qed.

(** ** QUERY: steps_per_second is finite and non-negative on every bounded state *)
Definition KS : Z := 95.   (* smoothed <= 2^95 *)
Definition KD : Z := 149.  (* double_smoothed <= 2^149 *)
Definition state_bnd (e : est F) : Prop := bnd (sm e) KS /\ bnd (dsm e) KD.

Lemma fzero_bnd : forall p k, bnd (fzero (FL.arp p)) k.
Proof.
  intros p k. unfold fzero.
  destruct (of_int_bnd p 0 ltac:(unfold U64; lia)) as [(Fz & _) E].
  split; [exact Fz|]. rewrite E. cbn [Z.of_N]. rewrite round_0 by auto with typeclass_instances.
  split; [lra | apply bpow_ge_0].
Qed.

(** the normaliser for ANY age (also 0): finite, and either a zero - then steps_per_second
    returns 0.0 (fix 56491a5) - or at least 2^-53 *)
Lemma total_weight_cases : forall p d, pow_ok p -> (d < U64)%N ->
  let tw := sub (FL.arp p) (fone (FL.arp p)) (est_weight (FL.arp p) (dur_secs (FL.arp p) d)) in
  is_finite tw = true /\
  (FL.fis_zero tw = true \/ (FL.fis_zero tw = false /\ bpow radix2 (-53) <= B2R tw)).
Proof.
  intros p d Hp Hd tw. destruct (weight_bnd p d Hp Hd) as [Hw _].
  unfold tw. change (sub (FL.arp p)) with fsub. change (fone (FL.arp p)) with fone64.
  destruct (fsub_one_bnd _ Hw) as [(Ft & _) Et]. split; [exact Ft|].
  set (w := est_weight (FL.arp p) (dur_secs (FL.arp p) d)) in *.
  assert (Hw1 : B2R w <= 1) by (destruct Hw as (_ & _ & H); exact H).
  destruct (Rle_lt_or_eq_dec _ _ Hw1) as [Hlt | Heq].
  - right. assert (Hlow := fsub_one_pos w Hw Hlt). split; [|exact Hlow].
    destruct (fsub fone64 w) as [s0| | |s0 m0 e0 H0]; try reflexivity.
    cbn [B2R] in Hlow. assert (0 < bpow radix2 (-53)) by apply bpow_gt_0. lra.
  - left. rewrite Heq in Et. replace (1 - 1) with 0 in Et by ring.
    rewrite round_0 in Et by auto with typeclass_instances.
    destruct (fsub fone64 w) as [s0| | |s0 m0 e0 H0]; try discriminate Ft; try reflexivity.
    exfalso. cbn [B2R] in Et. apply eq_0_F2R in Et. destruct s0; discriminate Et.
Qed.

Lemma sps_body_bnd : forall s d w tw : F,
  bnd s 95 -> bnd d 149 -> bnd w 0 -> is_finite tw = true -> bpow radix2 (-53) <= B2R tw ->
  bnd (fdiv (fadd (fmul d w) (fmul (fdiv (fmul s w) tw) (fsub fone64 w))) tw) 203.
Proof.
  intros s d w tw Hs Hd Hw Ft Htlow.
  destruct (fmul_bnd _ _ 95 0 Hs Hw ltac:(lia)) as [Bsw _].
  destruct (fdiv_bnd _ _ (95 + 0) (-53) Bsw Ft Htlow ltac:(lia)) as [Bsps _].
  destruct (fsub_one_bnd w Hw) as [Bomw _].
  destruct (fmul_bnd _ _ _ 0 Bsps Bomw ltac:(lia)) as [Bt3 _].
  destruct (fmul_bnd _ _ 149 0 Hd Hw ltac:(lia)) as [Bdw _].
  change (95 + 0 - -53 + 0)%Z with 148%Z in Bt3. change (149 + 0)%Z with 149%Z in Bdw.
  destruct Bdw as (Fdw & Hdw0 & Hdw1). destruct Bt3 as (Ft3 & Ht30 & Ht31).
  assert (Hsum : B2R (fmul d w) + B2R (fmul (fdiv (fmul s w) tw) (fsub fone64 w)) <= bpow radix2 150).
  { change 150%Z with (149 + 1)%Z. rewrite bpow_double.
    assert (bpow radix2 148 <= bpow radix2 149) by (apply bpow_le; lia). lra. }
  destruct (fadd_bnd _ _ 150 Fdw Ft3 Hdw0 Ht30 Hsum ltac:(lia)) as [Bdsps _].
  destruct (fdiv_bnd _ _ 150 (-53) Bdsps Ft Htlow ltac:(lia)) as [Bres _].
  exact Bres.
Qed.

(** at EVERY query instant, the instant of the restart included *)
Theorem fl_sps_finite_nonneg : forall p (e : est F) now,
  pow_ok p -> state_bnd e -> (now < U64)%N ->
  bnd (est_sps (FL.arp p) e now) 203.
Proof.
  intros p e now Hp [Hs Hd] Hn. unfold est_sps. cbv zeta.
  assert (H1 : (since now (prev_time e) < U64)%N) by (unfold since; lia).
  assert (H2 : (since now (start_time e) < U64)%N) by (unfold since; lia).
  destruct (weight_bnd p _ Hp H1) as [Hw _].
  destruct (total_weight_cases p _ Hp H2) as [Ft Hcases].
  change (T (FL.arp p)) with F in *.
  set (w := est_weight (FL.arp p) (dur_secs (FL.arp p) (since now (prev_time e)))) in *.
  set (tw := sub (FL.arp p) (fone (FL.arp p))
               (est_weight (FL.arp p) (dur_secs (FL.arp p) (since now (start_time e))))) in *.
  change (is_zero (FL.arp p)) with FL.fis_zero. change (T (FL.arp p)) with F in *.
  destruct Hcases as [Z | [Z Htlow]]; rewrite Z.
  - apply fzero_bnd.
  - change (mul (FL.arp p)) with fmul. change (div (FL.arp p)) with fdiv.
    change (add (FL.arp p)) with fadd. change (sub (FL.arp p)) with fsub.
    change (fone (FL.arp p)) with fone64. change (T (FL.arp p)) with F in *.
    unfold KS, KD in *. now apply sps_body_bnd.
Qed.

(** ** RECORD keeps the two averages finite, non-negative and bounded
    An exponentially weighted update s*w + n*(1-w) of s <= 2B with n <= B stays <= 2B in binary64:
    for w <= 1/2 both products are <= B; for w > 1/2 the difference 1-w is exact (Sterbenz) and
    the products are bounded by the exactly representable 2B*w and B*(1-w). *)
Lemma fmt_scale : forall x k, (0 <= k)%Z -> fmt x -> fmt (x * bpow radix2 k).
Proof.
  intros x k Hk Fx.
  destruct (FLT_format_generic radix2 (-1074) 53 x Fx) as [f Hx Hm He].
  apply generic_format_FLT. apply FLT_spec with (f := Float radix2 (Fnum f) (Fexp f + k)).
  - rewrite Hx. unfold F2R. cbn [Fnum Fexp]. rewrite bpow_plus. ring.
  - exact Hm.
  - cbn [Fexp]. lia.
Qed.

Lemma ewma_bnd : forall k s n w, (0 <= k <= 1000)%Z -> bnd s (k + 1) -> bnd n k -> bnd w 0 ->
  bnd (fadd (fmul s w) (fmul n (fsub fone64 w))) (k + 1).
Proof.
  intros k s n w Hk Hs Hn Hw.
  destruct (fsub_one_bnd w Hw) as [Bv Ev].
  destruct (fmul_bnd s w (k + 1) 0 Hs Hw ltac:(lia)) as [Ba Ea].
  destruct (fmul_bnd n (fsub fone64 w) k 0 Hn Bv ltac:(lia)) as [Bb Eb].
  destruct Hs as (Fs & Hs0 & Hs1). destruct Hn as (Fn & Hn0 & Hn1).
  destruct Hw as (Fw & Hw0 & Hw1). change (bpow radix2 0) with 1 in Hw1.
  destruct Ba as (Fa & Ha0 & _). destruct Bb as (Fb & Hb0 & Hb1).
  replace (k + 0)%Z with k in Hb1 by lia.
  assert (Hsum : B2R (fmul s w) + B2R (fmul n (fsub fone64 w)) <= bpow radix2 (k + 1)).
  { rewrite bpow_double.
    destruct (Rle_lt_dec (B2R w) (/ 2)) as [Hle | Hgt].
    - (* w <= 1/2 *)
      assert (Ha1 : B2R (fmul s w) <= bpow radix2 k).
      { rewrite Ea. apply RN_le_bpow; [lia|].
        apply Rle_trans with (bpow radix2 (k + 1) * / 2).
        - apply Rmult_le_compat; assumption.
        - rewrite bpow_double. lra. }
      lra.
    - (* w > 1/2: 1 - w is exact *)
      assert (Fv : fmt (1 - B2R w)).
      { apply sterbenz; auto with typeclass_instances.
        - change 1 with (bpow radix2 0). apply fmt_bpow. lia.
        - apply fmt_B2R.
        - lra. }
      assert (Ev' : B2R (fsub fone64 w) = 1 - B2R w).
      { rewrite Ev. apply round_generic; auto with typeclass_instances. }
      assert (Ha1 : B2R (fmul s w) <= B2R w * bpow radix2 (k + 1)).
      { rewrite Ea. apply RN_le_fmt; [apply fmt_scale; [lia | apply fmt_B2R]|].
        rewrite (Rmult_comm (B2R s)). apply Rmult_le_compat_l; assumption. }
      assert (Hb1' : B2R (fmul n (fsub fone64 w)) <= (1 - B2R w) * bpow radix2 k).
      { rewrite Eb, Ev'. apply RN_le_fmt; [apply fmt_scale; [lia | exact Fv]|].
        rewrite (Rmult_comm (B2R n)). apply Rmult_le_compat_l; [lra | assumption]. }
      rewrite bpow_double in Ha1.
      assert (Hk0 : 0 < bpow radix2 k) by apply bpow_gt_0.
      nra. }
  destruct (fadd_bnd _ _ (k + 1) Fa Fb Ha0 Hb0 Hsum ltac:(lia)) as [B _]. exact B.
Qed.

Theorem fl_record_bnd : forall p (e : est F) new now, pow_ok p -> state_bnd e ->
  (new < U64)%N -> (now < U64)%N -> (start_time e <= prev_time e)%N ->
  state_bnd (est_record (FL.arp p) new now e) /\
  (start_time (est_record (FL.arp p) new now e) <= prev_time (est_record (FL.arp p) new now e))%N.
Proof.
  intros p e new now Hp [Hs Hd] Hnew Hnow Hwf. unfold est_record.
  change (T (FL.arp p)) with F in *.
  destruct ((new <=? prev_steps e)%N || (now <=? prev_time e)%N) eqn:G.
  - destruct (new <? prev_steps e)%N.
    + unfold est_reset, state_bnd. cbn [sm dsm prev_time start_time].
      split; [split; apply fzero_bnd | lia].
    + split; [split; assumption | exact Hwf].
  - apply orb_false_iff in G. destruct G as [G1 G2].
    apply N.leb_gt in G1. apply N.leb_gt in G2.
    cbv zeta. cbn [sm dsm prev_time start_time]. split; [|lia].
    assert (Hds : (new - prev_steps e < U64)%N) by lia.
    assert (Hdt : (since now (prev_time e) < U64)%N) by (unfold since; lia).
    assert (Hdt1 : (1 <= since now (prev_time e))%N) by (unfold since; lia).
    assert (Hst : (since now (start_time e) < U64)%N) by (unfold since; lia).
    assert (Hst1 : (1 <= since now (start_time e))%N) by (unfold since; lia).
    destruct (of_int_bnd p _ Hds) as [Bds _].
    destruct (dur_secs_bnd p _ Hdt) as [(Fdt & _) Hdtlow]. specialize (Hdtlow Hdt1).
    destruct (fdiv_bnd _ _ 64 (-30) Bds Fdt Hdtlow ltac:(lia)) as [Bnew _].
    change (64 - -30)%Z with 94%Z in Bnew.
    destruct (weight_bnd p _ Hp Hdt) as [Hw _].
    destruct (total_weight_bnd p _ Hp Hst Hst1) as [(Ft & _) Htlow].
    set (w := est_weight (FL.arp p) (dur_secs (FL.arp p) (since now (prev_time e)))) in *.
    set (tw := sub (FL.arp p) (fone (FL.arp p))
                 (est_weight (FL.arp p) (dur_secs (FL.arp p) (since now (start_time e))))) in *.
    change (mul (FL.arp p)) with fmul. change (div (FL.arp p)) with fdiv.
    change (add (FL.arp p)) with fadd. change (sub (FL.arp p)) with fsub.
    change (fone (FL.arp p)) with fone64.
    unfold KS, KD in *.
    assert (Bs' := ewma_bnd 94 _ _ w ltac:(lia) Hs Bnew Hw).
    change (94 + 1)%Z with 95%Z in Bs'.
    destruct (fdiv_bnd _ _ 95 (-53) Bs' Ft Htlow ltac:(lia)) as [Bnorm _].
    change (95 - -53)%Z with 148%Z in Bnorm.
    assert (Bd' := ewma_bnd 148 _ _ w ltac:(lia) Hd Bnorm Hw).
    split; [exact Bs' | exact Bd'].
Qed.

(** ** every history of record / restart calls with u64 arguments *)
Lemma fl_run_bnd : forall p evs (e : est F), pow_ok p -> Forall ev_u64 evs ->
  state_bnd e -> (start_time e <= prev_time e)%N ->
  state_bnd (est_runA (FL.arp p) evs e) /\
  (start_time (est_runA (FL.arp p) evs e) <= prev_time (est_runA (FL.arp p) evs e))%N.
Proof.
  intros p evs. induction evs as [|x r IH]; intros e Hp Hall Hb Hwf; [split; assumption|].
  inversion Hall as [|x' r' [Ht Hpos] Hr]; subst. cbn [est_runA].
  destruct x as [new now | now pos]; cbn [est_evA ev_time ev_pos] in *.
  - destruct (fl_record_bnd p e new now Hp Hb Hpos Ht Hwf) as [Hb' Hwf']. now apply IH.
  - apply IH; try assumption.
    + unfold bar_reset_est, est_reset, state_bnd. cbn [sm dsm]. split; apply fzero_bnd.
    + unfold bar_reset_est, est_reset. cbn [prev_time start_time]. lia.
Qed.

Theorem fl_history_finite_nonneg : forall p evs t0 now,
  pow_ok p -> Forall ev_u64 evs -> (now < U64)%N ->
  let e := est_runA (FL.arp p) evs (est_new (FL.arp p) t0) in
  is_finite (est_sps (FL.arp p) e now) = true /\ 0 <= B2R (est_sps (FL.arp p) e now).
Proof.
  intros p evs t0 now Hp Hall Hn e.
  destruct (fl_run_bnd p evs (est_new (FL.arp p) t0) Hp Hall) as [Hb _].
  - unfold est_new, state_bnd. cbn [sm dsm]. split; apply fzero_bnd.
  - unfold est_new. cbn [prev_time start_time]. lia.
  - destruct (fl_sps_finite_nonneg p e now Hp Hb Hn) as (Hf & H0 & _). split; assumption.
Qed.

(** ** every history of public ProgressBar calls with u64 arguments (binary64 instance) *)
Definition BF (b : bar F) : Prop :=
  state_bnd (b_est b) /\ (start_time (b_est b) <= prev_time (b_est b))%N /\
  (b_pos b < U64)%N /\ (forall l, b_len b = Some l -> (l < U64)%N).

Lemma BF_intro : forall (b : bar F),
  state_bnd (b_est b) -> (start_time (b_est b) <= prev_time (b_est b))%N ->
  (b_pos b < U64)%N -> (forall l, b_len b = Some l -> (l < U64)%N) -> BF b.
Proof. intros b H1 H2 H3 H4. exact (conj H1 (conj H2 (conj H3 H4))). Qed.

Lemma bar_record_BF : forall p now (b : bar F), pow_ok p -> (now < U64)%N -> BF b ->
  BF (bar_record (FL.arp p) now b).
Proof.
  intros p now b Hp Hn (Hb & Hwf & Hpos & Hlen).
  destruct (fl_record_bnd p (b_est b) (b_pos b) now Hp Hb Hpos Hn Hwf) as [Hb' Hwf'].
  apply BF_intro; assumption.
Qed.

Lemma bar_move_BF : forall p q now (b : bar F), pow_ok p -> (now < U64)%N -> (q < U64)%N -> BF b ->
  BF (bar_move (FL.arp p) q now b).
Proof.
  intros p q now b Hp Hn Hq (Hb & Hwf & Hpos & Hlen). unfold bar_move.
  change (T (FL.arp p)) with F in *.
  destruct (lim_allow now (b_lim b)) as [ok l'].
  assert (H' : BF (mkBar q (b_len b) (b_done b) (b_started b) (b_est b) l'))
    by (apply BF_intro; assumption).
  destruct ok; [now apply bar_record_BF | exact H'].
Qed.

Lemma wrap_lt : forall x, (x mod U64 < U64)%N.
Proof. intros x. apply N.mod_lt. discriminate. Qed.

Lemma reset_est_bnd : forall p now pos (e : est F),
  state_bnd (bar_reset_est (FL.arp p) now pos e) /\
  (start_time (bar_reset_est (FL.arp p) now pos e) <= prev_time (bar_reset_est (FL.arp p) now pos e))%N.
Proof.
  intros p now pos e. unfold bar_reset_est, est_reset, state_bnd.
  cbn [sm dsm prev_time start_time]. split; [split; apply fzero_bnd | lia].
Qed.

Lemma bar_step_BF : forall p o now (b : bar F), pow_ok p -> (now < U64)%N -> op_u64 o -> BF b ->
  BF (bar_step (FL.arp p) o now b).
Proof.
  intros p o now b Hp Hn Ho HB.
  assert (HB' := HB). destruct HB' as (Hb & Hwf & Hpos & Hlen).
  destruct o; cbn [bar_step op_u64] in *; try exact HB.
  - now apply bar_move_BF.
  - apply bar_move_BF; auto. apply wrap_lt.
  - apply bar_move_BF; auto. apply wrap_lt.
  - apply bar_record_BF; auto. apply BF_intro; assumption.
  - now apply bar_record_BF.
  - apply bar_record_BF; auto. apply BF_intro; try assumption.
    cbn [b_len]. intros l0 E. injection E as <-. exact Ho.
  - apply bar_record_BF; auto. apply BF_intro; try assumption.
    cbn [b_len]. intros l0 E. discriminate E.
  - destruct (reset_est_bnd p now (b_pos b) (b_est b)) as [H1 H2]. apply BF_intro; assumption.
  - destruct (reset_est_bnd p now (b_pos b) (b_est b)) as [H1 H2]. apply BF_intro; assumption.
  - destruct (reset_est_bnd p now 0%N (b_est b)) as [H1 H2]. apply BF_intro; try assumption.
    cbn [b_pos]. unfold U64. lia.
  - apply BF_intro; try assumption. cbn [b_pos b_len].
    change (T (FL.arp p)) with F. destruct (b_len b) as [l0|] eqn:E; [exact (Hlen l0 eq_refl) | exact Hpos].
Qed.

Lemma run_state_BF : forall p ops now (b : bar F), pow_ok p -> (now < U64)%N ->
  Forall op_u64 ops -> BF b ->
  BF (fst (run_state (FL.arp p) ops now b)) /\ (snd (run_state (FL.arp p) ops now b) < U64)%N.
Proof.
  intros p ops. induction ops as [|o r IH]; intros now b Hp Hn Hall HB; [split; assumption|].
  inversion Hall as [|o' r' Ho Hr]; subst. cbn [run_state]. apply IH; auto.
  - destruct o; cbn [clock_step]; try exact Hn. apply wrap_lt.
  - now apply bar_step_BF.
Qed.

Theorem fl_bar_finite_nonneg : forall p len t0 ops,
  pow_ok p -> (t0 < U64)%N -> (forall l, len = Some l -> (l < U64)%N) -> Forall op_u64 ops ->
  let b := fst (run_state (FL.arp p) ops t0 (bar_new (FL.arp p) len t0)) in
  let now := snd (run_state (FL.arp p) ops t0 (bar_new (FL.arp p) len t0)) in
  (b_done b = true -> (b_started b < now)%N) ->
  is_finite (bar_per_sec (FL.arp p) b now) = true /\ 0 <= B2R (bar_per_sec (FL.arp p) b now).
Proof.
  intros p len t0 ops Hp Ht0 Hlen Hall b now Hdom.
  assert (HB0 : BF (bar_new (FL.arp p) len t0)).
  { apply BF_intro; unfold bar_new, est_new; cbn [b_est b_pos b_len sm dsm prev_time start_time].
    - split; apply fzero_bnd.
    - lia.
    - unfold U64. lia.
    - exact Hlen. }
  destruct (run_state_BF p ops t0 _ Hp Ht0 Hall HB0) as [(Hb & Hwf & Hpos & _) Hn].
  fold b in Hb, Hwf, Hpos. fold now in Hn.
  unfold bar_per_sec. destruct (b_done b).
  - (* finished: pos / elapsed *)
    specialize (Hdom eq_refl).
    destruct (of_int_bnd p (b_pos b) Hpos) as [Bp _].
    assert (Hd : (since now (b_started b) < U64)%N) by (unfold since; lia).
    assert (Hd1 : (1 <= since now (b_started b))%N) by (unfold since; lia).
    destruct (dur_secs_bnd p _ Hd) as [(Fd & _) Hlow]. specialize (Hlow Hd1).
    destruct (fdiv_bnd _ _ 64 (-30) Bp Fd Hlow ltac:(lia)) as [(Hf & H0 & _) _].
    split; assumption.
  - destruct (fl_sps_finite_nonneg p (b_est b) now Hp Hb Hn) as (Hf & H0 & _). split; assumption.
Qed.

(** the two zero-rate facts as one statement for props/C09.v *)
Theorem fl_zero_when_weight_zero : forall p (b : bar FL.F) now,
  is_finite (sm (b_est b)) = true -> is_finite (dsm (b_est b)) = true ->
  est_weight (FL.arp p) (dur_secs (FL.arp p) (since now (prev_time (b_est b)))) = B754_zero false ->
  est_weight (FL.arp p) (dur_secs (FL.arp p) (since now (start_time (b_est b)))) = B754_zero false ->
  is_zero (FL.arp p) (est_sps (FL.arp p) (b_est b) now) = true /\
  bar_eta (FL.arp p) b now = Some 0%N.
Proof.
  intros p b now Hs Hd H1 H2. split.
  - exact (fl_rate_zero_when_weight_zero p (b_est b) now Hs Hd H1 H2).
  - exact (fl_eta_zero_when_weight_zero p b now Hs Hd H1 H2).
Qed.

(** * eta() / duration() cannot panic in binary64: [secs_to_duration] (state.rs:692-696:
    [s.trunc() as u64], [(s.fract() * 1e9) as u32], [Duration::new]) is TOTAL on every binary64
    datum - NaN, +-infinity, negative, subnormal, huge.  The only way [Duration::new] can panic is
    a carry out of the nanoseconds on top of u64::MAX seconds; the seconds can only be that large
    for an integral s, whose fractional part is +0. *)
Lemma btrunc_ztrunc : forall x : F, Btrunc x = Ztrunc (B2R x).
Proof.
  intros x. apply eq_IZR. rewrite (Btrunc_correct 53 1024 FL.Hm x). apply round_FIX_IZR.
Qed.

Lemma finite_B2R0_zero : forall y : F, is_finite y = true -> B2R y = 0 -> FL.fis_zero y = true.
Proof.
  intros [s| | |s m e H] Fy E; try discriminate Fy; [reflexivity|].
  exfalso. cbn [B2R] in E. apply eq_0_F2R in E. destruct s; discriminate E.
Qed.

Lemma fcast_le_max : forall max y, (FL.fcast max y <= max)%N.
Proof.
  intros max [s|s| |s m e H]; cbn [FL.fcast];
    [lia | destruct s; lia | lia | destruct s; [lia | apply N.le_min_l]].
Qed.

Definition P62 : N := 4611686018427387904.   (* 2^62 *)

Lemma fcast_small : forall max (y : F), is_finite y = true -> B2R y <= bpow radix2 62 ->
  (FL.fcast max y <= P62)%N.
Proof.
  intros max y Fy Hy. destruct y as [s| | |s m e H]; try discriminate Fy; cbn [FL.fcast].
  - unfold P62. lia.
  - destruct s; [unfold P62; lia|].
    apply N.le_trans with (Z.to_N (Btrunc (B754_finite false m e H))); [apply N.le_min_r|].
    rewrite btrunc_ztrunc.
    assert (H0 : 0 <= B2R (B754_finite false m e H)).
    { cbn [B2R cond_Zopp]. apply F2R_ge_0. cbn [Fnum]. lia. }
    set (v := B2R (B754_finite false m e H)) in *.
    assert (Hz : (Ztrunc v <= 2 ^ 62)%Z).
    { apply le_IZR. rewrite (Ztrunc_floor v H0).
      apply Rle_trans with v; [apply Zfloor_lb|]. exact Hy. }
    unfold P62. lia.
Qed.

Lemma fin_small : forall s m e (H : SpecFloat.bounded 53 1024 m e = true), (e < 0)%Z ->
  Rabs (B2R (B754_finite s m e H : F)) < bpow radix2 52.
Proof.
  intros s m e H He. cbn [B2R].
  assert (Hc : SpecFloat.canonical_mantissa 53 1024 m e = true).
  { unfold SpecFloat.bounded in H. apply andb_prop in H. exact (proj1 H). }
  pose proof (canonical_canonical_mantissa 53 1024 s m e Hc) as Hcan.
  unfold canonical, cexp in Hcan. cbn [Fexp] in Hcan.
  set (x := F2R (Float radix2 (cond_Zopp s (Z.pos m)) e)) in *.
  assert (Hm : (mag radix2 x <= 52)%Z).
  { unfold SpecFloat.fexp, FLT_exp in Hcan. lia. }
  apply Rlt_le_trans with (bpow radix2 (mag radix2 x)); [apply bpow_mag_gt | now apply bpow_le].
Qed.

Lemma no_overflow_abs : forall x, Rabs x <= bpow radix2 1023 ->
  Rlt_bool (Rabs (round radix2 (SpecFloat.fexp 53 1024) (round_mode mode_NE) x)) (bpow radix2 1024) = true.
Proof.
  intros x H. apply Rlt_bool_true.
  change (SpecFloat.fexp 53 1024) with fexp64. cbn [round_mode].
  apply Rle_lt_trans with (bpow radix2 1023).
  - apply abs_round_le_generic; auto with typeclass_instances. apply fmt_bpow. lia.
  - apply bpow_lt. lia.
Qed.

(** trunc() of a finite number with a negative exponent: finite and below 2^52 *)
Lemma ftrunc_small : forall s m e (H : SpecFloat.bounded 53 1024 m e = true), (e < 0)%Z ->
  let y := FL.of_Z (Btrunc (B754_finite s m e H : F)) s in
  is_finite y = true /\ B2R y <= bpow radix2 62.
Proof.
  intros s m e H He y. unfold y, FL.of_Z.
  set (x := B754_finite s m e H : F).
  assert (Hx := fin_small s m e H He). fold x in Hx.
  pose proof (binary_normalize_correct 53 1024 FL.Hp FL.Hm mode_NE (Btrunc x) 0 s) as Hn.
  cbv zeta in Hn.
  assert (E : F2R (Float radix2 (Btrunc x) 0) = IZR (Btrunc x)) by (unfold F2R; simpl; ring).
  rewrite E in Hn.
  assert (Hz : Rabs (IZR (Btrunc x)) <= Rabs (B2R x)).
  { rewrite btrunc_ztrunc, <- abs_IZR, <- Ztrunc_abs.
    rewrite (Ztrunc_floor _ (Rabs_pos _)). apply Zfloor_lb. }
  rewrite no_overflow_abs in Hn.
  - destruct Hn as (H1 & H2 & _). split; [exact H2|]. rewrite H1.
    change (SpecFloat.fexp 53 1024) with fexp64. cbn [round_mode].
    apply RN_le_bpow; [lia|].
    apply Rle_trans with (Rabs (IZR (Btrunc x))); [apply Rle_abs|].
    apply Rle_trans with (1 := Hz). apply Rle_trans with (bpow radix2 52); [lra|].
    apply bpow_le. lia.
  - apply Rle_trans with (1 := Hz). apply Rle_trans with (bpow radix2 52); [lra|]. apply bpow_le. lia.
Qed.

Lemma dur_new_some : forall secs nanos, (secs <= U64MAX)%N -> (nanos <= U32MAX)%N ->
  (secs <= P62)%N \/ nanos = 0%N -> exists d, dur_new secs nanos = Some d.
Proof.
  intros secs nanos Hs Hn Hc. unfold dur_new.
  assert (Hq : (nanos / NS_PER_SEC <= 5)%N).
  { apply N.div_le_upper_bound; [discriminate|]. unfold NS_PER_SEC, U32MAX in *. lia. }
  assert (G : (secs + nanos / NS_PER_SEC <=? U64MAX)%N = true).
  { apply N.leb_le. destruct Hc as [Hc | Hc].
    - unfold P62, U64MAX in *. lia.
    - subst nanos. rewrite N.div_0_l by discriminate. lia. }
  rewrite G. eexists. reflexivity.
Qed.

Theorem fl_secs_to_duration_total : forall p (x : F),
  exists d, secs_to_duration (FL.arp p) x = Some d.
Proof.
  intros p x. unfold secs_to_duration.
  change (cast (FL.arp p)) with FL.fcast. change (trunc (FL.arp p)) with FL.ftrunc.
  change (mul (FL.arp p)) with fmul. change (sub (FL.arp p)) with fsub.
  apply dur_new_some; try apply fcast_le_max.
  destruct x as [s|s| |s m e H].
  - (* zero *) left. cbn [FL.ftrunc FL.fcast]. unfold P62. lia.
  - (* infinity: inf - inf = NaN *) right. cbn [FL.ftrunc]. destruct s; reflexivity.
  - (* NaN *) right. reflexivity.
  - cbn [FL.ftrunc]. destruct (0 <=? e)%Z eqn:Ge.
    + (* integral: the fractional part is a zero *)
      right. set (x := B754_finite s m e H : F).
      pose proof (Bminus_correct 53 1024 FL.Hp FL.Hm mode_NE x x eq_refl eq_refl) as Hm.
      replace (B2R x - B2R x) with 0 in Hm by ring.
      rewrite round_0, Rabs_R0 in Hm by auto with typeclass_instances.
      rewrite Rlt_bool_true in Hm by apply bpow_gt_0.
      destruct Hm as (E0 & F0 & _).
      assert (Z0 := finite_B2R0_zero _ F0 E0).
      destruct (fsub x x) as [s0| | |s0 m0 e0 H0]; try discriminate Z0.
      destruct (of_int_bnd p NS_PER_SEC ltac:(unfold NS_PER_SEC, U64; lia)) as [(FN & _) _].
      destruct (of_int (FL.arp p) NS_PER_SEC) as [s1| | |s1 m1 e1 H1]; try discriminate FN; reflexivity.
    + (* |s| < 2^52 *)
      left. apply Z.leb_gt in Ge.
      destruct (ftrunc_small s m e H Ge) as [Fy Hy]. now apply fcast_small.
Qed.

(** eta() and duration() return for EVERY state of the bar, every clock reading, every powf *)
Theorem fl_eta_duration_total : forall p (b : bar F) now,
  (exists d, bar_eta (FL.arp p) b now = Some d) /\
  (exists d, bar_duration (FL.arp p) b now = Some d).
Proof.
  intros p b now.
  assert (He : exists d, bar_eta (FL.arp p) b now = Some d).
  { unfold bar_eta. change (T (FL.arp p)) with F in *.
    destruct (b_done b); [eexists; reflexivity|].
    destruct (b_len b); [|eexists; reflexivity].
    destruct (is_zero (FL.arp p) (est_sps (FL.arp p) (b_est b) now)); [eexists; reflexivity|].
    apply fl_secs_to_duration_total. }
  split; [exact He|].
  destruct He as [d Hd]. unfold bar_duration. change (T (FL.arp p)) with F in *. rewrite Hd.
  destruct (b_len b); [|eexists; reflexivity].
  destruct (b_done b); eexists; reflexivity.
Qed.
