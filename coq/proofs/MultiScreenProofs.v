(** C02_screen / C03_log / C04_kept: the screen invariant of a MultiProgress over every op
    history (model/MultiScreen.v), built from the macro lemmas of TermProofs.v (one draw_to_term
    call, one write_line) and the decomposition of every public call into MultiState method calls
    (MultiProofs.step_mp).  Top alignment, no I/O faults. *)
From Coq Require Import List NArith ZArith Bool Lia Arith ZifyBool ZifyNat ZifyN.
From IndModel Require Import MultiScreen.
From IndModel Require SingleBar.
From IndProofs Require Import TermProofs SingleBarProofs MultiProofs MultiFrame.
Import ListNotations.
Local Open Scope N_scope.
Arguments N.add : simpl never.
Arguments N.sub : simpl never.
Arguments N.mul : simpl never.
Arguments N.div : simpl never.
Arguments N.modulo : simpl never.
Arguments N.min : simpl never.
Arguments Nat.min : simpl never.
Arguments Nat.sub : simpl never.
Arguments nthN {A} l i d : simpl never.

(* ------------------------------------------------------------------ no I/O faults *)
Lemma emit_nofaults ops c : emit nofaults c ops = (ops, c + N.of_nat (length ops), true).
Proof. exact (emit_nofail ops c). Qed.
Lemma emit_each_nofaults ops c : emit_each nofaults c ops = (ops, c + N.of_nat (length ops)).
Proof. exact (emit_each_nofail ops c). Qed.

(* ------------------------------------------------------------------ lists, rows *)
Lemma Forall_concat {A} (P : A -> Prop) (ll : list (list A)) :
  Forall (fun l => Forall P l) ll -> Forall P (concat ll).
Proof.
  induction 1 as [|l ll Hl Hll IH]; cbn [concat]; [constructor|]. apply Forall_app. split; assumption.
Qed.

Lemma rows_equiv_sym Wn a b : rows_equiv Wn a b -> rows_equiv Wn b a.
Proof. unfold rows_equiv. congruence. Qed.
Lemma rows_equiv_trans Wn a b c : rows_equiv Wn a b -> rows_equiv Wn b c -> rows_equiv Wn a c.
Proof. unfold rows_equiv. congruence. Qed.

Lemma rows_equiv_firstn Wn k a b : rows_equiv Wn a b -> rows_equiv Wn (firstn k a) (firstn k b).
Proof. unfold rows_equiv. intros He. now rewrite <- !firstn_map, He. Qed.
Lemma rows_equiv_skipn Wn k a b : rows_equiv Wn a b -> rows_equiv Wn (skipn k a) (skipn k b).
Proof. unfold rows_equiv. intros He. now rewrite <- !skipn_map, He. Qed.

Lemma rows_equiv_nil Wn a : rows_equiv Wn a [] -> a = [].
Proof. intros He. apply rows_equiv_length in He. destruct a; [reflexivity | discriminate]. Qed.

Lemma wrap_length (ls : list line) (W : N) : 1 <= W ->
  length (wrap (N.to_nat W) (map lt ls)) = N.to_nat (visual_line_count ls W).
Proof. intros HW. rewrite (visual_line_count_wrap ls W HW). lia. Qed.

(* ------------------------------------------------------------------ the lines of a composed frame *)
Lemma ms_frame_split m extra : ms_frame m extra = text_lines_of m extra ++ bar_lines_of m.
Proof. unfold ms_frame, text_lines_of, bar_lines_of. now rewrite app_assoc. Qed.

Lemma bar_lines_split m : bar_lines_of m = zombie_lines_of m ++ rest_lines_of m.
Proof.
  unfold bar_lines_of, zombie_lines_of, rest_lines_of.
  rewrite (head_zombies_prefix (ms_order m) (ms_members m)) at 1.
  now rewrite map_app, concat_app.
Qed.

Lemma member_lines_bars m i : members_bars m ->
  Forall (fun l => is_bar l = true) (member_lines (ms_members m) i).
Proof.
  intros Hm. unfold member_lines. destruct (m_lines (nthN (ms_members m) i member_default)) as [ls|] eqn:E.
  - exact (Hm i ls E).
  - constructor.
Qed.

Lemma lines_of_bars m (l : list N) : members_bars m ->
  Forall (fun x => is_bar x = true) (concat (map (member_lines (ms_members m)) l)).
Proof.
  intros Hm. apply Forall_concat. apply Forall_forall. intros x Hin.
  apply in_map_iff in Hin. destruct Hin as (i & <- & _). now apply member_lines_bars.
Qed.

Lemma bar_lines_bars m : members_bars m -> Forall (fun l => is_bar l = true) (bar_lines_of m).
Proof. intros Hm. now apply lines_of_bars. Qed.

Lemma zombie_rows_vlc W m : zombie_rows W m = visual_line_count (zombie_lines_of m) W.
Proof.
  unfold zombie_rows, zombie_lines_of.
  set (zs := head_zombies (ms_order m) (ms_members m)).
  assert (Hg : forall a, fold_left (fun a i => a + member_vlc (nthN (ms_members m) i member_default) W) zs a
                         = a + visual_line_count (concat (map (member_lines (ms_members m)) zs)) W).
  { induction zs as [|z zs IH]; intros a; cbn [fold_left map concat].
    - unfold visual_line_count. cbn. lia.
    - rewrite IH, visual_line_count_app. unfold member_vlc, member_lines.
      destruct (m_lines (nthN (ms_members m) z member_default)); [lia|].
      unfold visual_line_count at 2. cbn. lia. }
  rewrite Hg. lia.
Qed.

(* ------------------------------------------------------------------ one Drawable::draw on the terminal *)
Section Screen.
  Variable W H : N.
  Hypothesis HW : 1 <= W.
  Hypothesis HH : 1 <= H.
  Variable pre : list (list N).
  Let Wn := N.to_nat W.
  Let Hn := N.to_nat H.

  (** one draw (Top alignment, no faults) of text lines followed by Bar lines that fit, over the
      [tt_n tg] rows [F] at the end of the written rows; the cursor is on the last row of [F]
      or (cursor_below) at column 0 below it *)
  Lemma term_draw_rows C F t tg texts bars c :
    tt_align tg = Top ->
    ready Wn Hn (C ++ F) t -> length F = N.to_nat (tt_n tg) -> (N.to_nat (tt_n tg) <= reach t)%nat ->
    (1 <= tt_n tg -> if tt_below tg then t_col t = 0%nat else t_col t <> 0%nat) ->
    Forall (fun l => is_bar l = false) texts -> Forall (fun l => is_bar l = true) bars ->
    visual_line_count bars W <= H ->
    let r := term_draw W H nofaults tg (texts ++ bars) c in
    let tg' := fst (fst (fst r)) in
    let t' := run_ops Wn Hn t (snd (fst (fst r))) in
    tt_n tg' = visual_line_count bars W /\ tt_rl tg' = tt_rl tg /\ tt_align tg' = Top
    /\ exists RT RB, ready Wn Hn (C ++ RT ++ RB) t'
         /\ rows_equiv Wn RT (wrap Wn (map lt texts)) /\ rows_equiv Wn RB (wrap Wn (map lt bars))
         /\ length RB = N.to_nat (tt_n tg')
         /\ (texts ++ bars <> [] -> tt_below tg' = false /\ t_col t' <> 0%nat
                /\ reach t' = Nat.min Hn (reach t - N.to_nat (tt_n tg) + length (RT ++ RB)))
         /\ (texts ++ bars = [] -> reach t' = (reach t - N.to_nat (tt_n tg))%nat
                /\ (1 <= tt_n tg -> tt_below tg' = true /\ t_col t' = 0%nat)
                /\ (tt_n tg = 0 -> tt_below tg' = tt_below tg /\ t' = t)).
  Proof using HW HH.
    intros Hal Hr Hlen Hreach Hb Htexts Hbars Hfit. cbv zeta.
    unfold term_draw. rewrite Hal.
    destruct (draw_to_term (texts ++ bars) (tt_n tg) Top (tt_below tg) W H) as [[ops n'] below'] eqn:Ed.
    rewrite emit_nofaults. cbn [fst snd tt_n tt_rl tt_align tt_below].
    pose proof (draw_to_term_spec_top W H HW HH C F t (texts ++ bars) (tt_n tg) (tt_below tg)
                  Hr Hlen Hreach Hb) as Hspec.
    cbv zeta in Hspec. rewrite Ed in Hspec. cbn [fst snd] in Hspec. fold Wn Hn in Hspec.
    assert (Hall : painted (texts ++ bars) W H 0 = texts ++ bars).
    { apply painted_all. unfold bar_rows. rewrite filter_bars_app by assumption. lia. }
    rewrite Hall in Hspec. rewrite Nat.eqb_refl in Hspec.
    destruct Hspec as (Hn' & Hbel' & Hnil & _ & Hcomplete).
    assert (Hn'' : n' = visual_line_count bars W).
    { rewrite Hn'. unfold bar_rows. now rewrite filter_bars_app by assumption. }
    split; [exact Hn''|]. split; [reflexivity|]. split; [reflexivity|].
    assert (Hcase : texts ++ bars = [] \/ texts ++ bars <> [])
      by (destruct (texts ++ bars); [left | right]; congruence).
    destruct Hcase as [Els|Hne].
    - apply app_eq_nil in Els. destruct Els as [-> ->]. cbn [app] in *.
      destruct (Hnil eq_refl) as (Hr' & Hre' & Hc' & Hz').
      exists [], []. cbn [map app]. rewrite app_nil_r.
      split; [exact Hr'|]. split; [apply rows_equiv_refl|]. split; [apply rows_equiv_refl|].
      split; [rewrite Hn''; reflexivity|]. split; [congruence|].
      intros _. split; [exact Hre'|]. split.
      + intros Hge. split; [|exact (Hc' Hge)]. rewrite Hbel'.
        destruct (N.eqb_spec (tt_n tg) 0); [lia | reflexivity].
      + intros Hz. split; [|exact (Hz' Hz)]. rewrite Hbel', Hz. reflexivity.
    - destruct (Hcomplete Hne eq_refl) as (Hr' & Hc' & Hre').
      set (R := paint_rows W true true (texts ++ bars)) in *.
      destruct (paint_rows_equiv W HW (texts ++ bars) true true) as (HeR & HlR).
      fold R Wn in HeR, HlR. rewrite map_app, wrap_app in HeR.
      destruct (rows_equiv_split Wn R _ _ HeR) as (RT & RB & HRsplit & HeT & HeB).
      exists RT, RB.
      assert (HlenB : length RB = N.to_nat n').
      { rewrite (rows_equiv_length _ _ _ HeB), Hn''. apply wrap_length. exact HW. }
      split; [rewrite <- HRsplit; exact Hr'|]. split; [exact HeT|]. split; [exact HeB|].
      split; [exact HlenB|]. split; [|congruence].
      intros _. split; [|split; [exact Hc'|]].
      + rewrite Hbel'. destruct (texts ++ bars); [congruence | reflexivity].
      + rewrite Hre', HRsplit. reflexivity.
  Qed.

  (* ---------------------------------------------------------------- the invariant *)
  (** the cursor: at column 0 below the written rows when cursor_below says so; otherwise
      wrap-pending on the last row of the region as soon as the region has a row *)
  Definition cursor_ok (below : bool) (rows : N) (t : term) : Prop :=
    (below = true -> t_col t = 0%nat) /\ (below = false -> 1 <= rows -> t_col t <> 0%nat).

  (** INV between any two MultiState calls: the written rows are pre ++ log ++ kept ++ live (as
      rows of W cells), last_line_count counts the live rows, zombie_lines_count the kept rows,
      all of them within reach of cursor-up *)
  Definition AInv (m : mstate) (t : term) (g : mghost) : Prop :=
    exists tg, ms_target m = TTerm tg /\ tt_align tg = Top /\ ms_align m = Top
      /\ Forall (fun l => is_bar l = false) (ms_orphans m) /\ members_bars m
      /\ exists L K F,
           ready Wn Hn (pre ++ L ++ K ++ F) t
           /\ rows_equiv Wn L (wrap Wn (mg_log g)) /\ rows_equiv Wn K (mg_kept g)
           /\ rows_equiv Wn F (mg_live g)
           /\ length F = N.to_nat (tt_n tg) /\ length K = N.to_nat (ms_zombie_lines m)
           /\ (N.to_nat (tt_n tg) + N.to_nat (ms_zombie_lines m) <= reach t)%nat
           /\ cursor_ok (tt_below tg) (tt_n tg + ms_zombie_lines m) t.

  Lemma members_bars_upd m i (f : member -> member) :
    members_bars m ->
    (forall x ls, m_lines (f x) = Some ls -> m_lines x = Some ls \/ Forall (fun l => is_bar l = true) ls) ->
    forall mems', mems' = updN (ms_members m) i f ->
    forall j ls, m_lines (nthN mems' j member_default) = Some ls -> Forall (fun l => is_bar l = true) ls.
  Proof.
    intros Hm Hf mems' -> j ls Hj. unfold nthN in Hj.
    destruct (Nat.eq_dec i (N.to_nat j)) as [->|Hne].
    - destruct (Nat.lt_ge_cases (N.to_nat j) (length (ms_members m))) as [Hl|Hl].
      + rewrite updN_nth_eq in Hj by exact Hl. destruct (Hf _ _ Hj) as [Hold|Hnew]; [|exact Hnew].
        exact (Hm j ls Hold).
      + rewrite updN_oob in Hj by exact Hl. exact (Hm j ls Hj).
    - rewrite updN_nth_neq in Hj by exact Hne. exact (Hm j ls Hj).
  Qed.

  Lemma members_bars_remove m i : members_bars m -> members_bars (ms_remove_idx m i).
  Proof.
    intros Hm. unfold ms_remove_idx. destruct (memN i (ms_free m)); [exact Hm|].
    unfold members_bars. cbn [ms_members set_ms_order set_ms_free set_ms_members].
    eapply members_bars_upd; [exact Hm | | reflexivity].
    intros x ls Hx. cbn in Hx. discriminate.
  Qed.

  Lemma members_bars_fold zs : forall m, members_bars m -> members_bars (fold_left ms_remove_idx zs m).
  Proof. induction zs as [|z zs IH]; intros m Hm; [exact Hm|]. cbn [fold_left]. apply IH, members_bars_remove, Hm. Qed.

  Lemma members_bars_same m m' : ms_members m' = ms_members m -> members_bars m -> members_bars m'.
  Proof. unfold members_bars. intros ->. exact (fun x => x). Qed.

  Lemma orphans_force m : Forall (fun l => is_bar l = false) (ms_orphans m) -> ms_orphans m <> [] ->
    (0 <? visual_line_count (ms_orphans m) W) = true.
  Proof.
    intros _ Hne. destruct (ms_orphans m) as [|l r]; [congruence|].
    rewrite visual_line_count_cons. apply N.ltb_lt. unfold wrapped_height. lia.
  Qed.

  (* ---------------------------------------------------------------- MultiState::draw *)
  Definition extra_ok (force : bool) (extra : option (list line)) : Prop :=
    match extra with Some e => force = true /\ Forall (fun l => is_bar l = false) e | None => True end.

  Lemma text_lines_of_texts m force extra :
    Forall (fun l => is_bar l = false) (ms_orphans m) -> extra_ok force extra ->
    Forall (fun l => is_bar l = false) (text_lines_of m extra).
  Proof.
    intros Ho He. unfold text_lines_of. apply Forall_app. split; [|exact Ho].
    destruct extra as [e|]; [exact (proj2 He) | constructor].
  Qed.

  Lemma no_text_lines m extra : ms_has_text m extra = false -> text_lines_of m extra = [].
  Proof.
    unfold ms_has_text, text_lines_of. destruct extra as [e|]; [discriminate|].
    destruct (ms_orphans m); [reflexivity | discriminate].
  Qed.

  Lemma draw_inv m t g force extra now c :
    AInv m t g -> extra_ok force extra -> fits_act W H now m (ADraw force extra) ->
    let r := ms_draw W H nofaults m force extra now c in
    AInv (fst4 r) (run_ops Wn Hn t (snd (fst (fst r)))) (g_act W now m (ADraw force extra) g)
    /\ ms_orphans (fst4 r) = (if ms_attempt W m force extra now then [] else ms_orphans m).
  Proof using HW HH.
    intros (tg & Ht & Hal & Hma & Horph & Hmb & L & K & F & Hr & HL & HK & HF & HlF & HlK & Hreach & Hcur)
           Hex Hfit.
    cbv zeta. cbn [g_act fits_act] in *.
    rewrite (ms_draw_unfold W H nofaults m force extra now c tg Ht). cbv zeta.
    assert (Hatt : ms_attempt W m force extra now
                   = fst (tt_allow (if ms_has_text m extra then tt_adjust_clear tg (ms_zombie_lines m) else tg)
                                   (force || (0 <? visual_line_count (ms_orphans m) W)) now)).
    { unfold ms_attempt. rewrite Ht. reflexivity. }
    rewrite Hatt in *. clear Hatt.
    set (ht := ms_has_text m extra) in *.
    set (tg1 := if ht then tt_adjust_clear tg (ms_zombie_lines m) else tg) in *.
    destruct (tt_allow_fields tg1 (force || (0 <? visual_line_count (ms_orphans m) W)) now) as (En & Eb & Ea).
    assert (Hforced : ht = true -> fst (tt_allow tg1 (force || (0 <? visual_line_count (ms_orphans m) W)) now) = true).
    { intros Hht. unfold ht, ms_has_text in Hht.
      assert (Hf : (force || (0 <? visual_line_count (ms_orphans m) W)) = true).
      { destruct extra as [e|]; [destruct Hex as [-> _]; reflexivity|].
        cbn [orb] in Hht. rewrite orphans_force; [apply orb_true_r | exact Horph |].
        destruct (ms_orphans m); [discriminate | discriminate]. }
      rewrite Hf. reflexivity. }
    destruct (tt_allow tg1 (force || (0 <? visual_line_count (ms_orphans m) W)) now) as [allowed tg2] eqn:Eal.
    cbn [fst snd] in *.
    destruct allowed; cbn [negb].
    2: { assert (Hht : ht = false) by (destruct ht; [specialize (Hforced eq_refl); discriminate | reflexivity]).
         unfold fst4. cbn [fst snd]. rewrite run_ops_nil. unfold tg1 in *. rewrite Hht in *.
         split; [|reflexivity].
         exists tg2. split; [reflexivity|]. split; [congruence|]. split; [exact Hma|].
         split; [exact Horph|]. split; [exact Hmb|]. exists L, K, F.
         cbn [ms_zombie_lines set_ms_target set_ms_zombie_lines]. rewrite En, Eb.
         repeat split; try assumption; apply Hcur. }
    (* attempted *)
    clear Hforced. specialize (Hfit eq_refl). apply N.leb_le in Hfit.
    rewrite ms_frame_split.
    pose proof (text_lines_of_texts m force extra Horph Hex) as Htexts.
    pose proof (bar_lines_bars m Hmb) as Hbars.
    set (tgd := mktt (tt_n tg2) (tt_rl tg2) (ms_align m) (tt_below tg2)).
    assert (En1 : tt_n tg1 = tt_n tg + (if ht then ms_zombie_lines m else 0)).
    { unfold tg1. destruct ht; cbn; lia. }
    assert (Eb1 : tt_below tg1 = tt_below tg) by (unfold tg1; destruct ht; reflexivity).
    set (C := pre ++ L ++ (if ht then [] else K)).
    set (F1 := if ht then K ++ F else F).
    assert (HCF : C ++ F1 = pre ++ L ++ K ++ F).
    { unfold C, F1. destruct ht; rewrite <- ?app_assoc; cbn [app]; reflexivity. }
    pose proof (term_draw_rows C F1 t tgd (text_lines_of m extra) (bar_lines_of m) c) as Hd.
    cbv zeta in Hd. destruct Hd as (Hn3 & Hrl3 & Hal3 & RT & RB & Hr' & HeT & HeB & HlB & Hne & Hnil).
    { exact Hma. }
    { rewrite HCF. exact Hr. }
    { unfold F1, tgd. cbn [tt_n]. rewrite En, En1. destruct ht; rewrite ?app_length; lia. }
    { unfold tgd. cbn [tt_n]. rewrite En, En1. destruct ht; lia. }
    { unfold tgd. cbn [tt_n tt_below]. rewrite En, En1, Eb, Eb1. intros Hge.
      destruct Hcur as [Hc1 Hc2]. destruct (tt_below tg); [apply Hc1; reflexivity|].
      apply Hc2; [reflexivity|]. destruct ht; lia. }
    { exact Htexts. } { exact Hbars. } { destruct ht; lia. }
    set (td := term_draw W H nofaults tgd (text_lines_of m extra ++ bar_lines_of m) c) in *.
    set (tg3 := fst (fst (fst td))) in *.
    set (t' := run_ops Wn Hn t (snd (fst (fst td)))) in *.
    unfold fst4. cbn [fst snd]. fold t'.
    set (m0 := set_ms_target (set_ms_zombie_lines (set_ms_orphans m []) (if ht then 0 else ms_zombie_lines m)) (TTerm tg3)).
    set (zs := head_zombies (ms_order m) (ms_members m)).
    destruct (fold_remove_other zs m0) as (Fa & Fo & Fz & Ft).
    set (m2 := fold_left ms_remove_idx zs m0) in *.
    cbn [ms_align ms_orphans ms_zombie_lines ms_target set_ms_target set_ms_zombie_lines set_ms_orphans m0] in Fa, Fo, Fz, Ft.
    assert (Hmb2 : members_bars m2) by (apply members_bars_fold; exact Hmb).
    assert (Hntg : N.to_nat (tt_n tgd) = length F1).
    { unfold F1, tgd. cbn [tt_n]. rewrite En, En1. destruct ht; rewrite ?app_length; lia. }
    assert (HlB' : length RB = N.to_nat (visual_line_count (bar_lines_of m) W)) by (rewrite HlB, Hn3; reflexivity).
    set (zk := if ht then 0 else ms_zombie_lines m) in *.
    assert (Hn_eq : N.to_nat (tt_n tgd) = (N.to_nat (tt_n tg) + (if ht then N.to_nat (ms_zombie_lines m) else 0))%nat).
    { unfold tgd. cbn [tt_n]. rewrite En, En1. destruct ht; lia. }
    assert (Hcases : text_lines_of m extra ++ bar_lines_of m = [] \/ text_lines_of m extra ++ bar_lines_of m <> [])
      by (destruct (text_lines_of m extra ++ bar_lines_of m); [left | right]; congruence).
    assert (Hreach' : (length RB + N.to_nat zk <= reach t')%nat).
    { destruct Hcases as [Hnl|Hnn].
      - destruct (Hnil Hnl) as (Hre & _). apply app_eq_nil in Hnl. destruct Hnl as [_ Hb0].
        rewrite HlB', Hb0, Hre, Hn_eq. unfold zk. unfold visual_line_count. cbn [fold_left]. destruct ht; lia.
      - destruct (Hne Hnn) as (_ & _ & Hre). rewrite Hre, app_length, Hn_eq.
        assert (length RB + N.to_nat zk <= Hn)%nat by (rewrite HlB'; unfold Hn, zk; destruct ht; lia).
        unfold zk in *. destruct ht; lia. }
    assert (Hcur' : cursor_ok (tt_below tg3) (tt_n tg3 + zk) t').
    { destruct Hcases as [Hnl|Hnn].
      - destruct (Hnil Hnl) as (_ & Hge & Hz).
        destruct (N.eq_dec (tt_n tgd) 0) as [Hz0|Hnz].
        + destruct (Hz Hz0) as [Hb3 Ht3]. rewrite Hb3, Ht3. unfold tgd at 1. cbn [tt_below]. rewrite Eb, Eb1.
          apply app_eq_nil in Hnl. destruct Hnl as [_ Hb0].
          assert (Hn30 : tt_n tg3 = 0) by (rewrite Hn3, Hb0; reflexivity).
          rewrite Hn30. destruct Hcur as [Hc1 Hc2]. split; [exact Hc1|].
          intros Hbf Hrows. apply Hc2; [exact Hbf|]. unfold zk in Hrows. destruct ht; lia.
        + destruct (Hge ltac:(lia)) as [Hb3 Hc3]. rewrite Hb3. split; [intros _; exact Hc3 | discriminate].
      - destruct (Hne Hnn) as (Hb3 & Hc3 & _). rewrite Hb3. split; [discriminate | intros _ _; exact Hc3]. }
    clearbody t'. clear Hne Hnil Hcases.
    unfold g_draw. fold ht.
    destruct ht eqn:Hht.
    - (* text lines painted: the kept rows are gone, every Bar row stays in the live region *)
      split; [|exact Fo].
      exists tg3. split; [exact Ft|]. split; [exact Hal3|]. split; [congruence|].
      split; [rewrite Fo; constructor|]. split; [exact Hmb2|].
      exists (L ++ RT), [], RB. cbn [mg_log mg_kept mg_live app length]. rewrite Fz.
      unfold C in Hr'. rewrite app_nil_r in Hr'.
      split; [rewrite <- !app_assoc in *; exact Hr'|].
      split; [rewrite wrap_app; apply rows_equiv_app; assumption|].
      split; [apply rows_equiv_refl|]. split; [exact HeB|]. split; [exact HlB|]. split; [reflexivity|].
      unfold zk in *. rewrite <- HlB. split; [lia | exact Hcur'].
    - (* no text: the rows of the head zombies become kept rows *)
      split; [|exact Fo].
      rewrite Ft. cbn [target_adjust_keep target_n].
      pose proof (no_text_lines m extra Hht) as Hnt. rewrite Hnt in *. cbn [map] in *. rewrite app_nil_r.
      apply rows_equiv_nil in HeT. subst RT. cbn [app] in Hr'.
      rewrite bar_lines_split, map_app, wrap_app in HeB.
      destruct (rows_equiv_split Wn RB _ _ HeB) as (RZ & RR & HRsplit & HeZ & HeR).
      assert (HlZ : length RZ = N.to_nat (zombie_rows W m)).
      { rewrite (rows_equiv_length _ _ _ HeZ), zombie_rows_vlc. apply wrap_length. exact HW. }
      assert (Hmin : N.min (zombie_rows W m) (tt_n tg3) = zombie_rows W m).
      { assert (length RZ <= length RB)%nat by (rewrite HRsplit, app_length; lia). lia. }
      rewrite Hmin.
      exists (tt_adjust_keep tg3 (zombie_rows W m)). split; [reflexivity|]. split; [exact Hal3|].
      split; [cbn [ms_align set_ms_zombie_lines set_ms_target]; congruence|].
      split; [cbn [ms_orphans set_ms_zombie_lines set_ms_target]; rewrite Fo; constructor|]. split; [exact Hmb2|].
      exists L, (K ++ RZ), RR. cbn [mg_log mg_kept mg_live tt_adjust_keep tt_n tt_below ms_zombie_lines set_ms_zombie_lines].
      rewrite Fz. unfold C in Hr'. rewrite HRsplit in Hr'.
      split; [rewrite <- !app_assoc in *; exact Hr'|].
      split; [exact HL|]. split; [apply rows_equiv_app; assumption|]. split; [exact HeR|].
      assert (HlR : length RR = N.to_nat (tt_n tg3 - zombie_rows W m)).
      { rewrite HRsplit, app_length in HlB. lia. }
      split; [exact HlR|]. split; [rewrite app_length; unfold zk; lia|].
      rewrite HRsplit, app_length in Hreach'. unfold zk in *.
      split; [lia|].
      replace (tt_n tg3 - zombie_rows W m + (ms_zombie_lines m + zombie_rows W m)) with (tt_n tg3 + ms_zombie_lines m); [exact Hcur'|].
      rewrite HRsplit, app_length in HlB. lia.
  Qed.

  (* ---------------------------------------------------------------- MultiState::clear *)
  Lemma clear_inv m t g c :
    AInv m t g ->
    let r := ms_clear W H nofaults m c in
    AInv (fst4 r) (run_ops Wn Hn t (snd (fst (fst r)))) (mkmg (mg_log g) [] [])
    /\ target_n (ms_target (fst4 r)) = 0 /\ ms_zombie_lines (fst4 r) = 0
    /\ ms_orphans (fst4 r) = ms_orphans m /\ ms_members (fst4 r) = ms_members m
    /\ ms_order (fst4 r) = ms_order m /\ ms_free (fst4 r) = ms_free m.
  Proof using HW HH.
    intros (tg & Ht & Hal & Hma & Horph & Hmb & L & K & F & Hr & HL & HK & HF & HlF & HlK & Hreach & Hcur).
    cbv zeta. unfold ms_clear. rewrite Ht.
    set (tg1 := tt_adjust_clear tg (ms_zombie_lines m)).
    pose proof (term_draw_rows (pre ++ L) (K ++ F) t tg1 [] [] c) as Hd.
    cbv zeta in Hd. cbn [app] in Hd.
    destruct Hd as (Hn3 & Hrl3 & Hal3 & RT & RB & Hr' & HeT & HeB & HlB & _ & Hnil).
    { exact Hal. }
    { rewrite <- app_assoc. exact Hr. }
    { unfold tg1. cbn [tt_adjust_clear tt_n]. rewrite app_length. lia. }
    { unfold tg1. cbn [tt_adjust_clear tt_n]. lia. }
    { unfold tg1. cbn [tt_adjust_clear tt_n tt_below]. intros Hge.
      destruct Hcur as [Hc1 Hc2]. destruct (tt_below tg); [apply Hc1; reflexivity | apply Hc2; [reflexivity | lia]]. }
    { constructor. } { constructor. } { unfold visual_line_count. cbn. lia. }
    destruct (Hnil eq_refl) as (Hre & Hge & Hz).
    destruct (term_draw W H nofaults tg1 [] c) as [[[tg2 e] c'] ok] eqn:Etd.
    unfold fst4. cbn [fst snd] in *.
    cbn [ms_target ms_zombie_lines ms_orphans ms_members ms_order ms_free set_ms_target set_ms_zombie_lines target_n].
    assert (Hn0 : tt_n tg2 = 0) by (rewrite Hn3; reflexivity).
    split; [|repeat split; exact Hn0].
    cbn [map] in HeT, HeB. apply rows_equiv_nil in HeT. apply rows_equiv_nil in HeB. subst RT RB.
    rewrite !app_nil_r in Hr'.
    exists tg2. split; [reflexivity|]. split; [exact Hal3|]. split; [exact Hma|]. split; [exact Horph|].
    split; [exact Hmb|]. exists L, [], []. cbn [mg_log mg_kept mg_live app length ms_zombie_lines set_ms_zombie_lines set_ms_target].
    rewrite !app_nil_r, Hn0.
    split; [exact Hr'|]. split; [exact HL|]. split; [apply rows_equiv_refl|]. split; [apply rows_equiv_refl|].
    split; [reflexivity|]. split; [reflexivity|]. split; [lia|].
    split.
    - intros Hb2. destruct (N.eq_dec (tt_n tg1) 0) as [Hz0|Hnz].
      + destruct (Hz Hz0) as [Hb Ht']. rewrite Ht'. apply (proj1 Hcur). rewrite <- Hb2, Hb. reflexivity.
      + apply Hge. lia.
    - intros _ Hge1. lia.
  Qed.

  (* ---------------------------------------------------------------- lines written by the closure of suspend *)
  Lemma writes_inv m : forall ws t g,
    AInv m t g -> target_n (ms_target m) = 0 -> ms_zombie_lines m = 0 ->
    forallb (fun w => match w with [] => false | _ => true end) ws = true ->
    AInv m (run_ops Wn Hn t (map TLine ws)) (mkmg (mg_log g ++ ws) (mg_kept g) (mg_live g)).
  Proof using HW HH.
    assert (HWn : (1 <= Wn)%nat) by (unfold Wn; lia).
    assert (HHn : (1 <= Hn)%nat) by (unfold Hn; lia).
    induction ws as [|w ws IH]; intros t g Hinv Hn0 Hz0 Hok.
    - cbn [map]. rewrite run_ops_nil, app_nil_r. destruct g; exact Hinv.
    - cbn [forallb] in Hok. apply andb_prop in Hok. destruct Hok as [Hw Hok].
      cbn [map]. rewrite run_ops_cons.
      replace (mg_log g ++ w :: ws) with ((mg_log g ++ [w]) ++ ws) by (rewrite <- app_assoc; reflexivity).
      apply (IH (exec Wn Hn t (TLine w)) (mkmg (mg_log g ++ [w]) (mg_kept g) (mg_live g))); try assumption.
      destruct Hinv as (tg & Ht & Hal & Hma & Horph & Hmb & L & K & F & Hr & HL & HK & HF & HlF & HlK & Hreach & Hcur).
      rewrite Ht in Hn0. cbn [target_n] in Hn0. rewrite Hn0, Hz0 in *.
      destruct F; [|discriminate]. destruct K; [|discriminate]. rewrite !app_nil_r in Hr.
      destruct (line_spec Wn Hn (pre ++ L) t w HWn HHn Hr) as (Hr' & Hc' & Hre').
      { left. destruct w; [discriminate | discriminate]. }
      exists tg. split; [exact Ht|]. split; [exact Hal|]. split; [exact Hma|]. split; [exact Horph|].
      split; [exact Hmb|]. exists (L ++ chunks Wn w), [], []. cbn [mg_log mg_kept mg_live].
      rewrite !app_nil_r, Hn0, Hz0.
      split; [rewrite app_assoc; exact Hr'|].
      split; [rewrite wrap_app; apply rows_equiv_app; [exact HL|]; unfold wrap; cbn; rewrite app_nil_r; apply rows_equiv_refl|].
      split; [exact HK|]. split; [exact HF|]. split; [reflexivity|]. split; [reflexivity|]. split; [lia|].
      split; [intros _; exact Hc' | intros _ Hge; lia].
  Qed.

  (* ---------------------------------------------------------------- MultiState::suspend *)
  Lemma AInv_retarget m t g tg tg' :
    AInv m t g -> ms_target m = TTerm tg ->
    tt_n tg' = tt_n tg -> tt_align tg' = tt_align tg -> tt_below tg' = tt_below tg ->
    AInv (set_ms_target m (TTerm tg')) t g.
  Proof.
    intros (tg0 & Ht & Hal & Hma & Horph & Hmb & L & K & F & Hr & HL & HK & HF & HlF & HlK & Hreach & Hcur) Ht' En Ea Eb.
    rewrite Ht in Ht'. injection Ht' as <-.
    exists tg'. split; [reflexivity|]. split; [congruence|]. split; [exact Hma|]. split; [exact Horph|].
    split; [exact Hmb|]. exists L, K, F. cbn [ms_zombie_lines set_ms_target]. rewrite En, Eb.
    repeat split; try assumption; apply Hcur.
  Qed.

  Lemma g_draw_same m m' extra g :
    ms_members m' = ms_members m -> ms_order m' = ms_order m -> ms_orphans m' = ms_orphans m ->
    g_draw W m' extra g = g_draw W m extra g.
  Proof.
    intros Em Eo Er.
    unfold g_draw, ms_has_text, text_lines_of, bar_lines_of, zombie_lines_of, rest_lines_of.
    rewrite Em, Eo, Er. reflexivity.
  Qed.

  Lemma suspend_inv m t g ws now c :
    AInv m t g -> fits_act W H now m (ASuspend ws) ->
    let r := ms_suspend W H nofaults m ws now c in
    AInv (fst (fst r)) (run_ops Wn Hn t (snd (fst r))) (g_act W now m (ASuspend ws) g)
    /\ ms_orphans (fst (fst r)) = [].
  Proof using HW HH.
    intros Hinv [Hws Hfit]. cbv zeta. unfold ms_suspend.
    pose proof (clear_inv m t g c Hinv) as Hc. cbv zeta in Hc. unfold fst4 in Hc.
    destruct (ms_clear W H nofaults m c) as [[[m1 e1] c1] ok1]. cbn [fst snd] in Hc.
    destruct Hc as (Hinv1 & Hn1 & Hz1 & Eor & Eme & Eod & Efr).
    pose proof Hinv1 as (tg1 & Ht1 & _).
    rewrite Ht1 in *. cbn [target_n] in Hn1.
    set (tg1' := mktt 0 (tt_rl tg1) (tt_align tg1) (tt_below tg1)).
    set (m1' := set_ms_target m1 (TTerm tg1')).
    assert (Hinv1' : AInv m1' (run_ops Wn Hn t e1) (mkmg (mg_log g) [] [])).
    { apply (AInv_retarget m1 _ _ tg1 tg1' Hinv1 Ht1); unfold tg1'; cbn; congruence. }
    rewrite emit_each_nofaults.
    pose proof (writes_inv m1' ws _ _ Hinv1' eq_refl Hz1 Hws) as Hinv2. cbn [mg_log mg_kept mg_live] in Hinv2.
    pose proof (draw_inv m1' _ _ true None now (c1 + N.of_nat (length (map TLine ws))) Hinv2 I) as Hd.
    cbv zeta in Hd. unfold fst4 in Hd.
    assert (Hatt : ms_attempt W m1' true None now = true) by reflexivity.
    cbn [g_act] in Hd. rewrite Hatt in Hd.
    destruct (ms_draw W H nofaults m1' true None now (c1 + N.of_nat (length (map TLine ws)))) as [[[m3 e3] c3] ok3].
    cbn [fst snd] in *. rewrite !run_ops_app.
    rewrite (g_draw_same m m1' None) in Hd by assumption.
    apply Hd. cbn [fits_act]. intros _.
    change (ms_zombie_lines m1') with (ms_zombie_lines m1). rewrite Hz1.
    replace (bar_lines_of m1') with (bar_lines_of m) by (unfold bar_lines_of; cbn [m1' ms_members ms_order set_ms_target]; now rewrite Eme, Eod).
    apply N.leb_le in Hfit. apply N.leb_le. destruct (ms_has_text m1' None); lia.
  Qed.

  (* ---------------------------------------------------------------- MultiState::mark_zombie *)
  Lemma mark_inv m t g idx now :
    AInv m t g -> AInv (ms_mark_zombie W m idx) t (g_act W now m (AMark idx) g)
                  /\ ms_orphans (ms_mark_zombie W m idx) = ms_orphans m.
  Proof.
    intros (tg & Ht & Hal & Hma & Horph & Hmb & L & K & F & Hr & HL & HK & HF & HlF & HlK & Hreach & Hcur).
    unfold ms_mark_zombie. cbn [g_act]. destruct (ms_order m) as [|first rest] eqn:Eo.
    - split; [|reflexivity]. exists tg. repeat (split; [assumption|]). exists L, K, F. repeat split; try assumption; apply Hcur.
    - rewrite (N.eqb_sym idx first). destruct (N.eqb_spec first idx) as [->|Hne]; cbn [negb].
      + (* at the head: Keep *)
        rewrite N.eqb_refl. unfold ms_width. rewrite Ht. cbn [target_n target_adjust_keep].
        set (lc := N.min (member_vlc (nthN (ms_members m) idx member_default) W) (tt_n tg)).
        match goal with |- context [ms_remove_idx ?m0 idx] => set (m0' := m0);
          destruct (remove_idx_other m0' idx) as (Ea & Eor & Ez & Et) end.
        cbn [m0' ms_align ms_orphans ms_zombie_lines ms_target set_ms_target set_ms_zombie_lines] in Ea, Eor, Ez, Et.
        split; [|exact Eor].
        exists (tt_adjust_keep tg lc). split; [exact Et|]. split; [exact Hal|]. split; [congruence|].
        split; [rewrite Eor; exact Horph|]. split; [apply members_bars_remove; exact Hmb|].
        exists L, (K ++ firstn (N.to_nat lc) F), (skipn (N.to_nat lc) F).
        unfold g_keep. cbn [mg_log mg_kept mg_live tt_adjust_keep tt_n tt_below]. rewrite Ez.
        assert (Hlc : (N.to_nat lc <= length F)%nat) by (unfold lc; lia).
        split; [rewrite <- (app_assoc K), firstn_skipn; exact Hr|].
        split; [exact HL|]. split; [apply rows_equiv_app; [exact HK | apply rows_equiv_firstn; exact HF]|].
        split; [apply rows_equiv_skipn; exact HF|].
        split; [rewrite skipn_length; lia|]. split; [rewrite app_length, firstn_length; lia|].
        split; [lia|].
        replace (tt_n tg - lc + (ms_zombie_lines m + lc)) with (tt_n tg + ms_zombie_lines m) by (unfold lc; lia).
        exact Hcur.
      + (* behind the head: only the flag *)
        rewrite (proj2 (N.eqb_neq idx first)) by congruence.
        split; [|reflexivity].
        exists tg. split; [exact Ht|]. split; [exact Hal|]. split; [exact Hma|]. split; [exact Horph|].
        split.
        { unfold members_bars. cbn [ms_members set_ms_members].
          eapply members_bars_upd; [exact Hmb | | reflexivity]. intros x ls Hx. left. exact Hx. }
        exists L, K, F. repeat split; try assumption; apply Hcur.
  Qed.
