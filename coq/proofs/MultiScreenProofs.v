(** C02_screen / C03_log / C04_kept: the screen invariant of a MultiProgress over every op
    history (model/MultiScreen.v), built from the macro lemmas of TermProofs.v (one draw_to_term
    call, one write_line) and the decomposition of every public call into MultiState method calls
    (MultiProofs.step_mp).  Top alignment, no I/O faults. *)
From Coq Require Import List NArith ZArith Bool Lia Arith ZifyBool ZifyNat ZifyN.
From IndModel Require Import MultiScreen.
From IndModel Require SingleBar.
From IndProofs Require Import TermProofs SingleBarProofs MultiProofs MultiFrame.
Import ListNotations.
Local Open Scope N_scope.
Arguments N.add : simpl never.
Arguments N.sub : simpl never.
Arguments N.mul : simpl never.
Arguments N.div : simpl never.
Arguments N.modulo : simpl never.
Arguments N.min : simpl never.
Arguments Nat.min : simpl never.
Arguments Nat.sub : simpl never.
Arguments nthN {A} l i d : simpl never.

(* ------------------------------------------------------------------ no I/O faults *)
Lemma emit_nofaults ops c : emit nofaults c ops = (ops, c + N.of_nat (length ops), true).
Proof. exact (emit_nofail ops c). Qed.
Lemma emit_each_nofaults ops c : emit_each nofaults c ops = (ops, c + N.of_nat (length ops)).
Proof. exact (emit_each_nofail ops c). Qed.

(* ------------------------------------------------------------------ lists, rows *)
Lemma Forall_concat {A} (P : A -> Prop) (ll : list (list A)) :
  Forall (fun l => Forall P l) ll -> Forall P (concat ll).
Proof.
  induction 1 as [|l ll Hl Hll IH]; cbn [concat]; [constructor|]. apply Forall_app. split; assumption.
Qed.

Lemma rows_equiv_sym Wn a b : rows_equiv Wn a b -> rows_equiv Wn b a.
Proof. unfold rows_equiv. congruence. Qed.
Lemma rows_equiv_trans Wn a b c : rows_equiv Wn a b -> rows_equiv Wn b c -> rows_equiv Wn a c.
Proof. unfold rows_equiv. congruence. Qed.

Lemma rows_equiv_firstn Wn k a b : rows_equiv Wn a b -> rows_equiv Wn (firstn k a) (firstn k b).
Proof. unfold rows_equiv. intros He. now rewrite <- !firstn_map, He. Qed.
Lemma rows_equiv_skipn Wn k a b : rows_equiv Wn a b -> rows_equiv Wn (skipn k a) (skipn k b).
Proof. unfold rows_equiv. intros He. now rewrite <- !skipn_map, He. Qed.

Lemma rows_equiv_nil Wn a : rows_equiv Wn a [] -> a = [].
Proof. intros He. apply rows_equiv_length in He. destruct a; [reflexivity | discriminate]. Qed.

Lemma wrap_length (ls : list line) (W : N) : 1 <= W ->
  length (wrap (N.to_nat W) (map lt ls)) = N.to_nat (visual_line_count ls W).
Proof. intros HW. rewrite (visual_line_count_wrap ls W HW). lia. Qed.

(* ------------------------------------------------------------------ the lines of a composed frame *)
Lemma ms_frame_split m extra : ms_frame m extra = text_lines_of m extra ++ bar_lines_of m.
Proof. unfold ms_frame, text_lines_of, bar_lines_of. now rewrite app_assoc. Qed.

Lemma bar_lines_split m : bar_lines_of m = zombie_lines_of m ++ rest_lines_of m.
Proof.
  unfold bar_lines_of, zombie_lines_of, rest_lines_of.
  rewrite (head_zombies_prefix (ms_order m) (ms_members m)) at 1.
  now rewrite map_app, concat_app.
Qed.

Lemma member_lines_bars m i : members_bars m ->
  Forall (fun l => is_bar l = true) (member_lines (ms_members m) i).
Proof.
  intros Hm. unfold member_lines. destruct (m_lines (nthN (ms_members m) i member_default)) as [ls|] eqn:E.
  - exact (Hm i ls E).
  - constructor.
Qed.

Lemma lines_of_bars m (l : list N) : members_bars m ->
  Forall (fun x => is_bar x = true) (concat (map (member_lines (ms_members m)) l)).
Proof.
  intros Hm. apply Forall_concat. apply Forall_forall. intros x Hin.
  apply in_map_iff in Hin. destruct Hin as (i & <- & _). now apply member_lines_bars.
Qed.

Lemma bar_lines_bars m : members_bars m -> Forall (fun l => is_bar l = true) (bar_lines_of m).
Proof. intros Hm. now apply lines_of_bars. Qed.

Lemma zombie_rows_vlc W m : zombie_rows W m = visual_line_count (zombie_lines_of m) W.
Proof.
  unfold zombie_rows, zombie_lines_of.
  set (zs := head_zombies (ms_order m) (ms_members m)).
  assert (Hg : forall a, fold_left (fun a i => a + member_vlc (nthN (ms_members m) i member_default) W) zs a
                         = a + visual_line_count (concat (map (member_lines (ms_members m)) zs)) W).
  { induction zs as [|z zs IH]; intros a; cbn [fold_left map concat].
    - unfold visual_line_count. cbn. lia.
    - rewrite IH, visual_line_count_app. unfold member_vlc, member_lines.
      destruct (m_lines (nthN (ms_members m) z member_default)); [lia|].
      unfold visual_line_count at 2. cbn. lia. }
  rewrite Hg. lia.
Qed.

(* ------------------------------------------------------------------ one Drawable::draw on the terminal *)
Section Screen.
  Variable W H : N.
  Hypothesis HW : 1 <= W.
  Hypothesis HH : 1 <= H.
  Variable pre : list (list N).
  Let Wn := N.to_nat W.
  Let Hn := N.to_nat H.

  (** one draw (Top alignment, no faults) of text lines followed by Bar lines that fit, over the
      [tt_n tg] rows [F] at the end of the written rows; the cursor is on the last row of [F]
      or (cursor_below) at column 0 below it *)
  Lemma term_draw_rows C F t tg texts bars c :
    tt_align tg = Top ->
    ready Wn Hn (C ++ F) t -> length F = N.to_nat (tt_n tg) -> (N.to_nat (tt_n tg) <= reach t)%nat ->
    (1 <= tt_n tg -> if tt_below tg then t_col t = 0%nat else t_col t <> 0%nat) ->
    Forall (fun l => is_bar l = false) texts -> Forall (fun l => is_bar l = true) bars ->
    visual_line_count bars W <= H ->
    let r := term_draw W H nofaults tg (texts ++ bars) c in
    let tg' := fst (fst (fst r)) in
    let t' := run_ops Wn Hn t (snd (fst (fst r))) in
    tt_n tg' = visual_line_count bars W /\ tt_rl tg' = tt_rl tg /\ tt_align tg' = Top
    /\ exists RT RB, ready Wn Hn (C ++ RT ++ RB) t'
         /\ rows_equiv Wn RT (wrap Wn (map lt texts)) /\ rows_equiv Wn RB (wrap Wn (map lt bars))
         /\ length RB = N.to_nat (tt_n tg')
         /\ (texts ++ bars <> [] -> tt_below tg' = false /\ t_col t' <> 0%nat
                /\ reach t' = Nat.min Hn (reach t - N.to_nat (tt_n tg) + length (RT ++ RB)))
         /\ (texts ++ bars = [] -> reach t' = (reach t - N.to_nat (tt_n tg))%nat
                /\ (1 <= tt_n tg -> tt_below tg' = true /\ t_col t' = 0%nat)
                /\ (tt_n tg = 0 -> tt_below tg' = tt_below tg /\ t' = t)).
  Proof using HW HH.
    intros Hal Hr Hlen Hreach Hb Htexts Hbars Hfit. cbv zeta.
    unfold term_draw. rewrite Hal.
    destruct (draw_to_term (texts ++ bars) (tt_n tg) Top (tt_below tg) W H) as [[ops n'] below'] eqn:Ed.
    rewrite emit_nofaults. cbn [fst snd tt_n tt_rl tt_align tt_below].
    pose proof (draw_to_term_spec_top W H HW HH C F t (texts ++ bars) (tt_n tg) (tt_below tg)
                  Hr Hlen Hreach Hb) as Hspec.
    cbv zeta in Hspec. rewrite Ed in Hspec. cbn [fst snd] in Hspec. fold Wn Hn in Hspec.
    assert (Hall : painted (texts ++ bars) W H 0 = texts ++ bars).
    { apply painted_all. unfold bar_rows. rewrite filter_bars_app by assumption. lia. }
    rewrite Hall in Hspec. rewrite Nat.eqb_refl in Hspec.
    destruct Hspec as (Hn' & Hbel' & Hnil & _ & Hcomplete).
    assert (Hn'' : n' = visual_line_count bars W).
    { rewrite Hn'. unfold bar_rows. now rewrite filter_bars_app by assumption. }
    split; [exact Hn''|]. split; [reflexivity|]. split; [reflexivity|].
    assert (Hcase : texts ++ bars = [] \/ texts ++ bars <> [])
      by (destruct (texts ++ bars); [left | right]; congruence).
    destruct Hcase as [Els|Hne].
    - apply app_eq_nil in Els. destruct Els as [-> ->]. cbn [app] in *.
      destruct (Hnil eq_refl) as (Hr' & Hre' & Hc' & Hz').
      exists [], []. cbn [map app]. rewrite app_nil_r.
      split; [exact Hr'|]. split; [apply rows_equiv_refl|]. split; [apply rows_equiv_refl|].
      split; [rewrite Hn''; reflexivity|]. split; [congruence|].
      intros _. split; [exact Hre'|]. split.
      + intros Hge. split; [|exact (Hc' Hge)]. rewrite Hbel'.
        destruct (N.eqb_spec (tt_n tg) 0); [lia | reflexivity].
      + intros Hz. split; [|exact (Hz' Hz)]. rewrite Hbel', Hz. reflexivity.
    - destruct (Hcomplete Hne eq_refl) as (Hr' & Hc' & Hre').
      set (R := paint_rows W true true (texts ++ bars)) in *.
      destruct (paint_rows_equiv W HW (texts ++ bars) true true) as (HeR & HlR).
      fold R Wn in HeR, HlR. rewrite map_app, wrap_app in HeR.
      destruct (rows_equiv_split Wn R _ _ HeR) as (RT & RB & HRsplit & HeT & HeB).
      exists RT, RB.
      assert (HlenB : length RB = N.to_nat n').
      { rewrite (rows_equiv_length _ _ _ HeB), Hn''. apply wrap_length. exact HW. }
      split; [rewrite <- HRsplit; exact Hr'|]. split; [exact HeT|]. split; [exact HeB|].
      split; [exact HlenB|]. split; [|congruence].
      intros _. split; [|split; [exact Hc'|]].
      + rewrite Hbel'. destruct (texts ++ bars); [congruence | reflexivity].
      + rewrite Hre', HRsplit. reflexivity.
  Qed.

  (* ---------------------------------------------------------------- the invariant *)
  (** the cursor: at column 0 below the written rows when cursor_below says so; otherwise
      wrap-pending on the last row of the region as soon as the region has a row *)
  Definition cursor_ok (below : bool) (rows : N) (t : term) : Prop :=
    (below = true -> t_col t = 0%nat) /\ (below = false -> 1 <= rows -> t_col t <> 0%nat).

  (** INV between any two MultiState calls: the written rows are pre ++ log ++ kept ++ live (as
      rows of W cells), last_line_count counts the live rows, zombie_lines_count the kept rows,
      all of them within reach of cursor-up *)
  Definition AInv (m : mstate) (t : term) (g : mghost) : Prop :=
    exists tg, ms_target m = TTerm tg /\ tt_align tg = Top /\ ms_align m = Top
      /\ Forall (fun l => is_bar l = false) (ms_orphans m) /\ members_bars m
      /\ exists L K F,
           ready Wn Hn (pre ++ L ++ K ++ F) t
           /\ rows_equiv Wn L (wrap Wn (mg_log g)) /\ rows_equiv Wn K (mg_kept g)
           /\ rows_equiv Wn F (mg_live g)
           /\ length F = N.to_nat (tt_n tg) /\ length K = N.to_nat (ms_zombie_lines m)
           /\ (N.to_nat (tt_n tg) + N.to_nat (ms_zombie_lines m) <= reach t)%nat
           /\ cursor_ok (tt_below tg) (tt_n tg + ms_zombie_lines m) t.

  Lemma members_bars_upd m i (f : member -> member) :
    members_bars m ->
    (forall x ls, m_lines (f x) = Some ls -> m_lines x = Some ls \/ Forall (fun l => is_bar l = true) ls) ->
    forall mems', mems' = updN (ms_members m) i f ->
    forall j ls, m_lines (nthN mems' j member_default) = Some ls -> Forall (fun l => is_bar l = true) ls.
  Proof.
    intros Hm Hf mems' -> j ls Hj. unfold nthN in Hj.
    destruct (Nat.eq_dec i (N.to_nat j)) as [->|Hne].
    - destruct (Nat.lt_ge_cases (N.to_nat j) (length (ms_members m))) as [Hl|Hl].
      + rewrite updN_nth_eq in Hj by exact Hl. destruct (Hf _ _ Hj) as [Hold|Hnew]; [|exact Hnew].
        exact (Hm j ls Hold).
      + rewrite updN_oob in Hj by exact Hl. exact (Hm j ls Hj).
    - rewrite updN_nth_neq in Hj by exact Hne. exact (Hm j ls Hj).
  Qed.

  Lemma members_bars_remove m i : members_bars m -> members_bars (ms_remove_idx m i).
  Proof.
    intros Hm. unfold ms_remove_idx. destruct (memN i (ms_free m)); [exact Hm|].
    unfold members_bars. cbn [ms_members set_ms_order set_ms_free set_ms_members].
    eapply members_bars_upd; [exact Hm | | reflexivity].
    intros x ls Hx. cbn in Hx. discriminate.
  Qed.

  Lemma members_bars_fold zs : forall m, members_bars m -> members_bars (fold_left ms_remove_idx zs m).
  Proof. induction zs as [|z zs IH]; intros m Hm; [exact Hm|]. cbn [fold_left]. apply IH, members_bars_remove, Hm. Qed.

  Lemma members_bars_same m m' : ms_members m' = ms_members m -> members_bars m -> members_bars m'.
  Proof. unfold members_bars. intros ->. exact (fun x => x). Qed.

  Lemma orphans_force m : Forall (fun l => is_bar l = false) (ms_orphans m) -> ms_orphans m <> [] ->
    (0 <? visual_line_count (ms_orphans m) W) = true.
  Proof.
    intros _ Hne. destruct (ms_orphans m) as [|l r]; [congruence|].
    rewrite visual_line_count_cons. apply N.ltb_lt. unfold wrapped_height. lia.
  Qed.

  (* ---------------------------------------------------------------- MultiState::draw *)
  Definition extra_ok (force : bool) (extra : option (list line)) : Prop :=
    match extra with Some e => force = true /\ Forall (fun l => is_bar l = false) e | None => True end.

  Lemma text_lines_of_texts m force extra :
    Forall (fun l => is_bar l = false) (ms_orphans m) -> extra_ok force extra ->
    Forall (fun l => is_bar l = false) (text_lines_of m extra).
  Proof.
    intros Ho He. unfold text_lines_of. apply Forall_app. split; [|exact Ho].
    destruct extra as [e|]; [exact (proj2 He) | constructor].
  Qed.

  Lemma no_text_lines m extra : ms_has_text m extra = false -> text_lines_of m extra = [].
  Proof.
    unfold ms_has_text, text_lines_of. destruct extra as [e|]; [discriminate|].
    destruct (ms_orphans m); [reflexivity | discriminate].
  Qed.

  Lemma draw_inv m t g force extra now c :
    AInv m t g -> extra_ok force extra -> fits_act W H now m (ADraw force extra) ->
    let r := ms_draw W H nofaults m force extra now c in
    AInv (fst4 r) (run_ops Wn Hn t (snd (fst (fst r)))) (g_act W now m (ADraw force extra) g)
    /\ ms_orphans (fst4 r) = (if ms_attempt W m force extra now then [] else ms_orphans m).
  Proof using HW HH.
    intros (tg & Ht & Hal & Hma & Horph & Hmb & L & K & F & Hr & HL & HK & HF & HlF & HlK & Hreach & Hcur)
           Hex Hfit.
    cbv zeta. cbn [g_act fits_act] in *.
    rewrite (ms_draw_unfold W H nofaults m force extra now c tg Ht). cbv zeta.
    assert (Hatt : ms_attempt W m force extra now
                   = fst (tt_allow (if ms_has_text m extra then tt_adjust_clear tg (ms_zombie_lines m) else tg)
                                   (force || (0 <? visual_line_count (ms_orphans m) W)) now)).
    { unfold ms_attempt. rewrite Ht. reflexivity. }
    rewrite Hatt in *. clear Hatt.
    set (ht := ms_has_text m extra) in *.
    set (tg1 := if ht then tt_adjust_clear tg (ms_zombie_lines m) else tg) in *.
    destruct (tt_allow_fields tg1 (force || (0 <? visual_line_count (ms_orphans m) W)) now) as (En & Eb & Ea).
    assert (Hforced : ht = true -> fst (tt_allow tg1 (force || (0 <? visual_line_count (ms_orphans m) W)) now) = true).
    { intros Hht. unfold ht, ms_has_text in Hht.
      assert (Hf : (force || (0 <? visual_line_count (ms_orphans m) W)) = true).
      { destruct extra as [e|]; [destruct Hex as [-> _]; reflexivity|].
        cbn [orb] in Hht. rewrite orphans_force; [apply orb_true_r | exact Horph |].
        destruct (ms_orphans m); [discriminate | discriminate]. }
      rewrite Hf. reflexivity. }
    destruct (tt_allow tg1 (force || (0 <? visual_line_count (ms_orphans m) W)) now) as [allowed tg2] eqn:Eal.
    cbn [fst snd] in *.
    destruct allowed; cbn [negb].
    2: { assert (Hht : ht = false) by (destruct ht; [specialize (Hforced eq_refl); discriminate | reflexivity]).
         unfold fst4. cbn [fst snd]. rewrite run_ops_nil. unfold tg1 in *. rewrite Hht in *.
         split; [|reflexivity].
         exists tg2. split; [reflexivity|]. split; [congruence|]. split; [exact Hma|].
         split; [exact Horph|]. split; [exact Hmb|]. exists L, K, F.
         cbn [ms_zombie_lines set_ms_target set_ms_zombie_lines]. rewrite En, Eb.
         repeat split; try assumption; apply Hcur. }
    (* attempted *)
    clear Hforced. specialize (Hfit eq_refl). apply N.leb_le in Hfit.
    rewrite ms_frame_split.
    pose proof (text_lines_of_texts m force extra Horph Hex) as Htexts.
    pose proof (bar_lines_bars m Hmb) as Hbars.
    set (tgd := mktt (tt_n tg2) (tt_rl tg2) (ms_align m) (tt_below tg2)).
    assert (En1 : tt_n tg1 = tt_n tg + (if ht then ms_zombie_lines m else 0)).
    { unfold tg1. destruct ht; cbn; lia. }
    assert (Eb1 : tt_below tg1 = tt_below tg) by (unfold tg1; destruct ht; reflexivity).
    set (C := pre ++ L ++ (if ht then [] else K)).
    set (F1 := if ht then K ++ F else F).
    assert (HCF : C ++ F1 = pre ++ L ++ K ++ F).
    { unfold C, F1. destruct ht; rewrite <- ?app_assoc; cbn [app]; reflexivity. }
    pose proof (term_draw_rows C F1 t tgd (text_lines_of m extra) (bar_lines_of m) c) as Hd.
    cbv zeta in Hd. destruct Hd as (Hn3 & Hrl3 & Hal3 & RT & RB & Hr' & HeT & HeB & HlB & Hne & Hnil).
    { exact Hma. }
    { rewrite HCF. exact Hr. }
    { unfold F1, tgd. cbn [tt_n]. rewrite En, En1. destruct ht; rewrite ?app_length; lia. }
    { unfold tgd. cbn [tt_n]. rewrite En, En1. destruct ht; lia. }
    { unfold tgd. cbn [tt_n tt_below]. rewrite En, En1, Eb, Eb1. intros Hge.
      destruct Hcur as [Hc1 Hc2]. destruct (tt_below tg); [apply Hc1; reflexivity|].
      apply Hc2; [reflexivity|]. destruct ht; lia. }
    { exact Htexts. } { exact Hbars. } { destruct ht; lia. }
    set (td := term_draw W H nofaults tgd (text_lines_of m extra ++ bar_lines_of m) c) in *.
    set (tg3 := fst (fst (fst td))) in *.
    set (t' := run_ops Wn Hn t (snd (fst (fst td)))) in *.
    unfold fst4. cbn [fst snd]. fold t'.
    set (m0 := set_ms_target (set_ms_zombie_lines (set_ms_orphans m []) (if ht then 0 else ms_zombie_lines m)) (TTerm tg3)).
    set (zs := head_zombies (ms_order m) (ms_members m)).
    destruct (fold_remove_other zs m0) as (Fa & Fo & Fz & Ft).
    set (m2 := fold_left ms_remove_idx zs m0) in *.
    cbn [ms_align ms_orphans ms_zombie_lines ms_target set_ms_target set_ms_zombie_lines set_ms_orphans m0] in Fa, Fo, Fz, Ft.
    assert (Hmb2 : members_bars m2) by (apply members_bars_fold; exact Hmb).
    assert (Hntg : N.to_nat (tt_n tgd) = length F1).
    { unfold F1, tgd. cbn [tt_n]. rewrite En, En1. destruct ht; rewrite ?app_length; lia. }
    assert (HlB' : length RB = N.to_nat (visual_line_count (bar_lines_of m) W)) by (rewrite HlB, Hn3; reflexivity).
    set (zk := if ht then 0 else ms_zombie_lines m) in *.
    assert (Hn_eq : N.to_nat (tt_n tgd) = (N.to_nat (tt_n tg) + (if ht then N.to_nat (ms_zombie_lines m) else 0))%nat).
    { unfold tgd. cbn [tt_n]. rewrite En, En1. destruct ht; lia. }
    assert (Hcases : text_lines_of m extra ++ bar_lines_of m = [] \/ text_lines_of m extra ++ bar_lines_of m <> [])
      by (destruct (text_lines_of m extra ++ bar_lines_of m); [left | right]; congruence).
    assert (Hreach' : (length RB + N.to_nat zk <= reach t')%nat).
    { destruct Hcases as [Hnl|Hnn].
      - destruct (Hnil Hnl) as (Hre & _). apply app_eq_nil in Hnl. destruct Hnl as [_ Hb0].
        rewrite HlB', Hb0, Hre, Hn_eq. unfold zk. unfold visual_line_count. cbn [fold_left]. destruct ht; lia.
      - destruct (Hne Hnn) as (_ & _ & Hre). rewrite Hre, app_length, Hn_eq.
        assert (length RB + N.to_nat zk <= Hn)%nat by (rewrite HlB'; unfold Hn, zk; destruct ht; lia).
        unfold zk in *. destruct ht; lia. }
    assert (Hcur' : cursor_ok (tt_below tg3) (tt_n tg3 + zk) t').
    { destruct Hcases as [Hnl|Hnn].
      - destruct (Hnil Hnl) as (_ & Hge & Hz).
        destruct (N.eq_dec (tt_n tgd) 0) as [Hz0|Hnz].
        + destruct (Hz Hz0) as [Hb3 Ht3]. rewrite Hb3, Ht3. unfold tgd at 1. cbn [tt_below]. rewrite Eb, Eb1.
          apply app_eq_nil in Hnl. destruct Hnl as [_ Hb0].
          assert (Hn30 : tt_n tg3 = 0) by (rewrite Hn3, Hb0; reflexivity).
          rewrite Hn30. destruct Hcur as [Hc1 Hc2]. split; [exact Hc1|].
          intros Hbf Hrows. apply Hc2; [exact Hbf|]. unfold zk in Hrows. destruct ht; lia.
        + destruct (Hge ltac:(lia)) as [Hb3 Hc3]. rewrite Hb3. split; [intros _; exact Hc3 | discriminate].
      - destruct (Hne Hnn) as (Hb3 & Hc3 & _). rewrite Hb3. split; [discriminate | intros _ _; exact Hc3]. }
    clearbody t'. clear Hne Hnil Hcases.
    unfold g_draw. fold ht.
    destruct ht eqn:Hht.
    - (* text lines painted: the kept rows are gone, every Bar row stays in the live region *)
      split; [|exact Fo].
      exists tg3. split; [exact Ft|]. split; [exact Hal3|]. split; [congruence|].
      split; [rewrite Fo; constructor|]. split; [exact Hmb2|].
      exists (L ++ RT), [], RB. cbn [mg_log mg_kept mg_live app length]. rewrite Fz.
      unfold C in Hr'. rewrite app_nil_r in Hr'.
      split; [rewrite <- !app_assoc in *; exact Hr'|].
      split; [rewrite wrap_app; apply rows_equiv_app; assumption|].
      split; [apply rows_equiv_refl|]. split; [exact HeB|]. split; [exact HlB|]. split; [reflexivity|].
      unfold zk in *. rewrite <- HlB. split; [lia | exact Hcur'].
    - (* no text: the rows of the head zombies become kept rows *)
      split; [|exact Fo].
      rewrite Ft. cbn [target_adjust_keep target_n].
      pose proof (no_text_lines m extra Hht) as Hnt. rewrite Hnt in *. cbn [map] in *. rewrite app_nil_r.
      apply rows_equiv_nil in HeT. subst RT. cbn [app] in Hr'.
      rewrite bar_lines_split, map_app, wrap_app in HeB.
      destruct (rows_equiv_split Wn RB _ _ HeB) as (RZ & RR & HRsplit & HeZ & HeR).
      assert (HlZ : length RZ = N.to_nat (zombie_rows W m)).
      { rewrite (rows_equiv_length _ _ _ HeZ), zombie_rows_vlc. apply wrap_length. exact HW. }
      assert (Hmin : N.min (zombie_rows W m) (tt_n tg3) = zombie_rows W m).
      { assert (length RZ <= length RB)%nat by (rewrite HRsplit, app_length; lia). lia. }
      rewrite Hmin.
      exists (tt_adjust_keep tg3 (zombie_rows W m)). split; [reflexivity|]. split; [exact Hal3|].
      split; [cbn [ms_align set_ms_zombie_lines set_ms_target]; congruence|].
      split; [cbn [ms_orphans set_ms_zombie_lines set_ms_target]; rewrite Fo; constructor|]. split; [exact Hmb2|].
      exists L, (K ++ RZ), RR. cbn [mg_log mg_kept mg_live tt_adjust_keep tt_n tt_below ms_zombie_lines set_ms_zombie_lines].
      rewrite Fz. unfold C in Hr'. rewrite HRsplit in Hr'.
      split; [rewrite <- !app_assoc in *; exact Hr'|].
      split; [exact HL|]. split; [apply rows_equiv_app; assumption|]. split; [exact HeR|].
      assert (HlR : length RR = N.to_nat (tt_n tg3 - zombie_rows W m)).
      { rewrite HRsplit, app_length in HlB. lia. }
      split; [exact HlR|]. split; [rewrite app_length; unfold zk; lia|].
      rewrite HRsplit, app_length in Hreach'. unfold zk in *.
      split; [lia|].
      replace (tt_n tg3 - zombie_rows W m + (ms_zombie_lines m + zombie_rows W m)) with (tt_n tg3 + ms_zombie_lines m); [exact Hcur'|].
      rewrite HRsplit, app_length in HlB. lia.
  Qed.

  (* ---------------------------------------------------------------- MultiState::clear *)
  Lemma clear_inv m t g c :
    AInv m t g ->
    let r := ms_clear W H nofaults m c in
    AInv (fst4 r) (run_ops Wn Hn t (snd (fst (fst r)))) (mkmg (mg_log g) [] [])
    /\ target_n (ms_target (fst4 r)) = 0 /\ ms_zombie_lines (fst4 r) = 0
    /\ ms_orphans (fst4 r) = ms_orphans m /\ ms_members (fst4 r) = ms_members m
    /\ ms_order (fst4 r) = ms_order m /\ ms_free (fst4 r) = ms_free m.
  Proof using HW HH.
    intros (tg & Ht & Hal & Hma & Horph & Hmb & L & K & F & Hr & HL & HK & HF & HlF & HlK & Hreach & Hcur).
    cbv zeta. unfold ms_clear. rewrite Ht.
    set (tg1 := tt_adjust_clear tg (ms_zombie_lines m)).
    pose proof (term_draw_rows (pre ++ L) (K ++ F) t tg1 [] [] c) as Hd.
    cbv zeta in Hd. cbn [app] in Hd.
    destruct Hd as (Hn3 & Hrl3 & Hal3 & RT & RB & Hr' & HeT & HeB & HlB & _ & Hnil).
    { exact Hal. }
    { rewrite <- app_assoc. exact Hr. }
    { unfold tg1. cbn [tt_adjust_clear tt_n]. rewrite app_length. lia. }
    { unfold tg1. cbn [tt_adjust_clear tt_n]. lia. }
    { unfold tg1. cbn [tt_adjust_clear tt_n tt_below]. intros Hge.
      destruct Hcur as [Hc1 Hc2]. destruct (tt_below tg); [apply Hc1; reflexivity | apply Hc2; [reflexivity | lia]]. }
    { constructor. } { constructor. } { unfold visual_line_count. cbn. lia. }
    destruct (Hnil eq_refl) as (Hre & Hge & Hz).
    destruct (term_draw W H nofaults tg1 [] c) as [[[tg2 e] c'] ok] eqn:Etd.
    unfold fst4. cbn [fst snd] in *.
    cbn [ms_target ms_zombie_lines ms_orphans ms_members ms_order ms_free set_ms_target set_ms_zombie_lines target_n].
    assert (Hn0 : tt_n tg2 = 0) by (rewrite Hn3; reflexivity).
    split; [|repeat split; exact Hn0].
    cbn [map] in HeT, HeB. apply rows_equiv_nil in HeT. apply rows_equiv_nil in HeB. subst RT RB.
    rewrite !app_nil_r in Hr'.
    exists tg2. split; [reflexivity|]. split; [exact Hal3|]. split; [exact Hma|]. split; [exact Horph|].
    split; [exact Hmb|]. exists L, [], []. cbn [mg_log mg_kept mg_live app length ms_zombie_lines set_ms_zombie_lines set_ms_target].
    rewrite !app_nil_r, Hn0.
    split; [exact Hr'|]. split; [exact HL|]. split; [apply rows_equiv_refl|]. split; [apply rows_equiv_refl|].
    split; [reflexivity|]. split; [reflexivity|]. split; [lia|].
    split.
    - intros Hb2. destruct (N.eq_dec (tt_n tg1) 0) as [Hz0|Hnz].
      + destruct (Hz Hz0) as [Hb Ht']. rewrite Ht'. apply (proj1 Hcur). rewrite <- Hb2, Hb. reflexivity.
      + apply Hge. lia.
    - intros _ Hge1. lia.
  Qed.

  (* ---------------------------------------------------------------- lines written by the closure of suspend *)
  Lemma writes_inv m : forall ws t g,
    AInv m t g -> target_n (ms_target m) = 0 -> ms_zombie_lines m = 0 ->
    (match ws with [] :: _ => t_col t = 0%nat | _ => True end) ->
    AInv m (run_ops Wn Hn t (map TLine ws)) (mkmg (mg_log g ++ ws) (mg_kept g) (mg_live g)).
  Proof using HW HH.
    assert (HWn : (1 <= Wn)%nat) by (unfold Wn; lia).
    assert (HHn : (1 <= Hn)%nat) by (unfold Hn; lia).
    induction ws as [|w ws IH]; intros t g Hinv Hn0 Hz0 Hok.
    - cbn [map]. rewrite run_ops_nil, app_nil_r. destruct g; exact Hinv.
    - cbn [map]. rewrite run_ops_cons.
      replace (mg_log g ++ w :: ws) with ((mg_log g ++ [w]) ++ ws) by (rewrite <- app_assoc; reflexivity).
      assert (Hstep : AInv m (exec Wn Hn t (TLine w)) (mkmg (mg_log g ++ [w]) (mg_kept g) (mg_live g))
                      /\ t_col (exec Wn Hn t (TLine w)) = 0%nat).
      { clear IH.
        destruct Hinv as (tg & Ht & Hal & Hma & Horph & Hmb & L & K & F & Hr & HL & HK & HF & HlF & HlK & Hreach & Hcur).
        pose proof Hn0 as Hn0'. rewrite Ht in Hn0'. cbn [target_n] in Hn0'. rewrite Hn0', Hz0 in *.
        destruct F; [|discriminate]. destruct K; [|discriminate]. rewrite !app_nil_r in Hr.
        destruct (line_spec Wn Hn (pre ++ L) t w HWn HHn Hr) as (Hr' & Hc' & Hre').
        { destruct w; [right; exact Hok | left; discriminate]. }
        split; [|exact Hc'].
        exists tg. split; [exact Ht|]. split; [exact Hal|]. split; [exact Hma|]. split; [exact Horph|].
        split; [exact Hmb|]. exists (L ++ chunks Wn w), [], []. cbn [mg_log mg_kept mg_live].
        rewrite !app_nil_r, Hn0', Hz0.
        split; [rewrite app_assoc; exact Hr'|].
        split; [rewrite wrap_app; apply rows_equiv_app; [exact HL|]; unfold wrap; cbn; rewrite app_nil_r; apply rows_equiv_refl|].
        split; [exact HK|]. split; [exact HF|]. split; [reflexivity|]. split; [reflexivity|]. split; [lia|].
        split; [intros _; exact Hc' | intros _ Hge; lia]. }
      destruct Hstep as [Hinv' Hc'].
      apply (IH (exec Wn Hn t (TLine w)) (mkmg (mg_log g ++ [w]) (mg_kept g) (mg_live g)) Hinv' Hn0 Hz0).
      destruct ws as [|[|x w2] ws']; [exact I | exact Hc' | exact I].
  Qed.

  (** after the clear of suspend the cursor is at column 0 whenever [closure_ok] admits an empty
      first closure line: the clear erased at least one row, or cursor_below was set *)
  Lemma clear_col m t g c :
    AInv m t g ->
    (1 <=? target_n (ms_target m) + ms_zombie_lines m) || target_below (ms_target m) = true ->
    t_col (run_ops Wn Hn t (snd (fst (fst (ms_clear W H nofaults m c))))) = 0%nat.
  Proof using HW HH.
    intros (tg & Ht & Hal & Hma & Horph & Hmb & L & K & F & Hr & HL & HK & HF & HlF & HlK & Hreach & Hcur) Hok.
    unfold ms_clear. rewrite Ht in *. cbn [target_n target_below] in Hok.
    set (tg1 := tt_adjust_clear tg (ms_zombie_lines m)).
    pose proof (term_draw_rows (pre ++ L) (K ++ F) t tg1 [] [] c) as Hd.
    cbv zeta in Hd. cbn [app] in Hd.
    destruct Hd as (_ & _ & _ & RT & RB & _ & _ & _ & _ & _ & Hnil).
    { exact Hal. }
    { rewrite <- app_assoc. exact Hr. }
    { unfold tg1. cbn [tt_adjust_clear tt_n]. rewrite app_length. lia. }
    { unfold tg1. cbn [tt_adjust_clear tt_n]. lia. }
    { unfold tg1. cbn [tt_adjust_clear tt_n tt_below]. intros Hge.
      destruct Hcur as [Hc1 Hc2]. destruct (tt_below tg); [apply Hc1; reflexivity | apply Hc2; [reflexivity | lia]]. }
    { constructor. } { constructor. } { unfold visual_line_count. cbn. lia. }
    destruct (Hnil eq_refl) as (_ & Hge & Hz).
    destruct (term_draw W H nofaults tg1 [] c) as [[[tg2 e] c'] ok]. cbn [fst snd] in *.
    unfold tg1 in Hge, Hz. cbn [tt_adjust_clear tt_n tt_below] in Hge, Hz.
    destruct (N.eq_dec (tt_n tg + ms_zombie_lines m) 0) as [Hz0|Hnz].
    - destruct (Hz Hz0) as [_ Ht']. rewrite Ht'. apply (proj1 Hcur).
      apply orb_prop in Hok. destruct Hok as [Hok|Hok]; [apply N.leb_le in Hok; lia | exact Hok].
    - apply Hge. lia.
  Qed.

  (* ---------------------------------------------------------------- MultiState::suspend *)
  Lemma AInv_retarget m t g tg tg' :
    AInv m t g -> ms_target m = TTerm tg ->
    tt_n tg' = tt_n tg -> tt_align tg' = tt_align tg -> tt_below tg' = tt_below tg ->
    AInv (set_ms_target m (TTerm tg')) t g.
  Proof.
    intros (tg0 & Ht & Hal & Hma & Horph & Hmb & L & K & F & Hr & HL & HK & HF & HlF & HlK & Hreach & Hcur) Ht' En Ea Eb.
    rewrite Ht in Ht'. injection Ht' as <-.
    exists tg'. split; [reflexivity|]. split; [congruence|]. split; [exact Hma|]. split; [exact Horph|].
    split; [exact Hmb|]. exists L, K, F. cbn [ms_zombie_lines set_ms_target]. rewrite En, Eb.
    repeat split; try assumption; apply Hcur.
  Qed.

  Lemma g_draw_same m m' extra g :
    ms_members m' = ms_members m -> ms_order m' = ms_order m -> ms_orphans m' = ms_orphans m ->
    g_draw W m' extra g = g_draw W m extra g.
  Proof.
    intros Em Eo Er.
    unfold g_draw, ms_has_text, text_lines_of, bar_lines_of, zombie_lines_of, rest_lines_of.
    rewrite Em, Eo, Er. reflexivity.
  Qed.

  Lemma suspend_inv m t g ws now c :
    AInv m t g -> fits_act W H now m (ASuspend ws) ->
    let r := ms_suspend W H nofaults m ws now c in
    AInv (fst (fst r)) (run_ops Wn Hn t (snd (fst r))) (g_act W now m (ASuspend ws) g)
    /\ ms_orphans (fst (fst r)) = [].
  Proof using HW HH.
    intros Hinv [Hws Hfit]. cbv zeta. unfold ms_suspend.
    pose proof (clear_inv m t g c Hinv) as Hc. cbv zeta in Hc. unfold fst4 in Hc.
    destruct (ms_clear W H nofaults m c) as [[[m1 e1] c1] ok1] eqn:Ec. cbn [fst snd] in Hc.
    destruct Hc as (Hinv1 & Hn1 & Hz1 & Eor & Eme & Eod & Efr).
    pose proof Hinv1 as (tg1 & Ht1 & _).
    rewrite Ht1 in *. cbn [target_n] in Hn1.
    set (tg1' := mktt 0 (tt_rl tg1) (tt_align tg1) (tt_below tg1)).
    set (m1' := set_ms_target m1 (TTerm tg1')).
    assert (Hinv1' : AInv m1' (run_ops Wn Hn t e1) (mkmg (mg_log g) [] [])).
    { apply (AInv_retarget m1 _ _ tg1 tg1' Hinv1 Ht1); unfold tg1'; cbn; congruence. }
    rewrite emit_each_nofaults.
    assert (Hcol : match ws with [] :: _ => t_col (run_ops Wn Hn t e1) = 0%nat | _ => True end).
    { destruct ws as [|[|x w] ws']; try exact I. unfold closure_ok in Hws.
      pose proof (clear_col m t g c Hinv Hws) as Hcc. rewrite Ec in Hcc. exact Hcc. }
    pose proof (writes_inv m1' ws _ _ Hinv1' eq_refl Hz1 Hcol) as Hinv2. cbn [mg_log mg_kept mg_live] in Hinv2.
    pose proof (draw_inv m1' _ _ true None now (c1 + N.of_nat (length (map TLine ws))) Hinv2 I) as Hd.
    cbv zeta in Hd. unfold fst4 in Hd.
    assert (Hatt : ms_attempt W m1' true None now = true) by reflexivity.
    cbn [g_act] in Hd. rewrite Hatt in Hd.
    destruct (ms_draw W H nofaults m1' true None now (c1 + N.of_nat (length (map TLine ws)))) as [[[m3 e3] c3] ok3].
    cbn [fst snd] in *. rewrite !run_ops_app.
    rewrite (g_draw_same m m1' None) in Hd by assumption.
    apply Hd. cbn [fits_act]. intros _.
    change (ms_zombie_lines m1') with (ms_zombie_lines m1). rewrite Hz1.
    replace (bar_lines_of m1') with (bar_lines_of m) by (unfold bar_lines_of; cbn [m1' ms_members ms_order set_ms_target]; now rewrite Eme, Eod).
    apply N.leb_le in Hfit. apply N.leb_le. destruct (ms_has_text m1' None); lia.
  Qed.

  (* ---------------------------------------------------------------- MultiState::mark_zombie *)
  Lemma mark_inv m t g idx now :
    AInv m t g -> AInv (ms_mark_zombie W m idx) t (g_act W now m (AMark idx) g)
                  /\ ms_orphans (ms_mark_zombie W m idx) = ms_orphans m.
  Proof.
    intros (tg & Ht & Hal & Hma & Horph & Hmb & L & K & F & Hr & HL & HK & HF & HlF & HlK & Hreach & Hcur).
    unfold ms_mark_zombie. cbn [g_act]. destruct (ms_order m) as [|first rest] eqn:Eo.
    - split; [|reflexivity]. exists tg. repeat (split; [assumption|]). exists L, K, F. repeat split; try assumption; apply Hcur.
    - rewrite (N.eqb_sym idx first). destruct (N.eqb_spec first idx) as [->|Hne]; cbn [negb].
      + (* at the head: Keep *)
        unfold ms_width. rewrite Ht. cbn [target_n target_adjust_keep].
        set (lc := N.min (member_vlc (nthN (ms_members m) idx member_default) W) (tt_n tg)).
        match goal with |- context [ms_remove_idx ?m0 idx] => set (m0' := m0);
          destruct (remove_idx_other m0' idx) as (Ea & Eor & Ez & Et) end.
        cbn [m0' ms_align ms_orphans ms_zombie_lines ms_target set_ms_target set_ms_zombie_lines] in Ea, Eor, Ez, Et.
        split; [|exact Eor].
        exists (tt_adjust_keep tg lc). split; [exact Et|]. split; [exact Hal|]. split; [congruence|].
        split; [rewrite Eor; exact Horph|]. split; [apply members_bars_remove; exact Hmb|].
        exists L, (K ++ firstn (N.to_nat lc) F), (skipn (N.to_nat lc) F).
        unfold g_keep. cbn [mg_log mg_kept mg_live tt_adjust_keep tt_n tt_below]. rewrite Ez.
        assert (Hlc : (N.to_nat lc <= length F)%nat) by (unfold lc; lia).
        split; [rewrite <- (app_assoc K), firstn_skipn; exact Hr|].
        split; [exact HL|]. split; [apply rows_equiv_app; [exact HK | apply rows_equiv_firstn; exact HF]|].
        split; [apply rows_equiv_skipn; exact HF|].
        split; [rewrite skipn_length; lia|]. split; [rewrite app_length, firstn_length; lia|].
        split; [lia|].
        replace (tt_n tg - lc + (ms_zombie_lines m + lc)) with (tt_n tg + ms_zombie_lines m) by (unfold lc; lia).
        exact Hcur.
      + (* behind the head: only the flag *)
        split; [|reflexivity].
        exists tg. split; [exact Ht|]. split; [exact Hal|]. split; [exact Hma|]. split; [exact Horph|].
        split.
        { unfold members_bars. cbn [ms_members set_ms_members].
          eapply members_bars_upd; [exact Hmb | | reflexivity]. intros x ls Hx. left. exact Hx. }
        exists L, K, F. repeat split; try assumption; apply Hcur.
  Qed.

  (* ---------------------------------------------------------------- the calls that do not draw *)
  Lemma members_bars_In m :
    members_bars m <->
    (forall mem, In mem (ms_members m) -> forall ls, m_lines mem = Some ls -> Forall (fun l => is_bar l = true) ls).
  Proof.
    unfold members_bars, nthN. split.
    - intros Hm mem Hin ls Hls. destruct (In_nth _ _ member_default Hin) as (n & Hnlt & Hnth).
      apply (Hm (N.of_nat n) ls). rewrite Nat2N.id, Hnth. exact Hls.
    - intros Hm i ls Hls.
      destruct (nth_in_or_default (N.to_nat i) (ms_members m) member_default) as [Hin|Hd].
      + exact (Hm _ Hin ls Hls).
      + rewrite Hd in Hls. discriminate.
  Qed.

  Lemma AInv_core m m' t g :
    AInv m t g -> ms_target m' = ms_target m -> ms_align m' = ms_align m ->
    ms_zombie_lines m' = ms_zombie_lines m ->
    Forall (fun l => is_bar l = false) (ms_orphans m') -> members_bars m' -> AInv m' t g.
  Proof.
    intros (tg & Ht & Hal & Hma & Horph & Hmb & L & K & F & Hr & HL & HK & HF & HlF & HlK & Hreach & Hcur) Et Ea Ez Ho Hm.
    exists tg. split; [congruence|]. split; [exact Hal|]. split; [congruence|]. split; [exact Ho|].
    split; [exact Hm|]. exists L, K, F. rewrite Ez. repeat split; try assumption; apply Hcur.
  Qed.

  Lemma store_inv m t g idx texts bars :
    AInv m t g -> Forall (fun l => is_bar l = false) texts -> Forall (fun l => is_bar l = true) bars ->
    AInv (ms_store m idx texts bars) t g.
  Proof.
    intros Hinv Htx Hbs. pose proof Hinv as (tg & _ & _ & _ & Horph & Hmb & _).
    apply (AInv_core m _ t g Hinv); try reflexivity.
    - cbn. apply Forall_app. split; assumption.
    - unfold members_bars, ms_store. cbn [ms_members set_ms_orphans set_ms_members].
      eapply members_bars_upd; [exact Hmb | | reflexivity].
      intros x ls Hx. cbn in Hx. injection Hx as <-. right. exact Hbs.
  Qed.

  Lemma remove_inv m t g idx : AInv m t g -> AInv (ms_remove_idx m idx) t g.
  Proof.
    intros Hinv. pose proof Hinv as (tg & _ & _ & _ & Horph & Hmb & _).
    destruct (remove_idx_other m idx) as (Ea & Eo & Ez & Et).
    apply (AInv_core m _ t g Hinv); try assumption.
    - rewrite Eo. exact Horph.
    - apply members_bars_remove. exact Hmb.
  Qed.

  Lemma insert_inv m t g loc m1 idx : AInv m t g -> ms_insert m loc = Some (m1, idx) -> AInv m1 t g.
  Proof.
    intros Hinv Hi. pose proof Hinv as (tg & _ & _ & _ & Horph & Hmb & _).
    unfold ms_insert in Hi.
    set (p := match ms_free m with
              | i :: fr => (set_ms_free (set_ms_members m (updN (ms_members m) (N.to_nat i) (fun _ => member_default))) fr, i)
              | [] => (set_ms_members m (ms_members m ++ [member_default]), N.of_nat (length (ms_members m)))
              end) in Hi.
    assert (Hp : ms_target (fst p) = ms_target m /\ ms_align (fst p) = ms_align m
                 /\ ms_zombie_lines (fst p) = ms_zombie_lines m /\ ms_orphans (fst p) = ms_orphans m
                 /\ members_bars (fst p)).
    { unfold p. destruct (ms_free m) as [|i fr]; cbn [fst]; repeat split; try reflexivity.
      - apply members_bars_In. cbn [ms_members set_ms_members]. intros mem Hin ls Hls.
        apply in_app_or in Hin. destruct Hin as [Hin|[<-|[]]]; [|discriminate].
        exact (proj1 (members_bars_In m) Hmb mem Hin ls Hls).
      - unfold members_bars. cbn [ms_members set_ms_members set_ms_free].
        eapply members_bars_upd; [exact Hmb | | reflexivity]. intros x ls Hx. discriminate. }
    destruct p as [m0 i0]. cbn [fst] in Hp. destruct Hp as (Et & Ea & Ez & Eo & Hm0).
    assert (Hgoal : forall ord, AInv (set_ms_order m0 ord) t g).
    { intros ord. apply (AInv_core m _ t g Hinv); try assumption. cbn. rewrite Eo. exact Horph. }
    destruct loc as [|p0|p0|r|r]; try (injection Hi as <- _; apply Hgoal).
    - destruct (posN r (ms_order m0)); [injection Hi as <- _; apply Hgoal | discriminate].
    - destruct (posN r (ms_order m0)); [injection Hi as <- _; apply Hgoal | discriminate].
  Qed.

  (* ---------------------------------------------------------------- one call, a sequence of calls *)
  (** well-formedness of a call that every [op_actions] list satisfies (proved below): stored
      lines are Bar lines, printed lines are text lines, a println is a forced draw *)
  Definition act_wf (a : maction) : Prop :=
    match a with
    | AStore _ texts bars => Forall (fun l => is_bar l = false) texts /\ Forall (fun l => is_bar l = true) bars
    | ADraw force extra => extra_ok force extra
    | _ => True
    end.

  Lemma act_inv now m t g c a :
    AInv m t g -> act_wf a -> fits_act W H now m a ->
    let r := mp_exec1 W H nofaults now m c a in
    AInv (fst4 r) (run_ops Wn Hn t (snd (fst (fst r)))) (g_act W now m a g).
  Proof using HW HH.
    intros Hinv Hwf Hfit. cbv zeta. destruct a as [idx texts bars|force extra| |ws|idx|loc|idx|al|ws];
      cbn [mp_exec1 act_wf] in *.
    - unfold fst4. cbn [fst snd g_act]. rewrite run_ops_nil. destruct Hwf. now apply store_inv.
    - exact (proj1 (draw_inv m t g force extra now c Hinv Hwf Hfit)).
    - exact (proj1 (clear_inv m t g c Hinv)).
    - pose proof (suspend_inv m t g ws now c Hinv Hfit) as Hs. cbv zeta in Hs.
      destruct (ms_suspend W H nofaults m ws now c) as [[m' e] c']. exact (proj1 Hs).
    - unfold fst4. cbn [fst snd g_act]. rewrite run_ops_nil. now apply remove_inv.
    - unfold fst4. cbn [fst snd g_act]. rewrite run_ops_nil.
      destruct (ms_insert m loc) as [[m1 i1]|] eqn:Ei; [eapply insert_inv; eauto | exact Hinv].
    - unfold fst4. cbn [fst snd]. rewrite run_ops_nil. exact (proj1 (mark_inv m t g idx now Hinv)).
    - unfold fst4. cbn [fst snd g_act fits_act] in *. subst al. rewrite run_ops_nil.
      apply (AInv_core m _ t g Hinv); try reflexivity.
      + cbn. destruct Hinv as (tg & _ & _ & Hma & _). congruence.
      + destruct Hinv as (tg & _ & _ & _ & Ho & _). exact Ho.
      + destruct Hinv as (tg & _ & _ & _ & _ & Hm & _). exact Hm.
    - cbn [fits_act] in Hfit. subst ws. cbn [map]. rewrite emit_each_nofaults.
      unfold fst4. cbn [fst snd g_act]. rewrite run_ops_nil, app_nil_r. destruct g; exact Hinv.
  Qed.

  Lemma acts_inv now : forall acts m t g c,
    AInv m t g -> Forall act_wf acts -> fits_run W H now m c acts ->
    let r := mp_run W H nofaults now m c acts in
    AInv (fst (fst r)) (run_ops Wn Hn t (snd (fst r))) (g_run W H now m c acts g).
  Proof using HW HH.
    induction acts as [|a acts IH]; intros m t g c Hinv Hwf Hfit; cbv zeta.
    - cbn [mp_run g_run fst snd]. rewrite run_ops_nil. exact Hinv.
    - inversion Hwf as [|? ? Hwa Hwr]; subst. cbn [fits_run] in Hfit. destruct Hfit as [Hfa Hfr].
      pose proof (act_inv now m t g c a Hinv Hwa Hfa) as H1. cbv zeta in H1. unfold fst4 in H1.
      cbn [mp_run g_run].
      destruct (mp_exec1 W H nofaults now m c a) as [[[m1 e1] c1] ok1]. cbn [fst snd] in H1.
      specialize (IH m1 _ _ c1 H1 Hwr Hfr). cbv zeta in IH.
      destruct (mp_run W H nofaults now m1 c1 acts) as [[m2 e2] c2]. cbn [fst snd] in *.
      rewrite run_ops_app. exact IH.
  Qed.
End Screen.

(* ------------------------------------------------------------------ no bar owns a terminal: preserved by every call *)
Definition not_term (x : bar) : Prop := forall tg, b_target x <> TTerm tg.

Lemma no_own_iff s : no_own_term s <-> Forall not_term (s_bars s).
Proof.
  unfold no_own_term, get_bar, nthN, not_term. split.
  - intros Hn. apply Forall_forall. intros x Hin tg Htg.
    destruct (In_nth _ _ bar_default Hin) as (n & Hlt & Hnth).
    specialize (Hn (N.of_nat n)). rewrite Nat2N.id, Hnth, Htg in Hn. exact Hn.
  - intros Hf b. destruct (nth_in_or_default (N.to_nat b) (s_bars s) bar_default) as [Hin|Hd].
    + rewrite Forall_forall in Hf. specialize (Hf _ Hin).
      destruct (b_target (nth (N.to_nat b) (s_bars s) bar_default)) as [|tg|i]; auto. exact (Hf tg eq_refl).
    + rewrite Hd. exact I.
Qed.

Lemma Forall_updN {A} (P : A -> Prop) (f : A -> A) : (forall x, P x -> P (f x)) ->
  forall l i, Forall P l -> Forall P (updN l i f).
Proof.
  intros Hf. induction l as [|x l IH]; intros i Hl; [destruct i; constructor|].
  inversion Hl as [|? ? Hx Hl']; subst. destruct i as [|i]; cbn [updN]; constructor; auto.
Qed.

Lemma no_own_upd_gen s b f : (forall x, not_term x -> not_term (f x)) -> no_own_term s -> no_own_term (upd_bar s b f).
Proof. intros Hf Hn. apply no_own_iff. apply no_own_iff in Hn. cbn. apply Forall_updN; assumption. Qed.

Lemma no_own_keeps s b f : keeps_target f -> no_own_term s -> no_own_term (upd_bar s b f).
Proof. intros Hf. apply no_own_upd_gen. intros x Hx tg. rewrite Hf. apply Hx. Qed.

Lemma no_own_bars s s' : s_bars s' = s_bars s -> no_own_term s -> no_own_term s'.
Proof. intros E Hn. apply no_own_iff. rewrite E. apply no_own_iff. exact Hn. Qed.

Section NoOwn.
  Variable W H : N.
  Variable fails : N -> bool.

  Lemma no_own_draw s b force now : no_own_term s -> no_own_term (fst (bar_draw W H fails s b force now)).
  Proof.
    intros Hn. pose proof (Hn b) as Hb. unfold bar_draw.
    destruct (b_target (get_bar s b)) as [|tg|idx]; [exact Hn | contradiction |].
    destruct (ms_draw W H fails _ _ None now (s_calls s)) as [[[m2 e] c'] ok]. cbn [fst].
    eapply no_own_bars; [|exact Hn]. reflexivity.
  Qed.

  Lemma no_own_upd_draw s b f force now : keeps_target f -> no_own_term s ->
    no_own_term (fst (bar_draw W H fails (upd_bar s b f) b force now)).
  Proof. intros Hf Hn. apply no_own_draw, no_own_keeps; assumption. Qed.

  Lemma no_own_finish s b k now : no_own_term s -> no_own_term (fst (bar_finish W H fails s b k now)).
  Proof.
    intros Hn. unfold bar_finish. apply no_own_upd_draw; [|exact Hn].
    intros x. destruct k; cbn; destruct (b_len x); reflexivity.
  Qed.

  Lemma no_own_step s now o : no_own_term s -> no_own_term (step_sys W H fails s now o).
  Proof.
    intros Hn. unfold step_sys.
    destruct o; cbn [step fst];
      try (apply no_own_upd_draw; [intros x; reflexivity | exact Hn]);
      try (apply no_own_draw; exact Hn); try (apply no_own_finish; exact Hn);
      try (apply no_own_keeps; [intros x; reflexivity | exact Hn]);
      try exact Hn.
    all: try (unfold bar_pos_update;
      match goal with |- context [ap_allow ?a ?b] => destruct (ap_allow a b) as [[|] ap'] end;
      [ unfold bar_tick; apply no_own_upd_draw; [intros x; reflexivity|];
        apply no_own_keeps; [intros x; reflexivity|]; apply no_own_keeps; [intros x; reflexivity | exact Hn]
      | cbn [fst]; apply no_own_keeps; [intros x; reflexivity|]; apply no_own_keeps; [intros x; reflexivity | exact Hn] ]).
    - (* OPrintln *)
      pose proof (Hn b) as Hb. unfold bar_println.
      destruct (b_target (get_bar s b)) as [|tg|idx]; [exact Hn | contradiction |].
      destruct (ms_draw W H fails _ true None now (s_calls s)) as [[[m2 e] c'] ok]. cbn [fst].
      eapply no_own_bars; [|exact Hn]. reflexivity.
    - (* OSuspend *)
      pose proof (Hn b) as Hb. unfold bar_suspend.
      destruct (b_target (get_bar s b)) as [|tg|idx]; [| contradiction |].
      + destruct (emit_each fails (s_calls s) (map TLine ws)) as [e c']. eapply no_own_bars; [|exact Hn]. reflexivity.
      + destruct (ms_suspend W H fails (s_mp s) ws now (s_calls s)) as [[m2 e] c'].
        eapply no_own_bars; [|exact Hn]. reflexivity.
    - (* ODrop *)
      unfold bar_drop.
      assert (Hs1 : no_own_term (fst (if finished (get_bar s b) then (s, [])
                                       else bar_finish W H fails s b (b_on_finish (get_bar s b)) now))).
      { destruct (finished (get_bar s b)); [exact Hn | apply no_own_finish; exact Hn]. }
      destruct (if finished (get_bar s b) then (s, []) else bar_finish W H fails s b (b_on_finish (get_bar s b)) now) as [s1 e].
      cbn [fst] in *. apply no_own_keeps; [intros x; reflexivity|].
      unfold mark_zombie. destruct (b_target (get_bar s1 b)); exact Hs1.
    - (* OInsert *)
      assert (Hgen : forall m1 idx, no_own_term (fst (bar_set_target W H fails (set_s_mp s m1) b (TMulti idx) now))).
      { intros m1 idx. unfold bar_set_target.
        match goal with |- context [let '(s1, e) := ?x in _] => assert (Hs1 : no_own_term (fst x)); [|destruct x as [s1 e]] end.
        { destruct (b_target (get_bar (set_s_mp s m1) b)); try (eapply no_own_bars; [|exact Hn]; reflexivity).
          destruct (ms_draw W H fails _ true None now _) as [[[m2 e] c'] ok]. cbn [fst].
          eapply no_own_bars; [|exact Hn]. reflexivity. }
        cbn [fst] in *. apply no_own_upd_gen; [|exact Hs1]. intros x _ tg. cbn. discriminate. }
      destruct (b_target (get_bar s b)); [| |exact Hn];
        (destruct loc as [|i|i|r|r]; try destruct (b_target (get_bar s r)); try exact Hn;
         (destruct (ms_insert (s_mp s) _) as [[m1 idx1]|]; [cbn [fst]; apply Hgen | exact Hn])).
    - (* ORemove *)
      destruct (b_target (get_bar s b)) as [|tg|idx]; try exact Hn.
      match goal with |- context [ms_draw W H fails ?a ?b ?c ?d ?e] => destruct (ms_draw W H fails a b c d e) as [[[m2 e'] c'] ok] end.
      cbn [fst].
      assert (H1 : no_own_term (upd_bar s b (fun x => set_b_target x THidden))).
      { apply no_own_upd_gen; [|exact Hn]. intros x _ tg'. cbn. discriminate. }
      eapply no_own_bars; [|exact H1]. reflexivity.
    - (* OMPrintln *)
      destruct (ms_draw W H fails (s_mp s) true _ now (s_calls s)) as [[[m2 e] c'] ok].
      eapply no_own_bars; [|exact Hn]. reflexivity.
    - destruct (ms_suspend W H fails (s_mp s) ws now (s_calls s)) as [[m2 e] c'].
      eapply no_own_bars; [|exact Hn]. reflexivity.
    - destruct (ms_clear W H fails (s_mp s) (s_calls s)) as [[[m2 e] c'] ok].
      eapply no_own_bars; [|exact Hn]. reflexivity.
  Qed.
End NoOwn.

(* ------------------------------------------------------------------ every public call makes well-formed MultiState calls *)
Lemma stored_frame_bars W m br : Forall (fun l => is_bar l = true) (stored_frame W m br).
Proof. unfold stored_frame. destruct (ms_width W m); [apply frame_of_bars | constructor]. Qed.

Lemma draw_actions_wf W s b force : Forall act_wf (draw_actions W s b force).
Proof.
  unfold draw_actions. destruct (b_target (get_bar s b)); try constructor.
  - cbn. split; [constructor | apply stored_frame_bars].
  - constructor; [exact I | constructor].
Qed.

Lemma mp_println_texts m :
  Forall (fun l => is_bar l = false)
         (match m with [] => [mkline KEmpty []] | _ => map (mkline KText) (lines_of m) end).
Proof.
  destruct m as [|c r]; [repeat constructor|].
  apply Forall_forall. intros l Hin. apply in_map_iff in Hin. destruct Hin as (y & <- & _). reflexivity.
Qed.

Lemma op_actions_wf W s now o : Forall act_wf (op_actions W s now o).
Proof.
  destruct o; cbn [op_actions]; try apply draw_actions_wf; try constructor.
  all: try (unfold pos_actions;
            match goal with |- context [ap_allow ?a ?b] => destruct (ap_allow a b) as [[|] ap'] end;
            [apply draw_actions_wf | constructor]).
  - (* OPrintln *) destruct (b_target (get_bar s b)); try constructor.
    + cbn. split; [apply text_lines_texts | apply stored_frame_bars].
    + constructor; [exact I | constructor].
  - (* OSuspend *) destruct (b_target (get_bar s b)); repeat constructor.
  - (* ODrop *) apply Forall_app. split.
    + destruct (finished (get_bar s b)); [constructor | apply draw_actions_wf].
    + destruct (b_target (get_bar s b)); repeat constructor.
  - (* OInsert *)
    destruct (b_target (get_bar s b)); [| |constructor];
      (match goal with |- Forall _ (match ?x with Some l => _ | None => _ end) => destruct x as [l|] end; [|constructor];
       destruct (ms_insert (s_mp s) l); repeat constructor).
  - (* ORemove *) destruct (b_target (get_bar s b)); repeat constructor.
  - (* OMPrintln *) cbn. split; [reflexivity | apply mp_println_texts].
  - constructor.
  - exact I.
  - constructor.
  - exact I.
  - constructor.
  - exact I.
  - constructor.
Qed.

(* ------------------------------------------------------------------ every history *)
Section History.
  Variable W H : N.
  Hypothesis HW : 1 <= W.
  Hypothesis HH : 1 <= H.
  Variable pre : list (list N).
  Let Wn := N.to_nat W.
  Let Hn := N.to_nat H.

  Definition SInv (st : sys * mghost * term) : Prop :=
    no_own_term (fst (fst st)) /\ AInv W H pre (s_mp (fst (fst st))) (snd st) (snd (fst st)).

  Lemma ms_step_sys s g t x :
    fst (fst (ms_step W H (s, g, t) x)) = fst (fst (step W H nofaults s (fst x) (snd x))).
  Proof. unfold ms_step. destruct (step W H nofaults s (fst x) (snd x)) as [[s' e] r]. reflexivity. Qed.

  (** INV is preserved by every public call *)
  Lemma ms_step_inv s g t now o :
    SInv (s, g, t) -> fits_run W H now (s_mp s) (s_calls s) (op_actions W s now o) ->
    SInv (ms_step W H (s, g, t) (now, o)).
  Proof using HW HH.
    intros [Hno Hinv] Hfit. unfold ms_step. cbn [fst snd] in *.
    pose proof (step_mp W H nofaults s now o) as [Hmp Hout]. specialize (Hout Hno). destruct Hout as [_ Hout].
    pose proof (no_own_step W H nofaults s now o Hno) as Hno'.
    unfold step_sys, step_out in *.
    destruct (step W H nofaults s now o) as [[s' e] ok]. cbn [fst snd] in *.
    split; [exact Hno'|]. cbn [fst snd]. rewrite Hmp, Hout.
    apply (acts_inv W H HW HH pre now); [exact Hinv | apply op_actions_wf | exact Hfit].
  Qed.

  Lemma ms_run_inv : forall h s g t,
    SInv (s, g, t) -> FitsAll W H s h -> SInv (ms_run W H (s, g, t) h).
  Proof using HW HH.
    induction h as [|[now o] h IH]; intros s g t Hinv Hfit; [exact Hinv|].
    unfold ms_run. cbn [fold_left]. fold (ms_run W H).
    cbn [FitsAll fst snd] in Hfit. destruct Hfit as [Hf1 Hf2].
    pose proof (ms_step_inv s g t now o Hinv Hf1) as Hinv'.
    pose proof (ms_step_sys s g t (now, o)) as Hsys. cbn [fst snd] in Hsys.
    destruct (ms_step W H (s, g, t) (now, o)) as [[s' g'] t']. cbn [fst snd] in Hsys. subst s'.
    apply IH; assumption.
  Qed.

  Lemma ms_initial_inv s0 t0 : ms_initial s0 -> ready Wn Hn pre t0 -> SInv (s0, mghost0, t0).
  Proof.
    intros (Hno & tg & Ht & Hn0 & Hal & Hbel & Hma & Horph & Hz & Hmb) Hr.
    split; [exact Hno|]. cbn [fst snd].
    exists tg. split; [exact Ht|]. split; [exact Hal|]. split; [exact Hma|].
    split; [rewrite Horph; constructor|]. split; [exact Hmb|].
    exists [], [], []. cbn [mghost0 mg_log mg_kept mg_live app length]. rewrite app_nil_r, Hn0, Hz, Hbel.
    split; [exact Hr|]. split; [apply rows_equiv_refl|]. split; [apply rows_equiv_refl|].
    split; [apply rows_equiv_refl|]. split; [reflexivity|]. split; [reflexivity|]. split; [cbn; lia|].
    split; [discriminate | intros _ Hge; lia].
  Qed.

  Theorem ms_invariant s0 t0 h :
    ms_initial s0 -> ready Wn Hn pre t0 -> FitsAll W H s0 h ->
    SInv (ms_run W H (s0, mghost0, t0) h).
  Proof using HW HH.
    intros Hi Hr Hf. apply ms_run_inv; [apply ms_initial_inv; assumption | exact Hf].
  Qed.

  (** C02_screen: the screen equation and the cursor clause after every history *)
  Theorem c02_screen s0 t0 h :
    ms_initial s0 -> ready Wn Hn pre t0 -> FitsAll W H s0 h ->
    let g := snd (fst (ms_run W H (s0, mghost0, t0) h)) in
    let t := snd (ms_run W H (s0, mghost0, t0) h) in
    (exists k, screen Wn t = map (pad Wn) (ms_expected W pre g) ++ repeat (repeat SP Wn) k)
    /\ next_cell Wn t = (length (ms_expected W pre g), 0%nat).
  Proof using HW HH.
    intros Hi Hr Hf. cbv zeta.
    pose proof (ms_invariant s0 t0 h Hi Hr Hf) as [_ Hinv].
    destruct (ms_run W H (s0, mghost0, t0) h) as [[s g] t]. cbn [fst snd] in *.
    destruct Hinv as (tg & _ & _ & _ & _ & _ & L & K & F & Hready & HL & HK & HF & _).
    assert (HWn : (1 <= Wn)%nat) by (unfold Wn; lia).
    unfold ms_expected. unfold Wn, Hn in *. split.
    - destruct (ready_all_rows _ _ _ _ Hready) as (k & Hall). exists k.
      unfold screen. rewrite Hall. rewrite !map_app. unfold rows_equiv in HL, HK, HF. rewrite HL, HK, HF.
      rewrite map_repeat', pad_nil. now rewrite <- !app_assoc.
    - rewrite (ready_row _ _ _ _ HWn Hready). rewrite !app_length.
      now rewrite (rows_equiv_length _ _ _ HL), (rows_equiv_length _ _ _ HK), (rows_equiv_length _ _ _ HF).
  Qed.
End History.

(* ------------------------------------------------------------------ the log, read off the calls (C03_log) *)
Section Log.
  Variable W H : N.

  Lemma attempt_forced m extra now tg : ms_target m = TTerm tg -> ms_attempt W m true extra now = true.
  Proof. intros Ht. unfold ms_attempt. rewrite Ht. reflexivity. Qed.

  Lemma refused_no_orphans m force extra now :
    ms_attempt W m force extra now = false -> (exists tg, ms_target m = TTerm tg) -> ms_orphans m = [].
  Proof.
    intros Ha [tg Ht]. unfold ms_attempt in Ha. rewrite Ht in Ha.
    destruct (ms_orphans m) as [|l r] eqn:Eo; [reflexivity|]. exfalso.
    assert (Hf : (0 <? visual_line_count (l :: r) W) = true).
    { rewrite visual_line_count_cons. apply N.ltb_lt. unfold wrapped_height. lia. }
    rewrite Hf in Ha. cbn [negb] in Ha. rewrite !orb_true_r in Ha. cbn in Ha. discriminate.
  Qed.

  Lemma ms_draw_fields m force extra now c tg : ms_target m = TTerm tg ->
    let m' := fst4 (ms_draw W H nofaults m force extra now c) in
    ms_orphans m' = (if ms_attempt W m force extra now then [] else ms_orphans m)
    /\ exists tg', ms_target m' = TTerm tg'.
  Proof.
    intros Ht. cbv zeta. rewrite (ms_draw_unfold W H nofaults m force extra now c tg Ht). cbv zeta.
    unfold ms_attempt. rewrite Ht. fold (ms_has_text m extra).
    destruct (fst (tt_allow _ _ now)); cbn [negb]; unfold fst4; cbn [fst].
    - match goal with |- context [fold_left ms_remove_idx ?zs ?m0] =>
        destruct (fold_remove_other zs m0) as (_ & Fo & _ & Ft); set (m2 := fold_left ms_remove_idx zs m0) in * end.
      cbn [ms_orphans ms_target set_ms_target set_ms_zombie_lines set_ms_orphans] in Fo, Ft.
      destruct (ms_has_text m extra).
      + split; [exact Fo | eexists; exact Ft].
      + cbn [ms_orphans ms_target set_ms_target set_ms_zombie_lines]. rewrite Ft. split; [exact Fo | eexists; reflexivity].
    - split; [reflexivity | eexists; reflexivity].
  Qed.

  Lemma ms_clear_fields m c tg : ms_target m = TTerm tg ->
    let m' := fst4 (ms_clear W H nofaults m c) in
    ms_orphans m' = ms_orphans m /\ ms_members m' = ms_members m /\ ms_order m' = ms_order m
    /\ exists tg', ms_target m' = TTerm tg'.
  Proof.
    intros Ht. cbv zeta. unfold ms_clear. rewrite Ht.
    destruct (term_draw W H nofaults _ [] c) as [[[tg2 e] c'] ok]. unfold fst4. cbn.
    repeat split. eexists; reflexivity.
  Qed.

  (** the lines a sequence of MultiState calls adds to the log, given that no orphan line is pending
      before it: [log_of acts] when every [ADraw] with pending text is forced *)
  (* [J] (no pending orphan line, terminal target) is defined in model/MultiScreen.v *)

  (** a member draw / println: store, then draw (forced when text lines were stored) *)
  Lemma log_store_draw now m c g idx texts bars force :
    J m -> (texts <> [] -> force = true) ->
    let acts := [AStore idx texts bars; ADraw force None] in
    mg_log (g_run W H now m c acts g) = mg_log g ++ map lt texts
    /\ J (fst (fst (mp_run W H nofaults now m c acts))).
  Proof.
    intros [Ho [tg Ht]] Hf. cbv zeta. cbn [g_run mp_run mp_exec1 g_act].
    set (m1 := ms_store m idx texts bars).
    assert (Ht1 : ms_target m1 = TTerm tg) by exact Ht.
    assert (Ho1 : ms_orphans m1 = texts) by (unfold m1, ms_store; cbn; now rewrite Ho).
    clearbody m1.
    destruct (ms_draw_fields m1 force None now c tg Ht1) as [Eo Et]. unfold fst4 in *.
    destruct (ms_draw W H nofaults m1 force None now c) as [[[m2 e] c2] ok]. cbn [fst snd] in *.
    destruct (ms_attempt W m1 force None now) eqn:Ea.
    - unfold g_draw, text_lines_of. cbn [app]. rewrite Ho1.
      split; [destruct (ms_has_text m1 None); reflexivity | split; assumption].
    - pose proof (refused_no_orphans m1 force None now Ea (ex_intro _ tg Ht1)) as Hn.
      rewrite Ho1 in Hn. rewrite Hn in *. cbn [map]. rewrite app_nil_r.
      split; [reflexivity|]. split; [rewrite Eo; exact Ho1 | exact Et].
  Qed.

  Lemma log_draw_actions now s c g b force : J (s_mp s) ->
    let acts := draw_actions W s b force in
    mg_log (g_run W H now (s_mp s) c acts g) = mg_log g
    /\ J (fst (fst (mp_run W H nofaults now (s_mp s) c acts))).
  Proof.
    intros HJ. cbv zeta. unfold draw_actions. destruct (b_target (get_bar s b)).
    - cbn. rewrite ?app_nil_r. split; [reflexivity | exact HJ].
    - cbn. split; [reflexivity | exact HJ].
    - pose proof (log_store_draw now (s_mp s) c g idx [] (stored_frame W (s_mp s) (get_bar s b))
                    (force || finished (get_bar s b)) HJ ltac:(congruence)) as Hl.
      cbv zeta in Hl. cbn [map] in Hl. rewrite app_nil_r in Hl. exact Hl.
  Qed.

  Lemma log_forced_draw now m c g extra : J m ->
    let acts := [ADraw true extra] in
    mg_log (g_run W H now m c acts g) = mg_log g ++ map lt (match extra with Some e => e | None => [] end)
    /\ J (fst (fst (mp_run W H nofaults now m c acts))).
  Proof.
    intros [Ho [tg Ht]]. cbv zeta. cbn [g_run mp_run mp_exec1 g_act].
    destruct (ms_draw_fields m true extra now c tg Ht) as [Eo Et]. unfold fst4 in *.
    rewrite (attempt_forced m extra now tg Ht) in *.
    destruct (ms_draw W H nofaults m true extra now c) as [[[m2 e] c2] ok]. cbn [fst snd] in *.
    unfold g_draw, text_lines_of. rewrite Ho, app_nil_r.
    split; [destruct (ms_has_text m extra); reflexivity | split; assumption].
  Qed.

  Lemma log_suspend now m c g ws : J m ->
    let acts := [ASuspend ws] in
    mg_log (g_run W H now m c acts g) = mg_log g ++ ws
    /\ J (fst (fst (mp_run W H nofaults now m c acts))).
  Proof.
    intros [Ho [tg Ht]]. cbv zeta. cbn [g_run mp_run mp_exec1 g_act].
    assert (HJ : J (fst (fst (ms_suspend W H nofaults m ws now c)))).
    { unfold ms_suspend.
      destruct (ms_clear_fields m c tg Ht) as (Eo1 & _ & _ & tg1 & Et1). unfold fst4 in *.
      destruct (ms_clear W H nofaults m c) as [[[m1 e1] c1] ok1]. cbn [fst] in *.
      rewrite Et1. set (m1' := set_ms_target m1 _).
      rewrite emit_each_nofaults.
      assert (Ht1' : ms_target m1' = TTerm (mktt 0 (tt_rl tg1) (tt_align tg1) (tt_below tg1))) by reflexivity.
      destruct (ms_draw_fields m1' true None now (c1 + N.of_nat (length (map TLine ws))) _ Ht1') as [Eo Et].
      rewrite (attempt_forced m1' None now _ Ht1') in Eo. unfold fst4 in *. clearbody m1'.
      destruct (ms_draw W H nofaults m1' true None now _) as [[[m3 e3] c3] ok3]. cbn [fst snd] in *.
      split; assumption. }
    destruct (ms_suspend W H nofaults m ws now c) as [[m3 e3] c3]. cbn [fst snd] in *.
    split; [|exact HJ].
    unfold g_draw, text_lines_of. rewrite Ho. cbn [app map mg_log]. rewrite app_nil_r.
    destruct (ms_has_text m None); reflexivity.
  Qed.
End Log.

Section LogStep.
  Variable W H : N.

  Lemma g_run_app now acts1 : forall m c acts2 g,
    g_run W H now m c (acts1 ++ acts2) g =
    let '(m1, _, c1) := mp_run W H nofaults now m c acts1 in
    g_run W H now m1 c1 acts2 (g_run W H now m c acts1 g).
  Proof.
    induction acts1 as [|a r IH]; intros m c acts2 g; cbn [g_run mp_run app]; [reflexivity|].
    destruct (mp_exec1 W H nofaults now m c a) as [[[m1 e1] c1] ok1]. rewrite IH.
    destruct (mp_run W H nofaults now m1 c1 r) as [[m2 e2] c2]. reflexivity.
  Qed.

  Lemma run_cons_nodraw now m c a r m1 :
    mp_exec1 W H nofaults now m c a = (m1, [], c, true) ->
    fst (fst (mp_run W H nofaults now m c (a :: r))) = fst (fst (mp_run W H nofaults now m1 c r))
    /\ forall g, g_run W H now m c (a :: r) g = g_run W H now m1 c r (g_act W now m a g).
  Proof.
    intros E. cbn [mp_run g_run]. rewrite E. destruct (mp_run W H nofaults now m1 c r) as [[m2 e2] c2].
    split; reflexivity.
  Qed.

  Lemma J_mark m idx : J m -> J (ms_mark_zombie W m idx).
  Proof.
    intros [Ho [tg Ht]]. unfold ms_mark_zombie. destruct (ms_order m) as [|first rest]; [split; eauto|].
    destruct (negb (idx =? first)); [split; eauto|].
    match goal with |- context [ms_remove_idx ?m0 idx] => destruct (remove_idx_other m0 idx) as (_ & Eo & _ & Et) end.
    split; [rewrite Eo; exact Ho|]. rewrite Et. cbn. rewrite Ht. cbn. eauto.
  Qed.

  Lemma J_remove m idx : J m -> J (ms_remove_idx m idx).
  Proof.
    intros [Ho [tg Ht]]. destruct (remove_idx_other m idx) as (_ & Eo & _ & Et).
    split; [rewrite Eo; exact Ho | rewrite Et; eauto].
  Qed.

  Lemma J_insert m loc m1 idx : J m -> ms_insert m loc = Some (m1, idx) -> J m1.
  Proof.
    intros [Ho [tg Ht]] Hi. unfold ms_insert in Hi.
    assert (Hgen : forall p : mstate * N, ms_orphans (fst p) = [] -> ms_target (fst p) = TTerm tg ->
              (let '(m1, idx) := p in
               let ord := ms_order m1 in
               let n := length ord in
               match loc with
               | LEnd => Some (set_ms_order m1 (ord ++ [idx]), idx)
               | LIndex p => Some (set_ms_order m1 (insert_at ord (Nat.min (N.to_nat p) n) idx), idx)
               | LFromBack p => Some (set_ms_order m1 (insert_at ord (n - N.to_nat p) idx), idx)
               | LAfter r => match posN r ord with
                             | Some p => Some (set_ms_order m1 (insert_at ord (S p) idx), idx)
                             | None => None
                             end
               | LBefore r => match posN r ord with
                              | Some p => Some (set_ms_order m1 (insert_at ord p idx), idx)
                              | None => None
                              end
               end) = Some (m1, idx) -> J m1).
    { intros [m0 i0] Eo Et Hx. cbn [fst] in *. cbv zeta in Hx.
      destruct loc as [|p0|p0|r|r]; try destruct (posN r (ms_order m0)); try discriminate;
        injection Hx as <- _; (split; [exact Eo | exists tg; exact Et]). }
    eapply Hgen; [| |exact Hi]; destruct (ms_free m); cbn; assumption.
  Qed.

  Lemma mp_println_lt m :
    map lt (match m with [] => [mkline KEmpty []] | _ => map (mkline KText) (lines_of m) end)
    = mp_println_lines m.
  Proof. destruct m as [|c r]; [reflexivity|]. unfold mp_println_lines. rewrite map_map. cbn [lt]. apply map_id. Qed.

  (** the log after a public call = the log before ++ the lines the call prints ([op_log], read
      off the call); no orphan line is pending between two public calls *)
  Lemma op_log_step s now o g :
    J (s_mp s) -> no_own_term s -> fits_run W H now (s_mp s) (s_calls s) (op_actions W s now o) ->
    mg_log (g_run W H now (s_mp s) (s_calls s) (op_actions W s now o) g) = mg_log g ++ op_log s o
    /\ J (fst (fst (mp_run W H nofaults now (s_mp s) (s_calls s) (op_actions W s now o)))).
  Proof.
    intros HJ Hno Hfit.
    assert (Hd : forall s1 b force, s_mp s1 = s_mp s ->
              mg_log (g_run W H now (s_mp s) (s_calls s) (draw_actions W s1 b force) g) = mg_log g ++ []
              /\ J (fst (fst (mp_run W H nofaults now (s_mp s) (s_calls s) (draw_actions W s1 b force))))).
    { intros s1 b force E. rewrite app_nil_r, <- E. apply log_draw_actions. rewrite E. exact HJ. }
    assert (Hnil : mg_log g = mg_log g ++ [] /\ J (s_mp s)) by (rewrite app_nil_r; auto).
    destruct o; cbn [op_actions op_log] in Hfit |- *; try (apply Hd; reflexivity); try exact Hnil.
    all: try (unfold pos_actions;
              match goal with |- context [ap_allow ?a ?b] => destruct (ap_allow a b) as [[|] ap'] end;
              [apply Hd; reflexivity | exact Hnil]).
    - (* OPrintln *)
      unfold is_member. destruct (b_target (get_bar s b)) as [|tg|idx]; [exact Hnil | exact Hnil |].
      pose proof (log_store_draw W H now (s_mp s) (s_calls s) g idx (text_lines m)
                    (stored_frame W (s_mp s) (get_bar s b)) true HJ ltac:(reflexivity)) as Hl.
      cbv zeta in Hl. rewrite (text_lines_lt m) in Hl. exact Hl.
    - (* OSuspend *)
      pose proof (Hno b) as Hb. destruct (b_target (get_bar s b)) as [|tg|idx]; [|contradiction|].
      + cbn [fits_run fits_act] in Hfit. destruct Hfit as [-> _].
        cbn. rewrite ?app_nil_r. split; [destruct g; reflexivity | exact HJ].
      + apply log_suspend. exact HJ.
    - (* ODrop *)
      rewrite g_run_app, mp_run_app.
      assert (Hfin : mg_log (g_run W H now (s_mp s) (s_calls s)
                               (if finished (get_bar s b) then [] else finish_actions W s b (b_on_finish (get_bar s b))) g)
                     = mg_log g
                     /\ J (fst (fst (mp_run W H nofaults now (s_mp s) (s_calls s)
                               (if finished (get_bar s b) then [] else finish_actions W s b (b_on_finish (get_bar s b))))))).
      { destruct (finished (get_bar s b)); [split; [reflexivity | exact HJ]|].
        unfold finish_actions. destruct (Hd (upd_bar s b (finish_upd (b_on_finish (get_bar s b)))) b true eq_refl) as [A B].
        rewrite app_nil_r in A. split; assumption. }
      destruct Hfin as [Hl1 HJ1].
      destruct (mp_run W H nofaults now (s_mp s) (s_calls s)
                  (if finished (get_bar s b) then [] else finish_actions W s b (b_on_finish (get_bar s b)))) as [[m1 e1] c1].
      cbn [fst] in HJ1. rewrite app_nil_r.
      destruct (b_target (get_bar s b)) as [|tg|idx]; cbn [g_run mp_run mp_exec1 fst g_act]; try (split; assumption).
      split; [|apply J_mark; exact HJ1].
      destruct (ms_order m1) as [|first rest]; [exact Hl1|]. destruct (idx =? first); [exact Hl1 | exact Hl1].
    - (* OInsert *)
      destruct (b_target (get_bar s b)) as [|tg|idx0]; [| |exact Hnil];
        (match goal with |- context [match ?x with Some l => _ | None => _ end] => destruct x as [l|] end; [|exact Hnil];
         match goal with |- context [ms_insert (s_mp s) ?l0] =>
           destruct (ms_insert (s_mp s) l0) as [[m1 idx]|] eqn:Ei; [|exact Hnil];
           pose proof (J_insert _ _ _ _ HJ Ei) as HJ1;
           destruct (run_cons_nodraw now (s_mp s) (s_calls s) (AInsert l0) [] m1) as [E1 E2];
             [cbn [mp_exec1]; rewrite Ei; reflexivity|]; rewrite E1, E2; cbn [g_act]
         end;
         cbn; rewrite ?app_nil_r; auto).
    - (* ORemove *)
      destruct (b_target (get_bar s b)) as [|tg|idx]; [exact Hnil | exact Hnil |].
      destruct (run_cons_nodraw now (s_mp s) (s_calls s) (ARemove idx) [ADraw true None] (ms_remove_idx (s_mp s) idx) eq_refl) as [E1 E2].
      rewrite E1, E2. cbn [g_act].
      pose proof (log_forced_draw W H now (ms_remove_idx (s_mp s) idx) (s_calls s) g None (J_remove _ idx HJ)) as Hl.
      cbv zeta in Hl. cbn [map] in Hl. exact Hl.
    - (* OMPrintln *)
      pose proof (log_forced_draw W H now (s_mp s) (s_calls s) g
                    (Some (match m with [] => [mkline KEmpty []] | _ => map (mkline KText) (lines_of m) end)) HJ) as Hl.
      cbv beta zeta iota in Hl. rewrite mp_println_lt in Hl. exact Hl.
    - (* OMSuspend *) apply log_suspend. exact HJ.
    - (* OMClear *)
      cbn [g_run mp_run mp_exec1 g_act mg_log]. destruct HJ as [Ho [tg Ht]].
      destruct (ms_clear_fields W H (s_mp s) (s_calls s) tg Ht) as (Eo & _ & _ & Et). unfold fst4 in *.
      destruct (ms_clear W H nofaults (s_mp s) (s_calls s)) as [[[m1 e1] c1] ok1]. cbn [fst snd] in *.
      rewrite app_nil_r. split; [reflexivity | split; [congruence | exact Et]].
  Qed.
End LogStep.

(* ------------------------------------------------------------------ C03_log over histories; prefixes *)
Section LogHistory.
  Variable W H : N.

  Lemma hist_log_run : forall h s g t,
    J (s_mp s) -> no_own_term s -> FitsAll W H s h ->
    mg_log (snd (fst (ms_run W H (s, g, t) h))) = mg_log g ++ hist_log W H s h
    /\ J (s_mp (fst (fst (ms_run W H (s, g, t) h)))).
  Proof.
    induction h as [|[now o] h IH]; intros s g t HJ Hno Hfit.
    - cbn. rewrite app_nil_r. auto.
    - change (ms_run W H (s, g, t) ((now, o) :: h)) with (ms_run W H (ms_step W H (s, g, t) (now, o)) h).
      cbn [hist_log].
      cbn [FitsAll fst snd] in Hfit. destruct Hfit as [Hf1 Hf2].
      destruct (op_log_step W H s now o g HJ Hno Hf1) as [Hl HJ'].
      pose proof (step_mp W H nofaults s now o) as [Hmp _].
      pose proof (no_own_step W H nofaults s now o Hno) as Hno'.
      unfold ms_step at 1 2. unfold step_sys in *. cbn [fst snd] in *.
      destruct (step W H nofaults s now o) as [[s' e] ok]. cbn [fst snd] in *.
      rewrite <- Hmp in HJ'.
      destruct (IH s' (g_run W H now (s_mp s) (s_calls s) (op_actions W s now o) g)
                   (run_ops (N.to_nat W) (N.to_nat H) t e) HJ' Hno' Hf2) as [IH1 IH2].
      rewrite IH1, Hl, <- app_assoc. auto.
  Qed.

  Lemma FitsAll_prefix : forall h1 h2 s, FitsAll W H s (h1 ++ h2) -> FitsAll W H s h1.
  Proof.
    induction h1 as [|x h1 IH]; intros h2 s Hf; [exact I|].
    cbn [app FitsAll] in *. destruct Hf as [Ha Hb]. split; [exact Ha | eapply IH; exact Hb].
  Qed.

  Lemma ms_run_app st h1 h2 : ms_run W H st (h1 ++ h2) = ms_run W H (ms_run W H st h1) h2.
  Proof. unfold ms_run. apply fold_left_app. Qed.

  Lemma ms_run_sys : forall h s g t,
    fst (fst (ms_run W H (s, g, t) h)) = MultiSpec.run W H nofaults s h.
  Proof.
    induction h as [|[now o] h IH]; intros s g t; [reflexivity|].
    unfold ms_run. cbn [fold_left MultiSpec.run]. fold (ms_run W H).
    unfold ms_step, step_sys. cbn [fst snd].
    destruct (step W H nofaults s now o) as [[s' e] ok]. cbn [fst]. apply IH.
  Qed.

  Lemma FitsAll_suffix : forall h1 h2 s, FitsAll W H s (h1 ++ h2) ->
    FitsAll W H (MultiSpec.run W H nofaults s h1) h2.
  Proof.
    induction h1 as [|[now o] h1 IH]; intros h2 s Hf; [exact Hf|].
    cbn [app FitsAll MultiSpec.run fst snd] in *. destruct Hf as [_ Hb]. apply IH. exact Hb.
  Qed.
End LogHistory.

Lemma ms_initial_J s0 : ms_initial s0 -> J (s_mp s0) /\ no_own_term s0.
Proof. intros (Hno & tg & Ht & _ & _ & _ & _ & Ho & _). split; [split; [exact Ho | eauto] | exact Hno]. Qed.

(** C03_log: after every history the rows of the log - every line printed so far, read off the
    calls ([hist_log]), in emission order, each exactly once - are on the screen directly below the
    earlier content [pre] and above the kept rows and the live region, whose sizes are the two row
    counters: no draw / tick / finish / drop / clear / removal / println (refused draws included)
    erased, duplicated or reordered any of them *)
Theorem c03_log W H pre s0 t0 h : 1 <= W -> 1 <= H ->
  ms_initial s0 -> ready (N.to_nat W) (N.to_nat H) pre t0 -> FitsAll W H s0 h ->
  let s := fst (fst (ms_run W H (s0, mghost0, t0) h)) in
  let g := snd (fst (ms_run W H (s0, mghost0, t0) h)) in
  let t := snd (ms_run W H (s0, mghost0, t0) h) in
  mg_log g = hist_log W H s0 h
  /\ (exists k, screen (N.to_nat W) t
        = map (pad (N.to_nat W)) (pre ++ wrap (N.to_nat W) (hist_log W H s0 h) ++ mg_kept g ++ mg_live g)
          ++ repeat (repeat SP (N.to_nat W)) k)
  /\ length (mg_kept g) = N.to_nat (ms_zombie_lines (s_mp s))
  /\ length (mg_live g) = N.to_nat (target_n (ms_target (s_mp s)))
  /\ ms_orphans (s_mp s) = [].
Proof.
  intros HW HH Hi Hr Hf. cbv zeta.
  destruct (ms_initial_J s0 Hi) as [HJ Hno].
  destruct (hist_log_run W H h s0 mghost0 t0 HJ Hno Hf) as [Hlog [Ho _]]. cbn [mghost0 mg_log app] in Hlog.
  destruct (c02_screen W H HW HH pre s0 t0 h Hi Hr Hf) as [Hscr _]. cbv zeta in Hscr.
  pose proof (ms_invariant W H HW HH pre s0 t0 h Hi Hr Hf) as [_ Hinv].
  destruct (ms_run W H (s0, mghost0, t0) h) as [[s g] t]. cbn [fst snd] in *.
  unfold ms_expected in Hscr. rewrite Hlog in Hscr.
  destruct Hinv as (tg & Ht & _ & _ & _ & _ & L & K & F & _ & _ & HK & HF & HlF & HlK & _).
  rewrite Ht. cbn [target_n].
  rewrite <- (rows_equiv_length _ _ _ HK), <- (rows_equiv_length _ _ _ HF).
  repeat split; assumption.
Qed.

(* ------------------------------------------------------------------ the live region is the members' stored lines *)
(** [Clean]: the live rows are exactly the stored lines of the members that are in the ordering,
    in ordering order (each member once: the ordering has no duplicates) *)
(* [Clean] is defined in model/MultiScreen.v *)

Section CleanActs.
  Variable W H : N.
  Hypothesis HW : 1 <= W.

  Lemma lines_ext mems mems' (l : list N) :
    (forall j, In j l -> nthN mems' j member_default = nthN mems j member_default) ->
    concat (map (member_lines mems') l) = concat (map (member_lines mems) l).
  Proof.
    intros He. f_equal. apply map_ext_in. intros j Hj. unfold member_lines. now rewrite (He j Hj).
  Qed.

  (** an attempted draw leaves in the ordering exactly the members behind the head zombies, with
      their stored lines untouched *)
  Lemma draw_lines m force extra now c tg :
    CoreInv m -> ms_target m = TTerm tg -> ms_attempt W m force extra now = true ->
    bar_lines_of (fst4 (ms_draw W H nofaults m force extra now c)) = rest_lines_of m.
  Proof.
    intros CI Ht Ha. rewrite (ms_draw_unfold W H nofaults m force extra now c tg Ht). cbv zeta.
    unfold ms_attempt in Ha. rewrite Ht in Ha. fold (ms_has_text m extra) in Ha. rewrite Ha. cbn [negb].
    unfold fst4. cbn [fst].
    match goal with |- context [fold_left ms_remove_idx _ ?m0] => set (m0' := m0) end.
    assert (Hs : same_core m m0') by (repeat split).
    destruct (ms_reap_spec m0' m CI Hs) as (_ & B & C & _). cbv zeta in B, C.
    set (m2 := fold_left ms_remove_idx (head_zombies (ms_order m) (ms_members m)) m0') in *.
    assert (E : bar_lines_of m2 = rest_lines_of m).
    { unfold bar_lines_of, rest_lines_of. rewrite B. apply lines_ext. intros j Hj. apply C. rewrite B. exact Hj. }
    destruct (ms_has_text m extra); exact E.
  Qed.

  Lemma draw_clean m force extra now c tg g :
    CoreInv m -> ms_target m = TTerm tg -> ms_attempt W m force extra now = true ->
    ms_has_text m extra = false ->
    Clean W (fst4 (ms_draw W H nofaults m force extra now c)) (g_draw W m extra g).
  Proof.
    intros CI Ht Ha Hht. unfold Clean. rewrite (draw_lines m force extra now c tg CI Ht Ha).
    unfold g_draw. rewrite Hht. reflexivity.
  Qed.

  Lemma firstn_app_exact {A} (a b : list A) : firstn (length a) (a ++ b) = a.
  Proof. rewrite firstn_app, Nat.sub_diag, firstn_all. cbn. apply app_nil_r. Qed.
  Lemma skipn_app_exact {A} (a b : list A) : skipn (length a) (a ++ b) = b.
  Proof. rewrite skipn_app, Nat.sub_diag, skipn_all. reflexivity. Qed.

  (** mark_zombie on a Clean region: at the head the member's own rows become kept rows *)
  Lemma mark_clean m idx now g :
    CoreInv m -> In idx (ms_order m) -> Clean W m g ->
    length (mg_live g) = N.to_nat (target_n (ms_target m)) ->
    let g' := g_act W now m (AMark idx) g in
    Clean W (ms_mark_zombie W m idx) g'
    /\ mg_log g' = mg_log g
    /\ mg_kept g' ++ mg_live g' = mg_kept g ++ mg_live g
    /\ mg_kept g' = mg_kept g ++ (match ms_order m with
                                  | first :: _ => if N.eqb idx first
                                                  then wrap (N.to_nat W) (map lt (member_lines (ms_members m) idx))
                                                  else []
                                  | [] => []
                                  end).
  Proof using HW.
    intros CI Hi Hc Hlen. cbv zeta.
    destruct (ms_mark_zombie_spec W m idx CI Hi) as (first & rest & Ho & _ & _ & Hhead & Hbehind).
    cbn [g_act]. rewrite Ho.
    destruct (N.eqb_spec idx first) as [->|Hne].
    - destruct (Hhead eq_refl) as (Eo & Hnr & Em).
      assert (Hsplit : bar_lines_of m = member_lines (ms_members m) first ++ bar_lines_of (ms_mark_zombie W m first)).
      { unfold bar_lines_of. rewrite Ho, Eo. cbn [map concat]. f_equal. symmetry. apply lines_ext.
        intros j Hj. apply Em. intros ->. exact (Hnr Hj). }
      unfold Clean in *. rewrite Hsplit, map_app, wrap_app in Hc.
      assert (Hlc : N.to_nat (N.min (member_vlc (nthN (ms_members m) first member_default) W) (target_n (ms_target m)))
                    = length (wrap (N.to_nat W) (map lt (member_lines (ms_members m) first)))).
      { assert (Ev : member_vlc (nthN (ms_members m) first member_default) W
                     = visual_line_count (member_lines (ms_members m) first) W).
        { unfold member_vlc, member_lines. destruct (m_lines (nthN (ms_members m) first member_default)); reflexivity. }
        pose proof Hlen as Hl2. rewrite Hc, app_length, !wrap_length in Hl2 by exact HW.
        rewrite wrap_length by exact HW. rewrite Ev. lia. }
      unfold g_keep. cbn [mg_log mg_kept mg_live]. rewrite Hlc, Hc, firstn_app_exact, skipn_app_exact.
      repeat split. now rewrite <- app_assoc.
    - destruct (Hbehind (not_eq_sym Hne)) as (Eo & Ei & Em & _).
      assert (E : bar_lines_of (ms_mark_zombie W m idx) = bar_lines_of m).
      { unfold bar_lines_of. rewrite Eo. f_equal. apply map_ext. intros j. unfold member_lines.
        destruct (N.eq_dec j idx) as [->|Hj]; [rewrite Ei; reflexivity | rewrite (Em j Hj); reflexivity]. }
      unfold Clean. rewrite E, app_nil_r. repeat split. exact Hc.
  Qed.
End CleanActs.

(* ------------------------------------------------------------------ C04_kept: finishing calls and drops on a Clean region *)
Section KeptPhase.
  Variable W H : N.
  Hypothesis HW : 1 <= W.
  Hypothesis HH : 1 <= H.
  Variable pre : list (list N).

  Lemma fits_run_app now acts1 : forall m c acts2,
    fits_run W H now m c (acts1 ++ acts2) ->
    fits_run W H now m c acts1
    /\ let '(m1, _, c1) := mp_run W H nofaults now m c acts1 in fits_run W H now m1 c1 acts2.
  Proof.
    induction acts1 as [|a r IH]; intros m c acts2 Hf; cbn [app fits_run mp_run] in *; [auto|].
    destruct Hf as [Ha Hr]. destruct (mp_exec1 W H nofaults now m c a) as [[[m1 e1] c1] ok1].
    destruct (IH m1 c1 acts2 Hr) as [H1 H2].
    destruct (mp_run W H nofaults now m1 c1 r) as [[m2 e2] c2]. auto.
  Qed.

  Lemma reap_run_app now acts1 : forall m c acts2,
    reap_run W H now m c (acts1 ++ acts2) =
    reap_run W H now m c acts1 ++
    (let '(m1, _, c1) := mp_run W H nofaults now m c acts1 in reap_run W H now m1 c1 acts2).
  Proof.
    induction acts1 as [|a r IH]; intros m c acts2; cbn [app reap_run mp_run]; [reflexivity|].
    destruct (mp_exec1 W H nofaults now m c a) as [[[m1 e1] c1] ok1]. rewrite IH, <- app_assoc.
    destruct (mp_run W H nofaults now m1 c1 r) as [[m2 e2] c2]. reflexivity.
  Qed.

  (** a forced draw of a member (finish / finish_using_style / force_draw / the finish inside drop):
      store, paint, reap the head zombies - the region is Clean afterwards, the kept rows grow by
      the reaped members' rows *)
  Lemma kept_draw_actions s1 b now c g :
    CoreInv (s_mp s1) -> J (s_mp s1) ->
    (forall idx, b_target (get_bar s1 b) = TMulti idx ->
                 In idx (ms_order (s_mp s1)) /\ zflag (s_mp s1) idx = false) ->
    let acts := draw_actions W s1 b true in
    let m' := fst (fst (mp_run W H nofaults now (s_mp s1) c acts)) in
    let g' := g_run W H now (s_mp s1) c acts g in
    (Clean W (s_mp s1) g -> Clean W m' g')
    /\ mg_kept g' = mg_kept g ++ wrap (N.to_nat W) (map lt (reap_run W H now (s_mp s1) c acts))
    /\ CoreInv m'
    /\ (forall idx, b_target (get_bar s1 b) = TMulti idx -> In idx (ms_order m')).
  Proof.
    intros CI [Ho [tg Ht]] Hidx. cbv zeta. unfold draw_actions.
    destruct (b_target (get_bar s1 b)) as [|tg0|idx] eqn:Etg.
    - cbn. rewrite app_nil_r. split; [auto|]. split; [reflexivity|]. split; [exact CI|]. intros ? E; discriminate E.
    - cbn. rewrite app_nil_r. split; [auto|]. split; [reflexivity|]. split; [exact CI|]. intros ? E; discriminate E.
    - destruct (Hidx idx eq_refl) as [Hin Hzf].
      set (bars := stored_frame W (s_mp s1) (get_bar s1 b)).
      cbn [mp_run g_run reap_run mp_exec1 g_act reap_act app].
      set (m1 := ms_store (s_mp s1) idx [] bars).
      pose proof (ms_store_trans (s_mp s1) idx [] bars CI Hin) as T1.
      assert (CI1 : CoreInv m1) by exact (mt_core _ _ _ T1).
      assert (Ht1 : ms_target m1 = TTerm tg) by exact Ht.
      assert (Ho1 : ms_orphans m1 = []) by (unfold m1, ms_store; cbn; rewrite Ho; reflexivity).
      assert (Hht : ms_has_text m1 None = false) by (unfold ms_has_text; rewrite Ho1; reflexivity).
      assert (Ha : ms_attempt W m1 (true || finished (get_bar s1 b)) None now = true)
        by (cbn [orb]; exact (attempt_forced W m1 None now tg Ht1)).
      pose proof (draw_clean W H m1 (true || finished (get_bar s1 b)) None now c tg g CI1 Ht1 Ha Hht) as Hc.
      pose proof (ms_draw_trans W H nofaults m1 (true || finished (get_bar s1 b)) None now c CI1) as T2.
      rewrite Ha in T2. unfold fst4 in *.
      destruct (ms_draw W H nofaults m1 (true || finished (get_bar s1 b)) None now c) as [[[m2 e2] c2] ok2].
      cbn [fst snd] in *. rewrite Ha, Hht. cbn [andb negb].
      split; [intros _; exact Hc|]. split.
      + unfold g_draw. rewrite Hht. cbn [mg_kept]. rewrite !app_nil_r. reflexivity.
      + split; [exact (mt_core _ _ _ T2)|]. intros idx' E. injection E as <-.
        rewrite (mt_order _ _ _ T2). apply drop_while_keep.
        * exact Hin.
        * etransitivity; [apply (mt_zflag _ _ _ T1); exact Hin | exact Hzf].
  Qed.

  Lemma AInv_live_len m t g : AInv W H pre m t g ->
    length (mg_live g) = N.to_nat (target_n (ms_target m)).
  Proof.
    intros (tg & Ht & _ & _ & _ & _ & L & K & F & _ & _ & _ & HF & HlF & _).
    rewrite Ht. cbn [target_n]. rewrite <- HlF. symmetry. exact (rows_equiv_length _ _ _ HF).
  Qed.

  Lemma finish_upd_target k : keeps_target (finish_upd k).
  Proof. intros x. destruct k; cbn; destruct (b_len x); reflexivity. Qed.

  (** one call of the final phase on a Clean region *)
  Lemma kept_step s g t now o :
    MInv s -> op_ok s o = true -> kept_op o = true ->
    SInv W H pre (s, g, t) -> J (s_mp s) ->
    fits_run W H now (s_mp s) (s_calls s) (op_actions W s now o) ->
    Clean W (s_mp s) g ->
    let acts := op_actions W s now o in
    let g' := g_run W H now (s_mp s) (s_calls s) acts g in
    let m' := fst (fst (mp_run W H nofaults now (s_mp s) (s_calls s) acts)) in
    Clean W m' g'
    /\ mg_kept g' = mg_kept g ++ wrap (N.to_nat W) (map lt (reap_run W H now (s_mp s) (s_calls s) acts)).
  Proof using HW HH.
    intros MI Hok Hk [Hno Hinv] HJ Hfit Hc. cbn [fst snd] in Hno, Hinv. cbv zeta.
    pose proof (MInv_core s MI) as CI.
    assert (Hmem : forall b idx, alive s b = true -> b_target (get_bar s b) = TMulti idx ->
                   In idx (ms_order (s_mp s)) /\ zflag (s_mp s) idx = false).
    { intros b idx Ha Htg. exact (mi_alive s MI b idx Ha Htg). }
    assert (Hdraw : forall b f, keeps_target f -> alive s b = true ->
              let acts := draw_actions W (upd_bar s b f) b true in
              Clean W (fst (fst (mp_run W H nofaults now (s_mp s) (s_calls s) acts)))
                      (g_run W H now (s_mp s) (s_calls s) acts g)
              /\ mg_kept (g_run W H now (s_mp s) (s_calls s) acts g)
                 = mg_kept g ++ wrap (N.to_nat W) (map lt (reap_run W H now (s_mp s) (s_calls s) acts))
              /\ CoreInv (fst (fst (mp_run W H nofaults now (s_mp s) (s_calls s) acts)))
              /\ (forall idx, b_target (get_bar s b) = TMulti idx ->
                              In idx (ms_order (fst (fst (mp_run W H nofaults now (s_mp s) (s_calls s) acts)))))).
    { intros b f Hf Ha. cbv zeta.
      destruct (kept_draw_actions (upd_bar s b f) b now (s_calls s) g CI HJ) as (A & B & C & D).
      { intros idx Htg. rewrite (target_upd s b f Hf) in Htg. exact (Hmem b idx Ha Htg). }
      split; [exact (A Hc)|]. split; [exact B|]. split; [exact C|].
      intros idx Htg. apply D. rewrite (target_upd s b f Hf). exact Htg. }
    destruct o; try discriminate Hk; cbn [op_actions];
      assert (Hal : alive s b = true) by (unfold op_ok in Hok; cbn in Hok; apply andb_prop in Hok; exact (proj1 Hok)).
    - (* OFinish *)
      destruct (Hdraw b (finish_upd k) (finish_upd_target k) Hal) as (A & B & _). split; assumption.
    - (* OFinishUsingStyle *)
      destruct (Hdraw b (finish_upd (b_on_finish (get_bar s b))) (finish_upd_target _) Hal) as (A & B & _). split; assumption.
    - (* OForceDraw *)
      destruct (kept_draw_actions s b now (s_calls s) g CI HJ) as (A & B & _); [intros idx Htg; exact (Hmem b idx Hal Htg)|].
      split; [exact (A Hc) | exact B].
    - (* OSetTabWidth *)
      destruct (kept_draw_actions s b now (s_calls s) g CI HJ) as (A & B & _); [intros idx Htg; exact (Hmem b idx Hal Htg)|].
      split; [exact (A Hc) | exact B].
    - (* ODrop *)
      cbn [op_actions] in Hfit.
      set (A1 := if finished (get_bar s b) then [] else finish_actions W s b (b_on_finish (get_bar s b))) in *.
      set (A2 := match b_target (get_bar s b) with TMulti idx => [AMark idx] | _ => [] end) in *.
      assert (F1 : Clean W (fst (fst (mp_run W H nofaults now (s_mp s) (s_calls s) A1)))
                           (g_run W H now (s_mp s) (s_calls s) A1 g)
                   /\ mg_kept (g_run W H now (s_mp s) (s_calls s) A1 g)
                      = mg_kept g ++ wrap (N.to_nat W) (map lt (reap_run W H now (s_mp s) (s_calls s) A1))
                   /\ CoreInv (fst (fst (mp_run W H nofaults now (s_mp s) (s_calls s) A1)))
                   /\ (forall idx, b_target (get_bar s b) = TMulti idx ->
                                   In idx (ms_order (fst (fst (mp_run W H nofaults now (s_mp s) (s_calls s) A1)))))).
      { unfold A1. destruct (finished (get_bar s b)).
        - cbn. rewrite app_nil_r. split; [exact Hc|]. split; [reflexivity|]. split; [exact CI|].
          intros idx Htg. exact (proj1 (Hmem b idx Hal Htg)).
        - unfold finish_actions. apply Hdraw; [apply finish_upd_target | exact Hal]. }
      destruct F1 as (Hc1 & Hk1 & CI1 & Hin1).
      assert (Hwf1 : Forall act_wf A1).
      { pose proof (op_actions_wf W s now (ODrop b)) as Hwf. cbn [op_actions] in Hwf.
        apply Forall_app in Hwf. exact (proj1 Hwf). }
      destruct (fits_run_app now A1 (s_mp s) (s_calls s) A2 Hfit) as [Hf1 _].
      pose proof (acts_inv W H HW HH pre now A1 (s_mp s) t g (s_calls s) Hinv Hwf1 Hf1) as Hinv1. cbv zeta in Hinv1.
      rewrite g_run_app, mp_run_app, reap_run_app.
      destruct (mp_run W H nofaults now (s_mp s) (s_calls s) A1) as [[m1 e1] c1]. cbn [fst snd] in *.
      unfold A2. destruct (b_target (get_bar s b)) as [|tg0|idx].
      + cbn. rewrite !app_nil_r. split; assumption.
      + cbn. rewrite !app_nil_r. split; assumption.
      + pose proof (mark_clean W HW m1 idx now (g_run W H now (s_mp s) (s_calls s) A1 g) CI1 (Hin1 idx eq_refl) Hc1
                      (AInv_live_len _ _ _ Hinv1)) as (Mc & _ & _ & Mk).
        cbn [mp_run g_run reap_run mp_exec1 fst snd reap_act]. rewrite app_nil_r.
        split; [exact Mc|]. rewrite Mk, Hk1, map_app, wrap_app, <- app_assoc. f_equal. f_equal.
        destruct (ms_order m1) as [|first rest]; [reflexivity|]. destruct (idx =? first); reflexivity.
  Qed.
End KeptPhase.

Section KeptRun.
  Variable W H : N.
  Hypothesis HW : 1 <= W.
  Hypothesis HH : 1 <= H.
  Variable pre : list (list N).

  Lemma hist_ok_app : forall h1 h2 s, MultiSpec.hist_ok W H nofaults s (h1 ++ h2) ->
    MultiSpec.hist_ok W H nofaults s h1
    /\ MultiSpec.hist_ok W H nofaults (MultiSpec.run W H nofaults s h1) h2.
  Proof.
    induction h1 as [|[now o] h1 IH]; intros h2 s Hh; cbn [app MultiSpec.hist_ok MultiSpec.run] in *; [auto|].
    destruct Hh as [Ha Hb]. destruct (IH h2 _ Hb). auto.
  Qed.

  Lemma hist_log_kept : forall h s, Forall (fun x => kept_op (snd x) = true) h -> hist_log W H s h = [].
  Proof.
    induction h as [|[now o] h IH]; intros s Hk; [reflexivity|].
    inversion Hk as [|? ? Ho Hr]; subst. cbn [hist_log fst snd] in *. rewrite (IH _ Hr), app_nil_r.
    destruct o; try discriminate Ho; reflexivity.
  Qed.

  Lemma hist_log_app_kept h2 : Forall (fun x => kept_op (snd x) = true) h2 ->
    forall h1 s, hist_log W H s (h1 ++ h2) = hist_log W H s h1.
  Proof.
    intros Hk. induction h1 as [|x h1 IH]; intros s; cbn [app hist_log].
    - apply hist_log_kept. exact Hk.
    - rewrite IH. reflexivity.
  Qed.

  (** the final phase, any number of finishing calls and drops in any order, from a Clean region *)
  Lemma kept_run : forall h s g t,
    MInv s -> (exists a, Refines s a) -> SInv W H pre (s, g, t) -> J (s_mp s) -> Clean W (s_mp s) g ->
    MultiSpec.hist_ok W H nofaults s h -> FitsAll W H s h ->
    Forall (fun x => kept_op (snd x) = true) h ->
    let st := ms_run W H (s, g, t) h in
    Clean W (s_mp (fst (fst st))) (snd (fst st))
    /\ mg_kept (snd (fst st)) = mg_kept g ++ wrap (N.to_nat W) (map lt (reaped_hist W H s h)).
  Proof using HW HH.
    induction h as [|[now o] h IH]; intros s g t MI [a RF] Hinv HJ Hc Hh Hf Hk; cbv zeta.
    - cbn. rewrite app_nil_r. auto.
    - change (ms_run W H (s, g, t) ((now, o) :: h)) with (ms_run W H (ms_step W H (s, g, t) (now, o)) h).
      cbn [MultiSpec.hist_ok] in Hh. destruct Hh as [Hok Hh'].
      cbn [FitsAll fst snd] in Hf. destruct Hf as [Hf1 Hf2].
      inversion Hk as [|? ? Hko Hk']; subst. cbn [snd] in Hko.
      destruct (kept_step W H HW HH pre s g t now o MI Hok Hko Hinv HJ Hf1 Hc) as [Hc1 Hk1]. cbv zeta in Hc1, Hk1.
      pose proof (ms_step_inv W H HW HH pre s g t now o Hinv Hf1) as Hinv1.
      destruct Hinv as [Hno _].
      destruct (op_log_step W H s now o g HJ Hno Hf1) as [_ HJ1].
      destruct (step_sim W H nofaults s a now o MI RF Hok) as (r & MI1 & RF1).
      pose proof (step_mp W H nofaults s now o) as [Hmp _].
      unfold ms_step in *. unfold step_sys in *. cbn [fst snd] in *. cbn [reaped_hist fst snd].
      destruct (step W H nofaults s now o) as [[s' e] ok]. cbn [fst snd] in *.
      rewrite <- Hmp in Hc1, HJ1.
      destruct (IH s' _ _ MI1 (ex_intro _ _ RF1) Hinv1 HJ1 Hc1 Hh' Hf2 Hk') as [IHc IHk].
      split; [exact IHc|]. rewrite IHk, Hk1, map_app, wrap_app, <- app_assoc. reflexivity.
  Qed.

  (** C04_kept (final phase = finishing calls and drops): [h1] any history that ends in a Clean
      region, [h2] finishing calls and drops in any order: nothing of the kept rows is erased, the rows
      of every member reaped in [h2] (its stored lines when it was reaped) are kept in reap order,
      the members still in the ordering follow with their stored lines *)
  Theorem c04_kept s0 t0 h1 h2 :
    init_ok s0 -> ms_initial s0 -> ready (N.to_nat W) (N.to_nat H) pre t0 ->
    MultiSpec.hist_ok W H nofaults s0 (h1 ++ h2) -> FitsAll W H s0 (h1 ++ h2) ->
    Forall (fun x => kept_op (snd x) = true) h2 ->
    let st1 := ms_run W H (s0, mghost0, t0) h1 in
    let s1 := fst (fst st1) in let g1 := snd (fst st1) in
    Clean W (s_mp s1) g1 ->
    let st := ms_run W H (s0, mghost0, t0) (h1 ++ h2) in
    let s := fst (fst st) in let g := snd (fst st) in let t := snd st in
    Clean W (s_mp s) g
    /\ mg_log g = hist_log W H s0 h1
    /\ mg_kept g = mg_kept g1 ++ wrap (N.to_nat W) (map lt (reaped_hist W H s1 h2))
    /\ exists k, screen (N.to_nat W) t
         = map (pad (N.to_nat W))
               (pre ++ wrap (N.to_nat W) (hist_log W H s0 h1) ++ mg_kept g1
                    ++ wrap (N.to_nat W) (map lt (reaped_hist W H s1 h2 ++ bar_lines_of (s_mp s))))
           ++ repeat (repeat SP (N.to_nat W)) k.
  Proof using HW HH.
    intros Hio Hi Hr Hh Hf Hk. cbv zeta. intros Hc1.
    destruct (hist_ok_app h1 h2 s0 Hh) as [Hh1 Hh2].
    destruct (init_inv H nofaults s0 Hio) as [MI0 RF0].
    destruct (sim_run_end W H nofaults h1 s0 _ (sim_run W H nofaults h1 s0 _ MI0 RF0 Hh1)) as (a1 & MI1 & RF1).
    destruct (ms_initial_J s0 Hi) as [HJ0 Hno0].
    pose proof (FitsAll_prefix W H h1 h2 s0 Hf) as Hf1.
    pose proof (FitsAll_suffix W H h1 h2 s0 Hf) as Hf2.
    pose proof (ms_invariant W H HW HH pre s0 t0 h1 Hi Hr Hf1) as Hinv1.
    destruct (hist_log_run W H h1 s0 mghost0 t0 HJ0 Hno0 Hf1) as [Hlog1 HJ1].
    pose proof (ms_run_sys W H h1 s0 mghost0 t0) as Hsys1.
    destruct (c03_log W H pre s0 t0 (h1 ++ h2) HW HH Hi Hr Hf) as (Hlog & Hscr & _). cbv zeta in Hlog, Hscr.
    rewrite ms_run_app in *.
    destruct (ms_run W H (s0, mghost0, t0) h1) as [[s1 g1] t1]. cbn [fst snd] in *. subst s1.
    destruct (kept_run h2 _ g1 t1 MI1 (ex_intro _ _ RF1) Hinv1 HJ1 Hc1 Hh2 Hf2 Hk) as [Hc Hkept].
    cbv zeta in Hc, Hkept.
    split; [exact Hc|]. split.
    - rewrite Hlog. apply hist_log_app_kept. exact Hk.
    - split; [exact Hkept|].
      destruct Hscr as [k Hscr]. exists k. rewrite Hscr.
      rewrite (hist_log_app_kept h2 Hk h1 s0), Hkept, Hc, (map_app lt), wrap_app, <- !app_assoc. reflexivity.
  Qed.
End KeptRun.

(* ------------------------------------------------------------------ C02: after a forced draw the live rows are the members' lines *)
(* [forced_member_op] is defined in model/MultiScreen.v *)

Section LiveForced.
  Variable W H : N.

  Lemma forced_member_clean s1 b idx now c g :
    CoreInv (s_mp s1) -> J (s_mp s1) -> b_target (get_bar s1 b) = TMulti idx -> In idx (ms_order (s_mp s1)) ->
    let acts := draw_actions W s1 b true in
    Clean W (fst (fst (mp_run W H nofaults now (s_mp s1) c acts))) (g_run W H now (s_mp s1) c acts g).
  Proof.
    intros CI [Ho [tg Ht]] Etg Hin. cbv zeta. unfold draw_actions. rewrite Etg.
    set (bars := stored_frame W (s_mp s1) (get_bar s1 b)).
    cbn [mp_run g_run mp_exec1 g_act].
    set (m1 := ms_store (s_mp s1) idx [] bars).
    assert (CI1 : CoreInv m1) by exact (mt_core _ _ _ (ms_store_trans (s_mp s1) idx [] bars CI Hin)).
    assert (Ht1 : ms_target m1 = TTerm tg) by exact Ht.
    assert (Ho1 : ms_orphans m1 = []) by (unfold m1, ms_store; cbn; rewrite Ho; reflexivity).
    assert (Hht : ms_has_text m1 None = false) by (unfold ms_has_text; rewrite Ho1; reflexivity).
    assert (Ha : ms_attempt W m1 (true || finished (get_bar s1 b)) None now = true)
      by (cbn [orb]; exact (attempt_forced W m1 None now tg Ht1)).
    pose proof (draw_clean W H m1 (true || finished (get_bar s1 b)) None now c tg g CI1 Ht1 Ha Hht) as Hc.
    unfold fst4 in Hc.
    destruct (ms_draw W H nofaults m1 (true || finished (get_bar s1 b)) None now c) as [[[m2 e2] c2] ok2].
    cbn [fst snd] in *. rewrite Ha. exact Hc.
  Qed.

  (** finish / finish_and_clear / abandon / force-draw of a member, MultiProgress::remove: after the
      call the live rows are exactly the stored lines of the members in the ordering (in ordering
      order; the removed bar's slot is no longer in it, a cleared bar stores no line) *)
  Theorem c02_live_forced s now o g :
    MInv s -> op_ok s o = true -> J (s_mp s) -> forced_member_op s o = true ->
    Clean W (s_mp (step_sys W H nofaults s now o))
          (g_run W H now (s_mp s) (s_calls s) (op_actions W s now o) g).
  Proof.
    intros MI Hok HJ Hfm.
    pose proof (step_mp W H nofaults s now o) as [Hmp _]. cbn [fst] in Hmp. rewrite Hmp.
    pose proof (MInv_core s MI) as CI.
    assert (Hd : forall b f, keeps_target f -> alive s b = true -> is_member s b = true ->
              Clean W (fst (fst (mp_run W H nofaults now (s_mp s) (s_calls s) (draw_actions W (upd_bar s b f) b true))))
                      (g_run W H now (s_mp s) (s_calls s) (draw_actions W (upd_bar s b f) b true) g)).
    { intros b f Hf Hal Hm. destruct (is_member_target s b Hm) as [idx Htg].
      apply (forced_member_clean (upd_bar s b f) b idx now (s_calls s) g CI HJ).
      - rewrite (target_upd s b f Hf). exact Htg.
      - exact (proj1 (mi_alive s MI b idx Hal Htg)). }
    destruct o; try discriminate Hfm; cbn [forced_member_op] in Hfm; cbn [op_actions];
      assert (Hal : alive s b = true) by (unfold op_ok in Hok; cbn in Hok; apply andb_prop in Hok; exact (proj1 Hok)).
    - apply (Hd b (finish_upd k) (finish_upd_target k) Hal Hfm).
    - apply (Hd b (finish_upd (b_on_finish (get_bar s b))) (finish_upd_target _) Hal Hfm).
    - destruct (is_member_target s b Hfm) as [idx Htg].
      exact (forced_member_clean s b idx now (s_calls s) g CI HJ Htg (proj1 (mi_alive s MI b idx Hal Htg))).
    - destruct (is_member_target s b Hfm) as [idx Htg].
      exact (forced_member_clean s b idx now (s_calls s) g CI HJ Htg (proj1 (mi_alive s MI b idx Hal Htg))).
    - (* ORemove *)
      destruct (is_member_target s b Hfm) as [idx Htg]. rewrite Htg.
      destruct (run_cons_nodraw W H now (s_mp s) (s_calls s) (ARemove idx) [ADraw true None]
                  (ms_remove_idx (s_mp s) idx) eq_refl) as [E1 E2].
      rewrite E1, E2. cbn [g_act mp_run g_run mp_exec1].
      set (m1 := ms_remove_idx (s_mp s) idx).
      assert (CI1 : CoreInv m1).
      { apply remove_idx_core; [exact CI|]. left. exact (proj1 (mi_alive s MI b idx Hal Htg)). }
      destruct (J_remove (s_mp s) idx HJ) as [Ho1 [tg Ht1]]. fold m1 in Ho1, Ht1.
      assert (Hht : ms_has_text m1 None = false) by (unfold ms_has_text; rewrite Ho1; reflexivity).
      pose proof (attempt_forced W m1 None now tg Ht1) as Ha.
      pose proof (draw_clean W H m1 true None now (s_calls s) tg g CI1 Ht1 Ha Hht) as Hc. unfold fst4 in Hc.
      destruct (ms_draw W H nofaults m1 true None now (s_calls s)) as [[[m2 e2] c2] ok2].
      cbn [fst snd] in *. rewrite Ha. exact Hc.
  Qed.
End LiveForced.

(** the screen equation holds after EVERY call of a history (the hypotheses are closed under prefixes) *)
Theorem c02_screen_every_prefix W H pre s0 t0 h1 h2 : 1 <= W -> 1 <= H ->
  ms_initial s0 -> ready (N.to_nat W) (N.to_nat H) pre t0 -> FitsAll W H s0 (h1 ++ h2) ->
  let g := snd (fst (ms_run W H (s0, mghost0, t0) h1)) in
  let t := snd (ms_run W H (s0, mghost0, t0) h1) in
  (exists k, screen (N.to_nat W) t
             = map (pad (N.to_nat W)) (ms_expected W pre g) ++ repeat (repeat SP (N.to_nat W)) k)
  /\ next_cell (N.to_nat W) t = (length (ms_expected W pre g), 0%nat).
Proof.
  intros HW HH Hi Hr Hf.
  exact (c02_screen W H HW HH pre s0 t0 h1 Hi Hr (FitsAll_prefix W H h1 h2 s0 Hf)).
Qed.

Theorem c03_log_every_prefix W H pre s0 t0 h1 h2 : 1 <= W -> 1 <= H ->
  ms_initial s0 -> ready (N.to_nat W) (N.to_nat H) pre t0 -> FitsAll W H s0 (h1 ++ h2) ->
  let s := fst (fst (ms_run W H (s0, mghost0, t0) h1)) in
  let g := snd (fst (ms_run W H (s0, mghost0, t0) h1)) in
  let t := snd (ms_run W H (s0, mghost0, t0) h1) in
  mg_log g = hist_log W H s0 h1
  /\ (exists k, screen (N.to_nat W) t
        = map (pad (N.to_nat W)) (pre ++ wrap (N.to_nat W) (hist_log W H s0 h1) ++ mg_kept g ++ mg_live g)
          ++ repeat (repeat SP (N.to_nat W)) k)
  /\ length (mg_kept g) = N.to_nat (ms_zombie_lines (s_mp s))
  /\ length (mg_live g) = N.to_nat (target_n (ms_target (s_mp s)))
  /\ ms_orphans (s_mp s) = [].
Proof.
  intros HW HH Hi Hr Hf.
  exact (c03_log W H pre s0 t0 h1 HW HH Hi Hr (FitsAll_prefix W H h1 h2 s0 Hf)).
Qed.
