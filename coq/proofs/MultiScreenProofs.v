(** C02_screen / C03_log / C04_kept: the screen invariant of a MultiProgress over every op
    history (model/MultiScreen.v), built from the macro lemmas of TermProofs.v (one draw_to_term
    call, one write_line) and the decomposition of every public call into MultiState method calls
    (MultiProofs.step_mp).  Top alignment, no I/O faults. *)
From Coq Require Import List NArith ZArith Bool Lia Arith ZifyBool ZifyNat ZifyN.
From IndModel Require Import MultiScreen.
From IndModel Require SingleBar.
From IndProofs Require Import TermProofs SingleBarProofs MultiProofs MultiFrame.
Import ListNotations.
Local Open Scope N_scope.
Arguments N.add : simpl never.
Arguments N.sub : simpl never.
Arguments N.mul : simpl never.
Arguments N.div : simpl never.
Arguments N.modulo : simpl never.
Arguments N.min : simpl never.
Arguments Nat.min : simpl never.
Arguments Nat.sub : simpl never.
Arguments nthN {A} l i d : simpl never.

(* ------------------------------------------------------------------ no I/O faults *)
Lemma emit_nofaults ops c : emit nofaults c ops = (ops, c + N.of_nat (length ops), true).
Proof. exact (emit_nofail ops c). Qed.
Lemma emit_each_nofaults ops c : emit_each nofaults c ops = (ops, c + N.of_nat (length ops)).
Proof. exact (emit_each_nofail ops c). Qed.

(* ------------------------------------------------------------------ lists, rows *)
Lemma Forall_concat {A} (P : A -> Prop) (ll : list (list A)) :
  Forall (fun l => Forall P l) ll -> Forall P (concat ll).
Proof.
  induction 1 as [|l ll Hl Hll IH]; cbn [concat]; [constructor|]. apply Forall_app. split; assumption.
Qed.

Lemma rows_equiv_sym Wn a b : rows_equiv Wn a b -> rows_equiv Wn b a.
Proof. unfold rows_equiv. congruence. Qed.
Lemma rows_equiv_trans Wn a b c : rows_equiv Wn a b -> rows_equiv Wn b c -> rows_equiv Wn a c.
Proof. unfold rows_equiv. congruence. Qed.

Lemma rows_equiv_firstn Wn k a b : rows_equiv Wn a b -> rows_equiv Wn (firstn k a) (firstn k b).
Proof. unfold rows_equiv. intros He. now rewrite <- !firstn_map, He. Qed.
Lemma rows_equiv_skipn Wn k a b : rows_equiv Wn a b -> rows_equiv Wn (skipn k a) (skipn k b).
Proof. unfold rows_equiv. intros He. now rewrite <- !skipn_map, He. Qed.

Lemma rows_equiv_nil Wn a : rows_equiv Wn a [] -> a = [].
Proof. intros He. apply rows_equiv_length in He. destruct a; [reflexivity | discriminate]. Qed.

Lemma wrap_length (ls : list line) (W : N) : 1 <= W ->
  length (wrap (N.to_nat W) (map lt ls)) = N.to_nat (visual_line_count ls W).
Proof. intros HW. rewrite (visual_line_count_wrap ls W HW). lia. Qed.

(* ------------------------------------------------------------------ the lines of a composed frame *)
Lemma ms_frame_split m extra : ms_frame m extra = text_lines_of m extra ++ bar_lines_of m.
Proof. unfold ms_frame, text_lines_of, bar_lines_of. now rewrite app_assoc. Qed.

Lemma bar_lines_split m : bar_lines_of m = zombie_lines_of m ++ rest_lines_of m.
Proof.
  unfold bar_lines_of, zombie_lines_of, rest_lines_of.
  rewrite (head_zombies_prefix (ms_order m) (ms_members m)) at 1.
  now rewrite map_app, concat_app.
Qed.

Lemma member_lines_bars m i : members_bars m ->
  Forall (fun l => is_bar l = true) (member_lines (ms_members m) i).
Proof.
  intros Hm. unfold member_lines. destruct (m_lines (nthN (ms_members m) i member_default)) as [ls|] eqn:E.
  - exact (Hm i ls E).
  - constructor.
Qed.

Lemma lines_of_bars m (l : list N) : members_bars m ->
  Forall (fun x => is_bar x = true) (concat (map (member_lines (ms_members m)) l)).
Proof.
  intros Hm. apply Forall_concat. apply Forall_forall. intros x Hin.
  apply in_map_iff in Hin. destruct Hin as (i & <- & _). now apply member_lines_bars.
Qed.

Lemma bar_lines_bars m : members_bars m -> Forall (fun l => is_bar l = true) (bar_lines_of m).
Proof. intros Hm. now apply lines_of_bars. Qed.

Lemma zombie_rows_vlc W m : zombie_rows W m = visual_line_count (zombie_lines_of m) W.
Proof.
  unfold zombie_rows, zombie_lines_of.
  set (zs := head_zombies (ms_order m) (ms_members m)).
  assert (Hg : forall a, fold_left (fun a i => a + member_vlc (nthN (ms_members m) i member_default) W) zs a
                         = a + visual_line_count (concat (map (member_lines (ms_members m)) zs)) W).
  { induction zs as [|z zs IH]; intros a; cbn [fold_left map concat].
    - unfold visual_line_count. cbn. lia.
    - rewrite IH, visual_line_count_app. unfold member_vlc, member_lines.
      destruct (m_lines (nthN (ms_members m) z member_default)); [lia|].
      unfold visual_line_count at 2. cbn. lia. }
  rewrite Hg. lia.
Qed.

(* ------------------------------------------------------------------ one Drawable::draw on the terminal *)
Section Screen.
  Variable W H : N.
  Hypothesis HW : 1 <= W.
  Hypothesis HH : 1 <= H.
  Variable pre : list (list N).
  Let Wn := N.to_nat W.
  Let Hn := N.to_nat H.

  (** one draw (Top alignment, no faults) of text lines followed by Bar lines that fit, over the
      [tt_n tg] rows [F] at the end of the written rows; the cursor is on the last row of [F]
      or (cursor_below) at column 0 below it *)
  Lemma term_draw_rows C F t tg texts bars c :
    tt_align tg = Top ->
    ready Wn Hn (C ++ F) t -> length F = N.to_nat (tt_n tg) -> (N.to_nat (tt_n tg) <= reach t)%nat ->
    (1 <= tt_n tg -> if tt_below tg then t_col t = 0%nat else t_col t <> 0%nat) ->
    Forall (fun l => is_bar l = false) texts -> Forall (fun l => is_bar l = true) bars ->
    visual_line_count bars W <= H ->
    let r := term_draw W H nofaults tg (texts ++ bars) c in
    let tg' := fst (fst (fst r)) in
    let t' := run_ops Wn Hn t (snd (fst (fst r))) in
    tt_n tg' = visual_line_count bars W /\ tt_rl tg' = tt_rl tg /\ tt_align tg' = Top
    /\ exists RT RB, ready Wn Hn (C ++ RT ++ RB) t'
         /\ rows_equiv Wn RT (wrap Wn (map lt texts)) /\ rows_equiv Wn RB (wrap Wn (map lt bars))
         /\ length RB = N.to_nat (tt_n tg')
         /\ (texts ++ bars <> [] -> tt_below tg' = false /\ t_col t' <> 0%nat
                /\ reach t' = Nat.min Hn (reach t - N.to_nat (tt_n tg) + length (RT ++ RB)))
         /\ (texts ++ bars = [] -> reach t' = (reach t - N.to_nat (tt_n tg))%nat
                /\ (1 <= tt_n tg -> tt_below tg' = true /\ t_col t' = 0%nat)
                /\ (tt_n tg = 0 -> tt_below tg' = tt_below tg /\ t' = t)).
  Proof using HW HH.
    intros Hal Hr Hlen Hreach Hb Htexts Hbars Hfit. cbv zeta.
    unfold term_draw. rewrite Hal.
    destruct (draw_to_term (texts ++ bars) (tt_n tg) Top (tt_below tg) W H) as [[ops n'] below'] eqn:Ed.
    rewrite emit_nofaults. cbn [fst snd tt_n tt_rl tt_align tt_below].
    pose proof (draw_to_term_spec_top W H HW HH C F t (texts ++ bars) (tt_n tg) (tt_below tg)
                  Hr Hlen Hreach Hb) as Hspec.
    cbv zeta in Hspec. rewrite Ed in Hspec. cbn [fst snd] in Hspec. fold Wn Hn in Hspec.
    assert (Hall : painted (texts ++ bars) W H 0 = texts ++ bars).
    { apply painted_all. unfold bar_rows. rewrite filter_bars_app by assumption. lia. }
    rewrite Hall in Hspec. rewrite Nat.eqb_refl in Hspec.
    destruct Hspec as (Hn' & Hbel' & Hnil & _ & Hcomplete).
    assert (Hn'' : n' = visual_line_count bars W).
    { rewrite Hn'. unfold bar_rows. now rewrite filter_bars_app by assumption. }
    split; [exact Hn''|]. split; [reflexivity|]. split; [reflexivity|].
    assert (Hcase : texts ++ bars = [] \/ texts ++ bars <> [])
      by (destruct (texts ++ bars); [left | right]; congruence).
    destruct Hcase as [Els|Hne].
    - apply app_eq_nil in Els. destruct Els as [-> ->]. cbn [app] in *.
      destruct (Hnil eq_refl) as (Hr' & Hre' & Hc' & Hz').
      exists [], []. cbn [map app]. rewrite app_nil_r.
      split; [exact Hr'|]. split; [apply rows_equiv_refl|]. split; [apply rows_equiv_refl|].
      split; [rewrite Hn''; reflexivity|]. split; [congruence|].
      intros _. split; [exact Hre'|]. split.
      + intros Hge. split; [|exact (Hc' Hge)]. rewrite Hbel'.
        destruct (N.eqb_spec (tt_n tg) 0); [lia | reflexivity].
      + intros Hz. split; [|exact (Hz' Hz)]. rewrite Hbel', Hz. reflexivity.
    - destruct (Hcomplete Hne eq_refl) as (Hr' & Hc' & Hre').
      set (R := paint_rows W true true (texts ++ bars)) in *.
      destruct (paint_rows_equiv W HW (texts ++ bars) true true) as (HeR & HlR).
      fold R Wn in HeR, HlR. rewrite map_app, wrap_app in HeR.
      destruct (rows_equiv_split Wn R _ _ HeR) as (RT & RB & HRsplit & HeT & HeB).
      exists RT, RB.
      assert (HlenB : length RB = N.to_nat n').
      { rewrite (rows_equiv_length _ _ _ HeB), Hn''. apply wrap_length. exact HW. }
      split; [rewrite <- HRsplit; exact Hr'|]. split; [exact HeT|]. split; [exact HeB|].
      split; [exact HlenB|]. split; [|congruence].
      intros _. split; [|split; [exact Hc'|]].
      + rewrite Hbel'. destruct (texts ++ bars); [congruence | reflexivity].
      + rewrite Hre', HRsplit. reflexivity.
  Qed.
