(** Bottom alignment in the terminal proofs: the analogue of TermProofs.paint_spec /
    draw_to_term_spec_top for MultiProgressAlignment::Bottom with a shrunken region
    (shift = last_line_count - full_height > 0; Draw.paint_pad, after fix commits 951c29f and
    8b11f76 of /repo: src/draw_target.rs DrawState::draw_to_term), and the per-draw row-count
    facts of C19 for Bottom alignment.  All for every W >= 1, H >= 1, no bound on sizes; closed
    under the global context.

    ===================== INTERFACE (statements kept stable) =====================
    Vocabulary: [text_prefix ls] = the leading Text/Empty lines of the vector, [from_bar ls] = the
    rest (starting with the first Bar line), ls = text_prefix ls ++ from_bar ls;
    [bottom_shift ls n W H] = the padding rows that a Bottom draw counts (0 when full >= n, 0 when
    the vector starts with text and no Bar line is painted);
    [bottom_rows W sh ls] = exactly the rows a Bottom draw with shift sh > 0 writes when every Bar
    line fits: rows(text_prefix) ++ sh blank rows ++ rows(from_bar) (no blank rows when there is
    text and no Bar line).
    (p) paint_pad_true         : paint_pad with padded = true IS paint
        paint_pad_decompose    : paint_pad (T ++ b :: B) .. false = paint T ++ pad ++ paint (b :: B)
        pad_at_end / pad_ready : [shift] empty write_line calls from the end of a row / from
                                 column 0 of a blank row: exactly [shift] blank rows
        paint_pad_spec         : the padded paint phase (pre-loop padding + loop) from a ready
                                 cursor at column 0, every Bar line fitting H
    (d) draw_to_term_bottom_noshift : full >= n -> draw_to_term .. Bottom = draw_to_term .. Top
                                 (then draw_to_term_spec_top applies verbatim)
        draw_to_term_bottom_eq : the call list for shift > 0 = erase ++ padding ++ loop ++ [TFlush]
        draw_to_term_spec_bottom : one draw_to_term with Bottom alignment and shift > 0 from
                                 ready (C ++ F), |F| = n, bar rows fitting H:
                                 n', the cursor_below flag, ready (C ++ bottom_rows ..), cursor, reach
        bottom_rows_equiv      : bottom_rows = wrap(text) ++ blanks ++ wrap(rest) cell for cell; its length
        bottom_region_rows     : text-then-bars vectors: padding + Bar rows = the last n' rows (next F)
        full_pad_nil / full_pad_cons : fix 881c313's `full_screen_padding` only concerns the empty vector
    C19: paint_pad_real, draw_to_term_count (n' = bar_rows (painted ls) + draw_shift, either alignment),
         draw_rows_bounded_bottom (n' = bar rows + shift <= H + shift, <= max n (bar rows)).
    History-level consequences for MultiProgress: TermBottomMulti.v.
    ============================================================================== *)
From Coq Require Import List NArith ZArith Bool Lia Arith ZifyBool ZifyNat ZifyN.
From IndModel Require Import Term.
From IndProofs Require Import TermProofs.
Import ListNotations.
Local Open Scope N_scope.
Arguments N.add : simpl never.
Arguments N.sub : simpl never.
Arguments N.mul : simpl never.
Arguments N.div : simpl never.
Arguments N.modulo : simpl never.
Arguments Nat.min : simpl never.
Arguments Nat.sub : simpl never.
Arguments Nat.div : simpl never.

(* ------------------------------------------------------------------ the line vector: text, then bars *)
Fixpoint text_prefix (ls : list line) : list line :=
  match ls with
  | l :: r => if is_bar l then [] else l :: text_prefix r
  | [] => []
  end.

Fixpoint from_bar (ls : list line) : list line :=
  match ls with
  | l :: r => if is_bar l then ls else from_bar r
  | [] => []
  end.

Lemma text_prefix_from_bar ls : ls = text_prefix ls ++ from_bar ls.
Proof.
  induction ls as [|l r IH]; [reflexivity|]. cbn [text_prefix from_bar].
  destruct (is_bar l); [reflexivity|]. cbn [app]. now rewrite <- IH.
Qed.

Lemma text_prefix_nonbar ls : Forall (fun l => is_bar l = false) (text_prefix ls).
Proof.
  induction ls as [|l r IH]; [constructor|]. cbn [text_prefix].
  destruct (is_bar l) eqn:E; [constructor|]. constructor; assumption.
Qed.

Lemma from_bar_head ls b B : from_bar ls = b :: B -> is_bar b = true.
Proof.
  induction ls as [|l r IH]; [discriminate|]. cbn [from_bar].
  destruct (is_bar l) eqn:E; [|exact IH]. intros Heq. injection Heq as -> _. exact E.
Qed.

Lemma text_prefix_nil ls : text_prefix ls = [] <-> starts_with_text ls = false.
Proof.
  destruct ls as [|l r]; cbn [text_prefix starts_with_text]; [tauto|].
  destruct (is_bar l); cbn [negb]; split; congruence.
Qed.

Lemma from_bar_nil_all_text ls : from_bar ls = [] -> text_prefix ls = ls.
Proof. intros E. rewrite (text_prefix_from_bar ls) at 2. rewrite E. now rewrite app_nil_r. Qed.

Lemma bar_rows_app a b W : bar_rows (a ++ b) W = bar_rows a W + bar_rows b W.
Proof. unfold bar_rows. now rewrite filter_app, visual_line_count_app. Qed.

Lemma bar_rows_nonbar T W : Forall (fun l => is_bar l = false) T -> bar_rows T W = 0.
Proof.
  intros HT. unfold bar_rows. replace (filter is_bar T) with (@nil line); [reflexivity|].
  induction HT as [|x l Hx HT IH]; [reflexivity|]. cbn [filter]. now rewrite Hx.
Qed.

Lemma bar_rows_allbar B W : Forall (fun l => is_bar l = true) B -> bar_rows B W = visual_line_count B W.
Proof.
  intros HB. unfold bar_rows. f_equal.
  induction HB as [|x l Hx HB IH]; [reflexivity|]. cbn [filter]. now rewrite Hx, IH.
Qed.

Lemma bar_rows_le_vlc ls W : bar_rows ls W <= visual_line_count ls W.
Proof.
  induction ls as [|l r IH]; [unfold bar_rows; cbn; lia|].
  unfold bar_rows in *. cbn [filter]. rewrite visual_line_count_cons.
  destruct (is_bar l); [rewrite visual_line_count_cons|]; lia.
Qed.

(* ------------------------------------------------------------------ (p) paint_pad, call level *)
(** once the padding has been written the loop is the plain paint loop *)
Lemma paint_pad_true W H sh : forall ls idx total real,
  paint_pad ls idx total W H real sh true
  = (fst (paint ls idx total W H real), snd (paint ls idx total W H real), true).
Proof.
  induction ls as [|l r IH]; intros idx total real; cbn [paint_pad paint]; [reflexivity|].
  destruct (is_bar l && (H <? real + wrapped_height l W)); [reflexivity|].
  cbn [negb orb]. rewrite andb_false_r. cbn [app]. rewrite IH.
  destruct (paint r (idx + 1) total W H (if is_bar l then real + wrapped_height l W else real)) as [ops rf].
  reflexivity.
Qed.

(** Text lines never stop the loop and do not count *)
Lemma paint_app_text W H : forall T B idx total real,
  Forall (fun l => is_bar l = false) T ->
  paint (T ++ B) idx total W H real
  = (fst (paint T idx total W H real) ++ fst (paint B (idx + N.of_nat (length T)) total W H real),
     snd (paint B (idx + N.of_nat (length T)) total W H real)).
Proof.
  induction T as [|l T IH]; intros B idx total real HT.
  - cbn [app paint fst length]. replace (idx + N.of_nat 0) with idx by lia.
    now destruct (paint B idx total W H real).
  - inversion HT as [|x y Hl HT']; subst. cbn [app paint]. rewrite Hl. cbn [andb].
    rewrite (IH B (idx + 1) total real HT').
    replace (idx + 1 + N.of_nat (length T)) with (idx + N.of_nat (length (l :: T))) by (cbn [length]; lia).
    destruct (paint T (idx + 1) total W H real) as [oT rT].
    destruct (paint B (idx + N.of_nat (length (l :: T))) total W H real) as [oB rB].
    cbn [fst snd]. f_equal. rewrite <- !app_assoc. cbn [app]. now rewrite <- app_assoc.
Qed.

Lemma paint_pad_app_text W H sh : forall T B idx total real padded,
  Forall (fun l => is_bar l = false) T ->
  paint_pad (T ++ B) idx total W H real sh padded
  = (fst (paint T idx total W H real)
       ++ fst (fst (paint_pad B (idx + N.of_nat (length T)) total W H real sh padded)),
     snd (fst (paint_pad B (idx + N.of_nat (length T)) total W H real sh padded)),
     snd (paint_pad B (idx + N.of_nat (length T)) total W H real sh padded)).
Proof.
  induction T as [|l T IH]; intros B idx total real padded HT.
  - cbn [app paint fst length]. replace (idx + N.of_nat 0) with idx by lia.
    now destruct (paint_pad B idx total W H real sh padded) as [[o r] p].
  - inversion HT as [|x y Hl HT']; subst. cbn [app paint paint_pad]. rewrite Hl. cbn [andb].
    rewrite orb_false_r. cbn [app].
    rewrite (IH B (idx + 1) total real padded HT').
    replace (idx + 1 + N.of_nat (length T)) with (idx + N.of_nat (length (l :: T))) by (cbn [length]; lia).
    destruct (paint T (idx + 1) total W H real) as [oT rT].
    destruct (paint_pad B (idx + N.of_nat (length (l :: T))) total W H real sh padded) as [[oB rB] pB].
    cbn [fst snd]. f_equal. f_equal. rewrite <- !app_assoc. cbn [app]. now rewrite <- app_assoc.
Qed.

(** the first Bar line that is painted writes the padding first *)
Lemma paint_pad_bar_head W H sh b B idx total real :
  is_bar b = true ->
  paint_pad (b :: B) idx total W H real sh false
  = if H <? real + wrapped_height b W then ([], real, false)
    else (repeat (TLine []) (N.to_nat sh) ++ fst (paint (b :: B) idx total W H real),
          snd (paint (b :: B) idx total W H real), true).
Proof.
  intros Hb. cbn [paint_pad paint]. rewrite Hb. cbn [andb].
  destruct (H <? real + wrapped_height b W); [reflexivity|].
  cbn [negb orb andb]. rewrite paint_pad_true.
  destruct (paint B (idx + 1) total W H (real + wrapped_height b W)) as [ops rf].
  reflexivity.
Qed.

(** [paint_pad] on text lines followed by a Bar line that fits: the text lines as the plain loop
    paints them, the padding, the rest as the plain loop paints it *)
Lemma paint_pad_decompose W H sh T b B idx total real :
  Forall (fun l => is_bar l = false) T -> is_bar b = true ->
  (H <? real + wrapped_height b W) = false ->
  paint_pad (T ++ b :: B) idx total W H real sh false
  = (fst (paint T idx total W H real) ++ repeat (TLine []) (N.to_nat sh)
       ++ fst (paint (b :: B) (idx + N.of_nat (length T)) total W H real),
     snd (paint (b :: B) (idx + N.of_nat (length T)) total W H real), true).
Proof.
  intros HT Hb Hfit. rewrite paint_pad_app_text by exact HT.
  rewrite paint_pad_bar_head by exact Hb. rewrite Hfit. reflexivity.
Qed.

(** only text lines: no padding, nothing counted *)
Lemma paint_pad_all_text W H sh T idx total real :
  Forall (fun l => is_bar l = false) T ->
  paint_pad T idx total W H real sh false = (fst (paint T idx total W H real), real, false).
Proof.
  intros HT. rewrite <- (app_nil_r T) at 1. rewrite paint_pad_app_text by exact HT.
  cbn [paint_pad fst snd]. now rewrite app_nil_r.
Qed.

(* ------------------------------------------------------------------ (p) the padding on the terminal *)
Local Open Scope nat_scope.

Lemma at_end_snoc_blank X k v : at_end (X ++ [[]]) k v = app_state X [] k v.
Proof. unfold at_end. now rewrite removelast_last, last_last. Qed.

Lemma last_app_blanks (X : list (list N)) j Wn :
  length (last X []) <= Wn -> length (last (X ++ repeat [] j) []) <= Wn.
Proof.
  intros Hl. destruct j as [|j]; [now rewrite app_nil_r|].
  rewrite last_app_ne by discriminate.
  assert (E : forall i, last (repeat (@nil N) (S i)) [] = []).
  { induction i as [|i IH]; [reflexivity|]. exact IH. }
  rewrite E. cbn; lia.
Qed.

(** [j] empty write_line calls with the cursor at the end of the last written row (any column):
    the first one only ends that row, so that exactly [j] rows lie below it afterwards - the
    cursor on the last of them, which is blank *)
Lemma pad_at_end Wn Hn : 1 <= Wn -> 1 <= Hn -> forall j X k v,
  X <> [] -> length (last X []) <= Wn -> v <= Hn - 1 ->
  run_ops Wn Hn (at_end X k v) (repeat (TLine []) j)
  = at_end (X ++ repeat [] j) (k - j) (Nat.min (Hn - 1) (v + j)).
Proof.
  intros HW HH. induction j as [|j IH]; intros X k v HX Hl Hv.
  - cbn [repeat]. rewrite run_ops_nil, app_nil_r. f_equal; lia.
  - cbn [repeat]. rewrite run_ops_cons, exec_line_at_end by assumption.
    cbn [chunk_acc length]. rewrite <- app_removelast_last by assumption.
    rewrite <- at_end_snoc_blank. rewrite IH.
    + rewrite <- app_assoc. cbn [app]. f_equal; lia.
    + destruct X; discriminate.
    + rewrite last_last. cbn; lia.
    + lia.
Qed.

(** [j] empty write_line calls from column 0 of the blank row below [C]: [j] blank rows, the
    cursor at column 0 of the row below them *)
Lemma pad_ready Wn Hn : 1 <= Wn -> 1 <= Hn -> forall j C t,
  ready Wn Hn C t -> t_col t = 0 ->
  let t' := run_ops Wn Hn t (repeat (TLine []) j) in
  ready Wn Hn (C ++ repeat [] j) t' /\ t_col t' = 0
  /\ reach t' = Nat.min (Hn - 1) (reach t + j).
Proof.
  intros HW HH. induction j as [|j IH]; intros C t Hr Hc; cbv zeta.
  - cbn [repeat]. rewrite run_ops_nil, app_nil_r. split; [exact Hr|]. split; [exact Hc|].
    pose proof (ready_vis _ _ _ _ Hr) as Hv. unfold reach. rewrite Hc. cbn [Nat.eqb]. lia.
  - cbn [repeat]. rewrite run_ops_cons.
    destruct (line_spec Wn Hn C t [] HW HH Hr (or_intror Hc)) as (Hr1 & Hc1 & Hre1).
    rewrite chunks_nil in Hr1, Hre1.
    destruct (IH (C ++ [[]]) _ Hr1 Hc1) as (Hr2 & Hc2 & Hre2).
    rewrite <- app_assoc in Hr2. cbn [app] in Hr2.
    split; [exact Hr2|]. split; [exact Hc2|]. rewrite Hre2, Hre1. cbn [length]. lia.
Qed.

Lemma ready_col0_row Wn Hn C t : 1 <= Wn -> ready Wn Hn C t -> t_col t = 0 -> t_row t = length C.
Proof.
  intros HW Hr Hc. pose proof (ready_row Wn Hn C t HW Hr) as Hnc. unfold next_cell in Hnc.
  rewrite Hc in Hnc. destruct (Nat.leb_spec Wn 0); [lia|]. congruence.
Qed.

(** a ready cursor at column 0 is the cursor on the blank row below [C] *)
Lemma ready_col0_form Wn Hn C t : 1 <= Wn -> ready Wn Hn C t -> t_col t = 0 ->
  exists k, t = app_state C [] k (t_vis t).
Proof.
  intros HW [k v Hv | d r k v HC Hr Hv] Hc.
  - exists k. reflexivity.
  - unfold app_state in Hc. cbn in Hc. lia.
Qed.

(** a wrap-pending cursor is on the last written row *)
Lemma ready_edge_row Wn Hn C t : 1 <= Wn -> ready Wn Hn C t -> t_col t <> 0 -> S (t_row t) = length C.
Proof.
  intros HW Hr Hc. pose proof (ready_row Wn Hn C t HW Hr) as Hnc. unfold next_cell in Hnc.
  destruct (Nat.leb_spec Wn (t_col t)); [congruence|]. exfalso. apply Hc. congruence.
Qed.

Lemma ready_reach_le Wn Hn C t : 1 <= Hn -> ready Wn Hn C t -> reach t <= Hn.
Proof.
  intros HH Hr. pose proof (ready_vis _ _ _ _ Hr) as Hv. unfold reach.
  destruct (Nat.eqb (t_col t) 0); lia.
Qed.

Lemma repeat_snoc_blank j : repeat (@nil N) j ++ [[]] = repeat [] (S j).
Proof. now rewrite repeat_snoc. Qed.

Local Open Scope N_scope.
(** a Bar line that never fits (proof device: cuts the paint loop after the text lines) *)
Definition bigline (W H : N) : line := mkline KBar (repeat SP (N.to_nat (W * H + 1))).

Lemma bigline_cuts W H real : 1 <= W ->
  (is_bar (bigline W H) && (H <? real + wrapped_height (bigline W H) W)) = true.
Proof.
  intros HW. cbn [is_bar bigline lk andb]. apply N.ltb_lt.
  unfold wrapped_height, lwidth, tlen, bigline. cbn [lt]. rewrite repeat_length, N2Nat.id.
  replace (W * H + 1 + W - 1) with ((H + 1) * W) by lia. rewrite N.div_mul by lia. lia.
Qed.

Lemma painted_text_cut W H real cut X : forall T,
  Forall (fun l => is_bar l = false) T ->
  (is_bar cut && (H <? real + wrapped_height cut W)) = true ->
  painted (T ++ cut :: X) W H real = T.
Proof.
  induction T as [|l T IH]; intros HT Hcut.
  - cbn [app painted]. now rewrite Hcut.
  - inversion HT as [|x y Hl HT']; subst. cbn [app painted]. rewrite Hl. cbn [andb].
    now rewrite IH.
Qed.

(** exactly what a Bottom draw with shift [sh] writes below the erased region when every Bar line
    fits: the rows of the leading text lines, [sh] blank rows directly above the first Bar line
    (also for an empty vector), the rows of the rest; only text: no blank rows *)
Definition bottom_rows (W sh : N) (ls : list line) : list row :=
  match ls with
  | [] => repeat [] (N.to_nat sh)
  | _ :: _ =>
      match from_bar ls with
      | [] => paint_rows W true true ls
      | B => paint_rows W true false (text_prefix ls) ++ repeat [] (N.to_nat sh)
             ++ paint_rows W (match text_prefix ls with [] => true | _ => false end) true B
      end
  end.

(** is the padding on the screen (and counted)? *)
Definition bottom_padded (ls : list line) : bool :=
  match ls with
  | [] => true
  | _ :: _ => match from_bar ls with [] => false | _ => true end
  end.


Lemma bottom_rows_text W sh ls : ls <> [] -> from_bar ls = [] ->
  bottom_rows W sh ls = paint_rows W true true ls.
Proof. intros Hne Hfb. unfold bottom_rows. destruct ls; [congruence|]. now rewrite Hfb. Qed.

Lemma bottom_rows_bars W sh ls b B : from_bar ls = b :: B ->
  bottom_rows W sh ls
  = paint_rows W true false (text_prefix ls) ++ repeat [] (N.to_nat sh)
    ++ paint_rows W (match text_prefix ls with [] => true | _ => false end) true (b :: B).
Proof. intros Hfb. unfold bottom_rows. destruct ls; [discriminate|]. now rewrite Hfb. Qed.

Lemma bottom_padded_text ls : ls <> [] -> from_bar ls = [] -> bottom_padded ls = false.
Proof. intros Hne Hfb. unfold bottom_padded. destruct ls; [congruence|]. now rewrite Hfb. Qed.

Lemma bottom_padded_bars ls b B : from_bar ls = b :: B -> bottom_padded ls = true.
Proof. intros Hfb. unfold bottom_padded. destruct ls; [reflexivity|]. now rewrite Hfb. Qed.

Local Open Scope nat_scope.
Section PaintPad.
  Variable W H : N.
  Hypothesis HW : (1 <= W)%N.
  Hypothesis HH : (1 <= H)%N.
  Let Wn := N.to_nat W.
  Let Hn := N.to_nat H.

  (** the cursor at the end of completely painted lines: wrap-pending at the right edge *)
  Lemma at_end_complete C' ls first k v : ls <> [] -> v <= Hn - 1 ->
    let R := paint_rows W first true ls in
    ready Wn Hn (C' ++ R) (at_end (C' ++ R) k v)
    /\ t_col (at_end (C' ++ R) k v) <> 0
    /\ reach (at_end (C' ++ R) k v) = v + 1.
  Proof using HW.
    clear HH. intros Hne Hv. cbv zeta.
    assert (HWn : 1 <= Wn) by (unfold Wn; lia).
    pose proof (paint_rows_last_full W HW ls first Hne) as Hfull. fold Wn in Hfull.
    pose proof (paint_rows_nonempty W first true ls Hne) as HRne.
    assert (Hlast : length (last (C' ++ paint_rows W first true ls) []) = Wn)
      by (rewrite last_app_ne by exact HRne; exact Hfull).
    split; [|split].
    - apply at_end_ready; [destruct C'; [exact HRne | discriminate] | exact Hlast | exact Hv].
    - unfold at_end, app_state. cbn [t_col]. lia.
    - now apply at_end_reach with (W := Wn).
  Qed.

  (** (p) the paint phase of a Bottom draw with shift [sh] (the padding written before the loop
      when the vector does not start with text, and the loop [paint_pad]) from column 0 of the
      blank row below [C], every Bar line fitting the height *)
  Lemma paint_pad_spec C t ls (sh : N) :
    ready Wn Hn C t -> t_col t = 0 -> (bar_rows ls W <= H)%N ->
    let padded0 := negb (starts_with_text ls) in
    let r := paint_pad ls 0 (N.of_nat (length ls)) W H 0 sh padded0 in
    let ops := (if padded0 then repeat (TLine []) (N.to_nat sh) else []) ++ fst (fst r) in
    let t' := run_ops Wn Hn t ops in
    let R := bottom_rows W sh ls in
    snd (fst r) = bar_rows ls W
    /\ snd r = bottom_padded ls
    /\ ready Wn Hn (C ++ R) t'
    /\ (ls = [] -> t_col t' = 0 /\ reach t' = Nat.min (Hn - 1) (reach t + length R))
    /\ (ls <> [] -> t_col t' <> 0 /\ reach t' = Nat.min Hn (reach t + length R)).
  Proof using HW HH.
    assert (HWn : 1 <= Wn) by (unfold Wn; lia).
    assert (HHn : 1 <= Hn) by (unfold Hn; lia).
    intros Hr Hc Hfit. cbv zeta.
    destruct ls as [|l r0] eqn:Els.
    - (* no lines: only the padding *)
      cbn [starts_with_text negb paint_pad fst snd length bottom_rows bottom_padded]. rewrite app_nil_r.
      destruct (pad_ready Wn Hn HWn HHn (N.to_nat sh) C t Hr Hc) as (Hr2 & Hc2 & Hre2).
      split; [reflexivity|]. split; [reflexivity|]. split; [exact Hr2|].
      split; [|congruence]. intros _. rewrite repeat_length. split; assumption.
    - rewrite <- Els in *. assert (Hne : ls <> []) by (rewrite Els; discriminate).
      destruct (is_bar l) eqn:Hbl.
      + (* the vector starts with a Bar line: padding, then the plain loop *)
        assert (Hst : starts_with_text ls = false) by (rewrite Els; cbn; now rewrite Hbl).
        assert (Hfb : from_bar ls = ls) by (rewrite Els; cbn [from_bar]; now rewrite Hbl).
        assert (Htp : text_prefix ls = []) by (rewrite Els; cbn [text_prefix]; now rewrite Hbl).
        rewrite Hst. cbn [negb]. rewrite paint_pad_true. cbn [fst snd].
        assert (Hfb' : from_bar ls = l :: r0) by congruence.
        rewrite (bottom_rows_bars W sh ls l r0 Hfb'), (bottom_padded_bars ls l r0 Hfb'), Htp.
        rewrite <- Els. cbn [paint_rows app].
        destruct (pad_ready Wn Hn HWn HHn (N.to_nat sh) C t Hr Hc) as (Hr2 & Hc2 & Hre2).
        rewrite run_ops_app.
        set (t2 := run_ops Wn Hn t (repeat (TLine []) (N.to_nat sh))) in *.
        destruct (paint_spec W H HW HH (C ++ repeat [] (N.to_nat sh)) t2 ls Hr2) as (Pa & _ & Pc).
        assert (HPall : painted ls W H 0 = ls) by (apply painted_all; lia).
        rewrite HPall in Pa, Pc. rewrite Nat.eqb_refl in Pc.
        destruct (Pc Hne) as (k & Hk & _). fold Wn Hn in Hk.
        split; [exact Pa|]. split; [reflexivity|].
        rewrite Hk. rewrite <- app_assoc in *.
        pose proof (paint_rows_nonempty W true true ls Hne) as HRne.
        assert (Hlen : 1 <= length (paint_rows W true true ls))
          by (destruct (paint_rows W true true ls); [congruence | cbn; lia]).
        destruct (at_end_complete (C ++ repeat [] (N.to_nat sh)) ls true k
                    (Nat.min (Hn - 1) (reach t2 + length (paint_rows W true true ls) - 1)) Hne ltac:(lia))
          as (Ha & Hb & Hd).
        rewrite <- app_assoc in Ha, Hb, Hd.
        split; [exact Ha|]. split; [congruence|]. intros _. split; [exact Hb|].
        rewrite Hd, Hre2, app_length, repeat_length. lia.
      + (* the vector starts with text *)
        assert (Hst : starts_with_text ls = true) by (rewrite Els; cbn; now rewrite Hbl).
        rewrite Hst. cbn [negb app].
        pose proof (text_prefix_nonbar ls) as HT. pose proof (text_prefix_from_bar ls) as Hsplit.
        assert (HTne : text_prefix ls <> []) by (rewrite Els; cbn [text_prefix]; rewrite Hbl; discriminate).
        destruct (from_bar ls) as [|b B] eqn:Hfb.
        * (* only text lines: the plain loop, nothing counted *)
          rewrite app_nil_r in Hsplit. rewrite <- Hsplit in HT.
          rewrite paint_pad_all_text by exact HT. cbn [fst snd].
          rewrite (bottom_rows_text W sh ls Hne Hfb), (bottom_padded_text ls Hne Hfb).
          destruct (paint_spec W H HW HH C t ls Hr) as (_ & _ & Pc).
          assert (HPall : painted ls W H 0 = ls) by (apply painted_all; lia).
          rewrite HPall in Pc. rewrite Nat.eqb_refl in Pc.
          destruct (Pc Hne) as (k & Hk & _). fold Wn Hn in Hk.
          split; [now rewrite bar_rows_nonbar|]. split; [reflexivity|].
          rewrite Hk.
          pose proof (paint_rows_nonempty W true true ls Hne) as HRne.
          assert (Hlen : 1 <= length (paint_rows W true true ls))
            by (destruct (paint_rows W true true ls); [congruence | cbn; lia]).
          destruct (at_end_complete C ls true k
                      (Nat.min (Hn - 1) (reach t + length (paint_rows W true true ls) - 1)) Hne ltac:(lia))
            as (Ha & Hb & Hd).
          split; [exact Ha|]. split; [congruence|]. intros _. split; [exact Hb|].
          rewrite Hd. lia.
        * (* text lines, the padding, the Bar lines *)
          set (T := text_prefix ls) in *.
          pose proof (from_bar_head ls b B Hfb) as Hb.
          assert (HbarT : bar_rows T W = 0%N) by (now apply bar_rows_nonbar).
          assert (HfitB : (bar_rows (b :: B) W <= H)%N).
          { rewrite Hsplit, bar_rows_app, HbarT in Hfit. lia. }
          assert (Hbfit : (H <? 0 + wrapped_height b W)%N = false).
          { apply N.ltb_ge. unfold bar_rows in HfitB. cbn [filter] in HfitB. rewrite Hb in HfitB.
            rewrite visual_line_count_cons in HfitB. lia. }
          assert (Htot : N.of_nat (length ls) = (0 + N.of_nat (length T) + N.of_nat (length (b :: B)))%N).
          { rewrite Hsplit at 1. rewrite app_length. lia. }
          assert (Hpp : paint_pad ls 0 (N.of_nat (length ls)) W H 0 sh false
                        = (fst (paint T 0 (N.of_nat (length ls)) W H 0) ++ repeat (TLine []) (N.to_nat sh)
                             ++ fst (paint (b :: B) (0 + N.of_nat (length T)) (N.of_nat (length ls)) W H 0),
                           snd (paint (b :: B) (0 + N.of_nat (length T)) (N.of_nat (length ls)) W H 0), true)).
          { generalize (N.of_nat (length ls)) as total. intros total. rewrite Hsplit.
            apply paint_pad_decompose; assumption. }
          rewrite Hpp. cbn [fst snd].
          (* the text lines: the plain loop on a vector that is cut after them *)
          set (ls' := T ++ bigline W H :: B).
          assert (Hlen' : length ls' = length ls).
          { unfold ls'. rewrite Hsplit, !app_length. reflexivity. }
          destruct (paint_spec W H HW HH C t ls' Hr) as (_ & _ & Pc).
          assert (HP' : painted ls' W H 0 = T).
          { unfold ls'. apply painted_text_cut; [exact HT | apply bigline_cuts; exact HW]. }
          rewrite HP' in Pc.
          assert (Hops' : fst (paint ls' 0 (N.of_nat (length ls')) W H 0)
                          = fst (paint T 0 (N.of_nat (length ls)) W H 0)).
          { unfold ls' at 1. rewrite paint_app_text by exact HT. cbn [fst paint].
            rewrite bigline_cuts by exact HW. cbn [fst]. rewrite app_nil_r. now rewrite Hlen'. }
          rewrite Hops' in Pc.
          assert (Hcompl : Nat.eqb (length T) (length ls') = false).
          { apply Nat.eqb_neq. unfold ls'. rewrite app_length. cbn [length]. lia. }
          rewrite Hcompl in Pc.
          destruct (Pc HTne) as (k1 & Hk1 & Hl1). fold Wn Hn in Hk1, Hl1.
          set (RT := paint_rows W true false T) in *.
          pose proof (paint_rows_nonempty W true false T HTne) as HRTne. fold RT in HRTne.
          assert (HlenT : 1 <= length RT) by (destruct RT; [congruence | cbn; lia]).
          rewrite !run_ops_app. rewrite Hk1.
          (* the padding *)
          rewrite (pad_at_end Wn Hn HWn HHn); [| destruct C; [exact HRTne | discriminate] | exact Hl1 | lia].
          (* the Bar lines *)
          destruct (paint_tail W H HW HH (b :: B) (0 + N.of_nat (length T))%N 0%N (N.of_nat (length ls))
                      ((C ++ RT) ++ repeat [] (N.to_nat sh)) (k1 - N.to_nat sh)
                      (Nat.min (Hn - 1) (Nat.min (Hn - 1) (reach t + length RT - 1) + N.to_nat sh)))
            as (Ta & Tb & _).
          { destruct T; [congruence | cbn [length]; lia]. }
          { exact Htot. }
          { destruct C; [destruct RT; [congruence | discriminate] | discriminate]. }
          { apply last_app_blanks. exact Hl1. }
          { lia. }
          assert (HPall : painted (b :: B) W H 0 = b :: B) by (apply painted_all; lia).
          rewrite HPall in Ta, Tb. rewrite Nat.eqb_refl in Ta.
          fold Wn Hn in Ta. rewrite Ta.
          split; [rewrite Tb, Hsplit, bar_rows_app, HbarT; lia|].
          split; [now rewrite (bottom_padded_bars ls b B Hfb)|].
          rewrite (bottom_rows_bars W sh ls b B Hfb). fold T RT.
          replace (match T with [] => true | _ :: _ => false end) with false by (destruct T; congruence).
          set (RB := paint_rows W false true (b :: B)).
          pose proof (paint_rows_nonempty W false true (b :: B) ltac:(discriminate)) as HRBne. fold RB in HRBne.
          assert (HlenB : 1 <= length RB) by (destruct RB; [congruence | cbn; lia]).
          match goal with |- context [at_end _ ?k ?v] =>
            destruct (at_end_complete ((C ++ RT) ++ repeat [] (N.to_nat sh)) (b :: B) false k v
                        ltac:(discriminate) ltac:(lia)) as (Ha & Hbb & Hd) end.
          fold RB in Ha, Hbb, Hd.
          replace (C ++ RT ++ repeat [] (N.to_nat sh) ++ RB)
            with (((C ++ RT) ++ repeat [] (N.to_nat sh)) ++ RB) by (now rewrite <- !app_assoc).
          split; [exact Ha|]. split; [congruence|]. intros _. split; [exact Hbb|].
          rewrite Hd, !app_length, repeat_length. lia.
  Qed.
End PaintPad.

(* ------------------------------------------------------------------ what is written, as wrapped rows *)
Section BottomRows.
  Variable W : N.
  Hypothesis HW : (1 <= W)%N.
  Let Wn := N.to_nat W.

  (** cell for cell: the wrapping of the text lines, the blank rows, the wrapping of the rest;
      as many rows as visual_line_count says, plus the padding *)
  Lemma bottom_rows_equiv sh ls :
    rows_equiv Wn (bottom_rows W sh ls)
      (wrap Wn (map lt (text_prefix ls))
         ++ (if bottom_padded ls then repeat [] (N.to_nat sh) else [])
         ++ wrap Wn (map lt (from_bar ls)))
    /\ length (bottom_rows W sh ls)
       = N.to_nat (visual_line_count ls W + if bottom_padded ls then sh else 0).
  Proof using HW.
    destruct ls as [|l r0] eqn:Els.
    - cbn. rewrite app_nil_r, repeat_length. split; [reflexivity | lia].
    - rewrite <- Els. assert (Hne : ls <> []) by (rewrite Els; discriminate).
      destruct (from_bar ls) as [|b B] eqn:Hfb.
      + rewrite (bottom_rows_text W sh ls Hne Hfb), (bottom_padded_text ls Hne Hfb).
        rewrite (from_bar_nil_all_text ls Hfb). cbn [app map]. unfold wrap at 2. cbn [map concat].
        rewrite app_nil_r. destruct (paint_rows_equiv W HW ls true true) as (He & Hl).
        split; [exact He | rewrite Hl; lia].
      + rewrite (bottom_rows_bars W sh ls b B Hfb), (bottom_padded_bars ls b B Hfb).
        destruct (paint_rows_equiv W HW (text_prefix ls) true false) as (He1 & Hl1).
        destruct (paint_rows_equiv W HW (b :: B)
                    (match text_prefix ls with [] => true | _ => false end) true) as (He2 & Hl2).
        split.
        * apply rows_equiv_app; [exact He1|]. apply rows_equiv_app; [apply rows_equiv_refl | exact He2].
        * rewrite !app_length, repeat_length, Hl1, Hl2.
          assert (Hv : visual_line_count ls W
                       = (visual_line_count (text_prefix ls) W + visual_line_count (b :: B) W)%N).
          { rewrite (text_prefix_from_bar ls) at 1. now rewrite Hfb, visual_line_count_app. }
          rewrite Hv. lia.
  Qed.
End BottomRows.

(* ------------------------------------------------------------------ (d) draw_to_term, Bottom alignment *)
Local Open Scope N_scope.
(** full >= last_line_count: nothing to pad, Bottom behaves exactly as Top - the same calls, the
    same count, the same flag; TermProofs.draw_to_term_spec_top applies verbatim *)
Lemma draw_to_term_bottom_noshift ls n below W H :
  n <= visual_line_count ls W ->
  draw_to_term ls n Bottom below W H = draw_to_term ls n Top below W H.
Proof.
  intros Hle. unfold draw_to_term.
  destruct (N.ltb_spec (visual_line_count ls W) (N.min n H)); [lia | reflexivity].
Qed.

(** the call list of a Bottom draw of a shrunken region: erase, padding, loop, flush.  After fix
    881c313 an EMPTY vector whose padding is at least as tall as the terminal ([full_pad]) gets one
    padding line less and cursor_below' = false *)
Lemma paint_pad_nonnil W H sh : forall ls idx total padded,
  ls <> [] -> bar_rows ls W <= H ->
  fst (fst (paint_pad ls idx total W H 0 sh padded)) <> [].
Proof.
  intros ls idx total padded Hne Hfit. destruct ls as [|l r]; [congruence|]. cbn [paint_pad].
  assert (Hb : (is_bar l && (H <? 0 + wrapped_height l W)) = false).
  { destruct (is_bar l) eqn:Eb; [|reflexivity]. cbn [andb]. apply N.ltb_ge.
    unfold bar_rows in Hfit. cbn [filter] in Hfit. rewrite Eb in Hfit.
    rewrite visual_line_count_cons in Hfit. lia. }
  rewrite Hb.
  destruct (paint_pad r (idx + 1) total W H (if is_bar l then 0 + wrapped_height l W else 0) sh (padded || is_bar l))
    as [[ops rf] pf].
  cbn [fst]. intros Hnil. apply app_eq_nil in Hnil. destruct Hnil as [_ Hnil].
  apply app_eq_nil in Hnil. destruct Hnil as [_ Hnil]. discriminate.
Qed.

(** (after fixes 7d42cff / dadbe71: the count is capped at the height - here n <= H -, and the new
    cursor_below is false iff the loop itself wrote a line) *)
Lemma draw_to_term_bottom_eq ls n below W H :
  n <= H ->
  visual_line_count ls W < n ->
  let sh := n - visual_line_count ls W in
  let padded0 := negb (starts_with_text ls) in
  let r := paint_pad ls 0 (N.of_nat (length ls)) W H 0 sh padded0 in
  draw_to_term ls n Bottom below W H =
    (((if below && (0 <? n) then [TUp 1] else []) ++ clear_ops n)
       ++ ((if padded0
            then repeat (TLine []) (N.to_nat (sh - (if full_pad ls sh H then 1 else 0)))
            else []) ++ fst (fst r)) ++ [TFlush],
     snd (fst r) + (if snd r then sh else 0),
     match fst (fst r) with [] => negb (full_pad ls sh H) | _ => false end).
Proof.
  intros HnH Hlt. cbv zeta. unfold draw_to_term. rewrite (N.min_l n H HnH).
  destruct (N.ltb_spec (visual_line_count ls W) n) as [_|]; [|lia].
  destruct (N.eqb_spec (n - visual_line_count ls W) 0) as [|_]; [lia|].
  destruct (paint_pad ls 0 (N.of_nat (length ls)) W H 0 (n - visual_line_count ls W)
              (negb (starts_with_text ls))) as [[po re] pf].
  cbn [fst snd]. rewrite <- !app_assoc. f_equal.
  destruct po; [|reflexivity]. destruct (N.eqb_spec n 0); [lia | reflexivity].
Qed.

Lemma full_pad_cons l r sh H : full_pad (l :: r) sh H = false.
Proof. reflexivity. Qed.

Lemma full_pad_nil sh H : 0 < sh -> full_pad [] sh H = (H <=? sh).
Proof. intros Hs. unfold full_pad. destruct (N.ltb_spec 0 sh); [reflexivity | lia]. Qed.

Local Open Scope nat_scope.
Section DrawBottom.
  Variable W H : N.
  Hypothesis HW : (1 <= W)%N.
  Hypothesis HH : (1 <= H)%N.
  Let Wn := N.to_nat W.
  Let Hn := N.to_nat H.

  (** (d) one call of draw_to_term with Bottom alignment while the region shrinks
      (full = visual_line_count ls W < n = last_line_count, shift = n - full > 0), every Bar line
      fitting the height.  [F] = the n rows of the previous frame, [C] = everything above.
      - the rows F are erased, and C is followed by exactly [bottom_rows W shift ls]: the rows of the
        leading text lines, [shift] blank rows directly above the first Bar line (written before
        the loop when the vector starts with a Bar line or is empty), the rows of the rest; a
        vector of text lines only gets no padding;
      - the new last_line_count is bar rows + shift (shift not counted when no Bar line is
        painted below text);
      - EMPTY vector, n < H: cursor_below' = true and the cursor REALLY is at column 0 of the row
        below the padded region (row |C| + n);
      - EMPTY vector, n >= H (fix 881c313; then n = H, the region fills the screen): one padding line
        less, cursor_below' = false, the cursor is at column 0 of the LAST row of the region (row
        |C| + n - 1, the bottom row of the screen), i.e. at the end of the last of n blank rows, and
        the terminal did NOT scroll: the first visible row is still row |C|, the top of the region;
      - otherwise the cursor is wrap-pending at the right edge of the last row;
      - [ready] again, with the reach bookkeeping. *)
  Lemma draw_to_term_spec_bottom C F t ls (n : N) (below : bool) :
    ready Wn Hn (C ++ F) t -> length F = N.to_nat n -> N.to_nat n <= reach t ->
    (if below then t_col t = 0 else t_col t <> 0) ->
    (visual_line_count ls W < n)%N -> (bar_rows ls W <= H)%N ->
    let sh := (n - visual_line_count ls W)%N in
    let R := bottom_rows W sh ls in
    let d := draw_to_term ls n Bottom below W H in
    let t' := run_ops Wn Hn t (fst (fst d)) in
    snd (fst d) = (bar_rows ls W + if bottom_padded ls then sh else 0)%N
    /\ snd d = match ls with [] => (n <? H)%N | _ => false end
    /\ (ls = [] -> (n < H)%N ->
          R = repeat [] (N.to_nat n) /\ ready Wn Hn (C ++ R) t' /\ t_col t' = 0
          /\ t_row t' = length C + N.to_nat n
          /\ reach t' = Nat.min (Hn - 1) (reach t))
    /\ (ls = [] -> (H <= n)%N ->
          n = H /\ below = false
          /\ ready Wn Hn (C ++ repeat [] (N.to_nat n - 1)) t'
          /\ (exists k, t' = at_end (C ++ repeat [] (N.to_nat n)) k (Hn - 1))
          /\ t_col t' = 0 /\ S (t_row t') = length C + N.to_nat n /\ t_vis t' = Hn - 1
          /\ t_top t' = t_top t /\ t_top t' = length C)
    /\ (ls <> [] -> ready Wn Hn (C ++ R) t' /\ t_col t' <> 0
                    /\ reach t' = Nat.min Hn (reach t - N.to_nat n + length R)).
  Proof using HW HH.
    assert (HWn : 1 <= Wn) by (unfold Wn; lia).
    assert (HHn : 1 <= Hn) by (unfold Hn; lia).
    intros Hr HF Hn' Hb Hlt Hfit. cbv zeta.
    assert (HnleH : (n <= H)%N) by (pose proof (ready_reach_le Wn Hn _ t HHn Hr); unfold Hn in *; lia).
    rewrite (draw_to_term_bottom_eq ls n below W H HnleH Hlt). cbn [fst snd].
    rewrite run_ops_app, run_ops_flush.
    destruct (erase_phase W H HW HH C F t n below Hr HF Hn' (fun _ => Hb)) as (Hr1 & Hre1 & Hc1 & _).
    fold Wn Hn in Hr1, Hre1, Hc1.
    set (t1 := run_ops Wn Hn t ((if below && (0 <? n)%N then [TUp 1] else []) ++ clear_ops n)) in *.
    assert (Hc1' : t_col t1 = 0) by (apply Hc1; lia).
    destruct ls as [|l0 r0] eqn:Els.
    - (* the empty vector *)
      assert (Hsh : (n - visual_line_count [] W)%N = n) by (unfold visual_line_count; cbn; lia).
      rewrite Hsh. cbn [starts_with_text negb paint_pad fst snd length bottom_rows bottom_padded].
      rewrite app_nil_r, full_pad_nil by lia.
      split; [unfold bar_rows; cbn; lia|].
      destruct (N.leb_spec H n) as [Hfull|Hsmall]; cbn [negb].
      + (* padding as tall as the terminal: one line less, no scroll *)
        split; [symmetry; apply N.ltb_ge; exact Hfull|].
        split; [intros _ Hc; lia|]. split; [|intros Hc; congruence]. intros _ _.
        replace (N.to_nat (n - 1)) with (N.to_nat n - 1) by lia.
        pose proof (ready_reach_le Wn Hn _ t HHn Hr) as Hrle.
        assert (HnH : n = H) by (unfold Hn in *; lia).
        assert (Hbel : below = false).
        { destruct below; [|reflexivity]. exfalso.
          pose proof (ready_vis _ _ _ _ Hr) as Hv. unfold reach in Hn'. rewrite Hb in Hn'.
          cbn [Nat.eqb] in Hn'. unfold Hn in *. lia. }
        subst below.
        assert (Hvis : t_vis t = Hn - 1).
        { pose proof (ready_vis _ _ _ _ Hr) as Hv. unfold reach in Hn'.
          destruct (Nat.eqb_spec (t_col t) 0); [congruence|]. unfold Hn in *. lia. }
        pose proof (ready_edge_row Wn Hn _ t HWn Hr Hb) as Hrow. rewrite app_length, HF in Hrow.
        destruct (pad_ready Wn Hn HWn HHn (N.to_nat n - 1) C t1 Hr1 Hc1') as (Hr2 & Hc2 & Hre2).
        set (t2 := run_ops Wn Hn t1 (repeat (TLine []) (N.to_nat n - 1))) in *.
        pose proof (ready_col0_row Wn Hn _ t2 HWn Hr2 Hc2) as Hrow2.
        rewrite app_length, repeat_length in Hrow2.
        assert (Hvis2 : t_vis t2 = Hn - 1).
        { unfold reach in Hre2 at 1. rewrite Hc2 in Hre2. cbn [Nat.eqb] in Hre2.
          rewrite Hre1 in Hre2. unfold Hn in *. lia. }
        split; [exact HnH|]. split; [reflexivity|]. split; [exact Hr2|]. split.
        { destruct (ready_col0_form Wn Hn _ t2 HWn Hr2 Hc2) as (k & Ek). exists k.
          rewrite Ek at 1. rewrite Hvis2, <- at_end_snoc_blank, <- app_assoc, repeat_snoc_blank.
          replace (S (N.to_nat n - 1)) with (N.to_nat n) by lia. reflexivity. }
        split; [exact Hc2|]. split; [lia|]. split; [exact Hvis2|].
        unfold t_top. rewrite Hvis, Hvis2, Hrow2. unfold Hn in *. lia.
      + (* padding shorter than the terminal: the cursor is below the region *)
        split; [symmetry; apply N.ltb_lt; exact Hsmall|].
        split; [|split; [intros _ Hc; lia | intros Hc; congruence]]. intros _ _.
        rewrite N.sub_0_r.
        destruct (pad_ready Wn Hn HWn HHn (N.to_nat n) C t1 Hr1 Hc1') as (Hr2 & Hc2 & Hre2).
        split; [reflexivity|]. split; [exact Hr2|]. split; [exact Hc2|]. split.
        * rewrite (ready_col0_row Wn Hn _ _ HWn Hr2 Hc2), app_length, repeat_length. reflexivity.
        * rewrite Hre2, Hre1. lia.
    - rewrite <- Els in *. assert (Hne : ls <> []) by (rewrite Els; discriminate).
      assert (Hfp : full_pad ls (n - visual_line_count ls W) H = false) by (rewrite Els; reflexivity).
      rewrite Hfp, N.sub_0_r.
      pose proof (paint_pad_nonnil W H (n - visual_line_count ls W)%N ls 0 (N.of_nat (length ls))
                    (negb (starts_with_text ls)) Hne Hfit) as Hpo.
      destruct (fst (fst (paint_pad ls 0 (N.of_nat (length ls)) W H 0 (n - visual_line_count ls W)
                            (negb (starts_with_text ls))))) as [|o0 po0] eqn:Epo; [congruence|].
      rewrite <- Epo.
      destruct (paint_pad_spec W H HW HH C t1 ls (n - visual_line_count ls W)%N Hr1 Hc1' Hfit)
        as (Pa & Pb & Pc & _ & Pe).
      fold Wn Hn in Pc, Pe.
      split; [now rewrite Pa, Pb|]. split; [reflexivity|].
      split; [intros Hc; congruence|]. split; [intros Hc; congruence|].
      intros _. destruct (Pe Hne) as (Hcol & Hreach). split; [exact Pc|]. split; [exact Hcol|].
      rewrite Hreach, Hre1. reflexivity.
  Qed.

  (** the rows the NEXT draw has to erase are the last n' rows on the screen: when the vector is
      text lines followed by Bar lines only (what BarState::draw/println and MultiState::draw
      produce), the padding and the Bar rows are exactly n' = bar rows + shift rows *)
  Lemma bottom_region_rows sh ls :
    Forall (fun l => is_bar l = true) (from_bar ls) -> bottom_padded ls = true ->
    exists F', bottom_rows W sh ls = paint_rows W true false (text_prefix ls) ++ F'
               /\ length F' = N.to_nat (bar_rows ls W + sh).
  Proof using HW.
    clear HH Hn. intros HB Hp. destruct ls as [|l r0] eqn:Els.
    - exists (repeat [] (N.to_nat sh)). cbn. rewrite repeat_length. split; [reflexivity|].
      unfold bar_rows. cbn. lia.
    - rewrite <- Els in *. destruct (from_bar ls) as [|b B] eqn:Hfb.
      + assert (Hne : ls <> []) by (rewrite Els; discriminate).
        rewrite (bottom_padded_text ls Hne Hfb) in Hp. discriminate.
      + rewrite (bottom_rows_bars W sh ls b B Hfb). eexists. split; [reflexivity|].
        destruct (paint_rows_equiv W HW (b :: B)
                    (match text_prefix ls with [] => true | _ => false end) true) as (_ & Hl2).
        rewrite app_length, repeat_length, Hl2.
        assert (Hbr : bar_rows ls W = visual_line_count (b :: B) W).
        { rewrite (text_prefix_from_bar ls) at 1. rewrite Hfb, bar_rows_app.
          rewrite (bar_rows_nonbar _ W (text_prefix_nonbar ls)), (bar_rows_allbar _ W HB). lia. }
        rewrite Hbr. lia.
  Qed.
End DrawBottom.

(* ------------------------------------------------------------------ C19: the row count of a Bottom draw *)
Local Open Scope N_scope.
(** [paint_pad] counts the rows of the painted Bar lines; the padding is on the screen iff it was
    written before the loop or a Bar line has been painted *)
Lemma paint_pad_real W H sh : forall ls idx total real padded,
  snd (fst (paint_pad ls idx total W H real sh padded)) = real + bar_rows (painted ls W H real) W
  /\ snd (paint_pad ls idx total W H real sh padded) = padded || existsb is_bar (painted ls W H real).
Proof.
  induction ls as [|l r IH]; intros idx total real padded; cbn [paint_pad painted].
  - unfold bar_rows. cbn. rewrite orb_false_r. split; [lia | reflexivity].
  - destruct (is_bar l && (H <? real + wrapped_height l W)) eqn:E.
    + unfold bar_rows. cbn. rewrite orb_false_r. split; [lia | reflexivity].
    + specialize (IH (idx + 1) total (if is_bar l then real + wrapped_height l W else real) (padded || is_bar l)).
      destruct (paint_pad r (idx + 1) total W H (if is_bar l then real + wrapped_height l W else real) sh
                  (padded || is_bar l)) as [[ops rf] pf].
      cbn [fst snd existsb] in *. destruct IH as [IH1 IH2]. rewrite IH1, IH2. split.
      * unfold bar_rows. cbn [filter]. destruct (is_bar l); [rewrite visual_line_count_cons|]; lia.
      * now rewrite orb_assoc.
Qed.

Lemma paint_real' W H ls idx total real :
  snd (paint ls idx total W H real) = real + bar_rows (painted ls W H real) W.
Proof.
  pose proof (paint_pad_real W H 0 ls idx total real true) as [E _].
  rewrite paint_pad_true in E. exact E.
Qed.

(** the padding rows a draw counts: [n - full] when the region shrinks under Bottom alignment and
    the padding is on the screen, else 0 *)
Definition bottom_shift (ls : list line) (n W H : N) : N :=
  if (visual_line_count ls W <? n)
     && (negb (starts_with_text ls) || existsb is_bar (painted ls W H 0))
  then n - visual_line_count ls W else 0.

Definition draw_shift (al : alignment) (ls : list line) (n W H : N) : N :=
  match al with Bottom => bottom_shift ls n W H | Top => 0 end.

(** every draw, either alignment: last_line_count' = rows of the painted Bar lines + the padding,
    computed from the count CAPPED at the height (fix 7d42cff) *)
Lemma draw_to_term_count ls n al below W H :
  snd (fst (draw_to_term ls n al below W H))
  = bar_rows (painted ls W H 0) W + draw_shift al ls (N.min n H) W H.
Proof.
  unfold draw_to_term, draw_shift, bottom_shift.
  set (sh0 := match al with Bottom => _ | Top => 0 end).
  destruct (N.eqb_spec sh0 0) as [E0|E0].
  - pose proof (paint_real' W H ls 0 (N.of_nat (length ls)) 0) as Hp.
    destruct (paint ls 0 (N.of_nat (length ls)) W H 0) as [po re]. cbn [fst snd] in *.
    rewrite Hp. destruct al; [lia|]. unfold sh0 in E0.
    destruct (N.ltb_spec (visual_line_count ls W) (N.min n H)); cbn [andb]; [|lia].
    destruct (negb (starts_with_text ls) || existsb is_bar (painted ls W H 0)); lia.
  - destruct (paint_pad_real W H sh0 ls 0 (N.of_nat (length ls)) 0 (negb (starts_with_text ls))) as [Hp1 Hp2].
    destruct (paint_pad ls 0 (N.of_nat (length ls)) W H 0 sh0 (negb (starts_with_text ls))) as [[po re] pf].
    cbn [fst snd] in *. rewrite Hp1, Hp2. destruct al; [unfold sh0 in E0; lia|]. unfold sh0 in *.
    destruct (N.ltb_spec (visual_line_count ls W) (N.min n H)); cbn [andb]; [|lia].
    destruct (negb (starts_with_text ls) || existsb is_bar (painted ls W H 0)); lia.
Qed.

Lemma bottom_shift_zero ls W H : bottom_shift ls 0 W H = 0.
Proof. unfold bottom_shift. destruct (N.ltb_spec (visual_line_count ls W) 0); [lia | reflexivity]. Qed.

(** C19 (c) for Bottom alignment, one draw (every line vector, every previous count, W, H):
    n' = rows of the painted Bar lines + the counted padding [sh] (computed from the count capped at
    H, fix 7d42cff); the Bar rows are at most H and n' <= H; the region never grows: n' <= max n (bar rows); sh is 0 or n - full > 0; the
    painted lines are the maximal fitting prefix, everything as soon as the Bar lines fit *)
Lemma draw_rows_bounded_bottom W H ls n below :
  let n' := snd (fst (draw_to_term ls n Bottom below W H)) in
  let P := painted ls W H 0 in
  let nc := N.min n H in
  let sh := bottom_shift ls nc W H in
  n' = bar_rows P W + sh /\ bar_rows P W <= H /\ n' <= H
  /\ n' <= N.max nc (bar_rows P W)
  /\ (sh = 0 \/ (visual_line_count ls W < nc /\ sh = nc - visual_line_count ls W))
  /\ (exists rest, ls = P ++ rest
        /\ match rest with
           | [] => True
           | l :: _ => is_bar l = true /\ H < bar_rows P W + wrapped_height l W
           end)
  /\ (bar_rows ls W <= H -> P = ls).
Proof.
  cbv zeta. rewrite draw_to_term_count. cbn [draw_shift].
  pose proof (painted_bar_rows_le W H ls 0 ltac:(lia)) as Hle.
  destruct (painted_prefix W H ls 0) as (rest & Heq & Hrest).
  set (nc := N.min n H).
  assert (Hnc : nc <= H) by (unfold nc; lia).
  assert (Hsh : bottom_shift ls nc W H = 0
                \/ (visual_line_count ls W < nc /\ bottom_shift ls nc W H = nc - visual_line_count ls W)).
  { unfold bottom_shift. destruct (N.ltb_spec (visual_line_count ls W) nc); cbn [andb]; [|now left].
    destruct (negb (starts_with_text ls) || existsb is_bar (painted ls W H 0)); [right; split; [assumption|reflexivity] | now left]. }
  assert (HPle : bar_rows (painted ls W H 0) W <= visual_line_count ls W).
  { pose proof (bar_rows_le_vlc ls W) as Hb. rewrite Heq in Hb at 1. rewrite bar_rows_app in Hb. lia. }
  split; [reflexivity|]. split; [lia|]. split; [destruct Hsh as [->|[Hlt ->]]; lia|].
  split; [destruct Hsh as [->|[Hlt ->]]; lia|].
  split; [exact Hsh|]. split.
  - exists rest. split; [exact Heq|]. destruct rest; [exact I|]. destruct Hrest. split; [assumption | lia].
  - intros Hfit. apply painted_all. lia.
Qed.

(* ------------------------------------------------------------------ top-level forms used by props/C19.v *)
Lemma from_bar_nil_iff ls : from_bar ls = [] <-> existsb is_bar ls = false.
Proof.
  induction ls as [|l r IH]; cbn [from_bar existsb]; [tauto|].
  destruct (is_bar l); cbn [orb]; [split; discriminate | exact IH].
Qed.

(** the vocabulary of the Bottom statements, in plain terms *)
Lemma bottom_vocabulary ls :
  ls = text_prefix ls ++ from_bar ls
  /\ Forall (fun l => is_bar l = false) (text_prefix ls)
  /\ match from_bar ls with [] => True | b :: _ => is_bar b = true end
  /\ bottom_padded ls = match ls with [] => true | _ => existsb is_bar ls end.
Proof.
  split; [apply text_prefix_from_bar|]. split; [apply text_prefix_nonbar|]. split.
  - destruct (from_bar ls) as [|b B] eqn:E; [exact I | exact (from_bar_head ls b B E)].
  - unfold bottom_padded. destruct ls as [|l r]; [reflexivity|].
    destruct (from_bar (l :: r)) as [|b B] eqn:E.
    + symmetry. now apply from_bar_nil_iff.
    + destruct (existsb is_bar (l :: r)) eqn:Ex; [reflexivity|].
      apply from_bar_nil_iff in Ex. congruence.
Qed.

Local Open Scope nat_scope.
Theorem draw_to_term_spec_bottom_full (W H : N) C F t ls (n : N) (below : bool) :
  (1 <= W)%N -> (1 <= H)%N ->
  ready (N.to_nat W) (N.to_nat H) (C ++ F) t -> length F = N.to_nat n -> N.to_nat n <= reach t ->
  (if below then t_col t = 0 else t_col t <> 0) ->
  (visual_line_count ls W < n)%N -> (bar_rows ls W <= H)%N ->
  let sh := (n - visual_line_count ls W)%N in
  let R := bottom_rows W sh ls in
  let d := draw_to_term ls n Bottom below W H in
  let t' := run_ops (N.to_nat W) (N.to_nat H) t (fst (fst d)) in
  snd (fst d) = (bar_rows ls W + if bottom_padded ls then sh else 0)%N
  /\ snd d = match ls with [] => (n <? H)%N | _ => false end
  /\ (ls = [] -> (n < H)%N ->
        R = repeat [] (N.to_nat n) /\ ready (N.to_nat W) (N.to_nat H) (C ++ R) t' /\ t_col t' = 0
        /\ t_row t' = length C + N.to_nat n
        /\ reach t' = Nat.min (N.to_nat H - 1) (reach t))
  /\ (ls = [] -> (H <= n)%N ->
        n = H /\ below = false
        /\ ready (N.to_nat W) (N.to_nat H) (C ++ repeat [] (N.to_nat n - 1)) t'
        /\ (exists k, t' = at_end (C ++ repeat [] (N.to_nat n)) k (N.to_nat H - 1))
        /\ t_col t' = 0 /\ S (t_row t') = length C + N.to_nat n /\ t_vis t' = N.to_nat H - 1
        /\ t_top t' = t_top t /\ t_top t' = length C)
  /\ (ls <> [] -> ready (N.to_nat W) (N.to_nat H) (C ++ R) t' /\ t_col t' <> 0
                  /\ reach t' = Nat.min (N.to_nat H) (reach t - N.to_nat n + length R))
  /\ rows_equiv (N.to_nat W) R
       (wrap (N.to_nat W) (map lt (text_prefix ls))
          ++ (if bottom_padded ls then repeat [] (N.to_nat sh) else [])
          ++ wrap (N.to_nat W) (map lt (from_bar ls)))
  /\ length R = N.to_nat (visual_line_count ls W + if bottom_padded ls then sh else 0).
Proof.
  intros HW HH Hr HF Hn Hb Hlt Hfit. cbv zeta.
  destruct (draw_to_term_spec_bottom W H HW HH C F t ls n below Hr HF Hn Hb Hlt Hfit) as (A & B & D & E & G).
  destruct (bottom_rows_equiv W HW (n - visual_line_count ls W)%N ls) as (I & J).
  split; [exact A|]. split; [exact B|]. split; [exact D|]. split; [exact E|]. split; [exact G|].
  split; [exact I | exact J].
Qed.
