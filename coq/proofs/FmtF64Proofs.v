(** C15 - the binary64 parts of model/Fmt.v (Flocq 4, BinarySingleNaN, Reals):
    Layer 1: every float operation of the model as a statement about [round] on reals
             (the no-overflow side conditions are proved, not assumed);
    Layer 2: HumanDuration - the count of line 120 is the nearest count up to a relative
             slack of 2^-50 ([hd_nearest]) and count x unit is monotone in the duration for
             ALL pairs of durations, across unit switches too ([hd_monotone]);
    Layer 3: the byte formatters - prefix, value and shape of the output ([bytes_shape]). *)
From IndModel Require Import Base Fmt FmtSpec.
From IndGen Require Import Constants.
From IndProofs Require Import FmtProofs.
From Coq Require Import ZArith NArith Reals Lia Lra List Bool String SpecFloat.
From Coq Require Import ZifyBool ZifyNat ZifyN.
From Flocq Require Import Core BinarySingleNaN Relative Mult_error.
Import ListNotations.
Ltac Zify.zify_post_hook ::= Z.div_mod_to_equations.
Open Scope R_scope.

Notation fexp64 := (FLT_exp (-1074) 53).
Notation RN := (round radix2 fexp64 ZnearestE).
Notation fmt := (generic_format radix2 fexp64).

Lemma fexp64_eq : SpecFloat.fexp prec64 emax64 = fexp64.
Proof. reflexivity. Qed.

#[local] Instance valid64 : Valid_exp fexp64 := FLT_exp_valid (-1074) 53.
#[local] Instance mono64 : Monotone_exp fexp64 := FLT_exp_monotone (-1074) 53.

(** the unit roundoff 2^-53 *)
Definition u53 : R := bpow radix2 (-53).

Lemma u53_bounds : 0 < u53 < 1.
Proof.
  split; [apply bpow_gt_0|]. change 1 with (bpow radix2 0). apply bpow_lt. lia.
Qed.

(* ------------------------------------------------------------------ rounding: order, formats *)
Lemma B2R_fmt (x : f64) : fmt (B2R x).
Proof. exact (generic_format_B2R prec64 emax64 x). Qed.

Lemma RN_le x y : x <= y -> RN x <= RN y.
Proof. apply round_le; auto with typeclass_instances. Qed.

Lemma RN_id x : fmt x -> RN x = x.
Proof. apply round_generic; auto with typeclass_instances. Qed.

Lemma RN_fmt x : fmt (RN x).
Proof. apply generic_format_round; auto with typeclass_instances. Qed.

Lemma RN_0 : RN 0 = 0.
Proof. apply round_0; auto with typeclass_instances. Qed.

Lemma RN_ge0 x : 0 <= x -> 0 <= RN x.
Proof. intros H. rewrite <- RN_0. now apply RN_le. Qed.

Lemma RN_le_fmt x y : fmt y -> x <= y -> RN x <= y.
Proof. intros Fy H. rewrite <- (RN_id y Fy). now apply RN_le. Qed.

Lemma RN_ge_fmt x y : fmt y -> y <= x -> y <= RN x.
Proof. intros Fy H. rewrite <- (RN_id y Fy). now apply RN_le. Qed.

Lemma fmt_F2R m e : (Z.abs m < 2 ^ 53)%Z -> (-1074 <= e)%Z -> fmt (F2R (Float radix2 m e)).
Proof.
  intros Hm He. apply generic_format_FLT.
  exact (FLT_spec radix2 (-1074) 53 _ (Float radix2 m e) eq_refl Hm He).
Qed.

Lemma fmt_bpow e : (-1074 <= e)%Z -> fmt (bpow radix2 e).
Proof. intros He. apply generic_format_FLT_bpow; [exact Hprec64|exact He]. Qed.

(** integers up to 2^53 are binary64 numbers *)
Lemma fmt_int (z : Z) : (Z.abs z <= 2 ^ 53)%Z -> fmt (IZR z).
Proof.
  intros H.
  destruct (Z.eq_dec (Z.abs z) (2 ^ 53)) as [E|E].
  - destruct (Z.abs_eq_or_opp z) as [A|A]; rewrite A in E.
    + rewrite E. change (IZR (2 ^ 53)) with (bpow radix2 53). apply fmt_bpow; lia.
    + replace z with (- (2 ^ 53))%Z by lia. rewrite opp_IZR.
      apply generic_format_opp. change (IZR (2 ^ 53)) with (bpow radix2 53). apply fmt_bpow; lia.
  - replace (IZR z) with (F2R (Float radix2 z 0)).
    + apply fmt_F2R; lia.
    + unfold F2R; simpl. ring.
Qed.

Definition NR (n : N) : R := IZR (Z.of_N n).

Lemma NR_ge0 n : 0 <= NR n.
Proof. apply IZR_le. lia. Qed.

Lemma NR_le a b : (a <= b)%N -> NR a <= NR b.
Proof. intros H. apply IZR_le. lia. Qed.

Lemma NR_lt a b : (a < b)%N -> NR a < NR b.
Proof. intros H. apply IZR_lt. lia. Qed.

Lemma NR_add a b : NR (a + b) = NR a + NR b.
Proof. unfold NR. rewrite N2Z.inj_add, plus_IZR. reflexivity. Qed.

Lemma NR_mul a b : NR (a * b) = NR a * NR b.
Proof. unfold NR. rewrite N2Z.inj_mul, mult_IZR. reflexivity. Qed.

Lemma fmt_NR (n : N) : (n <= 2 ^ 53)%N -> fmt (NR n).
Proof. intros H. apply fmt_int. lia. Qed.

(** relative error of one rounding, for 0 and for everything in the normal range *)
Lemma RN_rel x : x = 0 \/ bpow radix2 (-1022) <= x -> Rabs (RN x - x) <= u53 * x.
Proof.
  intros [->|H].
  - rewrite RN_0, Rminus_0_r, Rabs_R0. lra.
  - pose proof (bpow_gt_0 radix2 (-1022)) as P.
    pose proof (relative_error_N_FLT radix2 (-1074) 53 Hprec64 (fun x => negb (Z.even x)) x) as He.
    change (-1074 + 53 - 1)%Z with (-1022)%Z in He.
    rewrite (Rabs_pos_eq x) in He by lra. specialize (He H).
    replace (/ 2 * bpow radix2 (- (53) + 1)) with u53 in He; [exact He|].
    unfold u53. change (- (53) + 1)%Z with (-53 + 1)%Z. rewrite bpow_plus. simpl (bpow radix2 1). lra.
Qed.

Lemma RN_rel_bounds x : x = 0 \/ bpow radix2 (-1022) <= x ->
  (1 - u53) * x <= RN x <= (1 + u53) * x.
Proof. intros H. pose proof (RN_rel x H) as E. apply Rabs_le_inv in E. lra. Qed.

(* ------------------------------------------------------------------ Layer 1: the float operations *)
Lemma no_overflow x : Rabs x <= bpow radix2 1023 ->
  Rlt_bool (Rabs (round radix2 (SpecFloat.fexp prec64 emax64) (round_mode mode_NE) x)) (bpow radix2 emax64) = true.
Proof.
  intros H. apply Rlt_bool_true. rewrite fexp64_eq. simpl round_mode.
  apply Rle_lt_trans with (bpow radix2 1023).
  - apply abs_round_le_generic; auto with typeclass_instances. apply fmt_bpow; lia.
  - apply bpow_lt. unfold emax64. lia.
Qed.

Lemma small_le_1023 x : 0 <= x <= bpow radix2 65 -> Rabs x <= bpow radix2 1023.
Proof.
  intros [H0 H1]. rewrite Rabs_pos_eq by exact H0.
  apply Rle_trans with (1 := H1). apply bpow_le. lia.
Qed.

Lemma f64_of_N_correct (n : N) : (n <= U64MAX)%N ->
  B2R (f64_of_N n) = RN (NR n) /\ is_finite (f64_of_N n) = true /\ Bsign (f64_of_N n) = false.
Proof.
  intros Hn. unfold f64_of_N.
  pose proof (binary_normalize_correct prec64 emax64 Hprec64 Hmax64 mode_NE (Z.of_N n) 0 false) as H.
  cbv zeta in H.
  assert (E : F2R (Float radix2 (Z.of_N n) 0) = NR n) by (unfold F2R, NR; simpl; ring).
  rewrite E in H. rewrite no_overflow in H.
  - destruct H as (H1 & H2 & H3). split; [exact H1|]. split; [exact H2|].
    rewrite H3. destruct (Rcompare_spec (NR n) 0) as [C|C|C]; try reflexivity.
    pose proof (NR_ge0 n). lra.
  - apply small_le_1023. split; [apply NR_ge0|].
    apply Rle_trans with (IZR (2 ^ 65)).
    + apply IZR_le. unfold U64MAX in Hn. lia.
    + change (IZR (2 ^ 65)) with (bpow radix2 65). apply Rle_refl.
Qed.

Lemma f64_of_N_exact (n : N) : (n <= 2 ^ 53)%N ->
  B2R (f64_of_N n) = NR n /\ is_finite (f64_of_N n) = true.
Proof.
  intros Hn. destruct (f64_of_N_correct n) as (H1 & H2 & _); [unfold U64MAX; lia|].
  split; [|exact H2]. rewrite H1. apply RN_id, fmt_NR, Hn.
Qed.

Lemma fdiv_correct (a b : f64) : is_finite a = true -> B2R b <> 0 ->
  0 <= B2R a / B2R b <= bpow radix2 65 ->
  B2R (fdiv a b) = RN (B2R a / B2R b) /\ is_finite (fdiv a b) = true.
Proof.
  intros Fa Nb Hb. unfold fdiv, f64 in *.
  pose proof (Bdiv_correct prec64 emax64 Hprec64 Hmax64 mode_NE a b Nb) as H.
  rewrite no_overflow in H by (apply small_le_1023; exact Hb).
  destruct H as (H1 & H2 & _). split; [exact H1|]. rewrite Fa in H2. exact H2.
Qed.

Lemma fadd_correct (a b : f64) : is_finite a = true -> is_finite b = true ->
  0 <= B2R a + B2R b <= bpow radix2 65 ->
  B2R (fadd a b) = RN (B2R a + B2R b) /\ is_finite (fadd a b) = true.
Proof.
  intros Fa Fb Hb. unfold fadd, f64 in *.
  pose proof (Bplus_correct prec64 emax64 Hprec64 Hmax64 mode_NE a b Fa Fb) as H.
  rewrite no_overflow in H by (apply small_le_1023; exact Hb).
  destruct H as (H1 & H2 & _). split; [exact H1|exact H2].
Qed.

Lemma fround_correct (x : f64) :
  B2R (fround x) = IZR (ZnearestA (B2R x)) /\ is_finite (fround x) = is_finite x.
Proof.
  unfold fround. destruct (Bnearbyint_correct prec64 emax64 Hmax64 mode_NA x) as (H1 & H2 & _).
  split; [|exact H2]. rewrite H1. simpl round_mode. apply round_FIX_IZR.
Qed.

Lemma Btrunc_Ztrunc (x : f64) : Btrunc x = Ztrunc (B2R x).
Proof.
  apply eq_IZR. rewrite (Btrunc_correct prec64 emax64 Hmax64 x). apply round_FIX_IZR.
Qed.

(** [x as usize] of a finite float whose value is the non-negative integer z *)
Lemma f64_to_usize_int (x : f64) (z : Z) : is_finite x = true -> B2R x = IZR z -> (0 <= z)%Z ->
  f64_to_usize x = N.min U64MAX (Z.to_N z).
Proof.
  intros Fx Hx Hz. destruct x as [s|s| |s m e He]; try discriminate Fx.
  - cbn [B2R] in Hx. apply (eq_IZR 0) in Hx. subst z. reflexivity.
  - unfold f64_to_usize. rewrite Btrunc_Ztrunc, Hx, Ztrunc_IZR.
    destruct s; [|reflexivity]. exfalso.
    assert (B2R (B754_finite true m e He) < 0) as L.
    { cbn [B2R]. apply F2R_lt_0. simpl. reflexivity. }
    rewrite Hx in L. apply (lt_IZR z 0) in L. lia.
Qed.

(* ================================================================== Layer 2: HumanDuration *)
(** Duration::as_secs_f64 as a real number: RN (RN secs + RN (nanos / 10^9)) *)
Definition SR (secs nanos : N) : R := RN (RN (NR secs) + RN (NR nanos / 1000000000)).
(** the true number of seconds *)
Definition DR (secs nanos : N) : R := NR secs + NR nanos / 1000000000.

Lemma NR_1e9 : NR NANOS_PER_SEC = 1000000000.
Proof. reflexivity. Qed.

Lemma b64 : bpow radix2 64 = 18446744073709551616.
Proof. simpl. lra. Qed.
Lemma b65 : bpow radix2 65 = 36893488147419103232.
Proof. simpl. lra. Qed.

Lemma RN_NR_le64 n : (n <= U64MAX)%N -> RN (NR n) <= bpow radix2 64.
Proof.
  intros H. apply RN_le_fmt; [apply fmt_bpow; lia|].
  change (bpow radix2 64) with (IZR (2 ^ 64)). apply IZR_le. unfold U64MAX in H. lia.
Qed.

(** the fraction nanos / 10^9, rounded, stays below 1 *)
Lemma frac_bounds nanos : (nanos < NANOS_PER_SEC)%N ->
  0 <= RN (NR nanos / 1000000000) <= 1 - u53.
Proof.
  intros H. split.
  - apply RN_ge0. pose proof (NR_ge0 nanos). apply Rmult_le_pos; lra.
  - apply RN_le_fmt.
    + replace (1 - u53) with (F2R (Float radix2 (2 ^ 53 - 1) (-53))).
      * apply fmt_F2R; [simpl; lia|lia].
      * unfold u53, F2R. simpl. lra.
    + assert (NR nanos <= 999999999) as L by (apply (IZR_le _ 999999999); unfold NANOS_PER_SEC in H; lia).
      unfold u53. simpl. lra.
Qed.

Lemma as_secs_f64_correct secs nanos : (secs <= U64MAX)%N -> (nanos < NANOS_PER_SEC)%N ->
  B2R (as_secs_f64 secs nanos) = SR secs nanos /\ is_finite (as_secs_f64 secs nanos) = true.
Proof.
  intros Hs Hn. unfold as_secs_f64, SR.
  destruct (f64_of_N_correct secs Hs) as (S1 & S2 & _).
  destruct (f64_of_N_exact nanos) as (N1 & N2); [unfold NANOS_PER_SEC in Hn; lia|].
  destruct (f64_of_N_exact NANOS_PER_SEC) as (G1 & G2); [unfold NANOS_PER_SEC; lia|].
  rewrite NR_1e9 in G1.
  pose proof (NR_ge0 nanos) as P.
  assert (NR nanos <= 999999999) as L by (apply (IZR_le _ 999999999); unfold NANOS_PER_SEC in Hn; lia).
  destruct (fdiv_correct (f64_of_N nanos) (f64_of_N NANOS_PER_SEC)) as (D1 & D2).
  - exact N2.
  - rewrite G1. lra.
  - rewrite N1, G1, b65. lra.
  - rewrite N1, G1 in D1.
    pose proof (frac_bounds nanos Hn) as FB. pose proof u53_bounds as UB.
    pose proof (RN_NR_le64 secs Hs) as SB. pose proof (RN_ge0 _ (NR_ge0 secs)) as S0.
    destruct (fadd_correct (f64_of_N secs) (fdiv (f64_of_N nanos) (f64_of_N NANOS_PER_SEC))) as (A1 & A2).
    + exact S2.
    + exact D2.
    + rewrite S1, D1, b65. rewrite b64 in SB. lra.
    + rewrite S1, D1 in A1. split; [exact A1|exact A2].
Qed.

(** a whole number of seconds up to 2^53 is exact *)
Lemma SR_whole u : (u <= 2 ^ 53)%N -> SR u 0 = NR u.
Proof.
  intros H. unfold SR. change (NR 0) with 0. replace (0 / 1000000000) with 0 by lra.
  rewrite RN_0, Rplus_0_r. rewrite (RN_id (NR u)) by (apply fmt_NR; exact H).
  apply RN_id, fmt_NR, H.
Qed.

Lemma SR_ge0 secs nanos : 0 <= SR secs nanos.
Proof.
  unfold SR. apply RN_ge0. apply Rplus_le_le_0_compat; apply RN_ge0; [apply NR_ge0|].
  pose proof (NR_ge0 nanos). apply Rmult_le_pos; lra.
Qed.

Lemma SR_le64 secs nanos : (secs <= U64MAX)%N -> (nanos < NANOS_PER_SEC)%N -> SR secs nanos <= bpow radix2 65.
Proof.
  intros Hs Hn. unfold SR. apply RN_le_fmt; [apply fmt_bpow; lia|].
  pose proof (frac_bounds nanos Hn). pose proof (RN_NR_le64 secs Hs). pose proof u53_bounds.
  rewrite b65. rewrite b64 in *. lra.
Qed.

(** the quotient of line 120 as a real number *)
Definition XR (secs nanos unit : N) : R := RN (SR secs nanos / NR unit).

Lemma XR_ge0 secs nanos unit : (1 <= unit)%N -> 0 <= XR secs nanos unit.
Proof.
  intros H. apply RN_ge0. pose proof (SR_ge0 secs nanos). pose proof (NR_le 1 unit H) as L. change (NR 1) with 1 in L.
  apply Rmult_le_pos; [lra|]. apply Rlt_le, Rinv_0_lt_compat. lra.
Qed.

(** line 120: the count is the quotient rounded to the nearest integer (ties away), saturated *)
Lemma hd_raw_count_correct secs nanos unit :
  (secs <= U64MAX)%N -> (nanos < NANOS_PER_SEC)%N -> (1 <= unit <= 2 ^ 53)%N ->
  hd_raw_count secs nanos unit = N.min U64MAX (Z.to_N (ZnearestA (XR secs nanos unit))).
Proof.
  intros Hs Hn [Hu1 Hu2]. unfold hd_raw_count.
  destruct (as_secs_f64_correct secs nanos Hs Hn) as (S1 & S2).
  destruct (as_secs_f64_correct unit 0) as (U1 & U2); [unfold U64MAX; lia|reflexivity|].
  rewrite (SR_whole unit Hu2) in U1.
  pose proof (NR_le 1 unit Hu1) as L. change (NR 1) with 1 in L.
  pose proof (SR_ge0 secs nanos) as P0. pose proof (SR_le64 secs nanos Hs Hn) as P1.
  destruct (fdiv_correct (as_secs_f64 secs nanos) (as_secs_f64 unit 0)) as (D1 & D2).
  - exact S2.
  - rewrite U1. lra.
  - rewrite S1, U1. split.
    + apply Rmult_le_pos; [lra|]. apply Rlt_le, Rinv_0_lt_compat. lra.
    + apply Rle_trans with (SR secs nanos / 1); [|lra].
      unfold Rdiv. apply Rmult_le_compat_l; [lra|]. apply Rinv_le_contravar; lra.
  - rewrite S1, U1 in D1. fold (XR secs nanos unit) in D1.
    destruct (fround_correct (fdiv (as_secs_f64 secs nanos) (as_secs_f64 unit 0))) as (R1 & R2).
    rewrite D1 in R1. rewrite D2 in R2.
    apply (f64_to_usize_int _ _ R2 R1).
    assert (ZnearestA 0 = 0%Z) as Z0.
    { unfold ZnearestA. apply Znearest_imp. rewrite Rminus_0_r, Rabs_R0. lra. }
    apply Z.le_trans with (ZnearestA 0); [rewrite Z0; apply Z.le_refl|].
    apply (Zrnd_le ZnearestA). apply XR_ge0. exact Hu1.
Qed.

(* ------------------------------------------------------------------ monotonicity *)
(** a binary64 number M >= 2^53 absorbs any addend below 1 *)
Lemma RN_absorb M f : fmt M -> bpow radix2 53 <= M -> 0 <= f < 1 -> RN (M + f) <= M.
Proof.
  intros FM HM [Hf0 Hf1].
  pose proof (bpow_gt_0 radix2 53) as P53.
  apply round_N_le_midp; [auto with typeclass_instances|exact FM|].
  rewrite succ_eq_pos by lra. rewrite ulp_neq_0 by lra.
  assert (2 <= bpow radix2 (cexp radix2 fexp64 M)) as U.
  { change 2 with (bpow radix2 1). apply bpow_le. unfold cexp.
    assert (54 <= mag radix2 M)%Z as LM.
    { apply mag_ge_bpow. change (54 - 1)%Z with 53%Z. rewrite Rabs_pos_eq by lra. exact HM. }
    unfold FLT_exp. lia. }
  lra.
Qed.

Lemma dur_ns_le_cases secs nanos secs' nanos' :
  (nanos < NANOS_PER_SEC)%N -> (nanos' < NANOS_PER_SEC)%N ->
  (dur_ns secs nanos <= dur_ns secs' nanos')%N ->
  (secs < secs')%N \/ (secs = secs' /\ (nanos <= nanos')%N).
Proof. unfold dur_ns, NANOS_PER_SEC. intros. lia. Qed.

(** as_secs_f64 is monotone in the duration *)
Lemma SR_mono secs nanos secs' nanos' :
  (nanos < NANOS_PER_SEC)%N -> (nanos' < NANOS_PER_SEC)%N ->
  (dur_ns secs nanos <= dur_ns secs' nanos')%N ->
  SR secs nanos <= SR secs' nanos'.
Proof.
  intros Hn Hn' Hd. unfold SR.
  pose proof (frac_bounds nanos Hn) as FB. pose proof (frac_bounds nanos' Hn') as FB'.
  pose proof u53_bounds as UB.
  destruct (dur_ns_le_cases _ _ _ _ Hn Hn' Hd) as [Hlt|[-> Hle]].
  - apply Rle_trans with (RN (NR secs')).
    2:{ apply RN_ge_fmt; [apply RN_fmt|]. lra. }
    destruct (N.lt_ge_cases secs (2 ^ 53)) as [Hs|Hs].
    + rewrite (RN_id (NR secs)) by (apply fmt_NR; lia).
      apply RN_le. assert (NR secs + 1 <= NR secs') as L.
      { unfold NR. rewrite <- (plus_IZR _ 1). apply IZR_le. lia. }
      lra.
    + apply Rle_trans with (RN (NR secs)).
      * apply RN_absorb; [apply RN_fmt| |lra].
        apply RN_ge_fmt; [apply fmt_bpow; lia|].
        change (bpow radix2 53) with (IZR (2 ^ 53)). apply IZR_le. lia.
      * apply RN_le, NR_le. lia.
  - apply RN_le. apply Rplus_le_compat_l. apply RN_le.
    pose proof (NR_le _ _ Hle). lra.
Qed.

(** the count of line 120 is monotone in the duration (fixed unit) *)
Lemma hd_raw_count_mono secs nanos secs' nanos' unit :
  dur_valid secs nanos -> dur_valid secs' nanos' -> (1 <= unit <= 2 ^ 53)%N ->
  (dur_ns secs nanos <= dur_ns secs' nanos')%N ->
  (hd_raw_count secs nanos unit <= hd_raw_count secs' nanos' unit)%N.
Proof.
  intros [Hs Hn] [Hs' Hn'] Hu Hd.
  rewrite (hd_raw_count_correct secs nanos unit Hs Hn Hu), (hd_raw_count_correct secs' nanos' unit Hs' Hn' Hu).
  assert (ZnearestA (XR secs nanos unit) <= ZnearestA (XR secs' nanos' unit))%Z as L.
  { apply (Zrnd_le ZnearestA). unfold XR. apply RN_le.
    pose proof (SR_mono _ _ _ _ Hn Hn' Hd) as M.
    pose proof (NR_le 1 unit (proj1 Hu)) as L1. change (NR 1) with 1 in L1.
    unfold Rdiv. apply Rmult_le_compat_r; [|exact M]. apply Rlt_le, Rinv_0_lt_compat. lra. }
  lia.
Qed.

Lemma unit_secs_range i : (i <= 5)%nat -> (1 <= unit_secs i <= 2 ^ 53)%N.
Proof.
  intros H. do 6 (destruct i as [|i]; [unfold unit_secs, UNITS; cbn [nth_error]; lia|]). lia.
Qed.

Lemma unit_ns_antitone i j : (i <= j)%nat -> (unit_ns j <= unit_ns i)%N.
Proof.
  intros H. unfold unit_ns, unit_secs, UNITS, NANOS_PER_SEC.
  do 6 (destruct i as [|i]; [do 6 (destruct j as [|j]; [cbn [nth_error]; lia|]); destruct j; cbn [nth_error]; lia|]).
  do 6 (destruct j as [|j]; [lia|]). destruct i, j; cbn [nth_error]; lia.
Qed.

(** inside one unit, count x unit is monotone *)
Lemma hd_count_mono secs nanos secs' nanos' i :
  dur_valid secs nanos -> dur_valid secs' nanos' -> (i <= 5)%nat ->
  (dur_ns secs nanos <= dur_ns secs' nanos')%N ->
  (hd_count secs nanos i <= hd_count secs' nanos' i)%N.
Proof.
  intros V V' Hi Hd. unfold hd_count.
  pose proof (hd_raw_count_mono _ _ _ _ (unit_secs i) V V' (unit_secs_range i Hi) Hd) as M.
  destruct (i <? 5)%nat; lia.
Qed.

Ltac closed_rhs :=
  match goal with |- (_ <= ?r)%N => let v := eval vm_compute in r in change r with v end.

(** the largest count shown with unit i (reached 1 ns below the switch to the next larger
    unit) is below two of the next larger unit: 89 s < 2 min, 89 min < 2 h, 35 h < 2 d,
    10 d < 2 w, 78 w < 2 y *)
Lemma hd_top secs nanos :
  dur_valid secs nanos ->
  let i := hd_idx (dur_ns secs nanos) in
  (1 <= i)%nat -> (hd_count secs nanos i * unit_ns i <= 2 * unit_ns (i - 1))%N.
Proof.
  intros V i Hi. subst i. revert Hi. rewrite hd_idx_thresholds.
  assert (forall s n u c, dur_valid s n -> (1 <= u <= 2 ^ 53)%N ->
            (dur_ns secs nanos <= dur_ns s n)%N -> hd_raw_count s n u = c ->
            (hd_raw_count secs nanos u <= c)%N) as B.
  { intros s n u c Vs Hu Hd <-. apply hd_raw_count_mono; assumption. }
  assert (forall s n, (s <= 50000000)%N -> (n < 1000000000)%N -> dur_valid s n) as VV.
  { intros s n H1 H2. split; [unfold U64MAX; lia|exact H2]. }
  unfold hd_count.
  repeat match goal with |- context [(?a <=? ?b)%N] =>
    let E := fresh "E" in destruct (a <=? b)%N eqn:E; [apply N.leb_le in E|apply N.leb_gt in E] end;
  intros Hi; try lia; cbn [Nat.sub Nat.ltb Nat.leb];
  unfold unit_ns, unit_secs, UNITS, NANOS_PER_SEC; cbn [nth_error].
  - (* weeks: below 544 d *)
    pose proof (B 47001599 999999999 604800 78)%N as X.
    specialize (X ltac:(apply VV; lia) ltac:(lia) ltac:(closed_rhs; lia) ltac:(vm_compute; reflexivity)).
    lia.
  - (* days: below 10 d *)
    pose proof (B 863999 999999999 86400 10)%N as X.
    specialize (X ltac:(apply VV; lia) ltac:(lia) ltac:(closed_rhs; lia) ltac:(vm_compute; reflexivity)).
    lia.
  - (* hours: below 35.5 h *)
    pose proof (B 127799 999999999 3600 35)%N as X.
    specialize (X ltac:(apply VV; lia) ltac:(lia) ltac:(closed_rhs; lia) ltac:(vm_compute; reflexivity)).
    lia.
  - (* minutes: below 89.5 min *)
    pose proof (B 5369 999999999 60 89)%N as X.
    specialize (X ltac:(apply VV; lia) ltac:(lia) ltac:(closed_rhs; lia) ltac:(vm_compute; reflexivity)).
    lia.
  - (* seconds: below 89.5 s *)
    pose proof (B 89 499999999 1 89)%N as X.
    specialize (X ltac:(apply VV; lia) ltac:(lia) ltac:(closed_rhs; lia) ltac:(vm_compute; reflexivity)).
    lia.
Qed.

(** HumanDuration is monotone: for ALL pairs of durations d <= d' the quantity shown
    (count x unit, in ns) does not decrease - inside a unit and across every unit switch *)
Theorem hd_monotone secs nanos secs' nanos' :
  dur_valid secs nanos -> dur_valid secs' nanos' ->
  (dur_ns secs nanos <= dur_ns secs' nanos')%N ->
  let i := hd_idx (dur_ns secs nanos) in
  let i' := hd_idx (dur_ns secs' nanos') in
  (hd_count secs nanos i * unit_ns i <= hd_count secs' nanos' i' * unit_ns i')%N.
Proof.
  intros V V' Hd i i'.
  pose proof (hd_idx_antitone _ _ Hd) as A. fold i i' in A.
  destruct (hd_idx_rule (dur_ns secs nanos)) as (B5 & _). fold i in B5.
  destruct (Nat.eq_dec i' i) as [E|NE].
  - rewrite E. apply N.mul_le_mono_r. apply hd_count_mono; assumption.
  - assert (i' < i)%nat as Lt by lia.
    pose proof (hd_top secs nanos V) as T. cbv zeta in T. fold i in T. specialize (T ltac:(lia)).
    pose proof (unit_ns_antitone i' (i - 1) ltac:(lia)) as U.
    assert (2 <= hd_count secs' nanos' i')%N as C.
    { unfold hd_count. assert ((i' <? 5)%nat = true) as -> by (apply Nat.ltb_lt; lia). lia. }
    nia.
Qed.

(* ------------------------------------------------------------------ nearest count *)
Lemma u53_val : u53 = / 9007199254740992.
Proof. unfold u53. simpl. lra. Qed.

Lemma tiny_le x : / 1000000000000000000000000000 <= x -> bpow radix2 (-1022) <= x.
Proof.
  intros H. apply Rle_trans with (2 := H). apply Rle_trans with (bpow radix2 (-100)).
  - apply bpow_le. lia.
  - simpl. lra.
Qed.

(** as_secs_f64 is within (1 +- 2^-53)^2 of the true number of seconds *)
Lemma SR_err secs nanos :
  (nanos < NANOS_PER_SEC)%N ->
  (1 - u53) * ((1 - u53) * DR secs nanos) <= SR secs nanos <= (1 + u53) * ((1 + u53) * DR secs nanos)
  /\ (SR secs nanos = 0 \/ / 2000000000 <= SR secs nanos).
Proof.
  intros Hn. unfold SR, DR.
  pose proof (NR_ge0 secs) as S0. pose proof (NR_ge0 nanos) as N0.
  set (s := NR secs) in *. set (f := NR nanos / 1000000000).
  assert (f = 0 \/ / 1000000000 <= f) as Hf.
  { destruct (N.eq_dec nanos 0) as [->|NZ]; [left; unfold f; change (NR 0) with 0; lra|right].
    assert (1 <= NR nanos) by (apply (IZR_le 1); lia). unfold f. lra. }
  assert (s = 0 \/ 1 <= s) as Hs.
  { destruct (N.eq_dec secs 0) as [->|NZ]; [left; reflexivity|right]. apply (IZR_le 1). lia. }
  assert (0 <= f) as F0 by (destruct Hf; lra).
  pose proof (RN_rel_bounds s) as A. pose proof (RN_rel_bounds f) as B.
  assert (s = 0 \/ bpow radix2 (-1022) <= s) as Hs' by (destruct Hs; [left; assumption|right; apply tiny_le; lra]).
  assert (f = 0 \/ bpow radix2 (-1022) <= f) as Hf' by (destruct Hf; [left; assumption|right; apply tiny_le; lra]).
  specialize (A Hs'). specialize (B Hf'). rewrite u53_val in *.
  set (a := RN s) in *. set (b := RN f) in *.
  assert (a + b = 0 \/ / 1500000000 <= a + b) as Hab.
  { destruct Hs as [Es|Es]; destruct Hf as [Ef|Ef]; [left|right|right|right]; lra. }
  assert (a + b = 0 \/ bpow radix2 (-1022) <= a + b) as Hab' by (destruct Hab; [left; assumption|right; apply tiny_le; lra]).
  pose proof (RN_rel_bounds (a + b) Hab') as C. rewrite u53_val in C.
  split; [lra|]. destruct Hab as [E|E]; [left; rewrite E; apply RN_0|right; lra].
Qed.

(** the rounded quotient times the unit is within (1 +- 2^-53)^3 of the true duration *)
Lemma XR_err secs nanos unit :
  (nanos < NANOS_PER_SEC)%N -> (1 <= unit <= 2 ^ 53)%N ->
  (1 - 4 * u53) * DR secs nanos <= XR secs nanos unit * NR unit <= (1 + 4 * u53) * DR secs nanos.
Proof.
  intros Hn [Hu1 Hu2].
  destruct (SR_err secs nanos Hn) as (E & Z). unfold XR.
  pose proof (NR_le 1 unit Hu1) as L1. change (NR 1) with 1 in L1.
  assert (NR unit <= 9007199254740992) as L2 by (apply (IZR_le _ (2 ^ 53)); lia).
  pose proof (SR_ge0 secs nanos) as S0.
  set (S := SR secs nanos) in *. set (U := NR unit) in *. set (D := DR secs nanos) in *.
  assert (0 < / U) as IU by (apply Rinv_0_lt_compat; lra).
  assert (S / U * U = S) as YU by (field; lra).
  assert (S / U = 0 \/ bpow radix2 (-1022) <= S / U) as HY.
  { destruct Z as [->|Z]; [left; unfold Rdiv; ring|right]. apply tiny_le.
    apply Rle_trans with (/ 2000000000 * / 9007199254740992); [lra|].
    unfold Rdiv. apply Rmult_le_compat; try lra.
    apply Rinv_le_contravar; lra. }
  pose proof (RN_rel_bounds (S / U) HY) as C. rewrite u53_val in *.
  destruct C as [C1 C2].
  apply (Rmult_le_compat_r U) in C1; [|lra]. apply (Rmult_le_compat_r U) in C2; [|lra].
  rewrite Rmult_assoc, YU in C1, C2.
  assert (0 <= D) as D0.
  { unfold D, DR. pose proof (NR_ge0 secs). pose proof (NR_ge0 nanos). lra. }
  lra.
Qed.

(** |t U - D| <= U/2 + 2^-51 D for t = the quotient rounded to the nearest integer *)
Lemma nearest_R secs nanos unit :
  (nanos < NANOS_PER_SEC)%N -> (1 <= unit <= 2 ^ 53)%N ->
  let t := IZR (ZnearestA (XR secs nanos unit)) in
  t * NR unit <= DR secs nanos + NR unit / 2 + 4 * u53 * DR secs nanos
  /\ DR secs nanos <= t * NR unit + NR unit / 2 + 4 * u53 * DR secs nanos.
Proof.
  intros Hn Hu t.
  pose proof (XR_err secs nanos unit Hn Hu) as [E1 E2].
  pose proof (Znearest_half (fun x => Z.leb 0 x) (XR secs nanos unit)) as H.
  apply Rabs_le_inv in H. change (- / 2 <= XR secs nanos unit - t <= / 2) in H. destruct H as [H1 H2].
  pose proof (NR_le 1 unit (proj1 Hu)) as L1. change (NR 1) with 1 in L1.
  set (U := NR unit) in *. set (X := XR secs nanos unit) in *. set (D := DR secs nanos) in *.
  assert (t * U <= (X + / 2) * U) as A by (apply Rmult_le_compat_r; lra).
  assert ((X - / 2) * U <= t * U) as B by (apply Rmult_le_compat_r; lra).
  lra.
Qed.

Lemma NR_dur_ns secs nanos : NR (dur_ns secs nanos) = DR secs nanos * 1000000000.
Proof. unfold dur_ns, DR. rewrite NR_add, NR_mul, NR_1e9. field. Qed.

(** the same in integers (nanoseconds): 2^52 |t u - d| <= 2^51 u + 2 d *)
Lemma nearest_Z secs nanos unit :
  (nanos < NANOS_PER_SEC)%N -> (1 <= unit <= 2 ^ 53)%N ->
  let t := ZnearestA (XR secs nanos unit) in
  let u := Z.of_N (unit * NANOS_PER_SEC) in
  let d := Z.of_N (dur_ns secs nanos) in
  (2 ^ 52 * (t * u) <= 2 ^ 52 * d + 2 ^ 51 * u + 2 * d
   /\ 2 ^ 52 * d <= 2 ^ 52 * (t * u) + 2 ^ 51 * u + 2 * d)%Z.
Proof.
  intros Hn Hu t u d.
  pose proof (nearest_R secs nanos unit Hn Hu) as [A B]. cbv zeta in A, B. fold t in A, B.
  assert (IZR u = NR unit * 1000000000) as Eu by (unfold u; fold (NR (unit * NANOS_PER_SEC)); rewrite NR_mul, NR_1e9; reflexivity).
  assert (IZR d = DR secs nanos * 1000000000) as Ed by (unfold d; apply NR_dur_ns).
  rewrite u53_val in A, B.
  split; apply le_IZR; repeat (rewrite ?plus_IZR, ?mult_IZR); rewrite Eu, Ed;
    change (IZR (2 ^ 52)) with 4503599627370496; change (IZR (2 ^ 51)) with 2251799813685248; lra.
Qed.

(** the count of line 120 (saturating cast included) is the nearest count of the unit,
    up to d / 2^50 *)
Lemma hd_raw_nearest secs nanos unit :
  dur_valid secs nanos -> (1 <= unit <= 2 ^ 53)%N ->
  near_within (hd_raw_count secs nanos unit) (unit * NANOS_PER_SEC) (dur_ns secs nanos) (unit * NANOS_PER_SEC).
Proof.
  intros [Hs Hn] Hu. rewrite (hd_raw_count_correct secs nanos unit Hs Hn Hu).
  pose proof (nearest_Z secs nanos unit Hn Hu) as [A B]. cbv zeta in A, B.
  assert (0 <= ZnearestA (XR secs nanos unit))%Z as T0.
  { assert (ZnearestA 0 = 0%Z) as Z0.
    { unfold ZnearestA. apply Znearest_imp. rewrite Rminus_0_r, Rabs_R0. lra. }
    apply Z.le_trans with (ZnearestA 0); [rewrite Z0; apply Z.le_refl|].
    apply (Zrnd_le ZnearestA). apply XR_ge0. lia. }
  set (t := ZnearestA (XR secs nanos unit)) in *.
  assert (dur_ns secs nanos < 2 ^ 64 * NANOS_PER_SEC)%N as Dmax.
  { unfold dur_ns, U64MAX, NANOS_PER_SEC in *. lia. }
  assert (NANOS_PER_SEC <= unit * NANOS_PER_SEC)%N as Umin by (unfold NANOS_PER_SEC; lia).
  set (u := (unit * NANOS_PER_SEC)%N) in *. set (d := dur_ns secs nanos) in *.
  unfold near_within.
  destruct (Z.le_gt_cases t (Z.of_N U64MAX)) as [Le|Gt].
  - assert (N.min U64MAX (Z.to_N t) = Z.to_N t) as -> by lia.
    assert (Z.of_N (Z.to_N t * u) = t * Z.of_N u)%Z as E by (rewrite N2Z.inj_mul, Z2N.id by exact T0; reflexivity).
    set (p := (Z.to_N t * u)%N) in *. set (pz := (t * Z.of_N u)%Z) in *.
    change (2 ^ 52)%Z with 4503599627370496%Z in *. change (2 ^ 51)%Z with 2251799813685248%Z in *.
    change (2 ^ 51)%N with 2251799813685248%N. change (2 ^ 50)%N with 1125899906842624%N.
    lia.
  - assert (N.min U64MAX (Z.to_N t) = U64MAX) as -> by lia.
    assert (2 ^ 64 * Z.of_N u <= t * Z.of_N u)%Z as P by (apply Z.mul_le_mono_nonneg_r; unfold U64MAX in Gt; lia).
    set (pz := (t * Z.of_N u)%Z) in *.
    unfold U64MAX, NANOS_PER_SEC in *.
    change (2 ^ 52)%Z with 4503599627370496%Z in *. change (2 ^ 51)%Z with 2251799813685248%Z in *.
    change (2 ^ 64)%Z with 18446744073709551616%Z in *. change (2 ^ 64)%N with 18446744073709551616%N in *.
    change (2 ^ 51)%N with 2251799813685248%N. change (2 ^ 50)%N with 1125899906842624%N.
    lia.
Qed.

Lemma near_within_weaken t u d w w' : (w <= w')%N -> near_within t u d w -> near_within t u d w'.
Proof. unfold near_within. intros H [A B]. split; nia. Qed.

(** HumanDuration prints the nearest count of the selected unit: the unclamped count r is
    within half a unit (+ d/2^50, binary64) of the duration; the printed count t is r,
    except that "1 unit" above seconds is shown as "2 units" - which happens only for
    durations between the switch point (1.5 units minus half the next smaller unit) and
    1.5 units, where it is off by at most half a unit plus half the next smaller unit *)
Theorem hd_nearest secs nanos :
  dur_valid secs nanos ->
  let d := dur_ns secs nanos in
  let i := hd_idx d in
  let r := hd_raw_count secs nanos (unit_secs i) in
  let t := hd_count secs nanos i in
  near_within r (unit_ns i) d (unit_ns i)
  /\ (t = r \/ ((i < 5)%nat /\ (r < 2)%N /\ t = 2%N
                /\ (3 * unit_ns i <= 2 * d + unit_ns (S i))%N
                /\ (2 ^ 51 * d <= 2 ^ 51 * unit_ns i + 2 ^ 50 * unit_ns i + 2 * d)%N))
  /\ near_within t (unit_ns i) d (unit_ns i + unit_ns (S i)).
Proof.
  intros V d i r t.
  destruct (hd_idx_rule d) as (B5 & _ & Q). fold i in B5, Q.
  pose proof (hd_raw_nearest secs nanos (unit_secs i) V (unit_secs_range i B5)) as NW.
  fold (unit_ns i) in NW. fold d in NW. fold r in NW.
  split; [exact NW|].
  assert (t = r \/ ((i < 5)%nat /\ (r < 2)%N /\ t = 2%N)) as C.
  { subst t. unfold hd_count. fold r. destruct (i <? 5)%nat eqn:E; [|left; reflexivity].
    apply Nat.ltb_lt in E. destruct (N.lt_ge_cases r 2) as [L|L]; [right|left]; lia. }
  destruct C as [C|(C1 & C2 & C3)].
  - split; [left; exact C|]. rewrite C. apply (near_within_weaken _ _ _ (unit_ns i)); [lia|exact NW].
  - specialize (Q C1). unfold qualifies in Q. apply N.leb_le in Q.
    assert (2 ^ 51 * d <= 2 ^ 51 * unit_ns i + 2 ^ 50 * unit_ns i + 2 * d)%N as Up.
    { destruct NW as [_ NW2]. assert (r * unit_ns i <= unit_ns i)%N by nia.
      change (2 ^ 51)%N with 2251799813685248%N in *. change (2 ^ 50)%N with 1125899906842624%N in *. lia. }
    split; [right; repeat split; assumption|].
    rewrite C3. unfold near_within.
    change (2 ^ 51)%N with 2251799813685248%N in *. change (2 ^ 50)%N with 1125899906842624%N in *.
    split; lia.
Qed.

(* ================================================================== Layer 3: the byte formatters *)
(** the running amount of the number_prefix loop as a real number *)
Fixpoint AR (j : nat) (x K : R) : R :=
  match j with O => x | S j' => AR j' (RN (x / K)) K end.

Lemma AR_ge0 j x K : 0 <= x -> 1 <= K -> 0 <= AR j x K.
Proof.
  revert x. induction j as [|j IH]; intros x Hx HK; [exact Hx|].
  cbn [AR]. apply IH; [|exact HK]. apply RN_ge0. apply Rmult_le_pos; [exact Hx|].
  apply Rlt_le, Rinv_0_lt_compat. lra.
Qed.

Lemma AR_mono j x y K : 1 <= K -> x <= y -> AR j x K <= AR j y K.
Proof.
  intros HK. revert x y. induction j as [|j IH]; intros x y H; [exact H|].
  cbn [AR]. apply IH. apply RN_le. unfold Rdiv. apply Rmult_le_compat_r; [|exact H].
  apply Rlt_le, Rinv_0_lt_compat. lra.
Qed.

Lemma div_iter_correct j (a kilo : f64) :
  is_finite a = true -> is_finite kilo = true -> 1 <= B2R kilo -> 0 <= B2R a <= bpow radix2 65 ->
  B2R (div_iter j a kilo) = AR j (B2R a) (B2R kilo) /\ is_finite (div_iter j a kilo) = true.
Proof.
  intros Fa Fk HK. revert a Fa. induction j as [|j IH]; intros a Fa Ha; [split; [reflexivity|exact Fa]|].
  cbn [div_iter AR].
  assert (0 < / B2R kilo <= 1) as IK.
  { split; [apply Rinv_0_lt_compat; lra|]. rewrite <- Rinv_1. apply Rinv_le_contravar; lra. }
  assert (0 <= B2R a / B2R kilo <= bpow radix2 65) as Q.
  { pose proof (bpow_gt_0 radix2 65). split; [apply Rmult_le_pos; lra|]. unfold Rdiv. nra. }
  destruct (fdiv_correct a kilo Fa ltac:(lra) Q) as (D1 & D2).
  destruct (IH (fdiv a kilo) D2) as (I1 & I2).
  - rewrite D1. split; [apply RN_ge0; lra|]. apply RN_le_fmt; [apply fmt_bpow; lia|lra].
  - rewrite I1, D1. split; [reflexivity|exact I2].
Qed.

Definition kilo_of (binary : bool) : f64 := f64_of_N (bytes_base binary).
Definition KR (binary : bool) : R := NR (bytes_base binary).

Lemma kilo_correct binary :
  B2R (kilo_of binary) = KR binary /\ is_finite (kilo_of binary) = true /\ 1000 <= KR binary <= 1024.
Proof.
  unfold kilo_of, KR. destruct (f64_of_N_exact (bytes_base binary)) as (A & B); [destruct binary; cbn; lia|].
  split; [exact A|]. split; [exact B|]. destruct binary; unfold bytes_base, NR; simpl; lra.
Qed.

Lemma X_bounds n : (n <= U64MAX)%N -> 0 <= RN (NR n) <= bpow radix2 65.
Proof.
  intros H. split; [apply RN_ge0, NR_ge0|].
  apply Rle_trans with (1 := RN_NR_le64 n H). apply bpow_le. lia.
Qed.

(** the loop test [amount >= kilo] after j divisions, started from [m as f64] *)
Lemma loop_test binary j m : (m <= U64MAX)%N ->
  Bleb (kilo_of binary) (div_iter j (f64_of_N m) (kilo_of binary))
  = Rle_bool (KR binary) (AR j (RN (NR m)) (KR binary)).
Proof.
  intros Hm. destruct (kilo_correct binary) as (K1 & K2 & K3).
  destruct (f64_of_N_correct m Hm) as (M1 & M2 & _).
  destruct (div_iter_correct j (f64_of_N m) (kilo_of binary) M2 K2) as (D1 & D2).
  - rewrite K1. lra.
  - rewrite M1. apply X_bounds, Hm.
  - rewrite (Bleb_correct _ _ _ _ K2 D2), D1, K1, M1. reflexivity.
Qed.

(** powers of two times a 53-bit integer are binary64 numbers *)
Lemma fmt_NR_shift (c e : N) : (c < 2 ^ 53)%N -> fmt (NR (c * 2 ^ e)).
Proof.
  intros Hc. replace (NR (c * 2 ^ e)) with (F2R (Float radix2 (Z.of_N c) (Z.of_N e))).
  - apply fmt_F2R; lia.
  - unfold F2R, NR. cbn [Fnum Fexp]. rewrite <- IZR_Zpower by lia. rewrite <- mult_IZR.
    f_equal. rewrite N2Z.inj_mul, N2Z.inj_pow. reflexivity.
Qed.

Lemma fmt_base_pow binary (k : N) : (k <= 7)%N -> fmt (NR (bytes_base binary ^ k)).
Proof.
  intros Hk. destruct binary; unfold bytes_base.
  - replace (1024 ^ k)%N with (1 * 2 ^ (10 * k))%N.
    + apply fmt_NR_shift. lia.
    + change 1024%N with (2 ^ 10)%N. rewrite <- N.pow_mul_r. lia.
  - replace (1000 ^ k)%N with (5 ^ (3 * k) * 2 ^ (3 * k))%N.
    + apply fmt_NR_shift. apply N.lt_le_trans with (5 ^ 22)%N; [|vm_compute; discriminate].
      apply N.pow_lt_mono_r; lia.
    + rewrite <- N.pow_mul_l. change (5 * 2)%N with 10%N. rewrite N.pow_mul_r. reflexivity.
Qed.

(** [n as f64] is an integer *)
Lemma RN_NR_int n : exists z : Z, RN (NR n) = IZR z /\ (0 <= z)%Z.
Proof.
  assert (forall x, fmt x -> bpow radix2 53 <= x -> exists z : Z, x = IZR z) as BIG.
  { intros x Fx Hx.
    assert (generic_format radix2 (FIX_exp 0) x) as G.
    { apply (generic_inclusion_ge radix2 fexp64 (FIX_exp 0) 53); [| |exact Fx].
      - intros e He. unfold FIX_exp, FLT_exp. lia.
      - pose proof (bpow_gt_0 radix2 53). rewrite Rabs_pos_eq by lra. exact Hx. }
    apply FIX_format_generic in G. destruct G as [[m e] E1 E2]. cbn [Fexp] in E2. subst e.
    exists m. rewrite E1. unfold F2R. cbn [Fnum Fexp bpow]. ring. }
  destruct (N.le_gt_cases n (2 ^ 53)) as [H|H].
  - exists (Z.of_N n). split; [apply RN_id, fmt_NR, H|lia].
  - destruct (BIG (RN (NR n)) (RN_fmt _)) as (z & Ez).
    + apply RN_ge_fmt; [apply fmt_bpow; lia|].
      change (bpow radix2 53) with (IZR (2 ^ 53)). apply IZR_le. lia.
    + exists z. split; [exact Ez|]. apply le_IZR. rewrite <- Ez. apply RN_ge0, NR_ge0.
Qed.

Lemma bytes_x_correct n : (n <= U64MAX)%N -> NR (bytes_x n) = RN (NR n).
Proof.
  intros Hn. destruct (RN_NR_int n) as (z & Ez & Z0).
  destruct (f64_of_N_correct n Hn) as (M1 & _).
  unfold bytes_x. rewrite Btrunc_Ztrunc, M1, Ez, Ztrunc_IZR. unfold NR. rewrite Z2N.id by exact Z0. reflexivity.
Qed.

(** the value that is formatted: n itself up to 2^53, the nearest binary64 number beyond *)
Lemma bytes_x_near n : (n <= U64MAX)%N ->
  (2 ^ 53 * (bytes_x n - n) <= n /\ 2 ^ 53 * (n - bytes_x n) <= n /\ (n <= 2 ^ 53 -> bytes_x n = n))%N.
Proof.
  intros Hn. pose proof (bytes_x_correct n Hn) as E.
  assert (n <= 2 ^ 53 -> bytes_x n = n)%N as EX.
  { intros H. rewrite (RN_id (NR n)) in E by (apply fmt_NR; exact H). apply eq_IZR in E. lia. }
  assert (NR n = 0 \/ bpow radix2 (-1022) <= NR n) as HR.
  { destruct (N.eq_dec n 0) as [->|NZ]; [left; reflexivity|right]. apply tiny_le.
    apply Rle_trans with 1; [lra|]. apply (IZR_le 1). lia. }
  pose proof (RN_rel_bounds (NR n) HR) as [B1 B2]. rewrite <- E, u53_val in B1, B2.
  assert (9007199254740992 * (NR (bytes_x n) - NR n) <= NR n) as C1 by lra.
  assert (9007199254740992 * (NR n - NR (bytes_x n)) <= NR n) as C2 by lra.
  unfold NR in C1, C2. rewrite <- minus_IZR, <- mult_IZR in C1, C2.
  apply le_IZR in C1. apply le_IZR in C2.
  change (2 ^ 53)%N with 9007199254740992%N.
  repeat split; [lia|lia|exact EX].
Qed.

(* ------------------------------------------------------------------ the prefix *)
Lemma Rle_bool_true_inv x y : Rle_bool x y = true -> x <= y.
Proof. destruct (Rle_bool_spec x y); [trivial|discriminate]. Qed.
Lemma Rle_bool_false_inv x y : Rle_bool x y = false -> y < x.
Proof. destruct (Rle_bool_spec x y); [discriminate|trivial]. Qed.

Lemma base_pow_le binary (k : N) : (k <= 6)%N -> (bytes_base binary ^ k <= U64MAX)%N.
Proof.
  intros H. apply N.le_trans with (1024 ^ 6)%N; [|vm_compute; discriminate].
  apply N.le_trans with (bytes_base binary ^ 6)%N.
  - apply N.pow_le_mono_r; [destruct binary; discriminate|exact H].
  - apply N.pow_le_mono_l. destruct binary; cbn; lia.
Qed.

(** the largest binary64 number below base^k, k = 1..6 (10^18 and 2^60 lie in [2^59, 2^60],
    where the binary64 numbers are the multiples of 128) *)
Definition below (binary : bool) (k : nat) : N :=
  if (k =? 6)%nat then bytes_base binary ^ 6 - 128 else bytes_base binary ^ N.of_nat k - 1.

Lemma below_le binary k : (1 <= k <= 6)%nat -> (below binary k <= U64MAX)%N.
Proof.
  intros Hk. unfold below. pose proof (base_pow_le binary (N.of_nat k) ltac:(lia)).
  pose proof (base_pow_le binary 6 ltac:(lia)). destruct (k =? 6)%nat; lia.
Qed.

Lemma fmt_below binary k : (1 <= k <= 6)%nat -> fmt (NR (below binary k)).
Proof.
  intros Hk. unfold below. destruct (k =? 6)%nat eqn:E.
  - destruct binary; unfold bytes_base.
    + change (1024 ^ 6 - 128)%N with ((2 ^ 53 - 1) * 2 ^ 7)%N. apply fmt_NR_shift. lia.
    + change (1000 ^ 6 - 128)%N with (7812499999999999 * 2 ^ 7)%N. apply fmt_NR_shift. lia.
  - apply fmt_NR. apply Nat.eqb_neq in E.
    apply N.le_trans with (1024 ^ 5)%N; [|vm_compute; discriminate].
    apply N.le_trans with (bytes_base binary ^ N.of_nat k)%N; [lia|].
    apply N.le_trans with (bytes_base binary ^ 5)%N.
    + apply N.pow_le_mono_r; [destruct binary; discriminate|lia].
    + apply N.pow_le_mono_l. destruct binary; cbn; lia.
Qed.

(** binary64 numbers from 2^59 on are multiples of 128 *)
Lemma fmt_mult128 x : fmt x -> bpow radix2 59 <= x -> exists m : Z, x = IZR m * 128.
Proof.
  intros Fx Hx.
  assert (generic_format radix2 (FIX_exp 7) x) as G.
  { apply (generic_inclusion_ge radix2 fexp64 (FIX_exp 7) 59); [| |exact Fx].
    - intros e He. unfold FIX_exp, FLT_exp. lia.
    - pose proof (bpow_gt_0 radix2 59). rewrite Rabs_pos_eq by lra. exact Hx. }
  apply FIX_format_generic in G. destruct G as [[m e] E1 E2]. cbn [Fexp] in E2. subst e.
  exists m. rewrite E1. unfold F2R. cbn [Fnum Fexp]. simpl (bpow radix2 7). reflexivity.
Qed.

(** an integer binary64 number below base^k is at most [below k] *)
Lemma below_spec binary k n : (1 <= k <= 6)%nat ->
  RN (NR n) < NR (bytes_base binary ^ N.of_nat k) -> RN (NR n) <= NR (below binary k).
Proof.
  intros Hk H. destruct (RN_NR_int n) as (z & Ez & Z0). unfold below.
  destruct (k =? 6)%nat eqn:E.
  - apply Nat.eqb_eq in E. subst k. change (N.of_nat 6) with 6%N in H.
    destruct (Rlt_or_le (RN (NR n)) (bpow radix2 59)) as [S|B].
    + apply Rlt_le, Rlt_le_trans with (1 := S).
      change (bpow radix2 59) with (NR (2 ^ 59)). apply NR_le. destruct binary; vm_compute; discriminate.
    + destruct (fmt_mult128 _ (RN_fmt (NR n)) B) as (m & Em). rewrite Em in *.
      destruct binary; unfold bytes_base in *.
      * assert (NR (1024 ^ 6) = IZR (2 ^ 53) * 128) as E1
          by (unfold NR; rewrite <- (mult_IZR _ 128); apply f_equal; reflexivity).
        assert (NR (1024 ^ 6 - 128) = IZR (2 ^ 53 - 1) * 128) as E2
          by (unfold NR; rewrite <- (mult_IZR _ 128); apply f_equal; reflexivity).
        rewrite E1 in H. rewrite E2.
        assert (IZR m < IZR (2 ^ 53)) as L by lra. apply lt_IZR in L.
        assert (IZR m <= IZR (2 ^ 53 - 1)) by (apply IZR_le; lia). lra.
      * assert (NR (1000 ^ 6) = IZR 7812500000000000 * 128) as E1
          by (unfold NR; rewrite <- (mult_IZR _ 128); apply f_equal; reflexivity).
        assert (NR (1000 ^ 6 - 128) = IZR 7812499999999999 * 128) as E2
          by (unfold NR; rewrite <- (mult_IZR _ 128); apply f_equal; reflexivity).
        rewrite E1 in H. rewrite E2.
        assert (IZR m < IZR 7812500000000000) as L by lra. apply lt_IZR in L.
        assert (IZR m <= IZR 7812499999999999) by (apply IZR_le; lia). lra.
  - rewrite Ez in *. unfold NR in *. apply lt_IZR in H. apply IZR_le. lia.
Qed.

(** just below base^k the loop stops before the k-th division (k = 1..6): evaluated on
    the six largest arguments, extended to all smaller ones by monotonicity *)
Lemma thr_low binary (k : nat) : (1 <= k <= 6)%nat ->
  AR (k - 1) (NR (below binary k)) (KR binary) < KR binary.
Proof.
  intros Hk. rewrite <- (RN_id (NR (below binary k))) by (apply fmt_below; exact Hk).
  apply Rle_bool_false_inv. rewrite <- loop_test by (apply below_le; exact Hk).
  destruct binary; do 7 (destruct k as [|k]; [try lia; try (vm_compute; reflexivity)|]); lia.
Qed.

(** at base^(k+1) the loop performs the (k+1)-th division (k = 0..5) *)
Lemma thr_high binary (k : nat) : (k <= 5)%nat ->
  KR binary <= AR k (NR (bytes_base binary ^ (N.of_nat k + 1))) (KR binary).
Proof.
  intros Hk. rewrite <- (RN_id (NR _)) by (apply fmt_base_pow; lia).
  apply Rle_bool_true_inv. rewrite <- loop_test by (apply base_pow_le; lia).
  destruct binary; do 6 (destruct k as [|k]; [vm_compute; reflexivity|]); lia.
Qed.

(** u64::MAX as f64 = 2^64 is below base^7: at most six divisions *)
Lemma thr_max binary : AR 6 (RN (NR U64MAX)) (KR binary) < KR binary.
Proof.
  apply Rle_bool_false_inv. rewrite <- loop_test by apply N.le_refl.
  destruct binary; vm_compute; reflexivity.
Qed.

(** the loop of number_prefix on [n as f64]: it performs k <= 6 divisions, and k is the
    LARGEST FITTING PREFIX of the value x = n as f64, exactly (for 1024 and for 1000):
    base^k <= x < base^(k+1) *)
Lemma prefix_exact binary n : (n <= U64MAX)%N ->
  let kilo := kilo_of binary in
  let X := RN (NR n) in
  exists k : nat,
    np_loop 9 (f64_of_N n) kilo 0 = (div_iter k (f64_of_N n) kilo, N.of_nat k)
    /\ (k <= 6)%nat
    /\ (k = 0%nat \/ NR (bytes_base binary ^ N.of_nat k) <= X)
    /\ X < NR (bytes_base binary ^ (N.of_nat k + 1))
    /\ (forall j, (j < k)%nat -> KR binary <= AR j X (KR binary)).
Proof.
  intros Hn kilo X.
  destruct (np_loop_spec 9 (f64_of_N n) kilo 0) as (k & E & _ & C1 & C2); [lia|cbn; lia|].
  rewrite N.add_0_l in *.
  destruct (kilo_correct binary) as (K1 & K2 & K3).
  assert (forall j, (j < k)%nat -> KR binary <= AR j X (KR binary)) as C1'.
  { intros j Hj. apply Rle_bool_true_inv. unfold X. rewrite <- loop_test by exact Hn. apply C1, Hj. }
  assert (k <= 6)%nat as K6.
  { destruct (le_lt_dec k 6) as [L|L]; [exact L|exfalso].
    pose proof (C1' 6%nat L) as A. pose proof (thr_max binary) as B.
    assert (AR 6 X (KR binary) <= AR 6 (RN (NR U64MAX)) (KR binary)) as M.
    { apply AR_mono; [lra|]. apply RN_le, NR_le, Hn. }
    lra. }
  exists k. split; [exact E|]. split; [exact K6|]. split; [|split; [|exact C1']].
  - destruct k as [|k']; [left; reflexivity|right]. set (k := S k') in *.
    destruct (Rle_or_lt (NR (bytes_base binary ^ N.of_nat k)) X) as [L|L]; [exact L|exfalso].
    pose proof (below_spec binary k n ltac:(lia) L) as B.
    pose proof (thr_low binary k ltac:(lia)) as T.
    pose proof (C1' (k - 1)%nat ltac:(lia)) as A.
    assert (AR (k - 1) X (KR binary) <= AR (k - 1) (NR (below binary k)) (KR binary)) as M
      by (apply AR_mono; [lra|exact B]).
    lra.
  - destruct C2 as [C2|C2]; [lia|].
    unfold kilo in C2. rewrite loop_test in C2 by exact Hn. apply Rle_bool_false_inv in C2. fold X in C2.
    destruct (Rlt_or_le X (NR (bytes_base binary ^ (N.of_nat k + 1)))) as [L|L]; [exact L|exfalso].
    destruct (le_lt_dec k 5) as [K5|K5].
    + pose proof (thr_high binary k K5) as T.
      assert (AR k (NR (bytes_base binary ^ (N.of_nat k + 1))) (KR binary) <= AR k X (KR binary)) as M
        by (apply AR_mono; [lra|exact L]).
      lra.
    + assert (k = 6)%nat as -> by lia. change (N.of_nat 6 + 1)%N with 7%N in L.
      pose proof (RN_NR_le64 n Hn) as B. fold X in B. rewrite b64 in B.
      assert (NR (1000 ^ 7) <= NR (bytes_base binary ^ 7)) as P.
      { apply NR_le. apply N.pow_le_mono_l. destruct binary; cbn; lia. }
      assert (NR (1000 ^ 7) = 1000000000000000000000) as P' by (unfold NR; simpl; reflexivity).
      lra.
Qed.

(* ------------------------------------------------------------------ the value *)
Lemma NR_pow b (k : nat) : NR (b ^ N.of_nat k) = NR b ^ k.
Proof.
  induction k as [|k IH]; [reflexivity|].
  rewrite Nat2N.inj_succ, N.pow_succ_r', NR_mul, IH. reflexivity.
Qed.

(** division by 1024 is exact (no underflow: the amounts are >= 1024) *)
Lemma AR_exact_1024 j x :
  fmt x -> (forall i, (i < j)%nat -> 1024 <= AR i x 1024) -> AR j x 1024 = x / 1024 ^ j.
Proof.
  revert x. induction j as [|j IH]; intros x Fx C; [cbn [AR pow]; field|].
  pose proof (C 0%nat ltac:(lia)) as C0. cbn [AR] in C0.
  assert (RN (x / 1024) = x / 1024) as E.
  { apply RN_id. replace (x / 1024) with (x * bpow radix2 (-10)) by (simpl; lra).
    apply mult_bpow_exact_FLT; [exact Fx|].
    assert (11 <= mag radix2 x)%Z.
    { apply mag_ge_bpow. rewrite Rabs_pos_eq by lra. simpl. lra. }
    lia. }
  cbn [AR pow]. rewrite E. rewrite IH.
  - field. apply pow_nonzero. lra.
  - rewrite <- E. apply RN_fmt.
  - intros i Hi. specialize (C (S i) ltac:(lia)). cbn [AR] in C. rewrite E in C. exact C.
Qed.

(** k rounded divisions: within (1 +- 2^-53)^k of the exact quotient *)
Lemma AR_sandwich j x K :
  1 <= K -> (forall i, (i < j)%nat -> K <= AR i x K) ->
  (1 - u53) ^ j * (x / K ^ j) <= AR j x K <= (1 + u53) ^ j * (x / K ^ j).
Proof.
  intros HK. revert x. induction j as [|j IH]; intros x C; [cbn [AR pow]; lra|].
  pose proof (C 0%nat ltac:(lia)) as C0. cbn [AR] in C0.
  pose proof u53_bounds as UB.
  assert (0 < / K) as IK by (apply Rinv_0_lt_compat; lra).
  assert (1 <= x / K) as Q1.
  { unfold Rdiv. apply Rmult_le_reg_r with K; [lra|]. rewrite Rmult_assoc, Rinv_l by lra. lra. }
  assert (x / K = 0 \/ bpow radix2 (-1022) <= x / K) as HQ by (right; apply tiny_le; lra).
  pose proof (RN_rel_bounds (x / K) HQ) as [R1 R2].
  specialize (IH (RN (x / K))). destruct IH as [I1 I2].
  { intros i Hi. specialize (C (S i) ltac:(lia)). exact C. }
  cbn [AR].
  assert (0 < K ^ j) as PK by (apply pow_lt; lra).
  assert (0 < / K ^ j) as IPK by (apply Rinv_0_lt_compat; exact PK).
  assert (0 <= (1 - u53) ^ j) as P1 by (apply pow_le; lra).
  assert (0 <= (1 + u53) ^ j) as P2 by (apply pow_le; lra).
  split.
  - apply Rle_trans with (2 := I1). cbn [pow].
    replace ((1 - u53) * (1 - u53) ^ j * (x / (K * K ^ j)))
      with ((1 - u53) ^ j * (((1 - u53) * (x / K)) / K ^ j)) by (field; lra).
    apply Rmult_le_compat_l; [exact P1|]. unfold Rdiv at 1 3. apply Rmult_le_compat_r; lra.
  - apply Rle_trans with (1 := I2). cbn [pow].
    replace ((1 + u53) * (1 + u53) ^ j * (x / (K * K ^ j)))
      with ((1 + u53) ^ j * (((1 + u53) * (x / K)) / K ^ j)) by (field; lra).
    apply Rmult_le_compat_l; [exact P2|]. unfold Rdiv at 1 3. apply Rmult_le_compat_r; lra.
Qed.

Lemma pow_u53_bounds j : (j <= 6)%nat -> 1 - 7 * u53 <= (1 - u53) ^ j /\ (1 + u53) ^ j <= 1 + 7 * u53.
Proof.
  intros H. rewrite u53_val.
  do 7 (destruct j as [|j]; [cbn [pow]; lra|]). lia.
Qed.

(* ------------------------------------------------------------------ the printed digits *)
(** [scaled m e p] is the value m 2^e 10^p rounded to the nearest integer, ties to even *)
Lemma scaled_R m e p :
  let W := IZR (Zpos m) * bpow radix2 e * NR (10 ^ p) in
  let q := scaled m e p in
  Rabs (NR q - W) <= / 2 /\ ((NR q - W = / 2 \/ W - NR q = / 2) -> N.even q = true).
Proof.
  intros W q. pose proof (scaled_spec m e p) as S. cbv zeta in S. fold q in S.
  assert (IZR (Zpos m) = NR (Npos m)) as Em by reflexivity.
  destruct e as [|k|k].
  - assert (NR q = W) as E.
    { unfold W. rewrite S, NR_mul, Em. simpl (bpow radix2 0). ring. }
    rewrite E. replace (W - W) with 0 by ring. rewrite Rabs_R0. split; [lra|]. intros [H|H]; lra.
  - assert (NR q = W) as E.
    { unfold W. rewrite S, !NR_mul, Em. rewrite <- IZR_Zpower by lia.
      replace (NR (2 ^ N.pos k)) with (IZR (radix2 ^ Z.pos k)); [ring|].
      unfold NR. f_equal. rewrite N2Z.inj_pow. reflexivity. }
    rewrite E. replace (W - W) with 0 by ring. rewrite Rabs_R0. split; [lra|]. intros [H|H]; lra.
  - destruct S as (S1 & S2 & S3).
    set (b := (2 ^ N.pos k)%N) in *. set (a := (N.pos m * 10 ^ p)%N) in *.
    assert (0 < NR b) as Bp.
    { apply (IZR_lt 0). unfold b. pose proof (N.pow_nonzero 2 (N.pos k) ltac:(discriminate)). lia. }
    assert (bpow radix2 (Z.neg k) = / NR b) as Eb.
    { change (Z.neg k) with (- Z.pos k)%Z. rewrite bpow_opp. f_equal.
      rewrite <- IZR_Zpower by lia. unfold NR, b. f_equal. rewrite N2Z.inj_pow. reflexivity. }
    assert (W = NR a / NR b) as EW.
    { unfold W, a. rewrite Eb, NR_mul, Em. field. lra. }
    apply NR_le in S1. apply NR_le in S2.
    rewrite ?NR_add, ?NR_mul in S1, S2. change (NR 2) with 2 in S1, S2.
    assert (0 < / NR b) as IB by (apply Rinv_0_lt_compat; exact Bp).
    assert (NR q - W = (NR q * NR b - NR a) * / NR b) as D by (rewrite EW; field; lra).
    assert ((NR b / 2) * / NR b = / 2) as H2 by (field; lra).
    split.
    + rewrite D. apply Rabs_le. split.
      * replace (- / 2) with ((- (NR b / 2)) * / NR b) by (rewrite <- H2; ring).
        apply Rmult_le_compat_r; lra.
      * rewrite <- H2. apply Rmult_le_compat_r; lra.
    + intros T. apply S3.
      assert (forall y, y * / NR b = / 2 -> y = NR b / 2) as INV.
      { intros y Hy. apply Rmult_eq_reg_r with (/ NR b); [|lra]. rewrite Hy, H2. reflexivity. }
      destruct T as [T|T].
      * left. rewrite D in T. apply INV in T.
        assert (NR (2 * (q * b)) = NR (2 * a + b)) as E
          by (rewrite ?NR_add, ?NR_mul; change (NR 2) with 2; lra).
        apply eq_IZR in E. lia.
      * right. assert ((NR a - NR q * NR b) * / NR b = / 2) as T' by (rewrite <- T, EW; field; lra).
        apply INV in T'.
        assert (NR (2 * a) = NR (2 * (q * b) + b)) as E
          by (rewrite ?NR_add, ?NR_mul; change (NR 2) with 2; lra).
        apply eq_IZR in E. lia.
Qed.

(** a finite positive binary64 datum is printed through [scaled] of its mantissa / exponent *)
Lemma B2SF_pos (v : f64) : is_finite v = true -> 0 < B2R v ->
  exists m e, B2SF v = S754_finite false m e /\ B2R v = IZR (Zpos m) * bpow radix2 e.
Proof.
  intros Fv Pv. destruct v as [s|s| |s m e He]; try discriminate Fv.
  - cbn [B2R] in Pv. lra.
  - destruct s.
    + exfalso. assert (B2R (B754_finite true m e He) < 0) as L
        by (cbn [B2R]; apply F2R_lt_0; simpl; reflexivity). lra.
    + exists m, e. split; [reflexivity|]. cbn [B2R]. unfold F2R. reflexivity.
Qed.

(* ------------------------------------------------------------------ assembling the output *)
Lemma NR_le_inv a b : NR a <= NR b -> (a <= b)%N.
Proof. intros H. apply le_IZR in H. lia. Qed.
Lemma NR_lt_inv a b : NR a < NR b -> (a < b)%N.
Proof. intros H. apply lt_IZR in H. lia. Qed.
Lemma NR_eq_inv a b : NR a = NR b -> a = b.
Proof. intros H. apply eq_IZR in H. lia. Qed.

(** plain bytes: below the base the amount is n itself and [{:.0}] prints the numeral of n *)
Lemma fmt_fixed0_small n : (n < 1024)%N -> fmt_fixed 0 (B2SF (f64_of_N n)) = dec n.
Proof.
  intros Hn. destruct (f64_of_N_exact n) as (E & F); [lia|].
  destruct (N.eq_dec n 0) as [->|NZ]; [vm_compute; reflexivity|].
  assert (0 < B2R (f64_of_N n)) as P by (rewrite E; apply (IZR_lt 0); lia).
  destruct (B2SF_pos _ F P) as (m & e & S1 & S2). rewrite S1. cbn [fmt_fixed sign_str app].
  destruct (scaled_R m e 0) as (Q & _). rewrite <- S2, E in Q.
  change (NR (10 ^ 0)) with 1 in Q. rewrite Rmult_1_r in Q.
  assert (scaled m e 0 = n) as ->.
  { unfold NR in Q. rewrite <- minus_IZR in Q. apply Rabs_le_inv in Q.
    assert (IZR (-1) < IZR (Z.of_N (scaled m e 0) - Z.of_N n) < IZR 1) as [A B] by (simpl; lra).
    apply lt_IZR in A. apply lt_IZR in B. lia. }
  rewrite fixed_digits_spec. change (10 ^ 0)%N with 1%N. rewrite N.div_1_r. cbn [N.eqb]. apply app_nil_r.
Qed.

Lemma sym_lookup (binary : bool) (k : nat) : (1 <= k <= 6)%nat ->
  nth_error (if binary then SYM_BINARY else SYM_DECIMAL) (N.to_nat (N.of_nat k - 1)%N) = Some (bytes_sym binary k).
Proof.
  intros H. destruct binary; do 7 (destruct k as [|k]; [try lia; try reflexivity|]); lia.
Qed.

(** HumanBytes / BinaryBytes (binary = true) and DecimalBytes (binary = false) for every u64:
    the value x = n as f64, k = the largest fitting prefix of x (exactly), k <= 6; plain bytes
    print the whole number n; otherwise "<q/100 with two decimals> <prefix>B" where q is
    x / base^k in hundredths rounded to nearest - exactly (ties to even) for 1024, up to
    2^-32 of a hundredth for 1000 (k rounded divisions) *)
Theorem bytes_shape binary n : (n <= U64MAX)%N ->
  let b := bytes_base binary in
  let x := bytes_x n in
  exists (k : nat) (q : N),
    (k <= 6)%nat
    /\ (k = 0%nat \/ b ^ N.of_nat k <= x)%N /\ (x < b ^ (N.of_nat k + 1))%N
    /\ bytes_fmt binary n =
         Ok (if (k =? 0)%nat then dec n ++ str " B"
             else fixed_digits 2 q ++ [CH_SP] ++ str (bytes_sym binary k) ++ str "B")
    /\ (k = 0%nat -> x = n)
    /\ ((0 < k)%nat -> hundredths_approx q x (b ^ N.of_nat k) /\ (100 <= q <= 100 * b)%N)
    /\ ((0 < k)%nat -> binary = true -> hundredths_exact q x (b ^ N.of_nat k)).
Proof.
  intros Hn b x.
  destruct (prefix_exact binary n Hn) as (k & E & K6 & Lo & Hi & C). cbv zeta in E, Lo, Hi, C.
  pose proof (bytes_x_correct n Hn) as EX. fold x in EX. rewrite <- EX in Lo, Hi, C.
  fold b in Lo, Hi.
  destruct (kilo_correct binary) as (K1 & K2 & K3).
  destruct (f64_of_N_correct n Hn) as (M1 & M2 & M3). rewrite <- EX in M1.
  assert (bytes_fmt binary n =
          if (N.of_nat k =? 0)%N then Ok (fmt_fixed 0 (B2SF (div_iter k (f64_of_N n) (kilo_of binary))) ++ str " B")
          else match nth_error (if binary then SYM_BINARY else SYM_DECIMAL) (N.to_nat (N.of_nat k - 1)%N) with
               | None => Panic 5
               | Some sym => Ok (fmt_fixed 2 (B2SF (div_iter k (f64_of_N n) (kilo_of binary))) ++ [CH_SP] ++ str sym ++ str "B")
               end) as BF.
  { unfold bytes_fmt, number_prefix. rewrite M3.
    change (f64_of_N (if binary then 1024%N else 1000%N)) with (kilo_of binary). rewrite E. reflexivity. }
  destruct k as [|k'].
  - (* plain bytes *)
    exists 0%nat, 0%N. change (N.of_nat 0 + 1)%N with 1%N in Hi. rewrite N.pow_1_r in Hi.
    apply NR_lt_inv in Hi.
    assert (n < b)%N as Nb.
    { destruct (N.lt_ge_cases n b) as [L|L]; [exact L|exfalso].
      assert (NR b <= NR x) as A.
      { rewrite EX. apply RN_ge_fmt; [apply fmt_NR; subst b; destruct binary; cbn; lia|apply NR_le, L]. }
      apply NR_le_inv in A. lia. }
    assert (n < 1024)%N as N1024 by (subst b; destruct binary; cbn in Nb; lia).
    assert (x = n) as Exn.
    { apply NR_eq_inv. rewrite EX. apply RN_id, fmt_NR. lia. }
    split; [lia|]. split; [left; reflexivity|]. split; [rewrite N.pow_1_r; exact Hi|].
    split; [|split; [intros _; exact Exn|split; intros; lia]].
    rewrite BF. cbn [N.of_nat N.eqb div_iter Nat.eqb]. rewrite (fmt_fixed0_small n N1024). reflexivity.
  - (* a prefix *)
    set (k := S k') in *. destruct Lo as [Lo|Lo]; [discriminate Lo|].
    assert (0 <= NR x <= bpow radix2 65) as XB by (rewrite EX; apply X_bounds, Hn).
    destruct (div_iter_correct k (f64_of_N n) (kilo_of binary) M2 K2) as (D1 & D2);
      [rewrite K1; lra|rewrite M1; exact XB|].
    rewrite M1, K1 in D1.
    set (K := KR binary) in *. set (X := NR x) in *. set (v := div_iter k (f64_of_N n) (kilo_of binary)) in *.
    assert (NR (b ^ N.of_nat k) = K ^ k) as EP by (apply NR_pow).
    assert (NR (b ^ (N.of_nat k + 1)) = K * K ^ k) as EP1.
    { rewrite N.add_1_r, N.pow_succ_r', NR_mul, EP. reflexivity. }
    rewrite EP in Lo. rewrite EP1 in Hi.
    assert (0 < K ^ k) as PK by (apply pow_lt; lra).
    set (P := K ^ k) in *. set (Y := X / P).
    assert (Y * P = X) as YP by (unfold Y; field; lra).
    assert (1 <= Y) as Y1.
    { unfold Y, Rdiv. apply Rmult_le_reg_r with P; [exact PK|]. rewrite Rmult_assoc, Rinv_l by lra. lra. }
    assert (Y < K) as YK.
    { unfold Y, Rdiv. apply Rmult_lt_reg_r with P; [exact PK|]. rewrite Rmult_assoc, Rinv_l by lra. lra. }
    destruct (AR_sandwich k X K ltac:(lra) C) as [S1 S2]. fold P in S1, S2. fold Y in S1, S2.
    destruct (pow_u53_bounds k K6) as [U1 U2]. pose proof u53_bounds as UB.
    assert ((1 - 7 * u53) * Y <= B2R v <= (1 + 7 * u53) * Y) as SV.
    { rewrite D1. split.
      - apply Rle_trans with (2 := S1). apply Rmult_le_compat_r; lra.
      - apply Rle_trans with (1 := S2). apply Rmult_le_compat_r; lra. }
    assert (0 < B2R v) as Pv by (rewrite u53_val in SV; lra).
    destruct (B2SF_pos v D2 Pv) as (m & e & F1 & F2).
    destruct (scaled_R m e 2) as (Q1 & Q2). rewrite <- F2 in Q1, Q2.
    change (NR (10 ^ 2)) with 100 in Q1, Q2.
    set (q := scaled m e 2) in *.
    exists k, q. split; [exact K6|].
    split; [right; apply NR_le_inv; rewrite EP; exact Lo|].
    split; [apply NR_lt_inv; rewrite EP1; exact Hi|].
    split.
    { rewrite BF. change (N.of_nat k =? 0)%N with false. cbv iota.
      rewrite (sym_lookup binary k ltac:(lia)). rewrite F1. reflexivity. }
    split; [intros H; discriminate H|].
    apply Rabs_le_inv in Q1.
    assert (- (/ 2 + / 4294967296) <= NR q - 100 * Y <= / 2 + / 4294967296) as QA.
    { rewrite u53_val in SV. lra. }
    split; [|].
    + intros _. split.
      * (* within 2^-32 of a hundredth *)
        destruct QA as [QA1 QA2].
        apply (Rmult_le_compat_r P) in QA1; [|lra]. apply (Rmult_le_compat_r P) in QA2; [|lra].
        replace ((NR q - 100 * Y) * P) with (NR q * P - 100 * X) in QA1, QA2 by (rewrite <- YP; ring).
        unfold hundredths_approx. split; apply NR_le_inv;
          rewrite ?NR_add, ?NR_mul, EP; fold P; fold X;
          change (NR (2 ^ 32)) with 4294967296; change (NR (2 ^ 31 + 1)) with 2147483649; change (NR 100) with 100; lra.
      * assert (NR 99 < NR q) as A by (change (NR 99) with 99; lra).
        assert (NR q < NR (100 * b + 1)) as B.
        { rewrite NR_add, NR_mul. change (NR 100) with 100. change (NR 1) with 1. change (NR b) with K. lra. }
        apply NR_lt_inv in A. apply NR_lt_inv in B. lia.
    + (* 1024: every division is exact *)
      intros _ Hb. subst binary.
      assert (K = 1024) as EK by (unfold K, KR, bytes_base, NR; simpl; lra).
      assert (B2R v = Y) as EV.
      { rewrite D1. unfold Y, P. rewrite EK. apply AR_exact_1024.
        - pose proof (RN_fmt (NR n)) as FX. rewrite <- EX in FX. exact FX.
        - intros i Hi'. rewrite <- EK. apply C, Hi'. }
      rewrite EV in Q1, Q2. destruct Q1 as [QA1 QA2].
      apply (Rmult_le_compat_r P) in QA1; [|lra]. apply (Rmult_le_compat_r P) in QA2; [|lra].
      replace ((NR q - Y * 100) * P) with (NR q * P - 100 * X) in QA1, QA2 by (rewrite <- YP; ring).
      unfold hundredths_exact. split; [|split].
      * apply NR_le_inv. rewrite ?NR_add, ?NR_mul, EP. fold P; fold X.
        change (NR 2) with 2; change (NR 200) with 200. lra.
      * apply NR_le_inv. rewrite ?NR_add, ?NR_mul, EP. fold P; fold X.
        change (NR 2) with 2; change (NR 200) with 200. lra.
      * intros T. apply Q2.
        assert (forall y, y * P = P / 2 -> y = / 2) as INV.
        { intros y Hy. apply Rmult_eq_reg_r with P; [|lra]. rewrite Hy. field. }
        destruct T as [T|T]; apply (f_equal NR) in T; rewrite ?NR_add, ?NR_mul, EP in T;
          fold P in T; fold X in T; change (NR 2) with 2 in T; change (NR 200) with 200 in T.
        -- left. apply INV. rewrite <- YP in T. lra.
        -- right. apply INV. rewrite <- YP in T. lra.
Qed.
