(** The generated STRUCTURED programs (gen/LockFootprints.all_programs, regenerated from /repo/src on
    every run): on every path, every public call has at most the documented number of top-level
    critical sections over the bar mutex / the MultiState lock. *)
From Coq Require Import List String Bool Arith Lia.
From IndModel Require Import Base Locks Brackets.
From IndGen Require Import LockFootprints.
From IndProofs Require Import LocksProofs.
Import ListNotations.

Lemma st_eqb_eq : forall x y : nat * nat, st_eqb x y = true -> x = y.
Proof.
  intros [a b] [c d] H. unfold st_eqb in H. simpl in H. apply andb_prop in H. destruct H as [H1 H2].
  apply Nat.eqb_eq in H1. apply Nat.eqb_eq in H2. subst. reflexivity.
Qed.

(** the concrete run of [sec_step] counts exactly [sections_from] *)
Lemma arun_sec : forall tr d n st, arun sec_step (d, n) tr = Some st -> snd st = (n + sections_from d tr)%nat.
Proof.
  induction tr as [|a tr IH]; intros d n st H; simpl in H.
  - injection H as <-. simpl. lia.
  - destruct a as [c|c|c| | | | | | | | ]; simpl in H |- *; try (apply IH; exact H).
    + destruct (state_lock c); [|apply IH; exact H].
      rewrite (IH _ _ _ H). destruct d; lia.
    + destruct (state_lock c); apply IH; exact H.
Qed.

Lemma fold_max_ge : forall (outs : list (nat * nat)) st, In st outs ->
  (snd st <= fold_right (fun st m => Nat.max (snd st) m) 0 outs)%nat.
Proof.
  induction outs as [|x r IH]; intros st H; [contradiction|]. simpl.
  destruct H as [->|H]; [lia|]. specialize (IH st H). lia.
Qed.

(** soundness: every path of [p] has at most [max_sections p] top-level critical sections *)
Theorem max_sections_sound : forall p k, max_sections p = Some k ->
  forall tr, paths p tr -> (sections tr <= k)%nat.
Proof.
  intros p k H tr Hp. unfold max_sections in H.
  destruct (acheck st_eqb sec_step p [(0, 0)%nat]) as [outs|] eqn:E; [|discriminate]. injection H as <-.
  destruct (acheck_sound (nat * nat) st_eqb st_eqb_eq sec_step p [(0, 0)%nat] outs E (0, 0)%nat tr
              (or_introl eq_refl) Hp) as (st & R & I).
  pose proof (arun_sec tr 0 0 st R) as Hs. simpl in Hs. unfold sections. rewrite <- Hs.
  apply fold_max_ge. exact I.
Qed.

Lemma generated_brackets_p_ok : forallb bracket_ok_p all_programs = true.
Proof. vm_compute. reflexivity. Qed.

(** every path of every generated program (for the ticker program: every path of one iteration of its
    loop) has at most [allowed_sections name] critical sections *)
Theorem generated_brackets_paths : forall name p,
  In (name, p) all_programs ->
  forall tr, paths (match p with PLoop b => b | _ => p end) tr ->
  (sections tr <= allowed_sections name)%nat.
Proof.
  intros name p Hin tr Hp.
  pose proof (proj1 (forallb_forall bracket_ok_p all_programs) generated_brackets_p_ok (name, p) Hin) as H.
  unfold bracket_ok_p in H. cbn [fst snd] in H.
  set (q := match p with PLoop b => b | _ => p end) in *.
  assert (G : exists k, max_sections q = Some k /\ (k <= allowed_sections name)%nat).
  { assert (H' : match max_sections q with Some k => Nat.leb k (allowed_sections name) | None => false end = true)
      by (subst q; destruct p; exact H).
    destruct (max_sections q) as [k|]; [|discriminate]. exists k. split; [reflexivity|apply Nat.leb_le; exact H']. }
  destruct G as (k & E & Hk). pose proof (max_sections_sound _ k E tr Hp). lia.
Qed.

(* the table is not trivial: remove is one bracket on both of its paths, the sections counter counts *)
Lemma generated_brackets_nonvacuous :
  (exists p, pg_lookup "MultiProgress::remove"%string all_programs = Some p /\
             max_sections p = Some 1%nat /\
             paths p [CAcq CBar; CAcq CMulti; CRel CMulti; CRel CBar] /\ paths p [CAcq CBar; CRel CBar])
  /\ sections [CAcq CBar; CAcq CMulti; CRel CMulti; CRel CBar] = 1%nat
  /\ sections [CAcq CBar; CRel CBar; CAcq CMulti; CRel CMulti; CAcq CBar; CRel CBar] = 3%nat.
Proof.
  split; [|split; reflexivity].
  destruct (pg_lookup "MultiProgress::remove"%string all_programs) as [p|] eqn:E; [|vm_compute in E; discriminate].
  exists p. split; [reflexivity|]. vm_compute in E. injection E as <-.
  split; [vm_compute; reflexivity|]. split.
  - match goal with |- paths ?P ?T => change T with (path_of 0%nat P [0%nat]) end.
    apply path_of_paths. vm_compute. discriminate.
  - match goal with |- paths ?P ?T => change T with (path_of 0%nat P [1%nat]) end.
    apply path_of_paths. vm_compute. discriminate.
Qed.
