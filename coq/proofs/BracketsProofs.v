(** The generated lock-footprint table (gen/LockFootprints.v, regenerated from /repo/src on every
    run) has at most the documented number of critical sections per public call. *)
From Coq Require Import List String Bool Arith Lia.
From IndModel Require Import Base Locks Brackets.
From IndGen Require Import LockFootprints.
Import ListNotations.

Lemma generated_brackets_ok : forallb bracket_ok all_footprints = true.
Proof. vm_compute. reflexivity. Qed.

Lemma generated_brackets : forall name fp,
  In (name, fp) all_footprints -> (sections fp <= allowed_sections name)%nat.
Proof.
  intros name fp Hin.
  pose proof (proj1 (forallb_forall bracket_ok all_footprints) generated_brackets_ok (name, fp) Hin) as H.
  unfold bracket_ok in H. cbn [fst snd] in H. apply Nat.leb_le. exact H.
Qed.

(* the table is not trivial: it contains remove / println / a bar update with their brackets *)
Lemma generated_brackets_nonvacuous :
  In ("MultiProgress::remove"%string, [CAcq CBar; CAcq CMulti; CRel CMulti; CRel CBar]) all_footprints
  /\ sections [CAcq CBar; CAcq CMulti; CRel CMulti; CRel CBar] = 1%nat
  /\ sections [CAcq CBar; CRel CBar; CAcq CMulti; CRel CMulti; CAcq CBar; CRel CBar] = 3%nat.
Proof. split; [vm_compute; tauto | split; reflexivity]. Qed.
