(** C05 – MultiProgress members on model/Sys.v: what a position update refused by the member's OWN
    position limiter (a "silent change", model/MultiLatest.v) does to the bar: it stores the new
    position and the limiter state, and nothing else - length, message, prefix, template, status
    and tick count keep their values, and nothing is written to the terminal.  Together with
    C02_logic_change (the only calls that change a bar's logic state without a draw step are
    set_style and these refused position updates) and C05_nothing_lost (a frame shows every
    member's state at its most recent draw step) this is why an out-of-sync member can be stale
    in the POSITION only (finding D27), never in length / message / prefix. *)
From IndModel Require Import MultiSpec MultiLatest.
From IndProofs Require Import MultiProofs.
From Coq Require Import Lia.
Arguments nthN {A} l i d : simpl never.

(* nth of updN in general *)
Lemma nth_updN {A} (l : list A) : forall i j f d, 
  nth j (updN l i f) d = if Nat.eqb j i then (if Nat.ltb j (length l) then f (nth j l d) else nth j l d) else nth j l d.
Proof.
  induction l as [|x r IH]; intros i j f d.
  - cbn [updN length]. destruct (Nat.eqb j i); destruct j; reflexivity.
  - destruct i, j; cbn [updN nth Nat.eqb length]; try reflexivity.
    rewrite IH. destruct (Nat.eqb j i); [|reflexivity]. 
    change (Nat.ltb (S j) (S (length r))) with (Nat.ltb j (length r)). reflexivity.
Qed.

Theorem silent_pos_keeps (W H : N) (fails : N -> bool) (s : sys) (now : N) (o : op) (x : N) :
  match o with OInc _ _ | ODec _ _ | OSetPos _ _ => True | _ => False end ->
  silent_change s now o x = true ->
  let y := get_bar s x in let y' := get_bar (step_sys W H fails s now o) x in
  b_len y' = b_len y /\ b_msg y' = b_msg y /\ b_prefix y' = b_prefix y /\ b_tmpl y' = b_tmpl y
  /\ b_status y' = b_status y /\ b_tick y' = b_tick y /\ step_out W H fails s now o = [].
Proof.
  intros Ho Hs. cbv zeta.
  assert (Hgen : forall b f, N.eqb b x && negb (fst (ap_allow (b_ap (get_bar s b)) now)) = true ->
    let r := bar_pos_update W H fails s b f now in
    let y := get_bar s x in let y' := get_bar (fst r) x in
    b_len y' = b_len y /\ b_msg y' = b_msg y /\ b_prefix y' = b_prefix y /\ b_tmpl y' = b_tmpl y
    /\ b_status y' = b_status y /\ b_tick y' = b_tick y /\ snd r = []).
  { intros b f Hb. apply andb_true_iff in Hb. destruct Hb as [Hbx Hna]. apply N.eqb_eq in Hbx. subst b.
    cbv zeta. unfold bar_pos_update.
    assert (Hap : b_ap (get_bar (upd_bar s x (fun x0 => set_b_pos x0 (f (b_pos x0)))) x) = b_ap (get_bar s x)).
    { unfold get_bar, upd_bar, nthN. cbn [s_bars set_s_bars]. rewrite nth_updN. rewrite Nat.eqb_refl.
      destruct (Nat.ltb _ _); reflexivity. }
    rewrite Hap. destruct (ap_allow (b_ap (get_bar s x)) now) as [a ap'] eqn:E. cbn [fst] in Hna.
    destruct a; [discriminate|]. cbn [fst snd].
    unfold get_bar, upd_bar, nthN. cbn [s_bars set_s_bars]. rewrite !nth_updN, Nat.eqb_refl.
    rewrite updN_length.
    destruct (Nat.ltb _ _); repeat split; reflexivity. }
  unfold step_sys, step_out, silent_change in *.
  destruct o; try contradiction; cbn [step fst snd]; apply Hgen; exact Hs.
Qed.
