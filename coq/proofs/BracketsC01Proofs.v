(** C01: every call of the single-bar alphabet is ONE outermost critical section over the bar mutex
    on every path of its generated structured program (gen/LockFootprints.all_programs, regenerated
    from /repo/src on every run), with every marked state access and every callback - in particular
    the closure of ProgressBar::suspend - inside it.  This is what justifies the model's "each call
    is one atomic step" when other threads hold clones of the handle. *)
From Coq Require Import List String Bool Arith Lia.
From IndModel Require Import Base Locks Brackets Sys SingleBar BracketsC01.
From IndGen Require Import LockFootprints.
From IndProofs Require Import LocksProofs BracketsProofs.
Import ListNotations.

(** the concrete run of [bar_step] = the two trace predicates *)
Lemma arun_bar : forall tr d n st, arun bar_step (d, n) tr = Some st ->
  snd st = (n + bar_sections_from d tr)%nat /\
  (fst st = 0%nat -> inside_bar_from d tr = true).
Proof.
  induction tr as [|a tr IH]; intros d n st H; simpl in H.
  - injection H as <-. simpl. split; [lia|]. intros ->. reflexivity.
  - destruct a as [c|c|c| | | | | | | | ]; simpl in H |- *;
      try (destruct c); simpl in H |- *;
      try (apply IH; exact H); try discriminate;
      try (destruct d; [discriminate|apply IH; exact H]).
    destruct (IH _ _ _ H) as [E I]. split; [|exact I]. rewrite E. destruct d; lia.
Qed.

Lemma arun_own : forall tr o st, arun own_step o tr = Some st -> owned_access_from o tr = true.
Proof.
  induction tr as [|a tr IH]; intros o st H; simpl in H |- *; [reflexivity|].
  destruct a as [c|c|c| | | | | | | | ]; simpl in H |- *;
    try (destruct c); simpl in H |- *;
    try (eapply IH; exact H); try discriminate;
    destruct o; simpl in H |- *; try discriminate; eapply IH; exact H.
Qed.

Theorem one_bar_section_sound : forall p, one_bar_section p = true ->
  forall tr, paths p tr -> (bar_sections tr <= 1)%nat /\ inside_bar tr = true.
Proof.
  intros p H tr Hp. unfold one_bar_section in H.
  destruct (acheck st_eqb bar_step p [(0, 0)%nat]) as [outs|] eqn:E; [|discriminate].
  destruct (acheck_sound (nat * nat) st_eqb st_eqb_eq bar_step p [(0, 0)%nat] outs E (0, 0)%nat tr
              (or_introl eq_refl) Hp) as (st & R & I).
  rewrite forallb_forall in H. specialize (H st I). apply andb_prop in H. destruct H as [H0 H1].
  apply Nat.eqb_eq in H0. apply Nat.leb_le in H1.
  destruct (arun_bar tr 0 0 st R) as [Es Ei]. unfold bar_sections, inside_bar.
  split; [simpl in Es; lia|exact (Ei H0)].
Qed.

Theorem just_one_bar_section_sound : forall p, just_one_bar_section p = true ->
  forall tr, paths p tr -> bar_sections tr = 1%nat /\ inside_bar tr = true.
Proof.
  intros p H tr Hp. unfold just_one_bar_section in H.
  destruct (acheck st_eqb bar_step p [(0, 0)%nat]) as [outs|] eqn:E; [|discriminate].
  destruct (acheck_sound (nat * nat) st_eqb st_eqb_eq bar_step p [(0, 0)%nat] outs E (0, 0)%nat tr
              (or_introl eq_refl) Hp) as (st & R & I).
  rewrite forallb_forall in H. specialize (H st I). apply andb_prop in H. destruct H as [H0 H1].
  apply Nat.eqb_eq in H0. apply Nat.eqb_eq in H1.
  destruct (arun_bar tr 0 0 st R) as [Es Ei]. unfold bar_sections, inside_bar.
  split; [simpl in Es; lia|exact (Ei H0)].
Qed.

Theorem drop_owned_sound : forall p, drop_owned p = true ->
  forall tr, paths p tr -> owned_access tr = true.
Proof.
  intros p H tr Hp. unfold drop_owned in H.
  destruct (acheck Bool.eqb own_step p [false]) as [outs|] eqn:E; [|discriminate].
  destruct (acheck_sound bool Bool.eqb (fun x y => proj1 (Bool.eqb_true_iff x y)) own_step p [false] outs E
              false tr (or_introl eq_refl) Hp) as (s' & R & _).
  exact (arun_own tr false s' R).
Qed.

Lemma c01_call_in : forall o, c01_op o = true -> exists name, c01_call o = Some name /\ In name c01_calls.
Proof.
  intros o H. destruct o; try discriminate H;
    try (eexists; split; [reflexivity|simpl; tauto]).
  destruct k; eexists; (split; [reflexivity|simpl; tauto]).
Qed.

Lemma generated_c01_calls_ok : forallb (c01_call_okb all_programs) c01_calls = true.
Proof. vm_compute. reflexivity. Qed.

(** the trace-level statement for one call of the alphabet *)
Definition c01_atomic (name : string) (tr : list caction) : Prop :=
  if String.eqb name "ProgressBar::drop"
  then owned_access tr = true /\ (sections tr <= allowed_sections name)%nat
  else if c01_may_skip name
  then (bar_sections tr <= 1)%nat /\ inside_bar tr = true
  else bar_sections tr = 1%nat /\ inside_bar tr = true.

Theorem c01_calls_atomic : forall o, c01_op o = true ->
  exists name p, c01_call o = Some name /\ pg_lookup name all_programs = Some p /\
    forall tr, paths p tr -> c01_atomic name tr.
Proof.
  intros o Ho. destruct (c01_call_in o Ho) as (name & Ec & Hin).
  pose proof (proj1 (forallb_forall _ _) generated_c01_calls_ok name Hin) as H.
  unfold c01_call_okb in H. destruct (pg_lookup name all_programs) as [p|] eqn:El; [|discriminate].
  exists name, p. split; [exact Ec|]. split; [exact El|]. intros tr Hp. unfold c01_atomic.
  destruct (String.eqb name "ProgressBar::drop") eqn:En.
  - apply andb_prop in H. destruct H as [H1 H2]. split; [exact (drop_owned_sound p H1 tr Hp)|].
    apply String.eqb_eq in En. subst name.
    apply (generated_brackets_paths _ p (pg_lookup_In _ _ _ El)).
    assert (Hq : match p with PLoop b => b | _ => p end = p).
    { vm_compute in El. injection El as <-. reflexivity. }
    rewrite Hq. exact Hp.
  - destruct (c01_may_skip name).
    + exact (one_bar_section_sound p H tr Hp).
    + exact (just_one_bar_section_sound p H tr Hp).
Qed.

(** the closure of ProgressBar::suspend: there is a path on which it runs (not vacuous), and the
    seeded variant "release the bar lock while the closure runs" violates both predicates *)
Lemma suspend_closure_inside :
  exists p, pg_lookup "ProgressBar::suspend"%string all_programs = Some p /\
    (forall tr, paths p tr -> bar_sections tr = 1%nat /\ inside_bar tr = true) /\
    (exists tr, paths p tr /\ In CCallback tr).
Proof.
  destruct (pg_lookup "ProgressBar::suspend"%string all_programs) as [p|] eqn:E; [|vm_compute in E; discriminate].
  exists p. split; [reflexivity|]. split.
  - apply just_one_bar_section_sound.
    pose proof (proj1 (forallb_forall _ _) generated_c01_calls_ok "ProgressBar::suspend"%string) as H.
    unfold c01_call_okb in H. rewrite E in H. apply H. simpl. tauto.
  - vm_compute in E. injection E as <-.
    eexists. split; [apply (path_of_paths 0%nat _ [0%nat]); vm_compute; discriminate|].
    vm_compute. tauto.
Qed.

Lemma released_closure_rejected :
  let tr := [CAcq CBar; CAcq CMulti; CRel CMulti; CRel CBar; CCallback; CAcq CBar; CAcq CMulti; CRel CMulti; CRel CBar] in
  inside_bar tr = false /\ bar_sections tr = 2%nat /\
  one_bar_section (PSeq (map PAct tr)) = false.
Proof. vm_compute. repeat split; reflexivity. Qed.
