(** C01 / C19 for the single standalone bar (model/SingleBar.v): the screen invariant over every
    op history, built from the macro lemmas of TermProofs.v. *)
From Coq Require Import List NArith ZArith Bool Lia Arith ZifyBool ZifyNat ZifyN.
From IndModel Require Import SingleBar.
From IndProofs Require Import TermProofs.
Import ListNotations.
Local Open Scope N_scope.
Arguments N.add : simpl never.
Arguments N.sub : simpl never.
Arguments N.mul : simpl never.
Arguments N.div : simpl never.
Arguments N.modulo : simpl never.
Arguments Nat.min : simpl never.
Arguments Nat.sub : simpl never.

(* ------------------------------------------------------------------ no I/O faults *)
Lemma emit_nofail : forall ops c, emit nofail c ops = (ops, c + N.of_nat (length ops), true).
Proof.
  induction ops as [|o ops IH]; intros c; cbn [emit length].
  - f_equal. f_equal. lia.
  - unfold nofail at 1. rewrite IH. f_equal. f_equal. lia.
Qed.

Lemma emit_each_nofail : forall ops c, emit_each nofail c ops = (ops, c + N.of_nat (length ops)).
Proof.
  induction ops as [|o ops IH]; intros c; cbn [emit_each length].
  - f_equal. lia.
  - rewrite IH. unfold nofail. f_equal. lia.
Qed.

(* ------------------------------------------------------------------ lines *)
Lemma push_line_bars cur : Forall (fun l => is_bar l = true) (push_line cur).
Proof. unfold push_line. apply Forall_forall. intros l Hin. apply in_map_iff in Hin. destruct Hin as (x & <- & _). reflexivity. Qed.

Lemma render_parts_bars : forall ps b cur acc,
  Forall (fun l => is_bar l = true) acc ->
  Forall (fun l => is_bar l = true) (render_parts ps b cur acc).
Proof.
  induction ps as [|p ps IH]; intros b cur acc Hacc; cbn [render_parts].
  - destruct cur; [exact Hacc|]. apply Forall_app. split; [exact Hacc | apply push_line_bars].
  - destruct p; try (apply IH; exact Hacc).
    apply IH. apply Forall_app. split; [exact Hacc | apply push_line_bars].
Qed.

Lemma frame_of_bars b : Forall (fun l => is_bar l = true) (frame_of b).
Proof.
  unfold frame_of. destruct (b_status b); try constructor; apply render_parts_bars; constructor.
Qed.

Lemma text_lines_texts m : Forall (fun l => is_bar l = false) (text_lines m).
Proof.
  unfold text_lines. destruct (lines_of m) as [|x xs] eqn:E.
  - repeat constructor.
  - apply Forall_forall. intros l Hin. apply in_map_iff in Hin. destruct Hin as (y & <- & _). reflexivity.
Qed.

Lemma text_lines_lt m : map lt (text_lines m) = println_lines m.
Proof.
  unfold text_lines, println_lines. destruct (lines_of m) as [|x xs]; [reflexivity|].
  rewrite map_map. cbn [lt]. now rewrite map_id.
Qed.

Lemma filter_bars_app texts bars :
  Forall (fun l => is_bar l = false) texts -> Forall (fun l => is_bar l = true) bars ->
  filter is_bar (texts ++ bars) = bars.
Proof.
  intros Ht Hb. rewrite filter_app.
  assert (E1 : filter is_bar texts = []).
  { induction Ht as [|x l Hx Ht IH]; [reflexivity|]. cbn. now rewrite Hx. }
  assert (E2 : filter is_bar bars = bars).
  { induction Hb as [|x l Hx Hb IH]; [reflexivity|]. cbn. now rewrite Hx, IH. }
  now rewrite E1, E2.
Qed.

Lemma wrap_app W a b : wrap W (a ++ b) = wrap W a ++ wrap W b.
Proof. unfold wrap. now rewrite map_app, concat_app. Qed.

Lemma rows_equiv_split W R A B : rows_equiv W R (A ++ B) ->
  exists RA RB, R = RA ++ RB /\ rows_equiv W RA A /\ rows_equiv W RB B.
Proof.
  unfold rows_equiv. intros He. exists (firstn (length A) R), (skipn (length A) R).
  split; [now rewrite firstn_skipn|]. rewrite map_app in He. split.
  - rewrite <- firstn_map, He. rewrite firstn_app, map_length, Nat.sub_diag. cbn [firstn].
    rewrite app_nil_r. rewrite <- (map_length (pad W) A). apply firstn_all.
  - rewrite <- skipn_map, He. rewrite skipn_app, map_length, Nat.sub_diag. cbn [skipn].
    rewrite <- (map_length (pad W) A), skipn_all. reflexivity.
Qed.

Lemma draw_to_term_nonempty ls n al below W H : fst (fst (draw_to_term ls n al below W H)) <> [].
Proof.
  unfold draw_to_term.
  match goal with |- context [if ?c then ?a else ?b] =>
    match type of a with (list termop * N * N)%type => destruct (if c then a else b) as [[pops real] shift] end end.
  cbn [fst]. intros Hn. apply app_eq_nil in Hn. destruct Hn as [_ Hn].
  unfold clear_ops in Hn. discriminate.
Qed.

Lemma term_draw_nonempty W H tg ls c : snd (fst (fst (term_draw W H nofail tg ls c))) <> [].
Proof.
  unfold term_draw. pose proof (draw_to_term_nonempty ls (tt_n tg) (tt_align tg) (tt_below tg) W H) as Hne.
  destruct (draw_to_term ls (tt_n tg) (tt_align tg) (tt_below tg) W H) as [[ops n'] below'].
  rewrite emit_nofail. exact Hne.
Qed.

(* ------------------------------------------------------------------ the target/terminal invariant *)
Section Inv.
  Variable W H : N.
  Hypothesis HW : 1 <= W.
  Hypothesis HH : 1 <= H.
  Variable pre : list (list N).
  Let Wn := N.to_nat W.
  Let Hn := N.to_nat H.

  (** the terminal shows pre ++ log ++ frame, the cursor is ready below it, last_line_count is
      the number of rows of the frame and all of them are within reach of cursor-up *)
  Definition TInv (tg : ttarget) (t : term) (log frame : list text) : Prop :=
    tt_align tg = Top /\
    exists L F,
      ready Wn Hn (pre ++ L ++ F) t
      /\ rows_equiv Wn L (wrap Wn log) /\ rows_equiv Wn F (wrap Wn frame)
      /\ length F = N.to_nat (tt_n tg) /\ (N.to_nat (tt_n tg) <= reach t)%nat
      /\ (1 <= tt_n tg -> tt_below tg = false /\ t_col t <> 0%nat).

  Lemma TInv_rl tg t log frame rl :
    TInv tg t log frame -> TInv (mktt (tt_n tg) rl (tt_align tg) (tt_below tg)) t log frame.
  Proof. intros Hi. exact Hi. Qed.

  (** one draw (Drawable::draw on a terminal target) of text lines followed by bar lines that fit *)
  Lemma term_draw_inv tg t log frame texts bars c :
    TInv tg t log frame ->
    Forall (fun l => is_bar l = false) texts -> Forall (fun l => is_bar l = true) bars ->
    visual_line_count bars W <= H ->
    let '(tg', e, c', ok) := term_draw W H nofail tg (texts ++ bars) c in
    TInv tg' (run_ops Wn Hn t e) (log ++ map lt texts) (map lt bars)
    /\ tt_rl tg' = tt_rl tg /\ e <> [].
  Proof using HW HH.
    intros (Hal & L & F & Hr & HL & HF & Hlen & Hreach & Hbelow) Htexts Hbars Hfit.
    unfold term_draw. rewrite Hal.
    destruct (draw_to_term (texts ++ bars) (tt_n tg) Top (tt_below tg) W H) as [[ops n'] below'] eqn:Ed.
    rewrite emit_nofail. cbn [tt_rl].
    assert (Hb' : 1 <= tt_n tg -> if tt_below tg then t_col t = 0%nat else t_col t <> 0%nat).
    { intros Hn1. destruct (Hbelow Hn1) as [-> Hc]. exact Hc. }
    rewrite app_assoc in Hr.
    pose proof (draw_to_term_spec_top W H HW HH (pre ++ L) F t (texts ++ bars) (tt_n tg) (tt_below tg)
                  Hr Hlen Hreach Hb') as Hspec.
    cbv zeta in Hspec. rewrite Ed in Hspec. cbn [fst snd] in Hspec.
    fold Wn Hn in Hspec.
    assert (Hall : painted (texts ++ bars) W H 0 = texts ++ bars).
    { apply painted_all. unfold bar_rows. rewrite filter_bars_app by assumption. lia. }
    rewrite Hall in Hspec. rewrite Nat.eqb_refl in Hspec.
    destruct Hspec as (Hn' & Hbel' & Hnil & _ & Hcomplete).
    assert (Hn'' : n' = visual_line_count bars W).
    { rewrite Hn'. unfold bar_rows. now rewrite filter_bars_app by assumption. }
    split; [|split; [reflexivity|]].
    - split; [reflexivity|]. cbn [tt_n tt_below tt_align].
      destruct (texts ++ bars) as [|l0 ls0] eqn:Els.
      + (* nothing to paint: erase only *)
        apply app_eq_nil in Els. destruct Els as [-> ->].
        destruct (Hnil eq_refl) as (Hr' & Hre' & Hc' & Hz').
        exists L, []. cbn [map]. rewrite !app_nil_r.
        assert (Hn0 : n' = 0) by (rewrite Hn''; reflexivity).
        split; [exact Hr'|]. split; [exact HL|]. split; [apply rows_equiv_refl|].
        split; [rewrite Hn0; reflexivity|]. split; [rewrite Hn0; cbn; lia|].
        intros Hge. lia.
      + rewrite <- Els in *.
        destruct (Hcomplete ltac:(rewrite Els; discriminate) eq_refl) as (Hr' & Hc' & Hre').
        set (R := paint_rows W true true (texts ++ bars)) in *.
        destruct (paint_rows_equiv W HW (texts ++ bars) true true) as (HeR & HlR).
        fold R Wn in HeR, HlR. rewrite map_app, wrap_app in HeR.
        destruct (rows_equiv_split Wn R _ _ HeR) as (RT & RB & HRsplit & HeT & HeB).
        exists (L ++ RT), RB.
        assert (HlenB : length RB = N.to_nat n').
        { rewrite (rows_equiv_length _ _ _ HeB), Hn'', (visual_line_count_wrap bars W HW).
          fold Wn. lia. }
        repeat split.
        * rewrite HRsplit in Hr'. rewrite <- !app_assoc in Hr'. rewrite <- !app_assoc. exact Hr'.
        * rewrite wrap_app. apply rows_equiv_app; assumption.
        * exact HeB.
        * exact HlenB.
        * rewrite Hre'. rewrite HRsplit, app_length.
          assert (N.to_nat n' <= Hn)%nat by (unfold Hn; lia). lia.
        * exact Hbel'.
        * exact Hc'.
    - pose proof (draw_to_term_top_eq (texts ++ bars) (tt_n tg) (tt_below tg) W H) as Heq.
      rewrite Ed in Heq. injection Heq as Hops _ _. rewrite Hops.
      intros Hemp. apply app_eq_nil in Hemp. destruct Hemp as [_ Hemp].
      unfold clear_ops in Hemp. discriminate.
  Qed.
End Inv.

(* ------------------------------------------------------------------ the single-bar system *)
Definition SB (s : sys) (b : bar) (tg : ttarget) : Prop := s_bars s = [b] /\ b_target b = TTerm tg.

Lemma SB_get s b tg : SB s b tg -> get_bar s 0 = b.
Proof. intros [Hs _]. unfold get_bar, nthN. now rewrite Hs. Qed.

Lemma SB_upd s b tg f : SB s b tg -> b_target (f b) = b_target b -> SB (upd_bar s 0 f) (f b) tg.
Proof.
  intros [Hs Ht] Hf. unfold SB, upd_bar. cbn [s_bars set_s_bars]. rewrite Hs. cbn. split; [reflexivity | congruence].
Qed.

Lemma SB_upd_target s b tg tg' : SB s b tg ->
  SB (upd_bar s 0 (fun x => set_b_target x (TTerm tg'))) (set_b_target b (TTerm tg')) tg'.
Proof. intros [Hs Ht]. unfold SB, upd_bar. cbn [s_bars set_s_bars]. rewrite Hs. cbn. split; reflexivity. Qed.

Lemma SB_calls s b tg c : SB s b tg -> SB (set_s_calls s c) b tg.
Proof. intros Hsb. exact Hsb. Qed.

Lemma expand_indep p b b' :
  b_pos b = b_pos b' -> b_len b = b_len b' -> b_tick b = b_tick b' -> b_status b = b_status b' ->
  b_msg b = b_msg b' -> b_prefix b = b_prefix b' -> expand p b = expand p b'.
Proof.
  intros H1 H2 H3 H4 H5 H6. destruct p; cbn [expand]; unfold finished; try congruence.
  - now rewrite H2, H1.
  - now rewrite H4, H3.
Qed.

Lemma render_parts_indep b b' :
  b_pos b = b_pos b' -> b_len b = b_len b' -> b_tick b = b_tick b' -> b_status b = b_status b' ->
  b_msg b = b_msg b' -> b_prefix b = b_prefix b' ->
  forall ps cur acc, render_parts ps b cur acc = render_parts ps b' cur acc.
Proof.
  intros H1 H2 H3 H4 H5 H6. induction ps as [|p ps IH]; intros cur acc; cbn [render_parts]; [reflexivity|].
  destruct p; try (rewrite (expand_indep _ b b') by assumption); apply IH.
Qed.

Lemma frame_of_indep b b' :
  b_pos b = b_pos b' -> b_len b = b_len b' -> b_tick b = b_tick b' -> b_status b = b_status b' ->
  b_msg b = b_msg b' -> b_prefix b = b_prefix b' -> b_tmpl b = b_tmpl b' -> frame_of b = frame_of b'.
Proof.
  intros H1 H2 H3 H4 H5 H6 H7. unfold frame_of, render. rewrite H4, H7.
  destruct (b_status b') eqn:E; try reflexivity; apply render_parts_indep; congruence.
Qed.

Lemma frame_of_set_target b t : frame_of (set_b_target b t) = frame_of b.
Proof. apply frame_of_indep; reflexivity. Qed.
Lemma frame_of_set_alive b v : frame_of (set_b_alive b v) = frame_of b.
Proof. apply frame_of_indep; reflexivity. Qed.

Lemma tt_allow_shape tg force now :
  tt_n (snd (tt_allow tg force now)) = tt_n tg
  /\ tt_align (snd (tt_allow tg force now)) = tt_align tg
  /\ tt_below (snd (tt_allow tg force now)) = tt_below tg.
Proof.
  unfold tt_allow. destruct force; [repeat split|]. destruct (tt_rl tg) as [r|]; [|repeat split].
  destruct (rl_allow r now). cbn. repeat split.
Qed.

Section SysInv.
  Variable W H : N.
  Hypothesis HW : 1 <= W.
  Hypothesis HH : 1 <= H.
  Variable pre : list (list N).
  Let Wn := N.to_nat W.
  Let Hn := N.to_nat H.

  Lemma TInv_same tg tg' t log frame :
    tt_n tg' = tt_n tg -> tt_align tg' = tt_align tg -> tt_below tg' = tt_below tg ->
    TInv W H pre tg t log frame -> TInv W H pre tg' t log frame.
  Proof. unfold TInv. intros -> -> ->. exact (fun x => x). Qed.

  (** BarState::draw on the single bar *)
  Lemma bar_draw_inv s b tg t log frame force now s' e :
    SB s b tg -> TInv W H pre tg t log frame ->
    bar_draw W H nofail s 0 force now = (s', e) ->
    (e <> [] -> visual_line_count (frame_of (get_bar s' 0)) W <= H) ->
    exists b' tg', SB s' b' tg'
      /\ frame_of b' = frame_of b
      /\ TInv W H pre tg' (run_ops Wn Hn t e) log
              (match e with [] => frame | _ => map lt (frame_of b) end).
  Proof using HW HH.
    intros Hsb Hinv Hdraw Hfit. unfold bar_draw in Hdraw. rewrite (SB_get _ _ _ Hsb) in Hdraw.
    destruct Hsb as [Hs Ht]. rewrite Ht in Hdraw.
    pose proof (tt_allow_shape tg (force || finished b) now) as (Sn & Sa & Sb).
    destruct (tt_allow tg (force || finished b) now) as [allowed tg1]. cbn [snd] in Sn, Sa, Sb.
    destruct allowed; cbn [negb] in Hdraw.
    - pose proof (term_draw_inv W H HW HH pre tg1 t log frame [] (frame_of b) (s_calls s)
                    (TInv_same _ _ _ _ _ Sn Sa Sb Hinv) (Forall_nil _) (frame_of_bars b)) as Hd.
      cbn [app] in Hd.
      destruct (term_draw W H nofail tg1 (frame_of b) (s_calls s)) as [[[tg2 e2] c2] ok2] eqn:Etd.
      injection Hdraw as <- <-.
      assert (Hsb' : SB (set_s_calls (upd_bar s 0 (fun x => set_b_target x (TTerm tg2))) c2)
                        (set_b_target b (TTerm tg2)) tg2).
      { apply SB_calls. apply (SB_upd_target s b tg). split; assumption. }
      assert (Hfit' : visual_line_count (frame_of b) W <= H -> True) by trivial.
      destruct e2 as [|o e2'] eqn:Ee.
      + exfalso. pose proof (term_draw_nonempty W H tg1 (frame_of b) (s_calls s)) as Hne.
        rewrite Etd in Hne. cbn [fst snd] in Hne. congruence.
      + specialize (Hfit ltac:(discriminate)). rewrite (SB_get _ _ _ Hsb'), frame_of_set_target in Hfit.
        destruct (Hd Hfit) as (Hinv' & _ & _). cbn [map app] in Hinv'. rewrite app_nil_r in Hinv'.
        exists (set_b_target b (TTerm tg2)), tg2. split; [exact Hsb'|]. split; [apply frame_of_set_target|].
        exact Hinv'.
    - injection Hdraw as <- <-. exists (set_b_target b (TTerm tg1)), tg1.
      split; [apply (SB_upd_target s b tg); split; assumption|]. split; [apply frame_of_set_target|].
      rewrite run_ops_nil. exact (TInv_same _ _ _ _ _ Sn Sa Sb Hinv).
  Qed.
End SysInv.
