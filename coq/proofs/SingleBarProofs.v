(** C01 / C19 for the single standalone bar (model/SingleBar.v): the screen invariant over every
    op history, built from the macro lemmas of TermProofs.v. *)
From Coq Require Import List NArith ZArith Bool Lia Arith ZifyBool ZifyNat ZifyN.
From IndModel Require Import SingleBar.
From IndProofs Require Import TermProofs.
Import ListNotations.
Local Open Scope N_scope.
Arguments N.add : simpl never.
Arguments N.sub : simpl never.
Arguments N.mul : simpl never.
Arguments N.div : simpl never.
Arguments N.modulo : simpl never.
Arguments Nat.min : simpl never.
Arguments Nat.sub : simpl never.

(* ------------------------------------------------------------------ no I/O faults *)
Lemma emit_nofail : forall ops c, emit nofail c ops = (ops, c + N.of_nat (length ops), true).
Proof.
  induction ops as [|o ops IH]; intros c; cbn [emit length].
  - f_equal. f_equal. lia.
  - unfold nofail at 1. rewrite IH. f_equal. f_equal. lia.
Qed.

Lemma emit_each_nofail : forall ops c, emit_each nofail c ops = (ops, c + N.of_nat (length ops)).
Proof.
  induction ops as [|o ops IH]; intros c; cbn [emit_each length].
  - f_equal. lia.
  - rewrite IH. unfold nofail. f_equal. lia.
Qed.

(* ------------------------------------------------------------------ lines *)
Lemma push_line_bars cur : Forall (fun l => is_bar l = true) (push_line cur).
Proof. unfold push_line. apply Forall_forall. intros l Hin. apply in_map_iff in Hin. destruct Hin as (x & <- & _). reflexivity. Qed.

Lemma render_parts_bars : forall ps b cur acc,
  Forall (fun l => is_bar l = true) acc ->
  Forall (fun l => is_bar l = true) (render_parts ps b cur acc).
Proof.
  induction ps as [|p ps IH]; intros b cur acc Hacc; cbn [render_parts].
  - destruct cur; [exact Hacc|]. apply Forall_app. split; [exact Hacc | apply push_line_bars].
  - destruct p; try (apply IH; exact Hacc).
    apply IH. apply Forall_app. split; [exact Hacc | apply push_line_bars].
Qed.

Lemma frame_of_bars b : Forall (fun l => is_bar l = true) (frame_of b).
Proof.
  unfold frame_of. destruct (b_status b); try constructor; apply render_parts_bars; constructor.
Qed.

Lemma text_lines_texts m : Forall (fun l => is_bar l = false) (text_lines m).
Proof.
  unfold text_lines. destruct (lines_of m) as [|x xs] eqn:E.
  - repeat constructor.
  - apply Forall_forall. intros l Hin. apply in_map_iff in Hin. destruct Hin as (y & <- & _). reflexivity.
Qed.

Lemma text_lines_lt m : map lt (text_lines m) = println_lines m.
Proof.
  unfold text_lines, println_lines. destruct (lines_of m) as [|x xs]; [reflexivity|].
  rewrite map_map. cbn [lt]. now rewrite map_id.
Qed.

Lemma filter_bars_app texts bars :
  Forall (fun l => is_bar l = false) texts -> Forall (fun l => is_bar l = true) bars ->
  filter is_bar (texts ++ bars) = bars.
Proof.
  intros Ht Hb. rewrite filter_app.
  assert (E1 : filter is_bar texts = []).
  { induction Ht as [|x l Hx Ht IH]; [reflexivity|]. cbn. now rewrite Hx. }
  assert (E2 : filter is_bar bars = bars).
  { induction Hb as [|x l Hx Hb IH]; [reflexivity|]. cbn. now rewrite Hx, IH. }
  now rewrite E1, E2.
Qed.

Lemma map_repeat' {A B} (f : A -> B) x k : map f (repeat x k) = repeat (f x) k.
Proof. induction k as [|k IH]; cbn; [reflexivity | now rewrite IH]. Qed.

Lemma pad_nil (w : nat) : pad w [] = repeat SP w.
Proof. unfold pad. cbn. now rewrite Nat.sub_0_r. Qed.

Lemma wrap_app W a b : wrap W (a ++ b) = wrap W a ++ wrap W b.
Proof. unfold wrap. now rewrite map_app, concat_app. Qed.

Lemma rows_equiv_split W R A B : rows_equiv W R (A ++ B) ->
  exists RA RB, R = RA ++ RB /\ rows_equiv W RA A /\ rows_equiv W RB B.
Proof.
  unfold rows_equiv. intros He. exists (firstn (length A) R), (skipn (length A) R).
  split; [now rewrite firstn_skipn|]. rewrite map_app in He. split.
  - rewrite <- firstn_map, He. rewrite firstn_app, map_length, Nat.sub_diag. cbn [firstn].
    rewrite app_nil_r. rewrite <- (map_length (pad W) A). apply firstn_all.
  - rewrite <- skipn_map, He. rewrite skipn_app, map_length, Nat.sub_diag. cbn [skipn].
    rewrite <- (map_length (pad W) A), skipn_all. reflexivity.
Qed.

Lemma draw_to_term_nonempty ls n al below W H : fst (fst (draw_to_term ls n al below W H)) <> [].
Proof.
  unfold draw_to_term.
  match goal with |- context [if ?c then ?a else ?b] =>
    match type of a with (list termop * N * N * bool)%type => destruct (if c then a else b) as [[[pops real] shift] any] end end.
  cbn [fst]. intros Hn. apply app_eq_nil in Hn. destruct Hn as [_ Hn].
  unfold clear_ops in Hn. discriminate.
Qed.

Lemma term_draw_nonempty W H tg ls c : snd (fst (fst (term_draw W H nofail tg ls c))) <> [].
Proof.
  unfold term_draw. pose proof (draw_to_term_nonempty ls (tt_n tg) (tt_align tg) (tt_below tg) W H) as Hne.
  destruct (draw_to_term ls (tt_n tg) (tt_align tg) (tt_below tg) W H) as [[ops n'] below'].
  rewrite emit_nofail. exact Hne.
Qed.

(* ------------------------------------------------------------------ the target/terminal invariant *)
Section Inv.
  Variable W H : N.
  Hypothesis HW : 1 <= W.
  Hypothesis HH : 1 <= H.
  Variable pre : list (list N).
  Let Wn := N.to_nat W.
  Let Hn := N.to_nat H.

  (** the terminal shows pre ++ log ++ frame, the cursor is ready below it, last_line_count is
      the number of rows of the frame and all of them are within reach of cursor-up *)
  Definition TInv (tg : ttarget) (t : term) (log frame : list text) : Prop :=
    tt_align tg = Top /\
    exists L F,
      ready Wn Hn (pre ++ L ++ F) t
      /\ rows_equiv Wn L (wrap Wn log) /\ rows_equiv Wn F (wrap Wn frame)
      /\ length F = N.to_nat (tt_n tg) /\ (N.to_nat (tt_n tg) <= reach t)%nat
      /\ (1 <= tt_n tg -> tt_below tg = false /\ t_col t <> 0%nat).

  Lemma TInv_rl tg t log frame rl :
    TInv tg t log frame -> TInv (mktt (tt_n tg) rl (tt_align tg) (tt_below tg)) t log frame.
  Proof. intros Hi. exact Hi. Qed.

  (** one draw (Drawable::draw on a terminal target) of text lines followed by bar lines that fit *)
  Lemma term_draw_inv tg t log frame texts bars c :
    TInv tg t log frame ->
    Forall (fun l => is_bar l = false) texts -> Forall (fun l => is_bar l = true) bars ->
    visual_line_count bars W <= H ->
    let '(tg', e, c', ok) := term_draw W H nofail tg (texts ++ bars) c in
    TInv tg' (run_ops Wn Hn t e) (log ++ map lt texts) (map lt bars)
    /\ tt_rl tg' = tt_rl tg /\ e <> [].
  Proof using HW HH.
    intros (Hal & L & F & Hr & HL & HF & Hlen & Hreach & Hbelow) Htexts Hbars Hfit.
    unfold term_draw. rewrite Hal.
    destruct (draw_to_term (texts ++ bars) (tt_n tg) Top (tt_below tg) W H) as [[ops n'] below'] eqn:Ed.
    rewrite emit_nofail. cbn [tt_rl].
    assert (Hb' : 1 <= tt_n tg -> if tt_below tg then t_col t = 0%nat else t_col t <> 0%nat).
    { intros Hn1. destruct (Hbelow Hn1) as [-> Hc]. exact Hc. }
    rewrite app_assoc in Hr.
    pose proof (draw_to_term_spec_top W H HW HH (pre ++ L) F t (texts ++ bars) (tt_n tg) (tt_below tg)
                  Hr Hlen Hreach Hb') as Hspec.
    cbv zeta in Hspec. rewrite Ed in Hspec. cbn [fst snd] in Hspec.
    fold Wn Hn in Hspec.
    assert (Hall : painted (texts ++ bars) W H 0 = texts ++ bars).
    { apply painted_all. unfold bar_rows. rewrite filter_bars_app by assumption. lia. }
    rewrite Hall in Hspec. rewrite Nat.eqb_refl in Hspec.
    destruct Hspec as (Hn' & Hbel' & Hnil & _ & Hcomplete).
    assert (Hn'' : n' = visual_line_count bars W).
    { rewrite Hn'. unfold bar_rows. now rewrite filter_bars_app by assumption. }
    split; [|split; [reflexivity|]].
    - split; [reflexivity|]. cbn [tt_n tt_below tt_align].
      destruct (texts ++ bars) as [|l0 ls0] eqn:Els.
      + (* nothing to paint: erase only *)
        apply app_eq_nil in Els. destruct Els as [-> ->].
        destruct (Hnil eq_refl) as (Hr' & Hre' & Hc' & Hz').
        exists L, []. cbn [map]. rewrite !app_nil_r.
        assert (Hn0 : n' = 0) by (rewrite Hn''; reflexivity).
        split; [exact Hr'|]. split; [exact HL|]. split; [apply rows_equiv_refl|].
        split; [rewrite Hn0; reflexivity|]. split; [rewrite Hn0; cbn; lia|].
        intros Hge. lia.
      + rewrite <- Els in *.
        destruct (Hcomplete ltac:(rewrite Els; discriminate) eq_refl) as (Hr' & Hc' & Hre').
        set (R := paint_rows W true true (texts ++ bars)) in *.
        destruct (paint_rows_equiv W HW (texts ++ bars) true true) as (HeR & HlR).
        fold R Wn in HeR, HlR. rewrite map_app, wrap_app in HeR.
        destruct (rows_equiv_split Wn R _ _ HeR) as (RT & RB & HRsplit & HeT & HeB).
        exists (L ++ RT), RB.
        assert (HlenB : length RB = N.to_nat n').
        { rewrite (rows_equiv_length _ _ _ HeB), Hn'', (visual_line_count_wrap bars W HW).
          fold Wn. lia. }
        repeat split.
        * rewrite HRsplit in Hr'. rewrite <- !app_assoc in Hr'. rewrite <- !app_assoc. exact Hr'.
        * rewrite wrap_app. apply rows_equiv_app; assumption.
        * exact HeB.
        * exact HlenB.
        * rewrite Hre'. rewrite HRsplit, app_length.
          assert (N.to_nat n' <= Hn)%nat by (unfold Hn; lia). lia.
        * exact Hbel'.
        * exact Hc'.
    - pose proof (draw_to_term_nonempty (texts ++ bars) (tt_n tg) Top (tt_below tg) W H) as Hne.
      rewrite Ed in Hne. exact Hne.
  Qed.
End Inv.

(* ------------------------------------------------------------------ the single-bar system *)
Definition SB (s : sys) (b : bar) (tg : ttarget) : Prop := s_bars s = [b] /\ b_target b = TTerm tg.

Lemma SB_get s b tg : SB s b tg -> get_bar s 0 = b.
Proof. intros [Hs _]. unfold get_bar, nthN. now rewrite Hs. Qed.

Lemma SB_upd s b tg f : SB s b tg -> b_target (f b) = b_target b -> SB (upd_bar s 0 f) (f b) tg.
Proof.
  intros [Hs Ht] Hf. unfold SB, upd_bar. cbn [s_bars set_s_bars]. rewrite Hs. cbn. split; [reflexivity | congruence].
Qed.

Lemma SB_upd_target s b tg tg' : SB s b tg ->
  SB (upd_bar s 0 (fun x => set_b_target x (TTerm tg'))) (set_b_target b (TTerm tg')) tg'.
Proof. intros [Hs Ht]. unfold SB, upd_bar. cbn [s_bars set_s_bars]. rewrite Hs. cbn. split; reflexivity. Qed.

Lemma SB_calls s b tg c : SB s b tg -> SB (set_s_calls s c) b tg.
Proof. intros Hsb. exact Hsb. Qed.

Lemma expand_indep p b b' :
  b_pos b = b_pos b' -> b_len b = b_len b' -> b_tick b = b_tick b' -> b_status b = b_status b' ->
  b_msg b = b_msg b' -> b_prefix b = b_prefix b' -> expand p b = expand p b'.
Proof.
  intros H1 H2 H3 H4 H5 H6. destruct p; cbn [expand]; unfold finished; try congruence.
  - now rewrite H2, H1.
  - now rewrite H4, H3.
Qed.

Lemma render_parts_indep b b' :
  b_pos b = b_pos b' -> b_len b = b_len b' -> b_tick b = b_tick b' -> b_status b = b_status b' ->
  b_msg b = b_msg b' -> b_prefix b = b_prefix b' ->
  forall ps cur acc, render_parts ps b cur acc = render_parts ps b' cur acc.
Proof.
  intros H1 H2 H3 H4 H5 H6. induction ps as [|p ps IH]; intros cur acc; cbn [render_parts]; [reflexivity|].
  destruct p; try (rewrite (expand_indep _ b b') by assumption); apply IH.
Qed.

Lemma frame_of_indep b b' :
  b_pos b = b_pos b' -> b_len b = b_len b' -> b_tick b = b_tick b' -> b_status b = b_status b' ->
  b_msg b = b_msg b' -> b_prefix b = b_prefix b' -> b_tmpl b = b_tmpl b' -> frame_of b = frame_of b'.
Proof.
  intros H1 H2 H3 H4 H5 H6 H7. unfold frame_of, render. rewrite H4, H7.
  destruct (b_status b') eqn:E; try reflexivity; apply render_parts_indep; congruence.
Qed.

Lemma frame_of_set_target b t : frame_of (set_b_target b t) = frame_of b.
Proof. apply frame_of_indep; reflexivity. Qed.
Lemma frame_of_set_alive b v : frame_of (set_b_alive b v) = frame_of b.
Proof. apply frame_of_indep; reflexivity. Qed.

Lemma tt_allow_shape tg force now :
  tt_n (snd (tt_allow tg force now)) = tt_n tg
  /\ tt_align (snd (tt_allow tg force now)) = tt_align tg
  /\ tt_below (snd (tt_allow tg force now)) = tt_below tg.
Proof.
  unfold tt_allow. destruct force; [repeat split|]. destruct (tt_rl tg) as [r|]; [|repeat split].
  destruct (rl_allow r now). cbn. repeat split.
Qed.

Lemma tt_allow_forced tg now : tt_allow tg true now = (true, tg).
Proof. reflexivity. Qed.

(** the text lines an op hands to the draw target *)
Definition op_texts (o : op) : list line :=
  match o with OPrintln _ m => text_lines m | _ => [] end.

(* ------------------------------------------------------------------ the column after a call list *)
Local Open Scope nat_scope.
Lemma move_up_col : forall k t, t_col (move_up k t) = t_col t.
Proof.
  induction k as [|k IH]; intros t; [reflexivity|]. cbn [move_up].
  destruct (t_above t); [reflexivity|]. now rewrite IH.
Qed.

Lemma move_down_col : forall k t, t_col (move_down k t) = t_col t.
Proof.
  induction k as [|k IH]; intros t; [reflexivity|]. cbn [move_down].
  destruct (t_below t); now rewrite IH.
Qed.

Lemma exec_line_col Wn Hn t w : t_col (exec Wn Hn t (TLine w)) = 0.
Proof. cbn [exec]. unfold line_feed. cbn [t_below t_col]. now destruct (t_below (puts Wn Hn t w)). Qed.

(** [col_ok acc c0 t]: what the last writing call [acc] says about the column *)
Definition col_ok (acc : option termop) (c0 : nat) (t : term) : Prop :=
  match acc with
  | None => t_col t = c0
  | Some (TStr _) => True
  | Some _ => t_col t = 0
  end.

Lemma col_after Wn Hn : forall e acc c0 t,
  col_ok acc c0 t -> col_ok (last_write e acc) c0 (run_ops Wn Hn t e).
Proof.
  induction e as [|o e IH]; intros acc c0 t Hc; [exact Hc|].
  cbn [last_write]. rewrite run_ops_cons. apply IH.
  destruct o; cbn [is_write exec].
  - unfold col_ok in *. destruct acc as [[]|]; try exact Logic.I; now rewrite move_up_col.
  - unfold col_ok in *. destruct acc as [[]|]; try exact Logic.I; now rewrite move_down_col.
  - reflexivity.
  - apply exec_line_col.
  - exact Logic.I.
  - exact Hc.
Qed.

Lemma last_write_app : forall e1 e2 acc, last_write (e1 ++ e2) acc = last_write e2 (last_write e1 acc).
Proof. induction e1 as [|o e1 IH]; intros e2 acc; [reflexivity|]. cbn [app last_write]. apply IH. Qed.

Lemma last_write_clear_loop : forall k acc,
  last_write (clear_loop k) acc = match k with O => acc | _ => Some TClear end.
Proof.
  induction k as [|k IH]; intros acc; [reflexivity|].
  destruct k as [|k]; [reflexivity|].
  change (clear_loop (S (S k))) with (TClear :: TDown 1 :: clear_loop (S k)).
  cbn [last_write is_write]. now rewrite IH.
Qed.
Local Open Scope N_scope.

(** the calls of a draw of the EMPTY line list (Drawable::clear) under Top alignment and the
    column they leave: column 0 if rows were erased, unchanged otherwise *)
Lemma clear_draw_col W H tg t c : tt_align tg = Top -> (tt_n tg <> 0 -> 1 <= H) ->
  t_col (run_ops (N.to_nat W) (N.to_nat H) t (snd (fst (fst (term_draw W H nofail tg [] c)))))
  = if tt_n tg =? 0 then t_col t else 0%nat.
Proof.
  intros Hal HH. unfold term_draw. rewrite Hal, draw_to_term_top_eq_min, emit_nofail. cbn [fst snd paint app].
  set (m := N.min (tt_n tg) H).
  assert (Hm : (m =? 0) = (tt_n tg =? 0)).
  { unfold m. destruct (N.eqb_spec (tt_n tg) 0) as [->|Hn]; [apply N.eqb_eq; lia|].
    specialize (HH Hn). apply N.eqb_neq. lia. }
  set (e := (if tt_below tg && (0 <? m) then [TUp 1] else []) ++ clear_ops m ++ [TFlush]).
  pose proof (col_after (N.to_nat W) (N.to_nat H) e None (t_col t) t eq_refl) as Hc.
  assert (Hl : last_write e None = if m =? 0 then None else Some TClear).
  { unfold e, clear_ops. rewrite last_write_app.
    assert (E0 : last_write (if tt_below tg && (0 <? m) then [TUp 1] else []) None = None)
      by (destruct (tt_below tg && (0 <? m)); reflexivity).
    rewrite E0. cbn [app last_write is_write]. rewrite !last_write_app, last_write_clear_loop.
    cbn [last_write is_write]. destruct (N.to_nat m) eqn:E.
    - replace (m =? 0) with true by (symmetry; apply N.eqb_eq; lia). reflexivity.
    - replace (m =? 0) with false by (symmetry; apply N.eqb_neq; lia). reflexivity. }
  rewrite Hl, Hm in Hc. destruct (tt_n tg =? 0); exact Hc.
Qed.

(** The per-op case analysis, done once, generically in the invariant [I] that relates the target
    (last_line_count, alignment, cursor_below), the terminal and the ghost log/frame, and in the
    side condition [ok texts bars] on the painted draws. *)
Section GenInv.
  Variable W H : N.
  Let Wn := N.to_nat W.
  Let Hn := N.to_nat H.
  Variable ok : list line -> list line -> Prop.
  Variable I : ttarget -> term -> list text -> list text -> Prop.
  Hypothesis ok_nil : ok [] [].
  Hypothesis I_same : forall tg tg' t log frame,
    tt_n tg' = tt_n tg -> tt_align tg' = tt_align tg -> tt_below tg' = tt_below tg ->
    I tg t log frame -> I tg' t log frame.
  Hypothesis I_draw : forall tg t log frame texts bars c,
    I tg t log frame ->
    Forall (fun l => is_bar l = false) texts -> Forall (fun l => is_bar l = true) bars ->
    ok texts bars ->
    I (fst (fst (fst (term_draw W H nofail tg (texts ++ bars) c))))
      (run_ops Wn Hn t (snd (fst (fst (term_draw W H nofail tg (texts ++ bars) c)))))
      (log ++ map lt texts) (map lt bars).
  Hypothesis I_write : forall tg t log w,
    I tg t log [] -> (w <> [] \/ t_col t = 0%nat) -> I tg (exec Wn Hn t (TLine w)) (log ++ [w]) [].
  Hypothesis I_top : forall tg t log frame, I tg t log frame -> tt_align tg = Top.
  Hypothesis I_pos : forall tg t log frame, I tg t log frame -> tt_n tg <> 0 -> 1 <= H.

  Definition SInv (st : sys * ghost * term) : Prop :=
    exists b tg, SB (fst (fst st)) b tg
                 /\ I tg (snd st) (g_log (snd (fst st))) (map lt (g_frame (snd (fst st)))).

  Lemma bar_draw_gen s b tg t log frame force now s' e :
    SB s b tg -> I tg t log frame ->
    bar_draw W H nofail s 0 force now = (s', e) ->
    exists b' tg', SB s' b' tg'
      /\ frame_of b' = frame_of b
      /\ (force = true -> e <> [])
      /\ ((e <> [] -> ok [] (frame_of b)) ->
          I tg' (run_ops Wn Hn t e) log (match e with [] => frame | _ => map lt (frame_of b) end)).
  Proof using I_same I_draw.
    intros Hsb Hinv Hdraw. unfold bar_draw in Hdraw. rewrite (SB_get _ _ _ Hsb) in Hdraw.
    destruct Hsb as [Hs Ht]. rewrite Ht in Hdraw.
    pose proof (tt_allow_shape tg (force || finished b) now) as (Sn & Sa & Sb).
    assert (Hforce : force = true -> fst (tt_allow tg (force || finished b) now) = true).
    { intros ->. reflexivity. }
    destruct (tt_allow tg (force || finished b) now) as [allowed tg1]. cbn [fst snd] in Sn, Sa, Sb, Hforce.
    destruct allowed; cbn [negb] in Hdraw.
    - pose proof (I_draw tg1 t log frame [] (frame_of b) (s_calls s)
                    (I_same _ _ _ _ _ Sn Sa Sb Hinv) (Forall_nil _) (frame_of_bars b)) as Hd.
      cbn [app] in Hd.
      pose proof (term_draw_nonempty W H tg1 (frame_of b) (s_calls s)) as Hne.
      destruct (term_draw W H nofail tg1 (frame_of b) (s_calls s)) as [[[tg2 e2] c2] ok2] eqn:Etd.
      cbn [fst snd] in Hne, Hd. injection Hdraw as <- <-.
      exists (set_b_target b (TTerm tg2)), tg2.
      split; [apply SB_calls; apply (SB_upd_target s b tg); split; assumption|].
      split; [apply frame_of_set_target|]. split; [intros _; exact Hne|].
      intros Hfit. specialize (Hd (Hfit Hne)).
      cbn [map app] in Hd. rewrite app_nil_r in Hd.
      destruct e2; [congruence | exact Hd].
    - injection Hdraw as <- <-. exists (set_b_target b (TTerm tg1)), tg1.
      split; [apply (SB_upd_target s b tg); split; assumption|]. split; [apply frame_of_set_target|].
      split; [intros Hf; specialize (Hforce Hf); discriminate|].
      intros _. rewrite run_ops_nil. exact (I_same _ _ _ _ _ Sn Sa Sb Hinv).
  Qed.

  Lemma writes_gen tg : forall ws t log,
    I tg t log [] -> match ws with [] :: _ => t_col t = 0%nat | _ => True end ->
    I tg (run_ops Wn Hn t (map TLine ws)) (log ++ ws) [].
  Proof using I_write.
    induction ws as [|w ws IH]; intros t log Hinv Hok.
    - cbn [map]. rewrite run_ops_nil, app_nil_r. exact Hinv.
    - cbn [map]. rewrite run_ops_cons.
      replace (log ++ w :: ws) with ((log ++ [w]) ++ ws) by (rewrite <- app_assoc; reflexivity).
      apply IH.
      + apply I_write; [exact Hinv|]. destruct w; [right; exact Hok | left; discriminate].
      + destruct ws as [|[|c w2] ws2]; try exact Logic.I. apply exec_line_col.
  Qed.

  (** an op that (after mutating the logical state, not the target) calls BarState::draw *)
  Lemma draw_op_gen s1 g t b1 tg force now o :
    SB s1 b1 tg -> I tg t (g_log g) (map lt (g_frame g)) ->
    op_log o = [] -> op_texts o = [] ->
    let r := bar_draw W H nofail s1 0 force now in
    (snd r <> [] -> ok (op_texts o) (frame_of (get_bar (fst r) 0))) ->
    SInv (fst r, gstep (fst r) (snd r) o g, run_ops Wn Hn t (snd r)).
  Proof using I_same I_draw.
    intros Hsb Hinv Hlog Htexts. cbv zeta.
    destruct (bar_draw W H nofail s1 0 force now) as [s' e] eqn:Ed. cbn [fst snd].
    intros Hfit.
    destruct (bar_draw_gen _ _ _ t (g_log g) (map lt (g_frame g)) _ _ _ _ Hsb Hinv Ed)
      as (b' & tg' & Hsb' & Hfr & _ & Hi).
    exists b', tg'. cbn [fst snd]. split; [exact Hsb'|].
    unfold gstep. cbn [g_log g_frame]. rewrite Hlog, app_nil_r.
    rewrite (SB_get _ _ _ Hsb'), Hfr. rewrite Htexts, (SB_get _ _ _ Hsb'), Hfr in Hfit.
    specialize (Hi Hfit). destruct e; exact Hi.
  Qed.

  Lemma nodraw_gen s1 g t b1 tg o :
    SB s1 b1 tg -> I tg t (g_log g) (map lt (g_frame g)) -> op_log o = [] ->
    SInv (s1, gstep s1 [] o g, run_ops Wn Hn t []).
  Proof.
    intros Hsb Hinv Hlog. exists b1, tg. cbn [fst snd]. split; [exact Hsb|].
    unfold gstep. cbn [g_log g_frame]. rewrite Hlog, app_nil_r, run_ops_nil. exact Hinv.
  Qed.

  Lemma finish_target b k :
    b_target (match k with
              | FAndLeave => set_b_status (match b_len b with Some l => set_b_pos b l | None => b end) DoneVisible
              | FWithMessage m => set_b_msg (set_b_status (match b_len b with Some l => set_b_pos b l | None => b end) DoneVisible) m
              | FAndClear => set_b_status (match b_len b with Some l => set_b_pos b l | None => b end) DoneHidden
              | FAbandon => set_b_status b DoneVisible
              | FAbandonWithMessage m => set_b_msg (set_b_status b DoneVisible) m
              end) = b_target b.
  Proof. destruct k; destruct (b_len b); reflexivity. Qed.

  Lemma step_gen s g t now o :
    SInv (s, g, t) -> (g_edge g = false -> t_col t = 0%nat) ->
    c01_op o = true -> suspend_okb g (bar_n s) o = true ->
    (snd (fst (step W H nofail s now o)) <> [] ->
     ok (op_texts o) (frame_of (get_bar (fst (fst (step W H nofail s now o))) 0))) ->
    SInv (sb_step W H (s, g, t) (now, o)).
  Proof using ok_nil I_same I_draw I_write I_top I_pos.
    intros (b & tg & Hsb & Hinv) Hedge Hop Hsus Hfit. cbn [fst snd] in Hsb, Hinv.
    unfold sb_step. cbn [fst snd].
    destruct o; cbn [c01_op] in Hop; try discriminate;
      match goal with Hx : (?x =? 0) = true |- _ => apply N.eqb_eq in Hx; subst x end;
      pose proof (SB_get _ _ _ Hsb) as Hget;
      cbn [step fst snd] in *.
    - (* tick *) unfold bar_tick in *.
      eapply draw_op_gen; try reflexivity; try eassumption. apply SB_upd; [exact Hsb | reflexivity].
    - (* inc *) unfold bar_pos_update in *.
      set (s1 := upd_bar s 0 (fun x => set_b_pos x (wadd64 (b_pos x) d))) in *.
      destruct (ap_allow (b_ap (get_bar s1 0)) now) as [a ap'].
      set (s2 := upd_bar s1 0 (fun x => set_b_ap x ap')) in *.
      assert (Hsb2 : SB s2 (set_b_ap (set_b_pos b (wadd64 (b_pos b) d)) ap') tg).
      { unfold s2, s1.
        exact (SB_upd _ _ tg (fun x => set_b_ap x ap') (SB_upd s b tg (fun x => set_b_pos x (wadd64 (b_pos x) d)) Hsb eq_refl) eq_refl). }
      destruct a.
      + unfold bar_tick in *. eapply draw_op_gen; try reflexivity; try eassumption.
        apply SB_upd; [exact Hsb2 | reflexivity].
      + cbn [fst snd]. eapply nodraw_gen; [exact Hsb2 | exact Hinv | reflexivity].
    - (* dec *) unfold bar_pos_update in *.
      set (s1 := upd_bar s 0 (fun x => set_b_pos x (wsub64 (b_pos x) d))) in *.
      destruct (ap_allow (b_ap (get_bar s1 0)) now) as [a ap'].
      set (s2 := upd_bar s1 0 (fun x => set_b_ap x ap')) in *.
      assert (Hsb2 : SB s2 (set_b_ap (set_b_pos b (wsub64 (b_pos b) d)) ap') tg).
      { unfold s2, s1.
        exact (SB_upd _ _ tg (fun x => set_b_ap x ap') (SB_upd s b tg (fun x => set_b_pos x (wsub64 (b_pos x) d)) Hsb eq_refl) eq_refl). }
      destruct a.
      + unfold bar_tick in *. eapply draw_op_gen; try reflexivity; try eassumption.
        apply SB_upd; [exact Hsb2 | reflexivity].
      + cbn [fst snd]. eapply nodraw_gen; [exact Hsb2 | exact Hinv | reflexivity].
    - (* set_position *) unfold bar_pos_update in *.
      set (s1 := upd_bar s 0 (fun x => set_b_pos x p)) in *.
      destruct (ap_allow (b_ap (get_bar s1 0)) now) as [a ap'].
      set (s2 := upd_bar s1 0 (fun x => set_b_ap x ap')) in *.
      assert (Hsb2 : SB s2 (set_b_ap (set_b_pos b p) ap') tg).
      { unfold s2, s1.
        exact (SB_upd _ _ tg (fun x => set_b_ap x ap') (SB_upd s b tg (fun x => set_b_pos x p) Hsb eq_refl) eq_refl). }
      destruct a.
      + unfold bar_tick in *. eapply draw_op_gen; try reflexivity; try eassumption.
        apply SB_upd; [exact Hsb2 | reflexivity].
      + cbn [fst snd]. eapply nodraw_gen; [exact Hsb2 | exact Hinv | reflexivity].
    - (* set_length *)
      eapply draw_op_gen; try reflexivity; try eassumption. apply SB_upd; [exact Hsb | reflexivity].
    - (* inc_length *)
      eapply draw_op_gen; try reflexivity; try eassumption. apply SB_upd; [exact Hsb | reflexivity].
    - (* dec_length *)
      eapply draw_op_gen; try reflexivity; try eassumption. apply SB_upd; [exact Hsb | reflexivity].
    - (* unset_length *)
      eapply draw_op_gen; try reflexivity; try eassumption. apply SB_upd; [exact Hsb | reflexivity].
    - (* set_message *)
      eapply draw_op_gen; try reflexivity; try eassumption. apply SB_upd; [exact Hsb | reflexivity].
    - (* set_prefix *)
      eapply draw_op_gen; try reflexivity; try eassumption. apply SB_upd; [exact Hsb | reflexivity].
    - (* set_style *)
      eapply nodraw_gen; [apply SB_upd; [exact Hsb | reflexivity] | exact Hinv | reflexivity].
    - (* println *)
      unfold bar_println in *. rewrite Hget in *. destruct Hsb as [Hs Ht]. rewrite Ht in *.
      pose proof (I_draw tg t (g_log g) (map lt (g_frame g)) (text_lines m) (frame_of b) (s_calls s)
                    Hinv (text_lines_texts m) (frame_of_bars b)) as Hd.
      pose proof (term_draw_nonempty W H tg (text_lines m ++ frame_of b) (s_calls s)) as Hne.
      destruct (term_draw W H nofail tg (text_lines m ++ frame_of b) (s_calls s)) as [[[tg2 e2] c2] ok2].
      cbn [fst snd] in *.
      assert (Hsb' : SB (set_s_calls (upd_bar s 0 (fun x => set_b_target x (TTerm tg2))) c2)
                        (set_b_target b (TTerm tg2)) tg2).
      { apply SB_calls. apply (SB_upd_target s b tg). split; assumption. }
      rewrite (SB_get _ _ _ Hsb'), frame_of_set_target in Hfit.
      exists (set_b_target b (TTerm tg2)), tg2. cbn [fst snd]. split; [exact Hsb'|].
      unfold gstep. cbn [g_log g_frame op_log]. rewrite <- text_lines_lt.
      rewrite (SB_get _ _ _ Hsb'), frame_of_set_target.
      destruct e2; [congruence|]. apply Hd. apply Hfit. discriminate.
    - (* suspend *)
      unfold bar_suspend in *. rewrite Hget in *. pose proof Hsb as [Hs Ht]. rewrite Ht in *.
      pose proof (I_draw tg t (g_log g) (map lt (g_frame g)) [] [] (s_calls s)
                    Hinv (Forall_nil _) (Forall_nil _) ok_nil) as Hd.
      cbn [app map] in Hd. rewrite app_nil_r in Hd.
      pose proof (term_draw_nonempty W H tg [] (s_calls s)) as Hne.
      pose proof (clear_draw_col W H tg t (s_calls s) (I_top _ _ _ _ Hinv) (I_pos _ _ _ _ Hinv)) as Hcol.
      assert (Hbn : bar_n s = tt_n tg) by (unfold bar_n; rewrite Hget, Ht; reflexivity).
      rewrite Hbn in Hsus.
      destruct (term_draw W H nofail tg [] (s_calls s)) as [[[tg1 e1] c1] ok1].
      cbn [fst snd] in Hd, Hne, Hcol. fold Wn Hn in Hcol. rewrite emit_each_nofail in *.
      set (s1 := set_s_calls (upd_bar s 0 (fun x => set_b_target x (TTerm tg1)))
                             (c1 + N.of_nat (length (map TLine ws)))) in *.
      assert (Hsb1 : SB s1 (set_b_target b (TTerm tg1)) tg1).
      { apply SB_calls. apply (SB_upd_target s b tg). exact Hsb. }
      destruct (bar_draw W H nofail s1 0 true now) as [s2 e3] eqn:Ed. cbn [fst snd] in *.
      assert (Hfirst : match ws with [] :: _ => t_col (run_ops Wn Hn t e1) = 0%nat | _ => True end).
      { destruct ws as [|[|c0 w0] ws0]; try exact Logic.I. cbn [suspend_okb] in Hsus.
        rewrite Hcol. destruct (N.eqb_spec (tt_n tg) 0) as [E0|E0]; [|reflexivity].
        rewrite E0 in Hsus. cbn [N.ltb N.compare orb] in Hsus.
        apply Hedge. destruct (g_edge g); [discriminate | reflexivity]. }
      pose proof (writes_gen tg1 ws _ _ Hd Hfirst) as Hw.
      destruct (bar_draw_gen _ _ _ _ _ [] _ _ _ _ Hsb1 Hw Ed) as (b' & tg' & Hsb' & Hfr & Hforce & Hi).
      specialize (Hforce eq_refl).
      rewrite frame_of_set_target in Hfr, Hi.
      rewrite (SB_get _ _ _ Hsb'), Hfr in Hfit.
      exists b', tg'. cbn [fst snd]. split; [exact Hsb'|].
      unfold gstep. cbn [g_log g_frame op_log]. rewrite (SB_get _ _ _ Hsb'), Hfr.
      rewrite !run_ops_app.
      assert (Hne3 : e1 ++ map TLine ws ++ e3 <> []).
      { intros Hnil. apply app_eq_nil in Hnil. destruct Hnil as [Hn1 _]. congruence. }
      specialize (Hi (fun _ => Hfit Hne3)).
      destruct (e1 ++ map TLine ws ++ e3) eqn:Ee; [congruence|].
      destruct e3; [congruence | exact Hi].
    - (* reset *)
      eapply draw_op_gen; try reflexivity; try eassumption. apply SB_upd; [exact Hsb | reflexivity].
    - (* reset_eta *) eapply nodraw_gen; [exact Hsb | exact Hinv | reflexivity].
    - (* reset_elapsed *) eapply nodraw_gen; [exact Hsb | exact Hinv | reflexivity].
    - (* finish* / abandon* *)
      unfold bar_finish in *.
      eapply draw_op_gen; try reflexivity; try eassumption.
      apply SB_upd; [exact Hsb | apply finish_target].
    - (* finish_using_style *)
      unfold bar_finish in *.
      eapply draw_op_gen; try reflexivity; try eassumption.
      apply SB_upd; [exact Hsb | apply finish_target].
    - (* force_draw *)
      eapply draw_op_gen; try reflexivity; eassumption.
    - (* set_tab_width *)
      eapply draw_op_gen; try reflexivity; eassumption.
    - (* drop *)
      unfold bar_drop in *. rewrite Hget in *.
      destruct (finished b) eqn:Efin.
      + cbn [fst snd] in *.
        assert (Hmz : mark_zombie W s 0 = s).
        { unfold mark_zombie. rewrite Hget. destruct Hsb as [_ Ht]. now rewrite Ht. }
        rewrite Hmz in *.
        eapply nodraw_gen; [apply SB_upd; [exact Hsb | reflexivity] | exact Hinv | reflexivity].
      + unfold bar_finish in *.
        set (s1 := upd_bar s 0 _) in *.
        destruct (bar_draw W H nofail s1 0 true now) as [s2 e] eqn:Ed. cbn [fst snd] in *.
        assert (Hsb1 : exists b1, SB s1 b1 tg).
        { eexists. apply SB_upd; [exact Hsb | apply finish_target]. }
        destruct Hsb1 as (b1 & Hsb1).
        destruct (bar_draw_gen _ _ _ t (g_log g) (map lt (g_frame g)) _ _ _ _ Hsb1 Hinv Ed)
          as (b' & tg' & Hsb' & Hfr & _ & Hi).
        assert (Hmz : mark_zombie W s2 0 = s2).
        { unfold mark_zombie. rewrite (SB_get _ _ _ Hsb'). destruct Hsb' as [_ Ht']. now rewrite Ht'. }
        rewrite Hmz in *.
        assert (Hsb3 : SB (upd_bar s2 0 (fun x => set_b_alive x false)) (set_b_alive b' false) tg').
        { exact (SB_upd s2 b' tg' (fun x => set_b_alive x false) Hsb' eq_refl). }
        rewrite (SB_get _ _ _ Hsb3), frame_of_set_alive, Hfr in Hfit.
        exists (set_b_alive b' false), tg'. cbn [fst snd]. split; [exact Hsb3|].
        unfold gstep. cbn [g_log g_frame op_log]. rewrite app_nil_r.
        rewrite (SB_get _ _ _ Hsb3), frame_of_set_alive, Hfr.
        specialize (Hi Hfit). destruct e; exact Hi.
  Qed.
  (** the side condition along a history *)
  Fixpoint ok_hist (s : sys) (h : list (N * op)) : Prop :=
    match h with
    | [] => True
    | x :: r =>
        (snd (fst (step W H nofail s (fst x) (snd x))) <> [] ->
         ok (op_texts (snd x)) (frame_of (get_bar (fst (fst (step W H nofail s (fst x) (snd x)))) 0)))
        /\ ok_hist (fst (fst (step W H nofail s (fst x) (snd x)))) r
    end.

  Lemma sb_step_sys s g t x : fst (fst (sb_step W H (s, g, t) x)) = fst (fst (step W H nofail s (fst x) (snd x))).
  Proof. unfold sb_step. destruct (step W H nofail s (fst x) (snd x)) as [[s' e] r]. reflexivity. Qed.

  (** the ghost flag [g_edge] is false only when the cursor is at column 0 *)
  Lemma edge_step s g t x :
    (g_edge g = false -> t_col t = 0%nat) ->
    (g_edge (snd (fst (sb_step W H (s, g, t) x))) = false -> t_col (snd (sb_step W H (s, g, t) x)) = 0%nat).
  Proof.
    intros Hedge. unfold sb_step. destruct (step W H nofail s (fst x) (snd x)) as [[s' e] r].
    cbn [fst snd gstep g_edge].
    pose proof (col_after Wn Hn e None (t_col t) t eq_refl) as Hc.
    unfold Wn, Hn in Hc.
    destruct (last_write e None) as [[]|]; cbn [col_ok] in Hc; intros Hf; try discriminate; try exact Hc.
    rewrite Hc. exact (Hedge Hf).
  Qed.

  Lemma run_gen : forall h s g t,
    SInv (s, g, t) -> (g_edge g = false -> t_col t = 0%nat) ->
    hist_ok W H s g h -> ok_hist s h -> SInv (sb_run W H (s, g, t) h).
  Proof using ok_nil I_same I_draw I_write I_top I_pos.
    induction h as [|[now o] h IH]; intros s g t Hinv Hedge Hok Hfit; [exact Hinv|].
    unfold sb_run. cbn [fold_left]. fold (sb_run W H).
    unfold hist_ok in Hok. cbn [hist_okb fst snd] in Hok.
    apply andb_prop in Hok. destruct Hok as [Hok Hrest]. apply andb_prop in Hok. destruct Hok as [Hc Hs].
    destruct Hfit as [Hf1 Hf2]. cbn [fst snd] in Hf1, Hf2.
    pose proof (step_gen s g t now o Hinv Hedge Hc Hs Hf1) as Hinv'.
    pose proof (edge_step s g t (now, o) Hedge) as Hedge'.
    unfold sb_step in *. cbn [fst snd] in *.
    destruct (step W H nofail s now o) as [[s' e] r]. cbn [fst snd] in *.
    apply IH; assumption.
  Qed.
End GenInv.

Section C01.
  Variable W H : N.
  Hypothesis HW : 1 <= W.
  Hypothesis HH : 1 <= H.
  Variable pre : list (list N).
  Let Wn := N.to_nat W.
  Let Hn := N.to_nat H.

  Definition fit_ok (texts bars : list line) : Prop := visual_line_count bars W <= H.

  Lemma TInv_same tg tg' t log frame :
    tt_n tg' = tt_n tg -> tt_align tg' = tt_align tg -> tt_below tg' = tt_below tg ->
    TInv W H pre tg t log frame -> TInv W H pre tg' t log frame.
  Proof. unfold TInv. intros -> -> ->. exact (fun x => x). Qed.

  Lemma TInv_draw tg t log frame texts bars c :
    TInv W H pre tg t log frame ->
    Forall (fun l => is_bar l = false) texts -> Forall (fun l => is_bar l = true) bars ->
    fit_ok texts bars ->
    TInv W H pre (fst (fst (fst (term_draw W H nofail tg (texts ++ bars) c))))
      (run_ops Wn Hn t (snd (fst (fst (term_draw W H nofail tg (texts ++ bars) c)))))
      (log ++ map lt texts) (map lt bars).
  Proof using HW HH.
    intros Hi Ht Hb Hf.
    pose proof (term_draw_inv W H HW HH pre tg t log frame texts bars c Hi Ht Hb Hf) as Hd.
    destruct (term_draw W H nofail tg (texts ++ bars) c) as [[[tg' e] c'] r]. cbn [fst snd].
    exact (proj1 Hd).
  Qed.

  Lemma TInv_write tg t log w :
    TInv W H pre tg t log [] -> (w <> [] \/ t_col t = 0%nat) ->
    TInv W H pre tg (exec Wn Hn t (TLine w)) (log ++ [w]) [].
  Proof using HW HH.
    assert (HWn : (1 <= Wn)%nat) by (unfold Wn; lia).
    assert (HHn : (1 <= Hn)%nat) by (unfold Hn; lia).
    intros Hinv Hw.
    destruct Hinv as (Hal & L & F & Hr & HL & HF & Hlen & Hreach & Hbelow).
    assert (HF0 : F = []).
    { apply rows_equiv_length in HF. cbn in HF. destruct F; [reflexivity | discriminate]. }
    subst F. rewrite app_nil_r in Hr. cbn [length] in Hlen.
    destruct (line_spec Wn Hn (pre ++ L) t w HWn HHn Hr Hw) as (Hr' & Hc' & Hre').
    split; [exact Hal|]. exists (L ++ chunks Wn w), [].
    rewrite app_nil_r. repeat split.
    + rewrite app_assoc. exact Hr'.
    + rewrite wrap_app. apply rows_equiv_app; [exact HL|]. unfold wrap. cbn. rewrite app_nil_r. apply rows_equiv_refl.
    + exact Hlen.
    + lia.
    + lia.
    + lia.
  Qed.

  Lemma fits_ok_hist : forall h s, Fits W H s h -> ok_hist W H fit_ok s h.
  Proof.
    induction h as [|x h IH]; intros s Hf; [exact Logic.I|].
    unfold Fits in Hf. cbn [fitsb] in Hf. apply andb_prop in Hf. destruct Hf as [Hf1 Hf2].
    cbn [ok_hist]. split; [|apply IH; exact Hf2].
    unfold fits_step in Hf1. destruct (step W H nofail s (fst x) (snd x)) as [[s' e] r]. cbn [fst snd].
    intros Hne. destruct e; [congruence|]. unfold fit_ok. apply N.leb_le. exact Hf1.
  Qed.

  (** the invariant after every history *)
  Lemma c01_invariant s0 t0 h :
    sb_initial s0 -> ready Wn Hn pre t0 -> hist_ok W H s0 (ghost_for t0) h -> Fits W H s0 h ->
    SInv (TInv W H pre) (sb_run W H (s0, ghost_for t0, t0) h).
  Proof using HW HH.
    intros (b & tg & Hs & Ht & Hn0 & Hal & Hbel) Hr Hok Hfit.
    apply (run_gen W H fit_ok (TInv W H pre)).
    - unfold fit_ok. cbn. lia.
    - intros tg1 tg1' t1 l1 f1 E1 E2 E3 Hi1. exact (TInv_same tg1 tg1' t1 l1 f1 E1 E2 E3 Hi1).
    - intros tg1 t1 l1 f1 tx bs c1 Hi1 Htx Hbs Hk. exact (TInv_draw tg1 t1 l1 f1 tx bs c1 Hi1 Htx Hbs Hk).
    - intros tg1 t1 l1 w1 Hi1 Hw1. exact (TInv_write tg1 t1 l1 w1 Hi1 Hw1).
    - intros tg1 t1 l1 f1 Hi1. exact (proj1 Hi1).
    - intros tg1 t1 l1 f1 _ _. exact HH.
    - exists b, tg. cbn [fst snd ghost_for g_log g_frame map]. split; [split; assumption|].
      split; [exact Hal|]. exists [], []. rewrite !app_nil_r. rewrite Hn0. cbn.
      repeat split; try assumption; try reflexivity; lia.
    - cbn [ghost_for g_edge]. intros He. destruct (Nat.eqb_spec (t_col t0) 0); [assumption | discriminate].
    - exact Hok.
    - apply fits_ok_hist. exact Hfit.
  Qed.


  (** C01: the screen equation and the cursor clause *)
  Theorem c01_screen s0 t0 h :
    sb_initial s0 -> ready Wn Hn pre t0 -> hist_ok W H s0 (ghost_for t0) h -> Fits W H s0 h ->
    let g := snd (fst (sb_run W H (s0, ghost_for t0, t0) h)) in
    let t := snd (sb_run W H (s0, ghost_for t0, t0) h) in
    (exists k, screen Wn t = map (pad Wn) (expected_rows W pre g) ++ repeat (repeat SP Wn) k)
    /\ next_cell Wn t = (length (expected_rows W pre g), 0%nat).
  Proof using HW HH.
    intros Hinit Hr Hok Hfit. cbv zeta.
    pose proof (c01_invariant s0 t0 h Hinit Hr Hok Hfit) as Hinv.
    destruct (sb_run W H (s0, ghost_for t0, t0) h) as [[s g] t]. unfold SInv in Hinv. cbn [fst snd] in *.
    destruct Hinv as (b & tg & _ & _ & L & F & Hready & HL & HF & _).
    assert (HWn : (1 <= Wn)%nat) by (unfold Wn; lia).
    unfold expected_rows. unfold Wn, Hn in *. split.
    - destruct (ready_all_rows _ _ _ _ Hready) as (k & Hall). exists k.
      unfold screen. rewrite Hall. rewrite !map_app. unfold rows_equiv in HL, HF. rewrite HL, HF.
      rewrite map_repeat', pad_nil. now rewrite <- !app_assoc.
    - rewrite (ready_row _ _ _ _ HWn Hready). rewrite !app_length.
      now rewrite (rows_equiv_length _ _ _ HL), (rows_equiv_length _ _ _ HF).
  Qed.
End C01.

(** the hypotheses of a history hold for each of its prefixes: the theorem is about the state
    after EVERY op *)
Lemma fits_prefix W H : forall h1 h2 s, Fits W H s (h1 ++ h2) -> Fits W H s h1.
Proof.
  unfold Fits. induction h1 as [|x h1 IH]; intros h2 s Hf; [reflexivity|].
  cbn [app fitsb] in *. apply andb_prop in Hf. destruct Hf as [Ha Hb].
  rewrite Ha. cbn [andb]. eapply IH. exact Hb.
Qed.

Lemma hist_ok_prefix W H : forall h1 h2 s g, hist_ok W H s g (h1 ++ h2) -> hist_ok W H s g h1.
Proof.
  unfold hist_ok. induction h1 as [|x h1 IH]; intros h2 s g Hf; [reflexivity|].
  cbn [app hist_okb] in *. apply andb_prop in Hf. destruct Hf as [Ha Hb]. rewrite Ha. cbn [andb].
  destruct (step W H nofail s (fst x) (snd x)) as [[s' e] r]. eapply IH. exact Hb.
Qed.

Theorem c01_screen_every_prefix W H pre s0 t0 h1 h2 :
  1 <= W -> 1 <= H ->
  sb_initial s0 -> ready (N.to_nat W) (N.to_nat H) pre t0 ->
  hist_ok W H s0 (ghost_for t0) (h1 ++ h2) -> Fits W H s0 (h1 ++ h2) ->
  let g := snd (fst (sb_run W H (s0, ghost_for t0, t0) h1)) in
  let t := snd (sb_run W H (s0, ghost_for t0, t0) h1) in
  (exists k, screen (N.to_nat W) t
             = map (pad (N.to_nat W)) (expected_rows W pre g) ++ repeat (repeat SP (N.to_nat W)) k)
  /\ next_cell (N.to_nat W) t = (length (expected_rows W pre g), 0%nat).
Proof.
  intros HW HH Hi Hr Hok Hf.
  exact (c01_screen W H HW HH pre s0 t0 h1 Hi Hr (hist_ok_prefix _ _ _ _ _ _ Hok) (fits_prefix _ _ _ _ _ Hf)).
Qed.

(* ================================================================== C19 *)
Lemma paint_real W H : forall ls idx total real,
  snd (paint ls idx total W H real) = real + bar_rows (painted ls W H real) W.
Proof.
  induction ls as [|l r IH]; intros idx total real; cbn [paint painted].
  - unfold bar_rows. cbn. lia.
  - destruct (is_bar l && (H <? real + wrapped_height l W)) eqn:E.
    + unfold bar_rows. cbn. lia.
    + specialize (IH (idx + 1) total (if is_bar l then real + wrapped_height l W else real)).
      destruct (paint r (idx + 1) total W H (if is_bar l then real + wrapped_height l W else real)) as [ops rf].
      cbn [snd] in *. rewrite IH. unfold bar_rows. cbn [filter].
      destruct (is_bar l); [rewrite visual_line_count_cons|]; lia.
Qed.

Lemma painted_texts_bars W H texts : forall bars real,
  Forall (fun l => is_bar l = false) texts ->
  painted (texts ++ bars) W H real = texts ++ painted bars W H real.
Proof.
  induction texts as [|x texts IH]; intros bars real Ht; [reflexivity|].
  inversion Ht as [|y l Hx Ht']; subst. cbn [app painted]. rewrite Hx. cbn [andb].
  f_equal. apply IH. exact Ht'.
Qed.

Lemma bar_line_eta l : is_bar l = true -> mkline KBar (lt l) = l.
Proof. destruct l as [k s]. unfold is_bar. cbn. destruct k; congruence. Qed.

Lemma bars_eta bars : Forall (fun l => is_bar l = true) bars -> map (mkline KBar) (map lt bars) = bars.
Proof.
  induction 1 as [|l bars Hl Hb IH]; [reflexivity|]. cbn [map]. now rewrite bar_line_eta, IH.
Qed.

(** the maximal prefix of the frame whose accumulated rows fit the height *)
Definition fitting_prefix (W H : N) (frame : list line) : list line := painted frame W H 0.

(** C19 (c), one draw: the new last_line_count is the number of rows of the fitting prefix of the
    Bar lines, at most H; the prefix is maximal; it is everything as soon as everything fits *)
Lemma draw_rows_bounded W H ls n below :
  let n' := snd (fst (draw_to_term ls n Top below W H)) in
  let P := painted ls W H 0 in
  n' = bar_rows P W /\ n' <= H
  /\ (exists rest, ls = P ++ rest
        /\ match rest with
           | [] => True
           | l :: _ => is_bar l = true /\ H < bar_rows P W + wrapped_height l W
           end)
  /\ (bar_rows ls W <= H -> P = ls).
Proof.
  cbv zeta. rewrite draw_to_term_top_eq_min. cbn [fst snd]. rewrite paint_real.
  pose proof (painted_bar_rows_le W H ls 0 ltac:(lia)) as Hle.
  destruct (painted_prefix W H ls 0) as (rest & Heq & Hrest).
  repeat split; try lia.
  - exists rest. split; [exact Heq|]. destruct rest; [exact I|]. destruct Hrest. split; [assumption | lia].
  - intros Hfit. apply painted_all. lia.
Qed.

Lemma ghost_frame_bars W H : forall h st,
  Forall (fun l => is_bar l = true) (g_frame (snd (fst st))) ->
  Forall (fun l => is_bar l = true) (g_frame (snd (fst (sb_run W H st h)))).
Proof.
  induction h as [|x h IH]; intros st Hst; [exact Hst|].
  unfold sb_run. cbn [fold_left]. apply IH.
  destruct st as [[s g] t]. unfold sb_step.
  destruct (step W H nofail s (fst x) (snd x)) as [[s' e] r]. cbn [fst snd gstep g_frame] in *.
  destruct e; [exact Hst | apply frame_of_bars].
Qed.

Section C19History.
  Variable W H : N.

  Definition RInv (tg : ttarget) (t : term) (log frame : list text) : Prop :=
    tt_align tg = Top
    /\ tt_n tg = bar_rows (fitting_prefix W H (map (mkline KBar) frame)) W.

  Lemma RInv_draw tg t log frame texts bars c :
    RInv tg t log frame ->
    Forall (fun l => is_bar l = false) texts -> Forall (fun l => is_bar l = true) bars ->
    True ->
    RInv (fst (fst (fst (term_draw W H nofail tg (texts ++ bars) c))))
      (run_ops (N.to_nat W) (N.to_nat H) t (snd (fst (fst (term_draw W H nofail tg (texts ++ bars) c)))))
      (log ++ map lt texts) (map lt bars).
  Proof.
    intros [Hal _] Ht Hb _. unfold term_draw. rewrite Hal.
    pose proof (draw_rows_bounded W H (texts ++ bars) (tt_n tg) (tt_below tg)) as Hd. cbv zeta in Hd.
    destruct (draw_to_term (texts ++ bars) (tt_n tg) Top (tt_below tg) W H) as [[ops n'] below'].
    rewrite emit_nofail. cbn [fst snd tt_n tt_align] in *. destruct Hd as (Hn' & _).
    split; [reflexivity|]. cbn [tt_n]. rewrite Hn'. unfold fitting_prefix.
    rewrite (bars_eta bars Hb), (painted_texts_bars W H texts bars 0 Ht).
    unfold bar_rows. rewrite filter_app.
    assert (E : filter is_bar texts = []).
    { clear -Ht. induction Ht as [|x l Hx Ht IH]; [reflexivity|]. cbn. now rewrite Hx. }
    now rewrite E.
  Qed.

  (** C19 (c) over every history (no Fits proviso): after every op, last_line_count is the number
      of rows of the maximal fitting prefix of the frame of the last painted draw, hence <= H *)
  Theorem c19_rows_bounded s0 t0 h :
    sb_initial s0 -> hist_ok W H s0 (ghost_for t0) h ->
    let st := sb_run W H (s0, ghost_for t0, t0) h in
    exists b tg, s_bars (fst (fst st)) = [b] /\ b_target b = TTerm tg
      /\ tt_n tg = bar_rows (fitting_prefix W H (g_frame (snd (fst st)))) W
      /\ tt_n tg <= H.
  Proof.
    intros (b & tg & Hs & Ht & Hn0 & Hal & Hbel) Hok. cbv zeta.
    assert (Hinv : SInv RInv (sb_run W H (s0, ghost_for t0, t0) h)).
    { apply (run_gen W H (fun _ _ => True) RInv).
      - exact Logic.I.
      - intros tg1 tg1' t1 l1 f1 E1 E2 E3 [Ha Hb]. split; congruence.
      - exact RInv_draw.
      - intros tg1 t1 l1 w1 Hi1 _. exact Hi1.
      - intros tg1 t1 l1 f1 Hi1. exact (proj1 Hi1).
      - intros tg1 t1 l1 f1 [_ Hn1] Hne. rewrite Hn1 in Hne.
        pose proof (painted_bar_rows_le W H (map (mkline KBar) f1) 0) as Hle. unfold fitting_prefix in Hne.
        destruct (N.eq_dec H 0) as [E0|E0]; [|lia]. exfalso. apply Hne.
        specialize (Hle ltac:(lia)). lia.
      - exists b, tg. cbn [fst snd ghost_for g_log g_frame map]. split; [split; assumption|].
        split; [exact Hal|]. rewrite Hn0. reflexivity.
      - cbn [ghost_for g_edge]. intros He. destruct (Nat.eqb_spec (t_col t0) 0); [assumption | discriminate].
      - exact Hok.
      - clear. revert s0. induction h as [|x h IH]; intros s0; cbn [ok_hist]; [exact Logic.I|].
        split; [intros _; exact Logic.I | apply IH]. }
    pose proof (ghost_frame_bars W H h (s0, ghost_for t0, t0) (Forall_nil _)) as Hgb.
    destruct (sb_run W H (s0, ghost_for t0, t0) h) as [[s g] t]. unfold SInv in Hinv. cbn [fst snd] in *.
    destruct Hinv as (b' & tg' & [Hs' Ht'] & Hal' & Hn').
    exists b', tg'. split; [exact Hs'|]. split; [exact Ht'|].
    rewrite (bars_eta _ Hgb) in Hn'. split; [exact Hn'|]. rewrite Hn'.
    pose proof (painted_bar_rows_le W H (g_frame g) 0 ltac:(lia)). unfold fitting_prefix. lia.
  Qed.
End C19History.

(* ------------------------------------------------------------------ C19 (d): erase exactness without Fits *)
Local Open Scope nat_scope.
(** the clear loop from the END of the last of the n rows [F] (any column: a frame cut by the
    height `break` gets no filler): exactly the rows of F are blanked, nothing above *)
Lemma erase_at_end Wn Hn C F k v (n : N) :
  F <> [] -> length F = N.to_nat n -> N.to_nat n - 1 <= v -> v <= Hn - 1 ->
  run_ops Wn Hn (at_end (C ++ F) k v) (clear_ops n)
  = app_state C [] (N.to_nat n - 1 + k) (v - (N.to_nat n - 1)).
Proof.
  intros HF Hlen Hv Hh. unfold at_end. rewrite removelast_app by exact HF.
  assert (Hn1 : (1 <= n)%N) by (destruct F; [congruence | cbn in Hlen; lia]).
  rewrite erase_raw; unfold app_state; cbn [t_above t_cur t_below t_col t_vis];
    try rewrite rev_length, app_length, removelast_length; try lia.
  rewrite rev_app_distr, skipn_app, rev_length, removelast_length, Hlen.
  rewrite skipn_all2 by (rewrite rev_length, removelast_length; lia).
  replace (N.to_nat n - 1 - (N.to_nat n - 1)) with 0 by lia. cbn [skipn app].
  rewrite <- repeat_app. reflexivity.
Qed.
Local Open Scope N_scope.

Section C19Erase.
  Variable W H : N.
  Hypothesis HW : 1 <= W.
  Hypothesis HH : 1 <= H.
  Variable pre : list (list N).
  Let Wn := N.to_nat W.
  Let Hn := N.to_nat H.

  (** the side condition: text lines are only drawn together with a frame whose first Bar line
      fits the height (otherwise the `break` leaves the cursor behind the text: class
      'text-drawn-while-no-bar-line-fits', see C19_text_cut_refuted) *)
  Definition cut_ok (texts bars : list line) : Prop :=
    texts = [] \/ match bars with [] => True | l :: _ => wrapped_height l W <= H end.

  (** the terminal shows pre ++ log ++ (the fitting prefix of the frame); the cursor is at the
      end of the last painted row (any column), the painted rows are within reach *)
  Definition CInv (tg : ttarget) (t : term) (log frame : list text) : Prop :=
    tt_align tg = Top /\
    exists L F,
      rows_equiv Wn L (wrap Wn log)
      /\ rows_equiv Wn F (wrap Wn (map lt (fitting_prefix W H (map (mkline KBar) frame))))
      /\ length F = N.to_nat (tt_n tg)
      /\ ((F = [] /\ ready Wn Hn (pre ++ L) t)
          \/ (F <> [] /\ tt_below tg = false /\ exists k v,
                t = at_end (pre ++ L ++ F) k v /\ (v <= Hn - 1)%nat /\ (length F <= v + 1)%nat)).

  Lemma vlc_pos_rows bars : bars <> [] -> 1 <= visual_line_count bars W.
  Proof.
    destruct bars as [|l r]; [congruence|]. intros _. rewrite visual_line_count_cons.
    unfold wrapped_height. lia.
  Qed.

  Lemma CInv_draw tg t log frame texts bars c :
    CInv tg t log frame ->
    Forall (fun l => is_bar l = false) texts -> Forall (fun l => is_bar l = true) bars ->
    cut_ok texts bars ->
    CInv (fst (fst (fst (term_draw W H nofail tg (texts ++ bars) c))))
      (run_ops Wn Hn t (snd (fst (fst (term_draw W H nofail tg (texts ++ bars) c)))))
      (log ++ map lt texts) (map lt bars).
  Proof using HW HH.
    assert (HWn : (1 <= Wn)%nat) by (unfold Wn; lia).
    assert (HHn : (1 <= Hn)%nat) by (unfold Hn; lia).
    intros (Hal & L & F & HL & HF & Hlen & Hstate) Ht Hb Hok.
    assert (HnH : tt_n tg <= H).
    { destruct Hstate as [[HF0 _] | (_ & _ & k & v & _ & Hv & Hreach)].
      - subst F. cbn [length] in Hlen. lia.
      - unfold Hn in *. lia. }
    unfold term_draw. rewrite Hal. rewrite (draw_to_term_top_eq _ _ _ _ _ HnH). rewrite emit_nofail.
    cbn [fst snd]. rewrite paint_real. rewrite N.add_0_l.
    rewrite !app_assoc, run_ops_flush, run_ops_app.
    (* erase phase *)
    set (t1 := run_ops Wn Hn t ((if tt_below tg && (0 <? tt_n tg) then [TUp 1] else []) ++ clear_ops (tt_n tg))).
    assert (Hr1 : ready Wn Hn (pre ++ L) t1).
    { destruct Hstate as [[HF0 Hr] | (HFne & Hbel & k & v & Ht0 & Hv & Hreach)].
      - subst F. cbn [length] in Hlen. assert (Hn0 : tt_n tg = 0) by lia.
        unfold t1. rewrite Hn0, erase_spec_zero. exact Hr.
      - unfold t1. rewrite Hbel. cbn [andb app]. rewrite Ht0, app_assoc.
        rewrite erase_at_end by (assumption || lia). apply ready_start. lia. }
    destruct (paint_spec W H HW HH (pre ++ L) t1 (texts ++ bars) Hr1) as (_ & Pb & Pc).
    fold Wn Hn in Pc.
    rewrite (painted_texts_bars W H texts bars 0 Ht) in *.
    set (PB := painted bars W H 0) in *.
    assert (HPBbars : Forall (fun l => is_bar l = true) PB).
    { destruct (painted_prefix W H bars 0) as (rest & Heq & _). fold PB in Heq.
      rewrite Heq in Hb. apply Forall_app in Hb. exact (proj1 Hb). }
    assert (Hrows : bar_rows (texts ++ PB) W = visual_line_count PB W).
    { unfold bar_rows. now rewrite filter_bars_app. }
    rewrite Hrows.
    split; [reflexivity|]. cbn [tt_n tt_below].
    unfold fitting_prefix. rewrite (bars_eta bars Hb). fold PB.
    destruct (texts ++ PB) as [|p0 P0] eqn:EP.
    - (* nothing painted *)
      apply app_eq_nil in EP. destruct EP as [-> EPB]. rewrite EPB in *.
      rewrite (Pb eq_refl), run_ops_nil. exists L, []. cbn [map app]. rewrite app_nil_r.
      repeat split; try assumption; try apply rows_equiv_refl.
      left. split; [reflexivity | exact Hr1].
    - rewrite <- EP in *. destruct (Pc ltac:(rewrite EP; discriminate)) as (k & Hk & Hlast).
      set (R := paint_rows W true (Nat.eqb (length (texts ++ PB)) (length (texts ++ bars))) (texts ++ PB)) in *.
      destruct (paint_rows_equiv W HW (texts ++ PB) true
                  (Nat.eqb (length (texts ++ PB)) (length (texts ++ bars)))) as (HeR & HlR).
      fold R Wn in HeR, HlR. rewrite map_app, wrap_app in HeR.
      destruct (rows_equiv_split Wn R _ _ HeR) as (RT & RB & HRsplit & HeT & HeB).
      assert (HlenB : length RB = N.to_nat (visual_line_count PB W)).
      { rewrite (rows_equiv_length _ _ _ HeB), (visual_line_count_wrap PB W HW). fold Wn. lia. }
      exists (L ++ RT), RB.
      split; [rewrite wrap_app; apply rows_equiv_app; assumption|].
      split; [exact HeB|]. split; [exact HlenB|].
      destruct PB as [|pb PB'] eqn:EPB.
      + (* only text lines painted: by cut_ok there are no Bar lines at all -> complete *)
        left. assert (HRB : RB = []) by (destruct RB; [reflexivity | cbn in HlenB; lia]).
        split; [exact HRB|]. subst RB. rewrite app_nil_r in *.
        assert (Hbars : bars = []).
        { destruct Hok as [Htx | Hfirst].
          - subst texts. cbn in EP. discriminate.
          - destruct bars as [|l r]; [reflexivity|]. exfalso.
            unfold PB in EPB. cbn [painted] in EPB. inversion Hb as [|x y Hl Hr']; subst.
            rewrite Hl in EPB. cbn [andb] in EPB.
            destruct (N.ltb_spec H (0 + wrapped_height l W)); [lia | discriminate]. }
        assert (Htne : texts <> []) by (intros ->; discriminate).
        assert (HR : R = paint_rows W true true texts).
        { unfold R. rewrite Hbars, !app_nil_r, Nat.eqb_refl. reflexivity. }
        pose proof (paint_rows_last_full W HW texts true Htne) as Hfull. fold Wn in Hfull.
        pose proof (paint_rows_nonempty W true true texts Htne) as Hne.
        rewrite <- HR in Hfull, Hne.
        rewrite Hk, <- HRsplit. rewrite (app_assoc pre L R).
        apply at_end_ready; [destruct (pre ++ L); [exact Hne | discriminate] | | lia].
        rewrite last_app_ne by exact Hne. exact Hfull.
      + right. assert (HRBne : RB <> []).
        { pose proof (vlc_pos_rows (pb :: PB') ltac:(discriminate)) as Hpos.
          destruct RB; [cbn [length] in HlenB; lia | discriminate]. }
        split; [exact HRBne|].
        split.
        { destruct (texts ++ bars) as [|q0 Q0] eqn:Etb; [|reflexivity].
          apply app_eq_nil in Etb. destruct Etb as [_ Eb]. unfold PB in EPB. rewrite Eb in EPB.
          cbn in EPB. discriminate. }
        exists k, (Nat.min (Hn - 1) (reach t1 + length R - 1)).
        split; [rewrite Hk, HRsplit, <- !app_assoc; reflexivity|].
        split; [lia|].
        pose proof (painted_bar_rows_le W H bars 0 ltac:(lia)) as Hle. fold PB in Hle. rewrite EPB in Hle.
        unfold bar_rows in Hle. rewrite <- EPB in HPBbars.
        assert (Efil : filter is_bar (pb :: PB') = pb :: PB').
        { rewrite EPB in HPBbars. clear -HPBbars. induction HPBbars as [|x l Hx Hf IH]; [reflexivity|]. cbn. now rewrite Hx, IH. }
        rewrite Efil in Hle. rewrite HRsplit, app_length.
        assert ((length RB <= Hn)%nat) by (unfold Hn; lia). lia.
  Qed.
End C19Erase.

Section C19Screen.
  Variable W H : N.
  Hypothesis HW : 1 <= W.
  Hypothesis HH : 1 <= H.
  Variable pre : list (list N).
  Let Wn := N.to_nat W.
  Let Hn := N.to_nat H.

  Lemma CInv_same tg tg' t log frame :
    tt_n tg' = tt_n tg -> tt_align tg' = tt_align tg -> tt_below tg' = tt_below tg ->
    CInv W H pre tg t log frame -> CInv W H pre tg' t log frame.
  Proof. unfold CInv. intros -> -> ->. exact (fun x => x). Qed.

  Lemma CInv_write tg t log w :
    CInv W H pre tg t log [] -> (w <> [] \/ t_col t = 0%nat) ->
    CInv W H pre tg (exec Wn Hn t (TLine w)) (log ++ [w]) [].
  Proof using HW HH.
    assert (HWn : (1 <= Wn)%nat) by (unfold Wn; lia).
    assert (HHn : (1 <= Hn)%nat) by (unfold Hn; lia).
    intros (Hal & L & F & HL & HF & Hlen & Hstate) Hw.
    assert (HF0 : F = []).
    { apply rows_equiv_length in HF. cbn in HF. destruct F; [reflexivity | discriminate]. }
    subst F. destruct Hstate as [[_ Hr] | (HFne & _)]; [|congruence].
    destruct (line_spec Wn Hn (pre ++ L) t w HWn HHn Hr Hw) as (Hr' & _ & _).
    split; [exact Hal|]. exists (L ++ chunks Wn w), [].
    split; [rewrite wrap_app; apply rows_equiv_app; [exact HL|]; unfold wrap; cbn; rewrite app_nil_r; apply rows_equiv_refl|].
    split; [apply rows_equiv_refl|]. split; [exact Hlen|].
    left. split; [reflexivity|]. rewrite app_assoc. exact Hr'.
  Qed.

  Lemma no_text_cut_ok_hist : forall h s, NoTextCut W H s h -> ok_hist W H (cut_ok W H) s h.
  Proof.
    induction h as [|x h IH]; intros s Hf; [exact Logic.I|].
    unfold NoTextCut in Hf. cbn [no_text_cutb] in Hf. apply andb_prop in Hf. destruct Hf as [Hf1 Hf2].
    cbn [ok_hist]. split; [|apply IH; exact Hf2].
    unfold no_text_cut_step in Hf1. destruct (step W H nofail s (fst x) (snd x)) as [[s' e] r]. cbn [fst snd].
    intros _. unfold cut_ok. destruct (snd x); try (left; reflexivity).
    right. destruct (frame_of (get_bar s' 0)); [exact Logic.I | apply N.leb_le; exact Hf1].
  Qed.

  Lemma c19_invariant s0 t0 h :
    sb_initial s0 -> ready Wn Hn pre t0 -> hist_ok W H s0 (ghost_for t0) h -> NoTextCut W H s0 h ->
    SInv (CInv W H pre) (sb_run W H (s0, ghost_for t0, t0) h).
  Proof using HW HH.
    intros (b & tg & Hs & Ht & Hn0 & Hal & Hbel) Hr Hok Hcut.
    apply (run_gen W H (cut_ok W H) (CInv W H pre)).
    - left. reflexivity.
    - intros tg1 tg1' t1 l1 f1 E1 E2 E3 Hi1. exact (CInv_same tg1 tg1' t1 l1 f1 E1 E2 E3 Hi1).
    - intros tg1 t1 l1 f1 tx bs c1 Hi1 Htx Hbs Hk. exact (CInv_draw W H HW HH pre tg1 t1 l1 f1 tx bs c1 Hi1 Htx Hbs Hk).
    - intros tg1 t1 l1 w1 Hi1 Hw1. exact (CInv_write tg1 t1 l1 w1 Hi1 Hw1).
    - intros tg1 t1 l1 f1 Hi1. exact (proj1 Hi1).
    - intros tg1 t1 l1 f1 _ _. exact HH.
    - exists b, tg. cbn [fst snd ghost_for g_log g_frame map]. split; [split; assumption|].
      split; [exact Hal|]. exists [], []. rewrite Hn0. cbn [length N.to_nat].
      split; [apply rows_equiv_refl|]. split; [apply rows_equiv_refl|]. split; [reflexivity|].
      left. split; [reflexivity|]. rewrite app_nil_r. exact Hr.
    - cbn [ghost_for g_edge]. intros He. destruct (Nat.eqb_spec (t_col t0) 0); [assumption | discriminate].
    - exact Hok.
    - apply no_text_cut_ok_hist. exact Hcut.
  Qed.

  (** C19 (d) as a screen equation, WITHOUT the Fits proviso: after every history the terminal
      shows exactly the log and the maximal fitting prefix of the frame - every earlier frame,
      wrapped and cut or not, has been blanked completely and nothing above it was touched
      (cursor-up was never clamped: the rows to erase are within reach, [CInv]) *)
  Theorem c19_erase_exact s0 t0 h :
    sb_initial s0 -> ready Wn Hn pre t0 -> hist_ok W H s0 (ghost_for t0) h -> NoTextCut W H s0 h ->
    let g := snd (fst (sb_run W H (s0, ghost_for t0, t0) h)) in
    let t := snd (sb_run W H (s0, ghost_for t0, t0) h) in
    exists k, screen Wn t = map (pad Wn) (expected_rows_cut W H pre g) ++ repeat (repeat SP Wn) k.
  Proof using HW HH.
    intros Hinit Hr Hok Hcut. cbv zeta.
    pose proof (c19_invariant s0 t0 h Hinit Hr Hok Hcut) as Hinv.
    pose proof (ghost_frame_bars W H h (s0, ghost_for t0, t0) (Forall_nil _)) as Hgb.
    destruct (sb_run W H (s0, ghost_for t0, t0) h) as [[s g] t]. unfold SInv in Hinv. cbn [fst snd] in *.
    destruct Hinv as (b & tg & _ & _ & L & F & HL & HF & _ & Hstate).
    rewrite (bars_eta _ Hgb) in HF.
    unfold expected_rows_cut, fit_prefix. unfold fitting_prefix in HF. unfold Wn, Hn in *.
    assert (Hall : exists k, all_rows t = (pre ++ L ++ F) ++ repeat [] k).
    { destruct Hstate as [[-> Hready] | (HFne & _ & k & v & -> & _)].
      - rewrite app_nil_r. exact (ready_all_rows _ _ _ _ Hready).
      - exists k. unfold at_end, all_rows, app_state. cbn [t_above t_cur t_below].
        rewrite rev_involutive.
        assert (Hne : pre ++ L ++ F <> []) by (destruct pre; [destruct L; [exact HFne | discriminate] | discriminate]).
        rewrite (app_removelast_last [] Hne) at 3. rewrite <- app_assoc. reflexivity. }
    destruct Hall as (k & Hall). exists k.
    unfold screen. rewrite Hall. rewrite !map_app. unfold rows_equiv in HL, HF. rewrite HL, HF.
    rewrite map_repeat', pad_nil. now rewrite <- !app_assoc.
  Qed.
End C19Screen.
