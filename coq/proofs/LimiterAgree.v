(** C05 – the two transcriptions of the limiters agree.
    model/Limiter.v (C05: explicit panic outcomes, `remainder as u64`) and model/Sys.v (the
    drawing-system model of C01-C04, C06, C18, C19 and of the MultiProgress theorems of C05: total
    functions, verdict first) each transcribe RateLimiter::{new,allow} (src/draw_target.rs:450-490)
    and AtomicPosition::{new,allow,reset} (src/state.rs:555-603).  Pointwise, on verdict AND next
    state: the position limiters agree in every state; the draw-target limiters agree in every
    state whose interval is positive and fits the `as u64` cast - in particular in every state
    reachable from `new` with a refresh rate in 1..=255 (interval <= 10^9). *)
From IndModel Require Limiter Sys.
From IndModel Require Import Base LimiterSys.
From IndGen Require Import Constants.
From IndProofs Require Import LimiterProofs LimiterSysProofs.
From Coq Require Import NArith Lia List Bool.
Import ListNotations.
Open Scope N_scope.
Arguments N.add : simpl never.
Arguments N.sub : simpl never.
Arguments N.mul : simpl never.
Arguments N.div : simpl never.
Arguments N.modulo : simpl never.
Arguments N.min : simpl never.

Lemma rl_new_agree R now : rl_to_sys (Limiter.rl_new R now) = Sys.rl_new R now.
Proof. reflexivity. Qed.

Lemma ap_new_agree now : ap_to_sys (Limiter.ap_new now) = Sys.ap_new now.
Proof. reflexivity. Qed.

Lemma ap_reset_agree a now : ap_to_sys (Limiter.ap_reset a now) = Sys.ap_reset (ap_to_sys a) now.
Proof. reflexivity. Qed.

Lemma ap_allow_agree a now :
  exists a' v, Limiter.ap_allow a now = Ok (a', v) /\ Sys.ap_allow (ap_to_sys a) now = (v, ap_to_sys a').
Proof.
  destruct (ap_allow_total a now) as (a' & v & H & _). exists a', v. split; [exact H|].
  revert H. unfold Limiter.ap_allow, Sys.ap_allow, ap_to_sys, sat_sub.
  cbn [Sys.ap_cap Sys.ap_prev Sys.ap_start].
  destruct (now <? Limiter.ap_start a); [intros H; injection H as <- <-; reflexivity|].
  destruct ((Limiter.ap_cap a =? 0) && ((now - Limiter.ap_start a) mod U64 - Limiter.ap_prev a <? AP_INTERVAL_NS));
    [intros H; injection H as <- <-; reflexivity|].
  destruct (N.min AP_MAX_BURST _ =? 0); [discriminate|].
  destruct (_ <? _); [discriminate|].
  intros H; injection H as <- <-. reflexivity.
Qed.

Lemma rl_allow_agree r now : 0 < Limiter.rl_interval r <= U64 ->
  exists r' v, Limiter.rl_allow r now = Ok (r', v) /\ Sys.rl_allow (rl_to_sys r) now = (v, rl_to_sys r').
Proof.
  intros [HI HU]. destruct (rl_allow_total r now HI) as (r' & v & H & _). exists r', v. split; [exact H|].
  revert H. unfold Limiter.rl_allow, Sys.rl_allow, rl_to_sys.
  cbn [Sys.rl_cap Sys.rl_prev Sys.rl_interval].
  destruct (now <? Limiter.rl_prev r); [intros H; injection H as <- <-; reflexivity|].
  destruct ((Limiter.rl_cap r =? 0) && (now - Limiter.rl_prev r <? Limiter.rl_interval r));
    [intros H; injection H as <- <-; reflexivity|].
  destruct (N.min RL_MAX_BURST _ =? 0); [discriminate|].
  assert (Hm : ((now - Limiter.rl_prev r) mod Limiter.rl_interval r) mod U64
               = (now - Limiter.rl_prev r) mod Limiter.rl_interval r).
  { apply N.mod_small. pose proof (N.mod_lt (now - Limiter.rl_prev r) (Limiter.rl_interval r)). lia. }
  rewrite Hm.
  destruct (_ <? _); [discriminate|].
  intros H; injection H as <- <-. reflexivity.
Qed.

(* both limiters, all five functions, in one statement (exported as C05_limiter_models_agree) *)
Theorem limiter_models_agree :
  (forall R now, rl_to_sys (Limiter.rl_new R now) = Sys.rl_new R now) /\
  (forall r now, 0 < Limiter.rl_interval r <= U64 ->
     exists r' v, Limiter.rl_allow r now = Ok (r', v) /\ Sys.rl_allow (rl_to_sys r) now = (v, rl_to_sys r')) /\
  (forall now, ap_to_sys (Limiter.ap_new now) = Sys.ap_new now) /\
  (forall a now,
     exists a' v, Limiter.ap_allow a now = Ok (a', v) /\ Sys.ap_allow (ap_to_sys a) now = (v, ap_to_sys a')) /\
  (forall a now, ap_to_sys (Limiter.ap_reset a now) = Sys.ap_reset (ap_to_sys a) now).
Proof.
  split; [exact rl_new_agree|]. split; [exact rl_allow_agree|]. split; [exact ap_new_agree|].
  split; [exact ap_allow_agree | exact ap_reset_agree].
Qed.
