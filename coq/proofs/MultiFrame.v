(** MultiProgress proofs for C02 / C03, part 2: what a multi draw hands to draw_to_term
    (C02_frame), how many rows it erases (I2) and the conservation laws of the two row counters
    last_line_count / zombie_lines_count (I1, counter level). *)
From IndModel Require Import MultiSpec.
From IndProofs Require Import MultiProofs.
From Coq Require Import Lia ZifyBool ZifyNat ZifyN.
Arguments N.add : simpl never.
Arguments N.sub : simpl never.
Arguments N.mul : simpl never.
Arguments N.div : simpl never.
Arguments N.modulo : simpl never.
Arguments N.min : simpl never.
Arguments nthN {A} l i d : simpl never.

Section Frame.
  Variable W H : N.
  Variable fails : N -> bool.

  Lemma tt_allow_fields t force now :
    tt_n (snd (tt_allow t force now)) = tt_n t /\ tt_below (snd (tt_allow t force now)) = tt_below t
    /\ tt_align (snd (tt_allow t force now)) = tt_align t.
  Proof.
    unfold tt_allow. destruct force; [auto|]. destruct (tt_rl t) as [r|]; [|auto].
    destruct (rl_allow r now) as [a r']. cbn. auto.
  Qed.

  (** [ms_draw_event] (the exact arguments of draw_to_term) is defined in model/MultiSpec.v *)
  Local Notation ms_draw_event := (MultiSpec.ms_draw_event W H).

  (** C02 (2) / I2: an attempted multi draw calls draw_to_term exactly once, with the lines
      [extra ++ orphans ++ members' stored lines in ordering order] and the erase count
      last_line_count (+ zombie_lines_count when text lines are drawn); a refused draw calls nothing *)
  Theorem ms_draw_frame m force extra now c :
    let r := ms_draw W H fails m force extra now c in
    if ms_attempt W m force extra now
    then snd (fst (fst r)) = fst (fst (emit fails c (fst (fst (ms_draw_event m extra)))))
    else snd (fst (fst r)) = [] /\ snd (fst r) = c.
  Proof.
    cbn zeta. unfold MultiSpec.ms_draw_event, ms_erase_n.
    destruct (ms_target m) as [|tg|i] eqn:Ht.
    - rewrite ms_draw_hidden by (rewrite Ht; discriminate). unfold ms_attempt. rewrite Ht. auto.
    - rewrite (ms_draw_unfold W H fails m force extra now c tg Ht). unfold ms_attempt. rewrite Ht.
      fold (ms_has_text m extra). cbn zeta.
      set (tg1 := if ms_has_text m extra then tt_adjust_clear tg (ms_zombie_lines m) else tg).
      destruct (tt_allow_fields tg1 (force || (0 <? visual_line_count (ms_orphans m) W)) now) as (En & Eb & _).
      destruct (fst (tt_allow tg1 _ now)); cbn [negb fst snd]; [|auto].
      unfold term_draw. cbn [tt_n tt_align tt_below]. rewrite En, Eb.
      assert (E1 : tt_n tg1 = tt_n tg + (if ms_has_text m extra then ms_zombie_lines m else 0)).
      { unfold tg1. destruct (ms_has_text m extra); cbn; lia. }
      assert (E2 : tt_below tg1 = tt_below tg) by (unfold tg1; destruct (ms_has_text m extra); reflexivity).
      rewrite E1, E2. cbn [target_n].
      destruct (draw_to_term _ _ (ms_align m) (tt_below tg) W H) as [[ops n'] below']. cbn [fst snd].
      destruct (emit fails c ops) as [[e c'] ok]. reflexivity.
    - rewrite ms_draw_hidden by (rewrite Ht; discriminate). unfold ms_attempt. rewrite Ht. auto.
  Qed.

  (** every line of the frame comes from exactly one place, members in ordering order *)
  Lemma ms_frame_members m extra :
    exists texts, ms_frame m extra = texts ++ concat (map (member_lines (ms_members m)) (ms_order m))
                  /\ texts = match extra with Some e => e | None => [] end ++ ms_orphans m.
  Proof. eexists. split; [|reflexivity]. unfold ms_frame. rewrite app_assoc. reflexivity. Qed.

  (* ---------------------------------------------------------------- the two counters *)
  Lemma mark_zombie_count m idx : region_count (ms_mark_zombie W m idx) = region_count m.
  Proof.
    unfold ms_mark_zombie, region_count. destruct (ms_order m) as [|first rest]; [reflexivity|].
    destruct (negb (idx =? first)); [reflexivity|].
    match goal with |- context [ms_remove_idx ?m0 idx] => destruct (remove_idx_other m0 idx) as (_ & _ & Ez & Et) end.
    rewrite Ez, Et. cbn [ms_target ms_zombie_lines set_ms_target set_ms_zombie_lines].
    destruct (ms_target m) as [|tg|i]; cbn [target_adjust_keep target_n tt_adjust_keep tt_n]; lia.
  Qed.

  (** Keep: the rows of a reaped bar move from last_line_count to zombie_lines_count, none is lost *)
  Lemma mark_zombie_keep m idx :
    target_n (ms_target (ms_mark_zombie W m idx)) <= target_n (ms_target m)
    /\ ms_zombie_lines m <= ms_zombie_lines (ms_mark_zombie W m idx).
  Proof.
    unfold ms_mark_zombie. destruct (ms_order m) as [|first rest]; [lia|].
    destruct (negb (idx =? first)); [cbn; lia|].
    match goal with |- context [ms_remove_idx ?m0 idx] => destruct (remove_idx_other m0 idx) as (_ & _ & Ez & Et) end.
    rewrite Ez, Et. cbn [ms_target ms_zombie_lines set_ms_target set_ms_zombie_lines].
    destruct (ms_target m) as [|tg|i]; cbn [target_adjust_keep target_n tt_adjust_keep tt_n]; lia.
  Qed.

  (** I1 (counter level) for MultiState::draw.
      refused: nothing is erased and [last_line_count + zombie_lines_count] is unchanged (the
      bookkeeping fix 7be6e32: a refused draw does not inflate the kept-rows counter);
      attempted: the draw erases [E = ms_erase_n] rows, [E <= last_line_count + zombie_lines_count],
      [E] = that sum when text lines are drawn, and afterwards the sum is the number of rows
      draw_to_term reports as drawn ([tt_n] after the paint) plus the kept rows it did not erase. *)
  Theorem ms_draw_count m force extra now c tg :
    ms_target m = TTerm tg ->
    let m' := fst (fst (fst (ms_draw W H fails m force extra now c))) in
    let E := ms_erase_n m extra in
    E <= region_count m
    /\ (ms_has_text m extra = true -> E = region_count m)
    /\ (ms_attempt W m force extra now = false -> region_count m' = region_count m)
    /\ (ms_attempt W m force extra now = true ->
          exists tg3, fst (fst (fst (term_draw W H fails
                         (mktt E (tt_rl (snd (tt_allow (if ms_has_text m extra then tt_adjust_clear tg (ms_zombie_lines m) else tg)
                                                        (force || (0 <? visual_line_count (ms_orphans m) W)) now)))
                               (ms_align m) (tt_below tg)) (ms_frame m extra) c))) = tg3
          /\ region_count m' = tt_n tg3 + (if ms_has_text m extra then 0 else ms_zombie_lines m)).
  Proof.
    intros Ht. cbn zeta. unfold ms_erase_n, region_count. rewrite Ht. cbn [target_n].
    split; [destruct (ms_has_text m extra); lia|]. split; [intros ->; reflexivity|].
    rewrite (ms_draw_unfold W H fails m force extra now c tg Ht). unfold ms_attempt. rewrite Ht.
    fold (ms_has_text m extra). cbn zeta.
    set (tg1 := if ms_has_text m extra then tt_adjust_clear tg (ms_zombie_lines m) else tg).
    destruct (tt_allow_fields tg1 (force || (0 <? visual_line_count (ms_orphans m) W)) now) as (En & Eb & _).
    assert (E1 : tt_n tg1 = tt_n tg + (if ms_has_text m extra then ms_zombie_lines m else 0)).
    { unfold tg1. destruct (ms_has_text m extra); cbn; lia. }
    assert (E2 : tt_below tg1 = tt_below tg) by (unfold tg1; destruct (ms_has_text m extra); reflexivity).
    destruct (fst (tt_allow tg1 _ now)); cbn [negb fst snd].
    - split; [discriminate|]. intros _. rewrite En, Eb, E1, E2. eexists. split; [reflexivity|].
      match goal with |- context [term_draw W H fails ?t ?l c] => destruct (term_draw W H fails t l c) as [[[tg3 e] c'] ok] end.
      cbn [fst snd].
      match goal with |- context [fold_left ms_remove_idx ?zs ?m0] =>
        destruct (fold_remove_other zs m0) as (_ & _ & Fz & Ft); set (m2 := fold_left ms_remove_idx zs m0) in * end.
      cbn [ms_target ms_zombie_lines set_ms_target set_ms_zombie_lines set_ms_orphans] in Fz, Ft.
      destruct (ms_has_text m extra).
      + rewrite Fz, Ft. cbn [target_n]. lia.
      + cbn [ms_target ms_zombie_lines set_ms_target set_ms_zombie_lines]. rewrite Fz, Ft.
        cbn [target_adjust_keep target_n tt_adjust_keep tt_n]. lia.
    - split; [|discriminate]. intros _. cbn [ms_target ms_zombie_lines set_ms_target set_ms_zombie_lines target_n].
      rewrite En, E1. destruct (ms_has_text m extra); lia.
  Qed.

  (** MultiState::clear erases every row of the region: last_line_count + zombie_lines_count *)
  Theorem ms_clear_count m c tg : ms_target m = TTerm tg ->
    let r := ms_clear W H fails m c in
    ms_zombie_lines (fst (fst (fst r))) = 0
    /\ snd (fst (fst r)) = fst (fst (emit fails c (fst (fst (draw_to_term [] (region_count m) (tt_align tg) (tt_below tg) W H))))).
  Proof.
    intros Ht. cbn zeta. unfold ms_clear, region_count. rewrite Ht. unfold term_draw. cbn [tt_adjust_clear tt_n tt_align tt_below target_n].
    destruct (draw_to_term [] (tt_n tg + ms_zombie_lines m) (tt_align tg) (tt_below tg) W H) as [[ops n'] below']. cbn [fst snd].
    destruct (emit fails c ops) as [[e c'] ok]. cbn. auto.
  Qed.
End Frame.

(* ------------------------------------------------------------------ top-level forms used by props/C02.v *)
Theorem sim_run_init (W H : N) (fails : N -> bool) (ops : list (N * op)) (s : sys) :
  init_ok s -> hist_ok W H fails s ops -> SimRun W H fails s (mkas [] []) ops.
Proof.
  intros Hi Hh. destruct (init_inv H fails s Hi) as [MI RF].
  exact (sim_run W H fails ops s (mkas [] []) MI RF Hh).
Qed.

Theorem interleaving_full (W H : N) (fails : N -> bool)
    (ts : list (list (N * op))) (l : list (N * op)) (s : sys) :
  Merge ts l -> init_ok s -> hist_ok W H fails s l ->
  SimRun W H fails s (mkas [] []) l
  /\ length l = length (concat ts) /\ (forall x, In x l <-> In x (concat ts)).
Proof.
  intros Hm Hi Hh. split; [exact (sim_run_init W H fails l s Hi Hh)|].
  split; [eapply Merge_length; eauto | eapply Merge_In; eauto].
Qed.

Theorem mark_zombie_counts (W : N) (m : mstate) (idx : N) :
  region_count (ms_mark_zombie W m idx) = region_count m
  /\ target_n (ms_target (ms_mark_zombie W m idx)) <= target_n (ms_target m)
  /\ ms_zombie_lines m <= ms_zombie_lines (ms_mark_zombie W m idx).
Proof.
  split; [apply mark_zombie_count; exact (fun _ => false) | apply mark_zombie_keep; exact (fun _ => false)].
Qed.
