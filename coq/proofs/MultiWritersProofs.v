(** Proofs for model/MultiInterleave.v part 4: several writers per bar at section granularity. *)
From IndModel Require Import MultiInterleave.
From IndProofs Require Import MultiProofs.
From Coq Require Import List NArith Lia Bool.
Import ListNotations.
Open Scope N_scope.

Lemma fupd_same {A} (f : N -> A) i v : fupd f i v i = v.
Proof. unfold fupd. rewrite N.eqb_refl. reflexivity. Qed.
Lemma fupd_other {A} (f : N -> A) i j v : j <> i -> fupd f i v j = f j.
Proof. intros Hn. unfold fupd. rewrite (proj2 (N.eqb_neq j i) Hn). reflexivity. Qed.

Lemma log_mono_snoc log e :
  log_mono log -> (forall e', In e' log -> fst (fst e') = fst (fst e) -> (snd (fst e') <= snd (fst e))%nat) ->
  log_mono (log ++ [e]).
Proof.
  induction log as [|x r IH]; intros Hm He; cbn [app log_mono].
  - split; [intros e' []|exact I].
  - destruct Hm as [Hx Hr]. split.
    + intros e' Hin Hb. apply in_app_or in Hin. destruct Hin as [Hin|[<-|[]]].
      * apply Hx; assumption.
      * apply He; [left; reflexivity | symmetry; exact Hb].
    + apply IH; [exact Hr|]. intros e' Hin. apply He. right. exact Hin.
Qed.

Lemma last_shown_snoc log e b :
  last_shown (log ++ [e]) b = if N.eqb (fst (fst e)) b then Some (snd (fst e), snd e) else last_shown log b.
Proof. unfold last_shown. rewrite fold_left_app. reflexivity. Qed.

(** the invariant of every section-level execution *)
Record QInv (st : qst) : Prop := mkQI {
  qi_ne : forall b, q_hist st b <> [];
  qi_real : forall b i v, In (b, i, v) (q_log st) -> nth_error (q_hist st b) i = Some v;
  qi_mono : log_mono (q_log st) }.

Lemma last_nth {A} (l : list A) d : l <> [] -> nth_error l (Nat.pred (length l)) = Some (last l d).
Proof.
  induction l as [|x [|y r] IH]; intros Hne; [congruence|reflexivity|].
  change (last (x :: y :: r) d) with (last (y :: r) d).
  change (Nat.pred (length (x :: y :: r))) with (S (Nat.pred (length (y :: r)))). cbn [nth_error].
  apply IH. discriminate.
Qed.

Lemma q_store_inv st b w : QInv st -> QInv (q_store st b w).
Proof.
  intros [A B C]. constructor; cbn [q_store q_hist q_log].
  - intros b'. destruct (N.eq_dec b' b) as [->|Hn].
    + rewrite fupd_same. destruct (q_hist st b); discriminate.
    + rewrite fupd_other by exact Hn. apply A.
  - intros b' i v Hin. specialize (B b' i v Hin). destruct (N.eq_dec b' b) as [->|Hn].
    + rewrite fupd_same. rewrite nth_error_app1; [exact B|]. apply nth_error_Some. congruence.
    + rewrite fupd_other by exact Hn. exact B.
  - exact C.
Qed.

Lemma q_paint_inv st b : QInv st ->
  QInv (mkq (q_hist st) (q_log st ++ [(b, Nat.pred (length (q_hist st b)), q_cnt st b)])).
Proof.
  intros [A B C]. constructor; cbn [q_hist q_log].
  - exact A.
  - intros b' i v Hin. apply in_app_or in Hin. destruct Hin as [Hin|[E|[]]]; [exact (B b' i v Hin)|].
    injection E as <- <- <-. unfold q_cnt. apply last_nth. apply A.
  - apply log_mono_snoc; [exact C|]. intros [[b' i] v] Hin Hb. cbn [fst snd] in *. subst b'.
    pose proof (B b i v Hin) as Hn. assert (Hlt : (i < length (q_hist st b))%nat) by (apply nth_error_Some; congruence). lia.
Qed.

Lemma q_step_inv st x : QInv st -> QInv (q_step st x).
Proof.
  intros Hi. destruct x as [b w|b [w|] [|]]; cbn [q_step].
  - apply q_store_inv, Hi.
  - apply q_paint_inv, q_store_inv, Hi.
  - apply q_store_inv, Hi.
  - apply q_paint_inv, Hi.
  - exact Hi.
Qed.

Lemma q_run_inv l : forall st, QInv st -> QInv (q_run st l).
Proof. induction l as [|x r IH]; intros st Hi; [exact Hi|]. cbn [q_run fold_left]. apply IH, q_step_inv, Hi. Qed.

Lemma q_init_inv c0 : QInv (q_init c0).
Proof. constructor; cbn; [discriminate | intros ? ? ? [] | exact I]. Qed.

(** no store on b: the history of b does not move; a painted bracket on b shows its last value *)
Lemma q_step_nostore st x b : stores_on b x = false -> q_hist (q_step st x) b = q_hist st b.
Proof.
  destruct x as [b' w|b' [w|] p]; cbn [stores_on q_step]; intros Hs.
  - cbn. apply fupd_other. apply N.eqb_neq. rewrite N.eqb_sym. exact Hs.
  - assert (E : q_hist (q_store st b' w) b = q_hist st b)
      by (cbn; apply fupd_other; apply N.eqb_neq; rewrite N.eqb_sym; exact Hs).
    destruct p; exact E.
  - destruct p; reflexivity.
Qed.

Definition shows_final (st : qst) (b : N) : Prop :=
  last_shown (q_log st) b = Some (Nat.pred (length (q_hist st b)), q_cnt st b).

Lemma q_step_keeps_final st x b : stores_on b x = false -> shows_final st b -> shows_final (q_step st x) b.
Proof.
  intros Hs Hf. unfold shows_final, q_cnt in *. rewrite (q_step_nostore st x b Hs).
  destruct x as [b' w|b' [w|] [|]]; cbn [q_step q_store q_log stores_on] in *; try exact Hf.
  - rewrite last_shown_snoc. cbn [fst snd]. rewrite Hs. exact Hf.
  - rewrite last_shown_snoc. cbn [fst snd]. destruct (N.eqb_spec b' b) as [->|Hn]; [reflexivity | exact Hf].
Qed.

Lemma q_run_keeps_final l b : forall st, forallb (fun x => negb (stores_on b x)) l = true ->
  shows_final st b -> shows_final (q_run st l) b.
Proof.
  induction l as [|x r IH]; intros st Hl Hf; [exact Hf|]. cbn [forallb] in Hl. apply andb_prop in Hl. destruct Hl as [Hx Hr].
  cbn [q_run fold_left]. apply IH; [exact Hr|]. apply q_step_keeps_final; [apply negb_true_iff; exact Hx | exact Hf].
Qed.

Lemma q_paint_shows_final st b ow : shows_final (q_step st (QBracket b ow true)) b.
Proof.
  unfold shows_final. cbn [q_step]. cbn [q_log q_hist]. rewrite last_shown_snoc. cbn [fst snd]. rewrite N.eqb_refl. reflexivity.
Qed.

Lemma q_run_app st l1 l2 : q_run st (l1 ++ l2) = q_run (q_run st l1) l2.
Proof. unfold q_run. apply fold_left_app. Qed.

(* ------------------------------------------------------------------ the theorem *)
Theorem pos_sections_any_writers (c0 : N -> N) (ts : list (list (qcall * bool * bool))) (l : list qstep) :
  Merge (map qthread_sections ts) l ->
  let st := q_run (q_init c0) l in
  (* (a) every painted frame shows a value the counter of that bar really held: entry [i] of its history *)
  (forall b i v, In (b, i, v) (q_log st) -> nth_error (q_hist st b) i = Some v)
  (* (b) never older: per bar the shown indices are non-decreasing over the frames *)
  /\ log_mono (q_log st)
  (* (c) if a bracket on b paints after the last store on b, the last frame of b shows the final value *)
  /\ (forall b l1 ow l2, l = l1 ++ QBracket b ow true :: l2 ->
        forallb (fun x => negb (stores_on b x)) l2 = true ->
        last_shown (q_log st) b = Some (Nat.pred (length (q_hist st b)), q_cnt st b)).
Proof.
  intros _. cbn zeta. pose proof (q_run_inv l _ (q_init_inv c0)) as [A B C].
  split; [exact B|]. split; [exact C|].
  intros b l1 ow l2 -> Hl2. rewrite q_run_app. change (QBracket b ow true :: l2) with ([QBracket b ow true] ++ l2).
  rewrite q_run_app. apply q_run_keeps_final; [exact Hl2|]. cbn [q_run fold_left]. apply q_paint_shows_final.
Qed.

(** ... the same for ANY list of sections (the thread structure and the oracle bits play no role) *)
Theorem pos_sections_any_list (c0 : N -> N) (l : list qstep) :
  let st := q_run (q_init c0) l in
  (forall b i v, In (b, i, v) (q_log st) -> nth_error (q_hist st b) i = Some v)
  /\ log_mono (q_log st)
  /\ (forall b l1 ow l2, l = l1 ++ QBracket b ow true :: l2 ->
        forallb (fun x => negb (stores_on b x)) l2 = true ->
        last_shown (q_log st) b = Some (Nat.pred (length (q_hist st b)), q_cnt st b)).
Proof.
  cbn zeta. pose proof (q_run_inv l _ (q_init_inv c0)) as [A B C].
  split; [exact B|]. split; [exact C|].
  intros b l1 ow l2 -> Hl2. rewrite q_run_app. change (QBracket b ow true :: l2) with ([QBracket b ow true] ++ l2).
  rewrite q_run_app. apply q_run_keeps_final; [exact Hl2|]. cbn [q_run fold_left]. apply q_paint_shows_final.
Qed.

(** the counter machine writes what Sys.v's position store writes *)
Lemma pos_store_is_counter_write s b d :
  (N.to_nat b < length (s_bars s))%nat ->
  b_pos (get_bar (pos_store s (OInc b d)) b) = wr_apply (WInc d) (b_pos (get_bar s b))
  /\ b_pos (get_bar (pos_store s (ODec b d)) b) = wr_apply (WDec d) (b_pos (get_bar s b))
  /\ b_pos (get_bar (pos_store s (OSetPos b d)) b) = wr_apply (WSet d) (b_pos (get_bar s b)).
Proof. intros Hl. cbn [pos_store]. rewrite !get_upd_same by exact Hl. repeat split. Qed.

(* ------------------------------------------------------------------ part 5: two reads of one frame *)
Lemma q_stores_run b : forall ws st,
  q_log (q_run st (map (QStore b) ws)) = q_log st
  /\ length (q_hist (q_run st (map (QStore b) ws)) b) = (length (q_hist st b) + length ws)%nat.
Proof.
  induction ws as [|w r IH]; intros st; cbn [map q_run fold_left length]; [split; [reflexivity | lia]|].
  destruct (IH (q_step st (QStore b w))) as [A B]. fold (q_run (q_step st (QStore b w)) (map (QStore b) r)).
  rewrite A, B. cbn [q_step q_store q_log q_hist]. rewrite fupd_same, app_length. cbn. split; [reflexivity | lia].
Qed.

(** what survives at read granularity: each of the two reads of a frame is a value the counter held
    (an entry of the section-level history), the second read is exactly [length ws] entries later -
    never older -, whatever ran before the frame *)
Theorem frame_reads_real_and_ordered (c0 : N -> N) (pre : list qstep) (b : N) (ws : list wr) :
  let st0 := q_run (q_init c0) pre in
  let st := q_run (q_init c0) (pre ++ frame2 b ws) in
  let i1 := Nat.pred (length (q_hist st0 b)) in
  exists v1 v2,
    q_log st = q_log st0 ++ [(b, i1, v1); (b, (i1 + length ws)%nat, v2)]
    /\ nth_error (q_hist st b) i1 = Some v1
    /\ nth_error (q_hist st b) (i1 + length ws)%nat = Some v2.
Proof.
  cbn zeta. rewrite q_run_app. set (st0 := q_run (q_init c0) pre).
  pose proof (q_run_inv pre _ (q_init_inv c0)) as I0. fold st0 in I0.
  unfold frame2. change (q_read b :: map (QStore b) ws ++ [q_read b]) with ([q_read b] ++ map (QStore b) ws ++ [q_read b]).
  rewrite !q_run_app. set (st1 := q_run st0 [q_read b]).
  destruct (q_stores_run b ws st1) as [A B]. set (st2 := q_run st1 (map (QStore b) ws)) in *.
  assert (E1 : q_log st1 = q_log st0 ++ [(b, Nat.pred (length (q_hist st0 b)), q_cnt st0 b)]) by reflexivity.
  assert (H1 : q_hist st1 = q_hist st0) by reflexivity.
  exists (q_cnt st0 b), (q_cnt st2 b).
  pose proof (q_run_inv (pre ++ frame2 b ws) _ (q_init_inv c0)) as [_ R _].
  assert (Efin : q_run st2 [q_read b] = mkq (q_hist st2) (q_log st2 ++ [(b, Nat.pred (length (q_hist st2 b)), q_cnt st2 b)])) by reflexivity.
  assert (Hne : (1 <= length (q_hist st0 b))%nat).
  { destruct (q_hist st0 b) eqn:E; [exfalso; exact (qi_ne _ I0 b E) | cbn; lia]. }
  assert (Eidx : Nat.pred (length (q_hist st2 b)) = (Nat.pred (length (q_hist st0 b)) + length ws)%nat).
  { rewrite B, H1. lia. }
  rewrite Efin. cbn [q_log q_hist]. rewrite A, E1, Eidx, <- app_assoc. cbn [app].
  split; [reflexivity|].
  assert (Rfin : forall i v, In (b, i, v) (q_log st0 ++ [(b, Nat.pred (length (q_hist st0 b)), q_cnt st0 b);
                                                        (b, (Nat.pred (length (q_hist st0 b)) + length ws)%nat, q_cnt st2 b)]) ->
                             nth_error (q_hist st2 b) i = Some v).
  { intros i v Hin. unfold frame2 in R.
    change (q_read b :: map (QStore b) ws ++ [q_read b]) with ([q_read b] ++ map (QStore b) ws ++ [q_read b]) in R.
    rewrite !q_run_app in R. fold st0 st1 in R. fold st2 in R. rewrite Efin in R. cbn [q_log q_hist] in R.
    apply R. rewrite A, E1, Eidx, <- app_assoc. exact Hin. }
  split; apply Rfin; apply in_or_app; right; [left | right; left]; reflexivity.
Qed.

(** ... and what does NOT: the two reads of one frame can differ (one foreign inc between them) *)
Theorem frame_single_state_refuted :
  exists (c0 : N -> N) (b : N) (ws : list wr),
    let st := q_run (q_init c0) (frame2 b ws) in
    q_log st = [(b, 0%nat, 0); (b, 1%nat, 1)] /\ q_hist st b = [0; 1].
Proof. exists (fun _ => 0), 0, [WInc 1]. vm_compute. split; reflexivity. Qed.
