(** Proofs for model/MultiInterleave.v part 4: several writers per bar at section granularity. *)
From IndModel Require Import MultiInterleave.
From IndProofs Require Import MultiProofs.
From Coq Require Import List NArith Lia Bool.
Import ListNotations.
Open Scope N_scope.

Lemma fupd_same {A} (f : N -> A) i v : fupd f i v i = v.
Proof. unfold fupd. rewrite N.eqb_refl. reflexivity. Qed.
Lemma fupd_other {A} (f : N -> A) i j v : j <> i -> fupd f i v j = f j.
Proof. intros Hn. unfold fupd. rewrite (proj2 (N.eqb_neq j i) Hn). reflexivity. Qed.

Lemma log_mono_snoc log e :
  log_mono log -> (forall e', In e' log -> fst (fst e') = fst (fst e) -> (snd (fst e') <= snd (fst e))%nat) ->
  log_mono (log ++ [e]).
Proof.
  induction log as [|x r IH]; intros Hm He; cbn [app log_mono].
  - split; [intros e' []|exact I].
  - destruct Hm as [Hx Hr]. split.
    + intros e' Hin Hb. apply in_app_or in Hin. destruct Hin as [Hin|[<-|[]]].
      * apply Hx; assumption.
      * apply He; [left; reflexivity | symmetry; exact Hb].
    + apply IH; [exact Hr|]. intros e' Hin. apply He. right. exact Hin.
Qed.

Lemma last_shown_snoc log e b :
  last_shown (log ++ [e]) b = if N.eqb (fst (fst e)) b then Some (snd (fst e), snd e) else last_shown log b.
Proof. unfold last_shown. rewrite fold_left_app. reflexivity. Qed.

(** the invariant of every section-level execution *)
Record QInv (st : qst) : Prop := mkQI {
  qi_ne : forall b, q_hist st b <> [];
  qi_real : forall b i v, In (b, i, v) (q_log st) -> nth_error (q_hist st b) i = Some v;
  qi_mono : log_mono (q_log st) }.

Lemma last_nth {A} (l : list A) d : l <> [] -> nth_error l (Nat.pred (length l)) = Some (last l d).
Proof.
  induction l as [|x [|y r] IH]; intros Hne; [congruence|reflexivity|].
  change (last (x :: y :: r) d) with (last (y :: r) d).
  change (Nat.pred (length (x :: y :: r))) with (S (Nat.pred (length (y :: r)))). cbn [nth_error].
  apply IH. discriminate.
Qed.

Lemma q_store_inv st b w : QInv st -> QInv (q_store st b w).
Proof.
  intros [A B C]. constructor; cbn [q_store q_hist q_log].
  - intros b'. destruct (N.eq_dec b' b) as [->|Hn].
    + rewrite fupd_same. destruct (q_hist st b); discriminate.
    + rewrite fupd_other by exact Hn. apply A.
  - intros b' i v Hin. specialize (B b' i v Hin). destruct (N.eq_dec b' b) as [->|Hn].
    + rewrite fupd_same. rewrite nth_error_app1; [exact B|]. apply nth_error_Some. congruence.
    + rewrite fupd_other by exact Hn. exact B.
  - exact C.
Qed.

Lemma q_paint_inv st b : QInv st ->
  QInv (mkq (q_hist st) (q_log st ++ [(b, Nat.pred (length (q_hist st b)), q_cnt st b)])).
Proof.
  intros [A B C]. constructor; cbn [q_hist q_log].
  - exact A.
  - intros b' i v Hin. apply in_app_or in Hin. destruct Hin as [Hin|[E|[]]]; [exact (B b' i v Hin)|].
    injection E as <- <- <-. unfold q_cnt. apply last_nth. apply A.
  - apply log_mono_snoc; [exact C|]. intros [[b' i] v] Hin Hb. cbn [fst snd] in *. subst b'.
    pose proof (B b i v Hin) as Hn. assert (Hlt : (i < length (q_hist st b))%nat) by (apply nth_error_Some; congruence). lia.
Qed.

Lemma q_step_inv st x : QInv st -> QInv (q_step st x).
Proof.
  intros Hi. destruct x as [b w|b [w|] [|]]; cbn [q_step].
  - apply q_store_inv, Hi.
  - apply q_paint_inv, q_store_inv, Hi.
  - apply q_store_inv, Hi.
  - apply q_paint_inv, Hi.
  - exact Hi.
Qed.

Lemma q_run_inv l : forall st, QInv st -> QInv (q_run st l).
Proof. induction l as [|x r IH]; intros st Hi; [exact Hi|]. cbn [q_run fold_left]. apply IH, q_step_inv, Hi. Qed.

Lemma q_init_inv c0 : QInv (q_init c0).
Proof. constructor; cbn; [discriminate | intros ? ? ? [] | exact I]. Qed.

(** no store on b: the history of b does not move; a painted bracket on b shows its last value *)
Lemma q_step_nostore st x b : stores_on b x = false -> q_hist (q_step st x) b = q_hist st b.
Proof.
  destruct x as [b' w|b' [w|] p]; cbn [stores_on q_step]; intros Hs.
  - cbn. apply fupd_other. apply N.eqb_neq. rewrite N.eqb_sym. exact Hs.
  - assert (E : q_hist (q_store st b' w) b = q_hist st b)
      by (cbn; apply fupd_other; apply N.eqb_neq; rewrite N.eqb_sym; exact Hs).
    destruct p; exact E.
  - destruct p; reflexivity.
Qed.

Definition shows_final (st : qst) (b : N) : Prop :=
  last_shown (q_log st) b = Some (Nat.pred (length (q_hist st b)), q_cnt st b).

Lemma q_step_keeps_final st x b : stores_on b x = false -> shows_final st b -> shows_final (q_step st x) b.
Proof.
  intros Hs Hf. unfold shows_final, q_cnt in *. rewrite (q_step_nostore st x b Hs).
  destruct x as [b' w|b' [w|] [|]]; cbn [q_step q_store q_log stores_on] in *; try exact Hf.
  - rewrite last_shown_snoc. cbn [fst snd]. rewrite Hs. exact Hf.
  - rewrite last_shown_snoc. cbn [fst snd]. destruct (N.eqb_spec b' b) as [->|Hn]; [reflexivity | exact Hf].
Qed.

Lemma q_run_keeps_final l b : forall st, forallb (fun x => negb (stores_on b x)) l = true ->
  shows_final st b -> shows_final (q_run st l) b.
Proof.
  induction l as [|x r IH]; intros st Hl Hf; [exact Hf|]. cbn [forallb] in Hl. apply andb_prop in Hl. destruct Hl as [Hx Hr].
  cbn [q_run fold_left]. apply IH; [exact Hr|]. apply q_step_keeps_final; [apply negb_true_iff; exact Hx | exact Hf].
Qed.

Lemma q_paint_shows_final st b ow : shows_final (q_step st (QBracket b ow true)) b.
Proof.
  unfold shows_final. cbn [q_step]. cbn [q_log q_hist]. rewrite last_shown_snoc. cbn [fst snd]. rewrite N.eqb_refl. reflexivity.
Qed.

Lemma q_run_app st l1 l2 : q_run st (l1 ++ l2) = q_run (q_run st l1) l2.
Proof. unfold q_run. apply fold_left_app. Qed.

(* ------------------------------------------------------------------ the theorem *)
Theorem pos_sections_any_writers (c0 : N -> N) (ts : list (list (qcall * bool * bool))) (l : list qstep) :
  Merge (map qthread_sections ts) l ->
  let st := q_run (q_init c0) l in
  (* (a) every painted frame shows a value the counter of that bar really held: entry [i] of its history *)
  (forall b i v, In (b, i, v) (q_log st) -> nth_error (q_hist st b) i = Some v)
  (* (b) never older: per bar the shown indices are non-decreasing over the frames *)
  /\ log_mono (q_log st)
  (* (c) if a bracket on b paints after the last store on b, the last frame of b shows the final value *)
  /\ (forall b l1 ow l2, l = l1 ++ QBracket b ow true :: l2 ->
        forallb (fun x => negb (stores_on b x)) l2 = true ->
        last_shown (q_log st) b = Some (Nat.pred (length (q_hist st b)), q_cnt st b)).
Proof.
  intros _. cbn zeta. pose proof (q_run_inv l _ (q_init_inv c0)) as [A B C].
  split; [exact B|]. split; [exact C|].
  intros b l1 ow l2 -> Hl2. rewrite q_run_app. change (QBracket b ow true :: l2) with ([QBracket b ow true] ++ l2).
  rewrite q_run_app. apply q_run_keeps_final; [exact Hl2|]. cbn [q_run fold_left]. apply q_paint_shows_final.
Qed.

(** ... the same for ANY list of sections (the thread structure and the oracle bits play no role) *)
Theorem pos_sections_any_list (c0 : N -> N) (l : list qstep) :
  let st := q_run (q_init c0) l in
  (forall b i v, In (b, i, v) (q_log st) -> nth_error (q_hist st b) i = Some v)
  /\ log_mono (q_log st)
  /\ (forall b l1 ow l2, l = l1 ++ QBracket b ow true :: l2 ->
        forallb (fun x => negb (stores_on b x)) l2 = true ->
        last_shown (q_log st) b = Some (Nat.pred (length (q_hist st b)), q_cnt st b)).
Proof.
  cbn zeta. pose proof (q_run_inv l _ (q_init_inv c0)) as [A B C].
  split; [exact B|]. split; [exact C|].
  intros b l1 ow l2 -> Hl2. rewrite q_run_app. change (QBracket b ow true :: l2) with ([QBracket b ow true] ++ l2).
  rewrite q_run_app. apply q_run_keeps_final; [exact Hl2|]. cbn [q_run fold_left]. apply q_paint_shows_final.
Qed.

(** the counter machine writes what Sys.v's position store writes *)
Lemma pos_store_is_counter_write s b d :
  (N.to_nat b < length (s_bars s))%nat ->
  b_pos (get_bar (pos_store s (OInc b d)) b) = wr_apply (WInc d) (b_pos (get_bar s b))
  /\ b_pos (get_bar (pos_store s (ODec b d)) b) = wr_apply (WDec d) (b_pos (get_bar s b))
  /\ b_pos (get_bar (pos_store s (OSetPos b d)) b) = wr_apply (WSet d) (b_pos (get_bar s b)).
Proof. intros Hl. cbn [pos_store]. rewrite !get_upd_same by exact Hl. repeat split. Qed.
