(** C02_screen_bottom / C03_log_bottom: the screen invariant of a MultiProgress over every op
    history for EITHER alignment (model/MultiScreenBottom.v), alignment changes included.  The
    Top / no-shift draws go through MultiScreenProofs.term_draw_rows (TermProofs.
    draw_to_term_spec_top via TermBottomProofs.draw_to_term_bottom_noshift), the shifting draws
    through TermBottomProofs.draw_to_term_spec_bottom_full.  No I/O faults.

    INTERFACE
      term_draw_rowsB  : one Drawable::draw, either alignment, from ready (C ++ F)
      AInvB            : the invariant: rows = pre ++ rows(log) ++ kept ++ pad ++ live
      drawB_inv clearB_inv suspendB_inv markB_inv (+ store / remove / insert / align / write):
                         one preservation lemma per MultiState call; actB_inv, actsB_inv
      bs_step_inv bs_run_inv bs_invariant : every history
      c02_screen_bottom, c03_log_bottom (+ _every_prefix)
      nopad_keep / bg_top_* : under the D22 exclusion the kept rows are rows of painted Bar lines *)
From Coq Require Import List NArith ZArith Bool Lia Arith ZifyBool ZifyNat ZifyN.
From IndModel Require Import MultiScreen MultiScreenBottom.
From IndModel Require SingleBar.
From IndProofs Require Import TermProofs TermBottomProofs SingleBarProofs MultiProofs MultiFrame
                              MultiScreenProofs.
Import ListNotations.
Local Open Scope N_scope.
Arguments N.add : simpl never.
Arguments N.sub : simpl never.
Arguments N.mul : simpl never.
Arguments N.div : simpl never.
Arguments N.modulo : simpl never.
Arguments N.min : simpl never.
Arguments Nat.min : simpl never.
Arguments Nat.sub : simpl never.
Arguments nthN {A} l i d : simpl never.

(* ------------------------------------------------------------------ lists, log rows *)
Lemma log_rows_app Wn a b : log_rows Wn (a ++ b) = log_rows Wn a ++ log_rows Wn b.
Proof. unfold log_rows. now rewrite map_app, concat_app. Qed.

Lemma log_rows_lines Wn ls : log_rows Wn (map LLine ls) = wrap Wn ls.
Proof. unfold log_rows, wrap. rewrite map_map. reflexivity. Qed.

Lemma log_rows_gap Wn k : log_rows Wn [LGap k] = repeat [] (N.to_nat k).
Proof. unfold log_rows. cbn. apply app_nil_r. Qed.

Lemma log_lines_app a b : log_lines (a ++ b) = log_lines a ++ log_lines b.
Proof. unfold log_lines. apply flat_map_app. Qed.

Lemma log_lines_lines ls : log_lines (map LLine ls) = ls.
Proof. induction ls as [|x l IH]; [reflexivity|]. cbn. f_equal. exact IH. Qed.

Lemma skipn_repeat_app {A} (x : A) (p k : nat) (l : list A) :
  skipn k (repeat x p ++ l) = repeat x (p - k) ++ skipn (k - p) l.
Proof.
  revert k. induction p as [|p IH]; intros k.
  - cbn [repeat app]. replace (0 - k)%nat with 0%nat by lia. replace (k - 0)%nat with k by lia. reflexivity.
  - destruct k as [|k].
    + cbn [skipn]. replace (S p - 0)%nat with (S p) by lia. reflexivity.
    + cbn [repeat app skipn]. rewrite IH. replace (S p - S k)%nat with (p - k)%nat by lia.
      replace (S k - S p)%nat with (k - p)%nat by lia. reflexivity.
Qed.

Lemma text_prefix_app texts bars :
  Forall (fun l => is_bar l = false) texts -> Forall (fun l => is_bar l = true) bars ->
  text_prefix (texts ++ bars) = texts /\ from_bar (texts ++ bars) = bars.
Proof.
  intros Ht Hb. induction Ht as [|x l Hx Ht IH].
  - cbn [app]. destruct Hb as [|b B Hb0 HB]; [split; reflexivity|].
    cbn [text_prefix from_bar]. rewrite Hb0. split; reflexivity.
  - cbn [app text_prefix from_bar]. rewrite Hx. destruct IH as [-> ->]. split; reflexivity.
Qed.

Lemma existsb_bars_app texts bars :
  Forall (fun l => is_bar l = false) texts -> Forall (fun l => is_bar l = true) bars ->
  existsb is_bar (texts ++ bars) = negb (match bars with [] => true | _ => false end).
Proof.
  intros Ht Hb. rewrite existsb_app.
  assert (E1 : existsb is_bar texts = false).
  { induction Ht as [|x l Hx Ht IH]; [reflexivity|]. cbn. now rewrite Hx, IH. }
  rewrite E1. cbn [orb]. destruct Hb as [|b B Hb0 HB]; [reflexivity|]. cbn. now rewrite Hb0.
Qed.

(* ------------------------------------------------------------------ one Drawable::draw, either alignment *)
Section DrawB.
  Variable W H : N.
  Hypothesis HW : 1 <= W.
  Hypothesis HH : 1 <= H.
  Let Wn := N.to_nat W.
  Let Hn := N.to_nat H.

  (** no shift: the call list, the count and the flag are those of Top alignment *)
  Lemma draw_noshift al ls n below :
    shifts W al ls n = false ->
    draw_to_term ls n al below W H = draw_to_term ls n Top below W H.
  Proof.
    unfold shifts. destruct al; [reflexivity|]. intros Hs. apply N.ltb_ge in Hs.
    now apply draw_to_term_bottom_noshift.
  Qed.

  Lemma frame_pad_noshift al ls n : shifts W al ls n = false -> frame_pad W al ls n = 0.
  Proof. unfold frame_pad. now intros ->. Qed.

  (** one draw (either alignment, no faults) of text lines followed by Bar lines, over the
      [tt_n tg] rows [F] at the end of the written rows; [RF] = the rows the new count covers:
      the padding, then the Bar rows *)
  Lemma term_draw_rowsB C F t tg texts bars c :
    ready Wn Hn (C ++ F) t -> length F = N.to_nat (tt_n tg) -> (N.to_nat (tt_n tg) <= reach t)%nat ->
    (1 <= tt_n tg -> if tt_below tg then t_col t = 0%nat else t_col t <> 0%nat) ->
    Forall (fun l => is_bar l = false) texts -> Forall (fun l => is_bar l = true) bars ->
    (if shifts W (tt_align tg) (texts ++ bars) (tt_n tg)
     then (texts ++ bars = [] -> tt_n tg < H)
     else visual_line_count bars W <= H) ->
    let r := term_draw W H nofaults tg (texts ++ bars) c in
    let tg' := fst (fst (fst r)) in
    let t' := run_ops Wn Hn t (snd (fst (fst r))) in
    let p := frame_pad W (tt_align tg) (texts ++ bars) (tt_n tg) in
    tt_n tg' = visual_line_count bars W + p /\ tt_rl tg' = tt_rl tg /\ tt_align tg' = tt_align tg
    /\ exists RT RF, ready Wn Hn (C ++ RT ++ RF) t'
         /\ rows_equiv Wn RT (wrap Wn (map lt texts))
         /\ rows_equiv Wn RF (repeat [] (N.to_nat p) ++ wrap Wn (map lt bars))
         /\ length RF = N.to_nat (tt_n tg')
         /\ (texts ++ bars <> [] -> tt_below tg' = false /\ t_col t' <> 0%nat
                /\ reach t' = Nat.min Hn (reach t - N.to_nat (tt_n tg) + length (RT ++ RF)))
         /\ (texts ++ bars = [] ->
                reach t' = (if shifts W (tt_align tg) (texts ++ bars) (tt_n tg)
                            then Nat.min (Hn - 1) (reach t) else reach t - N.to_nat (tt_n tg))%nat
                /\ (1 <= tt_n tg -> tt_below tg' = true /\ t_col t' = 0%nat)
                /\ (tt_n tg = 0 -> tt_below tg' = tt_below tg /\ t' = t)).
  Proof using HW HH.
    intros Hr Hlen Hreach Hb Htexts Hbars Hfit. cbv zeta.
    destruct (shifts W (tt_align tg) (texts ++ bars) (tt_n tg)) eqn:Hs.
    - (* Bottom alignment, the region shrinks *)
      assert (Hal : tt_align tg = Bottom) by (unfold shifts in Hs; destruct (tt_align tg); [discriminate | reflexivity]).
      assert (Hlt : visual_line_count (texts ++ bars) W < tt_n tg)
        by (unfold shifts in Hs; rewrite Hal in Hs; now apply N.ltb_lt in Hs).
      assert (HHn : (1 <= Hn)%nat) by (unfold Hn; lia).
      pose proof (ready_reach_le Wn Hn _ t HHn Hr) as Hrle.
      assert (Hbr : bar_rows (texts ++ bars) W = visual_line_count bars W)
        by (unfold bar_rows; now rewrite filter_bars_app).
      assert (Hfull : visual_line_count (texts ++ bars) W
                      = visual_line_count texts W + visual_line_count bars W)
        by apply visual_line_count_app.
      assert (Hfitb : bar_rows (texts ++ bars) W <= H) by (unfold Hn in *; lia).
      assert (Hbel : if tt_below tg then t_col t = 0%nat else t_col t <> 0%nat) by (apply Hb; lia).
      pose proof (draw_to_term_spec_bottom_full W H C F t (texts ++ bars) (tt_n tg) (tt_below tg)
                    HW HH Hr Hlen Hreach Hbel Hlt Hfitb) as Hspec.
      cbv zeta in Hspec. fold Wn Hn in Hspec.
      destruct Hspec as (Hn' & Hbel' & Hnil & _ & Hne & HeR & HlR).
      destruct (text_prefix_app texts bars Htexts Hbars) as [Etp Efb]. rewrite Etp, Efb in HeR.
      destruct (bottom_vocabulary (texts ++ bars)) as (_ & _ & _ & Hpadded).
      assert (Hp : frame_pad W (tt_align tg) (texts ++ bars) (tt_n tg)
                   = if bottom_padded (texts ++ bars) then tt_n tg - visual_line_count (texts ++ bars) W else 0).
      { unfold frame_pad. rewrite Hs, Hpadded. reflexivity. }
      rewrite Hp.
      set (sh := tt_n tg - visual_line_count (texts ++ bars) W) in *.
      set (p := if bottom_padded (texts ++ bars) then sh else 0) in *.
      assert (Hrep : (if bottom_padded (texts ++ bars) then repeat (@nil N) (N.to_nat sh) else [])
                     = repeat [] (N.to_nat p))
        by (unfold p; destruct (bottom_padded (texts ++ bars)); reflexivity).
      rewrite Hrep in HeR.
      unfold term_draw. rewrite Hal in *.
      destruct (draw_to_term (texts ++ bars) (tt_n tg) Bottom (tt_below tg) W H) as [[ops n'] below'] eqn:Ed.
      rewrite emit_nofaults. cbn [fst snd tt_n tt_rl tt_align tt_below] in *.
      set (R := bottom_rows W sh (texts ++ bars)) in *.
      split; [rewrite Hn', Hbr; reflexivity|]. split; [reflexivity|]. split; [reflexivity|].
      destruct (rows_equiv_split Wn R _ _ HeR) as (RT & RF & HRsplit & HeT & HeF).
      exists RT, RF.
      assert (HlF : length RF = N.to_nat n').
      { pose proof (wrap_length bars W HW) as Hwl. fold Wn in Hwl.
        rewrite (rows_equiv_length _ _ _ HeF), app_length, repeat_length, Hwl.
        rewrite Hn', Hbr. lia. }
      assert (Hcase : texts ++ bars = [] \/ texts ++ bars <> [])
        by (destruct (texts ++ bars); [left | right]; congruence).
      destruct Hcase as [Els|Hnn].
      + specialize (Hfit Els).
        destruct (Hnil Els Hfit) as (HR & Hr' & Hc' & _ & Hre').
        split; [rewrite <- HRsplit; exact Hr'|]. split; [exact HeT|]. split; [exact HeF|].
        split; [exact HlF|]. split; [congruence|]. intros _.
        split; [exact Hre'|]. split.
        * intros _. split; [|exact Hc']. rewrite Hbel', Els. now apply N.ltb_lt.
        * intros Hz. lia.
      + destruct (Hne Hnn) as (Hr' & Hc' & Hre').
        split; [rewrite <- HRsplit; exact Hr'|]. split; [exact HeT|]. split; [exact HeF|].
        split; [exact HlF|]. split; [|congruence]. intros _.
        split; [rewrite Hbel'; destruct (texts ++ bars); [congruence | reflexivity]|].
        split; [exact Hc'|]. rewrite Hre', HRsplit. reflexivity.
    - (* no shift: exactly the Top-alignment draw *)
      rewrite (frame_pad_noshift _ _ _ Hs). cbn [N.to_nat repeat app].
      set (tg0 := mktt (tt_n tg) (tt_rl tg) Top (tt_below tg)).
      pose proof (term_draw_rows W H HW HH C F t tg0 texts bars c eq_refl Hr Hlen Hreach Hb Htexts Hbars Hfit)
        as Htop.
      cbv zeta in Htop.
      assert (Etd : term_draw W H nofaults tg (texts ++ bars) c
                    = (let r0 := term_draw W H nofaults tg0 (texts ++ bars) c in
                       (mktt (tt_n (fst4 r0)) (tt_rl (fst4 r0)) (tt_align tg) (tt_below (fst4 r0)),
                        snd (fst (fst r0)), snd (fst r0), snd r0))).
      { unfold term_draw, tg0, fst4. cbn [tt_n tt_rl tt_align tt_below].
        rewrite (draw_noshift _ _ _ (tt_below tg) Hs).
        destruct (draw_to_term (texts ++ bars) (tt_n tg) Top (tt_below tg) W H) as [[ops n'] below'].
        rewrite emit_nofaults. reflexivity. }
      rewrite Etd. cbv zeta. unfold fst4. cbn [fst snd tt_n tt_rl tt_align tt_below].
      destruct Htop as (Hn3 & Hrl3 & _ & RT & RB & Hr' & HeT & HeB & HlB & Hne & Hnil).
      split; [rewrite Hn3; lia|]. split; [exact Hrl3|]. split; [reflexivity|].
      exists RT, RB. split; [exact Hr'|]. split; [exact HeT|]. split; [exact HeB|].
      split; [exact HlB|]. split; [exact Hne|].
      intros Els. destruct (Hnil Els) as (A & B & D). split; [exact A|]. split; [exact B | exact D].
  Qed.
End DrawB.

(* ------------------------------------------------------------------ the invariant *)
Lemma frame_pad_le W al ls n : frame_pad W al ls n <= n - visual_line_count ls W.
Proof. unfold frame_pad. destruct (shifts W al ls n && _); lia. Qed.

Lemma frame_pad_zero W al ls : frame_pad W al ls 0 = 0.
Proof. pose proof (frame_pad_le W al ls 0). lia. Qed.

Lemma shifts_lt W al ls n : shifts W al ls n = true -> visual_line_count ls W < n.
Proof. unfold shifts. destruct al; [discriminate|]. apply N.ltb_lt. Qed.

Lemma bg_region_keep g k : bg_region (g_keepB g k) = skipn (N.to_nat k) (bg_region g).
Proof.
  unfold bg_region, g_keepB. cbn [bg_pad bg_live]. rewrite skipn_repeat_app.
  f_equal; f_equal; lia.
Qed.

Section ScreenB.
  Variable W H : N.
  Hypothesis HW : 1 <= W.
  Hypothesis HH : 1 <= H.
  Variable pre : list (list N).
  Let Wn := N.to_nat W.
  Let Hn := N.to_nat H.

  (** INV between any two MultiState calls, either alignment: the written rows are
      pre ++ rows(log) ++ kept ++ pad ++ live (as rows of W cells), last_line_count counts the
      padding and the live rows, zombie_lines_count the kept rows, all of them within reach of
      cursor-up; the cursor is where DrawState::cursor_below says *)
  Definition AInvB (m : mstate) (t : term) (g : bghost) : Prop :=
    exists tg, ms_target m = TTerm tg
      /\ Forall (fun l => is_bar l = false) (ms_orphans m) /\ members_bars m
      /\ exists L K F,
           ready Wn Hn (pre ++ L ++ K ++ F) t
           /\ rows_equiv Wn L (log_rows Wn (bg_log g)) /\ rows_equiv Wn K (bg_kept g)
           /\ rows_equiv Wn F (bg_region g)
           /\ length F = N.to_nat (tt_n tg) /\ length K = N.to_nat (ms_zombie_lines m)
           /\ (N.to_nat (tt_n tg) + N.to_nat (ms_zombie_lines m) <= reach t)%nat
           /\ cursor_ok (tt_below tg) (tt_n tg + ms_zombie_lines m) t.

  (* ---------------------------------------------------------------- MultiState::draw *)
  Lemma drawB_inv m t g force extra now c :
    AInvB m t g -> extra_ok force extra -> fits_actB W H now m (ADraw force extra) ->
    let r := ms_draw W H nofaults m force extra now c in
    AInvB (fst4 r) (run_ops Wn Hn t (snd (fst (fst r)))) (g_actB W now m (ADraw force extra) g)
    /\ ms_orphans (fst4 r) = (if ms_attempt W m force extra now then [] else ms_orphans m).
  Proof using HW HH.
    intros (tg & Ht & Horph & Hmb & L & K & F & Hr & HL & HK & HF & HlF & HlK & Hreach & Hcur)
           Hex Hfit.
    cbv zeta. cbn [g_actB fits_actB] in *.
    rewrite (ms_draw_unfold W H nofaults m force extra now c tg Ht). cbv zeta.
    assert (Hatt : ms_attempt W m force extra now
                   = fst (tt_allow (if ms_has_text m extra then tt_adjust_clear tg (ms_zombie_lines m) else tg)
                                   (force || (0 <? visual_line_count (ms_orphans m) W)) now)).
    { unfold ms_attempt. rewrite Ht. reflexivity. }
    rewrite Hatt in *. clear Hatt.
    assert (Ene : ms_erase_n m extra = tt_n tg + (if ms_has_text m extra then ms_zombie_lines m else 0))
      by (unfold ms_erase_n; rewrite Ht; reflexivity).
    assert (Erc : region_count m = tt_n tg + ms_zombie_lines m)
      by (unfold region_count; rewrite Ht; reflexivity).
    rewrite Ene in *. clear Ene.
    set (ht := ms_has_text m extra) in *.
    set (tg1 := if ht then tt_adjust_clear tg (ms_zombie_lines m) else tg) in *.
    destruct (tt_allow_fields tg1 (force || (0 <? visual_line_count (ms_orphans m) W)) now) as (En & Eb & Ea).
    assert (Hforced : ht = true -> fst (tt_allow tg1 (force || (0 <? visual_line_count (ms_orphans m) W)) now) = true).
    { intros Hht. unfold ht, ms_has_text in Hht.
      assert (Hf : (force || (0 <? visual_line_count (ms_orphans m) W)) = true).
      { destruct extra as [e|]; [destruct Hex as [-> _]; reflexivity|].
        cbn [orb] in Hht. rewrite (orphans_force W H HW HH); [apply orb_true_r | exact Horph |].
        destruct (ms_orphans m); [discriminate | discriminate]. }
      rewrite Hf. reflexivity. }
    destruct (tt_allow tg1 (force || (0 <? visual_line_count (ms_orphans m) W)) now) as [allowed tg2] eqn:Eal.
    cbn [fst snd] in *.
    destruct allowed; cbn [negb].
    2: { assert (Hht : ht = false) by (destruct ht; [specialize (Hforced eq_refl); discriminate | reflexivity]).
         unfold fst4. cbn [fst snd]. rewrite run_ops_nil. unfold tg1 in *. rewrite Hht in *.
         split; [|reflexivity].
         exists tg2. split; [reflexivity|]. split; [exact Horph|]. split; [exact Hmb|]. exists L, K, F.
         cbn [ms_zombie_lines set_ms_target set_ms_zombie_lines]. rewrite En, Eb.
         repeat split; try assumption; apply Hcur. }
    (* attempted *)
    clear Hforced. specialize (Hfit eq_refl). unfold fits_drawB in Hfit. fold ht in Hfit.
    rewrite ms_frame_split in *.
    pose proof (text_lines_of_texts m force extra Horph Hex) as Htexts.
    pose proof (bar_lines_bars m Hmb) as Hbars.
    set (tgd := mktt (tt_n tg2) (tt_rl tg2) (ms_align m) (tt_below tg2)).
    assert (En1 : tt_n tg1 = tt_n tg + (if ht then ms_zombie_lines m else 0)).
    { unfold tg1. destruct ht; cbn; lia. }
    assert (Eb1 : tt_below tg1 = tt_below tg) by (unfold tg1; destruct ht; reflexivity).
    set (ne := tt_n tg + (if ht then ms_zombie_lines m else 0)) in *.
    assert (End : tt_n tgd = ne) by (unfold tgd; cbn [tt_n]; rewrite En, En1; reflexivity).
    set (C := pre ++ L ++ (if ht then [] else K)).
    set (F1 := if ht then K ++ F else F).
    assert (HCF : C ++ F1 = pre ++ L ++ K ++ F).
    { unfold C, F1. destruct ht; rewrite <- ?app_assoc; cbn [app]; reflexivity. }
    assert (HHn : (1 <= Hn)%nat) by (unfold Hn; lia).
    pose proof (ready_reach_le Wn Hn _ t HHn Hr) as Hrle.
    set (ls := text_lines_of m extra ++ bar_lines_of m) in *.
    pose proof (term_draw_rowsB W H HW HH C F1 t tgd (text_lines_of m extra) (bar_lines_of m) c) as Hd.
    cbv zeta in Hd. fold Wn Hn in Hd. fold ls in Hd. rewrite End in Hd. change (tt_align tgd) with (ms_align m) in Hd.
    destruct Hd as (Hn3 & Hrl3 & Hal3 & RT & RF & Hr' & HeT & HeF & HlRF & Hne & Hnil).
    { rewrite HCF. exact Hr. }
    { unfold F1, ne. destruct ht; rewrite ?app_length; lia. }
    { unfold ne. destruct ht; lia. }
    { unfold tgd. cbn [tt_below]. rewrite Eb, Eb1. intros Hge.
      destruct Hcur as [Hc1 Hc2]. destruct (tt_below tg); [apply Hc1; reflexivity|].
      apply Hc2; [reflexivity|]. unfold ne in Hge. destruct ht; lia. }
    { exact Htexts. } { exact Hbars. }
    { destruct (shifts W (ms_align m) ls ne).
      - intros Els. rewrite Els in Hfit. apply N.ltb_lt in Hfit. unfold ne. destruct ht; lia.
      - apply N.leb_le in Hfit. destruct ht; lia. }
    set (p := frame_pad W (ms_align m) ls ne) in *.
    set (td := term_draw W H nofaults tgd ls c) in *.
    set (tg3 := fst (fst (fst td))) in *.
    set (t' := run_ops Wn Hn t (snd (fst (fst td)))) in *.
    unfold fst4. cbn [fst snd]. fold t'.
    set (m0 := set_ms_target (set_ms_zombie_lines (set_ms_orphans m []) (if ht then 0 else ms_zombie_lines m)) (TTerm tg3)).
    set (zs := head_zombies (ms_order m) (ms_members m)).
    destruct (fold_remove_other zs m0) as (Fa & Fo & Fz & Ft).
    set (m2 := fold_left ms_remove_idx zs m0) in *.
    cbn [ms_align ms_orphans ms_zombie_lines ms_target set_ms_target set_ms_zombie_lines set_ms_orphans m0] in Fa, Fo, Fz, Ft.
    assert (Hmb2 : members_bars m2) by (apply members_bars_fold; exact Hmb).
    set (zk := if ht then 0 else ms_zombie_lines m) in *.
    assert (Hnz : (N.to_nat ne + N.to_nat zk = N.to_nat (tt_n tg) + N.to_nat (ms_zombie_lines m))%nat)
      by (unfold ne, zk; destruct ht; lia).
    assert (Hvl : visual_line_count ls W
                  = visual_line_count (text_lines_of m extra) W + visual_line_count (bar_lines_of m) W)
      by apply visual_line_count_app.
    pose proof (frame_pad_le W (ms_align m) ls ne) as Hple. fold p in Hple.
    assert (Hcases : ls = [] \/ ls <> []) by (destruct ls; [left | right]; congruence).
    assert (Hreach' : (length RF + N.to_nat zk <= reach t')%nat).
    { destruct Hcases as [Hnl|Hnn].
      - destruct (Hnil Hnl) as (Hre & _). pose proof Hnl as Hnl2. unfold ls in Hnl2.
        apply app_eq_nil in Hnl2. destruct Hnl2 as [_ Hb0].
        rewrite HlRF, Hn3, Hb0, Hre. unfold visual_line_count at 1. cbn [fold_left].
        destruct (shifts W (ms_align m) ls ne) eqn:Hs.
        + rewrite Hnl in Hfit. apply N.ltb_lt in Hfit. unfold Hn. lia.
        + unfold p. rewrite (frame_pad_noshift _ _ _ _ Hs). lia.
      - destruct (Hne Hnn) as (_ & _ & Hre). rewrite Hre, app_length.
        assert (length RF + N.to_nat zk <= Hn)%nat.
        { rewrite HlRF, Hn3. destruct (shifts W (ms_align m) ls ne) eqn:Hs.
          - apply shifts_lt in Hs. unfold Hn in *. lia.
          - unfold p. rewrite (frame_pad_noshift _ _ _ _ Hs). apply N.leb_le in Hfit.
            unfold Hn, zk. destruct ht; lia. }
        lia. }
    assert (Hcur' : cursor_ok (tt_below tg3) (tt_n tg3 + zk) t').
    { destruct Hcases as [Hnl|Hnn].
      - destruct (Hnil Hnl) as (_ & Hge & Hz).
        destruct (N.eq_dec ne 0) as [Hz0|Hnz0].
        + destruct (Hz Hz0) as [Hb3 Ht3]. rewrite Hb3, Ht3. unfold tgd at 1. cbn [tt_below]. rewrite Eb, Eb1.
          pose proof Hnl as Hnl2. unfold ls in Hnl2. apply app_eq_nil in Hnl2. destruct Hnl2 as [_ Hb0].
          assert (Hn30 : tt_n tg3 = 0).
          { rewrite Hn3, Hb0. unfold p. rewrite Hz0, frame_pad_zero. reflexivity. }
          rewrite Hn30. destruct Hcur as [Hc1 Hc2]. split; [exact Hc1|].
          intros Hbf Hrows. apply Hc2; [exact Hbf|]. unfold zk in Hrows. destruct ht; lia.
        + destruct (Hge ltac:(lia)) as [Hb3 Hc3]. rewrite Hb3. split; [intros _; exact Hc3 | discriminate].
      - destruct (Hne Hnn) as (Hb3 & Hc3 & _). rewrite Hb3. split; [discriminate | intros _ _; exact Hc3]. }
    clearbody t'. clear Hne Hnil Hcases.
    unfold g_drawB. rewrite ms_frame_split. fold ls ht p.
    destruct ht eqn:Hht.
    - (* text lines painted: the kept rows are gone; padding and Bar rows are the new region *)
      split; [|exact Fo].
      exists tg3. split; [exact Ft|]. split; [rewrite Fo; constructor|]. split; [exact Hmb2|].
      exists (L ++ RT), [], RF. cbn [bg_log bg_kept bg_pad bg_live app length]. rewrite Fz.
      unfold C in Hr'. rewrite app_nil_r in Hr'.
      split; [rewrite <- !app_assoc in *; exact Hr'|].
      split; [rewrite log_rows_app, log_rows_lines; apply rows_equiv_app; assumption|].
      split; [apply rows_equiv_refl|]. split; [exact HeF|]. split; [exact HlRF|]. split; [reflexivity|].
      unfold zk in *. split; [lia | exact Hcur'].
    - (* no text: LineAdjust::Keep moves the first rows of the new region to the kept rows *)
      split; [|exact Fo].
      rewrite Ft. cbn [target_adjust_keep target_n].
      pose proof (no_text_lines m extra Hht) as Hnt. rewrite Hnt in *. cbn [map] in *. rewrite app_nil_r.
      apply rows_equiv_nil in HeT. subst RT. cbn [app] in Hr'.
      set (k := N.min (zombie_rows W m) (tt_n tg3)) in *.
      assert (Hk : k = N.min (zombie_rows W m) (visual_line_count (bar_lines_of m) W + p))
        by (unfold k; rewrite Hn3; reflexivity).
      rewrite <- Hk.
      assert (Hkle : (N.to_nat k <= length RF)%nat) by (unfold k; lia).
      exists (tt_adjust_keep tg3 k). split; [reflexivity|].
      split; [cbn [ms_orphans set_ms_zombie_lines set_ms_target]; rewrite Fo; constructor|]. split; [exact Hmb2|].
      exists L, (K ++ firstn (N.to_nat k) RF), (skipn (N.to_nat k) RF).
      rewrite bg_region_keep.
      cbn [g_keepB bg_log bg_kept tt_adjust_keep tt_n tt_below ms_zombie_lines set_ms_zombie_lines].
      rewrite Fz. unfold C in Hr'.
      split; [rewrite <- (app_assoc K), firstn_skipn; rewrite <- !app_assoc in Hr'; exact Hr'|].
      split; [exact HL|].
      split; [apply rows_equiv_app; [exact HK | apply rows_equiv_firstn; exact HeF]|].
      split; [apply rows_equiv_skipn; exact HeF|].
      split; [rewrite skipn_length; lia|]. split; [rewrite app_length, firstn_length; lia|].
      unfold zk in *. split; [lia|].
      replace (tt_n tg3 - k + (ms_zombie_lines m + k)) with (tt_n tg3 + ms_zombie_lines m) by lia.
      exact Hcur'.
  Qed.
  (* ---------------------------------------------------------------- MultiState::clear *)
  Lemma shifts_zero al ls : shifts W al ls 0 = false.
  Proof. unfold shifts. destruct al; [reflexivity|]. apply N.ltb_ge. lia. Qed.

  Lemma clearB_inv m t g c :
    AInvB m t g -> fits_clearB W H m = true ->
    let r := ms_clear W H nofaults m c in
    AInvB (fst4 r) (run_ops Wn Hn t (snd (fst (fst r)))) (mkbg (bg_log g) [] (clear_pad W m) [])
    /\ target_n (ms_target (fst4 r)) = clear_pad W m /\ ms_zombie_lines (fst4 r) = 0
    /\ ms_orphans (fst4 r) = ms_orphans m /\ ms_members (fst4 r) = ms_members m
    /\ ms_order (fst4 r) = ms_order m /\ ms_free (fst4 r) = ms_free m
    /\ ms_align (fst4 r) = ms_align m.
  Proof using HW HH.
    intros (tg & Ht & Horph & Hmb & L & K & F & Hr & HL & HK & HF & HlF & HlK & Hreach & Hcur) Hfit.
    cbv zeta. unfold ms_clear, clear_pad, fits_clearB in *. rewrite Ht in *.
    assert (Erc : region_count m = tt_n tg + ms_zombie_lines m)
      by (unfold region_count; rewrite Ht; reflexivity).
    rewrite Erc in *.
    set (tg1 := tt_adjust_clear tg (ms_zombie_lines m)).
    assert (HHn : (1 <= Hn)%nat) by (unfold Hn; lia).
    pose proof (ready_reach_le Wn Hn _ t HHn Hr) as Hrle.
    pose proof (term_draw_rowsB W H HW HH (pre ++ L) (K ++ F) t tg1 [] [] c) as Hd.
    cbv zeta in Hd. fold Wn Hn in Hd. cbn [app] in Hd.
    change (tt_n tg1) with (tt_n tg + ms_zombie_lines m) in Hd.
    change (tt_align tg1) with (tt_align tg) in Hd. change (tt_below tg1) with (tt_below tg) in Hd.
    destruct Hd as (Hn3 & Hrl3 & Hal3 & RT & RF & Hr' & HeT & HeF & HlRF & _ & Hnil).
    { rewrite <- app_assoc. exact Hr. }
    { rewrite app_length. lia. }
    { lia. }
    { intros Hge. destruct Hcur as [Hc1 Hc2].
      destruct (tt_below tg); [apply Hc1; reflexivity | apply Hc2; [reflexivity | lia]]. }
    { constructor. } { constructor. }
    { destruct (shifts W (tt_align tg) [] (tt_n tg + ms_zombie_lines m)).
      - intros _. now apply N.ltb_lt.
      - unfold visual_line_count. cbn. lia. }
    destruct (Hnil eq_refl) as (Hre & Hge & Hz).
    set (p := frame_pad W (tt_align tg) [] (tt_n tg + ms_zombie_lines m)) in *.
    destruct (term_draw W H nofaults tg1 [] c) as [[[tg2 e] c'] ok] eqn:Etd.
    unfold fst4. cbn [fst snd] in *.
    cbn [ms_target ms_zombie_lines ms_orphans ms_members ms_order ms_free ms_align set_ms_target set_ms_zombie_lines target_n].
    assert (Hn2 : tt_n tg2 = p) by (rewrite Hn3; unfold visual_line_count; cbn; lia).
    split; [|repeat split; exact Hn2].
    cbn [map] in HeT. unfold wrap in HeT, HeF. cbn [map concat] in HeT, HeF. rewrite app_nil_r in HeF.
    apply rows_equiv_nil in HeT. subst RT. cbn [app] in Hr'.
    exists tg2. split; [reflexivity|]. split; [exact Horph|]. split; [exact Hmb|].
    exists L, [], RF. cbn [bg_log bg_kept app length ms_zombie_lines set_ms_zombie_lines set_ms_target].
    unfold bg_region. cbn [bg_pad bg_live]. rewrite app_nil_r.
    split; [rewrite <- app_assoc in Hr'; exact Hr'|]. split; [exact HL|]. split; [apply rows_equiv_refl|]. split; [exact HeF|].
    split; [exact HlRF|]. split; [reflexivity|].
    assert (Hp0 : tt_n tg + ms_zombie_lines m = 0 -> p = 0)
      by (intros E; unfold p; rewrite E; apply frame_pad_zero).
    split.
    - rewrite Hre, Hn2. destruct (shifts W (tt_align tg) [] (tt_n tg + ms_zombie_lines m)) eqn:Hs.
      + apply N.ltb_lt in Hfit. pose proof (frame_pad_le W (tt_align tg) [] (tt_n tg + ms_zombie_lines m)) as Hple.
        fold p in Hple. unfold Hn. lia.
      + unfold p. rewrite (frame_pad_noshift _ _ _ _ Hs). lia.
    - rewrite N.add_0_r, Hn2. split.
      + intros Hb2. destruct (N.eq_dec (tt_n tg + ms_zombie_lines m) 0) as [Hz0|Hnz].
        * destruct (Hz Hz0) as [Hb Ht']. rewrite Ht'. apply (proj1 Hcur). rewrite <- Hb2, Hb. reflexivity.
        * apply Hge. lia.
      + intros Hb2 Hge1. destruct (N.eq_dec (tt_n tg + ms_zombie_lines m) 0) as [Hz0|Hnz].
        * specialize (Hp0 Hz0). lia.
        * destruct (Hge ltac:(lia)) as [Hb _]. congruence.
  Qed.

  (* ---------------------------------------------------------------- suspend: the padding left by clear becomes a gap *)
  Lemma AInvB_abandon m t lg tg p :
    AInvB m t (mkbg lg [] p []) -> ms_target m = TTerm tg -> ms_zombie_lines m = 0 ->
    AInvB (set_ms_target m (TTerm (mktt 0 (tt_rl tg) (tt_align tg) (tt_below tg)))) t
          (mkbg (lg ++ [LGap p]) [] 0 []).
  Proof.
    intros (tg0 & Ht & Horph & Hmb & L & K & F & Hr & HL & HK & HF & HlF & HlK & Hreach & Hcur) Ht' Hz.
    rewrite Ht in Ht'. injection Ht' as <-. rewrite Hz in *.
    destruct K; [|discriminate]. cbn [app] in Hr.
    unfold bg_region in HF. cbn [bg_pad bg_live bg_log bg_kept] in *. rewrite app_nil_r in HF.
    eexists. split; [reflexivity|]. split; [exact Horph|]. split; [exact Hmb|].
    exists (L ++ F), [], []. cbn [bg_log bg_kept app length ms_zombie_lines set_ms_target tt_n tt_below].
    unfold bg_region. cbn [bg_pad bg_live N.to_nat repeat app]. rewrite Hz, !app_nil_r.
    split; [exact Hr|].
    split; [rewrite log_rows_app, log_rows_gap; apply rows_equiv_app; assumption|].
    split; [apply rows_equiv_refl|]. split; [apply rows_equiv_refl|].
    split; [reflexivity|]. split; [reflexivity|]. split; [lia|].
    split; [exact (proj1 Hcur) | intros _ Hge; lia].
  Qed.

  Lemma writesB_inv m : forall ws t g,
    AInvB m t g -> target_n (ms_target m) = 0 -> ms_zombie_lines m = 0 ->
    (match ws with [] :: _ => t_col t = 0%nat | _ => True end) ->
    AInvB m (run_ops Wn Hn t (map TLine ws))
          (mkbg (bg_log g ++ map LLine ws) (bg_kept g) (bg_pad g) (bg_live g)).
  Proof using HW HH.
    assert (HWn : (1 <= Wn)%nat) by (unfold Wn; lia).
    assert (HHn : (1 <= Hn)%nat) by (unfold Hn; lia).
    induction ws as [|w ws IH]; intros t g Hinv Hn0 Hz0 Hok.
    - cbn [map]. rewrite run_ops_nil, app_nil_r. destruct g; exact Hinv.
    - cbn [map]. rewrite run_ops_cons.
      replace (bg_log g ++ LLine w :: map LLine ws) with ((bg_log g ++ [LLine w]) ++ map LLine ws)
        by (rewrite <- app_assoc; reflexivity).
      assert (Hstep : AInvB m (exec Wn Hn t (TLine w)) (mkbg (bg_log g ++ [LLine w]) (bg_kept g) (bg_pad g) (bg_live g))
                      /\ t_col (exec Wn Hn t (TLine w)) = 0%nat).
      { clear IH.
        destruct Hinv as (tg & Ht & Horph & Hmb & L & K & F & Hr & HL & HK & HF & HlF & HlK & Hreach & Hcur).
        pose proof Hn0 as Hn0'. rewrite Ht in Hn0'. cbn [target_n] in Hn0'. rewrite Hn0', Hz0 in *.
        destruct F; [|discriminate]. destruct K; [|discriminate]. rewrite !app_nil_r in Hr.
        destruct (line_spec Wn Hn (pre ++ L) t w HWn HHn Hr) as (Hr' & Hc' & Hre').
        { destruct w; [right; exact Hok | left; discriminate]. }
        split; [|exact Hc'].
        exists tg. split; [exact Ht|]. split; [exact Horph|].
        split; [exact Hmb|]. exists (L ++ chunks Wn w), [], []. cbn [bg_log bg_kept].
        change (bg_region (mkbg (bg_log g ++ [LLine w]) (bg_kept g) (bg_pad g) (bg_live g))) with (bg_region g).
        rewrite !app_nil_r, Hn0', Hz0.
        split; [rewrite app_assoc; exact Hr'|].
        split; [rewrite log_rows_app; apply rows_equiv_app; [exact HL|]; unfold log_rows; cbn; rewrite app_nil_r; apply rows_equiv_refl|].
        split; [exact HK|]. split; [exact HF|]. split; [reflexivity|]. split; [reflexivity|]. split; [lia|].
        split; [intros _; exact Hc' | intros _ Hge; lia]. }
      destruct Hstep as [Hinv' Hc'].
      apply (IH (exec Wn Hn t (TLine w)) (mkbg (bg_log g ++ [LLine w]) (bg_kept g) (bg_pad g) (bg_live g)) Hinv' Hn0 Hz0).
      destruct ws as [|[|x w2] ws']; [exact I | exact Hc' | exact I].
  Qed.

  (** after the clear of suspend the cursor is at column 0 whenever [closure_ok] admits an empty
      first closure line *)
  Lemma clearB_col m t g c :
    AInvB m t g -> fits_clearB W H m = true ->
    (1 <=? target_n (ms_target m) + ms_zombie_lines m) || target_below (ms_target m) = true ->
    t_col (run_ops Wn Hn t (snd (fst (fst (ms_clear W H nofaults m c))))) = 0%nat.
  Proof using HW HH.
    intros (tg & Ht & Horph & Hmb & L & K & F & Hr & HL & HK & HF & HlF & HlK & Hreach & Hcur) Hfit Hok.
    unfold ms_clear, fits_clearB in *. rewrite Ht in *. cbn [target_n target_below] in Hok.
    assert (Erc : region_count m = tt_n tg + ms_zombie_lines m)
      by (unfold region_count; rewrite Ht; reflexivity).
    rewrite Erc in *.
    set (tg1 := tt_adjust_clear tg (ms_zombie_lines m)) in *.
    pose proof (term_draw_rowsB W H HW HH (pre ++ L) (K ++ F) t tg1 [] [] c) as Hd.
    cbv zeta in Hd. fold Wn Hn in Hd. cbn [app] in Hd.
    change (tt_n tg1) with (tt_n tg + ms_zombie_lines m) in Hd.
    change (tt_align tg1) with (tt_align tg) in Hd. change (tt_below tg1) with (tt_below tg) in Hd.
    destruct Hd as (_ & _ & _ & RT & RF & _ & _ & _ & _ & _ & Hnil).
    { rewrite <- app_assoc. exact Hr. }
    { rewrite app_length. lia. }
    { lia. }
    { intros Hge. destruct Hcur as [Hc1 Hc2].
      destruct (tt_below tg); [apply Hc1; reflexivity | apply Hc2; [reflexivity | lia]]. }
    { constructor. } { constructor. }
    { destruct (shifts W (tt_align tg) [] (tt_n tg + ms_zombie_lines m)).
      - intros _. now apply N.ltb_lt.
      - unfold visual_line_count. cbn. lia. }
    destruct (Hnil eq_refl) as (_ & Hge & Hz).
    destruct (term_draw W H nofaults tg1 [] c) as [[[tg2 e] c'] ok]. cbn [fst snd] in *.
    destruct (N.eq_dec (tt_n tg + ms_zombie_lines m) 0) as [Hz0|Hnz].
    - destruct (Hz Hz0) as [_ Ht']. rewrite Ht'. apply (proj1 Hcur).
      apply orb_prop in Hok. destruct Hok as [Hok|Hok]; [apply N.leb_le in Hok; lia | exact Hok].
    - apply Hge. lia.
  Qed.

  Lemma g_drawB_same ne m m' extra g :
    ms_members m' = ms_members m -> ms_order m' = ms_order m -> ms_orphans m' = ms_orphans m ->
    ms_align m' = ms_align m ->
    g_drawB W ne m' extra g = g_drawB W ne m extra g.
  Proof.
    intros Em Eo Er Ea.
    unfold g_drawB, ms_frame, ms_has_text, text_lines_of, bar_lines_of, zombie_rows.
    rewrite Em, Eo, Er, Ea. reflexivity.
  Qed.

  Lemma suspendB_inv m t g ws now c :
    AInvB m t g -> fits_actB W H now m (ASuspend ws) ->
    let r := ms_suspend W H nofaults m ws now c in
    AInvB (fst (fst r)) (run_ops Wn Hn t (snd (fst r))) (g_actB W now m (ASuspend ws) g)
    /\ ms_orphans (fst (fst r)) = [].
  Proof using HW HH.
    intros Hinv (Hws & Hfc & Hfit). cbv zeta. unfold ms_suspend.
    pose proof (clearB_inv m t g c Hinv Hfc) as Hc. cbv zeta in Hc. unfold fst4 in Hc.
    destruct (ms_clear W H nofaults m c) as [[[m1 e1] c1] ok1] eqn:Ec. cbn [fst snd] in Hc.
    destruct Hc as (Hinv1 & Hn1 & Hz1 & Eor & Eme & Eod & Efr & Eal).
    pose proof Hinv1 as (tg1 & Ht1 & _).
    rewrite Ht1 in *. cbn [target_n] in Hn1.
    set (tg1' := mktt 0 (tt_rl tg1) (tt_align tg1) (tt_below tg1)).
    set (m1' := set_ms_target m1 (TTerm tg1')).
    pose proof (AInvB_abandon m1 _ _ tg1 _ Hinv1 Ht1 Hz1) as Hinv1'. fold tg1' m1' in Hinv1'.
    rewrite emit_each_nofaults.
    assert (Hcol : match ws with [] :: _ => t_col (run_ops Wn Hn t e1) = 0%nat | _ => True end).
    { destruct ws as [|[|x w] ws']; try exact I. unfold closure_ok in Hws.
      pose proof (clearB_col m t g c Hinv Hfc Hws) as Hcc. rewrite Ec in Hcc. exact Hcc. }
    pose proof (writesB_inv m1' ws _ _ Hinv1' eq_refl Hz1 Hcol) as Hinv2. cbn [bg_log bg_kept bg_pad bg_live] in Hinv2.
    pose proof (drawB_inv m1' _ _ true None now (c1 + N.of_nat (length (map TLine ws))) Hinv2 I) as Hd.
    cbv zeta in Hd. unfold fst4 in Hd.
    assert (Hatt : ms_attempt W m1' true None now = true) by reflexivity.
    assert (Hne0 : ms_erase_n m1' None = 0).
    { unfold ms_erase_n. cbn [m1' ms_target set_ms_target target_n tg1' tt_n].
      change (ms_zombie_lines m1') with (ms_zombie_lines m1). rewrite Hz1.
      destruct (ms_has_text _ None); reflexivity. }
    cbn [g_actB] in Hd. rewrite Hatt, Hne0 in Hd.
    destruct (ms_draw W H nofaults m1' true None now (c1 + N.of_nat (length (map TLine ws)))) as [[[m3 e3] c3] ok3].
    cbn [fst snd] in *. rewrite !run_ops_app.
    rewrite (g_drawB_same 0 m m1' None) in Hd by assumption.
    rewrite <- app_assoc in Hd. cbn [app] in Hd.
    apply Hd. cbn [fits_actB]. intros _. unfold fits_drawB. rewrite Hne0, shifts_zero.
    change (ms_zombie_lines m1') with (ms_zombie_lines m1). rewrite Hz1.
    replace (bar_lines_of m1') with (bar_lines_of m) by (unfold bar_lines_of; cbn [m1' ms_members ms_order set_ms_target]; now rewrite Eme, Eod).
    apply N.leb_le in Hfit. apply N.leb_le. destruct (ms_has_text m1' None); lia.
  Qed.

  (* ---------------------------------------------------------------- MultiState::mark_zombie *)
  Lemma markB_inv m t g idx now :
    AInvB m t g -> AInvB (ms_mark_zombie W m idx) t (g_actB W now m (AMark idx) g)
                   /\ ms_orphans (ms_mark_zombie W m idx) = ms_orphans m.
  Proof.
    intros (tg & Ht & Horph & Hmb & L & K & F & Hr & HL & HK & HF & HlF & HlK & Hreach & Hcur).
    unfold ms_mark_zombie. cbn [g_actB]. destruct (ms_order m) as [|first rest] eqn:Eo.
    - split; [|reflexivity]. exists tg. repeat (split; [assumption|]). exists L, K, F. repeat split; try assumption; apply Hcur.
    - rewrite (N.eqb_sym idx first). destruct (N.eqb_spec first idx) as [->|Hne]; cbn [negb].
      + (* at the head: Keep *)
        unfold ms_width. rewrite Ht. cbn [target_n target_adjust_keep].
        set (lc := N.min (member_vlc (nthN (ms_members m) idx member_default) W) (tt_n tg)).
        match goal with |- context [ms_remove_idx ?m0 idx] => set (m0' := m0);
          destruct (remove_idx_other m0' idx) as (Ea & Eor & Ez & Et) end.
        cbn [m0' ms_align ms_orphans ms_zombie_lines ms_target set_ms_target set_ms_zombie_lines] in Ea, Eor, Ez, Et.
        split; [|exact Eor].
        exists (tt_adjust_keep tg lc). split; [exact Et|].
        split; [rewrite Eor; exact Horph|]. split; [apply members_bars_remove; exact Hmb|].
        exists L, (K ++ firstn (N.to_nat lc) F), (skipn (N.to_nat lc) F).
        rewrite bg_region_keep. cbn [g_keepB bg_log bg_kept tt_adjust_keep tt_n tt_below]. rewrite Ez.
        assert (Hlc : (N.to_nat lc <= length F)%nat) by (unfold lc; lia).
        split; [rewrite <- (app_assoc K), firstn_skipn; exact Hr|].
        split; [exact HL|]. split; [apply rows_equiv_app; [exact HK | apply rows_equiv_firstn; exact HF]|].
        split; [apply rows_equiv_skipn; exact HF|].
        split; [rewrite skipn_length; lia|]. split; [rewrite app_length, firstn_length; lia|].
        split; [lia|].
        replace (tt_n tg - lc + (ms_zombie_lines m + lc)) with (tt_n tg + ms_zombie_lines m) by (unfold lc; lia).
        exact Hcur.
      + (* behind the head: only the flag *)
        split; [|reflexivity].
        exists tg. split; [exact Ht|]. split; [exact Horph|].
        split.
        { unfold members_bars. cbn [ms_members set_ms_members].
          eapply members_bars_upd; [exact Hmb | | reflexivity]. intros x ls Hx. left. exact Hx. }
        exists L, K, F. repeat split; try assumption; apply Hcur.
  Qed.

  (* ---------------------------------------------------------------- the calls that do not draw *)
  Lemma AInvB_core m m' t g :
    AInvB m t g -> ms_target m' = ms_target m ->
    ms_zombie_lines m' = ms_zombie_lines m ->
    Forall (fun l => is_bar l = false) (ms_orphans m') -> members_bars m' -> AInvB m' t g.
  Proof.
    intros (tg & Ht & Horph & Hmb & L & K & F & Hr & HL & HK & HF & HlF & HlK & Hreach & Hcur) Et Ez Ho Hm.
    exists tg. split; [congruence|]. split; [exact Ho|].
    split; [exact Hm|]. exists L, K, F. rewrite Ez. repeat split; try assumption; apply Hcur.
  Qed.

  Lemma storeB_inv m t g idx texts bars :
    AInvB m t g -> Forall (fun l => is_bar l = false) texts -> Forall (fun l => is_bar l = true) bars ->
    AInvB (ms_store m idx texts bars) t g.
  Proof.
    intros Hinv Htx Hbs. pose proof Hinv as (tg & _ & Horph & Hmb & _).
    apply (AInvB_core m _ t g Hinv); try reflexivity.
    - cbn. apply Forall_app. split; assumption.
    - unfold members_bars, ms_store. cbn [ms_members set_ms_orphans set_ms_members].
      eapply members_bars_upd; [exact Hmb | | reflexivity].
      intros x ls Hx. cbn in Hx. injection Hx as <-. right. exact Hbs.
  Qed.

  Lemma removeB_inv m t g idx : AInvB m t g -> AInvB (ms_remove_idx m idx) t g.
  Proof.
    intros Hinv. pose proof Hinv as (tg & _ & Horph & Hmb & _).
    destruct (remove_idx_other m idx) as (Ea & Eo & Ez & Et).
    apply (AInvB_core m _ t g Hinv); try assumption.
    - rewrite Eo. exact Horph.
    - apply members_bars_remove. exact Hmb.
  Qed.

  Lemma insertB_inv m t g loc m1 idx : AInvB m t g -> ms_insert m loc = Some (m1, idx) -> AInvB m1 t g.
  Proof.
    intros Hinv Hi. pose proof Hinv as (tg & _ & Horph & Hmb & _).
    unfold ms_insert in Hi.
    set (p := match ms_free m with
              | i :: fr => (set_ms_free (set_ms_members m (updN (ms_members m) (N.to_nat i) (fun _ => member_default))) fr, i)
              | [] => (set_ms_members m (ms_members m ++ [member_default]), N.of_nat (length (ms_members m)))
              end) in Hi.
    assert (Hp : ms_target (fst p) = ms_target m
                 /\ ms_zombie_lines (fst p) = ms_zombie_lines m /\ ms_orphans (fst p) = ms_orphans m
                 /\ members_bars (fst p)).
    { unfold p. destruct (ms_free m) as [|i fr]; cbn [fst]; repeat split; try reflexivity.
      - apply members_bars_In. cbn [ms_members set_ms_members]. intros mem Hin ls Hls.
        apply in_app_or in Hin. destruct Hin as [Hin|[<-|[]]]; [|discriminate].
        exact (proj1 (members_bars_In m) Hmb mem Hin ls Hls).
      - unfold members_bars. cbn [ms_members set_ms_members set_ms_free].
        eapply members_bars_upd; [exact Hmb | | reflexivity]. intros x ls Hx. discriminate. }
    destruct p as [m0 i0]. cbn [fst] in Hp. destruct Hp as (Et & Ez & Eo & Hm0).
    assert (Hgoal : forall ord, AInvB (set_ms_order m0 ord) t g).
    { intros ord. apply (AInvB_core m _ t g Hinv); try assumption. cbn. rewrite Eo. exact Horph. }
    destruct loc as [|p0|p0|r|r]; try (injection Hi as <- _; apply Hgoal).
    - destruct (posN r (ms_order m0)); [injection Hi as <- _; apply Hgoal | discriminate].
    - destruct (posN r (ms_order m0)); [injection Hi as <- _; apply Hgoal | discriminate].
  Qed.

  (* ---------------------------------------------------------------- one call, a sequence of calls *)
  Lemma actB_inv now m t g c a :
    AInvB m t g -> act_wf a -> fits_actB W H now m a ->
    let r := mp_exec1 W H nofaults now m c a in
    AInvB (fst4 r) (run_ops Wn Hn t (snd (fst (fst r)))) (g_actB W now m a g).
  Proof using HW HH.
    intros Hinv Hwf Hfit. cbv zeta. destruct a as [idx texts bars|force extra| |ws|idx|loc|idx|al|ws];
      cbn [mp_exec1 act_wf] in *.
    - unfold fst4. cbn [fst snd g_actB]. rewrite run_ops_nil. destruct Hwf. now apply storeB_inv.
    - exact (proj1 (drawB_inv m t g force extra now c Hinv Hwf Hfit)).
    - exact (proj1 (clearB_inv m t g c Hinv Hfit)).
    - pose proof (suspendB_inv m t g ws now c Hinv Hfit) as Hs. cbv zeta in Hs.
      destruct (ms_suspend W H nofaults m ws now c) as [[m' e] c']. exact (proj1 Hs).
    - unfold fst4. cbn [fst snd g_actB]. rewrite run_ops_nil. now apply removeB_inv.
    - unfold fst4. cbn [fst snd g_actB]. rewrite run_ops_nil.
      destruct (ms_insert m loc) as [[m1 i1]|] eqn:Ei; [eapply insertB_inv; eauto | exact Hinv].
    - unfold fst4. cbn [fst snd]. rewrite run_ops_nil. exact (proj1 (markB_inv m t g idx now Hinv)).
    - unfold fst4. cbn [fst snd g_actB]. rewrite run_ops_nil.
      apply (AInvB_core m _ t g Hinv); try reflexivity.
      + destruct Hinv as (tg & _ & Ho & _). exact Ho.
      + destruct Hinv as (tg & _ & _ & Hm & _). exact Hm.
    - cbn [fits_actB] in Hfit. subst ws. cbn [map]. rewrite emit_each_nofaults.
      unfold fst4. cbn [fst snd g_actB map]. rewrite run_ops_nil, app_nil_r. destruct g; exact Hinv.
  Qed.

  Lemma actsB_inv now : forall acts m t g c,
    AInvB m t g -> Forall act_wf acts -> fits_runB W H now m c acts ->
    let r := mp_run W H nofaults now m c acts in
    AInvB (fst (fst r)) (run_ops Wn Hn t (snd (fst r))) (g_runB W H now m c acts g).
  Proof using HW HH.
    induction acts as [|a acts IH]; intros m t g c Hinv Hwf Hfit; cbv zeta.
    - cbn [mp_run g_runB fst snd]. rewrite run_ops_nil. exact Hinv.
    - inversion Hwf as [|? ? Hwa Hwr]; subst. cbn [fits_runB] in Hfit. destruct Hfit as [Hfa Hfr].
      pose proof (actB_inv now m t g c a Hinv Hwa Hfa) as H1. cbv zeta in H1. unfold fst4 in H1.
      cbn [mp_run g_runB].
      destruct (mp_exec1 W H nofaults now m c a) as [[[m1 e1] c1] ok1]. cbn [fst snd] in H1.
      specialize (IH m1 _ _ c1 H1 Hwr Hfr). cbv zeta in IH.
      destruct (mp_run W H nofaults now m1 c1 acts) as [[m2 e2] c2]. cbn [fst snd] in *.
      rewrite run_ops_app. exact IH.
  Qed.
End ScreenB.

(* ------------------------------------------------------------------ every history *)
Section HistoryB.
  Variable W H : N.
  Hypothesis HW : 1 <= W.
  Hypothesis HH : 1 <= H.
  Variable pre : list (list N).
  Let Wn := N.to_nat W.
  Let Hn := N.to_nat H.

  Definition SInvB (st : sys * bghost * term) : Prop :=
    no_own_term (fst (fst st)) /\ AInvB W H pre (s_mp (fst (fst st))) (snd st) (snd (fst st)).

  Lemma bs_step_sys s g t x :
    fst (fst (bs_step W H (s, g, t) x)) = fst (fst (step W H nofaults s (fst x) (snd x))).
  Proof. unfold bs_step. destruct (step W H nofaults s (fst x) (snd x)) as [[s' e] r]. reflexivity. Qed.

  (** INV is preserved by every public call *)
  Lemma bs_step_inv s g t now o :
    SInvB (s, g, t) -> fits_runB W H now (s_mp s) (s_calls s) (op_actions W s now o) ->
    SInvB (bs_step W H (s, g, t) (now, o)).
  Proof using HW HH.
    intros [Hno Hinv] Hfit. unfold bs_step. cbn [fst snd] in *.
    pose proof (step_mp W H nofaults s now o) as [Hmp Hout]. specialize (Hout Hno). destruct Hout as [_ Hout].
    pose proof (no_own_step W H nofaults s now o Hno) as Hno'.
    unfold step_sys, step_out in *.
    destruct (step W H nofaults s now o) as [[s' e] ok]. cbn [fst snd] in *.
    split; [exact Hno'|]. cbn [fst snd]. rewrite Hmp, Hout.
    apply (actsB_inv W H HW HH pre now); [exact Hinv | apply op_actions_wf | exact Hfit].
  Qed.

  Lemma bs_run_inv : forall h s g t,
    SInvB (s, g, t) -> FitsAllB W H s h -> SInvB (bs_run W H (s, g, t) h).
  Proof using HW HH.
    induction h as [|[now o] h IH]; intros s g t Hinv Hfit; [exact Hinv|].
    unfold bs_run. cbn [fold_left]. fold (bs_run W H).
    cbn [FitsAllB fst snd] in Hfit. destruct Hfit as [Hf1 Hf2].
    pose proof (bs_step_inv s g t now o Hinv Hf1) as Hinv'.
    pose proof (bs_step_sys s g t (now, o)) as Hsys. cbn [fst snd] in Hsys.
    destruct (bs_step W H (s, g, t) (now, o)) as [[s' g'] t']. cbn [fst snd] in Hsys. subst s'.
    apply IH; assumption.
  Qed.

  Lemma bs_initial_inv s0 t0 : bs_initial s0 -> ready Wn Hn pre t0 -> SInvB (s0, bghost0, t0).
  Proof.
    intros (Hno & tg & Ht & Hn0 & Hbel & Horph & Hz & Hmb) Hr.
    split; [exact Hno|]. cbn [fst snd].
    exists tg. split; [exact Ht|].
    split; [rewrite Horph; constructor|]. split; [exact Hmb|].
    exists [], [], []. cbn [bghost0 bg_log bg_kept app length]. unfold bg_region. cbn [bg_pad bg_live N.to_nat repeat app].
    rewrite app_nil_r, Hn0, Hz, Hbel.
    split; [exact Hr|]. split; [apply rows_equiv_refl|]. split; [apply rows_equiv_refl|].
    split; [apply rows_equiv_refl|]. split; [reflexivity|]. split; [reflexivity|]. split; [cbn; lia|].
    split; [discriminate | intros _ Hge; lia].
  Qed.

  Theorem bs_invariant s0 t0 h :
    bs_initial s0 -> ready Wn Hn pre t0 -> FitsAllB W H s0 h ->
    SInvB (bs_run W H (s0, bghost0, t0) h).
  Proof using HW HH.
    intros Hi Hr Hf. apply bs_run_inv; [apply bs_initial_inv; assumption | exact Hf].
  Qed.

  (** C02_screen_bottom: the screen equation and the cursor clause after every history, either
      alignment, alignment changes included *)
  Theorem c02_screen_bottom s0 t0 h :
    bs_initial s0 -> ready Wn Hn pre t0 -> FitsAllB W H s0 h ->
    let s := fst (fst (bs_run W H (s0, bghost0, t0) h)) in
    let g := snd (fst (bs_run W H (s0, bghost0, t0) h)) in
    let t := snd (bs_run W H (s0, bghost0, t0) h) in
    (exists k, screen Wn t = map (pad Wn) (bs_expected W pre g) ++ repeat (repeat SP Wn) k)
    /\ next_cell Wn t = (length (bs_expected W pre g), 0%nat)
    /\ length (bg_kept g) = N.to_nat (ms_zombie_lines (s_mp s))
    /\ (N.to_nat (bg_pad g) + length (bg_live g))%nat = N.to_nat (target_n (ms_target (s_mp s))).
  Proof using HW HH.
    intros Hi Hr Hf. cbv zeta.
    pose proof (bs_invariant s0 t0 h Hi Hr Hf) as [_ Hinv].
    destruct (bs_run W H (s0, bghost0, t0) h) as [[s g] t]. cbn [fst snd] in *.
    destruct Hinv as (tg & Ht & _ & _ & L & K & F & Hready & HL & HK & HF & HlF & HlK & _).
    assert (HWn : (1 <= Wn)%nat) by (unfold Wn; lia).
    unfold bs_expected. unfold Wn, Hn in *. split; [|split; [|split]].
    - destruct (ready_all_rows _ _ _ _ Hready) as (k & Hall). exists k.
      unfold screen. rewrite Hall. rewrite !map_app. unfold rows_equiv in HL, HK, HF. rewrite HL, HK, HF.
      rewrite map_repeat', pad_nil. now rewrite <- !app_assoc.
    - rewrite (ready_row _ _ _ _ HWn Hready). rewrite !app_length.
      now rewrite (rows_equiv_length _ _ _ HL), (rows_equiv_length _ _ _ HK), (rows_equiv_length _ _ _ HF).
    - rewrite <- HlK. symmetry. exact (rows_equiv_length _ _ _ HK).
    - rewrite Ht. cbn [target_n]. rewrite <- HlF, (rows_equiv_length _ _ _ HF).
      unfold bg_region. now rewrite app_length, repeat_length.
  Qed.
End HistoryB.

(* ------------------------------------------------------------------ the log: the Bottom ghost and the Top ghost log the same lines *)
Section LogB.
  Variable W H : N.

  Lemma log_lines_gap k es : log_lines (LGap k :: es) = log_lines es.
  Proof. reflexivity. Qed.

  Lemma g_keepB_log g k : bg_log (g_keepB g k) = bg_log g.
  Proof. reflexivity. Qed.

  Lemma g_drawB_log ne m extra g :
    bg_log (g_drawB W ne m extra g) = bg_log g ++ map LLine (map lt (text_lines_of m extra)).
  Proof. unfold g_drawB. destruct (ms_has_text m extra); reflexivity. Qed.

  Lemma g_draw_log m extra g : mg_log (g_draw W m extra g) = mg_log g ++ map lt (text_lines_of m extra).
  Proof. unfold g_draw. destruct (ms_has_text m extra); reflexivity. Qed.

  Lemma log_agree_act now m a gB gT :
    log_lines (bg_log gB) = mg_log gT ->
    log_lines (bg_log (g_actB W now m a gB)) = mg_log (g_act W now m a gT).
  Proof.
    intros E. destruct a as [idx texts bars|force extra| |ws|idx|loc|idx|al|ws]; cbn [g_actB g_act]; try exact E.
    - destruct (ms_attempt W m force extra now); [|exact E].
      rewrite g_drawB_log, g_draw_log, log_lines_app, log_lines_lines, E. reflexivity.
    - rewrite g_drawB_log, g_draw_log. cbn [bg_log mg_log].
      rewrite !log_lines_app, log_lines_gap, !log_lines_lines, E. reflexivity.
    - destruct (ms_order m) as [|first rest]; [exact E|]. destruct (idx =? first); exact E.
    - cbn [bg_log mg_log]. rewrite log_lines_app, log_lines_lines, E. reflexivity.
  Qed.

  Lemma log_agree_run now : forall acts m c gB gT,
    log_lines (bg_log gB) = mg_log gT ->
    log_lines (bg_log (g_runB W H now m c acts gB)) = mg_log (g_run W H now m c acts gT).
  Proof.
    induction acts as [|a r IH]; intros m c gB gT E; cbn [g_runB g_run]; [exact E|].
    destruct (mp_exec1 W H nofaults now m c a) as [[[m1 e1] c1] ok1].
    apply IH. apply log_agree_act. exact E.
  Qed.

  (** the only proviso the log needs: suspend through a DETACHED bar writes nothing *)
  Definition write_ok (s : sys) (o : op) : Prop :=
    match o with
    | OSuspend b ws => match b_target (get_bar s b) with THidden => ws = [] | _ => True end
    | _ => True
    end.

  Lemma fits_write_ok s now o :
    fits_runB W H now (s_mp s) (s_calls s) (op_actions W s now o) -> write_ok s o.
  Proof.
    destruct o; try exact (fun _ => I). cbn [op_actions write_ok].
    destruct (b_target (get_bar s b)); try exact (fun _ => I).
    cbn [fits_runB fits_actB]. intros [E _]. exact E.
  Qed.

  (** MultiScreenProofs.op_log_step with the proviso it really uses *)
  Lemma op_log_step' s now o g :
    J (s_mp s) -> no_own_term s -> write_ok s o ->
    mg_log (g_run W H now (s_mp s) (s_calls s) (op_actions W s now o) g) = mg_log g ++ op_log s o
    /\ J (fst (fst (mp_run W H nofaults now (s_mp s) (s_calls s) (op_actions W s now o)))).
  Proof.
    intros HJ Hno Hfit.
    assert (Hd : forall s1 b force, s_mp s1 = s_mp s ->
              mg_log (g_run W H now (s_mp s) (s_calls s) (draw_actions W s1 b force) g) = mg_log g ++ []
              /\ J (fst (fst (mp_run W H nofaults now (s_mp s) (s_calls s) (draw_actions W s1 b force))))).
    { intros s1 b force E. rewrite app_nil_r, <- E. apply log_draw_actions. rewrite E. exact HJ. }
    assert (Hnil : mg_log g = mg_log g ++ [] /\ J (s_mp s)) by (rewrite app_nil_r; auto).
    destruct o; cbn [op_actions op_log write_ok] in Hfit |- *; try (apply Hd; reflexivity); try exact Hnil.
    all: try (unfold pos_actions;
              match goal with |- context [ap_allow ?a ?b] => destruct (ap_allow a b) as [[|] ap'] end;
              [apply Hd; reflexivity | exact Hnil]).
    - (* OPrintln *)
      unfold is_member. destruct (b_target (get_bar s b)) as [|tg|idx]; [exact Hnil | exact Hnil |].
      pose proof (log_store_draw W H now (s_mp s) (s_calls s) g idx (text_lines m)
                    (stored_frame W (s_mp s) (get_bar s b)) true HJ ltac:(reflexivity)) as Hl.
      cbv zeta in Hl. rewrite (text_lines_lt m) in Hl. exact Hl.
    - (* OSuspend *)
      pose proof (Hno b) as Hb. destruct (b_target (get_bar s b)) as [|tg|idx]; [|contradiction|].
      + subst ws. cbn. rewrite ?app_nil_r. split; [destruct g; reflexivity | exact HJ].
      + apply log_suspend. exact HJ.
    - (* ODrop *)
      rewrite g_run_app, mp_run_app.
      assert (Hfin : mg_log (g_run W H now (s_mp s) (s_calls s)
                               (if finished (get_bar s b) then [] else finish_actions W s b (b_on_finish (get_bar s b))) g)
                     = mg_log g
                     /\ J (fst (fst (mp_run W H nofaults now (s_mp s) (s_calls s)
                               (if finished (get_bar s b) then [] else finish_actions W s b (b_on_finish (get_bar s b))))))).
      { destruct (finished (get_bar s b)); [split; [reflexivity | exact HJ]|].
        unfold finish_actions. destruct (Hd (upd_bar s b (finish_upd (b_on_finish (get_bar s b)))) b true eq_refl) as [A B].
        rewrite app_nil_r in A. split; assumption. }
      destruct Hfin as [Hl1 HJ1].
      destruct (mp_run W H nofaults now (s_mp s) (s_calls s)
                  (if finished (get_bar s b) then [] else finish_actions W s b (b_on_finish (get_bar s b)))) as [[m1 e1] c1].
      cbn [fst] in HJ1. rewrite app_nil_r.
      destruct (b_target (get_bar s b)) as [|tg|idx]; cbn [g_run mp_run mp_exec1 fst g_act]; try (split; assumption).
      split; [|apply J_mark; exact HJ1].
      destruct (ms_order m1) as [|first rest]; [exact Hl1|]. destruct (idx =? first); [exact Hl1 | exact Hl1].
    - (* OInsert *)
      destruct (b_target (get_bar s b)) as [|tg|idx0]; [| |exact Hnil];
        (match goal with |- context [match ?x with Some l => _ | None => _ end] => destruct x as [l|] end; [|exact Hnil];
         match goal with |- context [ms_insert (s_mp s) ?l0] =>
           destruct (ms_insert (s_mp s) l0) as [[m1 idx]|] eqn:Ei; [|exact Hnil];
           pose proof (J_insert _ _ _ _ HJ Ei) as HJ1;
           destruct (run_cons_nodraw W H now (s_mp s) (s_calls s) (AInsert l0) [] m1) as [E1 E2];
             [cbn [mp_exec1]; rewrite Ei; reflexivity|]; rewrite E1, E2; cbn [g_act]
         end;
         cbn; rewrite ?app_nil_r; auto).
    - (* ORemove *)
      destruct (b_target (get_bar s b)) as [|tg|idx]; [exact Hnil | exact Hnil |].
      destruct (run_cons_nodraw W H now (s_mp s) (s_calls s) (ARemove idx) [ADraw true None] (ms_remove_idx (s_mp s) idx) eq_refl) as [E1 E2].
      rewrite E1, E2. cbn [g_act].
      pose proof (log_forced_draw W H now (ms_remove_idx (s_mp s) idx) (s_calls s) g None (J_remove _ idx HJ)) as Hl.
      cbv zeta in Hl. cbn [map] in Hl. exact Hl.
    - (* OMPrintln *)
      pose proof (log_forced_draw W H now (s_mp s) (s_calls s) g
                    (Some (match m with [] => [mkline KEmpty []] | _ => map (mkline KText) (lines_of m) end)) HJ) as Hl.
      cbv beta zeta iota in Hl. rewrite mp_println_lt in Hl. exact Hl.
    - (* OMSuspend *) apply log_suspend. exact HJ.
    - (* OMClear *)
      cbn [g_run mp_run mp_exec1 g_act mg_log]. destruct HJ as [Ho [tg Ht]].
      destruct (ms_clear_fields W H (s_mp s) (s_calls s) tg Ht) as (Eo & _ & _ & Et). unfold fst4 in *.
      destruct (ms_clear W H nofaults (s_mp s) (s_calls s)) as [[[m1 e1] c1] ok1]. cbn [fst snd] in *.
      rewrite app_nil_r. split; [reflexivity | split; [congruence | exact Et]].
  Qed.

  Lemma op_log_stepB s now o g :
    J (s_mp s) -> no_own_term s -> write_ok s o ->
    log_lines (bg_log (g_runB W H now (s_mp s) (s_calls s) (op_actions W s now o) g))
      = log_lines (bg_log g) ++ op_log s o
    /\ J (fst (fst (mp_run W H nofaults now (s_mp s) (s_calls s) (op_actions W s now o)))).
  Proof.
    intros HJ Hno Hw.
    destruct (op_log_step' s now o (mkmg (log_lines (bg_log g)) [] []) HJ Hno Hw) as [Hl HJ'].
    split; [|exact HJ'].
    rewrite (log_agree_run now _ (s_mp s) (s_calls s) g (mkmg (log_lines (bg_log g)) [] []) eq_refl).
    exact Hl.
  Qed.

  Lemma hist_log_runB : forall h s g t,
    J (s_mp s) -> no_own_term s -> FitsAllB W H s h ->
    log_lines (bg_log (snd (fst (bs_run W H (s, g, t) h)))) = log_lines (bg_log g) ++ hist_log W H s h
    /\ J (s_mp (fst (fst (bs_run W H (s, g, t) h)))).
  Proof.
    induction h as [|[now o] h IH]; intros s g t HJ Hno Hfit.
    - cbn. rewrite app_nil_r. auto.
    - change (bs_run W H (s, g, t) ((now, o) :: h)) with (bs_run W H (bs_step W H (s, g, t) (now, o)) h).
      cbn [hist_log].
      cbn [FitsAllB fst snd] in Hfit. destruct Hfit as [Hf1 Hf2].
      destruct (op_log_stepB s now o g HJ Hno (fits_write_ok s now o Hf1)) as [Hl HJ'].
      pose proof (step_mp W H nofaults s now o) as [Hmp _].
      pose proof (no_own_step W H nofaults s now o Hno) as Hno'.
      unfold bs_step at 1 2. unfold step_sys in *. cbn [fst snd] in *.
      destruct (step W H nofaults s now o) as [[s' e] ok]. cbn [fst snd] in *.
      rewrite <- Hmp in HJ'.
      destruct (IH s' (g_runB W H now (s_mp s) (s_calls s) (op_actions W s now o) g)
                   (run_ops (N.to_nat W) (N.to_nat H) t e) HJ' Hno' Hf2) as [IH1 IH2].
      rewrite IH1, Hl, <- app_assoc. auto.
  Qed.

  Lemma FitsAllB_prefix : forall h1 h2 s, FitsAllB W H s (h1 ++ h2) -> FitsAllB W H s h1.
  Proof.
    induction h1 as [|x h1 IH]; intros h2 s Hf; [exact I|].
    cbn [app FitsAllB] in *. destruct Hf as [Ha Hb]. split; [exact Ha | eapply IH; exact Hb].
  Qed.
End LogB.

Lemma bs_initial_J s0 : bs_initial s0 -> J (s_mp s0) /\ no_own_term s0.
Proof. intros (Hno & tg & Ht & _ & _ & Ho & _). split; [split; [exact Ho | eauto] | exact Hno]. Qed.

(** C03_log_bottom: after every history, either alignment: the printed lines ([hist_log], read off
    the calls) are exactly the [LLine] entries of the ghost log, in emission order, each once; the
    rows of that log (the lines, and the blank gap rows suspend left under Bottom alignment) are
    on the screen directly below [pre] and ABOVE the kept rows, the padding and the live rows, whose
    sizes are the two row counters: nothing the next draw erases is a log row *)
Theorem c03_log_bottom W H pre s0 t0 h : 1 <= W -> 1 <= H ->
  bs_initial s0 -> ready (N.to_nat W) (N.to_nat H) pre t0 -> FitsAllB W H s0 h ->
  let s := fst (fst (bs_run W H (s0, bghost0, t0) h)) in
  let g := snd (fst (bs_run W H (s0, bghost0, t0) h)) in
  let t := snd (bs_run W H (s0, bghost0, t0) h) in
  log_lines (bg_log g) = hist_log W H s0 h
  /\ (exists k, screen (N.to_nat W) t
        = map (pad (N.to_nat W))
              (pre ++ log_rows (N.to_nat W) (bg_log g) ++ bg_kept g
                   ++ repeat [] (N.to_nat (bg_pad g)) ++ bg_live g)
          ++ repeat (repeat SP (N.to_nat W)) k)
  /\ length (bg_kept g) = N.to_nat (ms_zombie_lines (s_mp s))
  /\ (N.to_nat (bg_pad g) + length (bg_live g))%nat = N.to_nat (target_n (ms_target (s_mp s)))
  /\ ms_orphans (s_mp s) = [].
Proof.
  intros HW HH Hi Hr Hf. cbv zeta.
  destruct (bs_initial_J s0 Hi) as [HJ Hno].
  destruct (hist_log_runB W H h s0 bghost0 t0 HJ Hno Hf) as [Hlog [Ho _]]. cbn [bghost0 bg_log log_lines flat_map app] in Hlog.
  destruct (c02_screen_bottom W H HW HH pre s0 t0 h Hi Hr Hf) as (Hscr & _ & Hk & Hn). cbv zeta in Hscr, Hk, Hn.
  destruct (bs_run W H (s0, bghost0, t0) h) as [[s g] t]. cbn [fst snd] in *.
  unfold bs_expected, bg_region in Hscr.
  repeat split; assumption.
Qed.

Theorem c02_screen_bottom_every_prefix W H pre s0 t0 h1 h2 : 1 <= W -> 1 <= H ->
  bs_initial s0 -> ready (N.to_nat W) (N.to_nat H) pre t0 -> FitsAllB W H s0 (h1 ++ h2) ->
  let s := fst (fst (bs_run W H (s0, bghost0, t0) h1)) in
  let g := snd (fst (bs_run W H (s0, bghost0, t0) h1)) in
  let t := snd (bs_run W H (s0, bghost0, t0) h1) in
  (exists k, screen (N.to_nat W) t
             = map (pad (N.to_nat W)) (bs_expected W pre g) ++ repeat (repeat SP (N.to_nat W)) k)
  /\ next_cell (N.to_nat W) t = (length (bs_expected W pre g), 0%nat)
  /\ length (bg_kept g) = N.to_nat (ms_zombie_lines (s_mp s))
  /\ (N.to_nat (bg_pad g) + length (bg_live g))%nat = N.to_nat (target_n (ms_target (s_mp s))).
Proof.
  intros HW HH Hi Hr Hf.
  exact (c02_screen_bottom W H HW HH pre s0 t0 h1 Hi Hr (FitsAllB_prefix W H h1 h2 s0 Hf)).
Qed.

Theorem c03_log_bottom_every_prefix W H pre s0 t0 h1 h2 : 1 <= W -> 1 <= H ->
  bs_initial s0 -> ready (N.to_nat W) (N.to_nat H) pre t0 -> FitsAllB W H s0 (h1 ++ h2) ->
  let s := fst (fst (bs_run W H (s0, bghost0, t0) h1)) in
  let g := snd (fst (bs_run W H (s0, bghost0, t0) h1)) in
  let t := snd (bs_run W H (s0, bghost0, t0) h1) in
  log_lines (bg_log g) = hist_log W H s0 h1
  /\ (exists k, screen (N.to_nat W) t
        = map (pad (N.to_nat W))
              (pre ++ log_rows (N.to_nat W) (bg_log g) ++ bg_kept g
                   ++ repeat [] (N.to_nat (bg_pad g)) ++ bg_live g)
          ++ repeat (repeat SP (N.to_nat W)) k)
  /\ length (bg_kept g) = N.to_nat (ms_zombie_lines (s_mp s))
  /\ (N.to_nat (bg_pad g) + length (bg_live g))%nat = N.to_nat (target_n (ms_target (s_mp s)))
  /\ ms_orphans (s_mp s) = [].
Proof.
  intros HW HH Hi Hr Hf.
  exact (c03_log_bottom W H pre s0 t0 h1 HW HH Hi Hr (FitsAllB_prefix W H h1 h2 s0 Hf)).
Qed.

(* ------------------------------------------------------------------ the D22 exclusion: kept rows are rows of painted Bar lines *)
(** Under [nopad_*] (no LineAdjust::Keep(k > 0) while padding rows are on top of the counted
    region) the log / kept / live components of the Bottom ghost evolve exactly as the
    Top-alignment ghost of MultiScreen.v, whose kept rows are by construction the wrapped lines of
    the reaped members (g_draw) resp. the first live rows (g_keep): never padding. *)
Section NoPad.
  Variable W H : N.
  Hypothesis HW : 1 <= W.

  Lemma vlc_zero_nil ls : visual_line_count ls W = 0 -> ls = [].
  Proof.
    destruct ls as [|l r]; [reflexivity|]. rewrite visual_line_count_cons.
    unfold wrapped_height. intros E. exfalso. lia.
  Qed.

  Lemma zombie_rows_le m : zombie_rows W m <= visual_line_count (bar_lines_of m) W.
  Proof. rewrite zombie_rows_vlc, bar_lines_split, visual_line_count_app. lia. Qed.

  Lemma bg_top_draw ne m extra g :
    ms_has_text m extra = true \/ frame_pad W (ms_align m) (ms_frame m extra) ne = 0 \/ zombie_rows W m = 0 ->
    bg_top (g_drawB W ne m extra g) = g_draw W m extra (bg_top g).
  Proof using HW.
    intros Hx. unfold g_drawB, g_draw, bg_top.
    destruct (ms_has_text m extra) eqn:Hht.
    - cbn [bg_log bg_kept bg_live mg_log]. rewrite log_lines_app, log_lines_lines. reflexivity.
    - destruct Hx as [Hx|Hx]; [discriminate|].
      cbn [g_keepB bg_log bg_kept bg_live bg_pad mg_log mg_kept]. rewrite log_lines_app, log_lines_lines.
      set (p := frame_pad W (ms_align m) (ms_frame m extra) ne) in *.
      pose proof (zombie_rows_le m) as Hzle.
      assert (Hzl : length (wrap (N.to_nat W) (map lt (zombie_lines_of m))) = N.to_nat (zombie_rows W m))
        by (rewrite zombie_rows_vlc; apply wrap_length; exact HW).
      unfold bg_region. cbn [bg_pad bg_live].
      rewrite (bar_lines_split m), map_app, wrap_app.
      destruct Hx as [Hp|Hz].
      + rewrite Hp. cbn [N.to_nat repeat app].
        replace (N.min (zombie_rows W m) (visual_line_count (zombie_lines_of m ++ rest_lines_of m) W + 0))
          with (zombie_rows W m) by (rewrite <- bar_lines_split; lia).
        rewrite N.sub_0_r, <- Hzl, firstn_app_exact, skipn_app_exact. reflexivity.
      + rewrite Hz. replace (N.min 0 _) with 0 by lia.
        assert (Ezl : zombie_lines_of m = []) by (apply vlc_zero_nil; rewrite <- zombie_rows_vlc; exact Hz).
        rewrite Ezl. cbn [map wrap concat app N.to_nat firstn]. unfold wrap at 1 2. cbn [map concat app].
        replace (N.to_nat (0 - p)) with 0%nat by lia. cbn [skipn]. rewrite app_nil_r. reflexivity.
  Qed.

  Lemma bg_top_keep g k : bg_pad g = 0 \/ k = 0 -> bg_top (g_keepB g k) = g_keep (bg_top g) k.
  Proof.
    intros [Hp|Hk]; unfold g_keepB, g_keep, bg_top, bg_region; cbn [bg_log bg_kept bg_live bg_pad mg_log mg_kept mg_live].
    - rewrite Hp. cbn [N.to_nat repeat app]. rewrite N.sub_0_r. reflexivity.
    - subst k. cbn [N.to_nat firstn skipn]. replace (N.to_nat (0 - bg_pad g)) with 0%nat by lia. reflexivity.
  Qed.

  Lemma bg_top_act now m a g :
    nopad_act W now m a g = true -> bg_top (g_actB W now m a g) = g_act W now m a (bg_top g).
  Proof using HW.
    intros Hx. destruct a as [idx texts bars|force extra| |ws|idx|loc|idx|al|ws]; cbn [g_actB g_act nopad_act] in *;
      try reflexivity.
    - destruct (ms_attempt W m force extra now); [|reflexivity]. cbn [negb orb] in Hx.
      apply bg_top_draw. destruct (ms_has_text m extra); [left; reflexivity|]. cbn [orb] in Hx.
      apply orb_prop in Hx. destruct Hx as [Hx|Hx]; apply N.eqb_eq in Hx; auto.
    - rewrite bg_top_draw by (right; left; apply frame_pad_zero).
      unfold bg_top. cbn [bg_log bg_kept bg_live]. rewrite log_lines_app, log_lines_gap, log_lines_lines. reflexivity.
    - destruct (ms_order m) as [|first rest]; [reflexivity|]. destruct (idx =? first); [|reflexivity].
      cbn [negb orb] in Hx. apply bg_top_keep. apply orb_prop in Hx. destruct Hx as [Hx|Hx]; apply N.eqb_eq in Hx; auto.
    - unfold bg_top. cbn [bg_log bg_kept bg_live]. rewrite log_lines_app, log_lines_lines. reflexivity.
  Qed.

  Lemma bg_top_run now : forall acts m c g,
    nopad_run W H now m c acts g = true ->
    bg_top (g_runB W H now m c acts g) = g_run W H now m c acts (bg_top g).
  Proof using HW.
    induction acts as [|a r IH]; intros m c g Hx; cbn [g_runB g_run nopad_run] in *; [reflexivity|].
    apply andb_prop in Hx. destruct Hx as [Ha Hr].
    destruct (mp_exec1 W H nofaults now m c a) as [[[m1 e1] c1] ok1].
    rewrite (IH _ _ _ Hr), (bg_top_act now m a g Ha). reflexivity.
  Qed.

  (** along a history: the Top-alignment ghost [ms_run] and the Bottom ghost [bs_run] side by side *)
  Lemma bg_top_hist : forall h s gB gT t,
    bg_top gB = gT -> NoPadReap W H (s, gB, t) h ->
    bg_top (snd (fst (bs_run W H (s, gB, t) h))) = snd (fst (ms_run W H (s, gT, t) h))
    /\ fst (fst (bs_run W H (s, gB, t) h)) = fst (fst (ms_run W H (s, gT, t) h))
    /\ snd (bs_run W H (s, gB, t) h) = snd (ms_run W H (s, gT, t) h).
  Proof using HW.
    induction h as [|[now o] h IH]; intros s gB gT t E Hx; [cbn; auto|].
    change (bs_run W H (s, gB, t) ((now, o) :: h)) with (bs_run W H (bs_step W H (s, gB, t) (now, o)) h).
    change (ms_run W H (s, gT, t) ((now, o) :: h)) with (ms_run W H (ms_step W H (s, gT, t) (now, o)) h).
    cbn [NoPadReap fst snd] in Hx. destruct Hx as [Hx1 Hx2].
    unfold bs_step, ms_step in *. cbn [fst snd] in *.
    destruct (step W H nofaults s now o) as [[s' e] ok].
    apply IH; [|exact Hx2]. rewrite <- E. apply bg_top_run. exact Hx1.
  Qed.
End NoPad.

(** the kept-rows part under the D22 exclusion: the screen equation with the kept and live rows of
    the TOP-alignment ghost (MultiScreen.ms_run: kept rows = rows of painted Bar lines only) *)
Theorem c02_kept_bottom W H pre s0 t0 h : 1 <= W -> 1 <= H ->
  bs_initial s0 -> ready (N.to_nat W) (N.to_nat H) pre t0 -> FitsAllB W H s0 h ->
  NoPadReap W H (s0, bghost0, t0) h ->
  let gB := snd (fst (bs_run W H (s0, bghost0, t0) h)) in
  let gT := snd (fst (ms_run W H (s0, mghost0, t0) h)) in
  let t := snd (bs_run W H (s0, bghost0, t0) h) in
  bg_top gB = gT
  /\ t = snd (ms_run W H (s0, mghost0, t0) h)
  /\ exists k, screen (N.to_nat W) t
        = map (pad (N.to_nat W))
              (pre ++ log_rows (N.to_nat W) (bg_log gB) ++ mg_kept gT
                   ++ repeat [] (N.to_nat (bg_pad gB)) ++ mg_live gT)
          ++ repeat (repeat SP (N.to_nat W)) k.
Proof.
  intros HW HH Hi Hr Hf Hx. cbv zeta.
  destruct (bg_top_hist W H HW h s0 bghost0 mghost0 t0 eq_refl Hx) as (E1 & _ & E3).
  destruct (c02_screen_bottom W H HW HH pre s0 t0 h Hi Hr Hf) as (Hscr & _). cbv zeta in Hscr.
  split; [exact E1|]. split; [exact E3|].
  rewrite <- E1. unfold bs_expected, bg_region, bg_top in *. cbn [mg_kept mg_live]. exact Hscr.
Qed.
