(** C09 – second part of the proofs: eta / duration, histories of ProgressBar calls (the
    estimator laws of EstimatorProofs.v lifted to every history of public-API calls under a
    monotonic clock), steady progress on a line, forgetting. *)
From IndModel Require Import Base Estimator.
From IndGen Require Import Constants.
From IndProofs Require Import EstimatorProofs.
From Coq Require Import Reals Lra Lia Psatz ZArith NArith List Bool.
From Flocq Require Import Core.Raux.
Import ListNotations.
Open Scope R_scope.

(** * eta / duration: the case analysis holds for EVERY arithmetic (also binary64) *)
Section EtaGeneric.
  Variable A : arith.

  Lemma eta_done : forall (b : bar (T A)) now, b_done b = true -> bar_eta A b now = Some 0%N.
  Proof. intros b now H. unfold bar_eta. rewrite H. reflexivity. Qed.

  Lemma eta_no_len : forall (b : bar (T A)) now, b_len b = None -> bar_eta A b now = Some 0%N.
  Proof. intros b now H. unfold bar_eta. rewrite H. destruct (b_done b); reflexivity. Qed.

  Lemma eta_no_rate : forall (b : bar (T A)) now,
    is_zero A (est_sps A (b_est b) now) = true -> bar_eta A b now = Some 0%N.
  Proof.
    intros b now H. unfold bar_eta. destruct (b_done b); [reflexivity|].
    destruct (b_len b); [|reflexivity]. rewrite H. reflexivity.
  Qed.

  Lemma eta_formula_gen : forall (b : bar (T A)) now l,
    b_done b = false -> b_len b = Some l -> is_zero A (est_sps A (b_est b) now) = false ->
    bar_eta A b now =
    secs_to_duration A (div A (of_int A (l - b_pos b)) (est_sps A (b_est b) now)).
  Proof. intros b now l Hd Hl Hz. unfold bar_eta. rewrite Hd, Hl, Hz. reflexivity. Qed.

  (** duration = elapsed + eta (Duration::saturating_add), 0 when finished / length unknown *)
  Lemma duration_sum_gen : forall (b : bar (T A)) now,
    bar_duration A b now =
    match b_len b with
    | None => Some 0%N
    | Some _ => if b_done b then Some 0%N
                else option_map (fun eta => N.min DUR_MAX (bar_elapsed A b now + eta)) (bar_eta A b now)
    end.
  Proof. reflexivity. Qed.
End EtaGeneric.

(** ** secs_to_duration over R: truncation to whole nanoseconds, seconds saturating at u64::MAX,
    never a panic *)
Lemma secs_to_duration_R : forall x, 0 <= x ->
  (x < IZR (Z.of_N U64MAX) + 1 ->
     secs_to_duration Rar x = Some (Z.to_N (Zfloor (x * 1000000000)))) /\
  (IZR (Z.of_N U64MAX) + 1 <= x ->
     exists d, secs_to_duration Rar x = Some d /\ (U64MAX * NS_PER_SEC <= d)%N).
Proof.
  intros x Hx.
  unfold secs_to_duration. cbn [cast trunc mul sub of_int Rar].
  rewrite (Ztrunc_floor x Hx).
  set (k := Zfloor x).
  assert (Hk0 : (0 <= k)%Z) by (apply Zfloor_lub; exact Hx).
  assert (Hkl : IZR k <= x) by apply Zfloor_lb.
  assert (Hku : x < IZR k + 1) by apply Zfloor_ub.
  set (y := (x - IZR k) * IZR (Z.of_N NS_PER_SEC)).
  assert (HNS : IZR (Z.of_N NS_PER_SEC) = 1000000000) by (unfold NS_PER_SEC; cbn [Z.of_N]; reflexivity).
  assert (Hy0 : 0 <= y) by (unfold y; rewrite HNS; nra).
  assert (Hy1 : y < 1000000000) by (unfold y; rewrite HNS; nra).
  set (m := Zfloor y).
  assert (Hm0 : (0 <= m)%Z) by (apply Zfloor_lub; exact Hy0).
  assert (Hml : IZR m <= y) by apply Zfloor_lb.
  assert (Hmu : y < IZR m + 1) by apply Zfloor_ub.
  assert (Hm1 : (m < 1000000000)%Z) by (apply lt_IZR; lra).
  assert (Hn : R_cast U32MAX y = Z.to_N m).
  { unfold R_cast. rewrite (Ztrunc_floor y Hy0). fold m. unfold U32MAX. f_equal. lia. }
  rewrite Hn.
  assert (Hdiv : (Z.to_N m / NS_PER_SEC = 0)%N) by (apply N.div_small; unfold NS_PER_SEC; lia).
  assert (Hmod : (Z.to_N m mod NS_PER_SEC = Z.to_N m)%N) by (apply N.mod_small; unfold NS_PER_SEC; lia).
  split.
  - intros Hlt.
    assert (Hk1 : (k <= Z.of_N U64MAX)%Z).
    { apply Zlt_succ_le. apply lt_IZR. rewrite succ_IZR. lra. }
    assert (Hs : R_cast U64MAX (IZR k) = Z.to_N k).
    { unfold R_cast. rewrite Ztrunc_IZR. f_equal. lia. }
    rewrite Hs. unfold dur_new. rewrite Hdiv, Hmod, N.add_0_r.
    assert (G : (Z.to_N k <=? U64MAX)%N = true) by (apply N.leb_le; lia).
    rewrite G. f_equal.
    assert (Hfl : Zfloor (x * 1000000000) = (k * 1000000000 + m)%Z).
    { apply Zfloor_imp. rewrite !plus_IZR, mult_IZR. unfold y in Hml, Hmu. rewrite HNS in Hml, Hmu.
      cbn [IZR IPR IPR_2]. lra. }
    rewrite Hfl. unfold NS_PER_SEC. lia.
  - intros Hge.
    assert (Hk1 : (Z.of_N U64MAX <= k)%Z).
    { apply Zlt_succ_le. apply lt_IZR. rewrite succ_IZR. lra. }
    assert (Hs : R_cast U64MAX (IZR k) = U64MAX).
    { unfold R_cast. rewrite Ztrunc_IZR. rewrite Z.max_r by lia. rewrite Z.min_l by lia. apply N2Z.id. }
    rewrite Hs. unfold dur_new. rewrite Hdiv, Hmod, N.add_0_r.
    rewrite N.leb_refl. eexists. split; [reflexivity|]. lia.
Qed.

Lemma is_zero_R_false : forall x, 0 < x -> is_zero Rar x = false.
Proof. intros x H. cbn [is_zero Rar]. destruct (Req_EM_T x 0); [lra | reflexivity]. Qed.
Lemma is_zero_R_true : forall x, x = 0 -> is_zero Rar x = true.
Proof. intros x H. cbn [is_zero Rar]. destruct (Req_EM_T x 0); [reflexivity | contradiction]. Qed.

(** eta = remaining / rate, truncated to ns *)
Theorem eta_formula_R : forall (b : bar R) now l,
  b_done b = false -> b_len b = Some l -> 0 < est_sps Rar (b_est b) now ->
  let x := IZR (Z.of_N (l - b_pos b)) / est_sps Rar (b_est b) now in
  0 <= x /\
  (x < IZR (Z.of_N U64MAX) + 1 ->
     bar_eta Rar b now = Some (Z.to_N (Zfloor (x * 1000000000)))) /\
  (IZR (Z.of_N U64MAX) + 1 <= x ->
     exists d, bar_eta Rar b now = Some d /\ (U64MAX * NS_PER_SEC <= d)%N).
Proof.
  intros b now l Hd Hl Hs x.
  assert (Hx : 0 <= x).
  { unfold x. apply div_nonneg; [|exact Hs]. apply IZR_le. lia. }
  split; [exact Hx|].
  rewrite (eta_formula_gen Rar b now l Hd Hl (is_zero_R_false _ Hs)).
  cbn [div of_int Rar]. fold x. apply secs_to_duration_R. exact Hx.
Qed.

(** * Histories of ProgressBar calls
    ([clock_step], [run_state], [no_wrap], [bar_evs], [bar_points], [BInv]: model/Estimator.v) *)
Section RunGeneric.
  Variable A : arith.
  Notation run_state := (run_state A).

  Lemma bar_run_state : forall ops now b, fst (bar_run A ops now b) = run_state ops now b.
  Proof.
    induction ops as [|o r IH]; intros now b; [reflexivity|].
    destruct o; cbn [bar_run run_state clock_step bar_step]; try apply IH.
    destruct (bar_run A r now b) as [[b' n'] os] eqn:E.
    cbn [fst]. rewrite <- IH, E. reflexivity.
  Qed.

  (** every observation of a run is the query issued after some prefix of the history: a law
      proved for "the query after an arbitrary history" therefore covers every observation *)
  Lemma bar_run_obs : forall ops now b o,
    In o (snd (bar_run A ops now b)) ->
    exists pre post, ops = pre ++ Query :: post /\
      o = bar_query A (fst (run_state pre now b)) (snd (run_state pre now b)).
  Proof.
    induction ops as [|o' r IH]; intros now b o Hin; [contradiction|].
    assert (Hother : forall now' b', In o (snd (bar_run A r now' b')) ->
              run_state [o'] now b = (b', now') ->
              exists pre post, o' :: r = pre ++ Query :: post /\
                o = bar_query A (fst (run_state pre now b)) (snd (run_state pre now b))).
    { intros now' b' Hin' Hst. destruct (IH now' b' o Hin') as (pre & post & E & Q).
      exists (o' :: pre), post. split; [rewrite E; reflexivity|].
      cbn [run_state] in Hst |- *. injection Hst as E1 E2. rewrite E1, E2. exact Q. }
    destruct o'; cbn [bar_run] in Hin;
      try (eapply Hother; [exact Hin | reflexivity]).
    destruct (bar_run A r now b) as [[b' n'] os] eqn:E. cbn [snd] in Hin.
    destruct Hin as [Hin | Hin].
    - exists [], r. split; [reflexivity|]. symmetry. exact Hin.
    - eapply Hother; [rewrite E; exact Hin | reflexivity].
  Qed.
End RunGeneric.

Lemma clock_step_ge : forall o r now, no_wrap (o :: r) now -> (now <= clock_step o now)%N.
Proof.
  intros o r now [H _]. destruct o; cbn [clock_step]; try lia.
  unfold wadd64. rewrite N.mod_small by exact H. lia.
Qed.

Lemma est_run_app : forall a r e, est_run (a ++ r) e = est_run r (est_run a e).
Proof. induction a as [|x a IH]; intros r e; [reflexivity|]. cbn [app est_run]. apply IH. Qed.

Lemma hist_ok_app : forall a r e, hist_ok a e -> hist_ok r (est_run a e) -> hist_ok (a ++ r) e.
Proof.
  induction a as [|x a IH]; intros r e Ha Hr; [exact Hr|].
  cbn [app hist_ok est_run] in *. destruct Ha as [H1 H2]. split; [exact H1|]. now apply IH.
Qed.

Lemma segs_ok_app_inv : forall P a r e, segs_ok P (a ++ r) e -> segs_ok P a e /\ segs_ok P r (est_run a e).
Proof.
  induction a as [|x a IH]; intros r e H; [split; [exact I | exact H]|].
  cbn [app segs_ok est_run] in *. destruct H as [H1 H2]. destruct (IH _ _ H2) as [H3 H4].
  repeat split; assumption.
Qed.

Lemma bar_move_est : forall p now (b : bar R),
  b_est (bar_move Rar p now b) =
  est_run (if fst (lim_allow now (b_lim b)) then [ERec p now] else []) (b_est b).
Proof.
  intros p now b. unfold bar_move. change (T Rar) with R.
  destruct (lim_allow now (b_lim b)) as [ok l'].
  cbn [fst]. destruct ok; reflexivity.
Qed.

Lemma bar_step_est : forall o now (b : bar R),
  b_est (bar_step Rar o now b) = est_run (bar_evs_step o now b) (b_est b).
Proof.
  intros o now b. destruct o; cbn [bar_step bar_evs_step]; try apply bar_move_est; reflexivity.
Qed.

Lemma run_state_est : forall ops now (b : bar R),
  b_est (fst (run_state Rar ops now b)) = est_run (bar_evs ops now b) (b_est b).
Proof.
  induction ops as [|o r IH]; intros now b; [reflexivity|].
  cbn [run_state bar_evs]. rewrite est_run_app, IH, bar_step_est. reflexivity.
Qed.

(** ** invariant of the bar under every call *)
Lemma est_ev_inv : forall x (e : est R),
  wf e -> J_nonneg e -> (prev_time e <= ev_time x)%N ->
  wf (est_ev x e) /\ J_nonneg (est_ev x e) /\ (prev_time (est_ev x e) <= ev_time x)%N /\
  (start_time e <= start_time (est_ev x e))%N.
Proof.
  intros x e Hwf HJ Ht.
  destruct (inv_nonneg [x] e Hwf HJ) as [HJ' Hwf']; [cbn [hist_ok]; split; [exact Ht | exact I]|].
  cbn [est_run] in HJ', Hwf'. split; [exact Hwf'|]. split; [exact HJ'|].
  unfold wf in Hwf. destruct x as [new now | now pos]; cbn [est_ev ev_time] in *.
  - destruct (est_record_cases new now e) as [(H1 & H2 & E) | [(H1 & E) | (H1 & E)]];
      rewrite E; cbn [prev_time start_time]; change (T Rar) with R in *; lia.
  - rewrite bar_reset_est_R. cbn [prev_time start_time]. lia.
Qed.

Lemma evs_step_shape : forall o now b,
  bar_evs_step o now b = [] \/ exists x, bar_evs_step o now b = [x] /\ ev_time x = now.
Proof.
  intros o now b. destruct o; cbn [bar_evs_step]; try (left; reflexivity);
    try (destruct (fst (lim_allow now (b_lim b))); [right | left; reflexivity]);
    try right; eexists; split; reflexivity.
Qed.

Lemma bar_step_other : forall o now (b : bar R),
  match o with ResetElapsed | ResetAll => b_started (bar_step Rar o now b) = now
             | _ => b_started (bar_step Rar o now b) = b_started b end.
Proof.
  intros o now b. destruct o; cbn [bar_step]; try reflexivity;
    unfold bar_move; change (T Rar) with R;
    destruct (lim_allow now (b_lim b)) as [ok l']; destruct ok; reflexivity.
Qed.

Lemma bar_step_inv : forall o now (b : bar R), BInv now b -> BInv now (bar_step Rar o now b).
Proof.
  intros o now b (Hwf & HJ & Ht & Hs).
  unfold BInv. rewrite bar_step_est.
  destruct (evs_step_shape o now b) as [E | (x & E & Ex)].
  - rewrite E. cbn [est_run].
    assert (Hst := bar_step_other o now b). change (T Rar) with R in Hst.
    destruct o; cbn [bar_evs_step] in E; try discriminate E; rewrite Hst; auto.
  - rewrite E. cbn [est_run]. rewrite <- Ex in Ht.
    destruct (est_ev_inv x (b_est b) Hwf HJ Ht) as (H1 & H2 & H3 & H4).
    rewrite Ex in H3. split; [exact H1|]. split; [exact H2|]. split; [exact H3|].
    assert (Hst := bar_step_other o now b). change (T Rar) with R in Hst. unfold wf in Hwf.
    destruct o; rewrite Hst; try lia;
      cbn [bar_evs_step] in E; injection E as E; subst x; cbn [est_ev];
      rewrite bar_reset_est_R; cbn [start_time]; lia.
Qed.

Lemma BInv_mono : forall now now' b, BInv now b -> (now <= now')%N -> BInv now' b.
Proof.
  intros now now' b (H1 & H2 & H3 & H4) H.
  split; [exact H1|]. split; [exact H2|]. split; [lia | exact H4].
Qed.

Lemma run_state_inv : forall ops now (b : bar R), BInv now b -> no_wrap ops now ->
  BInv (snd (run_state Rar ops now b)) (fst (run_state Rar ops now b)) /\
  (now <= snd (run_state Rar ops now b))%N.
Proof.
  induction ops as [|o r IH]; intros now b HI Hn; [split; [exact HI | cbn; lia]|].
  cbn [run_state]. assert (Hge := clock_step_ge o r now Hn). destruct Hn as [_ Hn].
  destruct (IH (clock_step o now) (bar_step Rar o now b)) as [H1 H2]; [|exact Hn|split; [exact H1 | lia]].
  apply BInv_mono with now; [|exact Hge]. now apply bar_step_inv.
Qed.

Lemma bar_evs_hist_ok : forall ops now (b : bar R), BInv now b -> no_wrap ops now ->
  hist_ok (bar_evs ops now b) (b_est b).
Proof.
  induction ops as [|o r IH]; intros now b HI Hn; [exact I|].
  cbn [bar_evs]. assert (Hge := clock_step_ge o r now Hn). destruct Hn as [_ Hn].
  apply hist_ok_app.
  - destruct HI as (_ & _ & Ht & _).
    destruct (evs_step_shape o now b) as [E | (x & E & Ex)]; rewrite E; [exact I|].
    cbn [hist_ok]. rewrite Ex. split; [exact Ht | exact I].
  - rewrite <- bar_step_est. apply IH; [|exact Hn].
    apply BInv_mono with now; [|exact Hge]. now apply bar_step_inv.
Qed.

Lemma BInv_new : forall len t0, BInv t0 (bar_new Rar len t0).
Proof.
  intros len t0. unfold BInv, bar_new. cbn [b_est b_started].
  destruct (restart_state_invariants 0%N t0 0 0) as (Hwf & Hnn & _).
  split; [exact Hwf|]. split; [exact Hnn|]. split; cbn; lia.
Qed.

(** * Theorems over every history of ProgressBar calls
    [b], [now] = state of the bar and clock after an arbitrary history [ops] of calls on a bar
    created at [t0]; a query at that point is an arbitrary observation (Lemma bar_run_obs). *)
Lemma bar_after : forall len t0 ops, no_wrap ops t0 ->
  let b := fst (run_state Rar ops t0 (bar_new Rar len t0)) in
  let now := snd (run_state Rar ops t0 (bar_new Rar len t0)) in
  BInv now b /\
  b_est b = est_run (bar_evs ops t0 (bar_new Rar len t0)) (est_new Rar t0) /\
  hist_ok (bar_evs ops t0 (bar_new Rar len t0)) (est_new Rar t0).
Proof.
  intros len t0 ops Hn b now.
  destruct (run_state_inv ops t0 (bar_new Rar len t0) (BInv_new len t0) Hn) as [HI _].
  split; [exact HI|]. split.
  - unfold b. rewrite run_state_est. reflexivity.
  - apply (bar_evs_hist_ok ops t0 (bar_new Rar len t0) (BInv_new len t0) Hn).
Qed.

(** FINITE / NON-NEGATIVE / NO PANIC after EVERY history (the instant of a restart included: the
    code returns 0 there since fix 56491a5).  eta() and duration() always return; per_sec() >= 0 for
    a bar in progress, and for a finished bar strictly after its start (pos / elapsed); the
    divisions that are executed have positive divisors. *)
Theorem bar_finite_nonneg : forall len t0 ops, no_wrap ops t0 ->
  let b := fst (run_state Rar ops t0 (bar_new Rar len t0)) in
  let now := snd (run_state Rar ops t0 (bar_new Rar len t0)) in
  (exists d, bar_eta Rar b now = Some d) /\
  (exists d, bar_duration Rar b now = Some d) /\
  (b_done b = false -> 0 <= bar_per_sec Rar b now) /\
  (b_done b = false -> (now <= start_time (b_est b))%N -> bar_per_sec Rar b now = 0) /\
  ((b_started b < now)%N -> 0 < secs (now - b_started b) /\ 0 <= bar_per_sec Rar b now) /\
  ((start_time (b_est b) < now)%N -> 0 < 1 - W (secs (now - start_time (b_est b)))).
Proof.
  intros len t0 ops Hn b now.
  destruct (bar_after len t0 ops Hn) as ((Hwf & HJ & Ht & Hs) & He & Hh).
  fold b in Hwf, HJ, Ht, Hs, He. fold now in Ht.
  assert (Hsps : 0 <= est_sps Rar (b_est b) now).
  { change (T Rar) with R in *. rewrite He. apply (finite_nonneg _ t0 now Hh). rewrite <- He. exact Ht. }
  assert (Heta : exists d, bar_eta Rar b now = Some d).
  { destruct (b_done b) eqn:Hd; [eexists; now apply eta_done|].
    destruct (b_len b) as [l|] eqn:Hl; [|eexists; now apply eta_no_len].
    destruct Hsps as [Hpos | Hz].
    - destruct (eta_formula_R b now l Hd Hl Hpos) as (_ & H1 & H2).
      destruct (Rlt_le_dec (IZR (Z.of_N (l - b_pos b)) / est_sps Rar (b_est b) now)
                           (IZR (Z.of_N U64MAX) + 1)) as [Hlt | Hge].
      + eexists. now apply H1.
      + destruct (H2 Hge) as (d & Hd' & _). now exists d.
    - eexists. apply eta_no_rate. apply is_zero_R_true. now symmetry. }
  split; [exact Heta|]. split; [|split; [|split; [|split]]].
  - rewrite duration_sum_gen. destruct (b_len b); [|now eexists].
    destruct (b_done b); [now eexists|]. destruct Heta as [d Hd]. rewrite Hd. now eexists.
  - intros Hd. unfold bar_per_sec. rewrite Hd. exact Hsps.
  - intros Hd Hle. unfold bar_per_sec. rewrite Hd. now apply est_sps_R_restart.
  - intros Hst.
    assert (Hel : 0 < secs (now - b_started b)) by (apply secs_pos; lia).
    split; [exact Hel|]. unfold bar_per_sec. destruct (b_done b); [|exact Hsps].
    cbn [div of_int Rar]. rewrite dur_secs_R. unfold since. apply div_nonneg; [|exact Hel].
    apply IZR_le. lia.
  - intros Hst. apply denominator_pos. lia.
Qed.

(** BOUNDS: between zero and the largest rate of a recorded segment; envelope 2*M*W(stall) *)
Theorem bar_bounded : forall M len t0 ops, 0 <= M -> no_wrap ops t0 ->
  segs_ok (fun x => x <= M) (bar_evs ops t0 (bar_new Rar len t0)) (est_new Rar t0) ->
  let b := fst (run_state Rar ops t0 (bar_new Rar len t0)) in
  let now := snd (run_state Rar ops t0 (bar_new Rar len t0)) in
  b_done b = false -> (start_time (b_est b) < now)%N ->
  0 <= bar_per_sec Rar b now <= M /\
  bar_per_sec Rar b now <= 2 * M * W (secs (now - prev_time (b_est b))).
Proof.
  intros M len t0 ops HM Hn Hsegs b now Hd Hst.
  destruct (bar_after len t0 ops Hn) as ((_ & _ & Ht & _) & He & Hh). fold b in Ht, He. fold now in Ht.
  unfold bar_per_sec. rewrite Hd. change (T Rar) with R in *. rewrite He in *.
  apply (EstimatorProofs.bounded M _ t0 now HM Hh Hsegs Ht Hst).
Qed.

(** STEADY-RATE EXACTNESS at the instant of a recorded sample, any cadence *)
Theorem bar_steady : forall r len t0 ops, no_wrap ops t0 ->
  segs_ok (fun x => x = r) (bar_evs ops t0 (bar_new Rar len t0)) (est_new Rar t0) ->
  let b := fst (run_state Rar ops t0 (bar_new Rar len t0)) in
  let now := snd (run_state Rar ops t0 (bar_new Rar len t0)) in
  b_done b = false -> (start_time (b_est b) < prev_time (b_est b))%N -> now = prev_time (b_est b) ->
  bar_per_sec Rar b now = r.
Proof.
  intros r len t0 ops Hn Hsegs b now Hd Hst Hnow.
  destruct (bar_after len t0 ops Hn) as (_ & He & Hh). fold b in He.
  unfold bar_per_sec. rewrite Hd, Hnow. change (T Rar) with R in *. rewrite He in *.
  apply (steady_exact r _ t0 Hh Hsegs Hst).
Qed.

(** MONOTONE DECAY WHILE STALLED (the bar is not touched between the two query instants),
    conditional on double_smoothed >= smoothed at the last sample *)
Theorem bar_decay : forall len t0 ops now1 now2, no_wrap ops t0 ->
  let b := fst (run_state Rar ops t0 (bar_new Rar len t0)) in
  let now := snd (run_state Rar ops t0 (bar_new Rar len t0)) in
  b_done b = false -> sm (b_est b) <= dsm (b_est b) ->
  (now <= now1)%N -> (now1 <= now2)%N -> (start_time (b_est b) < now1)%N ->
  bar_per_sec Rar b now2 <= bar_per_sec Rar b now1.
Proof.
  intros len t0 ops now1 now2 Hn b now Hd Hsd H1 H12 Hst.
  destruct (bar_after len t0 ops Hn) as ((_ & _ & Ht & _) & He & Hh). fold b in Ht, He. fold now in Ht.
  unfold bar_per_sec. rewrite Hd. change (T Rar) with R in *. rewrite He in *.
  apply (decay_when_d_ge_s _ t0 now1 now2 Hh Hsd); try assumption. lia.
Qed.

(** ... and towards zero, unconditionally *)
Theorem bar_decay_limit : forall M len t0 ops eps, 0 <= M -> 0 < eps -> no_wrap ops t0 ->
  segs_ok (fun x => x <= M) (bar_evs ops t0 (bar_new Rar len t0)) (est_new Rar t0) ->
  let b := fst (run_state Rar ops t0 (bar_new Rar len t0)) in
  let now := snd (run_state Rar ops t0 (bar_new Rar len t0)) in
  b_done b = false ->
  exists X, forall now', (now <= now')%N -> (start_time (b_est b) < now')%N ->
    X <= secs (now' - prev_time (b_est b)) -> bar_per_sec Rar b now' <= eps.
Proof.
  intros M len t0 ops eps HM He Hn Hsegs b now Hd.
  destruct (bar_after len t0 ops Hn) as ((_ & _ & Ht & _) & Hest & Hh). fold b in Ht, Hest. fold now in Ht.
  destruct (decay_limit M _ t0 eps HM He Hh Hsegs) as [X HX]. exists X.
  intros now' H1 H2 H3. unfold bar_per_sec. rewrite Hd. change (T Rar) with R in *. rewrite Hest in *.
  apply HX; try assumption. lia.
Qed.

(** the unconditional clause is REFUTED, on a history of public calls:
    create at 0; update(set_pos 15) at 15 s; update(set_pos 1515) at 30 s; stall *)
Definition wit_ops : list eop :=
  [Adv 15000000000; UpdPos 15; Adv 15000000000; UpdPos 1515].

Lemma wit_ops_no_wrap : no_wrap wit_ops 0.
Proof.
  unfold wit_ops. cbn [no_wrap clock_step]. unfold wadd64, U64.
  repeat split; try exact I; cbn; reflexivity.
Qed.

Lemma wit_ops_evs : forall len, bar_evs wit_ops 0 (bar_new Rar len 0) = wit_evs.
Proof.
  intros len. unfold wit_ops, wit_evs. cbn [bar_evs bar_evs_step clock_step app].
  change (wadd64 0 15000000000) with 15000000000%N.
  change (wadd64 15000000000 15000000000) with 30000000000%N. reflexivity.
Qed.

Lemma wit_ops_clock : forall len, snd (run_state Rar wit_ops 0 (bar_new Rar len 0)) = 30000000000%N.
Proof.
  intros len. unfold wit_ops. cbn [run_state clock_step snd].
  change (wadd64 0 15000000000) with 15000000000%N.
  change (wadd64 15000000000 15000000000) with 30000000000%N. reflexivity.
Qed.

Lemma wit_ops_est : forall len, b_est (fst (run_state Rar wit_ops 0 (bar_new Rar len 0))) = wit_e.
Proof.
  intros len. destruct (bar_after len 0%N wit_ops wit_ops_no_wrap) as (_ & He & _).
  rewrite wit_ops_evs, wit_state in He. exact He.
Qed.

Lemma wit_ops_fields : forall len,
  let b := fst (run_state Rar wit_ops 0 (bar_new Rar len 0)) in
  b_done b = false /\ b_len b = len /\ b_pos b = 1515%N /\ b_started b = 0%N.
Proof. intros len. repeat split; reflexivity. Qed.

Theorem bar_stall_decay_refuted :
  exists len t0 ops gap,
    no_wrap ops t0 /\
    let b := fst (run_state Rar ops t0 (bar_new Rar len t0)) in
    let now := snd (run_state Rar ops t0 (bar_new Rar len t0)) in
    b_done b = false /\ (start_time (b_est b) < now)%N /\ (prev_time (b_est b) <= now)%N /\
    bar_per_sec Rar b now < bar_per_sec Rar b (now + gap).
Proof.
  exists (Some 100000%N), 0%N, wit_ops, 500000000%N.
  split; [exact wit_ops_no_wrap|]. cbv zeta.
  destruct (wit_ops_fields (Some 100000%N)) as (Hd & _).
  rewrite wit_ops_clock. split; [exact Hd|].
  unfold bar_per_sec. rewrite Hd, wit_ops_est. unfold wit_e at 1 2. cbn [start_time prev_time].
  split; [lia|]. split; [lia|].
  change (30000000000 + 500000000)%N with 30500000000%N. exact wit_rise.
Qed.

(** * Steady progress stated on the samples: all positions lie on one line *)
Section Line.
  Variables r c : R.
  Notation on_line := (on_line r c).
  Notation ev_on_line := (ev_on_line r c).

  Lemma seg_rate_on_line : forall (e : est R) new now,
    on_line (prev_steps e) (prev_time e) -> on_line new now ->
    (prev_steps e < new)%N -> (prev_time e < now)%N -> seg_rate e new now = r.
  Proof.
    intros e new now H1 H2 Hs Ht. unfold seg_rate, on_line in *.
    rewrite N2Z.inj_sub by lia. rewrite minus_IZR, H1, H2. rewrite secs_sub by lia.
    assert (Hlt := secs_lt _ _ Ht). field. lra.
  Qed.

  Lemma est_ev_prev : forall x (e : est R),
    (prev_steps (est_ev x e) = ev_pos x /\ prev_time (est_ev x e) = ev_time x) \/
    (prev_steps (est_ev x e) = prev_steps e /\ prev_time (est_ev x e) = prev_time e).
  Proof.
    intros x e. destruct x as [new now | now pos]; cbn [est_ev ev_pos ev_time].
    - destruct (est_record_cases new now e) as [(H1 & H2 & E) | [(H1 & E) | (H1 & E)]];
        rewrite E; [left | left | right]; split; reflexivity.
    - left. split; reflexivity.
  Qed.

  Lemma line_segs_ok : forall evs (e : est R),
    on_line (prev_steps e) (prev_time e) -> Forall ev_on_line evs ->
    segs_ok (fun x => x = r) evs e.
  Proof.
    induction evs as [|x evs IH]; intros e He Hall; [exact I|].
    inversion Hall as [|x' evs' Hx Hrest]; subst. cbn [segs_ok]. split.
    - destruct x as [new now | now pos]; [|exact I]. intros Hs Ht.
      now apply seg_rate_on_line.
    - apply IH; [|exact Hrest].
      destruct (est_ev_prev x e) as [[E1 E2] | [E1 E2]]; rewrite E1, E2; assumption.
  Qed.

  Theorem steady_line : forall evs t0,
    let e := est_run evs (est_new Rar t0) in
    on_line 0 t0 -> Forall ev_on_line evs -> hist_ok evs (est_new Rar t0) ->
    (start_time e < prev_time e)%N ->
    est_sps Rar e (prev_time e) = r.
  Proof.
    intros evs t0 e H0 Hall Hh Hst.
    apply (steady_exact r evs t0 Hh); [|exact Hst].
    apply line_segs_ok; [exact H0 | exact Hall].
  Qed.
End Line.

(** * FORGETTING *)
Section ForgetGeneric.
  Variable A : arith.
  Notation same_but_est := (same_but_est A).

  (** reset_eta / reset_elapsed / reset: the states coincide afterwards, hence so does every later
      observation of every continuation *)
  Theorem bar_reset_forgets : forall o now (b1 b2 : bar (T A)) rest,
    o = ResetEta \/ o = ResetElapsed \/ o = ResetAll ->
    same_but_est b1 b2 ->
    bar_step A o now b1 = bar_step A o now b2 /\
    bar_run A (o :: rest) now b1 = bar_run A (o :: rest) now b2.
  Proof.
    intros o now b1 b2 rest Ho (H1 & H2 & H3 & H4 & H5).
    assert (E : bar_step A o now b1 = bar_step A o now b2).
    { destruct Ho as [Ho | [Ho | Ho]]; subst o; cbn [bar_step]; unfold bar_reset_est, est_reset;
        cbn [sm dsm prev_time start_time]; rewrite ?H1, ?H2, ?H3, ?H4, ?H5; reflexivity. }
    split; [exact E|].
    destruct Ho as [Ho | [Ho | Ho]]; subst o; cbn [bar_run]; rewrite E; reflexivity.
  Qed.

  (** a recorded backwards seek (update(set_pos p) / tick after a smaller position) *)
  Theorem bar_rewind_forgets : forall p now (b1 b2 : bar (T A)) rest,
    (p < prev_steps (b_est b1))%N -> (p < prev_steps (b_est b2))%N ->
    same_but_est b1 b2 ->
    bar_step A (UpdPos p) now b1 = bar_step A (UpdPos p) now b2 /\
    bar_run A (UpdPos p :: rest) now b1 = bar_run A (UpdPos p :: rest) now b2.
  Proof.
    intros p now b1 b2 rest Hp1 Hp2 (H1 & H2 & H3 & H4 & H5).
    assert (R1 : forall e : est (T A), (p < prev_steps e)%N ->
               est_record A p now e = mkEst (fzero A) (fzero A) p now now).
    { intros e Hp. unfold est_record.
      assert (G1 : (p <=? prev_steps e)%N = true) by (apply N.leb_le; lia).
      assert (G2 : (p <? prev_steps e)%N = true) by (apply N.ltb_lt; exact Hp).
      rewrite G1, G2. reflexivity. }
    assert (E : bar_step A (UpdPos p) now b1 = bar_step A (UpdPos p) now b2).
    { cbn [bar_step]. unfold bar_record. cbn [b_pos b_len b_done b_started b_est b_lim].
      rewrite (R1 _ Hp1), (R1 _ Hp2), H2, H3, H4, H5. reflexivity. }
    split; [exact E|]. cbn [bar_run]. rewrite E. reflexivity.
  Qed.
End ForgetGeneric.

(** after a restart at position [pos] the estimator behaves like a NEW estimator created at that
    instant whose positions are counted from [pos] *)
Lemma est_run_shift : forall p evs (e : est R),
  est_run (map (shift_ev p) evs) (est_shift p e) = est_shift p (est_run evs e).
Proof.
  intros p evs. induction evs as [|x evs IH]; intros e; [reflexivity|].
  cbn [map est_run]. rewrite <- IH. f_equal.
  destruct x as [n t | t q]; cbn [shift_ev est_ev].
  - apply (est_record_shift Rar).
  - reflexivity.
Qed.

Theorem restart_is_fresh : forall now pos (e : est R) evs q,
  est_run (map (shift_ev pos) evs) (bar_reset_est Rar now pos e) =
    est_shift pos (est_run evs (est_new Rar now)) /\
  est_sps Rar (est_run (map (shift_ev pos) evs) (bar_reset_est Rar now pos e)) q =
    est_sps Rar (est_run evs (est_new Rar now)) q.
Proof.
  intros now pos e evs q.
  assert (E : est_run (map (shift_ev pos) evs) (bar_reset_est Rar now pos e) =
              est_shift pos (est_run evs (est_new Rar now))).
  { rewrite (reset_is_shifted_new Rar). apply est_run_shift. }
  split; [exact E|]. rewrite E. apply (est_sps_shift Rar).
Qed.

(** a recorded backwards seek leaves exactly the state of reset_eta at the new position *)
Lemma rewind_is_restart : forall new now (e : est R), (new < prev_steps e)%N ->
  est_record Rar new now e = bar_reset_est Rar now new e.
Proof. intros new now e H. rewrite est_record_rewind by exact H. reflexivity. Qed.

(** * Small facts used by the non-vacuity examples of props/C09.v *)
Lemma eta_zero_cases : forall (A : arith) (b : bar (T A)) now,
  b_done b = true \/ b_len b = None \/ is_zero A (est_sps A (b_est b) now) = true ->
  bar_eta A b now = Some 0%N.
Proof.
  intros A b now [H | [H | H]]; [now apply eta_done | now apply eta_no_len | now apply eta_no_rate].
Qed.

Lemma wit_sps_value : est_sps Rar wit_e 30000000000 = 8199 / 99.
Proof.
  unfold wit_e. rewrite est_sps_R by (cbn [start_time]; lia). cbn [sm dsm prev_time start_time].
  change (30000000000 - 30000000000)%N with 0%N.
  change (30000000000 - 0)%N with 30000000000%N.
  rewrite secs_0, secs_30, W_0, W_30. unfold sps_R. lra.
Qed.

(** the state after one 15 s segment at 1 step/s: smoothed = double_smoothed = 0.9 *)
Lemma wit1_state :
  est_run [ERec 15 15000000000] (est_new Rar 0) = (mkEst (9 / 10) (9 / 10) 15%N 15000000000%N 0%N : est R).
Proof.
  cbn [est_run est_ev]. rewrite est_record_accept by (cbn; lia).
  unfold rec_d, rec_s, seg_rate. cbn [sm dsm prev_steps prev_time start_time est_new].
  change (15000000000 - 0)%N with 15000000000%N. change (15 - 0)%N with 15%N.
  rewrite secs_15, W_15, fzero_R. cbn [Z.of_N]. f_equal; field.
Qed.

Lemma wit_segs_le_100 : segs_ok (fun x => x <= 100) wit_evs (est_new Rar 0).
Proof.
  unfold wit_evs. cbn [segs_ok]. split; [|split; [|exact I]].
  - intros _ _. unfold seg_rate. cbn [prev_steps prev_time est_new].
    change (15000000000 - 0)%N with 15000000000%N. change (15 - 0)%N with 15%N.
    rewrite secs_15. cbn [Z.of_N]. lra.
  - cbn [est_ev]. assert (E := wit1_state). cbn [est_run est_ev] in E. rewrite E.
    intros _ _. unfold seg_rate. cbn [prev_steps prev_time].
    change (30000000000 - 15000000000)%N with 15000000000%N. change (1515 - 15)%N with 1500%N.
    rewrite secs_15. cbn [Z.of_N]. lra.
Qed.

(** four samples on the line pos = 2 * t with gaps 1.5 s, 0.5 s, 4.5 s, 0.5 s *)
Definition line_evs : list ev :=
  [ERec 3 1500000000; ERec 4 2000000000; ERec 13 6500000000; ERec 14 7000000000].

Lemma line_evs_on_line : on_line 2 0 0 0 /\ Forall (ev_on_line 2 0) line_evs.
Proof.
  split.
  - unfold on_line, secs. cbn [Z.of_N]. lra.
  - unfold line_evs.
    repeat (apply Forall_cons; [unfold ev_on_line, on_line, secs; cbn [ev_pos ev_time Z.of_N]; lra|]).
    apply Forall_nil.
Qed.

Lemma line_evs_run :
  hist_ok line_evs (est_new Rar 0) /\
  prev_time (est_run line_evs (est_new Rar 0)) = 7000000000%N /\
  start_time (est_run line_evs (est_new Rar 0)) = 0%N.
Proof.
  unfold line_evs. cbn [hist_ok est_run ev_time est_ev].
  rewrite (est_record_accept 3 1500000000) by (cbn; lia).
  rewrite (est_record_accept 4 2000000000) by (cbn; lia).
  rewrite (est_record_accept 13 6500000000) by (cbn; lia).
  rewrite (est_record_accept 14 7000000000) by (cbn; lia).
  cbn [prev_time start_time est_new]. repeat split; lia.
Qed.

(** one public update 15 s after creation: hypotheses of bar_steady with r = 1 *)
Definition steady_ops : list eop := [Adv 15000000000; UpdPos 15].

Lemma steady_ops_example : forall len,
  no_wrap steady_ops 0 /\
  segs_ok (fun x => x = 1) (bar_evs steady_ops 0 (bar_new Rar len 0)) (est_new Rar 0) /\
  let b := fst (run_state Rar steady_ops 0 (bar_new Rar len 0)) in
  let now := snd (run_state Rar steady_ops 0 (bar_new Rar len 0)) in
  b_done b = false /\ (start_time (b_est b) < prev_time (b_est b))%N /\ now = prev_time (b_est b).
Proof.
  intros len.
  assert (Hn : no_wrap steady_ops 0).
  { unfold steady_ops. cbn [no_wrap clock_step]. unfold wadd64, U64.
    repeat split; try exact I; cbn; reflexivity. }
  assert (Hev : bar_evs steady_ops 0 (bar_new Rar len 0) = [ERec 15 15000000000]).
  { unfold steady_ops. cbn [bar_evs bar_evs_step clock_step app].
    change (wadd64 0 15000000000) with 15000000000%N. reflexivity. }
  split; [exact Hn|]. split.
  - rewrite Hev. cbn [segs_ok]. split; [|exact I]. intros _ _.
    unfold seg_rate. cbn [prev_steps prev_time est_new].
    change (15000000000 - 0)%N with 15000000000%N. change (15 - 0)%N with 15%N.
    rewrite secs_15. cbn [Z.of_N]. lra.
  - cbv zeta. destruct (bar_after len 0%N steady_ops Hn) as (_ & He & _).
    rewrite Hev, wit1_state in He.
    split; [reflexivity|]. change (T Rar) with R in *. rewrite He. cbn [start_time prev_time].
    split; [lia|].
    unfold steady_ops. cbn [run_state clock_step snd].
    change (wadd64 0 15000000000) with 15000000000%N. reflexivity.
Qed.

(** STEADY PROGRESS at every query instant (bar level): the stall discount *)
Theorem bar_steady_every_instant : forall r len t0 ops now', no_wrap ops t0 ->
  segs_ok (fun x => x = r) (bar_evs ops t0 (bar_new Rar len t0)) (est_new Rar t0) ->
  let b := fst (run_state Rar ops t0 (bar_new Rar len t0)) in
  let now := snd (run_state Rar ops t0 (bar_new Rar len t0)) in
  b_done b = false -> (now <= now')%N -> (start_time (b_est b) < now')%N ->
  let A := W (secs (prev_time (b_est b) - start_time (b_est b))) in
  let w := W (secs (now' - prev_time (b_est b))) in
  bar_per_sec Rar b now' = r * steady_discount A w /\
  0 <= steady_discount A w <= 1 /\
  (steady_discount A w = 1 <-> now' = prev_time (b_est b)).
Proof.
  intros r len t0 ops now' Hn Hsegs b now Hd Hle Hst.
  destruct (bar_after len t0 ops Hn) as ((_ & _ & Ht & _) & He & Hh). fold b in Ht, He. fold now in Ht.
  unfold bar_per_sec. rewrite Hd. change (T Rar) with R in *. rewrite He in *.
  apply (steady_every_instant r _ t0 now' Hh Hsegs); [lia | exact Hst].
Qed.

(** ... with the hypothesis on what the USER sees: the position right after every call that can
    reach the estimator, paired with the instant of the call, lies on one line *)
Lemma bar_move_pos : forall p now (b : bar R), b_pos (bar_move Rar p now b) = p.
Proof.
  intros p now b. unfold bar_move. change (T Rar) with R.
  destruct (lim_allow now (b_lim b)) as [ok l']. destruct ok; reflexivity.
Qed.

Lemma evs_step_point : forall o now (b : bar R) x, In x (bar_evs_step o now b) ->
  reaches_est o = true /\ ev_pos x = b_pos (bar_step Rar o now b) /\ ev_time x = now.
Proof.
  intros o now b x Hin.
  destruct o; cbn [bar_evs_step] in Hin; try contradiction; cbn [reaches_est bar_step];
    rewrite ?bar_move_pos;
    try (destruct (fst (lim_allow now (b_lim b))); [|contradiction]);
    destruct Hin as [<- | []]; repeat split; reflexivity.
Qed.

(** events that are on the line, or bring no news (the position the estimator already has) *)
Fixpoint line_ok (r c : R) (evs : list ev) (e : est R) : Prop :=
  match evs with
  | [] => True
  | x :: rest =>
      (ev_on_line r c x \/ exists t, x = ERec (prev_steps e) t) /\ line_ok r c rest (est_ev x e)
  end.

Lemma line_ok_segs : forall r c evs (e : est R),
  on_line r c (prev_steps e) (prev_time e) -> line_ok r c evs e -> segs_ok (fun x => x = r) evs e.
Proof.
  intros r c evs. induction evs as [|x evs IH]; intros e He Hl; [exact I|].
  cbn [line_ok] in Hl. destruct Hl as [Hx Hrest]. cbn [segs_ok].
  destruct Hx as [Hx | [t Hx]].
  - split.
    + destruct x as [new now | now pos]; [|exact I]. intros Hs Ht.
      now apply (seg_rate_on_line r c).
    + apply IH; [|exact Hrest].
      destruct (est_ev_prev x e) as [[E1 E2] | [E1 E2]]; rewrite E1, E2; assumption.
  - subst x. split; [intros Hs; exfalso; lia|].
    assert (E : est_ev (ERec (prev_steps e) t) e = e).
    { cbn [est_ev]. apply est_record_ignore; [lia | left; reflexivity]. }
    apply IH; [rewrite E; exact He | exact Hrest].
Qed.

Lemma line_ok_app : forall r c a rest (e : est R),
  line_ok r c a e -> line_ok r c rest (est_run a e) -> line_ok r c (a ++ rest) e.
Proof.
  intros r c a. induction a as [|x a IH]; intros rest e Ha Hr; [exact Hr|].
  cbn [app line_ok est_run] in *. destruct Ha as [H1 H2]. split; [exact H1|]. now apply IH.
Qed.

Lemma evs_step_rec : forall o now (b : bar R) x, In x (bar_evs_step o now b) ->
  is_reset_op o = false -> exists p t, x = ERec p t.
Proof.
  intros o now b x Hin Hr.
  destruct o; cbn [bar_evs_step is_reset_op] in *; try contradiction; try discriminate Hr;
    try (destruct (fst (lim_allow now (b_lim b))); [|contradiction]);
    destruct Hin as [<- | []]; eexists; eexists; reflexivity.
Qed.

Lemma bar_points_line_ok : forall r c ops now (b : bar R),
  Forall (pt_on_line r c) (bar_points ops now b) -> line_ok r c (bar_evs ops now b) (b_est b).
Proof.
  intros r c ops. induction ops as [|o rest IH]; intros now b H; [exact I|].
  cbn [bar_points bar_evs] in *. apply Forall_app in H. destruct H as [H1 H2].
  apply line_ok_app.
  - destruct (evs_step_shape o now b) as [E | (x & E & Ex)]; rewrite E; [exact I|].
    cbn [line_ok]. split; [|exact I].
    assert (Hin : In x (bar_evs_step o now b)) by (rewrite E; left; reflexivity).
    destruct (evs_step_point o now b x Hin) as (Hr & Hp & Ht).
    unfold brings_news in H1. rewrite Hr in H1. cbn [andb] in H1.
    destruct (is_reset_op o) eqn:Hres; cbn [orb] in H1.
    + left. apply Forall_inv in H1. unfold ev_on_line. rewrite Hp, Ht. exact H1.
    + destruct (N.eqb_spec (b_pos (bar_step Rar o now b)) (prev_steps (b_est b))) as [Heq | Hne];
        cbn [negb] in H1.
      * right. destruct (evs_step_rec o now b x Hin Hres) as (p & t & Hx). subst x.
        cbn [ev_pos] in Hp. exists t. rewrite Hp, Heq. reflexivity.
      * left. apply Forall_inv in H1. unfold ev_on_line. rewrite Hp, Ht. exact H1.
  - rewrite <- bar_step_est. now apply IH.
Qed.

Theorem bar_steady_line : forall r c len t0 ops now', no_wrap ops t0 ->
  on_line r c 0 t0 ->
  Forall (pt_on_line r c) (bar_points ops t0 (bar_new Rar len t0)) ->
  let b := fst (run_state Rar ops t0 (bar_new Rar len t0)) in
  let now := snd (run_state Rar ops t0 (bar_new Rar len t0)) in
  b_done b = false -> (now <= now')%N -> (start_time (b_est b) < now')%N ->
  let A := W (secs (prev_time (b_est b) - start_time (b_est b))) in
  let w := W (secs (now' - prev_time (b_est b))) in
  bar_per_sec Rar b now' = r * steady_discount A w /\
  0 <= steady_discount A w <= 1 /\
  (steady_discount A w = 1 <-> now' = prev_time (b_est b)).
Proof.
  intros r c len t0 ops now' Hn H0 Hpts.
  apply bar_steady_every_instant; [exact Hn|].
  apply (line_ok_segs r c); [exact H0 | now apply bar_points_line_ok].
Qed.

(** the literal reading (exact at every query instant after the last update) is REFUTED on a
    history of public calls: create at 0; update(set_pos 15) at 15 s; query at 30 s: 21/121 *)
Definition steady_wit_ops : list eop := [Adv 15000000000; UpdPos 15; Adv 15000000000].

Theorem bar_steady_between_samples_refuted :
  exists r c len t0 ops,
    no_wrap ops t0 /\ on_line r c 0 t0 /\
    Forall (pt_on_line r c) (bar_points ops t0 (bar_new Rar len t0)) /\
    let b := fst (run_state Rar ops t0 (bar_new Rar len t0)) in
    let now := snd (run_state Rar ops t0 (bar_new Rar len t0)) in
    b_done b = false /\ (start_time (b_est b) < now)%N /\ bar_per_sec Rar b now < r.
Proof.
  exists 1, 0, (Some 100%N), 0%N, steady_wit_ops.
  assert (Hn : no_wrap steady_wit_ops 0).
  { unfold steady_wit_ops. cbn [no_wrap clock_step]. unfold wadd64, U64.
    repeat split; try exact I; cbn; reflexivity. }
  assert (H0 : on_line 1 0 0 0) by (unfold on_line, secs; cbn [Z.of_N]; lra).
  assert (Hpts : Forall (pt_on_line 1 0) (bar_points steady_wit_ops 0 (bar_new Rar (Some 100%N) 0))).
  { unfold steady_wit_ops. cbn [bar_points reaches_est clock_step app bar_step].
    change (wadd64 0 15000000000) with 15000000000%N.
    constructor; [|constructor]. unfold pt_on_line, on_line. cbn [fst snd bar_record b_pos].
    rewrite secs_15. cbn [Z.of_N]. lra. }
  split; [exact Hn|]. split; [exact H0|]. split; [exact Hpts|]. cbv zeta.
  assert (Hev : bar_evs steady_wit_ops 0 (bar_new Rar (Some 100%N) 0) = [ERec 15 15000000000]).
  { unfold steady_wit_ops. cbn [bar_evs bar_evs_step clock_step app].
    change (wadd64 0 15000000000) with 15000000000%N. reflexivity. }
  assert (Hclk : snd (run_state Rar steady_wit_ops 0 (bar_new Rar (Some 100%N) 0)) = 30000000000%N).
  { unfold steady_wit_ops. cbn [run_state clock_step snd].
    change (wadd64 0 15000000000) with 15000000000%N.
    change (wadd64 15000000000 15000000000) with 30000000000%N. reflexivity. }
  destruct (bar_after (Some 100%N) 0%N steady_wit_ops Hn) as (_ & He & _).
  rewrite Hev, wit1_state in He.
  assert (Hd : b_done (fst (run_state Rar steady_wit_ops 0 (bar_new Rar (Some 100%N) 0))) = false) by reflexivity.
  split; [exact Hd|].
  destruct (bar_steady_line 1 0 (Some 100%N) 0%N steady_wit_ops 30000000000%N Hn H0 Hpts Hd) as (Hv & _).
  - rewrite Hclk. lia.
  - change (T Rar) with R in *. rewrite He. cbn [start_time]. lia.
  - rewrite Hclk. change (T Rar) with R in *. rewrite He in *. cbn [start_time prev_time] in *.
    split; [lia|]. rewrite Hv.
    change (15000000000 - 0)%N with 15000000000%N.
    change (30000000000 - 15000000000)%N with 15000000000%N.
    rewrite W_15_ns. unfold steady_discount. lra.
Qed.

(** NO PROGRESS SEEN <=> RATE ZERO (bar level): the third zero case of eta() *)
Theorem bar_rate_zero_iff_no_progress : forall len t0 ops now', no_wrap ops t0 ->
  let b := fst (run_state Rar ops t0 (bar_new Rar len t0)) in
  let now := snd (run_state Rar ops t0 (bar_new Rar len t0)) in
  b_done b = false -> (now <= now')%N -> (start_time (b_est b) < now')%N ->
  (progress_seen (b_est b) -> 0 < bar_per_sec Rar b now') /\
  (bar_per_sec Rar b now' = 0 <-> ~ progress_seen (b_est b)) /\
  (~ progress_seen (b_est b) -> bar_eta Rar b now' = Some 0%N).
Proof.
  intros len t0 ops now' Hn b now Hd Hle Hst.
  destruct (bar_after len t0 ops Hn) as ((_ & _ & Ht & _) & He & Hh). fold b in Ht, He. fold now in Ht.
  assert (Hq : bar_per_sec Rar b now' = est_sps Rar (b_est b) now') by (unfold bar_per_sec; rewrite Hd; reflexivity).
  rewrite Hq. change (T Rar) with R in *. rewrite He in *.
  destruct (rate_zero_iff_no_progress _ t0 now' Hh) as (P1 & P2 & P3); [lia | exact Hst|].
  split; [exact P1|]. split; [exact P3|].
  intros Hno. apply eta_no_rate. apply is_zero_R_true. change (T Rar) with R. rewrite He. now apply P2.
Qed.

(** REGRESSION statement about the code before fix 56491a5: at the instant of a recorded
    backwards seek (no reset anywhere; strictly after creation) the normaliser by which
    [est_sps_pre_56491a5] divides is 0 (binary64: 0 * 1 / 0 = NaN); the current code reports 0.
    History: create at 0; update(set_pos 10) at 1 s; update(set_pos 5) at 2 s; query at 2 s *)
Definition rewind_wit_ops : list eop := [Adv 1000000000; UpdPos 10; Adv 1000000000; UpdPos 5].

Theorem bar_rewind_instant_pre_56491a5 :
  exists len t0 ops,
    no_wrap ops t0 /\ forallb (fun o => negb (is_reset_op o)) ops = true /\
    let b := fst (run_state Rar ops t0 (bar_new Rar len t0)) in
    let now := snd (run_state Rar ops t0 (bar_new Rar len t0)) in
    b_done b = false /\ (t0 < now)%N /\ (b_started b < now)%N /\
    1 - W (secs (now - start_time (b_est b))) = 0 /\
    est_sps_pre_56491a5 Rar (b_est b) now =
      sps_R (sm (b_est b)) (dsm (b_est b)) (W (secs (now - prev_time (b_est b)))) 0 /\
    bar_per_sec Rar b now = 0.
Proof.
  exists (Some 100%N), 0%N, rewind_wit_ops.
  assert (Hn : no_wrap rewind_wit_ops 0).
  { unfold rewind_wit_ops. cbn [no_wrap clock_step]. unfold wadd64, U64.
    repeat split; try exact I; cbn; reflexivity. }
  split; [exact Hn|]. split; [reflexivity|]. cbv zeta.
  assert (Hclk : snd (run_state Rar rewind_wit_ops 0 (bar_new Rar (Some 100%N) 0)) = 2000000000%N).
  { unfold rewind_wit_ops. cbn [run_state clock_step snd].
    change (wadd64 0 1000000000) with 1000000000%N.
    change (wadd64 1000000000 1000000000) with 2000000000%N. reflexivity. }
  assert (Hev : bar_evs rewind_wit_ops 0 (bar_new Rar (Some 100%N) 0) =
                [ERec 10 1000000000; ERec 5 2000000000]).
  { unfold rewind_wit_ops. cbn [bar_evs bar_evs_step clock_step app].
    change (wadd64 0 1000000000) with 1000000000%N.
    change (wadd64 1000000000 1000000000) with 2000000000%N. reflexivity. }
  destruct (bar_after (Some 100%N) 0%N rewind_wit_ops Hn) as (_ & He & _).
  rewrite Hev in He. cbn [est_run est_ev] in He.
  rewrite (est_record_accept 10 1000000000) in He by (cbn; lia).
  rewrite est_record_rewind in He by (cbn; lia).
  rewrite Hclk. change (T Rar) with R in *. rewrite He. cbn [start_time].
  split; [reflexivity|]. split; [lia|]. split; [cbn; lia|].
  assert (Z : 1 - W (secs (2000000000 - 2000000000)) = 0) by (rewrite N.sub_diag, secs_0, W_0; lra).
  split; [exact Z|]. split.
  - rewrite est_sps_pre_R. cbn [start_time prev_time sm dsm]. rewrite Z. reflexivity.
  - unfold bar_per_sec.
    assert (Hd : b_done (fst (run_state Rar rewind_wit_ops 0 (bar_new Rar (Some 100%N) 0))) = false)
      by reflexivity.
    change (T Rar) with R in *. rewrite Hd, He. apply est_sps_R_restart. cbn [start_time]. lia.
Qed.

(** a steady stream with an interleaved tick in the middle of a gap: the tick brings no news and
    is not listed among the points that have to be on the line *)
Lemma est_record_prev_steps : forall (A : arith) new now (e : est (T A)),
  prev_steps (est_record A new now e) =
  if ((new <=? prev_steps e) || (now <=? prev_time e))%N
  then (if (new <? prev_steps e)%N then new else prev_steps e) else new.
Proof.
  intros A new now e. unfold est_record.
  destruct ((new <=? prev_steps e) || (now <=? prev_time e))%N; [|reflexivity].
  destruct (new <? prev_steps e)%N; reflexivity.
Qed.

Definition tick_wit_ops : list eop :=
  [Adv 15000000000; UpdPos 15; Adv 5000000000; Tick; Adv 10000000000; UpdPos 30].

Lemma tick_wit_points : forall len,
  bar_points tick_wit_ops 0 (bar_new Rar len 0) = [(15, 15000000000); (30, 30000000000)]%N /\
  Forall (pt_on_line 1 0) (bar_points tick_wit_ops 0 (bar_new Rar len 0)).
Proof.
  intros len.
  assert (E : bar_points tick_wit_ops 0 (bar_new Rar len 0) = [(15, 15000000000); (30, 30000000000)]%N).
  { unfold tick_wit_ops. cbn [bar_points clock_step app]. unfold brings_news.
    cbn [reaches_est is_reset_op andb orb bar_step bar_record b_pos b_est b_len b_done b_started b_lim bar_new].
    change (wadd64 0 15000000000) with 15000000000%N.
    change (wadd64 15000000000 5000000000) with 20000000000%N.
    change (wadd64 20000000000 10000000000) with 30000000000%N.
    assert (P1 : prev_steps (est_record Rar 15 15000000000 (est_new Rar 0)) = 15%N)
      by (rewrite (est_record_prev_steps Rar); reflexivity).
    assert (P2 : prev_steps (est_record Rar 15 20000000000
                               (est_record Rar 15 15000000000 (est_new Rar 0))) = 15%N).
    { rewrite (est_record_prev_steps Rar), P1. reflexivity. }
    change (T Rar) with R in *. rewrite P2, P1. reflexivity. }
  split; [exact E|]. rewrite E.
  repeat constructor; unfold pt_on_line, on_line, secs; cbn [fst snd Z.of_N]; lra.
Qed.

(** * OBSERVATIONAL INDEPENDENCE from everything before a restart (any arithmetic)
    Two estimators with ARBITRARY pasts (any two histories from any two creation instants), the
    same restart (reset*, or a record below both baselines) at the same instant, then the same
    suffix of calls: the states coincide after the restart - by definition of [est_reset], which
    overwrites both averages and both instants - and stay equal along the suffix (induction over
    the suffix), so every later per_sec / eta / duration / elapsed of two bars that agree on the
    user-visible fields coincides. *)
Lemma est_evA_restart : forall (A : arith) x (e1 e2 : est (T A)),
  is_restart x e1 -> is_restart x e2 -> est_evA A x e1 = est_evA A x e2.
Proof.
  intros A x e1 e2 H1 H2. destruct x as [p t | t pos]; cbn [est_evA is_restart] in *.
  - unfold est_record.
    assert (G1 : forall e : est (T A), (p < prev_steps e)%N ->
              ((p <=? prev_steps e) || (t <=? prev_time e))%N = true /\ (p <? prev_steps e)%N = true).
    { intros e H. split; [apply orb_true_iff; left; apply N.leb_le; lia | apply N.ltb_lt; exact H]. }
    destruct (G1 e1 H1) as [-> ->]. destruct (G1 e2 H2) as [-> ->]. reflexivity.
  - reflexivity.
Qed.

Lemma est_runA_suffix : forall (A : arith) sfx (e1 e2 : est (T A)),
  e1 = e2 -> est_runA A sfx e1 = est_runA A sfx e2.
Proof.
  intros A sfx. induction sfx as [|y sfx IH]; intros e1 e2 E; [exact E|].
  cbn [est_runA]. apply IH. rewrite E. reflexivity.
Qed.

(** stated for ARBITRARY estimator states e1 e2 (reachable or not); [sfx] is a list of calls that
    REACHED THE ESTIMATOR ([Estimator::record] / [BarState::reset]), not of public calls *)
Theorem estimator_forgets_after_restart : forall (A : arith) (e1 e2 : est (T A)) x sfx,
  is_restart x e1 -> is_restart x e2 ->
  est_runA A (x :: sfx) e1 = est_runA A (x :: sfx) e2 /\
  (forall q, est_sps A (est_runA A (x :: sfx) e1) q = est_sps A (est_runA A (x :: sfx) e2) q) /\
  (forall (b1 b2 : bar (T A)) q,
     b_est b1 = est_runA A (x :: sfx) e1 -> b_est b2 = est_runA A (x :: sfx) e2 ->
     b_pos b1 = b_pos b2 -> b_len b1 = b_len b2 -> b_done b1 = b_done b2 ->
     b_started b1 = b_started b2 ->
     bar_query A b1 q = bar_query A b2 q).
Proof.
  intros A e1 e2 x sfx H1 H2.
  assert (E : est_runA A (x :: sfx) e1 = est_runA A (x :: sfx) e2).
  { cbn [est_runA]. apply est_runA_suffix. now apply est_evA_restart. }
  split; [exact E|]. split; [intros q; rewrite E; reflexivity|].
  intros b1 b2 q B1 B2 Hp Hl Hd Hs.
  unfold bar_query, bar_per_sec, bar_eta, bar_duration, bar_elapsed, bar_eta.
  rewrite B1, B2, E, Hp, Hl, Hd, Hs. reflexivity.
Qed.

(** BAR level, public calls: two bars with ARBITRARY pasts (any two histories of public calls from
    any two creations) that stand at the same clock reading and agree on what a user can see AND
    on the state of the position limiter ([same_but_est]: position, length, status, start,
    limiter) observe the same per_sec / eta / duration / elapsed at every query of the same
    public continuation that begins with reset_eta / reset_elapsed / reset.  The limiter state is
    part of what must agree: it decides which later set_position / inc / dec reach the estimator,
    and reset_eta / reset_elapsed / a backwards seek do not touch it (reset() only moves its
    [prev] to the reset instant and keeps the bucket) - see [bar_limiter_leak_refuted]. *)
Theorem bar_forgets_given_same_limiter : forall (A : arith) len1 len2 t1 t2 ops1 ops2 o sfx,
  let b1 := fst (run_state A ops1 t1 (bar_new A len1 t1)) in
  let b2 := fst (run_state A ops2 t2 (bar_new A len2 t2)) in
  let n1 := snd (run_state A ops1 t1 (bar_new A len1 t1)) in
  let n2 := snd (run_state A ops2 t2 (bar_new A len2 t2)) in
  n1 = n2 -> o = ResetEta \/ o = ResetElapsed \/ o = ResetAll -> same_but_est A b1 b2 ->
  snd (bar_run A (o :: sfx) n1 b1) = snd (bar_run A (o :: sfx) n2 b2).
Proof.
  intros A len1 len2 t1 t2 ops1 ops2 o sfx b1 b2 n1 n2 En Ho Hs.
  rewrite <- En. destruct (bar_reset_forgets A o n1 b1 b2 sfx Ho Hs) as [_ E]. rewrite E. reflexivity.
Qed.

(** WITHOUT the agreement on the limiter the past leaks (over R): bar A made ten set_position
    calls within 1 us (its limiter bucket is empty), bar B one; both stand at position 5 at
    t = 1 us, get reset_eta at 2 us and inc(1) at 3 us.  They agree on position, length, status and
    start before and after - but A's inc is refused by the limiter and never reaches the
    estimator (per_sec = 0), B's is recorded (per_sec > 0). *)
Definition leak_common : list eop := [Adv 1000; ResetEta; Adv 1000; Inc 1].
Definition leak_opsA : list eop := Adv 1000 :: repeat (SetPos 5) 10 ++ leak_common.
Definition leak_opsB : list eop := Adv 1000 :: SetPos 5 :: leak_common.

Theorem bar_limiter_leak_refuted :
  exists len t0,
    let bA := fst (run_state Rar leak_opsA t0 (bar_new Rar len t0)) in
    let bB := fst (run_state Rar leak_opsB t0 (bar_new Rar len t0)) in
    let nA := snd (run_state Rar leak_opsA t0 (bar_new Rar len t0)) in
    let nB := snd (run_state Rar leak_opsB t0 (bar_new Rar len t0)) in
    no_wrap leak_opsA t0 /\ no_wrap leak_opsB t0 /\ nA = nB /\
    b_pos bA = b_pos bB /\ b_len bA = b_len bB /\ b_done bA = b_done bB /\
    b_started bA = b_started bB /\ b_lim bA <> b_lim bB /\
    bar_per_sec Rar bA nA = 0 /\ 0 < bar_per_sec Rar bB nB.
Proof.
  exists (Some 100%N), 0%N. cbv zeta.
  assert (HnA : no_wrap leak_opsA 0) by (lazy; repeat split).
  assert (HnB : no_wrap leak_opsB 0) by (lazy; repeat split).
  split; [exact HnA|]. split; [exact HnB|].
  split; [lazy; reflexivity|]. split; [lazy; reflexivity|]. split; [lazy; reflexivity|].
  split; [lazy; reflexivity|]. split; [lazy; reflexivity|].
  split; [lazy; intros H; discriminate H|].
  set (nA := snd (run_state Rar leak_opsA 0 (bar_new Rar (Some 100%N) 0))).
  set (nB := snd (run_state Rar leak_opsB 0 (bar_new Rar (Some 100%N) 0))).
  split.
  - destruct (bar_rate_zero_iff_no_progress (Some 100%N) 0%N leak_opsA nA HnA) as (_ & Hz & _).
    + lazy; reflexivity.
    + apply N.le_refl.
    + lazy; reflexivity.
    + apply Hz. lazy. intros H; discriminate H.
  - destruct (bar_rate_zero_iff_no_progress (Some 100%N) 0%N leak_opsB nB HnB) as (Hp & _).
    + lazy; reflexivity.
    + apply N.le_refl.
    + lazy; reflexivity.
    + apply Hp. lazy. reflexivity.
Qed.

(** * More non-vacuity *)
(** deceleration (100/s for 15 s, then 1/s for 15 s): smoothed = 9.9 < double_smoothed = 18, a
    strict instance of the decay condition *)
Definition decel_evs : list ev := [ERec 1500 15000000000; ERec 1515 30000000000].
Lemma decel_state :
  hist_ok decel_evs (est_new Rar 0) /\
  est_run decel_evs (est_new Rar 0) = (mkEst (99 / 10) 18 1515%N 30000000000%N 0%N : est R) /\
  99 / 10 < 18.
Proof.
  assert (E1 : est_record Rar 1500 15000000000 (est_new Rar 0) =
               (mkEst 90 90 1500%N 15000000000%N 0%N : est R)).
  { rewrite est_record_accept by (cbn; lia).
    unfold rec_d, rec_s, seg_rate. cbn [sm dsm prev_steps prev_time start_time est_new].
    change (15000000000 - 0)%N with 15000000000%N. change (1500 - 0)%N with 1500%N.
    rewrite secs_15, W_15, fzero_R. cbn [Z.of_N]. f_equal; field. }
  split; [|split; [|lra]].
  - unfold decel_evs. cbn [hist_ok ev_time est_ev]. split; [cbn; lia|]. rewrite E1. cbn [prev_time].
    split; [lia | exact I].
  - unfold decel_evs. cbn [est_run est_ev]. rewrite E1.
    rewrite est_record_accept by (cbn; lia).
    unfold rec_d, rec_s, seg_rate. cbn [sm dsm prev_steps prev_time start_time].
    change (30000000000 - 15000000000)%N with 15000000000%N.
    change (30000000000 - 0)%N with 30000000000%N. change (1515 - 1500)%N with 15%N.
    rewrite secs_15, secs_30, W_15, W_30. cbn [Z.of_N]. f_equal; field.
Qed.

(** a steady stream at 1 step / us in which the position limiter REFUSES 20 of 31 set_position
    calls: 30 calls 1 us apart (the burst of 10 passes, the next 20 are refused), one at 1 ms, and a
    tick 0.5 us later (not listed: it brings the position the estimator already has) *)
Definition thr_ops : list eop :=
  flat_map (fun k => [Adv 1000; SetPos (N.of_nat k)]) (seq 1 30)
  ++ [Adv 970000; SetPos 1000; Adv 500; Tick].

Lemma thr_example : forall len,
  no_wrap thr_ops 0 /\ on_line 1000000 0 0 0 /\
  Forall (pt_on_line 1000000 0) (bar_points thr_ops 0 (bar_new Rar len 0)) /\
  length (bar_points thr_ops 0 (bar_new Rar len 0)) = 31%nat /\
  length (bar_evs thr_ops 0 (bar_new Rar len 0)) = 12%nat.
Proof.
  intros len.
  assert (Hn : no_wrap thr_ops 0) by (lazy; repeat split).
  assert (H0 : on_line 1000000 0 0 0) by (unfold on_line, secs; cbn [Z.of_N]; lra).
  assert (E : bar_points thr_ops 0 (bar_new Rar len 0) =
              map (fun k => (N.of_nat k, N.of_nat k * 1000)%N) (seq 1 30) ++ [(1000, 1000000)]%N)
    by (lazy; reflexivity).
  assert (L : length (bar_evs thr_ops 0 (bar_new Rar len 0)) = 12%nat) by (lazy; reflexivity).
  split; [exact Hn|]. split; [exact H0|]. split; [|split; [rewrite E; reflexivity | exact L]].
  rewrite E. apply Forall_app. split.
  - apply Forall_forall. intros pt Hin. apply in_map_iff in Hin. destruct Hin as (k & <- & _).
    unfold pt_on_line, on_line, secs. cbn [fst snd].
    rewrite N2Z.inj_mul, mult_IZR. cbn [Z.of_N]. field.
  - constructor; [|constructor]. unfold pt_on_line, on_line, secs. cbn [fst snd Z.of_N]. lra.
Qed.
