(** Proofs for model/MultiRegion.v: the live region is the members' stored lines whenever the
    history is [settled]; end-to-end corollary for C02 (screen = pre ++ log ++ kept ++ renderings of
    the members' latest drawn states in logical order). *)
From IndModel Require Import MultiRegion.
From IndModel Require SingleBar.
From IndProofs Require Import TermProofs MultiProofs MultiFrame MultiScreenProofs MultiLatestProofs.
From Coq Require Import List NArith Lia Bool.
Import ListNotations.
Open Scope N_scope.

(* ------------------------------------------------------------------ MultiState-level lemmas *)
Lemma no_zombie_rest m : no_head_zombie m = true -> rest_lines_of m = bar_lines_of m.
Proof.
  unfold no_head_zombie, rest_lines_of, bar_lines_of. destruct (ms_order m) as [|i r]; [reflexivity|].
  cbn [head_zombies drop_while]. destruct (m_zombie (nthN (ms_members m) i member_default)); [discriminate | reflexivity].
Qed.

Lemma l_ins_split l ord idx ord' : l_ins l ord idx = Some ord' ->
  exists p q, ord = p ++ q /\ ord' = p ++ idx :: q.
Proof.
  assert (At : forall i, exists p q, ord = p ++ q /\ insert_at ord i idx = p ++ idx :: q).
  { intros i. exists (firstn i ord), (skipn i ord). split; [symmetry; apply firstn_skipn | apply insert_at_spec]. }
  destruct l as [|p|p|r|r]; cbn.
  - intros [= <-]. exists ord, []. split; [symmetry; apply app_nil_r | reflexivity].
  - intros [= <-]. apply At.
  - intros [= <-]. apply At.
  - destruct (posN r ord); [|discriminate]. intros [= <-]. apply At.
  - destruct (posN r ord); [|discriminate]. intros [= <-]. apply At.
Qed.

Lemma insert_lines m l m1 idx : CoreInv m -> ms_insert m l = Some (m1, idx) -> bar_lines_of m1 = bar_lines_of m.
Proof.
  intros CI Hi. destruct (ms_insert_spec m l m1 idx CI Hi) as (Hfresh & Hlins & _ & Hdef & Hmem & _).
  destruct (l_ins_split _ _ _ _ Hlins) as (p & q & Eo & Eo1). unfold bar_lines_of. rewrite Eo1, Eo.
  assert (Hsame : forall j, In j (p ++ q) -> member_lines (ms_members m1) j = member_lines (ms_members m) j).
  { intros j Hj. unfold member_lines. rewrite Hmem; [reflexivity|]. rewrite Eo. exact Hj. }
  rewrite !map_app, !concat_app. cbn [map concat]. unfold member_lines at 2. rewrite Hdef. cbn [m_lines member_default app].
  f_equal; f_equal; apply map_ext_in; intros j Hj; apply Hsame; apply in_or_app; auto.
Qed.

Section Acts.
  Variable W H : N.
  Hypothesis HW : 1 <= W.

  (** an attempted draw: settled afterwards iff it has no text or no dropped bar is at the head *)
  Lemma draw_flag_clean m force extra now c tg g :
    CoreInv m -> ms_target m = TTerm tg -> ms_attempt W m force extra now = true ->
    (if ms_has_text m extra then no_head_zombie m else true) = true ->
    Clean W (fst4 (ms_draw W H nofaults m force extra now c)) (g_draw W m extra g).
  Proof.
    intros CI Ht Ha Hf. destruct (ms_has_text m extra) eqn:Hht.
    - unfold Clean. rewrite (draw_lines W H m force extra now c tg CI Ht Ha).
      unfold g_draw. rewrite Hht. cbn [mg_live]. rewrite (no_zombie_rest m Hf). reflexivity.
    - apply (draw_clean W H m force extra now c tg g CI Ht Ha Hht).
  Qed.

  (** Drawable::state + MultiState::draw of a member: [AStore idx ..; ADraw force None] *)
  Lemma store_draw_flag m idx texts bars force now c g f :
    CoreInv m -> J m -> In idx (ms_order m) -> zflag m idx = false ->
    let acts := [AStore idx texts bars; ADraw force None] in
    let m' := fst (fst (mp_run W H nofaults now m c acts)) in
    (c_run W H now m c acts f = true -> Clean W m' (g_run W H now m c acts g))
    /\ CoreInv m' /\ In idx (ms_order m').
  Proof.
    intros CI [Ho [tg Ht]] Hin Hzf. cbv zeta.
    cbn [mp_run g_run c_run mp_exec1 g_act c_act].
    set (m1 := ms_store m idx texts bars).
    pose proof (ms_store_trans m idx texts bars CI Hin) as T1.
    assert (CI1 : CoreInv m1) by exact (mt_core _ _ _ T1).
    assert (Ht1 : ms_target m1 = TTerm tg) by exact Ht.
    pose proof (ms_draw_trans W H nofaults m1 force None now c CI1) as T2.
    pose proof (fun Ha Hf => draw_flag_clean m1 force None now c tg g CI1 Ht1 Ha Hf) as Hc.
    unfold fst4 in *.
    destruct (ms_draw W H nofaults m1 force None now c) as [[[m2 e2] c2] ok2]. cbn [fst snd] in *.
    split; [|split; [exact (mt_core _ _ _ T2)|]].
    - destruct (ms_attempt W m1 force None now); [|discriminate]. intros Hf. apply Hc; [reflexivity | exact Hf].
    - rewrite (mt_order _ _ _ T2). destruct (ms_attempt W m1 force None now).
      + apply drop_while_keep; [exact Hin|].
        etransitivity; [apply (mt_zflag _ _ _ T1); exact Hin | exact Hzf].
      + exact Hin.
  Qed.
End Acts.

Section Acts2.
  Variable W H : N.
  Hypothesis HW : 1 <= W.

  Lemma c_run_app now acts1 : forall m c acts2 f,
    c_run W H now m c (acts1 ++ acts2) f =
    let '(m1, _, c1) := mp_run W H nofaults now m c acts1 in
    c_run W H now m1 c1 acts2 (c_run W H now m c acts1 f).
  Proof.
    induction acts1 as [|a r IH]; intros m c acts2 f; cbn [c_run mp_run app]; [reflexivity|].
    destruct (mp_exec1 W H nofaults now m c a) as [[[m1 e1] c1] ok1]. rewrite IH.
    destruct (mp_run W H nofaults now m1 c1 r) as [[m2 e2] c2]. reflexivity.
  Qed.

  (** MultiState::suspend: clear, closure, forced draw of all members *)
  Lemma suspend_clean m ws now c g :
    CoreInv m -> J m ->
    Clean W (fst (fst (ms_suspend W H nofaults m ws now c))) (g_act W now m (ASuspend ws) g).
  Proof.
    intros CI [Ho [tg Ht]]. rewrite (ms_suspend_draw W H nofaults m ws now c).
    set (m1 := sus_mid W H nofaults m c).
    pose proof (sus_mid_same W H nofaults m c) as Hs. fold m1 in Hs.
    assert (CI1 : CoreInv m1) by (eapply same_core_inv; eauto).
    destruct (ms_clear_fields W H m c tg Ht) as (Eo1 & _ & _ & tg1 & Et1). unfold fst4 in *.
    assert (Ho1 : ms_orphans m1 = []).
    { unfold m1, sus_mid. cbn [ms_orphans set_ms_target]. rewrite Eo1. exact Ho. }
    assert (Ht1 : exists tg', ms_target m1 = TTerm tg').
    { unfold m1, sus_mid. cbn [ms_target set_ms_target]. rewrite Et1. eauto. }
    destruct Ht1 as [tg' Ht1].
    assert (Hht : ms_has_text m1 None = false) by (unfold ms_has_text; rewrite Ho1; reflexivity).
    pose proof (attempt_forced W m1 None now tg' Ht1) as Ha.
    match goal with |- context [ms_draw W H nofaults m1 true None now ?c2] =>
      pose proof (draw_clean W H m1 true None now c2 tg' (mkmg (mg_log g ++ ws) [] []) CI1 Ht1 Ha Hht) as Hc end.
    unfold Clean, fst4 in *. rewrite <- Hc. cbn [g_act]. unfold g_draw. rewrite Hht.
    assert (Hht0 : ms_has_text m None = false) by (unfold ms_has_text; rewrite Ho; reflexivity).
    rewrite Hht0. cbn [mg_live]. destruct Hs as (Em & _ & Eor). unfold rest_lines_of. rewrite <- Em, <- Eor. reflexivity.
  Qed.
End Acts2.

(* ------------------------------------------------------------------ one public call *)
Section Step.
  Variable W H : N.
  Hypothesis HW : 1 <= W.
  Hypothesis HH : 1 <= H.
  Variable pre : list (list N).

  Lemma pos_actions_none s b f now : alive s b = true ->
    option_map (pair b) (pos_draw (get_bar s b) f now) = None -> pos_actions W s b f now = [].
  Proof.
    intros Ha Hp. pose proof (alive_inrange s b Ha) as Hl. unfold pos_actions, pos_draw in *.
    rewrite get_upd_same by exact Hl.
    change (b_ap (set_b_pos (get_bar s b) (f (b_pos (get_bar s b))))) with (b_ap (get_bar s b)) in *.
    destruct (ap_allow (b_ap (get_bar s b)) now) as [[|] ap']; [discriminate Hp | reflexivity].
  Qed.

  Lemma clean_step s g t now o f :
    MInv s -> op_ok s o = true -> SInv W H pre (s, g, t) -> J (s_mp s) ->
    fits_run W H now (s_mp s) (s_calls s) (op_actions W s now o) ->
    (f = true -> Clean W (s_mp s) g) ->
    let acts := op_actions W s now o in
    c_run W H now (s_mp s) (s_calls s) acts f = true ->
    Clean W (fst (fst (mp_run W H nofaults now (s_mp s) (s_calls s) acts)))
            (g_run W H now (s_mp s) (s_calls s) acts g).
  Proof using HW HH.
    intros MI Hok [Hno Hinv] HJ Hfit Hc. cbn [fst snd] in Hno, Hinv. cbv zeta.
    pose proof (MInv_core s MI) as CI.
    assert (Hmark : forall idx g0, In idx (ms_order (s_mp s)) -> Clean W (s_mp s) g0 ->
              length (mg_live g0) = N.to_nat (target_n (ms_target (s_mp s))) ->
              Clean W (ms_mark_zombie W (s_mp s) idx) (g_act W now (s_mp s) (AMark idx) g0)).
    { intros idx g0 Hin Hc0 Hlen. exact (proj1 (mark_clean W HW (s_mp s) idx now g0 CI Hin Hc0 Hlen)). }
    destruct (op_draw s now o) as [[b st]|] eqn:Hd.
    - (* a draw step of bar b *)
      pose proof (draw_op_actions W s now o b st Hok Hd) as Sh.
      pose proof (ok_alive s o b Hok (op_draw_bar s now o b st Hd)) as Ha.
      destruct (b_target (get_bar s b)) as [|tg0|idx] eqn:Etg; try (rewrite Sh; cbn; exact Hc).
      destruct Sh as [force Sh]. destruct (mi_alive s MI b idx Ha Etg) as [Hin Hzf].
      pose proof (op_actions_wf W s now o) as Hwf. rewrite Sh in Hwf, Hfit |- *.
      change (AStore idx (op_texts o) (stored_frame W (s_mp s) st) :: ADraw force None :: drop_tail o idx)
        with ([AStore idx (op_texts o) (stored_frame W (s_mp s) st); ADraw force None] ++ drop_tail o idx) in *.
      set (A1 := [AStore idx (op_texts o) (stored_frame W (s_mp s) st); ADraw force None]) in *.
      destruct (store_draw_flag W H (s_mp s) idx (op_texts o) (stored_frame W (s_mp s) st) force now (s_calls s) g f
                  CI HJ Hin Hzf) as (Hc1 & CI1 & Hin1). cbv zeta in Hc1, CI1, Hin1. fold A1 in Hc1, CI1, Hin1.
      apply Forall_app in Hwf. destruct Hwf as [Hwf1 _].
      destruct (fits_run_app W H now A1 (s_mp s) (s_calls s) (drop_tail o idx) Hfit) as [Hf1 _].
      pose proof (acts_inv W H HW HH pre now A1 (s_mp s) t g (s_calls s) Hinv Hwf1 Hf1) as Hinv1. cbv zeta in Hinv1.
      rewrite (c_run_app W H), g_run_app, mp_run_app.
      destruct (mp_run W H nofaults now (s_mp s) (s_calls s) A1) as [[m1 e1] c1]. cbn [fst snd] in *.
      destruct o; cbn [drop_tail]; try (cbn [c_run g_run mp_run fst]; exact Hc1).
      (* ODrop of an unfinished bar: finish draw, then mark_zombie *)
      cbn [c_run g_run mp_run mp_exec1 c_act fst]. intros Hf1'.
      exact (proj1 (mark_clean W HW m1 idx now _ CI1 Hin1 (Hc1 Hf1') (AInv_live_len W H pre _ _ _ Hinv1))).
    - (* no draw step *)
      destruct o; cbn [op_draw] in Hd; try discriminate Hd; cbn [op_actions] in *.
      + (* OInc refused *) rewrite pos_actions_none; [cbn; exact Hc | eapply ok_alive; [exact Hok | reflexivity] | exact Hd].
      + rewrite pos_actions_none; [cbn; exact Hc | eapply ok_alive; [exact Hok | reflexivity] | exact Hd].
      + rewrite pos_actions_none; [cbn; exact Hc | eapply ok_alive; [exact Hok | reflexivity] | exact Hd].
      + (* OSetStyle *) cbn. exact Hc.
      + (* OSuspend *)
        destruct (b_target (get_bar s b)) as [|tg0|idx]; cbn [c_run g_run mp_run mp_exec1 c_act fst].
        * rewrite emit_each_nofaults. cbn [fst]. intros Hf. exact (Hc Hf).
        * exact Hc.
        * intros _. pose proof (suspend_clean W H (s_mp s) ws now (s_calls s) g CI HJ) as Hs.
          destruct (ms_suspend W H nofaults (s_mp s) ws now (s_calls s)) as [[m2 e2] c2]. exact Hs.
      + (* OResetEta *) cbn. exact Hc.
      + cbn. exact Hc.
      + (* ODrop of a finished bar *)
        destruct (finished (get_bar s b)); [|discriminate Hd]. cbn [app].
        assert (Ha : alive s b = true) by (eapply ok_alive; [exact Hok | reflexivity]).
        destruct (b_target (get_bar s b)) as [|tg0|idx] eqn:Etg; cbn [c_run g_run mp_run mp_exec1 c_act fst]; try exact Hc.
        intros Hf. apply Hmark; [exact (proj1 (mi_alive s MI b idx Ha Etg)) | exact (Hc Hf) | exact (AInv_live_len W H pre _ _ _ Hinv)].
      + (* OInsert *)
        destruct (b_target (get_bar s b)); [| |cbn; exact Hc];
          (match goal with |- context [match ?x with Some l => _ | None => _ end] => destruct x as [l|] end; [|cbn; exact Hc];
           match goal with |- context [ms_insert (s_mp s) ?l0] =>
             destruct (ms_insert (s_mp s) l0) as [[m1 idx]|] eqn:Ei; [|cbn; exact Hc];
             cbn [c_run g_run mp_run mp_exec1 c_act g_act fst]; rewrite Ei; cbn [fst]; intros Hf;
             unfold Clean; rewrite (insert_lines (s_mp s) l0 m1 idx CI Ei); exact (Hc Hf)
           end).
      + (* ORemove *)
        destruct (b_target (get_bar s b)) as [|tg0|idx] eqn:Etg; try (cbn; exact Hc).
        intros _. assert (Hfm : forced_member_op s (ORemove b) = true) by (cbn; unfold is_member; rewrite Etg; reflexivity).
        pose proof (c02_live_forced W H s now (ORemove b) g MI Hok HJ Hfm) as Hl.
        pose proof (step_mp W H nofaults s now (ORemove b)) as [Hmp _]. cbn [fst] in Hmp.
        rewrite Hmp in Hl. cbn [op_actions] in Hl. rewrite Etg in Hl. exact Hl.
      + (* OMPrintln *)
        destruct HJ as [Ho [tg Ht]].
        cbn [c_run g_run mp_run mp_exec1 c_act g_act fst].
        match goal with |- context [ms_draw W H nofaults (s_mp s) true ?ex now (s_calls s)] => set (ex1 := ex) end.
        pose proof (attempt_forced W (s_mp s) ex1 now tg Ht) as Ha. rewrite Ha.
        pose proof (fun Hf => draw_flag_clean W H (s_mp s) true ex1 now (s_calls s) tg g CI Ht Ha Hf) as Hd1.
        unfold fst4 in Hd1.
        destruct (ms_draw W H nofaults (s_mp s) true ex1 now (s_calls s)) as [[[m2 e2] c2] ok2]. cbn [fst].
        exact Hd1.
      + (* OMSuspend *)
        cbn [c_run g_run mp_run mp_exec1 c_act fst]. intros _.
        pose proof (suspend_clean W H (s_mp s) ws now (s_calls s) g CI HJ) as Hs.
        destruct (ms_suspend W H nofaults (s_mp s) ws now (s_calls s)) as [[m2 e2] c2]. exact Hs.
      + (* OMClear *)
        cbn [c_run mp_exec1 c_act]. destruct (ms_clear W H nofaults (s_mp s) (s_calls s)) as [[[m2 e2] c2] ok2]. discriminate.
      + (* OSetAlign *) cbn. exact Hc.
  Qed.
End Step.

(* ------------------------------------------------------------------ histories *)
Section Run.
  Variable W H : N.
  Hypothesis HW : 1 <= W.
  Hypothesis HH : 1 <= H.
  Variable pre : list (list N).

  Lemma clean_run : forall h s g t f,
    MInv s -> (exists a, Refines s a) -> SInv W H pre (s, g, t) -> J (s_mp s) ->
    MultiSpec.hist_ok W H nofaults s h -> FitsAll W H s h ->
    (f = true -> Clean W (s_mp s) g) ->
    settled_from W H s f h = true ->
    let st := ms_run W H (s, g, t) h in
    Clean W (s_mp (fst (fst st))) (snd (fst st)).
  Proof using HW HH.
    induction h as [|[now o] h IH]; intros s g t f MI [a RF] Hinv HJ Hh Hf Hc Hs; cbv zeta.
    - cbn in *. exact (Hc Hs).
    - change (ms_run W H (s, g, t) ((now, o) :: h)) with (ms_run W H (ms_step W H (s, g, t) (now, o)) h).
      cbn [MultiSpec.hist_ok] in Hh. destruct Hh as [Hok Hh'].
      cbn [FitsAll fst snd] in Hf. destruct Hf as [Hf1 Hf2].
      cbn [settled_from fst snd] in Hs.
      pose proof (clean_step W H HW HH pre s g t now o f MI Hok Hinv HJ Hf1 Hc) as Hc1. cbv zeta in Hc1.
      pose proof (ms_step_inv W H HW HH pre s g t now o Hinv Hf1) as Hinv1.
      destruct Hinv as [Hno _].
      destruct (op_log_step W H s now o g HJ Hno Hf1) as [_ HJ1].
      destruct (step_sim W H nofaults s a now o MI RF Hok) as (r & MI1 & RF1).
      pose proof (step_mp W H nofaults s now o) as [Hmp _].
      unfold ms_step in *. unfold step_sys in *. cbn [fst snd] in *.
      destruct (step W H nofaults s now o) as [[s' e] ok]. cbn [fst snd] in *.
      rewrite <- Hmp in Hc1, HJ1.
      exact (IH s' _ _ _ MI1 (ex_intro _ _ RF1) Hinv1 HJ1 Hh' Hf2 Hc1 Hs).
  Qed.

  (** a call that paints all members settles the history, whatever came before *)
  Lemma c_run_mono now acts : forall m c f, c_run W H now m c acts false = true -> c_run W H now m c acts f = true.
  Proof.
    induction acts as [|a r IH]; intros m c f; cbn [c_run]; [discriminate|].
    destruct (mp_exec1 W H nofaults now m c a) as [[[m1 e1] c1] ok1].
    destruct f; [|auto]. intros Hf.
    assert (E : c_act W now m a true = c_act W now m a false \/ c_act W now m a true = true).
    { destruct a; cbn [c_act]; auto. destruct (ms_attempt W m force extra now); auto. }
    destruct E as [E|E]; [rewrite E; exact Hf|]. rewrite E.
    destruct (c_act W now m a false); [exact Hf | apply IH; exact Hf].
  Qed.

  Lemma settled_from_app h1 : forall s f h2,
    settled_from W H s f (h1 ++ h2)
    = settled_from W H (MultiSpec.run W H nofaults s h1) (settled_from W H s f h1) h2.
  Proof.
    induction h1 as [|[now o] h1 IH]; intros s f h2; cbn [app settled_from MultiSpec.run fst snd]; [reflexivity|].
    apply IH.
  Qed.

  Theorem settled_after_paint s0 h now o :
    paints_all W H (MultiSpec.run W H nofaults s0 h) now o = true -> settled W H s0 (h ++ [(now, o)]) = true.
  Proof.
    intros Hp. unfold settled. rewrite settled_from_app. cbn [settled_from fst snd].
    apply c_run_mono. exact Hp.
  Qed.

  (** a call that paints nothing leaves the rows on the screen alone *)
  Lemma s_run_ghost now acts : forall m c g, s_run W H now m c acts = true -> g_run W H now m c acts g = g.
  Proof.
    induction acts as [|a r IH]; intros m c g; cbn [s_run g_run]; [reflexivity|].
    destruct (mp_exec1 W H nofaults now m c a) as [[[m1 e1] c1] ok1]. intros Hs.
    apply andb_prop in Hs. destruct Hs as [Ha Hr]. rewrite <- (IH m1 c1 g Hr) at 2. f_equal.
    destruct a; cbn [s_act g_act] in *; try reflexivity; try discriminate Ha.
    - apply negb_true_iff in Ha. rewrite Ha. reflexivity.
    - destruct (ms_order m) as [|first rest]; [reflexivity|]. apply negb_true_iff in Ha. rewrite Ha. reflexivity.
  Qed.

  Theorem refused_keeps_rows s g t now o :
    paints_nothing W H s now o = true -> snd (fst (ms_step W H (s, g, t) (now, o))) = g.
  Proof.
    intros Hp. unfold ms_step. cbn [fst snd]. destruct (step W H nofaults s now o) as [[s' e] ok]. cbn [fst snd].
    apply s_run_ghost. exact Hp.
  Qed.
End Run.

(* ------------------------------------------------------------------ the end-to-end corollary *)
Theorem region_shows_latest_in_order (W H : N) (pre : list (list N)) (s0 : sys) (t0 : term)
    (h1 h2 : list (N * op)) : 1 <= W -> 1 <= H ->
  init_ok s0 -> ms_initial s0 -> ready (N.to_nat W) (N.to_nat H) pre t0 ->
  MultiSpec.hist_ok W H nofaults s0 (h1 ++ h2) -> FitsAll W H s0 (h1 ++ h2) ->
  let st := ms_run W H (s0, mghost0, t0) h1 in
  let s := fst (fst st) in let g := snd (fst st) in let t := snd st in
  let lg := snd (lrun W H nofaults s0 0 lg_empty h1) in
  s = MultiSpec.run W H nofaults s0 h1
  /\ (exists k, screen (N.to_nat W) t
        = map (pad (N.to_nat W)) (pre ++ wrap (N.to_nat W) (hist_log W H s0 h1) ++ mg_kept g ++ mg_live g)
          ++ repeat (repeat SP (N.to_nat W)) k)
  /\ exists ord,
       NoDup ord /\ ms_order (s_mp s) = map (slot_of s) ord
       /\ (forall b, In b ord -> is_member s b = true)
       /\ (forall b, alive s b = true -> is_member s b = true -> In b ord)
       /\ bar_lines_of (s_mp s) = concat (map (latest_frame lg s) ord)
       /\ (settled W H s0 h1 = true ->
           mg_live g = wrap (N.to_nat W) (map lt (concat (map (latest_frame lg s) ord))))
       /\ (forall b e, In b ord -> lg_slot lg (slot_of s b) = Some e ->
             b_target (get_bar s (le_bar e)) = TMulti (slot_of s b)
             /\ lg_last lg (le_bar e) = Some (le_step e) /\ (le_step e < length h1)%nat
             /\ logic (le_state e)
                = logic (get_bar (MultiSpec.run W H nofaults s0 (firstn (S (le_step e)) h1)) (le_bar e))
             /\ (le_sync e = true -> logic (le_state e) = logic (get_bar s (le_bar e)))).
Proof.
  intros HW HH Hio Hi Hr Hh Hf. cbv zeta.
  destruct (proj1 (MultiLatestProofs.hist_ok_app W H nofaults h1 s0 h2) Hh) as [Hh1 _].
  pose proof (FitsAll_prefix W H h1 h2 s0 Hf) as Hf1.
  destruct (init_inv H nofaults s0 Hio) as [MI0 RF0].
  destruct (ms_initial_J s0 Hi) as [HJ0 Hno0].
  pose proof (ms_invariant W H HW HH pre s0 t0 [] Hi Hr I) as Hinv0. cbn in Hinv0.
  pose proof (ms_run_sys W H h1 s0 mghost0 t0) as Hsys.
  destruct (c03_log W H pre s0 t0 h1 HW HH Hi Hr Hf1) as (_ & Hscr & _). cbv zeta in Hscr.
  assert (Hc0 : true = true -> Clean W (s_mp s0) mghost0).
  { intros _. unfold Clean, bar_lines_of. destruct Hio as (_ & _ & Eo & _). rewrite Eo. reflexivity. }
  pose proof (clean_run W H HW HH pre h1 s0 mghost0 t0 true MI0 (ex_intro _ _ RF0) Hinv0 HJ0 Hh1 Hf1 Hc0) as Hcl.
  cbv zeta in Hcl.
  destruct (run_inv W H nofaults s0 h1 Hio Hh1) as (MI & ord & Hnd & Hord & Hmem & Hal). cbv zeta in *.
  assert (Vis : mp_visible s0) by (destruct HJ0 as [_ [tg Ht]]; exists tg; exact Ht).
  destruct (member_lines_latest W H nofaults s0 h1 Hio Vis Hh1) as (Els & Hlines & _). cbv zeta in Els, Hlines.
  destruct (lrun_fst W H nofaults h1 s0 0%nat lg_empty) as [Elr _].
  set (lg := snd (lrun W H nofaults s0 0 lg_empty h1)) in *.
  rewrite Elr in Hlines.
  rewrite Hsys in *. set (s := MultiSpec.run W H nofaults s0 h1) in *.
  split; [reflexivity|]. split; [exact Hscr|].
  exists ord. split; [exact Hnd|]. split; [exact Hord|]. split; [exact Hmem|]. split; [exact Hal|].
  assert (Elines : bar_lines_of (s_mp s) = concat (map (latest_frame lg s) ord)).
  { unfold bar_lines_of. rewrite Hord, map_map. f_equal. apply map_ext_in. intros b Hb.
    unfold latest_frame. apply (proj1 (Hlines (slot_of s b) ltac:(rewrite Hord; apply in_map; exact Hb))). }
  split; [exact Elines|]. split.
  - intros Hs. rewrite <- Elines. apply Hcl. exact Hs.
  - intros b e Hb He.
    destruct (Hlines (slot_of s b) ltac:(rewrite Hord; apply in_map; exact Hb)) as [_ Hent].
    exact (Hent e He).
Qed.

(* ------------------------------------------------------------------ C04: the lines that become kept rows are final frames *)
(** Reaping turns the STORED lines of a dropped member into kept rows (MultiScreen.reap_act: a draw
    without text keeps [zombie_lines_of m] = the stored lines of the dropped bars at the head of the
    ordering of the MultiState [m] it is made on; mark_zombie at the head keeps [member_lines m idx]).
    (a) at every MultiState::draw of every call the stored lines of every slot of the ordering are
        the rendering of the slot's ghost entry after the call, and when that entry is in sync (no
        set_style / position update swallowed by the bar's own limiter since the bar's last draw
        step) they are [frame_of] the owning bar's state right after the call - for a dropped bar:
        its final state;
    (b) the drop of a FINISHED member runs mark_zombie on the state before the call: the stored
        lines of its slot are [frame_of] its (final) state, when in sync. *)
Theorem reaped_lines_final (W H : N) (fails : N -> bool) (s0 : sys) (h1 h2 : list (N * op)) (now : N) (o : op) :
  init_ok s0 -> mp_visible s0 -> hist_ok W H fails s0 (h1 ++ (now, o) :: h2) ->
  let r := lrun W H fails s0 0 lg_empty h1 in
  let s := fst (fst r) in
  let lg' := lat_step s now o (length h1) (snd r) in
  let s' := step_sys W H fails s now o in
  s = run W H fails s0 h1
  /\ (forall m f ex i, In (m, f, ex) (step_draws W H fails s now o) -> In i (ms_order m) ->
        member_lines (ms_members m) i = shown lg' i
        /\ forall e, lg_slot lg' i = Some e -> le_sync e = true ->
             b_target (get_bar s (le_bar e)) = TMulti i
             /\ member_lines (ms_members m) i = frame_of (get_bar s' (le_bar e)))
  /\ (forall b idx e, o = ODrop b -> finished (get_bar s b) = true -> b_target (get_bar s b) = TMulti idx ->
        lg_slot (snd r) idx = Some e -> le_sync e = true ->
        member_lines (ms_members (s_mp s)) idx = frame_of (get_bar s' b)
        /\ logic (get_bar s' b) = logic (get_bar s b)).
Proof.
  intros Hi Vis Hh. cbv zeta.
  change (h1 ++ (now, o) :: h2) with (h1 ++ [(now, o)] ++ h2) in Hh. rewrite app_assoc in Hh.
  apply (MultiLatestProofs.hist_ok_app W H fails) in Hh. destruct Hh as [Hh12 _].
  apply (MultiLatestProofs.hist_ok_app W H fails) in Hh12. destruct Hh12 as [Hh1 [Hk _]].
  destruct (lrun_all W H fails s0 h1 Hi Vis Hh1) as (A & B & MI & V & LI & _). cbv zeta in *.
  destruct (lrun W H fails s0 0 lg_empty h1) as [[s n] g] eqn:Er. cbn [fst snd] in *. subst n.
  rewrite <- A in Hk. split; [exact A|]. split.
  - intros m f ex i Hin Hio.
    destruct (step_draws_lines W H fails s g (length h1) now o m f ex MI V LI Hk Hin i Hio) as [Hi0 El].
    split; [apply member_lines_shown; exact El|].
    intros e He Hs.
    destruct (lat_step_pre fails s g (length h1) now o i e LI Hi0 He) as (P1 & _ & _).
    split; [apply mslot_Some; exact P1|].
    rewrite (member_lines_shown m _ i El). unfold shown. rewrite He.
    apply frame_of_logic. exact (lat_step_sync_pre W H fails s g (length h1) now o i e LI Hk Hi0 He Hs).
  - intros b idx e -> Hf Ht He Hs.
    assert (Ha : alive s b = true) by (eapply ok_alive; [exact Hk | reflexivity]).
    destruct (mi_alive s MI b idx Ha Ht) as [Hio _].
    pose proof (li_lines _ _ _ LI idx Hio) as El.
    pose proof (li_live _ _ _ LI b idx e Ha (proj2 (mslot_Some _ _) Ht) He) as Eb.
    pose proof (li_sync _ _ _ LI idx e Hio He Hs) as Ey. rewrite Eb in Ey.
    assert (Elog : logic (get_bar (step_sys W H fails s now (ODrop b)) b) = logic (get_bar s b)).
    { destruct (step_bar_facts W H fails s now (ODrop b) Hk b) as (_ & _ & C). unfold logic_after in C.
      cbn [op_draw silent_change] in C. rewrite Hf in C. exact C. }
    split; [|exact Elog].
    rewrite (member_lines_shown (s_mp s) g idx El). unfold shown. rewrite He.
    apply frame_of_logic. rewrite Ey. symmetry. exact Elog.
Qed.

(* ------------------------------------------------------------------ the reap flag of C02_order_step, computed *)
Section ReapFlag.
  Variable W H : N.
  Variable fails : N -> bool.
  Local Notation step_sys := (step_sys W H fails).
  Local Notation op_reaps := (op_reaps W H fails).

  Lemma mp_draws_app now acts1 : forall m c acts2,
    mp_draws W H fails now m c (acts1 ++ acts2)
    = mp_draws W H fails now m c acts1
      ++ (let '(m1, _, c1) := mp_run W H fails now m c acts1 in mp_draws W H fails now m1 c1 acts2).
  Proof.
    induction acts1 as [|a r IH]; intros m c acts2; cbn [mp_draws mp_run app]; [reflexivity|].
    destruct (mp_exec1 W H fails now m c a) as [[[m1 e1] c1] ok1]. rewrite IH, app_assoc.
    destruct (mp_run W H fails now m1 c1 r) as [[m2 e2] c2]. reflexivity.
  Qed.

  Lemma store_draw_draws now m c idx texts bars force :
    mp_draws W H fails now m c [AStore idx texts bars; ADraw force None]
    = [(ms_store m idx texts bars, force, None)].
  Proof.
    cbn [mp_draws mp_exec1 app].
    destruct (ms_draw W H fails (ms_store m idx texts bars) force None now c) as [[[m2 e2] c2] ok2]. reflexivity.
  Qed.

  (** the transition of MultiState made by a non-structural call, with its reap flag *)
  Lemma nonstruct_trans_flag s now o : MInv s -> op_ok s o = true -> structural o = false ->
    MTrans (s_mp s) (fst (fst (mp_run W H fails now (s_mp s) (s_calls s) (op_actions W s now o)))) (op_reaps s now o).
  Proof.
    intros MI Hk Hs. pose proof (MInv_core s MI) as CI. unfold MultiLatest.op_reaps, step_draws.
    destruct (op_draw s now o) as [[b st]|] eqn:Hd.
    - pose proof (draw_op_actions W s now o b st Hk Hd) as Sh.
      pose proof (ok_alive s o b Hk (op_draw_bar s now o b st Hd)) as Ha.
      destruct (b_target (get_bar s b)) as [|tg0|idx] eqn:Etg; try (rewrite Sh; cbn; apply MTrans_refl; exact CI).
      destruct Sh as [force Sh]. rewrite Sh.
      assert (Edt : drop_tail o idx = []) by (destruct o; try reflexivity; discriminate Hs).
      rewrite Edt, store_draw_draws. cbn [existsb fst snd]. rewrite orb_false_r.
      apply store_draw_trans; [exact CI | exact (proj1 (mi_alive s MI b idx Ha Etg))].
    - destruct o; cbn [op_draw] in Hd; try discriminate Hd; try discriminate Hs; cbn [op_actions].
      + rewrite pos_actions_none; [cbn; apply MTrans_refl; exact CI | eapply ok_alive; [exact Hk | reflexivity] | exact Hd].
      + rewrite pos_actions_none; [cbn; apply MTrans_refl; exact CI | eapply ok_alive; [exact Hk | reflexivity] | exact Hd].
      + rewrite pos_actions_none; [cbn; apply MTrans_refl; exact CI | eapply ok_alive; [exact Hk | reflexivity] | exact Hd].
      + cbn. apply MTrans_refl; exact CI.
      + (* OSuspend *)
        destruct (b_target (get_bar s b)) as [|tg0|idx].
        * cbn [mp_draws mp_run mp_exec1 existsb app].
          destruct (emit_each fails (s_calls s) (map TLine ws)) as [e c']. cbn. apply MTrans_refl; exact CI.
        * cbn. apply MTrans_refl; exact CI.
        * cbn [mp_draws mp_exec1 app existsb fst snd].
          destruct (ms_suspend W H fails (s_mp s) ws now (s_calls s)) as [[m2 e2] c2] eqn:Es.
          cbn [existsb fst snd]. rewrite orb_false_r.
          pose proof (single_suspend_trans W H fails (s_mp s) ws now (s_calls s) CI) as T.
          cbn [MultiSpec.mp_run mp_exec1] in T |- *. rewrite Es in T |- *. exact T.
      + cbn. apply MTrans_refl; exact CI.
      + cbn. apply MTrans_refl; exact CI.
      + (* OMPrintln *)
        cbn [mp_draws mp_exec1 app].
        match goal with |- context [ms_draw W H fails (s_mp s) true ?ex now (s_calls s)] => set (ex1 := ex) end.
        pose proof (single_draw_trans W H fails (s_mp s) true ex1 now (s_calls s) CI) as T.
        cbn [MultiSpec.mp_run mp_exec1] in T |- *.
        destruct (ms_draw W H fails (s_mp s) true ex1 now (s_calls s)) as [[[m2 e2] c2] ok2].
        cbn [existsb fst snd]. rewrite orb_false_r. exact T.
      + (* OMSuspend *)
        cbn [mp_draws mp_exec1 app existsb fst snd].
        destruct (ms_suspend W H fails (s_mp s) ws now (s_calls s)) as [[m2 e2] c2] eqn:Es.
        cbn [existsb fst snd]. rewrite orb_false_r.
        pose proof (single_suspend_trans W H fails (s_mp s) ws now (s_calls s) CI) as T.
        cbn [MultiSpec.mp_run mp_exec1] in T |- *. rewrite Es in T |- *. exact T.
      + (* OMClear *)
        cbn [mp_draws mp_run mp_exec1 app existsb].
        pose proof (ms_clear_trans W H fails (s_mp s) (s_calls s) CI) as T. unfold fst4 in T.
        destruct (ms_clear W H fails (s_mp s) (s_calls s)) as [[[m2 e] c'] ok]. exact T.
      + cbn. apply MTrans_same; auto; repeat split.
  Qed.
End ReapFlag.

Section ReapFlag2.
  Variable W H : N.
  Variable fails : N -> bool.
  Local Notation step_sys := (step_sys W H fails).
  Local Notation op_reaps := (op_reaps W H fails).

  Lemma nonstruct_sim_flag s a now o : MInv s -> Refines s a -> op_ok s o = true -> structural o = false ->
    MInv (step_sys s now o) /\ Refines (step_sys s now o) (a_maybe_reap (op_reaps s now o) a).
  Proof.
    intros MI RF Hk Hs.
    pose proof (nonstruct_trans_flag W H fails s now o MI Hk Hs) as T.
    destruct (step_mp W H fails s now o) as [Emp _]. cbn [fst] in Emp. rewrite <- Emp in T.
    apply (trans_sim s (step_sys s now o) a _ MI RF); [|exact T].
    apply step_bars_pres. exact Hs.
  Qed.

  (** C02_order_step with the reap flag COMPUTED from the call: [op_reaps] = one of the
      MultiState::draw calls the call makes is attempted *)
  Theorem step_sim_flag s a now o : MInv s -> Refines s a -> op_ok s o = true ->
    MInv (step_sys s now o) /\ Refines (step_sys s now o) (a_step (op_reaps s now o) a o).
  Proof.
    intros MI RF Hk. destruct (structural o) eqn:Hs.
    - destruct o; try discriminate Hs.
      + (* drop *)
        assert (Ha : alive s b = true) by (eapply op_ok_alive; eauto; reflexivity).
        assert (Hk2 : op_ok s (OFinish b (b_on_finish (get_bar s b))) = true) by (unfold op_ok; cbn; rewrite Ha; reflexivity).
        assert (Efl : op_reaps s now (ODrop b)
                      = if finished (get_bar s b) then false else op_reaps s now (OFinish b (b_on_finish (get_bar s b)))).
        { unfold MultiLatest.op_reaps, step_draws. cbn [op_actions]. rewrite mp_draws_app.
          destruct (finished (get_bar s b)).
          - cbn [mp_draws mp_run app]. destruct (b_target (get_bar s b)); reflexivity.
          - destruct (mp_run W H fails now (s_mp s) (s_calls s) (finish_actions W s b (b_on_finish (get_bar s b)))) as [[m1 e1] c1].
            destruct (b_target (get_bar s b)); cbn [mp_draws mp_exec1 app]; rewrite app_nil_r; reflexivity. }
        rewrite Efl. unfold MultiSpec.step_sys. cbn [step fst a_step]. unfold bar_drop.
        destruct (finished (get_bar s b)) eqn:Hf.
        * cbn [fst a_maybe_reap]. apply mark_sim; assumption.
        * destruct (nonstruct_sim_flag s a now (OFinish b (b_on_finish (get_bar s b))) MI RF Hk2 eq_refl) as (MI1 & RF1).
          pose proof (step_bars_pres W H fails s now (OFinish b (b_on_finish (get_bar s b))) eq_refl) as BP.
          unfold MultiSpec.step_sys in MI1, RF1, BP. cbn [step fst] in MI1, RF1, BP.
          destruct (bar_finish W H fails s b (b_on_finish (get_bar s b)) now) as [s1 e]. cbn [fst] in *.
          apply mark_sim; auto. destruct (BP b) as [-> _]. exact Ha.
      + (* insert: no draw *)
        assert (Efl : op_reaps s now (OInsert loc b) = false).
        { unfold MultiLatest.op_reaps, step_draws. cbn [op_actions].
          destruct (b_target (get_bar s b)); [| |reflexivity];
            (match goal with |- context [match ?x with Some l => _ | None => _ end] => destruct x as [l|] end; [|reflexivity];
             match goal with |- context [ms_insert (s_mp s) ?l0] => destruct (ms_insert (s_mp s) l0) as [[m1 idx]|] eqn:Ei; [|reflexivity] end;
             reflexivity). }
        rewrite Efl.
        cbn [a_step a_maybe_reap].
        pose proof Hk as Hk'. unfold op_ok in Hk'. cbn [op_bar] in Hk'.
        apply andb_prop in Hk'. destruct Hk' as [Ha Href].
        destruct (is_member s b) eqn:Hnm.
        { (* already a member: no effect (fix bee77c9) *)
          unfold step_sys. cbn [step]. destruct (is_member_target s b Hnm) as [i0 Ht0]. rewrite Ht0. cbn [fst].
          split; [exact MI|]. cbn [a_struct]. rewrite a_ins_member; [destruct a; exact RF|].
          apply (rf_alive s a RF b Ha Hnm). }
        assert (Hloc : exists l, loc_of s loc = Some l /\
                  (forall r, (loc = BAfter r \/ loc = BBefore r) -> In (slot_of s r) (ms_order (s_mp s))
                             /\ (l = LAfter (slot_of s r) \/ l = LBefore (slot_of s r)))).
        { destruct loc as [|p|p|r|r]; cbn [loc_of]; try (eexists; split; [reflexivity|]; intros r [Hc|Hc]; discriminate).
          - apply andb_prop in Href. destruct Href as [Har Hmr]. destruct (is_member_target s r Hmr) as [i Hi].
            rewrite Hi. eexists; split; [reflexivity|]. intros r' [Hc|Hc]; [|discriminate]. injection Hc as <-.
            destruct (slot_of_target s r i Hi) as [-> _]. split; [eapply (mi_alive s MI); eauto | auto].
          - apply andb_prop in Href. destruct Href as [Har Hmr]. destruct (is_member_target s r Hmr) as [i Hi].
            rewrite Hi. eexists; split; [reflexivity|]. intros r' [Hc|Hc]; [discriminate|]. injection Hc as <-.
            destruct (slot_of_target s r i Hi) as [-> _]. split; [eapply (mi_alive s MI); eauto | auto]. }
        destruct Hloc as (l & Hloc & Hrefs).
        assert (Hins : exists m1 idx, ms_insert (s_mp s) l = Some (m1, idx)).
        { unfold ms_insert. destruct (ms_free (s_mp s)) as [|i fr];
          (destruct loc as [|p|p|r|r]; cbn [loc_of] in Hloc;
           [ injection Hloc as <-; eexists; eexists; reflexivity
           | injection Hloc as <-; eexists; eexists; reflexivity
           | injection Hloc as <-; eexists; eexists; reflexivity
           | destruct (Hrefs r (or_introl eq_refl)) as [Hin [Hl|Hl]]; subst l;
             cbn [ms_order set_ms_free set_ms_members]; destruct (posN_In _ _ Hin) as [q ->]; eexists; eexists; reflexivity
           | destruct (Hrefs r (or_intror eq_refl)) as [Hin [Hl|Hl]]; subst l;
             cbn [ms_order set_ms_free set_ms_members]; destruct (posN_In _ _ Hin) as [q ->]; eexists; eexists; reflexivity ]). }
        destruct Hins as (m1 & idx & Hins).
        pose proof (insert_sim s a loc b l m1 idx MI RF Hk Hnm Hloc Hins) as Hsim. cbn zeta in Hsim.
        unfold step_sys. cbn [step]. fold (loc_of s loc). rewrite Hloc, Hins.
        unfold bar_set_target. change (get_bar (set_s_mp s m1) b) with (get_bar s b).
        unfold is_member in Hnm. destruct (b_target (get_bar s b)); try discriminate Hnm; cbn [fst]; exact Hsim.
      + (* remove *)
        assert (Ha : alive s b = true) by (eapply op_ok_alive; eauto; reflexivity).
        unfold MultiSpec.step_sys, MultiLatest.op_reaps, step_draws. cbn [step a_step op_actions].
        destruct (b_target (get_bar s b)) as [|tg|idx] eqn:Ht.
        * cbn [fst a_maybe_reap a_struct mp_draws existsb]. split; [exact MI|].
          rewrite filter_neq_notin; [destruct a; exact RF|].
          intros Hin. pose proof (rf_member s a RF b Hin) as Hm. unfold is_member in Hm. rewrite Ht in Hm. discriminate.
        * cbn [fst a_maybe_reap a_struct mp_draws existsb]. split; [exact MI|].
          rewrite filter_neq_notin; [destruct a; exact RF|].
          intros Hin. pose proof (rf_member s a RF b Hin) as Hm. unfold is_member in Hm. rewrite Ht in Hm. discriminate.
        * destruct (remove_sim s a b idx MI RF Ha Ht) as [MI1 RF1]. cbn zeta in MI1, RF1.
          set (s1 := set_s_mp (upd_bar s b (fun x => set_b_target x THidden)) (ms_remove_idx (s_mp s) idx)) in *.
          cbn [s_mp upd_bar set_s_bars s_calls mp_draws mp_exec1 app].
          pose proof (ms_draw_trans W H fails (s_mp s1) true None now (s_calls s) (MInv_core s1 MI1)) as T.
          unfold fst4 in T. unfold s1 in T at 2 3. cbn [s_mp set_s_mp] in T.
          destruct (ms_draw W H fails (ms_remove_idx (s_mp s) idx) true None now (s_calls s)) as [[[m2 e] c'] ok].
          cbn [fst snd existsb] in *. rewrite orb_false_r.
          eapply (trans_sim s1 _ _ _ MI1 RF1); [|exact T]. apply bars_pres_refl. reflexivity.
    - destruct (nonstruct_sim_flag s a now o MI RF Hk Hs) as (MI1 & RF1). split; [exact MI1|].
      replace (a_step (op_reaps s now o) a o) with (a_maybe_reap (op_reaps s now o) a); [exact RF1|].
      unfold a_step. rewrite a_struct_nonstruct by exact Hs. destruct o; try reflexivity. discriminate Hs.
  Qed.
End ReapFlag2.
