(** C19 (b): LineType::wrapped_height computes its ceiling in f64,
      usize::max((console_width as f64 / width as f64).ceil() as usize, 1)
    (src/draw_target.rs); the model (Text.wrapped_height) uses the integer ceiling.  For operands
    below 2^53 (exact in binary64) the two agree: GeomCeilProofs (Flocq binary64). *)
From Coq Require Import ZArith NArith Reals Lia.
From Flocq Require Import Core.
From IndModel Require Import Text.
From IndProofs Require Import GeomCeilProofs.
Local Open Scope N_scope.

Lemma wrapped_height_is_f64_ceiling (l : line) (W : N) :
  lwidth l < 2^53 -> 1 <= W < 2^53 ->
  wrapped_height l W =
    N.max 1 (Z.to_N (Zceil (round radix2 (FLT_exp (-1074) 53) ZnearestE
                              (IZR (Z.of_N (lwidth l)) / IZR (Z.of_N W))))).
Proof.
  intros Hl HW. unfold wrapped_height. now rewrite wrapped_height_f64_exact.
Qed.
