(** Proofs about model/Tabs.v (C16): the cached implementation model refines the cache-free
    reference for every history; consequences (no TAB, getters, invariant). *)
From IndModel Require Import Base Tabs.
From IndGen Require Import Constants.
From Coq Require Import NArith Lia List Bool.
Open Scope N_scope.

(** ** expansion *)
Lemma tab_spaces_succ w : tab_spaces (N.succ w) = SPACE :: tab_spaces w.
Proof. unfold tab_spaces. rewrite N.iter_succ. reflexivity. Qed.

Lemma tab_spaces_in w x : In x (tab_spaces w) -> x = SPACE.
Proof.
  induction w as [|w IH] using N.peano_ind; [intros []|].
  rewrite tab_spaces_succ. intros [H | H]; [symmetry; exact H | exact (IH H)].
Qed.

Lemma length_tab_spaces w : length (tab_spaces w) = N.to_nat w.
Proof.
  induction w as [|w IH] using N.peano_ind; [reflexivity|].
  rewrite tab_spaces_succ. cbn [length]. rewrite IH. lia.
Qed.

Lemma expand_cons c s w :
  expand (c :: s) w = (if c =? TAB then tab_spaces w else [c]) ++ expand s w.
Proof. reflexivity. Qed.

Lemma expand_app a b w : expand (a ++ b) w = expand a w ++ expand b w.
Proof. unfold expand. apply flat_map_app. Qed.

Lemma expand_notab s w : has_tab s = false -> expand s w = s.
Proof.
  induction s as [|c s IH]; [reflexivity|]. unfold has_tab. cbn [existsb]. intros H.
  apply orb_false_iff in H. destruct H as [Hc Hs]. rewrite expand_cons.
  rewrite N.eqb_sym in Hc. rewrite Hc. cbn [app]. f_equal. apply IH. exact Hs.
Qed.

Lemma expand_no_tab s w : ~ In TAB (expand s w).
Proof.
  induction s as [|c s IH]; [intros []|]. rewrite expand_cons. intros H.
  apply in_app_or in H. destruct H as [H | H]; [| exact (IH H)].
  destruct (c =? TAB) eqn:E.
  - apply tab_spaces_in in H. discriminate H.
  - destruct H as [H | []]. subst c. rewrite N.eqb_refl in E. discriminate.
Qed.

Lemma has_tab_in s : has_tab s = false -> ~ In TAB s.
Proof. intros H. rewrite <- (expand_notab s 0 H). apply expand_no_tab. Qed.

(** ** relation between a TabExpandedString and the original text it stands for *)
Definition tes_rel (w : N) (t : tes) (s : text) : Prop :=
  match t with
  | NoTabs x => x = s /\ has_tab s = false
  | WithTabs o c tw => o = s /\ tw = w /\ (c = None \/ c = Some (expand s w))
  end.

Lemma tes_new_rel s w : tes_rel w (tes_new s w) s.
Proof.
  unfold tes_new. destruct (has_tab s) eqn:E; cbn [tes_rel]; [repeat split; left; reflexivity | split; [reflexivity | exact E]].
Qed.

Lemma tes_set_tw_rel w' w t s : tes_rel w' t s -> tes_rel w (tes_set_tw t w) s.
Proof.
  destruct t as [x | o c tw]; cbn [tes_rel tes_set_tw]; [tauto|].
  intros [Ho [Htw Hc]]. destruct (tw =? w) eqn:E.
  - apply N.eqb_eq in E. cbn [tes_rel]. subst. repeat split. exact Hc.
  - cbn [tes_rel]. repeat split; [exact Ho | left; reflexivity].
Qed.

Lemma tes_expanded_rel w t s : tes_rel w t s ->
  fst (tes_expanded t) = expand s w /\ tes_rel w (snd (tes_expanded t)) s.
Proof.
  destruct t as [x | o c tw]; cbn [tes_rel tes_expanded].
  - intros [Hx Hs]. subst x. cbn [fst snd tes_rel]. rewrite (expand_notab s w Hs). tauto.
  - intros [Ho [Htw Hc]]. subst o tw. destruct c as [e|].
    + destruct Hc as [Hc | Hc]; [discriminate|]. inversion Hc; subst.
      cbn [fst snd tes_rel]. repeat split. right; reflexivity.
    + cbn [fst snd tes_rel]. repeat split. right; reflexivity.
Qed.

(** ** parts, styles *)
Definition part_rel (w : N) (p : part) (q : tpl) : Prop :=
  match p, q with
  | PLit t, TLit s => tes_rel w t s
  | PMsg, TMsg => True
  | PPrefix, TPrefix => True
  | PNewLine, TNewLine => True
  | POpaque, TOpaque => True
  | PKey k, TKey k' => k = k'
  | _, _ => False
  end.
Definition part_self (p : part) (q : tpl) : Prop := exists w, part_rel w p q.

Definition style_rel (w : N) (st : style) (keys : keymap) (t : list tpl) : Prop :=
  s_tw st = w /\ s_keys st = keys /\ Forall2 (part_rel w) (s_parts st) t.
Definition style_self (st : style) (keys : keymap) (t : list tpl) : Prop :=
  s_keys st = keys /\ Forall2 part_self (s_parts st) t.

Lemma part_of_tpl_self q : part_self (part_of_tpl q) q.
Proof.
  exists DEFAULT_TAB_WIDTH. destruct q; cbn [part_of_tpl part_rel]; auto. apply tes_new_rel.
Qed.

Lemma map_part_of_tpl_self t : Forall2 part_self (map part_of_tpl t) t.
Proof. induction t as [|q t IH]; cbn [map]; constructor; [apply part_of_tpl_self | exact IH]. Qed.

Lemma style_new_self keys t : style_self (style_new keys t) keys t.
Proof. split; [reflexivity | apply map_part_of_tpl_self]. Qed.

Lemma style_template_self st t : style_self (style_template st t) (s_keys st) t.
Proof. split; [reflexivity | apply map_part_of_tpl_self]. Qed.

Lemma part_set_tw_rel w p q : part_self p q -> part_rel w (part_set_tw w p) q.
Proof.
  intros [w' H]. destruct p, q; cbn [part_rel part_set_tw] in *; try assumption; try contradiction.
  eapply tes_set_tw_rel; exact H.
Qed.

Lemma style_set_tw_rel st keys t w : style_self st keys t -> style_rel w (style_set_tw st w) keys t.
Proof.
  intros [Hk Hp]. split; [reflexivity|]. split; [exact Hk|]. cbn [style_set_tw s_parts].
  induction Hp as [|p q ps qs Hpq _ IH]; cbn [map]; constructor; [apply part_set_tw_rel; exact Hpq | exact IH].
Qed.

Lemma style_rel_self w st keys t : style_rel w st keys t -> style_self st keys t.
Proof.
  intros [_ [Hk Hp]]. split; [exact Hk|].
  induction Hp as [|p q ps qs Hpq _ IH]; constructor; [exists w; exact Hpq | exact IH].
Qed.

(** ** the simulation relation *)
Definition saved_rel (a : option style) (b : option (keymap * list tpl)) : Prop :=
  match a, b with
  | None, None => True
  | Some st, Some (k, t) => style_self st k t
  | _, _ => False
  end.

Definition R (b : bar) (r : rbar) : Prop :=
  b_tw b = r_tw r
  /\ tes_rel (r_tw r) (b_msg b) (r_msg r)
  /\ tes_rel (r_tw r) (b_prefix b) (r_prefix r)
  /\ style_rel (r_tw r) (b_style b) (r_keys r) (r_tpl r)
  /\ saved_rel (b_saved b) (r_saved r).

Lemma R_init : R bar_init rbar_init.
Proof.
  unfold R, bar_init, rbar_init. cbn [b_tw r_tw b_msg r_msg b_prefix r_prefix b_style r_keys r_tpl b_saved r_saved].
  repeat split; try reflexivity.
  apply (style_set_tw_rel (style_new [] default_tpl) [] default_tpl DEFAULT_TAB_WIDTH (style_new_self _ _)).
Qed.

(** ** rendering *)
Lemma fmt_parts_sim r : forall ps tp, Forall2 (part_rel (r_tw r)) ps tp -> forall f,
  tes_rel (r_tw r) (f_msg f) (r_msg r) -> tes_rel (r_tw r) (f_prefix f) (r_prefix r) ->
  Forall2 (part_rel (r_tw r)) (snd (fmt_parts (r_tw r) (r_keys r) f ps)) tp
  /\ tes_rel (r_tw r) (f_msg (fst (fmt_parts (r_tw r) (r_keys r) f ps))) (r_msg r)
  /\ tes_rel (r_tw r) (f_prefix (fst (fmt_parts (r_tw r) (r_keys r) f ps))) (r_prefix r)
  /\ ref_fmt r tp (f_cur f) (f_lines f) (f_opaque f)
     = (f_cur (fst (fmt_parts (r_tw r) (r_keys r) f ps)),
        f_lines (fst (fmt_parts (r_tw r) (r_keys r) f ps)),
        f_opaque (fst (fmt_parts (r_tw r) (r_keys r) f ps))).
Proof.
  induction 1 as [|p q ps tp Hpq Hrest IH]; intros f Hm Hp.
  - cbn [fmt_parts fst snd ref_fmt]. repeat split; [constructor | assumption | assumption].
  - cbn [fmt_parts].
    destruct (fmt_part (r_tw r) (r_keys r) f p) as [f1 p1] eqn:E1.
    assert (H1 : part_rel (r_tw r) p1 q
                 /\ tes_rel (r_tw r) (f_msg f1) (r_msg r) /\ tes_rel (r_tw r) (f_prefix f1) (r_prefix r)
                 /\ ref_fmt r (q :: tp) (f_cur f) (f_lines f) (f_opaque f)
                    = ref_fmt r tp (f_cur f1) (f_lines f1) (f_opaque f1)).
    { destruct p as [t| | |k| |], q as [s| | |k'| |]; cbn [part_rel] in Hpq; try contradiction;
        cbn [fmt_part] in E1.
      - destruct (tes_expanded_rel _ _ _ Hpq) as [He Ht].
        destruct (tes_expanded t) as [e t']. cbn [fst snd] in He, Ht. inversion E1; subst f1 p1.
        cbn [part_rel f_msg f_prefix f_cur f_lines f_opaque ref_fmt]. rewrite He. auto.
      - destruct (tes_expanded_rel _ _ _ Hm) as [He Ht].
        destruct (tes_expanded (f_msg f)) as [e t']. cbn [fst snd] in He, Ht. inversion E1; subst f1 p1.
        cbn [part_rel f_msg f_prefix f_cur f_lines f_opaque ref_fmt]. rewrite He. auto.
      - destruct (tes_expanded_rel _ _ _ Hp) as [He Ht].
        destruct (tes_expanded (f_prefix f)) as [e t']. cbn [fst snd] in He, Ht. inversion E1; subst f1 p1.
        cbn [part_rel f_msg f_prefix f_cur f_lines f_opaque ref_fmt]. rewrite He. auto.
      - inversion E1; subst f1 p1 k'.
        cbn [part_rel f_msg f_prefix f_cur f_lines f_opaque ref_fmt]. auto.
      - inversion E1; subst f1 p1. unfold push_line.
        cbn [part_rel f_msg f_prefix f_cur f_lines f_opaque ref_fmt]. auto.
      - inversion E1; subst f1 p1.
        cbn [part_rel f_msg f_prefix f_cur f_lines f_opaque ref_fmt]. auto. }
    destruct H1 as [Hp1 [Hm1 [Hx1 Href]]].
    specialize (IH f1 Hm1 Hx1).
    destruct (fmt_parts (r_tw r) (r_keys r) f1 ps) as [f2 r2]. cbn [fst snd] in *.
    destruct IH as [IHa [IHb [IHc IHd]]].
    repeat split; [constructor; assumption | assumption | assumption | rewrite Href; exact IHd].
Qed.

Lemma format_state_sim b r : R b r ->
  R (fst (format_state b)) r /\ snd (format_state b) = ref_render r.
Proof.
  intros [Htw [Hm [Hp [[Hstw [Hsk Hsp]] Hsv]]]].
  unfold format_state, ref_render. rewrite Hstw, Hsk.
  pose proof (fmt_parts_sim r _ _ Hsp (mkfmt (b_msg b) (b_prefix b) [] [] false) Hm Hp) as H.
  cbn [f_msg f_prefix f_cur f_lines f_opaque] in H.
  destruct (fmt_parts (r_tw r) (r_keys r) (mkfmt (b_msg b) (b_prefix b) [] [] false) (s_parts (b_style b))) as [f ps'].
  cbn [fst snd] in H. destruct H as [Ha [Hb [Hc Hd]]]. rewrite Hd.
  destruct (f_cur f) as [|c cur] eqn:Ec.
  - cbn [fst snd]. split; [| reflexivity].
    unfold R. cbn [b_tw b_msg b_prefix b_style b_saved]. repeat split; assumption.
  - unfold push_line. cbn [fst snd f_msg f_prefix f_lines f_opaque]. rewrite Ec. split; [| reflexivity].
    unfold R. cbn [b_tw b_msg b_prefix b_style b_saved]. repeat split; assumption.
Qed.

Lemma draw_sim b r : R b r ->
  R (fst (draw b)) r /\ snd (draw b) = ODraw (ref_render r).
Proof.
  intros H. destruct (format_state_sim b r H) as [H1 H2]. unfold draw.
  destruct (format_state b) as [b' l]. cbn [fst snd] in *. subst l. auto.
Qed.

(** ** every operation preserves the relation and produces the same output *)
Lemma bar_set_tw_R b r n : R b r ->
  R (bar_set_tw b n) (mkrbar n (r_msg r) (r_prefix r) (r_keys r) (r_tpl r) (r_saved r)).
Proof.
  intros [Htw [Hm [Hp [Hs Hsv]]]]. unfold R, bar_set_tw.
  cbn [b_tw b_msg b_prefix b_style b_saved r_tw r_msg r_prefix r_keys r_tpl r_saved].
  split; [reflexivity|]. split; [eapply tes_set_tw_rel; exact Hm|].
  split; [eapply tes_set_tw_rel; exact Hp|]. split; [| exact Hsv].
  exact (style_set_tw_rel _ _ _ n (style_rel_self _ _ _ _ Hs)).
Qed.

Lemma bar_set_style_R b r st keys t : R b r -> style_self st keys t ->
  R (bar_set_style b st) (mkrbar (r_tw r) (r_msg r) (r_prefix r) keys t (r_saved r)).
Proof.
  intros [Htw [Hm [Hp [Hs Hsv]]]] Hst. unfold R, bar_set_style.
  cbn [b_tw b_msg b_prefix b_style b_saved r_tw r_msg r_prefix r_keys r_tpl r_saved].
  rewrite Htw. repeat split; try assumption;
    destruct (style_set_tw_rel _ _ _ (r_tw r) Hst) as [H1 [H2 H3]]; assumption.
Qed.

Lemma bar_set_msg_R b r s : R b r ->
  R (bar_set_msg b s) (mkrbar (r_tw r) s (r_prefix r) (r_keys r) (r_tpl r) (r_saved r)).
Proof.
  intros [Htw [Hm [Hp [Hs Hsv]]]]. unfold R, bar_set_msg.
  cbn [b_tw b_msg b_prefix b_style b_saved r_tw r_msg r_prefix r_keys r_tpl r_saved].
  rewrite Htw. split; [reflexivity|]. split; [apply tes_new_rel|]. split; [exact Hp|]. split; [exact Hs | exact Hsv].
Qed.

Lemma bar_set_prefix_R b r s : R b r ->
  R (bar_set_prefix b s) (mkrbar (r_tw r) (r_msg r) s (r_keys r) (r_tpl r) (r_saved r)).
Proof.
  intros [Htw [Hm [Hp [Hs Hsv]]]]. unfold R, bar_set_prefix.
  cbn [b_tw b_msg b_prefix b_style b_saved r_tw r_msg r_prefix r_keys r_tpl r_saved].
  rewrite Htw. split; [reflexivity|]. split; [exact Hm|]. split; [apply tes_new_rel|]. split; [exact Hs | exact Hsv].
Qed.

Lemma step_sim b r o : R b r ->
  R (fst (step b o)) (fst (ref_step r o)) /\ snd (step b o) = snd (ref_step r o).
Proof.
  intros HR. destruct o as [n|n|keys t|t| | |s|s|s|s|s|s| |s| | ]; cbn [step ref_step].
  - (* SetTabWidth *) apply draw_sim. apply bar_set_tw_R. exact HR.
  - cbn [fst snd]. split; [apply bar_set_tw_R; exact HR | reflexivity].
  - cbn [fst snd]. split; [apply bar_set_style_R; [exact HR | apply style_new_self] | reflexivity].
  - cbn [fst snd]. split; [| reflexivity].
    assert (Hk : s_keys (b_style b) = r_keys r) by (destruct HR as [_ [_ [_ [[_ [Hk _]] _]]]]; exact Hk).
    rewrite <- Hk. apply bar_set_style_R; [exact HR | apply style_template_self].
  - (* SaveStyle *) cbn [fst snd]. split; [| reflexivity].
    destruct HR as [Htw [Hm [Hp [Hs Hsv]]]]. unfold R.
    cbn [b_tw b_msg b_prefix b_style b_saved r_tw r_msg r_prefix r_keys r_tpl r_saved saved_rel].
    split; [exact Htw|]. split; [exact Hm|]. split; [exact Hp|]. split; [exact Hs|].
    eapply style_rel_self. exact Hs.
  - (* RestoreStyle *)
    pose proof HR as [Htw [Hm [Hp [Hs Hsv]]]].
    destruct (b_saved b) as [st|] eqn:Eb, (r_saved r) as [[k t]|] eqn:Er; cbn [saved_rel] in Hsv; try contradiction.
    + cbn [fst snd]. split; [| reflexivity]. rewrite <- Er. apply bar_set_style_R; assumption.
    + cbn [fst snd]. split; [exact HR | reflexivity].
  - apply draw_sim. apply bar_set_msg_R. exact HR.
  - apply draw_sim. apply bar_set_prefix_R. exact HR.
  - cbn [fst snd]. split; [apply bar_set_msg_R; exact HR | reflexivity].
  - cbn [fst snd]. split; [apply bar_set_prefix_R; exact HR | reflexivity].
  - apply draw_sim. apply bar_set_msg_R. exact HR.
  - apply draw_sim. apply bar_set_msg_R. exact HR.
  - (* Tick *)
    destruct (draw_sim b r HR) as [H1 H2]. destruct r; split; assumption.
  - (* Println *)
    destruct (format_state_sim b r HR) as [H1 H2].
    destruct (format_state b) as [b' l]. cbn [fst snd] in *. subst l. split; [exact H1 | reflexivity].
  - (* GetMessage *)
    destruct HR as [Htw [Hm [Hp [Hs Hsv]]]].
    destruct (tes_expanded_rel _ _ _ Hm) as [He Ht].
    destruct (tes_expanded (b_msg b)) as [e m']. cbn [fst snd] in *. subst e.
    split; [| reflexivity]. unfold R. cbn [b_tw b_msg b_prefix b_style b_saved].
    split; [exact Htw|]. split; [exact Ht|]. split; [exact Hp|]. split; [exact Hs | exact Hsv].
  - (* GetPrefix *)
    destruct HR as [Htw [Hm [Hp [Hs Hsv]]]].
    destruct (tes_expanded_rel _ _ _ Hp) as [He Ht].
    destruct (tes_expanded (b_prefix b)) as [e m']. cbn [fst snd] in *. subst e.
    split; [| reflexivity]. unfold R. cbn [b_tw b_msg b_prefix b_style b_saved].
    split; [exact Htw|]. split; [exact Hm|]. split; [exact Ht|]. split; [exact Hs | exact Hsv].
Qed.

Lemma run_sim ops : forall b r, R b r ->
  R (fst (run b ops)) (fst (ref_run r ops)) /\ snd (run b ops) = snd (ref_run r ops).
Proof.
  induction ops as [|o ops IH]; intros b r HR; cbn [run ref_run]; [split; [exact HR | reflexivity]|].
  destruct (step_sim b r o HR) as [H1 H2].
  destruct (step b o) as [b1 x], (ref_step r o) as [r1 y]. cbn [fst snd] in *. subst y.
  destruct (IH b1 r1 H1) as [H3 H4].
  destruct (run b1 ops) as [b2 xs], (ref_run r1 ops) as [r2 ys]. cbn [fst snd] in *. subst ys.
  split; [exact H3 | reflexivity].
Qed.

(** For every history the implementation model and the reference produce the same draws
    and getter results. *)
Theorem refines ops : snd (run bar_init ops) = snd (ref_run rbar_init ops).
Proof. exact (proj2 (run_sim ops _ _ R_init)). Qed.

Theorem refines_state ops : R (fst (run bar_init ops)) (fst (ref_run rbar_init ops)).
Proof. exact (proj1 (run_sim ops _ _ R_init)). Qed.

(** ** the cache invariant, stated on the implementation model alone *)
Definition tes_ok (w : N) (t : tes) : Prop :=
  match t with
  | NoTabs s => has_tab s = false
  | WithTabs o c tw => tw = w /\ (c = None \/ c = Some (expand o w))
  end.
Definition part_ok (w : N) (p : part) : Prop :=
  match p with PLit t => tes_ok w t | _ => True end.
Definition inv (b : bar) : Prop :=
  tes_ok (b_tw b) (b_msg b) /\ tes_ok (b_tw b) (b_prefix b)
  /\ s_tw (b_style b) = b_tw b /\ Forall (part_ok (b_tw b)) (s_parts (b_style b)).

Lemma tes_rel_ok w t s : tes_rel w t s -> tes_ok w t.
Proof.
  destruct t as [x | o c tw]; cbn [tes_rel tes_ok]; [intros [Hx Hs]; subst; exact Hs|].
  intros [Ho [Htw Hc]]. subst. tauto.
Qed.

Lemma R_inv b r : R b r -> inv b.
Proof.
  intros [Htw [Hm [Hp [[Hstw [_ Hsp]] _]]]]. unfold inv. rewrite Htw.
  repeat split; [eapply tes_rel_ok; exact Hm | eapply tes_rel_ok; exact Hp | exact Hstw |].
  induction Hsp as [|p q ps qs Hpq _ IH]; constructor; [| exact IH].
  destruct p, q; cbn [part_rel part_ok] in *; try exact I; try contradiction.
  eapply tes_rel_ok; exact Hpq.
Qed.

Theorem inv_reachable ops : inv (fst (run bar_init ops)).
Proof. eapply R_inv. apply refines_state. Qed.

(** ** no TAB in anything the reference renders *)
Definition notab (s : text) : Prop := ~ In TAB s.

Lemma split_nl_in s : forall l x, In l (split_nl s) -> In x l -> In x s.
Proof.
  induction s as [|c s IH]; intros l x Hl Hx.
  - cbn [split_nl] in Hl. destruct Hl as [Hl | []]. subst l. exact Hx.
  - cbn [split_nl] in Hl. destruct (c =? NL).
    + destruct Hl as [Hl | Hl]; [subst l; destruct Hx | right; eapply IH; eassumption].
    + destruct (split_nl s) as [|l0 ls] eqn:E.
      * destruct Hl as [Hl | []]. subst l. destruct Hx as [Hx | []]. left; exact Hx.
      * destruct Hl as [Hl | Hl].
        -- subst l. destruct Hx as [Hx | Hx]; [left; exact Hx | right]. apply (IH l0 x); [left; reflexivity | exact Hx].
        -- right. apply (IH l x); [right; exact Hl | exact Hx].
Qed.

Lemma split_nl_notab s : notab s -> Forall notab (split_nl s).
Proof.
  intros H. apply Forall_forall. intros l Hl Hx. apply H. eapply split_nl_in; eassumption.
Qed.

Lemma notab_app a b : notab a -> notab b -> notab (a ++ b).
Proof. unfold notab. intros Ha Hb H. apply in_app_or in H. tauto. Qed.

Lemma chunks_text_notab w chunks : notab (chunks_text w chunks).
Proof.
  unfold chunks_text. induction chunks as [|c cs IH]; cbn [map concat]; [intros []|].
  apply notab_app; [apply expand_no_tab | exact IH].
Qed.

Lemma key_text_notab w m k : notab (key_text w m k).
Proof. unfold key_text. destruct (key_lookup k m); [apply chunks_text_notab | intros []]. Qed.

Lemma ref_fmt_notab r : forall ps cur lines opq,
  notab cur -> Forall notab lines ->
  let '(cur', lines', _) := ref_fmt r ps cur lines opq in notab cur' /\ Forall notab lines'.
Proof.
  induction ps as [|p ps IH]; intros cur lines opq Hc Hl; cbn [ref_fmt]; [split; assumption|].
  destruct p as [s| | |k| |].
  - apply IH; [apply notab_app; [exact Hc | apply expand_no_tab] | exact Hl].
  - apply IH; [apply notab_app; [exact Hc | apply expand_no_tab] | exact Hl].
  - apply IH; [apply notab_app; [exact Hc | apply expand_no_tab] | exact Hl].
  - apply IH; [apply notab_app; [exact Hc | apply key_text_notab] | exact Hl].
  - apply IH; [intros [] | apply Forall_app; split; [exact Hl | apply split_nl_notab; exact Hc]].
  - apply IH; assumption.
Qed.

Lemma ref_render_notab r : match ref_render r with Some ls => Forall notab ls | None => True end.
Proof.
  unfold ref_render.
  pose proof (ref_fmt_notab r (r_tpl r) [] [] false (fun H => H) (Forall_nil _)) as H.
  destruct (ref_fmt r (r_tpl r) [] [] false) as [[cur lines] opq]. destruct H as [Hc Hl].
  destruct opq; [exact I|]. destruct cur as [|c cur]; [exact Hl|].
  apply Forall_app; split; [exact Hl | apply split_nl_notab; exact Hc].
Qed.

(* println text is not a bar line; it is part of the recorded draw, so it must be TAB-free
   for the statement "no TAB in the draw" *)
Definition op_ok (o : op) : Prop :=
  match o with Println s => has_tab s = false | _ => True end.
Definition out_notab (x : out) : Prop :=
  match x with
  | ODraw (Some ls) => Forall notab ls
  | ODraw None => True
  | OGot s => notab s
  | ONone => True
  end.

Lemma ref_step_notab r o : op_ok o -> out_notab (snd (ref_step r o)).
Proof.
  intros Ho. destruct o; cbn [ref_step snd out_notab]; try exact I;
    try apply ref_render_notab; try apply expand_no_tab.
  - destruct (r_saved r) as [[k t]|]; exact I.
  - pose proof (ref_render_notab r) as H. destruct (ref_render r); [| exact I].
    constructor; [apply has_tab_in; exact Ho | exact H].
Qed.

Lemma ref_run_notab ops : forall r, Forall op_ok ops -> Forall out_notab (snd (ref_run r ops)).
Proof.
  induction ops as [|o ops IH]; intros r Hf; cbn [ref_run]; [constructor|].
  inversion Hf as [|? ? Ho Hr]; subst.
  pose proof (ref_step_notab r o Ho) as H1.
  destruct (ref_step r o) as [r1 x]. specialize (IH r1 Hr).
  destruct (ref_run r1 ops) as [r2 xs]. cbn [snd] in *. constructor; assumption.
Qed.

Theorem no_tab ops : Forall op_ok ops -> Forall out_notab (snd (run bar_init ops)).
Proof. intros H. rewrite refines. apply ref_run_notab. exact H. Qed.

(** ** closed forms *)
Lemma ref_run_app a : forall r b,
  ref_run r (a ++ b) =
  (fst (ref_run (fst (ref_run r a)) b), snd (ref_run r a) ++ snd (ref_run (fst (ref_run r a)) b)).
Proof.
  induction a as [|o a IH]; intros r b; cbn [app ref_run fst snd].
  - destruct (ref_run r b); reflexivity.
  - destruct (ref_step r o) as [r1 x]. rewrite IH.
    destruct (ref_run r1 a) as [r2 xs]. cbn [fst snd]. reflexivity.
Qed.

Lemma ref_state_closed ops : forall r,
  r_tw (fst (ref_run r ops)) = last_tw (r_tw r) ops
  /\ r_msg (fst (ref_run r ops)) = last_msg (r_msg r) ops
  /\ r_prefix (fst (ref_run r ops)) = last_prefix (r_prefix r) ops.
Proof.
  induction ops as [|o ops IH]; intros r; cbn [ref_run]; [auto|].
  destruct (ref_step r o) as [r1 x] eqn:E. specialize (IH r1).
  destruct (ref_run r1 ops) as [r2 xs]. cbn [fst] in *.
  assert (H : r_tw r1 = last_tw (r_tw r) [o] /\ r_msg r1 = last_msg (r_msg r) [o]
              /\ r_prefix r1 = last_prefix (r_prefix r) [o]).
  { destruct o; cbn [ref_step] in E; try (inversion E; subst; cbn; auto; fail).
    destruct (r_saved r) as [[k t]|]; inversion E; subst; cbn; auto. }
  destruct H as [H1 [H2 H3]]. destruct IH as [I1 [I2 I3]].
  rewrite I1, I2, I3, H1, H2, H3. destruct o; cbn; auto.
Qed.

(** message() / prefix() after any history: the last text given, expanded with the last width *)
Theorem getters ops :
  snd (run bar_init (ops ++ [GetMessage]))
  = snd (run bar_init ops) ++ [OGot (expand (last_msg [] ops) (last_tw DEFAULT_TAB_WIDTH ops))]
  /\ snd (run bar_init (ops ++ [GetPrefix]))
  = snd (run bar_init ops) ++ [OGot (expand (last_prefix [] ops) (last_tw DEFAULT_TAB_WIDTH ops))].
Proof.
  rewrite !refines, !ref_run_app. cbn [snd ref_run ref_step].
  destruct (ref_state_closed ops rbar_init) as [H1 [H2 H3]].
  cbn [rbar_init r_tw r_msg r_prefix] in H1, H2, H3. rewrite H1, H2, H3. split; reflexivity.
Qed.

(** a draw after any history shows every text expanded from its original with the current
    width: it is the reference rendering of the state the history defines *)
Theorem draw_consistent ops :
  let r := fst (ref_run rbar_init ops) in
  snd (run bar_init (ops ++ [Tick])) = snd (run bar_init ops) ++ [ODraw (ref_render r)]
  /\ r_tw r = last_tw DEFAULT_TAB_WIDTH ops
  /\ r_msg r = last_msg [] ops
  /\ r_prefix r = last_prefix [] ops.
Proof.
  cbn zeta. rewrite !refines, !ref_run_app. cbn [snd ref_run ref_step].
  destruct (ref_state_closed ops rbar_init) as [H1 [H2 H3]].
  cbn [rbar_init r_tw r_msg r_prefix] in H1, H2, H3.
  split; [| auto]. destruct (fst (ref_run rbar_init ops)); reflexivity.
Qed.

(** the width given to the expansion: every TAB becomes exactly [w] spaces, nothing else changes *)
Fixpoint ntabs (s : text) : nat :=
  match s with [] => 0%nat | c :: r => ((if N.eqb c TAB then 1 else 0) + ntabs r)%nat end.

Lemma expand_length s w :
  (length (expand s w) + ntabs s = length s + ntabs s * N.to_nat w)%nat.
Proof.
  induction s as [|c s IH]; [reflexivity|]. rewrite expand_cons, app_length. cbn [ntabs length].
  destruct (c =? TAB); [rewrite length_tab_spaces | cbn [length]]; lia.
Qed.
