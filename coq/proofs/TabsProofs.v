(** Proofs about model/Tabs.v (C16): the cached implementation model refines the cache-free
    reference for every history and every environment; consequences (no TAB, getters,
    invariant).  The statement vocabulary ([notab], [inv], [out_notab], [op_ok], [env_ok], ...)
    is defined in model/Tabs.v. *)
From IndModel Require Import Base Tabs.
From IndModel Require Padded.
From IndGen Require Import Constants.
From Coq Require Import NArith Lia List Bool.
Open Scope N_scope.

(** ** expansion *)
Lemma tab_spaces_succ w : tab_spaces (N.succ w) = SPACE :: tab_spaces w.
Proof. unfold tab_spaces. rewrite N.iter_succ. reflexivity. Qed.

Lemma tab_spaces_in w x : In x (tab_spaces w) -> x = SPACE.
Proof.
  induction w as [|w IH] using N.peano_ind; [intros []|].
  rewrite tab_spaces_succ. intros [H | H]; [symmetry; exact H | exact (IH H)].
Qed.

Lemma length_tab_spaces w : length (tab_spaces w) = N.to_nat w.
Proof.
  induction w as [|w IH] using N.peano_ind; [reflexivity|].
  rewrite tab_spaces_succ. cbn [length]. rewrite IH. lia.
Qed.

Lemma expand_cons c s w :
  expand (c :: s) w = (if c =? TAB then tab_spaces w else [c]) ++ expand s w.
Proof. reflexivity. Qed.

Lemma expand_app a b w : expand (a ++ b) w = expand a w ++ expand b w.
Proof. unfold expand. apply flat_map_app. Qed.

Lemma expand_notab s w : has_tab s = false -> expand s w = s.
Proof.
  induction s as [|c s IH]; [reflexivity|]. unfold has_tab. cbn [existsb]. intros H.
  apply orb_false_iff in H. destruct H as [Hc Hs]. rewrite expand_cons.
  rewrite N.eqb_sym in Hc. rewrite Hc. cbn [app]. f_equal. apply IH. exact Hs.
Qed.

Lemma expand_no_tab s w : notab (expand s w).
Proof.
  unfold notab.
  induction s as [|c s IH]; [intros []|]. rewrite expand_cons. intros H.
  apply in_app_or in H. destruct H as [H | H]; [| exact (IH H)].
  destruct (c =? TAB) eqn:E.
  - apply tab_spaces_in in H. discriminate H.
  - destruct H as [H | []]. subst c. rewrite N.eqb_refl in E. discriminate.
Qed.

Lemma has_tab_in s : has_tab s = false -> notab s.
Proof. intros H. rewrite <- (expand_notab s 0 H). apply expand_no_tab. Qed.

Lemma notab_has_tab s : notab s -> has_tab s = false.
Proof.
  unfold notab, has_tab. intros H. destruct (existsb (N.eqb TAB) s) eqn:E; [| reflexivity].
  apply existsb_exists in E. destruct E as [x [Hx Ex]]. apply N.eqb_eq in Ex. subst x. contradiction.
Qed.

(** ** relation between a TabExpandedString and the original text it stands for *)
Definition tes_rel (w : N) (t : tes) (s : text) : Prop :=
  match t with
  | NoTabs x => x = s /\ has_tab s = false
  | WithTabs o c tw => o = s /\ tw = w /\ (c = None \/ c = Some (expand s w))
  end.

Lemma tes_new_rel s w : tes_rel w (tes_new s w) s.
Proof.
  unfold tes_new. destruct (has_tab s) eqn:E; cbn [tes_rel]; [repeat split; left; reflexivity | split; [reflexivity | exact E]].
Qed.

Lemma tes_set_tw_rel w' w t s : tes_rel w' t s -> tes_rel w (tes_set_tw t w) s.
Proof.
  destruct t as [x | o c tw]; cbn [tes_rel tes_set_tw]; [tauto|].
  intros [Ho [Htw Hc]]. destruct (tw =? w) eqn:E.
  - apply N.eqb_eq in E. cbn [tes_rel]. subst. repeat split. exact Hc.
  - cbn [tes_rel]. repeat split; [exact Ho | left; reflexivity].
Qed.

Lemma tes_expanded_rel w t s : tes_rel w t s ->
  fst (tes_expanded t) = expand s w /\ tes_rel w (snd (tes_expanded t)) s.
Proof.
  destruct t as [x | o c tw]; cbn [tes_rel tes_expanded].
  - intros [Hx Hs]. subst x. cbn [fst snd tes_rel]. rewrite (expand_notab s w Hs). tauto.
  - intros [Ho [Htw Hc]]. subst o tw. destruct c as [e|].
    + destruct Hc as [Hc | Hc]; [discriminate|]. inversion Hc; subst.
      cbn [fst snd tes_rel]. repeat split. right; reflexivity.
    + cbn [fst snd tes_rel]. repeat split. right; reflexivity.
Qed.

(** ** parts, styles *)
Definition part_rel (w : N) (p : part) (q : tpl) : Prop :=
  match p, q with
  | PLit t, TLit s => tes_rel w t s
  | PNewLine, TNewLine => True
  | PPh h, TPh h' => h = h'
  | _, _ => False
  end.
Definition part_self (p : part) (q : tpl) : Prop := exists w, part_rel w p q.

Definition style_rel (w : N) (st : style) (keys : keymap) (g : glyphs) (t : list tpl) : Prop :=
  s_tw st = w /\ s_keys st = keys /\ s_gl st = g /\ Forall2 (part_rel w) (s_parts st) t.
Definition style_self (st : style) (keys : keymap) (g : glyphs) (t : list tpl) : Prop :=
  s_keys st = keys /\ s_gl st = g /\ Forall2 part_self (s_parts st) t.

Lemma part_of_tpl_self q : part_self (part_of_tpl q) q.
Proof.
  exists DEFAULT_TAB_WIDTH. destruct q; cbn [part_of_tpl part_rel]; auto. apply tes_new_rel.
Qed.

Lemma map_part_of_tpl_self t : Forall2 part_self (map part_of_tpl t) t.
Proof. induction t as [|q t IH]; cbn [map]; constructor; [apply part_of_tpl_self | exact IH]. Qed.

Lemma style_new_self keys g t : style_self (style_new keys g t) keys g t.
Proof. split; [reflexivity | split; [reflexivity | apply map_part_of_tpl_self]]. Qed.

Lemma style_template_self st t : style_self (style_template st t) (s_keys st) (s_gl st) t.
Proof. split; [reflexivity | split; [reflexivity | apply map_part_of_tpl_self]]. Qed.

Lemma part_set_tw_rel w p q : part_self p q -> part_rel w (part_set_tw w p) q.
Proof.
  intros [w' H]. destruct p, q; cbn [part_rel part_set_tw] in *; try assumption; try contradiction.
  eapply tes_set_tw_rel; exact H.
Qed.

Lemma style_set_tw_rel st keys g t w : style_self st keys g t -> style_rel w (style_set_tw st w) keys g t.
Proof.
  intros [Hk [Hg Hp]]. split; [reflexivity|]. split; [exact Hk|]. split; [exact Hg|].
  cbn [style_set_tw s_parts].
  induction Hp as [|p q ps qs Hpq _ IH]; cbn [map]; constructor; [apply part_set_tw_rel; exact Hpq | exact IH].
Qed.

Lemma style_rel_self w st keys g t : style_rel w st keys g t -> style_self st keys g t.
Proof.
  intros [_ [Hk [Hg Hp]]]. split; [exact Hk|]. split; [exact Hg|].
  induction Hp as [|p q ps qs Hpq _ IH]; constructor; [exists w; exact Hpq | exact IH].
Qed.

(** ** the simulation relation *)
Definition saved_rel (a : option style) (b : option (keymap * glyphs * list tpl)) : Prop :=
  match a, b with
  | None, None => True
  | Some st, Some (k, g, t) => style_self st k g t
  | _, _ => False
  end.

Definition R (b : bar) (r : rbar) : Prop :=
  b_tw b = r_tw r
  /\ tes_rel (r_tw r) (b_msg b) (r_msg r)
  /\ tes_rel (r_tw r) (b_prefix b) (r_prefix r)
  /\ style_rel (r_tw r) (b_style b) (r_keys r) (r_gl r) (r_tpl r)
  /\ saved_rel (b_saved b) (r_saved r)
  /\ b_tick b = r_tick r /\ b_status b = r_status r /\ b_onfin b = r_onfin r /\ b_draws b = r_draws r.

Lemma R_init : R bar_init rbar_init.
Proof.
  unfold R, bar_init, rbar_init.
  cbn [b_tw r_tw b_msg r_msg b_prefix r_prefix b_style r_keys r_gl r_tpl b_saved r_saved
       b_tick r_tick b_status r_status b_onfin r_onfin b_draws r_draws].
  repeat split; try reflexivity.
  apply (style_set_tw_rel (style_new [] default_glyphs default_tpl) [] default_glyphs default_tpl
                          DEFAULT_TAB_WIDTH (style_new_self _ _ _)).
Qed.

(** ** rendering *)
Lemma push_line_sim c w f msg : tes_rel w (f_msg f) msg ->
  tes_rel w (f_msg (push_line c f)) msg
  /\ f_prefix (push_line c f) = f_prefix f
  /\ f_cur (push_line c f) = []
  /\ f_lines (push_line c f) = ref_push c (expand msg w) (f_cur f) (f_lines f) (f_wide f)
  /\ f_wide (push_line c f) = f_wide f.
Proof.
  intros Hm. unfold push_line, ref_push. destruct (f_wide f) as [|alt|a] eqn:Ew.
  - cbn [f_msg f_prefix f_cur f_lines f_wide]. auto.
  - cbn [f_msg f_prefix f_cur f_lines f_wide]. auto.
  - destruct (tes_expanded_rel _ _ _ Hm) as [He Ht].
    destruct (tes_expanded (f_msg f)) as [e m']. cbn [fst snd] in He, Ht. subst e.
    cbn [f_msg f_prefix f_cur f_lines f_wide]. auto.
Qed.

Lemma fmt_parts_sim c w msg pre : c_tw c = w ->
  forall ps tp, Forall2 (part_rel w) ps tp -> forall f,
  tes_rel w (f_msg f) msg -> tes_rel w (f_prefix f) pre ->
  Forall2 (part_rel w) (snd (fmt_parts c f ps)) tp
  /\ tes_rel w (f_msg (fst (fmt_parts c f ps))) msg
  /\ tes_rel w (f_prefix (fst (fmt_parts c f ps))) pre
  /\ ref_fmt c (expand msg w) (expand pre w) tp (f_cur f) (f_lines f) (f_wide f)
     = (f_cur (fst (fmt_parts c f ps)), f_lines (fst (fmt_parts c f ps)), f_wide (fst (fmt_parts c f ps))).
Proof.
  intros Hc. induction 1 as [|p q ps tp Hpq Hrest IH]; intros f Hm Hp.
  - cbn [fmt_parts fst snd ref_fmt]. repeat split; [constructor | assumption | assumption].
  - cbn [fmt_parts].
    destruct (fmt_part c f p) as [f1 p1] eqn:E1.
    assert (H1 : part_rel w p1 q
                 /\ tes_rel w (f_msg f1) msg /\ tes_rel w (f_prefix f1) pre
                 /\ ref_fmt c (expand msg w) (expand pre w) (q :: tp) (f_cur f) (f_lines f) (f_wide f)
                    = ref_fmt c (expand msg w) (expand pre w) tp (f_cur f1) (f_lines f1) (f_wide f1)).
    { destruct p as [t| |h], q as [s| |h']; cbn [part_rel] in Hpq; try contradiction;
        cbn [fmt_part] in E1.
      - (* literal *)
        destruct (tes_expanded_rel _ _ _ Hpq) as [He Ht].
        destruct (tes_expanded t) as [e t']. cbn [fst snd] in He, Ht. inversion E1; subst f1 p1.
        cbn [part_rel f_msg f_prefix f_cur f_lines f_wide ref_fmt]. rewrite He, Hc. auto.
      - (* newline *)
        inversion E1; subst f1 p1.
        destruct (push_line_sim c w f msg Hm) as [A [B [C [D E]]]].
        cbn [part_rel ref_fmt]. rewrite B, C, D, E. auto.
      - (* placeholder *)
        subst h'. destruct (p_key h) eqn:Ek.
        + destruct (tes_expanded_rel _ _ _ Hm) as [He Ht].
          destruct (tes_expanded (f_msg f)) as [e t']. cbn [fst snd] in He, Ht. inversion E1; subst f1 p1.
          cbn [part_rel f_msg f_prefix f_cur f_lines f_wide ref_fmt]. rewrite Ek, He.
          unfold wide_of. rewrite Ek. auto.
        + destruct (tes_expanded_rel _ _ _ Hp) as [He Ht].
          destruct (tes_expanded (f_prefix f)) as [e t']. cbn [fst snd] in He, Ht. inversion E1; subst f1 p1.
          cbn [part_rel f_msg f_prefix f_cur f_lines f_wide ref_fmt]. rewrite Ek, He.
          unfold wide_of. rewrite Ek. auto.
        + inversion E1; subst f1 p1. cbn [part_rel f_msg f_prefix f_cur f_lines f_wide ref_fmt]. rewrite Ek. auto.
        + inversion E1; subst f1 p1. cbn [part_rel f_msg f_prefix f_cur f_lines f_wide ref_fmt]. rewrite Ek. auto.
        + inversion E1; subst f1 p1. cbn [part_rel f_msg f_prefix f_cur f_lines f_wide ref_fmt]. rewrite Ek. auto.
        + inversion E1; subst f1 p1. cbn [part_rel f_msg f_prefix f_cur f_lines f_wide ref_fmt]. rewrite Ek. auto.
        + inversion E1; subst f1 p1. cbn [part_rel f_msg f_prefix f_cur f_lines f_wide ref_fmt]. rewrite Ek. auto.
        + inversion E1; subst f1 p1. cbn [part_rel f_msg f_prefix f_cur f_lines f_wide ref_fmt]. rewrite Ek. auto. }
    destruct H1 as [Hp1 [Hm1 [Hx1 Href]]].
    specialize (IH f1 Hm1 Hx1).
    destruct (fmt_parts c f1 ps) as [f2 r2]. cbn [fst snd] in *.
    destruct IH as [IHa [IHb [IHc IHd]]].
    repeat split; [constructor; assumption | assumption | assumption | rewrite Href; exact IHd].
Qed.

Definition rbar_drawn (r : rbar) : rbar :=
  mkrbar (r_tw r) (r_msg r) (r_prefix r) (r_keys r) (r_gl r) (r_tpl r) (r_saved r)
         (r_tick r) (r_status r) (r_onfin r) (r_draws r + 1).

Lemma format_state_sim E b r : R b r ->
  R (fst (format_state E b)) (rbar_drawn r) /\ snd (format_state E b) = ref_lines E r.
Proof.
  intros [Htw [Hm [Hp [[Hstw [Hsk [Hsg Hsp]]] [Hsv [Hti [Hst [Hof Hdr]]]]]]]].
  unfold format_state, ref_lines, ref_lines_gen, ref_ctx_gen. rewrite Hstw, Hsk, Hsg, Hti, Hst, Hdr.
  set (c := mkrctx E (r_draws r) (r_tw r) (r_keys r) (r_gl r) (r_tick r) (is_finished (r_status r)) false).
  pose proof (fmt_parts_sim c (r_tw r) (r_msg r) (r_prefix r) eq_refl _ _ Hsp
                            (mkfmt (b_msg b) (b_prefix b) [] [] WNone) Hm Hp) as H.
  cbn [f_msg f_prefix f_cur f_lines f_wide] in H.
  destruct (fmt_parts c (mkfmt (b_msg b) (b_prefix b) [] [] WNone) (s_parts (b_style b))) as [f ps'].
  cbn [fst snd] in H. destruct H as [Ha [Hb [Hc Hd]]]. rewrite Hd.
  destruct (f_cur f) as [|x cur] eqn:Ec.
  - cbn [fst snd]. split; [| reflexivity].
    unfold R, rbar_drawn.
    cbn [b_tw b_msg b_prefix b_style b_saved b_tick b_status b_onfin b_draws
         r_tw r_msg r_prefix r_keys r_gl r_tpl r_saved r_tick r_status r_onfin r_draws].
    repeat split; try assumption; try reflexivity.
  - destruct (push_line_sim c (r_tw r) f (r_msg r) Hb) as [A [B [C [D F]]]].
    cbn [fst snd]. rewrite D, Ec. split; [| reflexivity].
    unfold R, rbar_drawn.
    cbn [b_tw b_msg b_prefix b_style b_saved b_tick b_status b_onfin b_draws
         r_tw r_msg r_prefix r_keys r_gl r_tpl r_saved r_tick r_status r_onfin r_draws].
    rewrite B. repeat split; try assumption; try reflexivity.
Qed.

Lemma render_sim E b r : R b r ->
  R (fst (render E b)) (fst (ref_render E r)) /\ snd (render E b) = snd (ref_render E r).
Proof.
  intros HR. pose proof HR as [_ [_ [_ [_ [_ [_ [Hst _]]]]]]].
  pose proof (format_state_sim E b r HR) as HF. unfold rbar_drawn in HF.
  unfold render, ref_render. rewrite Hst.
  destruct (r_status r); cbn [fst snd]; try exact HF.
  split; [exact HR | reflexivity].
Qed.

Lemma draw_sim E b r : R b r ->
  R (fst (draw E b)) (fst (ref_render E r)) /\ snd (draw E b) = ODraw [] (snd (ref_render E r)).
Proof.
  intros H. destruct (render_sim E b r H) as [H1 H2]. unfold draw.
  destruct (render E b) as [b' l]. cbn [fst snd] in *. subst l. auto.
Qed.

(** ** every operation preserves the relation and produces the same output *)
Ltac unfold_R :=
  unfold R;
  cbn [b_tw b_msg b_prefix b_style b_saved b_tick b_status b_onfin b_draws
       r_tw r_msg r_prefix r_keys r_gl r_tpl r_saved r_tick r_status r_onfin r_draws].

Lemma bar_set_tw_R b r n : R b r ->
  R (bar_set_tw b n) (mkrbar n (r_msg r) (r_prefix r) (r_keys r) (r_gl r) (r_tpl r) (r_saved r)
                            (r_tick r) (r_status r) (r_onfin r) (r_draws r)).
Proof.
  intros [Htw [Hm [Hp [Hs [Hsv Hrest]]]]]. unfold bar_set_tw. unfold_R.
  split; [reflexivity|]. split; [eapply tes_set_tw_rel; exact Hm|].
  split; [eapply tes_set_tw_rel; exact Hp|]. split; [| split; [exact Hsv | exact Hrest]].
  exact (style_set_tw_rel _ _ _ _ n (style_rel_self _ _ _ _ _ Hs)).
Qed.

Lemma bar_set_style_R b r st keys g t : R b r -> style_self st keys g t ->
  R (bar_set_style b st) (mkrbar (r_tw r) (r_msg r) (r_prefix r) keys g t (r_saved r)
                                 (r_tick r) (r_status r) (r_onfin r) (r_draws r)).
Proof.
  intros [Htw [Hm [Hp [Hs [Hsv Hrest]]]]] Hst. unfold bar_set_style. unfold_R.
  rewrite Htw. split; [reflexivity|]. split; [exact Hm|]. split; [exact Hp|].
  split; [exact (style_set_tw_rel _ _ _ _ (r_tw r) Hst)|]. split; [exact Hsv | exact Hrest].
Qed.

Lemma bar_set_msg_R b r s : R b r ->
  R (bar_set_msg b s) (mkrbar (r_tw r) s (r_prefix r) (r_keys r) (r_gl r) (r_tpl r) (r_saved r)
                              (r_tick r) (r_status r) (r_onfin r) (r_draws r)).
Proof.
  intros [Htw [Hm [Hp [Hs Hrest]]]]. unfold bar_set_msg. unfold_R.
  rewrite Htw. split; [reflexivity|]. split; [apply tes_new_rel|]. split; [exact Hp|]. split; [exact Hs | exact Hrest].
Qed.

Lemma bar_set_prefix_R b r s : R b r ->
  R (bar_set_prefix b s) (mkrbar (r_tw r) (r_msg r) s (r_keys r) (r_gl r) (r_tpl r) (r_saved r)
                                 (r_tick r) (r_status r) (r_onfin r) (r_draws r)).
Proof.
  intros [Htw [Hm [Hp [Hs Hrest]]]]. unfold bar_set_prefix. unfold_R.
  rewrite Htw. split; [reflexivity|]. split; [exact Hm|]. split; [apply tes_new_rel|]. split; [exact Hs | exact Hrest].
Qed.

Lemma bar_tick_R b r : R b r -> R (bar_tick b) (rbar_tick r).
Proof.
  intros [Htw [Hm [Hp [Hs [Hsv [Hti Hrest]]]]]]. unfold bar_tick, rbar_tick. unfold_R.
  rewrite Hti. split; [exact Htw|]. split; [exact Hm|]. split; [exact Hp|]. split; [exact Hs|].
  split; [exact Hsv|]. split; [reflexivity | exact Hrest].
Qed.

Lemma bar_finish_R b r f : R b r -> R (bar_finish b f) (rbar_finish r f).
Proof.
  intros HR.
  assert (H0 : R (bar_set_status b (status_of_finish f))
                 (mkrbar (r_tw r) (r_msg r) (r_prefix r) (r_keys r) (r_gl r) (r_tpl r) (r_saved r)
                         (r_tick r) (status_of_finish f) (r_onfin r) (r_draws r))).
  { destruct HR as [Htw [Hm [Hp [Hs [Hsv [Hti [Hst [Hof Hdr]]]]]]]]. unfold bar_set_status. unfold_R.
    split; [exact Htw|]. split; [exact Hm|]. split; [exact Hp|]. split; [exact Hs|]. split; [exact Hsv|].
    split; [exact Hti|]. split; [reflexivity|]. split; [exact Hof | exact Hdr]. }
  unfold bar_finish, rbar_finish.
  destruct f as [|s| | |s]; cbn [finish_msg]; try (destruct r; exact H0);
    apply (bar_set_msg_R _ _ s) in H0; exact H0.
Qed.

Lemma step_sim E b r o : R b r ->
  R (fst (step E b o)) (fst (ref_step E r o)) /\ snd (step E b o) = snd (ref_step E r o).
Proof.
  intros HR.
  assert (Hdrawn : forall b' r', R b' r' ->
            R (fst (draw E b')) (fst (let '(r'', l) := ref_render E r' in (r'', ODraw [] l)))
            /\ snd (draw E b') = snd (let '(r'', l) := ref_render E r' in (r'', ODraw [] l))).
  { intros b' r' H. destruct (draw_sim E b' r' H) as [H1 H2].
    destruct (ref_render E r') as [r'' l]. cbn [fst snd] in *. auto. }
  destruct o as [n|n|keys g t|t| | |s|s|s|s|s|s|f| | |s| | ]; cbn [step ref_step].
  - (* SetTabWidth *) apply Hdrawn. apply bar_set_tw_R. exact HR.
  - cbn [fst snd]. split; [apply bar_set_tw_R; exact HR | reflexivity].
  - (* SetStyleNew *) destruct (glyphs_accept g); cbn [fst snd];
      [split; [apply bar_set_style_R; [exact HR | apply style_new_self] | reflexivity] | split; [exact HR | reflexivity]].
  - (* SetStyleDerived *) cbn [fst snd]. split; [| reflexivity].
    assert (Hk : s_keys (b_style b) = r_keys r /\ s_gl (b_style b) = r_gl r)
      by (destruct HR as [_ [_ [_ [[_ [Hk [Hg _]]] _]]]]; auto).
    destruct Hk as [Hk Hg]. rewrite <- Hk, <- Hg. apply bar_set_style_R; [exact HR | apply style_template_self].
  - (* SaveStyle *) cbn [fst snd]. split; [| reflexivity].
    destruct HR as [Htw [Hm [Hp [Hs [Hsv Hrest]]]]]. unfold bar_set_saved. unfold_R. cbn [saved_rel].
    split; [exact Htw|]. split; [exact Hm|]. split; [exact Hp|]. split; [exact Hs|]. split; [| exact Hrest].
    eapply style_rel_self. exact Hs.
  - (* RestoreStyle *)
    pose proof HR as [Htw [Hm [Hp [Hs [Hsv Hrest]]]]].
    destruct (b_saved b) as [st|] eqn:Eb, (r_saved r) as [[[k g] t]|] eqn:Er; cbn [saved_rel] in Hsv; try contradiction.
    + cbn [fst snd]. split; [| reflexivity]. rewrite <- Er. apply bar_set_style_R; assumption.
    + cbn [fst snd]. split; [exact HR | reflexivity].
  - apply Hdrawn. apply bar_set_msg_R. exact HR.
  - apply Hdrawn. apply bar_set_prefix_R. exact HR.
  - cbn [fst snd]. split; [apply bar_set_msg_R; exact HR | reflexivity].
  - cbn [fst snd]. split; [apply bar_set_prefix_R; exact HR | reflexivity].
  - apply Hdrawn. apply bar_finish_R. exact HR.
  - apply Hdrawn. apply bar_finish_R. exact HR.
  - (* WithFinish *) cbn [fst snd]. split; [| reflexivity].
    destruct HR as [Htw [Hm [Hp [Hs [Hsv [Hti [Hst [Hof Hdr]]]]]]]]. unfold bar_set_onfin. unfold_R.
    split; [exact Htw|]. split; [exact Hm|]. split; [exact Hp|]. split; [exact Hs|]. split; [exact Hsv|].
    split; [exact Hti|]. split; [exact Hst|]. split; [reflexivity | exact Hdr].
  - (* FinishUsingStyle *)
    assert (Hof : b_onfin b = r_onfin r) by (destruct HR as [_ [_ [_ [_ [_ [_ [_ [Hof _]]]]]]]]; exact Hof).
    rewrite Hof. apply Hdrawn. apply bar_finish_R. exact HR.
  - (* Tick *) apply Hdrawn. apply bar_tick_R. exact HR.
  - (* Println *)
    destruct (render_sim E b r HR) as [H1 H2].
    destruct (render E b) as [b' l], (ref_render E r) as [r' l']. cbn [fst snd] in *. subst l'. auto.
  - (* GetMessage *)
    destruct HR as [Htw [Hm [Hp [Hs Hrest]]]].
    destruct (tes_expanded_rel _ _ _ Hm) as [He Ht].
    destruct (tes_expanded (b_msg b)) as [e m']. cbn [fst snd] in *. subst e.
    split; [| reflexivity]. unfold_R.
    split; [exact Htw|]. split; [exact Ht|]. split; [exact Hp|]. split; [exact Hs | exact Hrest].
  - (* GetPrefix *)
    destruct HR as [Htw [Hm [Hp [Hs Hrest]]]].
    destruct (tes_expanded_rel _ _ _ Hp) as [He Ht].
    destruct (tes_expanded (b_prefix b)) as [e m']. cbn [fst snd] in *. subst e.
    split; [| reflexivity]. unfold_R.
    split; [exact Htw|]. split; [exact Hm|]. split; [exact Ht|]. split; [exact Hs | exact Hrest].
Qed.

Lemma run_sim E ops : forall b r, R b r ->
  R (fst (run E b ops)) (fst (ref_run E r ops)) /\ snd (run E b ops) = snd (ref_run E r ops).
Proof.
  induction ops as [|o ops IH]; intros b r HR; cbn [run ref_run]; [split; [exact HR | reflexivity]|].
  destruct (step_sim E b r o HR) as [H1 H2].
  destruct (step E b o) as [b1 x], (ref_step E r o) as [r1 y]. cbn [fst snd] in *. subst y.
  destruct (IH b1 r1 H1) as [H3 H4].
  destruct (run E b1 ops) as [b2 xs], (ref_run E r1 ops) as [r2 ys]. cbn [fst snd] in *. subst ys.
  split; [exact H3 | reflexivity].
Qed.

(** For every history and every environment the implementation model and the reference
    produce the same draws and getter results. *)
Theorem refines E ops : snd (run E bar_init ops) = snd (ref_run E rbar_init ops).
Proof. exact (proj2 (run_sim E ops _ _ R_init)). Qed.

Theorem refines_state E ops : R (fst (run E bar_init ops)) (fst (ref_run E rbar_init ops)).
Proof. exact (proj1 (run_sim E ops _ _ R_init)). Qed.

(** ** the cache invariant *)
Lemma tes_rel_ok w t s : tes_rel w t s -> tes_ok w t.
Proof.
  destruct t as [x | o c tw]; cbn [tes_rel tes_ok]; [intros [Hx Hs]; subst; exact Hs|].
  intros [Ho [Htw Hc]]. subst. tauto.
Qed.

Lemma R_inv b r : R b r -> inv b.
Proof.
  intros [Htw [Hm [Hp [[Hstw [_ [_ Hsp]]] _]]]]. unfold inv. rewrite Htw.
  repeat split; [eapply tes_rel_ok; exact Hm | eapply tes_rel_ok; exact Hp | exact Hstw |].
  induction Hsp as [|p q ps qs Hpq _ IH]; constructor; [| exact IH].
  destruct p, q; cbn [part_rel part_ok] in *; try exact I; try contradiction.
  eapply tes_rel_ok; exact Hpq.
Qed.

Theorem inv_reachable E ops : inv (fst (run E bar_init ops)).
Proof. eapply R_inv. apply refines_state. Qed.

(** ** no TAB in anything the reference renders *)
Lemma split_nl_in s : forall l x, In l (split_nl s) -> In x l -> In x s.
Proof.
  induction s as [|c s IH]; intros l x Hl Hx.
  - cbn [split_nl] in Hl. destruct Hl as [Hl | []]. subst l. exact Hx.
  - cbn [split_nl] in Hl. destruct (c =? NL).
    + destruct Hl as [Hl | Hl]; [subst l; destruct Hx | right; eapply IH; eassumption].
    + destruct (split_nl s) as [|l0 ls] eqn:E.
      * destruct Hl as [Hl | []]. subst l. destruct Hx as [Hx | []]. left; exact Hx.
      * destruct Hl as [Hl | Hl].
        -- subst l. destruct Hx as [Hx | Hx]; [left; exact Hx | right]. apply (IH l0 x); [left; reflexivity | exact Hx].
        -- right. apply (IH l x); [right; exact Hl | exact Hx].
Qed.

Lemma split_nl_notab s : notab s -> Forall notab (split_nl s).
Proof.
  intros H. apply Forall_forall. intros l Hl Hx. apply H. eapply split_nl_in; eassumption.
Qed.

Lemma notab_nil : notab [].
Proof. intros []. Qed.

Lemma notab_app a b : notab a -> notab b -> notab (a ++ b).
Proof. unfold notab. intros Ha Hb H. apply in_app_or in H. tauto. Qed.

(* a text all of whose characters occur in TAB-free texts *)
Lemma notab_incl a b : (forall x, In x a -> In x b) -> notab b -> notab a.
Proof. unfold notab. intros Hi Hb H. apply Hb, Hi, H. Qed.

Lemma chunks_text_notab w chunks : notab (chunks_text w chunks).
Proof.
  unfold chunks_text. induction chunks as [|c cs IH]; cbn [map concat]; [apply notab_nil|].
  apply notab_app; [apply expand_no_tab | exact IH].
Qed.

Lemma key_text_notab w m k : notab (key_text w m k).
Proof. unfold key_text. destruct (key_lookup k m); [apply chunks_text_notab | apply notab_nil]. Qed.

Lemma tab_spaces_notab n : notab (tab_spaces n).
Proof. intros H. apply tab_spaces_in in H. discriminate H. Qed.

(** padding and truncation: the result consists of characters of the content and spaces *)
Lemma drop_bytes_in s : forall n t x, drop_bytes s n = Some t -> In x t -> In x s.
Proof.
  induction s as [|c s IH]; intros n t x H Hx; cbn [drop_bytes] in H.
  - destruct (n =? 0); [inversion H; subst; exact Hx | discriminate].
  - destruct (n =? 0); [inversion H; subst; exact Hx|].
    destruct (n <? Padded.nbytes c); [discriminate|]. right. eapply IH; eassumption.
Qed.

Lemma take_bytes_in s : forall n t x, take_bytes s n = Some t -> In x t -> In x s.
Proof.
  induction s as [|c s IH]; intros n t x H Hx; cbn [take_bytes] in H.
  - destruct (n =? 0); [inversion H; subst; destruct Hx | discriminate].
  - destruct (n =? 0); [inversion H; subst; destruct Hx|].
    destruct (n <? Padded.nbytes c); [discriminate|].
    destruct (take_bytes s (n - Padded.nbytes c)) as [t'|] eqn:E; [| discriminate].
    inversion H; subst. destruct Hx as [Hx | Hx]; [left; exact Hx | right; eapply IH; eassumption].
Qed.

Lemma str_get_in s st en t x : str_get s st en = Some t -> In x t -> In x s.
Proof.
  unfold str_get. destruct (en <? st); [discriminate|].
  destruct (drop_bytes s st) as [r|] eqn:E; [| discriminate].
  intros H Hx. eapply drop_bytes_in; [exact E|]. eapply take_bytes_in; eassumption.
Qed.

Theorem pad_text_notab cols s w a tr : notab s -> notab (pad_text cols s w a tr).
Proof.
  intros Hs. unfold pad_text.
  destruct ((0 <? cols s - w) && negb tr); [exact Hs|].
  destruct (0 <? cols s - w).
  - destruct (Padded.trunc_range a (blen s) (cols s - w)) as [[st en]|]; [| exact Hs].
    destruct (str_get s st en) as [t|] eqn:E; [| exact Hs].
    eapply notab_incl; [| exact Hs]. intros x Hx. eapply str_get_in; eassumption.
  - destruct (Padded.pad_split a (w - cols s)) as [l r].
    apply notab_app; [apply tab_spaces_notab|]. apply notab_app; [exact Hs | apply tab_spaces_notab].
Qed.

Lemma trim_end_in s x : In x (trim_end s) -> In x s.
Proof.
  induction s as [|c s IH]; [intros []|]. unfold trim_end. cbn [fold_right].
  fold (trim_end s). destruct (trim_end s) as [|y ys] eqn:E.
  - destruct (Padded.is_ws c); [intros [] | intros [H | []]; left; exact H].
  - intros [H | H]; [left; exact H | right; apply IH; exact H].
Qed.

Theorem trim_end_notab s : notab s -> notab (trim_end s).
Proof. apply notab_incl. intros x. apply trim_end_in. Qed.

Lemma replace_nul_notab s x : notab s -> notab x -> notab (replace_nul s x).
Proof.
  intros Hs Hx. unfold replace_nul. induction s as [|c s IH]; cbn [flat_map]; [apply notab_nil|].
  apply notab_app.
  - destruct (c =? NUL); [exact Hx|]. intros [H | []]. apply Hs. left. exact H.
  - apply IH. intros H. apply Hs. right. exact H.
Qed.

Lemma wrap_notab o x : sty_ok o -> notab x -> notab (wrap o x).
Proof.
  destruct o as [y|]; cbn [sty_ok wrap]; [| auto]. intros [H1 H2] Hx.
  apply notab_app; [exact H1|]. apply notab_app; [exact Hx | exact H2].
Qed.

Lemma rep_notab x n : notab x -> notab (rep x n).
Proof.
  intros Hx. unfold rep. induction n as [|n IH] using N.peano_ind; [apply notab_nil|].
  rewrite N.iter_succ. apply notab_app; assumption.
Qed.

Lemma nth_notab (l : list text) i : Forall notab l -> notab (nth i l []).
Proof.
  intros H. revert i. induction H as [|x l Hx _ IH]; intros [|i]; cbn [nth]; try apply notab_nil; auto.
Qed.

Lemma last_notab (l : list text) : Forall notab l -> notab (last l []).
Proof.
  induction 1 as [|x l Hx Hl IH]; [apply notab_nil|]. cbn [last]. destruct l; [exact Hx | exact IH].
Qed.

Lemma bar_text_notab g geo alt : Forall notab (g_pchars g) -> sty_ok alt -> notab (bar_text g geo alt).
Proof.
  intros Hg Ha. destruct geo as [[filled cur] bg]. unfold bar_text.
  apply notab_app; [apply rep_notab, nth_notab, Hg|]. apply notab_app.
  - destruct cur; [apply nth_notab, Hg | apply notab_nil].
  - apply wrap_notab; [exact Ha | apply rep_notab, last_notab, Hg].
Qed.

(* what the builder contract (glyphs_accept) leaves of the progress characters *)
Definition pchars_ok (g : glyphs) : Prop := Forall notab (g_pchars g).
Definition ctx_ok (c : rctx) : Prop := pchars_ok (c_gl c) /\ env_ok (c_env c) /\ c_raw_ticks c = false.

Lemma static_buf_notab c h : ctx_ok c -> sty_ok (p_alt h) -> notab (static_buf c h).
Proof.
  intros [Hp [He Hraw]] Ha. unfold static_buf. destruct (p_key h).
  - apply notab_nil.
  - apply notab_nil.
  - intros [H | []]. discriminate H.
  - intros [H | []]. discriminate H.
  - unfold format_bar. apply bar_text_notab; assumption.
  - rewrite Hraw. apply expand_no_tab.
  - apply He.
  - apply key_text_notab.
Qed.

Lemma ph_post_notab c h buf : sty_ok (p_style h) -> notab buf -> notab (ph_post c h buf).
Proof.
  intros Hs Hb. unfold ph_post. apply wrap_notab; [exact Hs|].
  destruct (p_width h); [apply pad_text_notab |]; exact Hb.
Qed.

Lemma wide_bar_line_notab c alt cur : ctx_ok c -> sty_ok alt -> notab cur -> notab (wide_bar_line c alt cur).
Proof.
  intros [Hp [He Hraw]] Ha Hc. unfold wide_bar_line, format_bar.
  apply replace_nul_notab; [exact Hc | apply bar_text_notab; assumption].
Qed.

Theorem wide_msg_line_notab c a emsg cur : notab emsg -> notab cur -> notab (wide_msg_line c a emsg cur).
Proof.
  intros Hm Hc. unfold wide_msg_line. apply replace_nul_notab; [exact Hc|].
  destruct (ends_nul cur); [apply trim_end_notab|]; apply pad_text_notab; exact Hm.
Qed.

Definition wide_ok (w : wide) : Prop := match w with WBar alt => sty_ok alt | _ => True end.

Lemma ref_push_notab c emsg cur lines w :
  ctx_ok c -> notab emsg -> notab cur -> Forall notab lines -> wide_ok w ->
  Forall notab (ref_push c emsg cur lines w).
Proof.
  intros Hc Hm Hcur Hl Hw. unfold ref_push. apply Forall_app. split; [exact Hl|].
  apply split_nl_notab. destruct w as [|alt|a]; cbn [wide_ok] in Hw.
  - exact Hcur.
  - apply wide_bar_line_notab; assumption.
  - apply wide_msg_line_notab; assumption.
Qed.

Lemma ref_fmt_notab c emsg epre : ctx_ok c -> notab emsg -> notab epre ->
  forall ps cur lines w, Forall tpl_ok ps -> notab cur -> Forall notab lines -> wide_ok w ->
  let '(cur', lines', w') := ref_fmt c emsg epre ps cur lines w in
  notab cur' /\ Forall notab lines' /\ wide_ok w'.
Proof.
  intros Hc Hm Hp. induction ps as [|p ps IH]; intros cur lines w Hps Hcur Hl Hw; cbn [ref_fmt]; [auto|].
  inversion Hps as [|? ? Hp0 Hps']; subst.
  destruct p as [s| |h].
  - apply IH; [exact Hps' | apply notab_app; [exact Hcur | apply expand_no_tab] | exact Hl | exact Hw].
  - apply IH; [exact Hps' | apply notab_nil | apply ref_push_notab; assumption | exact Hw].
  - cbn [tpl_ok] in Hp0. destruct Hp0 as [Hs Ha]. apply IH; [exact Hps' | | exact Hl |].
    + apply notab_app; [exact Hcur|]. apply ph_post_notab; [exact Hs|].
      pose proof (static_buf_notab c h Hc Ha) as Hb. destruct (p_key h); assumption.
    + unfold wide_of. destruct (p_key h); cbn [wide_ok]; auto.
Qed.

(* what the history installed so far satisfies [op_ok]'s demands *)
Definition rok (r : rbar) : Prop :=
  pchars_ok (r_gl r) /\ Forall tpl_ok (r_tpl r)
  /\ match r_saved r with Some (_, g, t) => pchars_ok g /\ Forall tpl_ok t | None => True end.

Lemma forallb_notab (l : list text) : forallb (fun s => negb (has_tab s)) l = true -> Forall notab l.
Proof.
  intros H. apply Forall_forall. intros s Hs. apply has_tab_in.
  rewrite forallb_forall in H. specialize (H s Hs). destruct (has_tab s); [discriminate | reflexivity].
Qed.

Lemma glyphs_accept_ok g : glyphs_accept g = true -> pchars_ok g.
Proof. apply forallb_notab. Qed.

Lemma default_glyphs_ok : pchars_ok default_glyphs.
Proof. apply glyphs_accept_ok. vm_compute. reflexivity. Qed.

Lemma rok_init : rok rbar_init.
Proof.
  split; [exact default_glyphs_ok|]. split; [| exact I].
  unfold rbar_init, default_tpl. cbn [r_tpl]. repeat constructor.
Qed.

Lemma ref_lines_notab E r : env_ok E -> rok r -> Forall notab (ref_lines E r).
Proof.
  intros He [Hg [Ht _]]. unfold ref_lines, ref_lines_gen. fold (ref_ctx E r).
  assert (Hc : ctx_ok (ref_ctx E r)) by (split; [exact Hg | split; [exact He | reflexivity]]).
  pose proof (ref_fmt_notab (ref_ctx E r) (expand (r_msg r) (r_tw r)) (expand (r_prefix r) (r_tw r)) Hc
                (expand_no_tab _ _) (expand_no_tab _ _) (r_tpl r) [] [] WNone Ht notab_nil (Forall_nil _) I) as H.
  destruct (ref_fmt (ref_ctx E r) (expand (r_msg r) (r_tw r)) (expand (r_prefix r) (r_tw r)) (r_tpl r) [] [] WNone)
    as [[cur lines] w]. destruct H as [H1 [H2 H3]].
  destruct cur as [|x cur]; [exact H2|].
  apply ref_push_notab; try assumption. apply expand_no_tab.
Qed.

Lemma ref_render_notab E r : env_ok E -> rok r ->
  rok (fst (ref_render E r)) /\ Forall notab (snd (ref_render E r)).
Proof.
  intros He Hr. unfold ref_render.
  destruct (r_status r); cbn [fst snd]; try (split; [exact Hr | apply ref_lines_notab; assumption]).
  split; [exact Hr | constructor].
Qed.

Lemma ref_step_notab E r o : env_ok E -> op_ok o -> rok r ->
  rok (fst (ref_step E r o)) /\ out_notab (snd (ref_step E r o)).
Proof.
  intros He Ho Hr.
  assert (Hdrawn : forall r', rok r' ->
            rok (fst (let '(r'', l) := ref_render E r' in (r'', ODraw [] l)))
            /\ out_notab (snd (let '(r'', l) := ref_render E r' in (r'', ODraw [] l)))).
  { intros r' H'. destruct (ref_render_notab E r' He H') as [H1 H2].
    destruct (ref_render E r') as [r'' l]. cbn [fst snd out_notab] in *. auto. }
  pose proof Hr as [Hg [Ht Hs]].
  destruct o as [n|n|keys g t|t| | |s|s|s|s|s|s|f| | |s| | ]; cbn [step ref_step op_ok] in *;
    try (apply Hdrawn; exact Hr); try (split; [exact Hr | exact I]).
  - (* SetStyleNew *) destruct (glyphs_accept g) eqn:Ea; cbn [fst snd out_notab]; [| split; [exact Hr | exact I]].
    split; [| exact I]. split; [exact (glyphs_accept_ok g Ea) | split; [exact Ho | exact Hs]].
  - (* SetStyleDerived *) cbn [fst snd out_notab]. split; [| exact I].
    split; [exact Hg | split; [exact Ho | exact Hs]].
  - (* SaveStyle *) cbn [fst snd out_notab]. split; [| exact I].
    split; [exact Hg | split; [exact Ht | split; [exact Hg | exact Ht]]].
  - (* RestoreStyle *)
    destruct (r_saved r) as [[[k g] t]|] eqn:Er; cbn [fst snd out_notab]; [| split; [exact Hr | exact I]].
    split; [| exact I]. unfold rok. cbn [r_gl r_tpl r_saved].
    destruct Hs as [Hs1 Hs2]. split; [exact Hs1 | split; [exact Hs2 | split; [exact Hs1 | exact Hs2]]].
  - (* Println *)
    destruct (ref_render_notab E r He Hr) as [H1 H2].
    destruct (ref_render E r) as [r' l]. cbn [fst snd out_notab] in *. auto.
  - (* GetMessage *) cbn [fst snd out_notab]. split; [exact Hr | apply expand_no_tab].
  - (* GetPrefix *) cbn [fst snd out_notab]. split; [exact Hr | apply expand_no_tab].
Qed.

Lemma ref_run_notab E ops : forall r, env_ok E -> Forall op_ok ops -> rok r ->
  Forall out_notab (snd (ref_run E r ops)).
Proof.
  induction ops as [|o ops IH]; intros r He Hf Hr; cbn [ref_run]; [constructor|].
  inversion Hf as [|? ? Ho Hrest]; subst.
  destruct (ref_step_notab E r o He Ho Hr) as [H1 H2].
  destruct (ref_step E r o) as [r1 x]. cbn [fst snd] in *. specialize (IH r1 He Hrest H1).
  destruct (ref_run E r1 ops) as [r2 xs]. cbn [snd] in *. constructor; assumption.
Qed.

Theorem no_tab E ops : env_ok E -> Forall op_ok ops -> Forall out_notab (snd (run E bar_init ops)).
Proof. intros He H. rewrite refines. apply ref_run_notab; [exact He | exact H | exact rok_init]. Qed.

(** ** closed forms *)
Lemma ref_run_app E a : forall r b,
  ref_run E r (a ++ b) =
  (fst (ref_run E (fst (ref_run E r a)) b), snd (ref_run E r a) ++ snd (ref_run E (fst (ref_run E r a)) b)).
Proof.
  induction a as [|o a IH]; intros r b; cbn [app ref_run fst snd].
  - destruct (ref_run E r b); reflexivity.
  - destruct (ref_step E r o) as [r1 x]. rewrite IH.
    destruct (ref_run E r1 a) as [r2 xs]. cbn [fst snd]. reflexivity.
Qed.

Definition rproj (r : rbar) : N * text * text * finish := (r_tw r, r_msg r, r_prefix r, r_onfin r).

Lemma ref_render_proj E r : rproj (fst (ref_render E r)) = rproj r.
Proof. unfold ref_render. destruct (r_status r); reflexivity. Qed.

Lemma ref_step_closed E r o :
  rproj (fst (ref_step E r o))
  = (last_tw (r_tw r) [o], last_msg (r_msg r) (r_onfin r) [o], last_prefix (r_prefix r) [o],
     match o with WithFinish g => g | _ => r_onfin r end).
Proof.
  assert (Hd : forall t r', fst (let '(r'', l) := ref_render E r' in (r'', ODraw t l)) = fst (ref_render E r')).
  { intros t r'. destruct (ref_render E r'); reflexivity. }
  destruct o as [n|n|keys g t|t| | |s|s|s|s|s|s|f| | |s| | ]; cbn [ref_step last_tw last_msg last_prefix];
    rewrite ?Hd, ?ref_render_proj; try reflexivity.
  - destruct (glyphs_accept g); reflexivity.
  - destruct (r_saved r) as [[[k g] t]|]; reflexivity.
Qed.

Lemma ref_state_closed E ops : forall r,
  r_tw (fst (ref_run E r ops)) = last_tw (r_tw r) ops
  /\ r_msg (fst (ref_run E r ops)) = last_msg (r_msg r) (r_onfin r) ops
  /\ r_prefix (fst (ref_run E r ops)) = last_prefix (r_prefix r) ops.
Proof.
  induction ops as [|o ops IH]; intros r; cbn [ref_run]; [auto|].
  pose proof (ref_step_closed E r o) as H.
  destruct (ref_step E r o) as [r1 x] eqn:E1. specialize (IH r1).
  destruct (ref_run E r1 ops) as [r2 xs]. cbn [fst] in *.
  unfold rproj in H. inversion H as [[H1 H2 H3 H4]]. clear H.
  destruct IH as [I1 [I2 I3]].
  rewrite I1, I2, I3, H1, H2, H3, H4. destruct o; cbn [last_tw last_msg last_prefix]; auto.
Qed.

(** message() / prefix() after any history: the last text given, expanded with the last width *)
Theorem getters E ops :
  snd (run E bar_init (ops ++ [GetMessage]))
  = snd (run E bar_init ops) ++ [OGot (expand (last_msg [] FAndClear ops) (last_tw DEFAULT_TAB_WIDTH ops))]
  /\ snd (run E bar_init (ops ++ [GetPrefix]))
  = snd (run E bar_init ops) ++ [OGot (expand (last_prefix [] ops) (last_tw DEFAULT_TAB_WIDTH ops))].
Proof.
  rewrite !refines, !ref_run_app. cbn [snd ref_run ref_step].
  destruct (ref_state_closed E ops rbar_init) as [H1 [H2 H3]].
  cbn [rbar_init r_tw r_msg r_prefix r_onfin] in H1, H2, H3. rewrite H1, H2, H3. split; reflexivity.
Qed.

(** a draw after any history shows every text expanded from its original with the current
    width: it is the reference rendering of the state the history defines *)
Theorem draw_consistent E ops :
  let r := fst (ref_run E rbar_init ops) in
  snd (run E bar_init (ops ++ [Tick]))
  = snd (run E bar_init ops) ++ [ODraw [] (snd (ref_render E (rbar_tick r)))]
  /\ r_tw r = last_tw DEFAULT_TAB_WIDTH ops
  /\ r_msg r = last_msg [] FAndClear ops
  /\ r_prefix r = last_prefix [] ops.
Proof.
  cbn zeta. rewrite !refines, !ref_run_app. cbn [snd ref_run ref_step].
  destruct (ref_state_closed E ops rbar_init) as [H1 [H2 H3]].
  cbn [rbar_init r_tw r_msg r_prefix r_onfin] in H1, H2, H3.
  split; [| auto]. destruct (ref_render E (rbar_tick (fst (ref_run E rbar_init ops)))); reflexivity.
Qed.

(** the width given to the expansion: every TAB becomes exactly [w] spaces, nothing else changes *)
Lemma expand_length s w :
  (length (expand s w) + ntabs s = length s + ntabs s * N.to_nat w)%nat.
Proof.
  induction s as [|c s IH]; [reflexivity|]. rewrite expand_cons, app_length. cbn [ntabs length].
  destruct (c =? TAB); [rewrite length_tab_spaces | cbn [length]]; lia.
Qed.

(** ** regression: the frame with the {spinner} arm of before commit 6ff82af *)
(* tick_strings(["\t","x"]), template "{spinner}": the state after installing that style *)
Definition pre_6ff82af_ops : list op :=
  [SetStyleNew [] (mkglyphs [[9]; [120]] [[35]; [45]] 1) [TPh (bare KSpinner)]].

Lemma pre_6ff82af_frame E :
  let r := fst (ref_run E rbar_init pre_6ff82af_ops) in
  ~ Forall notab (ref_lines_gen true E r) /\ Forall notab (ref_lines_gen false E r).
Proof.
  cbn zeta. split.
  - assert (H : ref_lines_gen true E (fst (ref_run E rbar_init pre_6ff82af_ops)) = [[9]])
      by (vm_compute; reflexivity).
    rewrite H. intros HF. inversion HF as [|? ? H1 _]; subst. apply H1. left. reflexivity.
  - assert (H : ref_lines_gen false E (fst (ref_run E rbar_init pre_6ff82af_ops)) = [tab_spaces 8])
      by (vm_compute; reflexivity).
    rewrite H. constructor; [apply tab_spaces_notab | constructor].
Qed.
