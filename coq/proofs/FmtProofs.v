(** C15 - proofs about model/Fmt.v: the integer / list parts (closed under the
    global context).  The binary64 parts (Flocq, Reals) are in FmtF64Proofs.v.
    The vocabulary of the statements ([group], [hd_idx], [dval] ...) is defined
    in model/FmtSpec.v. *)
From IndModel Require Import Base Fmt FmtSpec.
From IndGen Require Import Constants.
From Coq Require Import List NArith ZArith Bool Lia Arith String SpecFloat.
Require Import ZifyBool ZifyNat ZifyN.
Import ListNotations.
Ltac Zify.zify_post_hook ::= Z.div_mod_to_equations.
Arguments N.add : simpl never.
Arguments N.sub : simpl never.
Arguments N.mul : simpl never.
Arguments N.div : simpl never.
Arguments N.modulo : simpl never.
Arguments N.pow : simpl never.
Open Scope N_scope.

(* ================================================================== decimal numerals *)

Fixpoint digs (f : nat) (n : N) : list N :=
  match f with
  | O => []
  | S f' => (if n / 10 =? 0 then [] else digs f' (n / 10)) ++ [CH_0 + n mod 10]
  end.

Lemma dec_aux_digs : forall f n acc, dec_aux f n acc = digs f n ++ acc.
Proof.
  induction f as [|f IH]; intros n acc; [reflexivity|].
  cbn [dec_aux digs].
  destruct (n / 10 =? 0); [reflexivity|].
  rewrite IH, <- app_assoc. reflexivity.
Qed.

Lemma pow2_S : forall f, 2 ^ N.of_nat (S f) = 2 * 2 ^ N.of_nat f.
Proof. intros f. rewrite Nat2N.inj_succ, N.pow_succ_r'. reflexivity. Qed.

Lemma digs_indep : forall f g n,
  n < 2 ^ N.of_nat (S f) -> n < 2 ^ N.of_nat (S g) -> digs (S f) n = digs (S g) n.
Proof.
  induction f as [|f IH]; intros g n Hf Hg.
  - change (2 ^ N.of_nat 1) with 2 in Hf.
    cbn [digs]. assert (n / 10 = 0) as -> by lia. reflexivity.
  - cbn [digs]. destruct (n / 10 =? 0) eqn:E; [reflexivity|].
    destruct g as [|g].
    + change (2 ^ N.of_nat 1) with 2 in Hg. lia.
    + f_equal. rewrite pow2_S in Hf, Hg.
      change (digs (S f) (n / 10) = digs (S g) (n / 10)).
      apply IH; lia.
Qed.

Lemma lt_pow2_log2 : forall n, n < 2 ^ N.of_nat (S (N.to_nat (N.log2 n))).
Proof.
  intros n. rewrite Nat2N.inj_succ, N2Nat.id.
  destruct n as [|p]; [reflexivity|].
  apply N.log2_spec. reflexivity.
Qed.

Lemma dec_digs : forall n f, n < 2 ^ N.of_nat (S f) -> dec n = digs (S f) n.
Proof.
  intros n f H. unfold dec. rewrite dec_aux_digs, app_nil_r.
  apply digs_indep; [|exact H].
  apply lt_pow2_log2.
Qed.

(** the recursion equation of the decimal numeral *)
Lemma dec_unfold : forall n,
  dec n = if n <? 10 then [CH_0 + n] else dec (n / 10) ++ [CH_0 + n mod 10].
Proof.
  intros n.
  pose proof (lt_pow2_log2 n) as L.
  rewrite (dec_digs n _ L). cbn [digs].
  destruct (n <? 10) eqn:E.
  - assert (n / 10 = 0) as -> by lia. cbn [N.eqb app]. f_equal. f_equal. lia.
  - destruct (n / 10 =? 0) eqn:E2; [lia|].
    f_equal. symmetry.
    destruct (N.to_nat (N.log2 n)) as [|k] eqn:Ek.
    + change (2 ^ N.of_nat 1) with 2 in L. lia.
    + apply dec_digs. rewrite pow2_S in L. lia.
Qed.

Lemma dval_app1 : forall l c, dval (l ++ [c]) = 10 * dval l + (c - CH_0).
Proof. intros l c. unfold dval. rewrite fold_left_app. reflexivity. Qed.

Lemma N_strong_ind : forall (P : N -> Prop),
  (forall n, (forall m, m < n -> P m) -> P n) -> forall n, P n.
Proof.
  intros P H n. apply H. induction n as [|n IH] using N.peano_ind; intros m Hm; [lia|].
  apply H. intros k Hk. apply IH. lia.
Qed.

(** [dec n] denotes [n] *)
Lemma dval_dec : forall n, dval (dec n) = n.
Proof.
  induction n as [n IH] using N_strong_ind.
  rewrite dec_unfold. destruct (n <? 10) eqn:E.
  - unfold dval, CH_0. cbn [fold_left]. lia.
  - rewrite dval_app1, IH by lia. unfold CH_0. lia.
Qed.

(** all characters are decimal digits *)
Lemma dec_digits : forall n, Forall is_digit (dec n).
Proof.
  induction n as [n IH] using N_strong_ind.
  rewrite dec_unfold. destruct (n <? 10) eqn:E.
  - constructor; [|constructor]. unfold is_digit, CH_0. lia.
  - apply Forall_app. split; [apply IH; lia|].
    constructor; [|constructor]. unfold is_digit, CH_0. lia.
Qed.

Lemma dec_nonempty : forall n, dec n <> [].
Proof.
  intros n. rewrite dec_unfold. destruct (n <? 10); [discriminate|].
  intros H. apply app_eq_nil in H. destruct H as [_ H]. discriminate H.
Qed.

(** no leading zero, except for the numeral "0" itself *)
Lemma dec_head : forall n, 0 < n -> exists c r, dec n = c :: r /\ c <> CH_0.
Proof.
  induction n as [n IH] using N_strong_ind. intros Hn.
  rewrite dec_unfold. destruct (n <? 10) eqn:E.
  - exists (CH_0 + n), []. split; [reflexivity|]. unfold CH_0. lia.
  - destruct (IH (n / 10)) as (c & r & Hc & Hz); [lia|lia|].
    rewrite Hc. exists c, (r ++ [CH_0 + n mod 10]). split; [reflexivity|exact Hz].
Qed.

Lemma dec_0 : dec 0 = [CH_0].
Proof. reflexivity. Qed.

(** number of digits: 10^(k-1) <= n < 10^k *)
Lemma dec_length : forall n, 0 < n ->
  10 ^ (len (dec n) - 1) <= n < 10 ^ len (dec n).
Proof.
  induction n as [n IH] using N_strong_ind. intros Hn.
  rewrite dec_unfold. destruct (n <? 10) eqn:E.
  - unfold len. cbn [List.length]. change (10 ^ (N.of_nat 1 - 1)) with 1. change (10 ^ N.of_nat 1) with 10. lia.
  - unfold len in *. rewrite app_length. cbn [List.length].
    specialize (IH (n / 10) ltac:(lia) ltac:(lia)).
    assert (List.length (dec (n / 10)) <> 0%nat) as Hl.
    { pose proof (dec_nonempty (n / 10)). destruct (dec (n / 10)); [congruence|discriminate]. }
    replace (N.of_nat (List.length (dec (n / 10)) + 1) - 1) with (N.succ (N.of_nat (List.length (dec (n / 10))) - 1)) by lia.
    replace (N.of_nat (List.length (dec (n / 10)) + 1)) with (N.succ (N.of_nat (List.length (dec (n / 10))))) by lia.
    rewrite !N.pow_succ_r'. lia.
Qed.

(* ================================================================== the comma loop *)

Lemma len_cons : forall c (r : list N), len (c :: r) = len r + 1.
Proof. intros. unfold len. cbn [List.length]. lia. Qed.

(** the usize subtraction [len - idx - 1] never underflows: no panic *)
Lemma group_loop_ok : forall cs ln idx, ln = idx + len cs -> group_loop ln idx cs = Ok (group cs).
Proof.
  induction cs as [|c r IH]; intros ln idx H; [reflexivity|].
  cbn [group_loop group]. rewrite len_cons in H.
  destruct (ln <? idx + 1) eqn:E; [lia|].
  rewrite (IH ln (idx + 1)) by lia.
  replace (ln - idx - 1) with (len r) by lia. reflexivity.
Qed.


Lemma strip_group : forall cs, Forall (fun c => c <> CH_COMMA) cs -> strip_commas (group cs) = cs.
Proof.
  induction cs as [|c r IH]; intros H; [reflexivity|].
  inversion H as [|? ? Hc Hr]; subst.
  cbn [group]. unfold strip_commas in *. cbn [filter].
  destruct (c =? CH_COMMA) eqn:E; [apply N.eqb_eq in E; contradiction|].
  cbn [negb]. f_equal.
  rewrite filter_app.
  destruct ((0 <? len r) && (len r mod 3 =? 0)); cbn [filter N.eqb CH_COMMA Pos.eqb negb app]; apply IH; exact Hr.
Qed.

Lemma group_length : forall cs,
  List.length (group cs) = (List.length cs + (List.length cs - 1) / 3)%nat.
Proof.
  induction cs as [|c r IH]; [reflexivity|].
  cbn [group List.length]. rewrite app_length, IH. unfold len.
  destruct ((0 <? N.of_nat (List.length r)) && (N.of_nat (List.length r) mod 3 =? 0)) eqn:E; cbn [List.length]; lia.
Qed.

(** position of the commas: the character at index [j] of the grouped string is a
    comma iff its distance to the end of the string is a multiple of four *)
Lemma group_commas : forall cs, Forall (fun c => c <> CH_COMMA) cs ->
  forall j, (j < List.length (group cs))%nat ->
  (nth j (group cs) 0 =? CH_COMMA) = (((List.length (group cs) - j) mod 4 =? 0)%nat).
Proof.
  induction cs as [|c r IH]; intros H j Hj; [cbn in Hj; lia|].
  inversion H as [|? ? Hc Hr]; subst.
  specialize (IH Hr).
  pose proof (group_length r) as GL.
  cbn [group] in *. cbn [List.length] in *. rewrite app_length in *. unfold len in *.
  destruct ((0 <? N.of_nat (List.length r)) && (N.of_nat (List.length r) mod 3 =? 0)) eqn:E;
    cbn [List.length app] in *.
  - destruct j as [|[|j]].
    + cbn [nth]. destruct (c =? CH_COMMA) eqn:E2; [apply N.eqb_eq in E2; contradiction|].
      symmetry. apply Nat.eqb_neq. lia.
    + cbn [nth]. change (CH_COMMA =? CH_COMMA) with true. symmetry. apply Nat.eqb_eq. lia.
    + cbn [nth]. rewrite IH by lia. f_equal.
  - destruct j as [|j].
    + cbn [nth]. destruct (c =? CH_COMMA) eqn:E2; [apply N.eqb_eq in E2; contradiction|].
      symmetry. apply Nat.eqb_neq. lia.
    + cbn [nth]. rewrite IH by lia. f_equal.
Qed.

Lemma digit_not_comma : forall l, Forall is_digit l -> Forall (fun c => c <> CH_COMMA) l.
Proof.
  intros l H. eapply Forall_impl; [|exact H].
  intros c Hc. unfold is_digit, CH_0, CH_COMMA in *. lia.
Qed.

(* ------------------------------------------------------------------ HumanCount *)
Lemma human_count_ok : forall n, human_count n = Ok (group (dec n)).
Proof. intros n. unfold human_count. apply group_loop_ok. lia. Qed.

(* ================================================================== FormattedDuration *)

Lemma pad2_dec : forall x, x < 100 -> pad0 2 (dec x) = two x.
Proof.
  intros x H. rewrite dec_unfold. destruct (x <? 10) eqn:E.
  - unfold pad0, two. cbn [List.length Nat.sub repeat app].
    replace (x / 10) with 0 by lia. replace (x mod 10) with x by lia. reflexivity.
  - rewrite dec_unfold. destruct (x / 10 <? 10) eqn:E2; [|lia].
    unfold pad0, two. cbn [List.length app Nat.sub repeat]. reflexivity.
Qed.

Lemma formatted_duration_spec : forall secs nanos,
  let d := secs / 86400 in
  let h := (secs / 3600) mod 24 in
  let m := (secs / 60) mod 60 in
  let s := secs mod 60 in
  formatted_duration secs nanos =
    (if d =? 0 then [] else dec d ++ str "d ") ++ two h ++ [CH_COLON] ++ two m ++ [CH_COLON] ++ two s
  /\ secs = ((d * 24 + h) * 60 + m) * 60 + s /\ h < 24 /\ m < 60 /\ s < 60.
Proof.
  intros secs nanos d h m s.
  assert (secs / 60 / 60 = secs / 3600) as E1 by (rewrite N.div_div by lia; reflexivity).
  assert (secs / 60 / 60 / 24 = secs / 86400) as E2 by (rewrite !N.div_div by lia; reflexivity).
  split; [|subst d h m s; lia].
  unfold formatted_duration. rewrite E2, E1. fold d h m s.
  rewrite !pad2_dec by (subst h m s; lia).
  destruct (0 <? d) eqn:E; destruct (d =? 0) eqn:E'; try lia.
  - rewrite <- !app_assoc. reflexivity.
  - reflexivity.
Qed.

(** the decomposition into days / hours / minutes / seconds is unique *)
Lemma dhms_unique : forall d h m s d' h' m' s',
  h < 24 -> m < 60 -> s < 60 -> h' < 24 -> m' < 60 -> s' < 60 ->
  ((d * 24 + h) * 60 + m) * 60 + s = ((d' * 24 + h') * 60 + m') * 60 + s' ->
  d = d' /\ h = h' /\ m = m' /\ s = s'.
Proof. intros. lia. Qed.

(* ================================================================== HumanDuration: unit selection *)

Lemma hd_step : forall d cur next,
  3 * (cur * NANOS_PER_SEC) <= 2 * DUR_MAX_NS ->
  dur_add (dur_ns cur 0) (dur_div (dur_ns cur 0) 2) = Ok (dur_ns cur 0 + dur_ns cur 0 / 2)
  /\ ((dur_ns cur 0 + dur_ns cur 0 / 2 <=? dur_sat_add d (dur_div (dur_ns next 0) 2))
      = (3 * (cur * NANOS_PER_SEC) <=? 2 * d + next * NANOS_PER_SEC)).
Proof.
  intros d cur next H. unfold dur_add, dur_div, dur_sat_add, dur_ns in *.
  rewrite !N.add_0_r.
  assert (NANOS_PER_SEC = 2 * 500000000) as EN by reflexivity.
  assert (cur * NANOS_PER_SEC / 2 = cur * 500000000) as E1 by (rewrite EN; lia).
  assert (next * NANOS_PER_SEC / 2 = next * 500000000) as E2 by (rewrite EN; lia).
  rewrite E1, E2. split.
  - destruct (cur * NANOS_PER_SEC + cur * 500000000 <=? DUR_MAX_NS) eqn:E; [reflexivity|lia].
  - apply eq_true_iff_eq. rewrite !N.leb_le. lia.
Qed.

(** the loop of lines 109-116 never panics and returns the first qualifying unit *)
Lemma hd_loop_spec : forall d, hd_loop d 0 UNITS 0 = Ok (hd_idx d).
Proof.
  intros d.
  assert (forall cur, cur <= 31536000 -> 3 * (cur * NANOS_PER_SEC) <= 2 * DUR_MAX_NS) as B.
  { intros cur Hc. unfold NANOS_PER_SEC, DUR_MAX_NS, dur_ns, U64MAX, NANOS_PER_SEC. lia. }
  unfold UNITS, hd_idx, qualifies. cbn [hd_loop].
  unfold unit_ns, unit_secs, UNITS. cbn [nth_error].
  repeat match goal with
  | |- context [dur_add (dur_ns ?c 0) (dur_div (dur_ns ?c 0) 2)] =>
      rewrite (proj1 (hd_step d c 0 ltac:(apply B; lia)))
  end.
  repeat match goal with
  | |- context [dur_ns ?c 0 + dur_ns ?c 0 / 2 <=? dur_sat_add d (dur_div (dur_ns ?n 0) 2)] =>
      rewrite (proj2 (hd_step d c n ltac:(apply B; lia)))
  end.
  repeat match goal with |- context [if ?b then _ else _] => destruct b end; reflexivity.
Qed.

(** characterisation: the chosen unit qualifies (unless it is the last one) and no larger unit does *)
Lemma hd_idx_rule : forall d,
  (hd_idx d <= 5)%nat
  /\ (forall j, (j < hd_idx d)%nat -> qualifies d j = false)
  /\ ((hd_idx d < 5)%nat -> qualifies d (hd_idx d) = true).
Proof.
  intros d. unfold hd_idx.
  destruct (qualifies d 0) eqn:Q0; [repeat split; try lia; auto|].
  destruct (qualifies d 1) eqn:Q1; [repeat split; try lia; auto; intros j Hj; assert (j = 0)%nat as -> by lia; assumption|].
  destruct (qualifies d 2) eqn:Q2; [repeat split; try lia; auto; intros j Hj; destruct j as [|[|j]]; try assumption; lia|].
  destruct (qualifies d 3) eqn:Q3; [repeat split; try lia; auto; intros j Hj; destruct j as [|[|[|j]]]; try assumption; lia|].
  destruct (qualifies d 4) eqn:Q4; [repeat split; try lia; auto; intros j Hj; destruct j as [|[|[|[|j]]]]; try assumption; lia|].
  repeat split; try lia. intros j Hj; destruct j as [|[|[|[|[|j]]]]]; try assumption; lia.
Qed.

Lemma qualifies_mono : forall d d' i, d <= d' -> qualifies d i = true -> qualifies d' i = true.
Proof. intros d d' i H. unfold qualifies. rewrite !N.leb_le. lia. Qed.

(** a longer duration never selects a smaller unit *)
Lemma hd_idx_antitone : forall d d', d <= d' -> (hd_idx d' <= hd_idx d)%nat.
Proof.
  intros d d' H.
  destruct (hd_idx_rule d) as (B & _ & Q).
  destruct (hd_idx_rule d') as (B' & NQ' & _).
  destruct (le_lt_dec (hd_idx d') (hd_idx d)) as [L|L]; [exact L|exfalso].
  specialize (NQ' _ L). rewrite (qualifies_mono d d' _ H) in NQ'; [discriminate|].
  apply Q. lia.
Qed.

(** explicit switch points in nanoseconds (1.5 unit - half the next smaller unit) *)
Lemma hd_idx_thresholds : forall d,
  hd_idx d =
    if 47001600000000000 <=? d then 0%nat        (* 1.5 y - 0.5 w = 544 d *)
    else if 864000000000000 <=? d then 1%nat     (* 1.5 w - 0.5 d  = 10 d *)
    else if 127800000000000 <=? d then 2%nat     (* 1.5 d - 0.5 h  = 35.5 h *)
    else if 5370000000000 <=? d then 3%nat       (* 1.5 h - 0.5 m  = 89.5 m *)
    else if 89500000000 <=? d then 4%nat         (* 1.5 m - 0.5 s  = 89.5 s *)
    else 5%nat.
Proof.
  intros d. unfold hd_idx, qualifies, unit_ns, unit_secs, UNITS, NANOS_PER_SEC. cbn [nth_error].
  repeat match goal with |- context [?a <=? ?b] =>
    let E := fresh "E" in destruct (a <=? b) eqn:E; [apply N.leb_le in E|apply N.leb_gt in E] end;
  try reflexivity; lia.
Qed.

(* ================================================================== HumanDuration: shape of the output *)

Lemma human_duration_spec : forall secs nanos alternate,
  let i := hd_idx (dur_ns secs nanos) in
  let t := hd_count secs nanos i in
  human_duration secs nanos alternate =
    Ok (if alternate then dec t ++ str (unit_alt i)
        else if t =? 1 then dec t ++ [CH_SP] ++ str (unit_name i)
        else dec t ++ [CH_SP] ++ str (unit_name i) ++ str "s")
  /\ ((i < 5)%nat -> 2 <= t).
Proof.
  intros secs nanos alternate i t.
  split; [|intros Hi; subst t; unfold hd_count; apply Nat.ltb_lt in Hi; rewrite Hi; lia].
  unfold human_duration. rewrite hd_loop_spec. fold i.
  destruct (hd_idx_rule (dur_ns secs nanos)) as (B & _). fold i in B.
  subst t. unfold hd_count, hd_raw_count, unit_name, unit_alt, unit_secs.
  destruct i as [|[|[|[|[|[|i]]]]]]; [| | | | | |lia]; unfold UNITS; cbn [nth_error];
    change (List.length _ =? 0)%nat with false; cbv iota;
    change (List.length _ - 1)%nat with 5%nat; reflexivity.
Qed.

(* ================================================================== number_prefix loop *)

(** exact description of the while loop: it performs [k] divisions where [k] is the first
    index (at most 8) at which the running amount is below [kilo] *)
Lemma np_loop_spec : forall fuel a kilo p,
  p <= 8 -> (8 - N.to_nat p < fuel)%nat ->
  exists k : nat,
    np_loop fuel a kilo p = (div_iter k a kilo, p + N.of_nat k)
    /\ p + N.of_nat k <= 8
    /\ (forall j, (j < k)%nat -> BinarySingleNaN.Bleb kilo (div_iter j a kilo) = true)
    /\ (p + N.of_nat k = 8 \/ BinarySingleNaN.Bleb kilo (div_iter k a kilo) = false).
Proof.
  induction fuel as [|fuel IH]; intros a kilo p Hp Hf; [lia|].
  cbn [np_loop].
  destruct (BinarySingleNaN.Bleb kilo a) eqn:E1; cbn [andb].
  - destruct (p <? 8) eqn:E2.
    + destruct (IH (fdiv a kilo) kilo (p + 1)) as (k & H1 & H2 & H3 & H4); [lia|lia|].
      exists (S k). cbn [div_iter]. rewrite H1. repeat split.
      * f_equal. lia.
      * lia.
      * intros j Hj. destruct j as [|j]; [exact E1|]. cbn [div_iter]. apply H3. lia.
      * destruct H4 as [H4|H4]; [left; lia|right; exact H4].
    + exists 0%nat. cbn [div_iter]. repeat split; try lia.
      f_equal. lia.
  - exists 0%nat. cbn [div_iter]. repeat split; try lia; [f_equal; lia|right; exact E1].
Qed.

Lemma number_prefix_le8 : forall a kilo, snd (number_prefix a kilo) <= 8.
Proof.
  intros a kilo. unfold number_prefix.
  destruct (np_loop_spec 9 (if BinarySingleNaN.Bsign a then f64_neg a else a) kilo 0) as (k & E & L & _);
    [lia|cbn; lia|].
  rewrite E. cbn [snd]. exact L.
Qed.

(** [prefixes[prefix - 1]] (number_prefix lib.rs:310) is always inside the array of 8 *)
Lemma bytes_fmt_ok : forall binary n, exists s, bytes_fmt binary n = Ok s.
Proof.
  intros binary n. unfold bytes_fmt.
  pose proof (number_prefix_le8 (f64_of_N n) (f64_of_N (if binary then 1024 else 1000))) as L.
  destruct (number_prefix (f64_of_N n) (f64_of_N (if binary then 1024 else 1000))) as [number prefix].
  cbn [snd] in L.
  destruct (prefix =? 0) eqn:E0; [eexists; reflexivity|].
  assert (exists j, N.to_nat (prefix - 1) = j /\ (j < 8)%nat) as (j & -> & Hj) by (eexists; split; [reflexivity|lia]).
  destruct binary; do 8 (destruct j as [|j]; [eexists; reflexivity|]); lia.
Qed.

(* ================================================================== fixed-precision digits *)

Lemma lastdigs_length : forall p r, List.length (lastdigs p r) = p.
Proof. induction p as [|p IH]; intros r; [reflexivity|]. cbn [lastdigs]. rewrite app_length, IH. cbn. lia. Qed.

Lemma repeat_snoc : forall (c : N) k, repeat c k ++ [c] = c :: repeat c k.
Proof. induction k as [|k IH]; [reflexivity|]. cbn [repeat app]. rewrite IH. reflexivity. Qed.

Lemma lastdigs_0 : forall p, lastdigs p 0 = repeat CH_0 p.
Proof.
  induction p as [|p IH]; [reflexivity|]. cbn [lastdigs repeat].
  change (0 / 10) with 0. rewrite IH. change (CH_0 + 0 mod 10) with CH_0. apply repeat_snoc.
Qed.

Lemma lastdigs_digits : forall p r, Forall is_digit (lastdigs p r).
Proof.
  induction p as [|p IH]; intros r; [constructor|]. cbn [lastdigs].
  apply Forall_app. split; [apply IH|]. constructor; [|constructor]. unfold is_digit, CH_0. lia.
Qed.

(** value of the last digits *)
Lemma lastdigs_val : forall p r, r < 10 ^ N.of_nat p -> dval (lastdigs p r) = r.
Proof.
  induction p as [|p IH]; intros r H.
  - change (10 ^ N.of_nat 0) with 1 in H. assert (r = 0) as -> by lia. reflexivity.
  - cbn [lastdigs]. rewrite dval_app1. rewrite Nat2N.inj_succ, N.pow_succ_r' in H.
    rewrite IH by lia. unfold CH_0. lia.
Qed.

Lemma pad0_snoc : forall w l c, pad0 (S w) (l ++ [c]) = pad0 w l ++ [c].
Proof.
  intros w l c. unfold pad0. rewrite app_length. cbn [List.length].
  replace (S w - (List.length l + 1))%nat with (w - List.length l)%nat by lia.
  rewrite app_assoc. reflexivity.
Qed.

Lemma pow10_S : forall p, 10 ^ N.of_nat (S p) = 10 * 10 ^ N.of_nat p.
Proof. intros p. rewrite Nat2N.inj_succ, N.pow_succ_r'. reflexivity. Qed.

Lemma pow10_pos : forall p, 0 < 10 ^ p.
Proof. intros p. apply N.neq_0_lt_0. apply N.pow_nonzero. discriminate. Qed.

Lemma mod_10K : forall q K, 0 < K ->
  (q mod (10 * K)) / 10 = (q / 10) mod K /\ (q mod (10 * K)) mod 10 = q mod 10 /\ q / (10 * K) = q / 10 / K.
Proof.
  intros q K HK.
  pose proof (N.mod_mul_r q 10 K ltac:(lia) ltac:(lia)) as E.
  assert ((q / 10) mod K < K) as B by (apply N.mod_lt; lia).
  rewrite E. set (x := (q / 10) mod K) in *. clearbody x.
  rewrite N.div_div by lia.
  repeat split.
  - rewrite N.mul_comm, N.div_add by lia. rewrite (N.div_small (q mod 10)) by lia. lia.
  - rewrite N.mul_comm, N.mod_add by lia. rewrite N.mod_mod by lia. reflexivity.
Qed.

(** the numeral of q, padded to at least p+1 digits, is the numeral of q / 10^p followed
    by the p last digits of q *)
Lemma split_dec : forall p q,
  pad0 (S p) (dec q) = dec (q / 10 ^ N.of_nat p) ++ lastdigs p (q mod 10 ^ N.of_nat p).
Proof.
  induction p as [|p IH]; intros q.
  - change (10 ^ N.of_nat 0) with 1. rewrite N.div_1_r. cbn [lastdigs]. rewrite app_nil_r.
    unfold pad0. pose proof (dec_nonempty q). destruct (dec q) as [|c r]; [congruence|].
    cbn [List.length]. replace (1 - S (List.length r))%nat with 0%nat by lia. reflexivity.
  - rewrite pow10_S. pose proof (pow10_pos (N.of_nat p)) as HK.
    destruct (mod_10K q (10 ^ N.of_nat p) HK) as (M1 & M2 & M3).
    cbn [lastdigs]. rewrite M1, M2, M3.
    rewrite (dec_unfold q). destruct (q <? 10) eqn:E.
    + assert (q / 10 = 0) as -> by lia. rewrite N.div_0_l, N.mod_0_l by lia.
      rewrite lastdigs_0. replace (q mod 10) with q by lia.
      unfold pad0. cbn [List.length]. replace (S (S p) - 1)%nat with (S p) by lia.
      cbn [repeat]. rewrite dec_0. reflexivity.
    + rewrite pad0_snoc, IH, <- app_assoc. reflexivity.
Qed.

Lemma firstn_skipn_app : forall (a b : list N),
  firstn (List.length (a ++ b) - List.length b) (a ++ b) = a /\
  skipn (List.length (a ++ b) - List.length b) (a ++ b) = b.
Proof.
  intros a b. rewrite app_length. replace (List.length a + List.length b - List.length b)%nat with (List.length a + 0)%nat by lia.
  split.
  - rewrite firstn_app_2. cbn [firstn]. apply app_nil_r.
  - rewrite skipn_app, skipn_all2 by lia. replace (List.length a + 0 - List.length a)%nat with 0%nat by lia. reflexivity.
Qed.

Lemma fixed_digits_spec : forall p q,
  fixed_digits p q = dec (q / 10 ^ p) ++
    (if p =? 0 then [] else CH_DOT :: lastdigs (N.to_nat p) (q mod 10 ^ p)).
Proof.
  intros p q. unfold fixed_digits. rewrite split_dec, N2Nat.id.
  set (a := dec (q / 10 ^ p)). set (b := lastdigs (N.to_nat p) (q mod 10 ^ p)).
  assert (List.length b = N.to_nat p) as Lb by apply lastdigs_length.
  rewrite <- Lb. destruct (firstn_skipn_app a b) as [-> ->]. reflexivity.
Qed.

(* ================================================================== str helpers *)
Lemma split_once_none : forall c l, Forall (fun x => x <> c) l -> split_once c l = None.
Proof.
  induction l as [|x r IH]; intros H; [reflexivity|]. inversion H; subst. cbn [split_once].
  destruct (x =? c) eqn:E; [apply N.eqb_eq in E; contradiction|]. rewrite IH by assumption. reflexivity.
Qed.

Lemma split_once_app : forall c a b, Forall (fun x => x <> c) a -> split_once c (a ++ c :: b) = Some (a, b).
Proof.
  induction a as [|x r IH]; intros b H.
  - cbn [app split_once]. rewrite N.eqb_refl. reflexivity.
  - inversion H; subst. cbn [app split_once].
    destruct (x =? c) eqn:E; [apply N.eqb_eq in E; contradiction|]. rewrite IH by assumption. reflexivity.
Qed.

(** trim_end removes exactly the maximal suffix of [c]s *)
Lemma trim_end_spec : forall c l, exists k,
  l = trim_end c l ++ repeat c k /\ (forall t x, trim_end c l = t ++ [x] -> x <> c).
Proof.
  induction l as [|x r IH].
  - exists 0%nat. split; [reflexivity|]. intros t0 z H. destruct t0; discriminate H.
  - destruct IH as (k & E & L). cbn [trim_end].
    destruct (trim_end c r) as [|y t'] eqn:T.
    + destruct (x =? c) eqn:X.
      * apply N.eqb_eq in X. subst x. exists (S k). split; [cbn [app repeat]; rewrite E at 1; reflexivity|].
        intros t0 z H. destruct t0; discriminate H.
      * exists k. split; [cbn [app]; rewrite E at 1; reflexivity|].
        intros t0 z H. destruct t0 as [|? [|]]; try discriminate H. injection H as <-. apply N.eqb_neq. exact X.
    + exists k. split; [cbn [app]; rewrite E at 1; reflexivity|].
      intros t0 z H. destruct t0 as [|w t0]; [discriminate H|]. injection H as _ H. apply (L t0 z H).
Qed.

(* ================================================================== HumanFloatCount *)

Lemma digit_not : forall c l, ~ is_digit c -> Forall is_digit l -> Forall (fun x => x <> c) l.
Proof. intros c l Hc H. eapply Forall_impl; [|exact H]. intros a Ha E. subst a. contradiction. Qed.

Lemma sign_digits_no_dot : forall s a, Forall is_digit a -> Forall (fun x => x <> CH_DOT) (sign_str s ++ a).
Proof.
  intros s a H. apply Forall_app. split.
  - destruct s; cbn; repeat constructor. discriminate.
  - apply digit_not; [|exact H]. unfold is_digit, CH_DOT, CH_0. lia.
Qed.

Lemma hfc_tail : forall s a frac_part,
  Forall is_digit a -> a <> [] ->
  (let '(sgn, int_part) :=
     match sign_str s ++ a with
     | c :: digits => if c =? CH_MINUS then ([CH_MINUS], digits) else ([], sign_str s ++ a)
     | [] => ([], sign_str s ++ a)
     end in
   match group_loop (len int_part) 0 int_part with
   | Panic k => Panic k
   | Ok grouped =>
       let frac_trimmed := trim_end CH_0 frac_part in
       Ok (sgn ++ grouped ++ (if (List.length frac_trimmed =? 0)%nat then [] else CH_DOT :: frac_trimmed))
   end)
  = Ok (sign_str s ++ group a ++
        (if (List.length (trim_end CH_0 frac_part) =? 0)%nat then [] else CH_DOT :: trim_end CH_0 frac_part)).
Proof.
  intros s a fp Ha Hne. destruct s; cbn [sign_str app].
  - change (CH_MINUS =? CH_MINUS) with true. cbv iota.
    rewrite group_loop_ok by lia. reflexivity.
  - destruct a as [|c r]; [congruence|]. inversion Ha as [|? ? Hc Hr]; subst.
    destruct (c =? CH_MINUS) eqn:E.
    + apply N.eqb_eq in E. unfold is_digit, CH_MINUS, CH_0 in *. lia.
    + rewrite group_loop_ok by lia. reflexivity.
Qed.

Lemma hfc_core : forall precision s q,
  let p := prec_of precision in
  (let num := sign_str s ++ fixed_digits p q in
   let '(int_part, frac_part) :=
     match split_once CH_DOT num with
     | Some (a, b) => (a, b)
     | None => (num, [])
     end in
   let '(sgn, int_part) :=
     match int_part with
     | c :: digits => if c =? CH_MINUS then ([CH_MINUS], digits) else ([], int_part)
     | [] => ([], int_part)
     end in
   match group_loop (len int_part) 0 int_part with
   | Panic k => Panic k
   | Ok grouped =>
       let frac_trimmed := trim_end CH_0 frac_part in
       Ok (sgn ++ grouped ++ (if (List.length frac_trimmed =? 0)%nat then [] else CH_DOT :: frac_trimmed))
   end) = Ok (hfc_out p s q).
Proof.
  intros precision s q p. cbv zeta. rewrite fixed_digits_spec.
  pose proof (dec_digits (q / 10 ^ p)) as Ha. pose proof (dec_nonempty (q / 10 ^ p)) as Hne.
  unfold hfc_out, hfc_frac.
  destruct (p =? 0) eqn:E.
  - apply N.eqb_eq in E. rewrite E in *. rewrite app_nil_r.
    rewrite split_once_none by (apply sign_digits_no_dot; exact Ha).
    exact (hfc_tail s _ [] Ha Hne).
  - rewrite app_assoc. rewrite split_once_app by (apply sign_digits_no_dot; exact Ha).
    exact (hfc_tail s _ _ Ha Hne).
Qed.

Lemma hfc_finite : forall precision s m e,
  human_float_count_sf precision (S754_finite s m e)
  = Ok (hfc_out (prec_of precision) s (scaled m e (prec_of precision))).
Proof. intros. apply (hfc_core precision s). Qed.

Lemma hfc_zero : forall precision s,
  human_float_count_sf precision (S754_zero s) = Ok (sign_str s ++ [CH_0]).
Proof.
  intros precision s. transitivity (Ok (hfc_out (prec_of precision) s 0)); [apply (hfc_core precision s 0)|].
  f_equal. unfold hfc_out, hfc_frac.
  rewrite N.div_0_l, N.mod_0_l by (apply N.pow_nonzero; discriminate).
  rewrite lastdigs_0.
  assert (forall k, trim_end CH_0 (repeat CH_0 k) = []) as T.
  { induction k as [|k IH]; [reflexivity|]. cbn [repeat trim_end]. rewrite IH. reflexivity. }
  rewrite T. reflexivity.
Qed.

Lemma hfc_nan : forall precision, human_float_count_sf precision S754_nan = Ok (str "NaN").
Proof. intros precision. destruct precision; reflexivity. Qed.

Lemma hfc_inf : forall precision s,
  human_float_count_sf precision (S754_infinity s) = Ok (sign_str s ++ str "inf").
Proof. intros precision s. destruct precision, s; reflexivity. Qed.

(** [scaled m e p] is m * 2^e * 10^p rounded to the nearest integer, ties to even *)
Lemma round_he_div_spec : forall a b, 0 < b ->
  let q := round_he_div a b in
  (2 * (q * b) <= 2 * a + b) /\ (2 * a <= 2 * (q * b) + b)
  /\ ((2 * (q * b) = 2 * a + b \/ 2 * a = 2 * (q * b) + b) -> N.even q = true).
Proof.
  intros a b Hb. unfold round_he_div.
  pose proof (N.div_mod a b ltac:(lia)) as DM. pose proof (N.mod_lt a b ltac:(lia)) as ML.
  set (k := a / b) in *. set (r := a mod b) in *. clearbody k r.
  destruct (2 * r ?= b) eqn:C.
  - rewrite N.compare_eq_iff in C. destruct (N.even k) eqn:Ev; cbv beta iota zeta.
    + split; [nia|]. split; [nia|]. intros _. exact Ev.
    + split; [nia|]. split; [nia|]. intros _. rewrite N.even_add, Ev. reflexivity.
  - rewrite N.compare_lt_iff in C. cbv beta iota zeta.
    split; [nia|]. split; [nia|]. intros [H|H]; nia.
  - rewrite N.compare_gt_iff in C. cbv beta iota zeta.
    split; [nia|]. split; [nia|]. intros [H|H]; nia.
Qed.

Lemma scaled_spec : forall m e p,
  let q := scaled m e p in
  match e with
  | Z0 => q = Npos m * 10 ^ p
  | Zpos k => q = Npos m * 2 ^ Npos k * 10 ^ p
  | Zneg k =>
      let b := 2 ^ Npos k in let a := Npos m * 10 ^ p in
      (2 * (q * b) <= 2 * a + b) /\ (2 * a <= 2 * (q * b) + b)
      /\ ((2 * (q * b) = 2 * a + b \/ 2 * a = 2 * (q * b) + b) -> N.even q = true)
  end.
Proof.
  intros m e p. destruct e as [|k|k]; cbv zeta; try reflexivity.
  cbn [scaled]. apply round_he_div_spec. apply N.neq_0_lt_0. apply N.pow_nonzero. discriminate.
Qed.

(* ================================================================== totality *)
Lemma decode64_cases : forall bits,
  (exists s, decode64 bits = S754_zero s) \/ (exists s, decode64 bits = S754_infinity s)
  \/ decode64 bits = S754_nan \/ (exists s m e, decode64 bits = S754_finite s m e).
Proof.
  intros bits. unfold decode64.
  destruct ((bits / 2 ^ 52) mod 2048 =? 2047).
  - destruct (bits mod 2 ^ 52 =? 0); [right; left; eexists; reflexivity|right; right; left; reflexivity].
  - destruct ((bits / 2 ^ 52) mod 2048 =? 0).
    + destruct (bits mod 2 ^ 52); [left; eexists; reflexivity|right; right; right; do 3 eexists; reflexivity].
    + destruct (bits mod 2 ^ 52 + 2 ^ 52); [left; eexists; reflexivity|right; right; right; do 3 eexists; reflexivity].
Qed.

(** no formatter of the model ever reaches a panic site, for any input whatsoever *)
Lemma fmt_total : forall c, exists s, fmt_model c = Ok s.
Proof.
  intros [n|s n|s n a|k n|p b]; cbn [fmt_model].
  - rewrite human_count_ok. eexists; reflexivity.
  - eexists; reflexivity.
  - destruct (human_duration_spec s n a) as [-> _]. eexists; reflexivity.
  - apply bytes_fmt_ok.
  - unfold human_float_count.
    destruct (decode64_cases b) as [(s & ->)|[(s & ->)|[->|(s & m & e & ->)]]].
    + rewrite hfc_zero. eexists; reflexivity.
    + rewrite hfc_inf. eexists; reflexivity.
    + rewrite hfc_nan. eexists; reflexivity.
    + rewrite hfc_finite. eexists; reflexivity.
Qed.

(* ================================================================== statements exported by props/C15.v *)
Lemma count_numeral : forall n, exists out,
  human_count n = Ok out /\ strip_commas out = dec n
  /\ Forall is_digit (dec n) /\ dval (dec n) = n
  /\ (0 < n -> exists c r, dec n = c :: r /\ c <> CH_0)
  /\ (0 < n -> 10 ^ (len (dec n) - 1) <= n < 10 ^ len (dec n)).
Proof.
  intros n. exists (group (dec n)). split; [apply human_count_ok|].
  split; [apply strip_group, digit_not_comma, dec_digits|].
  split; [apply dec_digits|]. split; [apply dval_dec|]. split; [apply dec_head|apply dec_length].
Qed.

Lemma count_commas : forall n, exists out,
  human_count n = Ok out
  /\ List.length out = (List.length (dec n) + (List.length (dec n) - 1) / 3)%nat
  /\ forall j, (j < List.length out)%nat ->
       (nth j out 0 =? CH_COMMA) = (((List.length out - j) mod 4 =? 0)%nat).
Proof.
  intros n. exists (group (dec n)). split; [apply human_count_ok|].
  split; [apply group_length|apply group_commas, digit_not_comma, dec_digits].
Qed.

Lemma hd_select : forall d,
  hd_loop d 0 UNITS 0 = Ok (hd_idx d)
  /\ (hd_idx d <= 5)%nat
  /\ (forall j, (j < hd_idx d)%nat -> qualifies d j = false)
  /\ ((hd_idx d < 5)%nat -> qualifies d (hd_idx d) = true)
  /\ (forall d', d <= d' -> (hd_idx d' <= hd_idx d)%nat).
Proof.
  intros d. split; [apply hd_loop_spec|]. destruct (hd_idx_rule d) as (A & B & C).
  repeat split; try assumption. intros d'. apply hd_idx_antitone.
Qed.

Lemma prefix_loop : forall a kilo,
  exists k : nat,
    np_loop 9 a kilo 0 = (div_iter k a kilo, N.of_nat k)
    /\ (k <= 8)%nat
    /\ (forall j, (j < k)%nat -> BinarySingleNaN.Bleb kilo (div_iter j a kilo) = true)
    /\ (k = 8%nat \/ BinarySingleNaN.Bleb kilo (div_iter k a kilo) = false).
Proof.
  intros a kilo. destruct (np_loop_spec 9 a kilo 0) as (k & H1 & H2 & H3 & H4); [lia|cbn; lia|].
  exists k. rewrite N.add_0_l in *. split; [exact H1|]. split; [lia|]. split; [exact H3|].
  destruct H4 as [H4|H4]; [left; lia|right; exact H4].
Qed.

Lemma fixed_digits_full : forall p q,
  fixed_digits p q = dec (q / 10 ^ p) ++
    (if p =? 0 then [] else CH_DOT :: lastdigs (N.to_nat p) (q mod 10 ^ p))
  /\ List.length (lastdigs (N.to_nat p) (q mod 10 ^ p)) = N.to_nat p
  /\ dval (lastdigs (N.to_nat p) (q mod 10 ^ p)) = q mod 10 ^ p.
Proof.
  intros p q. split; [apply fixed_digits_spec|]. split; [apply lastdigs_length|].
  apply lastdigs_val. rewrite N2Nat.id. apply N.mod_lt. apply N.pow_nonzero. discriminate.
Qed.

Lemma float_specials : forall precision,
  (forall s, human_float_count_sf precision (S754_zero s) = Ok (sign_str s ++ [CH_0]))
  /\ (forall s, human_float_count_sf precision (S754_infinity s) = Ok (sign_str s ++ str "inf"))
  /\ human_float_count_sf precision S754_nan = Ok (str "NaN").
Proof. intros p. split; [apply hfc_zero|]. split; [apply hfc_inf|apply hfc_nan]. Qed.

Lemma group_law : forall cs, Forall is_digit cs ->
  strip_commas (group cs) = cs
  /\ List.length (group cs) = (List.length cs + (List.length cs - 1) / 3)%nat
  /\ forall j, (j < List.length (group cs))%nat ->
       (nth j (group cs) 0 =? CH_COMMA) = (((List.length (group cs) - j) mod 4 =? 0)%nat).
Proof.
  intros cs H. pose proof (digit_not_comma cs H) as H'.
  split; [apply strip_group; exact H'|]. split; [apply group_length|apply group_commas; exact H'].
Qed.
