(** C05 – proofs about model/Limiter.v.
    Part 1: an abstract token bucket [tb_step] (interval I, burst B) and its potential
            arguments (window bound, liveness) for arbitrary non-decreasing request sequences.
    Part 2: RateLimiter::allow and AtomicPosition::allow are [tb_step] on every state reachable
            from `new` (no panic site reachable, no cast truncates).
    Part 3: the statements of props/C05.v.
    Part 4: a stand-alone bar in front of a target: bounded staleness, nothing lost.
    Parts 5-7 (system level, any configuration: totality, window bound and liveness for painted
    frames, frame age for MultiProgress members) are in LimiterSysProofs.v; the agreement with the
    limiters of model/Sys.v is in LimiterAgree.v. *)
From IndModel Require Import Base Limiter.
From IndGen Require Import Constants.
From Coq Require Import NArith ZArith Lia List Bool ZifyBool ZifyNat ZifyN.
Import ListNotations.
Open Scope N_scope.
Arguments N.add : simpl never.
Arguments N.sub : simpl never.
Arguments N.mul : simpl never.
Arguments N.div : simpl never.
Arguments N.modulo : simpl never.
Arguments N.min : simpl never.

(* [lia] after replacing every quotient / remainder by an opaque natural number *)
Ltac absdiv :=
  repeat match goal with
         | |- context [?a / ?b] => let x := fresh "q" in set (x := a / b) in *; clearbody x
         | |- context [?a mod ?b] => let x := fresh "r" in set (x := a mod b) in *; clearbody x
         | H : context [?a / ?b] |- _ => let x := fresh "q" in set (x := a / b) in *; clearbody x
         | H : context [?a mod ?b] |- _ => let x := fresh "r" in set (x := a mod b) in *; clearbody x
         end.
Ltac dlia := absdiv; lia.

(** ** Part 1: abstract bucket *)

Lemma divmod_facts (e i : N) : 0 < i -> e = i * (e / i) + e mod i /\ e mod i < i.
Proof.
  intros Hi. split.
  - apply N.div_mod. lia.
  - apply N.mod_lt. lia.
Qed.

Lemma div_sub_mul (a n i : N) : 0 < i -> n * i <= a -> (a - n * i) / i = a / i - n.
Proof.
  intros Hi Hle.
  assert (Ha : a = (a - n * i) + n * i) by lia.
  assert (H : a / i = (a - n * i) / i + n).
  { rewrite Ha at 1. apply N.div_add. lia. }
  clear Ha. set (x := (a - n * i) / i) in *. set (y := a / i) in *. clearbody x y. lia.
Qed.

Lemma div_ge_of_mul (a n i : N) : 0 < i -> n * i <= a -> n <= a / i.
Proof.
  intros Hi Hle. apply N.div_le_lower_bound; lia.
Qed.

Section Bucket.
  Variables I B : N.
  Hypothesis HI : 0 < I.
  Hypothesis HB : 0 < B.

  Definition tb_step (c p t : N) : N * N * bool :=
    let e := t - p in
    if (c =? 0) && (e <? I) then (c, p, false)
    else (N.min B (c + e / I) - 1, t - e mod I, true).

  Inductive tbop := Req (t : N) | Rst (t : N).
  Definition tbop_time (o : tbop) : N := match o with Req t | Rst t => t end.

  Fixpoint tb_run (c p : N) (ops : list tbop) : list bool :=
    match ops with
    | [] => []
    | Req t :: r => let '(c', p', v) := tb_step c p t in v :: tb_run c' p' r
    | Rst t :: r => false :: tb_run c t r
    end.

  Fixpoint tb_exec (c p : N) (ops : list tbop) : N * N :=
    match ops with
    | [] => (c, p)
    | Req t :: r => let '(c', p', _) := tb_step c p t in tb_exec c' p' r
    | Rst t :: r => tb_exec c t r
    end.

  Fixpoint mono (lo : N) (ops : list tbop) : Prop :=
    match ops with
    | [] => True
    | o :: r => lo <= tbop_time o /\ mono (tbop_time o) r
    end.

  Fixpoint cnt (lo hi : N) (ops : list tbop) (vs : list bool) : N :=
    match ops, vs with
    | o :: r, v :: vr =>
        (if v && (lo <=? tbop_time o) && (tbop_time o <=? hi) then 1 else 0) + cnt lo hi r vr
    | _, _ => 0
    end.

  (* what one step does, in closed form *)
  Lemma tb_step_spec c p t : p <= t ->
    let n := (t - p) / I in
    match tb_step c p t with
    | (c', p', true) =>
        1 <= N.min B (c + n) /\ c' = N.min B (c + n) - 1 /\ p' = p + n * I /\ p' <= t /\ t < p' + I
        /\ ~ (c = 0 /\ t < p + I)
    | (c', p', false) => c' = c /\ p' = p /\ c = 0 /\ t < p + I
    end.
  Proof.
    intros Hpt n. unfold tb_step.
    destruct (divmod_facts (t - p) I HI) as [Hdm Hlt].
    fold n in Hdm.
    destruct ((c =? 0) && (t - p <? I)) eqn:E.
    - apply andb_true_iff in E. destruct E as [E1 E2].
      apply N.eqb_eq in E1. apply N.ltb_lt in E2. repeat split; dlia.
    - apply andb_false_iff in E.
      assert (Hn : c <> 0 \/ 1 <= n).
      { destruct E as [E | E].
        - apply N.eqb_neq in E. left. exact E.
        - apply N.ltb_ge in E. right.
          apply (div_ge_of_mul (t - p) 1 I HI). dlia. }
      assert (Hm : 1 <= N.min B (c + n)) by dlia.
      repeat split; dlia.
  Qed.

  Lemma mono_weaken a b ops : b <= a -> mono a ops -> mono b ops.
  Proof. destruct ops as [|o r]; cbn [mono]; [auto|]. intros Hba [H1 H2]. split; [dlia|exact H2]. Qed.

  Lemma cnt_zero_after ops : forall lo hi a vs, mono a ops -> hi < a -> cnt lo hi ops vs = 0.
  Proof.
    induction ops as [|o r IH]; intros lo hi a vs Hm Hlt; cbn [cnt]; [reflexivity|].
    destruct vs as [|v vr]; [reflexivity|].
    cbn [mono] in Hm. destruct Hm as [H1 H2].
    rewrite (IH lo hi (tbop_time o) vr H2) by dlia.
    replace (tbop_time o <=? hi) with false by (symmetry; apply N.leb_gt; dlia).
    rewrite andb_false_r. reflexivity.
  Qed.

  Lemma cnt_lo_le ops : forall lo hi vs, cnt lo hi ops vs <= cnt 0 hi ops vs.
  Proof.
    induction ops as [|o r IH]; intros lo hi vs; cbn [cnt]; [dlia|].
    destruct vs as [|v vr]; [dlia|].
    specialize (IH lo hi vr).
    destruct v; cbn [andb]; [|dlia].
    replace (0 <=? tbop_time o) with true by (symmetry; apply N.leb_le; dlia).
    destruct (lo <=? tbop_time o); cbn [andb]; destruct (tbop_time o <=? hi); dlia.
  Qed.

  (* potential: the tokens in the bucket plus those that can still mature before [hi]
     bound the number of requests that can be allowed up to [hi] *)
  Lemma cnt_le_potential ops : forall c p hi, mono p ops ->
    cnt 0 hi ops (tb_run c p ops) <= c + (hi - p) / I.
  Proof.
    induction ops as [|o r IH]; intros c p hi Hm; cbn [cnt tb_run]; [apply N.le_0_l|].
    cbn [mono] in Hm. destruct Hm as [H1 H2].
    destruct o as [t|t]; cbn [tbop_time] in *.
    - pose proof (tb_step_spec c p t H1) as Hs. cbv zeta in Hs.
      destruct (tb_step c p t) as [[c' p'] v]. cbn [cnt tbop_time].
      destruct v.
      + destruct Hs as (Hmin & Hc & Hp & Hple & Hlt & _).
        cbn [andb]. replace (0 <=? t) with true by (symmetry; apply N.leb_le; dlia). cbn [andb].
        destruct (t <=? hi) eqn:Eth.
        * apply N.leb_le in Eth.
          assert (Hm' : mono p' r) by (apply (mono_weaken t); [dlia | exact H2]).
          specialize (IH c' p' hi Hm').
          set (n := (t - p) / I) in *.
          assert (Hn : n * I <= hi - p) by dlia.
          assert (Hd : (hi - p') / I = (hi - p) / I - n).
          { replace (hi - p') with ((hi - p) - n * I) by dlia. apply div_sub_mul; assumption. }
          pose proof (div_ge_of_mul (hi - p) n I HI Hn) as Hge.
          dlia.
        * apply N.leb_gt in Eth.
          rewrite (cnt_zero_after r 0 hi t _ H2 Eth). dlia.
      + destruct Hs as (Hc & Hp & _). subst c' p'. cbn [andb].
        assert (Hm' : mono p r) by (apply (mono_weaken t); [dlia | exact H2]).
        specialize (IH c p hi Hm'). dlia.
    - cbn [cnt tbop_time andb].
      specialize (IH c t hi H2).
      assert (Hd : (hi - t) / I <= (hi - p) / I) by (apply N.div_le_mono; dlia).
      dlia.
  Qed.

  (* invariant: the bucket never holds more than B tokens *)
  Lemma tb_step_cap c p t : p <= t -> c <= B ->
    let '(c', p', v) := tb_step c p t in c' <= B /\ p' <= t /\ (v = true -> c' + 1 <= B).
  Proof.
    intros Hpt Hc. pose proof (tb_step_spec c p t Hpt) as Hs. cbv zeta in Hs.
    destruct (tb_step c p t) as [[c' p'] v]. destruct v.
    - destruct Hs as (Hmin & Hc' & Hp & Hple & _). repeat split; try dlia.
    - destruct Hs as (Hc' & Hp & _). subst. repeat split; intros; try dlia; try discriminate.
  Qed.

  (* WINDOW BOUND: in every window [s, hi] at most B + ceil((hi - s) / I) requests are allowed *)
  Lemma cnt_window ops : forall c p s hi, c <= B -> mono p ops ->
    cnt s hi ops (tb_run c p ops) <= B + (hi - s + I - 1) / I.
  Proof.
    induction ops as [|o r IH]; intros c p s hi Hc Hm; cbn [cnt tb_run]; [dlia|].
    cbn [mono] in Hm. destruct Hm as [H1 H2].
    destruct o as [t|t]; cbn [tbop_time] in *.
    - pose proof (tb_step_spec c p t H1) as Hs. cbv zeta in Hs.
      pose proof (tb_step_cap c p t H1 Hc) as Hcap.
      destruct (tb_step c p t) as [[c' p'] v]. cbn [cnt tbop_time].
      destruct Hcap as (Hc'B & Hp't & Hv).
      assert (Hm' : mono p' r) by (apply (mono_weaken t); [dlia | exact H2]).
      destruct v.
      + destruct Hs as (Hmin & Hc' & Hp & Hple & Hlt & _).
        specialize (Hv eq_refl).
        cbn [andb].
        destruct ((s <=? t) && (t <=? hi)) eqn:Ein.
        * apply andb_true_iff in Ein. destruct Ein as [E1 E2].
          apply N.leb_le in E1. apply N.leb_le in E2.
          pose proof (cnt_lo_le r s hi (tb_run c' p' r)) as Hlo.
          pose proof (cnt_le_potential r c' p' hi Hm') as Hpot.
          assert (Hd : (hi - p') / I <= (hi - s + I - 1) / I) by (apply N.div_le_mono; dlia).
          dlia.
        * specialize (IH c' p' s hi Hc'B Hm'). dlia.
      + destruct Hs as (Hc' & Hp & _). subst c' p'. cbn [andb].
        specialize (IH c p s hi Hc Hm'). dlia.
    - cbn [cnt tbop_time andb]. specialize (IH c t s hi Hc H2). dlia.
  Qed.

  (* LIVENESS: instant of the last allowed request or reset *)
  Fixpoint tb_last (acc : option N) (ops : list tbop) (vs : list bool) : option N :=
    match ops, vs with
    | Req t :: r, v :: vr => tb_last (if v then Some t else acc) r vr
    | Rst t :: r, _ :: vr => tb_last (Some t) r vr
    | _, _ => acc
    end.

  Definition live_inv (c p : N) (la : option N) : Prop :=
    match la with None => 0 < c | Some a => p <= a end.

  Lemma tb_live_inv ops : forall c p la,
    mono p ops -> live_inv c p la ->
    let '(c', p') := tb_exec c p ops in live_inv c' p' (tb_last la ops (tb_run c p ops)).
  Proof.
    induction ops as [|o r IH]; intros c p la Hm Hl; cbn [tb_exec tb_last tb_run]; [exact Hl|].
    cbn [mono] in Hm. destruct Hm as [H1 H2].
    destruct o as [t|t]; cbn [tbop_time] in *.
    - pose proof (tb_step_spec c p t H1) as Hs. cbv zeta in Hs.
      destruct (tb_step c p t) as [[c' p'] v]. cbn [tb_last].
      assert (Hm' : mono p' r).
      { apply (mono_weaken t); [|exact H2]. destruct v; [destruct Hs as (_ & _ & _ & Hple & _); dlia | destruct Hs as (_ & Hp & _); dlia]. }
      apply IH; [exact Hm'|].
      destruct v.
      + destruct Hs as (_ & _ & _ & Hple & _). cbn [live_inv]. exact Hple.
      + destruct Hs as (Hc & Hp & _). subst. exact Hl.
    - cbn [tb_last]. apply IH; [exact H2|]. cbn [live_inv]. dlia.
  Qed.

  Lemma tb_live_step c p la t : p <= t -> live_inv c p la ->
    match la with Some a => a + I <= t | None => True end ->
    snd (tb_step c p t) = true.
  Proof.
    intros Hpt Hl Hla. pose proof (tb_step_spec c p t Hpt) as Hs. cbv zeta in Hs.
    destruct (tb_step c p t) as [[c' p'] v]. cbn [snd]. destruct v; [reflexivity|].
    destruct Hs as (_ & _ & Hc0 & Hlt). destruct la as [a|]; cbn [live_inv] in Hl; dlia.
  Qed.

  Lemma tb_run_app ops1 : forall c p ops2,
    tb_run c p (ops1 ++ ops2) = tb_run c p ops1 ++ (let '(c', p') := tb_exec c p ops1 in tb_run c' p' ops2).
  Proof.
    induction ops1 as [|o r IH]; intros c p ops2; cbn [app tb_run tb_exec].
    - reflexivity.
    - destruct o as [t|t].
      + destruct (tb_step c p t) as [[c' p'] v]. cbn [app]. rewrite IH. reflexivity.
      + cbn [app]. rewrite IH. reflexivity.
  Qed.

  Lemma mono_app ops1 : forall lo ops2, mono lo (ops1 ++ ops2) ->
    mono lo ops1 /\ forall o, In o ops2 -> (lo <= tbop_time o /\ forall o1, In o1 ops1 -> tbop_time o1 <= tbop_time o).
  Proof.
    induction ops1 as [|o1 r IH]; intros lo ops2 Hm; cbn [app mono] in *.
    - split; [trivial |]. intros o Ho. split; [|intros ? []].
      revert lo Hm Ho. induction ops2 as [|x xs IHx]; intros lo Hm Ho; [destruct Ho|].
      cbn [mono] in Hm. destruct Hm as [Ha Hb]. destruct Ho as [->|Ho]; [exact Ha|].
      specialize (IHx _ Hb Ho). dlia.
    - destruct Hm as [Ha Hb]. destruct (IH _ _ Hb) as [Hc Hd]. split; [split; assumption|].
      intros o Ho. destruct (Hd o Ho) as [He Hf]. split; [dlia|].
      intros o' [<-|Ho']; [exact He | apply Hf; exact Ho'].
  Qed.

  Lemma tb_exec_inv ops : forall c p, c <= B -> mono p ops ->
    let '(c', p') := tb_exec c p ops in
    c' <= B /\ p <= p' /\ (forall t, (forall o, In o ops -> tbop_time o <= t) -> p <= t -> p' <= t).
  Proof.
    induction ops as [|o r IH]; intros c p Hc Hm; cbn [tb_exec].
    - repeat split; intros; try dlia; try assumption.
    - cbn [mono] in Hm. destruct Hm as [H1 H2].
      destruct o as [t|t]; cbn [tbop_time] in *.
      + pose proof (tb_step_spec c p t H1) as Hs. cbv zeta in Hs.
        pose proof (tb_step_cap c p t H1 Hc) as Hcap.
        destruct (tb_step c p t) as [[c' p'] v].
        destruct Hcap as (Hc'B & Hp't & _).
        assert (Hpp : p <= p').
        { destruct v; [destruct Hs as (_ & _ & Hp & _); dlia | destruct Hs as (_ & Hp & _); dlia]. }
        assert (Hm' : mono p' r) by (apply (mono_weaken t); [dlia | exact H2]).
        specialize (IH c' p' Hc'B Hm'). destruct (tb_exec c' p' r) as [c2 p2].
        destruct IH as (Ha & Hb & Hc2). repeat split; try dlia.
        intros t1 Hall Hpt1. apply Hc2.
        * intros o Ho. apply Hall. right. exact Ho.
        * specialize (Hall (Req t) (or_introl eq_refl)). cbn in Hall. dlia.
      + specialize (IH c t Hc H2). destruct (tb_exec c t r) as [c2 p2].
        destruct IH as (Ha & Hb & Hc2). repeat split; try dlia.
        intros t1 Hall Hpt1. apply Hc2.
        * intros o Ho. apply Hall. right. exact Ho.
        * specialize (Hall (Rst t) (or_introl eq_refl)). cbn in Hall. dlia.
  Qed.

End Bucket.

(** ** Part 2: the two real limiters are the abstract bucket *)

Lemma RLB : RL_MAX_BURST = 20. Proof. reflexivity. Qed.
Lemma APB : AP_MAX_BURST = 10. Proof. reflexivity. Qed.
Lemma API : AP_INTERVAL_NS = 1000000. Proof. reflexivity. Qed.
Lemma RLNUM : RL_INTERVAL_NUMERATOR_NS = 1000000000. Proof. reflexivity. Qed.
Lemma U64v : U64 = 18446744073709551616. Proof. reflexivity. Qed.
Lemma U8v : U8 = 256. Proof. reflexivity. Qed.

(* interval = ceil(10^9 / R) ns: positive, at most one second, and R intervals cover a second *)
Lemma rl_interval_facts R : 1 <= R <= 255 ->
  0 < rl_interval_of R /\ rl_interval_of R <= 1000000000 /\ 1000000000 <= R * rl_interval_of R
  /\ R * (rl_interval_of R - 1) < 1000000000.
Proof.
  intros HR. unfold rl_interval_of. rewrite RLNUM.
  destruct (divmod_facts (1000000000 + R - 1) R) as [Hdm Hlt]; [lia|].
  set (q := (1000000000 + R - 1) / R) in *. set (r := (1000000000 + R - 1) mod R) in *.
  clearbody q r. nia.
Qed.

Definition rl_ok (s : rl) : Prop :=
  0 < rl_interval s /\ rl_interval s < U64 /\ rl_cap s <= RL_MAX_BURST.

Lemma rl_allow_tb s now : rl_ok s -> rl_prev s <= now ->
  rl_allow s now =
  let '(c', p', v) := tb_step (rl_interval s) RL_MAX_BURST (rl_cap s) (rl_prev s) now in
  Ok (mk_rl (rl_interval s) c' p', v).
Proof.
  intros (HI & HIu & Hc) Hp. destruct s as [I c p]. cbn [rl_interval rl_cap rl_prev] in *.
  unfold rl_allow, tb_step. cbn [rl_interval rl_cap rl_prev].
  replace (now <? p) with false by (symmetry; apply N.ltb_ge; lia).
  destruct ((c =? 0) && (now - p <? I)) eqn:E; [reflexivity|].
  destruct (divmod_facts (now - p) I HI) as [Hdm Hlt].
  assert (Hq : c <> 0 \/ 1 <= (now - p) / I).
  { apply andb_false_iff in E. destruct E as [E | E].
    - apply N.eqb_neq in E. left. exact E.
    - apply N.ltb_ge in E. right. apply (div_ge_of_mul (now - p) 1 I HI). lia. }
  rewrite RLB in *.
  set (q := (now - p) / I) in *. set (r := (now - p) mod I) in *.
  assert (Hm : 1 <= N.min 20 (c + q) <= 20) by lia.
  replace (N.min 20 (c + q) =? 0) with false by (symmetry; apply N.eqb_neq; lia).
  rewrite (N.mod_small r U64) by lia.
  replace (now <? r) with false by (symmetry; apply N.ltb_ge; clearbody q r; lia).
  rewrite (N.mod_small (N.min 20 (c + q) - 1) U8) by (rewrite U8v; lia).
  reflexivity.
Qed.

Definition ap_ok (s : ap) : Prop := ap_cap s <= AP_MAX_BURST.

Lemma ap_allow_tb s now : ap_ok s -> ap_start s <= now -> now - ap_start s < U64 ->
  ap_prev s <= now - ap_start s ->
  ap_allow s now =
  let '(c', p', v) := tb_step AP_INTERVAL_NS AP_MAX_BURST (ap_cap s) (ap_prev s) (now - ap_start s) in
  Ok (mk_ap c' p' (ap_start s), v).
Proof.
  intros Hc Hs Hu Hp. destruct s as [c p st]. unfold ap_ok in Hc. cbn [ap_cap ap_prev ap_start] in *.
  unfold ap_allow, tb_step, sat_sub. cbn [ap_cap ap_prev ap_start].
  replace (now <? st) with false by (symmetry; apply N.ltb_ge; lia).
  rewrite (N.mod_small (now - st) U64) by exact Hu.
  set (t := now - st) in *.
  destruct ((c =? 0) && (t - p <? AP_INTERVAL_NS)) eqn:E; [reflexivity|].
  assert (HI : 0 < AP_INTERVAL_NS) by (rewrite API; lia).
  destruct (divmod_facts (t - p) AP_INTERVAL_NS HI) as [Hdm Hlt].
  assert (Hq : c <> 0 \/ 1 <= (t - p) / AP_INTERVAL_NS).
  { apply andb_false_iff in E. destruct E as [E | E].
    - apply N.eqb_neq in E. left. exact E.
    - apply N.ltb_ge in E. right. apply (div_ge_of_mul (t - p) 1 AP_INTERVAL_NS HI). lia. }
  rewrite APB in *.
  set (q := (t - p) / AP_INTERVAL_NS) in *. set (r := (t - p) mod AP_INTERVAL_NS) in *.
  assert (Hm : 1 <= N.min 10 (c + q) <= 10) by lia.
  replace (N.min 10 (c + q) =? 0) with false by (symmetry; apply N.eqb_neq; lia).
  replace (t <? r) with false by (symmetry; apply N.ltb_ge; clearbody q r; lia).
  rewrite (N.mod_small (N.min 10 (c + q) - 1) U8) by (rewrite U8v; lia).
  reflexivity.
Qed.

Lemma nondec_mono ts : forall lo, nondec lo ts -> mono lo (map Req ts).
Proof.
  induction ts as [|t r IH]; intros lo H; cbn [map mono nondec] in *; [exact H|].
  destruct H as [H1 H2]. split; [exact H1 | apply IH; exact H2].
Qed.

Lemma nondec_weaken a b ts : b <= a -> nondec a ts -> nondec b ts.
Proof. destruct ts as [|t r]; cbn [nondec]; [auto|]. intros Hba [H1 H2]. split; [lia | exact H2]. Qed.

(* verdicts and final state of a RateLimiter run, in terms of the abstract bucket *)
Lemma rl_run_tb ts : forall s, rl_ok s -> nondec (rl_prev s) ts ->
  rl_run s ts = map Ok (tb_run (rl_interval s) RL_MAX_BURST (rl_cap s) (rl_prev s) (map Req ts))
  /\ rl_exec s ts = Ok (let '(c', p') := tb_exec (rl_interval s) RL_MAX_BURST (rl_cap s) (rl_prev s) (map Req ts)
                        in mk_rl (rl_interval s) c' p').
Proof.
  induction ts as [|t r IH]; intros s Hok Hnd; cbn [rl_run rl_exec map tb_run tb_exec].
  - split; [reflexivity|]. destruct s; reflexivity.
  - cbn [nondec] in Hnd. destruct Hnd as [H1 H2].
    rewrite (rl_allow_tb s t Hok H1).
    destruct Hok as (HI & HIu & Hc).
    assert (HB : 0 < RL_MAX_BURST) by (rewrite RLB; lia).
    pose proof (tb_step_cap _ _ HI HB _ _ _ H1 Hc) as Hcap.
    destruct (tb_step (rl_interval s) RL_MAX_BURST (rl_cap s) (rl_prev s) t) as [[c' p'] v].
    destruct Hcap as (Hc' & Hp' & _).
    assert (Hok' : rl_ok (mk_rl (rl_interval s) c' p')) by (repeat split; assumption).
    assert (Hnd' : nondec (rl_prev (mk_rl (rl_interval s) c' p')) r)
      by (cbn [rl_prev]; apply (nondec_weaken t); assumption).
    destruct (IH _ Hok' Hnd') as [IH1 IH2]. cbn [rl_interval rl_cap rl_prev] in IH1, IH2.
    rewrite IH1, IH2. cbn [map]. split; reflexivity.
Qed.

Lemma rl_new_ok R t0 : 1 <= R <= 255 -> rl_ok (rl_new R t0).
Proof.
  intros HR. destruct (rl_interval_facts R HR) as (H1 & H2 & _).
  unfold rl_ok, rl_new. cbn [rl_interval rl_cap]. rewrite U64v. repeat split; lia.
Qed.

Lemma allowed_in_cnt ts : forall lo hi vs,
  allowed_in lo hi ts (map Ok vs) = cnt lo hi (map Req ts) vs.
Proof.
  induction ts as [|t r IH]; intros lo hi vs; cbn [allowed_in map cnt]; [reflexivity|].
  destruct vs as [|v vr]; cbn [map]; [reflexivity|].
  rewrite IH. cbn [tbop_time]. destruct v; cbn [andb]; reflexivity.
Qed.

Lemma last_allowed_tb ts : forall acc vs,
  last_allowed acc ts (map Ok vs) = tb_last acc (map Req ts) vs.
Proof.
  induction ts as [|t r IH]; intros acc vs; cbn [last_allowed map tb_last]; [reflexivity|].
  destruct vs as [|v vr]; cbn [map]; [reflexivity|].
  rewrite IH. destruct v; reflexivity.
Qed.

(* from "at most B + ceil(T/I) per window" to the statement of the property *)
Lemma window_arith (n B q I T R K : N) :
  n <= B + q -> q * I <= T + I - 1 -> K <= R * I -> 0 < I ->
  n * K <= (B + 1) * K + R * T.
Proof.
  intros Hn Hq HK HI.
  destruct (N.eq_dec q 0) as [-> | Hq0]; [nia|].
  assert (H1 : (q - 1) * I <= T - 1) by nia.
  assert (H2 : (q - 1) * K <= (q - 1) * (R * I)) by (apply N.mul_le_mono_l; exact HK).
  assert (H3 : (q - 1) * (R * I) = R * ((q - 1) * I)) by ring.
  assert (H4 : R * ((q - 1) * I) <= R * (T - 1)) by (apply N.mul_le_mono_l; exact H1).
  assert (H5 : R * (T - 1) <= R * T) by (apply N.mul_le_mono_l; lia).
  assert (H6 : n * K <= (B + q) * K) by (apply N.mul_le_mono_r; exact Hn).
  assert (H7 : (B + q) * K = (B + 1) * K + (q - 1) * K) by (replace (B + q) with (B + 1 + (q - 1)) by lia; ring).
  lia.
Qed.

(** ** Part 3: the clauses of the property for the two limiters *)

Lemma nondec_app ts : forall lo x, nondec lo (ts ++ [x]) ->
  nondec lo ts /\ lo <= x /\ (forall t, In t ts -> t <= x).
Proof.
  induction ts as [|t r IH]; intros lo x H; cbn [app nondec] in *.
  - destruct H as [H _]. repeat split; [exact H | intros ? []].
  - destruct H as [H1 H2]. destruct (IH _ _ H2) as (Ha & Hb & Hc).
    repeat split; try assumption; try lia.
    intros t' [<- | Ht']; [exact Hb | apply Hc; exact Ht'].
Qed.

Lemma tb_exec_grid I B (HI : 0 < I) (HB : 0 < B) ts : forall c p, mono p (map Req ts) ->
  exists k, snd (tb_exec I B c p (map Req ts)) = p + k * I.
Proof.
  induction ts as [|t r IH]; intros c p Hm; cbn [map tb_exec snd].
  - exists 0. lia.
  - cbn [map mono tbop_time] in Hm. destruct Hm as [H1 H2].
    pose proof (tb_step_spec I B HI HB c p t H1) as Hs. cbv zeta in Hs.
    destruct (tb_step I B c p t) as [[c' p'] v].
    assert (Hp' : p' <= t /\ exists n, p' = p + n * I).
    { destruct v.
      - destruct Hs as (_ & _ & Hp & Hple & _). split; [exact Hple | eexists; exact Hp].
      - destruct Hs as (_ & Hp & _). subst p'. split; [exact H1 | exists 0; lia]. }
    destruct Hp' as [Hple [n Hn]].
    assert (Hm' : mono p' (map Req r)) by (apply (mono_weaken I B HI HB t); assumption).
    destruct (IH c' p' Hm') as [k Hk]. exists (n + k). rewrite Hk, Hn. ring.
Qed.

(* state reached from `new` by any non-decreasing request sequence, seen from a later instant *)
Lemma rl_reach R t0 ts now : 1 <= R <= 255 -> nondec t0 (ts ++ [now]) ->
  exists c p, rl_exec (rl_new R t0) ts = Ok (mk_rl (rl_interval_of R) c p) /\
    (c, p) = tb_exec (rl_interval_of R) RL_MAX_BURST RL_MAX_BURST t0 (map Req ts) /\
    rl_run (rl_new R t0) ts = map Ok (tb_run (rl_interval_of R) RL_MAX_BURST RL_MAX_BURST t0 (map Req ts)) /\
    c <= RL_MAX_BURST /\ p <= now /\ (exists k, p = t0 + k * rl_interval_of R).
Proof.
  intros HR Hnd. destruct (nondec_app _ _ _ Hnd) as (Hnd1 & Ht0 & Hall).
  pose proof (rl_new_ok R t0 HR) as Hok.
  destruct (rl_run_tb ts (rl_new R t0) Hok Hnd1) as [Hrun Hexec].
  cbn [rl_new rl_interval rl_cap rl_prev] in Hrun, Hexec.
  destruct Hok as (HI & _ & _). cbn [rl_new rl_interval] in HI.
  assert (HB : 0 < RL_MAX_BURST) by (rewrite RLB; lia).
  pose proof (tb_exec_inv _ _ HI HB (map Req ts) RL_MAX_BURST t0 (N.le_refl _) (nondec_mono _ _ Hnd1)) as Hinv.
  destruct (tb_exec_grid _ _ HI HB ts RL_MAX_BURST t0 (nondec_mono _ _ Hnd1)) as [k Hk].
  destruct (tb_exec (rl_interval_of R) RL_MAX_BURST RL_MAX_BURST t0 (map Req ts)) as [c p] eqn:E.
  cbn [snd] in Hk. destruct Hinv as (Hc & _ & Hp).
  exists c, p. repeat split; try assumption.
  - apply Hp; [|exact Ht0]. intros o Ho. apply in_map_iff in Ho. destruct Ho as (t & <- & Ht).
    cbn [tbop_time]. apply Hall. exact Ht.
  - exists k. exact Hk.
Qed.

(* no panic site is reachable, and every step is in normal form *)
Theorem rl_normal_form R t0 ts now : 1 <= R <= 255 -> nondec t0 (ts ++ [now]) ->
  exists s, rl_exec (rl_new R t0) ts = Ok s /\
    let I := rl_interval_of R in
    let e := now - rl_prev s in
    rl_interval s = I /\ rl_prev s <= now /\ rl_cap s <= 20 /\
    (exists k, rl_prev s = t0 + k * I) /\
    (rl_allow s now =
      if (rl_cap s =? 0) && (e <? I) then Ok (s, false)
      else Ok (mk_rl I (N.min 20 (rl_cap s + e / I) - 1) (rl_prev s + e / I * I), true)) /\
    (((rl_cap s =? 0) && (e <? I)) = false -> 1 <= N.min 20 (rl_cap s + e / I)).
Proof.
  intros HR Hnd. destruct (rl_reach R t0 ts now HR Hnd) as (c & p & Hexec & _ & _ & Hc & Hp & Hgrid).
  exists (mk_rl (rl_interval_of R) c p). split; [exact Hexec|].
  cbv zeta. cbn [rl_interval rl_cap rl_prev].
  destruct (rl_interval_facts R HR) as (HI & HI9 & _).
  assert (Hok : rl_ok (mk_rl (rl_interval_of R) c p)).
  { unfold rl_ok. cbn [rl_interval rl_cap]. rewrite U64v. repeat split; try assumption; lia. }
  rewrite RLB in Hc.
  repeat split; try assumption.
  - rewrite (rl_allow_tb _ now Hok Hp). cbn [rl_interval rl_cap rl_prev]. unfold tb_step. rewrite RLB.
    destruct ((c =? 0) && (now - p <? rl_interval_of R)); [reflexivity|].
    destruct (divmod_facts (now - p) (rl_interval_of R) HI) as [Hdm Hlt].
    do 3 f_equal. set (q := (now - p) / rl_interval_of R) in *. set (r := (now - p) mod rl_interval_of R) in *.
    clearbody q r. lia.
  - intros E. apply andb_false_iff in E.
    assert (Hq : c <> 0 \/ 1 <= (now - p) / rl_interval_of R).
    { destruct E as [E | E].
      - apply N.eqb_neq in E. left. exact E.
      - apply N.ltb_ge in E. right. apply (div_ge_of_mul (now - p) 1 _ HI). lia. }
    set (q := (now - p) / rl_interval_of R) in *. clearbody q. lia.
Qed.

Lemma tb_run_length I B ops : forall c p, length (tb_run I B c p ops) = length ops.
Proof.
  induction ops as [|o r IH]; intros c p; cbn [tb_run length]; [reflexivity|].
  destruct o as [t|t].
  - destruct (tb_step I B c p t) as [[c' p'] v]. cbn [length]. rewrite IH. reflexivity.
  - cbn [length]. rewrite IH. reflexivity.
Qed.

Theorem rl_no_panic R t0 ts : 1 <= R <= 255 -> nondec t0 ts ->
  exists vs, rl_run (rl_new R t0) ts = map Ok vs /\ length vs = length ts.
Proof.
  intros HR Hnd. destruct (rl_run_tb ts (rl_new R t0) (rl_new_ok R t0 HR) Hnd) as [Hrun _].
  eexists. split; [exact Hrun|].
  rewrite tb_run_length, map_length. reflexivity.
Qed.

(* WINDOW BOUND for the draw target: count * 10^9 <= 21 * 10^9 + R * T_ns *)
Theorem rl_window R t0 ts s T : 1 <= R <= 255 -> nondec t0 ts ->
  allowed_in s (s + T) ts (rl_run (rl_new R t0) ts) * 1000000000 <= 21 * 1000000000 + R * T.
Proof.
  intros HR Hnd.
  destruct (rl_run_tb ts (rl_new R t0) (rl_new_ok R t0 HR) Hnd) as [Hrun _].
  rewrite Hrun, allowed_in_cnt. cbn [rl_new rl_interval rl_cap rl_prev].
  destruct (rl_interval_facts R HR) as (HI & HI9 & HRI & _).
  assert (HB : 0 < RL_MAX_BURST) by (rewrite RLB; lia).
  pose proof (cnt_window _ _ HI HB (map Req ts) RL_MAX_BURST t0 s (s + T) (N.le_refl _) (nondec_mono _ _ Hnd)) as Hw.
  rewrite RLB in *.
  replace (s + T - s + rl_interval_of R - 1) with (T + rl_interval_of R - 1) in Hw by lia.
  set (n := cnt s (s + T) (map Req ts) (tb_run (rl_interval_of R) 20 20 t0 (map Req ts))) in *.
  assert (Hq : (T + rl_interval_of R - 1) / rl_interval_of R * rl_interval_of R <= T + rl_interval_of R - 1).
  { rewrite N.mul_comm. apply N.mul_div_le. lia. }
  pose proof (window_arith n 20 _ _ T R 1000000000 Hw Hq HRI HI) as Hfin.
  clearbody n. lia.
Qed.

(* the bound the code actually meets is a little tighter: 20 + ceil(T / I) *)
Theorem rl_window_tight R t0 ts s T : 1 <= R <= 255 -> nondec t0 ts ->
  allowed_in s (s + T) ts (rl_run (rl_new R t0) ts) <= 20 + (T + rl_interval_of R - 1) / rl_interval_of R.
Proof.
  intros HR Hnd.
  destruct (rl_run_tb ts (rl_new R t0) (rl_new_ok R t0 HR) Hnd) as [Hrun _].
  rewrite Hrun, allowed_in_cnt. cbn [rl_new rl_interval rl_cap rl_prev].
  destruct (rl_interval_facts R HR) as (HI & HI9 & HRI & _).
  assert (HB : 0 < RL_MAX_BURST) by (rewrite RLB; lia).
  pose proof (cnt_window _ _ HI HB (map Req ts) RL_MAX_BURST t0 s (s + T) (N.le_refl _) (nondec_mono _ _ Hnd)) as Hw.
  rewrite RLB in *.
  replace (s + T - s + rl_interval_of R - 1) with (T + rl_interval_of R - 1) in Hw by lia.
  exact Hw.
Qed.

Lemma rl_run_snoc s ts now :
  rl_run s (ts ++ [now]) =
  match rl_exec s ts with
  | Ok s' => rl_run s ts ++ rl_run s' [now]
  | Panic k => rl_run s ts
  end.
Proof.
  revert s. induction ts as [|t r IH]; intros s; cbn [app rl_run rl_exec].
  - destruct (rl_allow s now) as [[s' v]|k]; reflexivity.
  - destruct (rl_allow s t) as [[s' v]|k]; [|reflexivity].
    rewrite IH. destruct (rl_exec s' r); reflexivity.
Qed.

(* LIVENESS for the draw target: a request at least 1/R s after the last allowed one – or the
   very first request – is allowed *)
Theorem rl_liveness R t0 ts now : 1 <= R <= 255 -> nondec t0 (ts ++ [now]) ->
  (forall a, last_allowed None ts (rl_run (rl_new R t0) ts) = Some a -> 1000000000 <= (now - a) * R) ->
  rl_run (rl_new R t0) (ts ++ [now]) = rl_run (rl_new R t0) ts ++ [Ok true].
Proof.
  intros HR Hnd Hlast.
  destruct (rl_reach R t0 ts now HR Hnd) as (c & p & Hexec & Hcp & Hrun & Hc & Hp & _).
  rewrite rl_run_snoc, Hexec. f_equal. cbn [rl_run].
  destruct (rl_interval_facts R HR) as (HI & HI9 & HRI & HRI1).
  assert (Hok : rl_ok (mk_rl (rl_interval_of R) c p)).
  { unfold rl_ok. cbn [rl_interval rl_cap]. rewrite U64v. repeat split; try assumption; lia. }
  rewrite (rl_allow_tb _ now Hok Hp). cbn [rl_interval rl_cap rl_prev].
  assert (HB : 0 < RL_MAX_BURST) by (rewrite RLB; lia).
  destruct (nondec_app _ _ _ Hnd) as (Hnd1 & _ & _).
  pose proof (tb_live_inv _ _ HI HB (map Req ts) RL_MAX_BURST t0 None (nondec_mono _ _ Hnd1) HB) as Hli.
  rewrite <- Hcp in Hli.
  rewrite Hrun, last_allowed_tb in Hlast.
  set (la := tb_last None (map Req ts) (tb_run (rl_interval_of R) RL_MAX_BURST RL_MAX_BURST t0 (map Req ts))) in *.
  assert (Hgap : match la with Some a => a + rl_interval_of R <= now | None => True end).
  { destruct la as [a|]; [|exact Logic.I]. specialize (Hlast a eq_refl).
    (* (now - a) * R >= 10^9 > R * (I - 1)  ==>  now - a >= I *)
    assert (rl_interval_of R - 1 < now - a) by nia. lia. }
  pose proof (tb_live_step _ _ HI HB c p la now Hp Hli Hgap) as Hv.
  destruct (tb_step (rl_interval_of R) RL_MAX_BURST c p now) as [[c' p'] v]. cbn [snd] in Hv. subst v.
  reflexivity.
Qed.

(** *** the position limiter (times relative to the bar's creation instant) *)

Definition rel (st : N) (o : apop) : tbop :=
  match o with AReq t => Req (t - st) | ARst t => Rst (t - st) end.

Lemma rel_time st o : tbop_time (rel st o) = apop_time o - st.
Proof. destruct o; reflexivity. Qed.

Lemma nondec_rel_mono ops : forall lo st, st <= lo -> nondec lo (map apop_time ops) ->
  mono (lo - st) (map (rel st) ops).
Proof.
  induction ops as [|o r IH]; intros lo st Hst H; cbn [map mono nondec] in *; [exact H|].
  destruct H as [H1 H2]. rewrite rel_time. split; [lia|]. apply IH; [lia | exact H2].
Qed.

Lemma ap_run_tb ops : forall s lo, ap_ok s -> ap_start s <= lo -> ap_prev s <= lo - ap_start s ->
  nondec lo (map apop_time ops) -> ap_times_ok (ap_start s) ops ->
  ap_run s ops = map Ok (tb_run AP_INTERVAL_NS AP_MAX_BURST (ap_cap s) (ap_prev s) (map (rel (ap_start s)) ops))
  /\ ap_exec s ops = Ok (let '(c', p') := tb_exec AP_INTERVAL_NS AP_MAX_BURST (ap_cap s) (ap_prev s) (map (rel (ap_start s)) ops)
                         in mk_ap c' p' (ap_start s)).
Proof.
  assert (HI : 0 < AP_INTERVAL_NS) by (rewrite API; lia).
  assert (HB : 0 < AP_MAX_BURST) by (rewrite APB; lia).
  induction ops as [|o r IH]; intros s lo Hok Hst Hp Hnd Hu; cbn [ap_run ap_exec map tb_run tb_exec].
  - split; [reflexivity|]. destruct s; reflexivity.
  - cbn [map nondec] in Hnd. destruct Hnd as [H1 H2].
    assert (Hu' : ap_times_ok (ap_start s) r) by (intros o' Ho'; apply Hu; right; exact Ho').
    pose proof (Hu o (or_introl eq_refl)) as Huo.
    destruct o as [t|t]; cbn [apop_time rel] in *.
    + assert (Hpt : ap_prev s <= t - ap_start s) by lia.
      rewrite (ap_allow_tb s t Hok) by lia.
      pose proof (tb_step_cap _ _ HI HB _ _ _ Hpt Hok) as Hcap.
      destruct (tb_step AP_INTERVAL_NS AP_MAX_BURST (ap_cap s) (ap_prev s) (t - ap_start s)) as [[c' p'] v].
      destruct Hcap as (Hc' & Hp' & _).
      destruct (IH (mk_ap c' p' (ap_start s)) t) as [IH1 IH2]; cbn [ap_cap ap_prev ap_start]; try assumption; try lia.
      cbn [ap_cap ap_prev ap_start] in IH1, IH2.
      rewrite IH1, IH2. cbn [map]. split; reflexivity.
    + unfold ap_reset. rewrite (N.mod_small (t - ap_start s) U64) by lia.
      destruct (IH (mk_ap (ap_cap s) (t - ap_start s) (ap_start s)) t) as [IH1 IH2]; cbn [ap_cap ap_prev ap_start]; try assumption; try lia.
      cbn [ap_cap ap_prev ap_start] in IH1, IH2.
      rewrite IH1, IH2. cbn [map]. split; reflexivity.
Qed.

Lemma ap_new_ok t0 : ap_ok (ap_new t0).
Proof. unfold ap_ok, ap_new. cbn [ap_cap]. lia. Qed.

Theorem ap_no_panic t0 ops : nondec t0 (map apop_time ops) -> ap_times_ok t0 ops ->
  exists vs, ap_run (ap_new t0) ops = map Ok vs /\ length vs = length ops.
Proof.
  intros Hnd Hu.
  destruct (ap_run_tb ops (ap_new t0) t0 (ap_new_ok t0)) as [Hrun _]; cbn [ap_new ap_start ap_prev]; try assumption; try lia.
  eexists. split; [exact Hrun|]. rewrite tb_run_length, map_length. reflexivity.
Qed.

Lemma ap_allowed_le ops : forall vs lo hi st, (forall o, In o ops -> st <= apop_time o) ->
  allowed_in lo hi (map apop_time ops) (map Ok vs) <= cnt (lo - st) (hi - st) (map (rel st) ops) vs.
Proof.
  induction ops as [|o r IH]; intros vs lo hi st Hge; cbn [map allowed_in cnt]; [lia|].
  destruct vs as [|v vr]; cbn [map]; [lia|].
  assert (Hge' : forall o', In o' r -> st <= apop_time o') by (intros o' Ho'; apply Hge; right; exact Ho').
  specialize (IH vr lo hi st Hge'). pose proof (Hge o (or_introl eq_refl)) as Ho.
  rewrite rel_time. destruct v; cbn [andb]; [|lia].
  destruct ((lo <=? apop_time o) && (apop_time o <=? hi)) eqn:E1; [|lia].
  apply andb_true_iff in E1. destruct E1 as [Ea Eb]. apply N.leb_le in Ea. apply N.leb_le in Eb.
  replace ((lo - st <=? apop_time o - st) && (apop_time o - st <=? hi - st)) with true; [lia|].
  symmetry. apply andb_true_iff. split; apply N.leb_le; lia.
Qed.

(* WINDOW BOUND for the position limiter: count * 10^6 <= 11 * 10^6 + T_ns  (10 + T/1ms + 1) *)
Theorem ap_window t0 ops s T : nondec t0 (map apop_time ops) -> ap_times_ok t0 ops ->
  allowed_in s (s + T) (map apop_time ops) (ap_run (ap_new t0) ops) * 1000000 <= 11 * 1000000 + T.
Proof.
  intros Hnd Hu.
  assert (HI : 0 < AP_INTERVAL_NS) by (rewrite API; lia).
  assert (HB : 0 < AP_MAX_BURST) by (rewrite APB; lia).
  destruct (ap_run_tb ops (ap_new t0) t0 (ap_new_ok t0)) as [Hrun _]; cbn [ap_new ap_start ap_prev]; try assumption; try lia.
  rewrite Hrun. cbn [ap_new ap_cap ap_prev ap_start].
  assert (Hge : forall o, In o ops -> t0 <= apop_time o).
  { clear - Hnd. revert t0 Hnd. induction ops as [|o r IH]; intros t0 Hnd o' Ho'; [destruct Ho'|].
    cbn [map nondec] in Hnd. destruct Hnd as [H1 H2]. destruct Ho' as [<- | Ho']; [exact H1|].
    specialize (IH _ H2 o' Ho'). lia. }
  pose proof (ap_allowed_le ops (tb_run AP_INTERVAL_NS AP_MAX_BURST AP_MAX_BURST 0 (map (rel t0) ops)) s (s + T) t0 Hge) as Hle.
  pose proof (nondec_rel_mono ops t0 t0 (N.le_refl _) Hnd) as Hm. rewrite N.sub_diag in Hm.
  pose proof (cnt_window _ _ HI HB (map (rel t0) ops) AP_MAX_BURST 0 (s - t0) (s + T - t0) (N.le_refl _) Hm) as Hw.
  rewrite APB, API in *.
  set (n := allowed_in s (s + T) (map apop_time ops) _) in *.
  set (m := cnt (s - t0) (s + T - t0) (map (rel t0) ops) _) in *.
  assert (Hd : (s + T - t0 - (s - t0) + 1000000 - 1) / 1000000 <= (T + 1000000 - 1) / 1000000)
    by (apply N.div_le_mono; lia).
  assert (Hq : (T + 1000000 - 1) / 1000000 * 1000000 <= T + 1000000 - 1).
  { rewrite N.mul_comm. apply N.mul_div_le. lia. }
  assert (Hn : n <= 10 + (T + 1000000 - 1) / 1000000) by (clearbody n m; dlia).
  pose proof (window_arith n 10 _ 1000000 T 1 1000000 Hn Hq) as Hfin.
  clearbody n. lia.
Qed.

Lemma ap_run_snoc s ops now :
  ap_run s (ops ++ [AReq now]) =
  match ap_exec s ops with
  | Ok s' => ap_run s ops ++ ap_run s' [AReq now]
  | Panic k => ap_run s ops
  end.
Proof.
  revert s. induction ops as [|o r IH]; intros s; cbn [app ap_run ap_exec].
  - destruct (ap_allow s now) as [[s' v]|k]; reflexivity.
  - destruct o as [t|t].
    + destruct (ap_allow s t) as [[s' v]|k]; [|reflexivity].
      rewrite IH. destruct (ap_exec s' r); reflexivity.
    + rewrite IH. destruct (ap_exec (ap_reset s t) r); reflexivity.
Qed.

Lemma ap_last_event_tb st ops : forall acc vs,
  tb_last (option_map (fun a => a - st) acc) (map (rel st) ops) vs
  = option_map (fun a => a - st) (ap_last_event acc ops (map Ok vs)).
Proof.
  induction ops as [|o r IH]; intros acc vs; cbn [map tb_last ap_last_event]; [reflexivity|].
  destruct o as [t|t]; cbn [rel]; destruct vs as [|v vr]; cbn [map]; try reflexivity.
  - rewrite <- IH. destruct v; reflexivity.
  - rewrite <- IH. reflexivity.
Qed.

Lemma nondec_map_app ops : forall lo x, nondec lo (map apop_time (ops ++ [AReq x])) ->
  nondec lo (map apop_time ops) /\ lo <= x /\ (forall o, In o ops -> lo <= apop_time o <= x).
Proof.
  induction ops as [|o r IH]; intros lo x H; cbn [app map nondec apop_time] in *.
  - destruct H as [H _]. split; [exact Logic.I|]. split; [exact H|]. intros o [].
  - destruct H as [H1 H2]. destruct (IH _ _ H2) as (Ha & Hb & Hc).
    split; [split; [exact H1 | exact Ha]|]. split; [lia|].
    intros o' [<- | Ho']; [lia | destruct (Hc _ Ho'); lia].
Qed.

(* state of a position limiter reached from `new`, seen from a later request instant *)
Lemma ap_reach t0 ops now : nondec t0 (map apop_time (ops ++ [AReq now])) -> now < t0 + U64 ->
  exists c p, ap_exec (ap_new t0) ops = Ok (mk_ap c p t0) /\
    (c, p) = tb_exec AP_INTERVAL_NS AP_MAX_BURST AP_MAX_BURST 0 (map (rel t0) ops) /\
    ap_run (ap_new t0) ops = map Ok (tb_run AP_INTERVAL_NS AP_MAX_BURST AP_MAX_BURST 0 (map (rel t0) ops)) /\
    c <= AP_MAX_BURST /\ p <= now - t0 /\ t0 <= now /\
    mono 0 (map (rel t0) ops) /\ (forall o, In o ops -> t0 <= apop_time o).
Proof.
  intros Hnd Hnow. destruct (nondec_map_app _ _ _ Hnd) as (Hnd1 & Ht0 & Hall).
  assert (HI : 0 < AP_INTERVAL_NS) by (rewrite API; lia).
  assert (HB : 0 < AP_MAX_BURST) by (rewrite APB; lia).
  assert (Hu : ap_times_ok t0 ops) by (intros o Ho; destruct (Hall o Ho); lia).
  destruct (ap_run_tb ops (ap_new t0) t0 (ap_new_ok t0)) as [Hrun Hexec]; cbn [ap_new ap_start ap_prev]; try assumption; try lia.
  cbn [ap_new ap_cap ap_prev ap_start] in Hrun, Hexec.
  pose proof (nondec_rel_mono ops t0 t0 (N.le_refl _) Hnd1) as Hm. rewrite N.sub_diag in Hm.
  pose proof (tb_exec_inv _ _ HI HB (map (rel t0) ops) AP_MAX_BURST 0 (N.le_refl _) Hm) as Hinv.
  destruct (tb_exec AP_INTERVAL_NS AP_MAX_BURST AP_MAX_BURST 0 (map (rel t0) ops)) as [c p] eqn:E.
  destruct Hinv as (Hc & _ & Hp).
  exists c, p. repeat split; try assumption.
  - apply Hp; [|lia]. intros o Ho. apply in_map_iff in Ho. destruct Ho as (o' & <- & Ho').
    rewrite rel_time. destruct (Hall o' Ho'). lia.
  - intros o Ho. destruct (Hall o Ho). lia.
Qed.

(* LIVENESS for the position limiter: an update at least 1 ms after the last allowed update (or
   reset()) – or the very first update – requests a redraw *)
Theorem ap_liveness t0 ops now : nondec t0 (map apop_time (ops ++ [AReq now])) -> now < t0 + U64 ->
  (forall a, ap_last_event None ops (ap_run (ap_new t0) ops) = Some a -> a + 1000000 <= now) ->
  ap_run (ap_new t0) (ops ++ [AReq now]) = ap_run (ap_new t0) ops ++ [Ok true].
Proof.
  intros Hnd Hnow Hlast.
  destruct (ap_reach t0 ops now Hnd Hnow) as (c & p & Hexec & Hcp & Hrun & Hc & Hp & Ht0 & Hm & Hge).
  assert (HI : 0 < AP_INTERVAL_NS) by (rewrite API; lia).
  assert (HB : 0 < AP_MAX_BURST) by (rewrite APB; lia).
  rewrite ap_run_snoc, Hexec. f_equal. cbn [ap_run].
  rewrite (ap_allow_tb (mk_ap c p t0) now) by (unfold ap_ok; cbn [ap_cap ap_prev ap_start]; lia).
  cbn [ap_cap ap_prev ap_start].
  pose proof (tb_live_inv _ _ HI HB (map (rel t0) ops) AP_MAX_BURST 0 None Hm HB) as Hli.
  rewrite <- Hcp in Hli.
  change (@None N) with (option_map (fun a => a - t0) (@None N)) in Hli.
  rewrite ap_last_event_tb, <- Hrun in Hli.
  assert (Hev : forall a, ap_last_event None ops (ap_run (ap_new t0) ops) = Some a -> t0 <= a).
  { clear - Hge. generalize (ap_run (ap_new t0) ops) as vs. intros vs.
    assert (Hgen : forall acc, (forall a, acc = Some a -> t0 <= a) ->
                   forall a, ap_last_event acc ops vs = Some a -> t0 <= a).
    { revert vs Hge. induction ops as [|o r IH]; intros vs Hge acc Hacc a Ha; cbn [ap_last_event] in Ha.
      - apply Hacc. exact Ha.
      - assert (Hge' : forall o', In o' r -> t0 <= apop_time o') by (intros o' Ho'; apply Hge; right; exact Ho').
        pose proof (Hge o (or_introl eq_refl)) as Ho.
        destruct o as [t|t]; destruct vs as [|v vr]; try (apply Hacc; exact Ha); cbn [apop_time] in Ho.
        + refine (IH vr Hge' _ _ a Ha). intros a' Ha'. destruct v as [[|]|]; try (apply Hacc; exact Ha').
          injection Ha' as <-. exact Ho.
        + refine (IH vr Hge' _ _ a Ha). intros a' Ha'. injection Ha' as <-. exact Ho. }
    apply Hgen. intros a Ha. discriminate Ha. }
  destruct (ap_last_event None ops (ap_run (ap_new t0) ops)) as [a|] eqn:Ela; cbn [option_map] in Hli.
  - specialize (Hlast a eq_refl). specialize (Hev a eq_refl).
    assert (Hgap : a - t0 + AP_INTERVAL_NS <= now - t0) by (rewrite API; lia).
    pose proof (tb_live_step _ _ HI HB c p (Some (a - t0)) (now - t0) Hp Hli Hgap) as Hv.
    destruct (tb_step AP_INTERVAL_NS AP_MAX_BURST c p (now - t0)) as [[c' p'] v]. cbn [snd] in Hv. subst v. reflexivity.
  - pose proof (tb_live_step _ _ HI HB c p None (now - t0) Hp Hli Logic.I) as Hv.
    destruct (tb_step AP_INTERVAL_NS AP_MAX_BURST c p (now - t0)) as [[c' p'] v]. cbn [snd] in Hv. subst v. reflexivity.
Qed.

(* no panic site reachable / normal form of every step of the position limiter *)
Theorem ap_normal_form t0 ops now : nondec t0 (map apop_time (ops ++ [AReq now])) -> now < t0 + U64 ->
  exists s, ap_exec (ap_new t0) ops = Ok s /\
    let e := now - t0 - ap_prev s in
    ap_start s = t0 /\ ap_prev s <= now - t0 /\ ap_cap s <= 10 /\
    (ap_allow s now =
      if (ap_cap s =? 0) && (e <? 1000000) then Ok (s, false)
      else Ok (mk_ap (N.min 10 (ap_cap s + e / 1000000) - 1) (ap_prev s + e / 1000000 * 1000000) t0, true)) /\
    (((ap_cap s =? 0) && (e <? 1000000)) = false -> 1 <= N.min 10 (ap_cap s + e / 1000000)).
Proof.
  intros Hnd Hnow.
  destruct (ap_reach t0 ops now Hnd Hnow) as (c & p & Hexec & _ & _ & Hc & Hp & Ht0 & _ & _).
  exists (mk_ap c p t0). split; [exact Hexec|].
  cbv zeta. cbn [ap_cap ap_prev ap_start]. rewrite APB in Hc.
  repeat split; try assumption.
  - rewrite (ap_allow_tb (mk_ap c p t0) now) by (unfold ap_ok; cbn [ap_cap ap_prev ap_start]; rewrite ?APB; lia).
    cbn [ap_cap ap_prev ap_start]. unfold tb_step. rewrite APB, API.
    destruct ((c =? 0) && (now - t0 - p <? 1000000)); [reflexivity|].
    destruct (divmod_facts (now - t0 - p) 1000000) as [Hdm Hlt]; [lia|].
    do 3 f_equal. set (q := (now - t0 - p) / 1000000) in *. set (r := (now - t0 - p) mod 1000000) in *.
    clearbody q r. lia.
  - intros E. apply andb_false_iff in E.
    assert (Hq : c <> 0 \/ 1 <= (now - t0 - p) / 1000000).
    { destruct E as [E | E].
      - apply N.eqb_neq in E. left. exact E.
      - apply N.ltb_ge in E. right. apply (div_ge_of_mul (now - t0 - p) 1 1000000); lia. }
    set (q := (now - t0 - p) / 1000000) in *. clearbody q. lia.
Qed.

(** ** Part 4: a stand-alone bar in front of a throttled target *)

(* split syntactic conjunctions only (no unfolding, no intros) *)
Ltac splits := repeat match goal with |- _ /\ _ => split end.

Lemma request_std (I : N) r b0 b t : rl_ok r -> rl_interval r = I -> rl_prev r <= t ->
  exists r' fr,
    sys_request (mk_sys false (Some r) [b0]) 0 b t = Ok (mk_sys false (Some r') [b], fr) /\
    rl_ok r' /\ rl_interval r' = I /\ rl_prev r' <= t /\
    (fr = None \/ fr = Some [live b]) /\
    (fr = None -> r' = r /\ rl_cap r = 0 /\ t < rl_prev r + I).
Proof.
  intros Hok HIeq Hp. unfold sys_request. cbn [s_multi s_rl s_bars rl_opt_allow set_nth].
  rewrite (rl_allow_tb r t Hok Hp).
  destruct Hok as (H0 & Hu & Hc).
  assert (HB : 0 < RL_MAX_BURST) by (rewrite RLB; lia).
  pose proof (tb_step_spec _ _ H0 HB (rl_cap r) (rl_prev r) t Hp) as Hs. cbv zeta in Hs.
  pose proof (tb_step_cap _ _ H0 HB _ _ _ Hp Hc) as Hcap.
  destruct (tb_step (rl_interval r) RL_MAX_BURST (rl_cap r) (rl_prev r) t) as [[c' p'] v].
  destruct Hcap as (Hc' & Hp' & _).
  exists (mk_rl (rl_interval r) c' p'), (if v then Some [live b] else None).
  split; [reflexivity|]. split; [unfold rl_ok; cbn [rl_interval rl_cap]; splits; assumption|]. split; [exact HIeq|]. split; [exact Hp'|].
  destruct v.
  - split; [right; reflexivity | discriminate].
  - split; [left; reflexivity|]. intros _. destruct Hs as (-> & -> & Hc0 & Hlt).
    split; [destruct r; reflexivity|]. split; [exact Hc0 | rewrite <- HIeq; exact Hlt].
Qed.

Lemma via_ap_std (I : N) r b0 b t :
  rl_ok r -> rl_interval r = I -> rl_prev r <= t ->
  ap_ok (m_ap b) -> ap_start (m_ap b) <= t -> t < ap_start (m_ap b) + U64 ->
  ap_prev (m_ap b) <= t - ap_start (m_ap b) ->
  exists r' b' reached fr,
    via_ap (mk_sys false (Some r) [b0]) 0 b t = Ok (mk_sys false (Some r') [b'], (reached, fr)) /\
    rl_ok r' /\ rl_interval r' = I /\ rl_prev r' <= t /\
    ap_ok (m_ap b') /\ ap_start (m_ap b') = ap_start (m_ap b) /\
    ap_prev (m_ap b') <= t - ap_start (m_ap b) /\
    live b' = live b /\
    (fr = None \/ fr = Some [live b']) /\
    (fr = None -> r' = r /\
       ((rl_cap r = 0 /\ t < rl_prev r + I) \/
        (ap_cap (m_ap b) = 0 /\ ap_prev (m_ap b') = ap_prev (m_ap b) /\
         t < ap_start (m_ap b) + ap_prev (m_ap b) + AP_INTERVAL_NS))).
Proof.
  intros Hok HIeq Hp Hapok Hst Hu Hpp. unfold via_ap.
  rewrite (ap_allow_tb (m_ap b) t Hapok Hst) by lia.
  assert (HI : 0 < AP_INTERVAL_NS) by (rewrite API; lia).
  assert (HB : 0 < AP_MAX_BURST) by (rewrite APB; lia).
  pose proof (tb_step_spec _ _ HI HB (ap_cap (m_ap b)) (ap_prev (m_ap b)) _ Hpp) as Hs. cbv zeta in Hs.
  pose proof (tb_step_cap _ _ HI HB _ _ _ Hpp Hapok) as Hcap.
  destruct (tb_step AP_INTERVAL_NS AP_MAX_BURST (ap_cap (m_ap b)) (ap_prev (m_ap b)) (t - ap_start (m_ap b))) as [[c' p'] v].
  destruct Hcap as (Hc' & Hp' & _).
  destruct v.
  - set (b1 := mk_mbar (m_pos b) (m_len b) (m_msg b) (mk_ap c' p' (ap_start (m_ap b))) (m_shown b)).
    destruct (request_std I r b0 b1 t Hok HIeq Hp) as (r' & fr & Hreq & Hok' & HI' & Hp1 & Hfr & Hnone).
    rewrite Hreq. exists r', b1, true, fr. split; [reflexivity|].
    splits; try assumption; try reflexivity.
    intros Hn. destruct (Hnone Hn) as (Hr & Hc0 & Hlt). split; [exact Hr|]. left. split; assumption.
  - destruct Hs as (-> & -> & Hc0 & Hlt).
    cbn [s_multi s_rl s_bars set_nth].
    exists r, (mk_mbar (m_pos b) (m_len b) (m_msg b) (mk_ap (ap_cap (m_ap b)) (ap_prev (m_ap b)) (ap_start (m_ap b))) (m_shown b)), false, None.
    split; [reflexivity|]. cbn [m_ap ap_cap ap_prev ap_start].
    splits; try assumption; try reflexivity; try (left; reflexivity).
    intros _. split; [reflexivity|]. right. splits; try assumption; try reflexivity. lia.
Qed.

Definition with_pos_live b p : live (with_pos b p) = (p, m_len b, m_msg b) := eq_refl.

Lemma sys_step_std (I : N) r b lo t o :
  rl_ok r -> rl_interval r = I -> rl_prev r <= lo ->
  ap_ok (m_ap b) -> ap_start (m_ap b) <= lo -> ap_prev (m_ap b) <= lo - ap_start (m_ap b) ->
  lo <= t -> t < ap_start (m_ap b) + U64 ->
  exists r' b' reached fr,
    sys_step (mk_sys false (Some r) [b]) t 0 o = Ok (mk_sys false (Some r') [b'], (reached, fr)) /\
    rl_ok r' /\ rl_interval r' = I /\ rl_prev r' <= t /\
    ap_ok (m_ap b') /\ ap_start (m_ap b') = ap_start (m_ap b) /\
    ap_prev (m_ap b') <= t - ap_start (m_ap b) /\
    live b' = upd (live b) o /\
    (fr = None \/ fr = Some [live b']) /\
    (fr = None -> r' = r /\
       ((rl_cap r = 0 /\ t < rl_prev r + I) \/
        (ap_cap (m_ap b) = 0 /\ ap_prev (m_ap b') = ap_prev (m_ap b) /\
         t < ap_start (m_ap b) + ap_prev (m_ap b) + AP_INTERVAL_NS))).
Proof.
  intros Hok HIeq Hp Hapok Hst Hpp Hlo Hu.
  assert (Hp' : rl_prev r <= t) by lia.
  unfold sys_step. cbn [N.to_nat nth_error s_bars].
  destruct o as [d|d|q| |m|l|px| ].
  - destruct (via_ap_std I r b (with_pos b (wadd64 (m_pos b) d)) t) as (r' & b' & re & fr & H & H1 & H2 & H3 & H4 & H5 & H6 & H7 & H8 & H9);
      cbn [with_pos m_ap]; try assumption; try lia.
    exists r', b', re, fr. split; [exact H|]. cbn [with_pos m_ap] in *. splits; try assumption; try (rewrite H7; reflexivity).
  - destruct (via_ap_std I r b (with_pos b (wsub64 (m_pos b) d)) t) as (r' & b' & re & fr & H & H1 & H2 & H3 & H4 & H5 & H6 & H7 & H8 & H9);
      cbn [with_pos m_ap]; try assumption; try lia.
    exists r', b', re, fr. split; [exact H|]. cbn [with_pos m_ap] in *. splits; try assumption; try (rewrite H7; reflexivity).
  - destruct (via_ap_std I r b (with_pos b q) t) as (r' & b' & re & fr & H & H1 & H2 & H3 & H4 & H5 & H6 & H7 & H8 & H9);
      cbn [with_pos m_ap]; try assumption; try lia.
    exists r', b', re, fr. split; [exact H|]. cbn [with_pos m_ap] in *. splits; try assumption; try (rewrite H7; reflexivity).
  - destruct (request_std I r b b t Hok HIeq Hp') as (r' & fr & Hreq & Hok' & HI' & Hp1 & Hfr & Hnone).
    rewrite Hreq. exists r', b, true, fr. split; [reflexivity|].
    splits; try assumption; try lia.
    + destruct b; reflexivity.
    + intros Hn. destruct (Hnone Hn) as (Hr & Hc0 & Hlt). split; [exact Hr|]. left. split; assumption.
  - set (b1 := mk_mbar (m_pos b) (m_len b) m (m_ap b) (m_shown b)).
    destruct (request_std I r b b1 t Hok HIeq Hp') as (r' & fr & Hreq & Hok' & HI' & Hp1 & Hfr & Hnone).
    rewrite Hreq. exists r', b1, true, fr. split; [reflexivity|].
    splits; try assumption; try reflexivity; try (cbn [b1 m_ap]; lia).
    intros Hn. destruct (Hnone Hn) as (Hr & Hc0 & Hlt). split; [exact Hr|]. left. split; assumption.
  - set (b1 := mk_mbar (m_pos b) l (m_msg b) (m_ap b) (m_shown b)).
    destruct (request_std I r b b1 t Hok HIeq Hp') as (r' & fr & Hreq & Hok' & HI' & Hp1 & Hfr & Hnone).
    rewrite Hreq. exists r', b1, true, fr. split; [reflexivity|].
    splits; try assumption; try reflexivity; try (cbn [b1 m_ap]; lia).
    intros Hn. destruct (Hnone Hn) as (Hr & Hc0 & Hlt). split; [exact Hr|]. left. split; assumption.
  - destruct (request_std I r b b t Hok HIeq Hp') as (r' & fr & Hreq & Hok' & HI' & Hp1 & Hfr & Hnone).
    rewrite Hreq. exists r', b, true, fr. split; [reflexivity|].
    splits; try assumption; try lia.
    + destruct b; reflexivity.
    + intros Hn. destruct (Hnone Hn) as (Hr & Hc0 & Hlt). split; [exact Hr|]. left. split; assumption.
  - set (b1 := mk_mbar 0 (m_len b) (m_msg b) (ap_reset (m_ap b) t) (m_shown b)).
    destruct (request_std I r b b1 t Hok HIeq Hp') as (r' & fr & Hreq & Hok' & HI' & Hp1 & Hfr & Hnone).
    rewrite Hreq. exists r', b1, false, fr. split; [reflexivity|].
    assert (Hmod : (t - ap_start (m_ap b)) mod U64 = t - ap_start (m_ap b)) by (apply N.mod_small; lia).
    splits; try assumption; cbn [b1 m_ap ap_reset ap_cap ap_prev ap_start]; try assumption; try reflexivity; try lia.
    intros Hn. destruct (Hnone Hn) as (Hr & Hc0 & Hlt). split; [exact Hr|]. left. split; assumption.
Qed.

(* invariant of a stand-alone bar: the two limiter invariants, plus – relative to the instant
   [f] of the last painted frame – what a frameless stretch preserves *)
Definition std_J (I : N) (r : rl) (b : mbar) (lo : N) (lp : option N) : Prop :=
  rl_ok r /\ rl_interval r = I /\ rl_prev r <= lo /\
  ap_ok (m_ap b) /\ ap_start (m_ap b) <= lo /\ ap_prev (m_ap b) <= lo - ap_start (m_ap b) /\
  match lp with
  | None => 0 < rl_cap r /\ 0 < ap_cap (m_ap b)
  | Some f => f <= lo /\ rl_prev r <= f /\
              ap_start (m_ap b) + ap_prev (m_ap b) < f + I /\ lo < f + I + AP_INTERVAL_NS
  end.

Lemma std_ops_cons t o ops : std_ops ((t, o) :: ops) = (t, 0, o) :: std_ops ops.
Proof. reflexivity. Qed.

Lemma std_run_stale (I : N) (HI : 0 < I) ops : forall r b lo lp,
  std_J I r b lo lp -> nondec lo (map fst ops) ->
  (forall t, In t (map fst ops) -> t < ap_start (m_ap b) + U64) -> ops <> [] ->
  exists f, last_paint lp (map fst ops) (sys_run (mk_sys false (Some r) [b]) (std_ops ops)) = Some f
            /\ f <= last (map fst ops) 0 /\ last (map fst ops) 0 < f + I + AP_INTERVAL_NS.
Proof.
  induction ops as [|[t o] rest IH]; intros r b lo lp HJ Hnd Hu Hne; [contradiction|].
  destruct HJ as (Hok & HIeq & Hp & Hapok & Hst & Hpp & Hlp).
  cbn [map fst nondec] in Hnd. destruct Hnd as [Hlo Hnd'].
  assert (Hut : t < ap_start (m_ap b) + U64) by (apply Hu; left; reflexivity).
  destruct (sys_step_std I r b lo t o Hok HIeq Hp Hapok Hst Hpp Hlo Hut)
    as (r' & b' & reached & fr & Hstep & Hok' & HI' & Hp' & Hapok' & Hst' & Hpp' & _ & Hfr & Hnone).
  rewrite std_ops_cons. cbn [sys_run]. rewrite Hstep. cbn [map fst last_paint].
  set (lp' := match fr with Some _ => Some t | None => lp end).
  assert (HJ' : std_J I r' b' t lp').
  { unfold std_J. rewrite Hst'. splits; try assumption; try lia.
    unfold lp'. destruct fr as [x|].
    - splits; lia.
    - destruct (Hnone eq_refl) as (-> & Hcase). destruct lp as [f|].
      + destruct Hlp as (Hf1 & Hf2 & Hf3 & Hf4).
        destruct Hcase as [(Hc0 & Hlt) | (Hc0 & Hpeq & Hlt)]; splits; try lia.
      + destruct Hlp as (Hc1 & Hc2). destruct Hcase as [(Hc0 & _) | (Hc0 & _)]; lia. }
  destruct rest as [|op2 rest'].
  - cbn [std_ops map sys_run last_paint last fst].
    destruct HJ' as (_ & _ & _ & _ & _ & _ & Hlp'). unfold lp' in *.
    destruct fr as [x|].
    + exists t. splits; try reflexivity; lia.
    + destruct lp as [f|]; [exists f; splits; try reflexivity; lia|].
      destruct (Hnone eq_refl) as (-> & Hcase). destruct Hlp as (Hc1 & Hc2).
      destruct Hcase as [(Hc0 & _) | (Hc0 & _)]; lia.
  - assert (Hu' : forall t', In t' (map fst (op2 :: rest')) -> t' < ap_start (m_ap b') + U64).
    { intros t' Ht'. rewrite Hst'. apply Hu. right. exact Ht'. }
    destruct (IH r' b' t lp' HJ' Hnd' Hu') as (f & Hf1 & Hf2 & Hf3); [discriminate|].
    exists f. split; [exact Hf1|].
    change (last (map fst ((t, o) :: op2 :: rest')) 0) with (last (map fst (op2 :: rest')) 0).
    split; assumption.
Qed.

Lemma std_run_frames (I : N) ops : forall r b lo,
  rl_ok r -> rl_interval r = I -> rl_prev r <= lo ->
  ap_ok (m_ap b) -> ap_start (m_ap b) <= lo -> ap_prev (m_ap b) <= lo - ap_start (m_ap b) ->
  nondec lo (map fst ops) ->
  (forall t, In t (map fst ops) -> t < ap_start (m_ap b) + U64) ->
  forall k out, nth_error (sys_run (mk_sys false (Some r) [b]) (std_ops ops)) k = Some out ->
  exists reached fr, out = Ok (reached, fr) /\
    (fr = None \/ fr = Some [fold_left upd (firstn (S k) (map snd ops)) (live b)]).
Proof.
  induction ops as [|[t o] rest IH]; intros r b lo Hok HIeq Hp Hapok Hst Hpp Hnd Hu k out Hk.
  - destruct k; discriminate Hk.
  - cbn [map fst nondec] in Hnd. destruct Hnd as [Hlo Hnd'].
    assert (Hut : t < ap_start (m_ap b) + U64) by (apply Hu; left; reflexivity).
    destruct (sys_step_std I r b lo t o Hok HIeq Hp Hapok Hst Hpp Hlo Hut)
      as (r' & b' & reached & fr & Hstep & Hok' & HI' & Hp' & Hapok' & Hst' & Hpp' & Hlive & Hfr & _).
    rewrite std_ops_cons in Hk. cbn [sys_run] in Hk. rewrite Hstep in Hk.
    destruct k as [|k'].
    + cbn [nth_error] in Hk. injection Hk as <-. exists reached, fr. split; [reflexivity|].
      cbn [map snd firstn fold_left]. rewrite <- Hlive. exact Hfr.
    + cbn [nth_error] in Hk.
      assert (Hu' : forall t', In t' (map fst rest) -> t' < ap_start (m_ap b') + U64).
      { intros t' Ht'. rewrite Hst'. apply Hu. right. exact Ht'. }
      rewrite <- Hst' in Hpp'.
      assert (Hst2 : ap_start (m_ap b') <= t) by (rewrite Hst'; lia).
      destruct (IH r' b' t Hok' HI' Hp' Hapok' Hst2 Hpp' Hnd' Hu' k' out Hk) as (re & fr' & Ho & Hf).
      exists re, fr'. split; [exact Ho|].
      cbn [map snd]. change (firstn (S (S k')) (o :: map snd rest)) with (o :: firstn (S k') (map snd rest)).
      cbn [fold_left]. rewrite <- Hlive. exact Hf.
Qed.

Lemma std_new_J R t0 tb len0 : 1 <= R <= 255 -> t0 <= tb ->
  std_J (rl_interval_of R) (rl_new R t0) (mk_mbar 0 len0 0 (ap_new tb) None) tb None.
Proof.
  intros HR Ht. pose proof (rl_new_ok R t0 HR) as Hok.
  unfold std_J. cbn [rl_new rl_interval rl_cap rl_prev m_ap ap_new ap_cap ap_prev ap_start].
  rewrite RLB, APB. splits; try assumption; try reflexivity; try lia.
  apply ap_new_ok.
Qed.

(* STALENESS: at the instant of every call on a stand-alone bar, the most recent painted frame
   exists and is younger than one refresh interval plus 1 ms *)
Theorem std_staleness R t0 tb len0 ops : 1 <= R <= 255 -> t0 <= tb -> ops <> [] ->
  nondec tb (map fst ops) -> (forall t, In t (map fst ops) -> t < tb + U64) ->
  exists f, last_paint None (map fst ops)
              (sys_run (sys_new (false, Some R, t0, [(tb, len0)])) (std_ops ops)) = Some f
            /\ f <= last (map fst ops) 0
            /\ last (map fst ops) 0 < f + rl_interval_of R + 1000000.
Proof.
  intros HR Ht Hne Hnd Hu.
  destruct (rl_interval_facts R HR) as (HI & _).
  pose proof (std_run_stale (rl_interval_of R) HI ops _ _ tb None (std_new_J R t0 tb len0 HR Ht) Hnd Hu Hne) as H.
  rewrite API in H. exact H.
Qed.

(* NOTHING LOST: whatever a call on a stand-alone bar paints is the latest state – all updates
   so far, including those whose own redraw was skipped; and no call panics *)
Theorem std_nothing_lost R t0 tb len0 ops k out : 1 <= R <= 255 -> t0 <= tb ->
  nondec tb (map fst ops) -> (forall t, In t (map fst ops) -> t < tb + U64) ->
  nth_error (sys_run (sys_new (false, Some R, t0, [(tb, len0)])) (std_ops ops)) k = Some out ->
  exists reached fr, out = Ok (reached, fr) /\
    (fr = None \/ fr = Some [fold_left upd (firstn (S k) (map snd ops)) (0, len0, 0)]).
Proof.
  intros HR Ht Hnd Hu Hk.
  destruct (std_new_J R t0 tb len0 HR Ht) as (Hok & HIeq & Hp & Hapok & Hst & Hpp & _).
  exact (std_run_frames (rl_interval_of R) ops _ _ tb Hok HIeq Hp Hapok Hst Hpp Hnd Hu k out Hk).
Qed.

Lemma sys_run_length_std (I : N) ops : forall r b lo,
  rl_ok r -> rl_interval r = I -> rl_prev r <= lo ->
  ap_ok (m_ap b) -> ap_start (m_ap b) <= lo -> ap_prev (m_ap b) <= lo - ap_start (m_ap b) ->
  nondec lo (map fst ops) ->
  (forall t, In t (map fst ops) -> t < ap_start (m_ap b) + U64) ->
  length (sys_run (mk_sys false (Some r) [b]) (std_ops ops)) = length ops.
Proof.
  induction ops as [|[t o] rest IH]; intros r b lo Hok HIeq Hp Hapok Hst Hpp Hnd Hu; [reflexivity|].
  cbn [map fst nondec] in Hnd. destruct Hnd as [Hlo Hnd'].
  assert (Hut : t < ap_start (m_ap b) + U64) by (apply Hu; left; reflexivity).
  destruct (sys_step_std I r b lo t o Hok HIeq Hp Hapok Hst Hpp Hlo Hut)
    as (r' & b' & reached & fr & Hstep & Hok' & HI' & Hp' & Hapok' & Hst' & Hpp' & _).
  rewrite std_ops_cons. cbn [sys_run]. rewrite Hstep. cbn [length]. f_equal.
  assert (Hu' : forall t', In t' (map fst rest) -> t' < ap_start (m_ap b') + U64).
  { intros t' Ht'. rewrite Hst'. apply Hu. right. exact Ht'. }
  rewrite <- Hst' in Hpp'.
  assert (Hst2 : ap_start (m_ap b') <= t) by (rewrite Hst'; lia).
  exact (IH r' b' t Hok' HI' Hp' Hapok' Hst2 Hpp' Hnd' Hu').
Qed.

(* every call on a stand-alone bar produces an outcome (the run is never cut short by a panic) *)
Theorem std_no_panic R t0 tb len0 ops : 1 <= R <= 255 -> t0 <= tb ->
  nondec tb (map fst ops) -> (forall t, In t (map fst ops) -> t < tb + U64) ->
  length (sys_run (sys_new (false, Some R, t0, [(tb, len0)])) (std_ops ops)) = length ops.
Proof.
  intros HR Ht Hnd Hu.
  destruct (std_new_J R t0 tb len0 HR Ht) as (Hok & HIeq & Hp & Hapok & Hst & Hpp & _).
  exact (sys_run_length_std (rl_interval_of R) ops _ _ tb Hok HIeq Hp Hapok Hst Hpp Hnd Hu).
Qed.

(** ** Documentation: the pre-fix limiter violated the window bound (D12, D13) *)
Theorem old_code_refuted :
  (exists ts, nondec 0 ts /\
     ~ (allowed_in 99999999 (99999999 + 1) ts (rl_run_old (rl_new_old 20 0) ts) * 1000000000
        <= 21 * 1000000000 + 20 * 1))
  /\
  (exists ts, nondec 0 ts /\
     ~ (allowed_in 0 999000000 ts (rl_run_old (rl_new_old 255 0) ts) * 1000000000
        <= 21 * 1000000000 + 255 * 999000000)).
Proof.
  split.
  - exists (repeat 99999999 21 ++ [100000000]). split.
    + vm_compute. repeat split; discriminate.
    + vm_compute. intros H. apply H. reflexivity.
  - exists (map (fun k => N.of_nat k * 3000000) (seq 0 334)). split.
    + vm_compute. repeat split; discriminate.
    + vm_compute. intros H. apply H. reflexivity.
Qed.
