(** Proofs about the terminal model (model/Term.v) and the TermLike call sequences of
    DrawState::draw_to_term (model/Draw.v): the macro lemmas every screen theorem is built from.
    INTERFACE block: see the end of this comment (kept stable). *)
From Coq Require Import List NArith ZArith Bool Lia Arith ZifyBool ZifyNat ZifyN.
From IndModel Require Import Term.
Import ListNotations.
Local Open Scope nat_scope.
Arguments N.add : simpl never.
Arguments N.sub : simpl never.
Arguments N.mul : simpl never.
Arguments N.div : simpl never.
Arguments N.modulo : simpl never.
Arguments Nat.min : simpl never.
Arguments Nat.sub : simpl never.
Arguments Nat.div : simpl never.

(* ------------------------------------------------------------------ small list facts *)
Lemma repeat_snoc {A} (x : A) k : repeat x k ++ [x] = x :: repeat x k.
Proof. induction k as [|k IH]; cbn [repeat app]; [reflexivity | now rewrite IH]. Qed.

Lemma repeat_app_cons {A} (x : A) k l : repeat x k ++ x :: l = x :: repeat x k ++ l.
Proof.
  change (x :: l) with ([x] ++ l). rewrite app_assoc, repeat_snoc. reflexivity.
Qed.

Lemma removelast_cons {A} (x : A) l : l <> [] -> removelast (x :: l) = x :: removelast l.
Proof. destruct l; [congruence | reflexivity]. Qed.

Lemma last_cons {A} (x : A) l d : l <> [] -> last (x :: l) d = last l d.
Proof. destruct l; [congruence | reflexivity]. Qed.

(* ------------------------------------------------------------------ chunks *)
Lemma chunk_acc_nonempty W r s : chunk_acc W r s <> [].
Proof.
  revert r; induction s as [|c s IH]; intros r; cbn [chunk_acc]; [congruence|].
  destruct (Nat.leb W (length r)); [congruence | apply IH].
Qed.

Lemma chunk_acc_length_pos W r s : 1 <= length (chunk_acc W r s).
Proof. pose proof (chunk_acc_nonempty W r s) as Hne. destruct (chunk_acc W r s); [congruence | cbn; lia]. Qed.

Lemma chunks_nil W : chunks W [] = [[]].
Proof. reflexivity. Qed.

Lemma chunk_acc_concat W r s : concat (chunk_acc W r s) = r ++ s.
Proof.
  revert r; induction s as [|c s IH]; intros r; cbn [chunk_acc].
  - cbn. now rewrite !app_nil_r.
  - destruct (Nat.leb W (length r)).
    + cbn [concat]. rewrite IH. reflexivity.
    + rewrite IH, <- app_assoc. reflexivity.
Qed.

(** a full row is closed by the next character *)
Lemma chunk_acc_full W r s :
  1 <= W -> W <= length r -> s <> [] -> chunk_acc W r s = r :: chunks W s.
Proof.
  intros HW Hr Hs. destruct s as [|c s]; [congruence|].
  unfold chunks. cbn [chunk_acc length].
  destruct (Nat.leb_spec W (length r)) as [_|Hlt]; [|lia].
  destruct (Nat.leb_spec W 0) as [H0|_]; [lia|]. reflexivity.
Qed.

Lemma chunk_acc_unfold W : 1 <= W -> forall s r, length r <= W ->
  chunk_acc W r s =
    if Nat.leb (length r + length s) W then [r ++ s]
    else (r ++ firstn (W - length r) s) :: chunks W (skipn (W - length r) s).
Proof.
  intros HW s; induction s as [|c s IH]; intros r Hr.
  - cbn [chunk_acc length]. rewrite Nat.add_0_r.
    destruct (Nat.leb_spec (length r) W); [|lia]. now rewrite app_nil_r.
  - cbn [chunk_acc]. destruct (Nat.leb_spec W (length r)) as [Hfull|Hlt].
    + assert (Hrw : W - length r = 0) by lia. rewrite Hrw. cbn [firstn skipn length].
      destruct (Nat.leb_spec (length r + S (length s)) W); [lia|].
      rewrite app_nil_r. unfold chunks. cbn [chunk_acc length].
      destruct (Nat.leb_spec W 0); [lia|]. reflexivity.
    + rewrite IH by (rewrite app_length; cbn; lia).
      rewrite app_length. cbn [length].
      assert (Hrw : W - length r = S (W - (length r + 1))) by lia. rewrite Hrw.
      cbn [firstn skipn].
      replace (length r + 1 + length s) with (length r + S (length s)) by lia.
      destruct (Nat.leb (length r + S (length s)) W).
      * now rewrite <- app_assoc.
      * now rewrite <- app_assoc.
Qed.

(** the defining equation of [chunks]: rows of W cells *)
Lemma chunks_unfold W s : 1 <= W ->
  chunks W s = if Nat.leb (length s) W then [s] else firstn W s :: chunks W (skipn W s).
Proof.
  intros HW. unfold chunks at 1. rewrite chunk_acc_unfold by (cbn; lia).
  cbn [length app]. rewrite Nat.sub_0_r. reflexivity.
Qed.

Lemma chunks_length W s : 1 <= W ->
  length (chunks W s) = Nat.max 1 ((length s + W - 1) / W).
Proof.
  intros HW. remember (length s) as n eqn:Hn. revert s Hn.
  induction n as [n IH] using lt_wf_ind. intros s Hn.
  rewrite chunks_unfold by assumption. rewrite <- Hn.
  destruct (Nat.leb_spec n W) as [Hle|Hgt].
  - cbn [length]. destruct (Nat.eq_dec n 0) as [->|Hpos].
    + rewrite Nat.div_small by lia. reflexivity.
    + replace (n + W - 1) with ((n - 1) + 1 * W) by lia.
      rewrite Nat.div_add by lia. rewrite Nat.div_small by lia. reflexivity.
  - cbn [length]. rewrite (IH (n - W)) by (try rewrite skipn_length; lia).
    replace (n + W - 1) with ((n - W + W - 1) + 1 * W) by lia.
    rewrite Nat.div_add by lia.
    assert (Hq : 1 <= (n - W + W - 1) / W).
    { replace (n - W + W - 1) with ((n - W - 1) + 1 * W) by lia.
      rewrite Nat.div_add by lia. generalize ((n - W - 1) / W). intros q. lia. }
    revert Hq. generalize ((n - W + W - 1) / W). intros q Hq. lia.
Qed.

Lemma chunks_concat W s : concat (chunks W s) = s.
Proof. unfold chunks. now rewrite chunk_acc_concat. Qed.

(** every row but the last is full, the last has 1..W cells (0 only for the empty string) *)
Lemma chunk_acc_rows W : 1 <= W -> forall s r, length r <= W ->
  Forall (fun x => length x = W) (removelast (chunk_acc W r s))
  /\ length (last (chunk_acc W r s) []) <= W
  /\ (r ++ s <> [] -> last (chunk_acc W r s) [] <> []).
Proof.
  intros HW s; induction s as [|c s IH]; intros r Hr.
  - cbn. repeat split; [constructor | assumption | now rewrite app_nil_r].
  - cbn [chunk_acc]. destruct (Nat.leb_spec W (length r)) as [Hfull|Hlt].
    + destruct (IH [c]) as (Ha & Hb & Hc); [cbn; lia|].
      rewrite removelast_cons, last_cons by apply chunk_acc_nonempty.
      repeat split; [constructor; [lia | exact Ha] | exact Hb | intros _; apply Hc; discriminate].
    + destruct (IH (r ++ [c])) as (Ha & Hb & Hc); [rewrite app_length; cbn; lia|].
      repeat split; [exact Ha | exact Hb |].
      intros _. apply Hc. destruct r; discriminate.
Qed.

(* ------------------------------------------------------------------ writing *)
Lemma set_cell_end r ch : set_cell r (length r) ch = r ++ [ch].
Proof.
  unfold set_cell. rewrite firstn_all, Nat.sub_diag. cbn [repeat app].
  rewrite skipn_all2 by lia. reflexivity.
Qed.

Lemma line_feed_vis H v : 1 <= H -> v <= H - 1 ->
  (if Nat.ltb (S v) H then S v else v) = Nat.min (H - 1) (v + 1).
Proof. intros HH Hv. destruct (Nat.ltb_spec (S v) H); lia. Qed.

Lemma put_app W H d r k v ch : length r < W ->
  put W H (app_state d r k v) ch = app_state d (r ++ [ch]) k v.
Proof.
  intros Hlt. unfold put, app_state. cbn [t_col t_above t_cur t_below t_vis].
  destruct (Nat.leb_spec W (length r)); [lia|].
  cbn [t_col t_above t_cur t_below t_vis]. rewrite set_cell_end, app_length. cbn [length].
  f_equal. lia.
Qed.

Lemma put_wrap W H d r k v ch : 1 <= H -> W <= length r -> v <= H - 1 ->
  put W H (app_state d r k v) ch = app_state (d ++ [r]) [ch] (k - 1) (Nat.min (H - 1) (v + 1)).
Proof.
  intros HH Hfull Hv. unfold put, app_state. cbn [t_col t_above t_cur t_below t_vis].
  destruct (Nat.leb_spec W (length r)); [|lia].
  unfold line_feed. cbn [t_col t_above t_cur t_below t_vis].
  rewrite line_feed_vis by assumption. rewrite rev_app_distr. cbn [rev app].
  destruct k as [|k]; cbn [repeat t_col t_above t_cur t_below t_vis].
  - reflexivity.
  - replace (S k - 1) with k by lia. reflexivity.
Qed.

Lemma puts_cons W H t c s : puts W H t (c :: s) = puts W H (put W H t c) s.
Proof. reflexivity. Qed.

(** writing a string with the cursor at the end of the partly written row [r] *)
Lemma puts_app_state W H : 1 <= W -> 1 <= H -> forall s d r k v,
  length r <= W -> v <= H - 1 ->
  puts W H (app_state d r k v) s =
    let R := chunk_acc W r s in
    app_state (d ++ removelast R) (last R []) (k - (length R - 1))
              (Nat.min (H - 1) (v + (length R - 1))).
Proof.
  intros HW HH s; induction s as [|c s IH]; intros d r k v Hr Hv.
  - cbn. rewrite app_nil_r. replace (k - (1 - 1)) with k by lia.
    replace (v + (1 - 1)) with v by lia.
    replace (Nat.min (H - 1) v) with v by lia. reflexivity.
  - rewrite puts_cons. cbn [chunk_acc].
    destruct (Nat.leb_spec W (length r)) as [Hfull|Hlt].
    + rewrite put_wrap by assumption. rewrite IH by (cbn; lia).
      cbv zeta. pose proof (chunk_acc_length_pos W [c] s) as Hpos.
      rewrite removelast_cons, last_cons by apply chunk_acc_nonempty.
      cbn [length]. rewrite <- app_assoc. cbn [app].
      f_equal; lia.
    + rewrite put_app by assumption. rewrite IH by (try rewrite app_length; cbn; lia).
      reflexivity.
Qed.

Lemma exec_line_app_state W H : 1 <= W -> 1 <= H -> forall s d r k v,
  length r <= W -> v <= H - 1 ->
  exec W H (app_state d r k v) (TLine s) =
    let R := chunk_acc W r s in
    app_state (d ++ R) [] (k - length R) (Nat.min (H - 1) (v + length R)).
Proof.
  intros HW HH s d r k v Hr Hv. cbn [exec]. rewrite puts_app_state by assumption.
  cbv zeta. pose proof (chunk_acc_length_pos W r s) as Hpos.
  pose proof (chunk_acc_nonempty W r s) as Hne.
  set (R := chunk_acc W r s) in *.
  unfold app_state, line_feed. cbn [t_col t_above t_cur t_below t_vis].
  rewrite line_feed_vis by lia.
  assert (Hrev : last R [] :: rev (d ++ removelast R) = rev (d ++ R)).
  { rewrite (app_removelast_last [] Hne) at 2. rewrite app_assoc, rev_app_distr. reflexivity. }
  destruct (k - (length R - 1)) as [|k'] eqn:Hk; cbn [repeat].
  - rewrite Hrev. replace (k - length R) with 0 by lia. cbn [repeat length]. f_equal. lia.
  - rewrite Hrev. replace (k - length R) with k' by lia. cbn [length]. f_equal. lia.
Qed.

(* ------------------------------------------------------------------ cursor movement *)
Lemma move_up_shape : forall k t, k <= t_vis t -> k <= length (t_above t) ->
  exists x ys, length ys = k /\
    move_up k t = mkterm (skipn k (t_above t)) x (ys ++ t_below t) (t_col t) (t_vis t - k).
Proof.
  induction k as [|k IH]; intros t Hv Hl.
  - exists (t_cur t), []. split; [reflexivity|]. cbn. rewrite Nat.sub_0_r. now destruct t.
  - cbn [move_up]. destruct (t_above t) as [|a ab] eqn:Hab; [cbn in Hl; lia|].
    destruct (IH (mkterm ab a (t_cur t :: t_below t) (t_col t) (t_vis t - 1))) as (x & ys & Hlen & Heq).
    + cbn. lia.
    + cbn in *. lia.
    + exists x, (ys ++ [t_cur t]). split; [rewrite app_length; cbn; lia|].
      rewrite Heq. cbn [t_above t_below t_col t_vis skipn]. rewrite <- app_assoc. cbn [app].
      f_equal. lia.
Qed.

Lemma move_up_blank : forall j A B c v,
  move_up j (mkterm (repeat [] j ++ A) [] B c (v + j)) = mkterm A [] (repeat [] j ++ B) c v.
Proof.
  induction j as [|j IH]; intros A B c v.
  - cbn. now rewrite Nat.add_0_r.
  - cbn [move_up repeat app t_above t_cur t_below t_col t_vis].
    replace (v + S j - 1) with (v + j) by lia. rewrite IH.
    now rewrite repeat_app_cons.
Qed.

(** the clear loop started on the first of [k] rows: all of them blank, cursor on the last *)
Lemma clear_loop_spec W H : forall k A x ys B c v,
  1 <= k -> length ys = k - 1 -> v + (k - 1) <= H - 1 ->
  run_ops W H (mkterm A x (ys ++ B) c v) (clear_loop k)
  = mkterm (repeat [] (k - 1) ++ A) [] B 0 (v + (k - 1)).
Proof.
  induction k as [|k IH]; intros A x ys B c v Hk Hys Hv; [lia|].
  destruct k as [|k].
  - destruct ys; [|cbn in Hys; lia]. cbn. now rewrite Nat.add_0_r.
  - destruct ys as [|y ys]; [cbn in Hys; lia|].
    change (clear_loop (S (S k))) with (TClear :: TDown 1 :: clear_loop (S k)).
    unfold run_ops. cbn [fold_left]. fold (run_ops W H).
    cbn [exec t_above t_cur t_below t_col t_vis].
    replace (Nat.min (N.to_nat 1) (H - 1 - v)) with 1 by lia.
    cbn [move_down app t_above t_cur t_below t_col t_vis].
    rewrite IH; [| lia | cbn in Hys; lia | lia].
    replace (S (S k) - 1) with (S (S k - 1)) by lia. cbn [repeat].
    rewrite repeat_app_cons. f_equal. lia.
Qed.

(** clear_ops n from the last of n rows: exactly those rows are blank afterwards, everything
    above untouched, cursor at column 0 of the first of them *)
Lemma erase_raw W H (n : N) t : (1 <= n)%N ->
  N.to_nat n - 1 <= t_vis t -> N.to_nat n - 1 <= length (t_above t) -> t_vis t <= H - 1 ->
  run_ops W H t (clear_ops n)
  = mkterm (skipn (N.to_nat n - 1) (t_above t)) []
           (repeat [] (N.to_nat n - 1) ++ t_below t) 0 (t_vis t - (N.to_nat n - 1)).
Proof.
  intros Hn Hv Hl Hh. unfold clear_ops, run_ops.
  cbn [fold_left]. rewrite fold_left_app. cbn [fold_left]. fold (run_ops W H).
  cbn [exec]. replace (N.to_nat (n - 1)) with (N.to_nat n - 1) by lia.
  set (j := N.to_nat n - 1) in *.
  replace (Nat.min j (t_vis t)) with j by lia.
  destruct (move_up_shape j t Hv Hl) as (x & ys & Hys & Heq). rewrite Heq.
  rewrite (clear_loop_spec W H (N.to_nat n)); [| lia | lia | lia].
  fold j. cbn [t_vis]. replace (Nat.min j (t_vis t - j + j)) with j by lia.
  rewrite move_up_blank. reflexivity.
Qed.

Lemma clear_ops_zero W H t : run_ops W H t (clear_ops 0) = t.
Proof. cbn. now destruct t. Qed.
