(** Proofs about the terminal model (model/Term.v) and the TermLike call sequences of
    DrawState::draw_to_term (model/Draw.v): the macro lemmas every screen theorem is built from.
    All for every W >= 1, H >= 1, no bound on sizes; closed under the global context.

    ===================== INTERFACE (statements kept stable) =====================
    Vocabulary (model/Term.v): [term] zipper, [exec]/[run_ops W H t ops] (W H : nat =
    N.to_nat of the drawing models' W H), [all_rows], [next_cell], [screen], [pad],
    [rows_equiv W A B] (= equal as rows of W cells, i.e. modulo trailing blanks),
    [chunks W s] / [wrap W ls] (rows of W cells; [chunks_unfold] is the defining equation),
    [ready W H C t] : the written rows are exactly C, the cursor is at column 0 of the blank row
      below C ([ready_start], t_col = 0) or wrap-pending on the full last row of C ([ready_edge],
      t_col = W <> 0), only blank rows below;  [reach t] = number of rows of C the cursor can reach
      by cursor-up without clamping;  [at_end X k v] = cursor at the end of the last row of X;
    [painted ls W H real] = the lines the paint loop paints before its `break`;
    [bar_rows ls W] = rows of the Bar lines; [paint_rows W first complete P] = exactly what the
      loop writes for the painted lines P (incl. fillers).
    Facts about ready:  ready_row (next_cell = (|C|, 0)), ready_all_rows (all_rows = C ++ blanks),
      ready_vis.
    (a) str_spec            : puts from ready, x <> [] \/ t_col = 0  ->  at_end (C ++ chunks W x)
        line_spec           : exec (TLine x) from ready (same proviso) -> ready (C ++ chunks W x),
                              t_col = 0, reach' = min (H-1) (reach + |chunks W x|)
        line_spec_edge_empty: an EMPTY write_line at the right edge only resolves the pending wrap
    (b) erase_spec          : ready (C ++ F), |F| = n >= 1, n <= reach, (below: t_col = 0 | not below:
                              t_col <> 0): run_ops ([TUp 1 if below] ++ clear_ops n) -> ready C,
                              t_col = 0, reach' = reach - n     (erase_spec_zero: n = 0 is a no-op;
                              erase_phase: both cases packaged)
        erase_raw           : the same on a raw zipper (rows above untouched: skipn)
    (c) paint_spec          : paint ls 0 |ls| W H 0 from ready C: real = bar_rows P W; P = [] -> no
                              calls; P <> [] -> at_end (C ++ paint_rows W true (|P| =? |ls|) P) with
                              t_vis = min (H-1) (reach + |R| - 1), last row <= W cells
        paint_rows_equiv    : rows_equiv (paint_rows ..) (wrap W (map lt P)), |paint_rows| = visual_line_count P W
        paint_rows_last_full: complete -> the last painted row is full (cursor wrap-pending)
        paint_tail          : the loop from index >= 1 (cursor at the end of the previous line)
        painted_prefix / painted_bar_rows_le / painted_all : P is the maximal fitting prefix
    (d) draw_to_term_spec_top : one draw_to_term with Top alignment from ready (C ++ F), |F| = n:
                              n' = bar_rows P W, the new cursor_below flag, P = [] -> ready C;
                              P = ls <> [] -> ready (C ++ R), t_col <> 0, reach' = min H (reach - n + |R|)
        draw_to_term_top_eq : (n <= H) the call list of draw_to_term (Top) = erase ++ paint ++ [TFlush];
                              draw_to_term_top_eq_min: for any n, with the count capped at H (fix 7d42cff);
                              new cursor_below = false iff the loop painted a line (fix dadbe71): the
                              flag conjunct of draw_to_term_spec_top is now `match painted ls W H 0 with ...`
        (Bottom alignment / shift: not covered here.)
    C19 geometry: chunks_length, wrapped_height_chunks, visual_line_count_wrap, filler_length.
    ============================================================================== *)
From Coq Require Import List NArith ZArith Bool Lia Arith ZifyBool ZifyNat ZifyN.
From IndModel Require Import Term.
Import ListNotations.
Local Open Scope nat_scope.
Arguments N.add : simpl never.
Arguments N.sub : simpl never.
Arguments N.mul : simpl never.
Arguments N.div : simpl never.
Arguments N.modulo : simpl never.
Arguments Nat.min : simpl never.
Arguments Nat.sub : simpl never.
Arguments Nat.div : simpl never.

(* ------------------------------------------------------------------ small list facts *)
Lemma repeat_snoc {A} (x : A) k : repeat x k ++ [x] = x :: repeat x k.
Proof. induction k as [|k IH]; cbn [repeat app]; [reflexivity | now rewrite IH]. Qed.

Lemma repeat_app_cons {A} (x : A) k l : repeat x k ++ x :: l = x :: repeat x k ++ l.
Proof.
  change (x :: l) with ([x] ++ l). rewrite app_assoc, repeat_snoc. reflexivity.
Qed.

Lemma removelast_cons {A} (x : A) l : l <> [] -> removelast (x :: l) = x :: removelast l.
Proof. destruct l; [congruence | reflexivity]. Qed.

Lemma last_cons {A} (x : A) l d : l <> [] -> last (x :: l) d = last l d.
Proof. destruct l; [congruence | reflexivity]. Qed.

Lemma last_app_ne {A} (a b : list A) d : b <> [] -> last (a ++ b) d = last b d.
Proof.
  intros Hb. induction a as [|x a IH]; [reflexivity|].
  cbn [app]. rewrite last_cons; [exact IH | destruct a; [cbn; exact Hb | discriminate]].
Qed.

Lemma removelast_length {A} (l : list A) : length (removelast l) = length l - 1.
Proof.
  induction l as [|x l IH]; [reflexivity|].
  destruct l as [|y l]; [reflexivity|].
  rewrite removelast_cons by discriminate. cbn [length] in *. lia.
Qed.

(* ------------------------------------------------------------------ chunks *)
Lemma chunk_acc_nonempty W r s : chunk_acc W r s <> [].
Proof.
  revert r; induction s as [|c s IH]; intros r; cbn [chunk_acc]; [congruence|].
  destruct (Nat.leb W (length r)); [congruence | apply IH].
Qed.

Lemma chunk_acc_length_pos W r s : 1 <= length (chunk_acc W r s).
Proof. pose proof (chunk_acc_nonempty W r s) as Hne. destruct (chunk_acc W r s); [congruence | cbn; lia]. Qed.

Lemma chunks_nil W : chunks W [] = [[]].
Proof. reflexivity. Qed.

Lemma chunk_acc_concat W r s : concat (chunk_acc W r s) = r ++ s.
Proof.
  revert r; induction s as [|c s IH]; intros r; cbn [chunk_acc].
  - cbn. now rewrite !app_nil_r.
  - destruct (Nat.leb W (length r)).
    + cbn [concat]. rewrite IH. reflexivity.
    + rewrite IH, <- app_assoc. reflexivity.
Qed.

(** a full row is closed by the next character *)
Lemma chunk_acc_full W r s :
  1 <= W -> W <= length r -> s <> [] -> chunk_acc W r s = r :: chunks W s.
Proof.
  intros HW Hr Hs. destruct s as [|c s]; [congruence|].
  unfold chunks. cbn [chunk_acc length].
  destruct (Nat.leb_spec W (length r)) as [_|Hlt]; [|lia].
  destruct (Nat.leb_spec W 0) as [H0|_]; [lia|]. reflexivity.
Qed.

Lemma chunk_acc_unfold W : 1 <= W -> forall s r, length r <= W ->
  chunk_acc W r s =
    if Nat.leb (length r + length s) W then [r ++ s]
    else (r ++ firstn (W - length r) s) :: chunks W (skipn (W - length r) s).
Proof.
  intros HW s; induction s as [|c s IH]; intros r Hr.
  - cbn [chunk_acc length]. rewrite Nat.add_0_r.
    destruct (Nat.leb_spec (length r) W); [|lia]. now rewrite app_nil_r.
  - cbn [chunk_acc]. destruct (Nat.leb_spec W (length r)) as [Hfull|Hlt].
    + assert (Hrw : W - length r = 0) by lia. rewrite Hrw. cbn [firstn skipn length].
      destruct (Nat.leb_spec (length r + S (length s)) W); [lia|].
      rewrite app_nil_r. unfold chunks. cbn [chunk_acc length].
      destruct (Nat.leb_spec W 0); [lia|]. reflexivity.
    + rewrite IH by (rewrite app_length; cbn; lia).
      rewrite app_length. cbn [length].
      assert (Hrw : W - length r = S (W - (length r + 1))) by lia. rewrite Hrw.
      cbn [firstn skipn].
      replace (length r + 1 + length s) with (length r + S (length s)) by lia.
      destruct (Nat.leb (length r + S (length s)) W).
      * now rewrite <- app_assoc.
      * now rewrite <- app_assoc.
Qed.

(** the defining equation of [chunks]: rows of W cells *)
Lemma chunks_unfold W s : 1 <= W ->
  chunks W s = if Nat.leb (length s) W then [s] else firstn W s :: chunks W (skipn W s).
Proof.
  intros HW. unfold chunks at 1. rewrite chunk_acc_unfold by (cbn; lia).
  cbn [length app]. rewrite Nat.sub_0_r. reflexivity.
Qed.

Lemma chunks_length W s : 1 <= W ->
  length (chunks W s) = Nat.max 1 ((length s + W - 1) / W).
Proof.
  intros HW. remember (length s) as n eqn:Hn. revert s Hn.
  induction n as [n IH] using lt_wf_ind. intros s Hn.
  rewrite chunks_unfold by assumption. rewrite <- Hn.
  destruct (Nat.leb_spec n W) as [Hle|Hgt].
  - cbn [length]. destruct (Nat.eq_dec n 0) as [->|Hpos].
    + rewrite Nat.div_small by lia. reflexivity.
    + replace (n + W - 1) with ((n - 1) + 1 * W) by lia.
      rewrite Nat.div_add by lia. rewrite Nat.div_small by lia. reflexivity.
  - cbn [length]. rewrite (IH (n - W)) by (try rewrite skipn_length; lia).
    replace (n + W - 1) with ((n - W + W - 1) + 1 * W) by lia.
    rewrite Nat.div_add by lia.
    assert (Hq : 1 <= (n - W + W - 1) / W).
    { replace (n - W + W - 1) with ((n - W - 1) + 1 * W) by lia.
      rewrite Nat.div_add by lia. generalize ((n - W - 1) / W). intros q. lia. }
    revert Hq. generalize ((n - W + W - 1) / W). intros q Hq. lia.
Qed.

Lemma chunks_concat W s : concat (chunks W s) = s.
Proof. unfold chunks. now rewrite chunk_acc_concat. Qed.

(** every row but the last is full, the last has 1..W cells (0 only for the empty string) *)
Lemma chunk_acc_rows W : 1 <= W -> forall s r, length r <= W ->
  Forall (fun x => length x = W) (removelast (chunk_acc W r s))
  /\ length (last (chunk_acc W r s) []) <= W
  /\ (r ++ s <> [] -> last (chunk_acc W r s) [] <> []).
Proof.
  intros HW s; induction s as [|c s IH]; intros r Hr.
  - cbn. repeat split; [constructor | assumption | now rewrite app_nil_r].
  - cbn [chunk_acc]. destruct (Nat.leb_spec W (length r)) as [Hfull|Hlt].
    + destruct (IH [c]) as (Ha & Hb & Hc); [cbn; lia|].
      rewrite removelast_cons, last_cons by apply chunk_acc_nonempty.
      repeat split; [constructor; [lia | exact Ha] | exact Hb | intros _; apply Hc; discriminate].
    + destruct (IH (r ++ [c])) as (Ha & Hb & Hc); [rewrite app_length; cbn; lia|].
      repeat split; [exact Ha | exact Hb |].
      intros _. apply Hc. destruct r; discriminate.
Qed.

(* ------------------------------------------------------------------ writing *)
Lemma set_cell_end r ch : set_cell r (length r) ch = r ++ [ch].
Proof.
  unfold set_cell. rewrite firstn_all, Nat.sub_diag. cbn [repeat app].
  rewrite skipn_all2 by lia. reflexivity.
Qed.

Lemma line_feed_vis H v : 1 <= H -> v <= H - 1 ->
  (if Nat.ltb (S v) H then S v else v) = Nat.min (H - 1) (v + 1).
Proof. intros HH Hv. destruct (Nat.ltb_spec (S v) H); lia. Qed.

Lemma put_app W H d r k v ch : length r < W ->
  put W H (app_state d r k v) ch = app_state d (r ++ [ch]) k v.
Proof.
  intros Hlt. unfold put, app_state. cbn [t_col t_above t_cur t_below t_vis].
  destruct (Nat.leb_spec W (length r)); [lia|].
  cbn [t_col t_above t_cur t_below t_vis]. rewrite set_cell_end, app_length. cbn [length].
  f_equal. lia.
Qed.

Lemma put_wrap W H d r k v ch : 1 <= H -> W <= length r -> v <= H - 1 ->
  put W H (app_state d r k v) ch = app_state (d ++ [r]) [ch] (k - 1) (Nat.min (H - 1) (v + 1)).
Proof.
  intros HH Hfull Hv. unfold put, app_state. cbn [t_col t_above t_cur t_below t_vis].
  destruct (Nat.leb_spec W (length r)); [|lia].
  unfold line_feed. cbn [t_col t_above t_cur t_below t_vis].
  rewrite line_feed_vis by assumption. rewrite rev_app_distr. cbn [rev app].
  destruct k as [|k]; cbn [repeat t_col t_above t_cur t_below t_vis].
  - reflexivity.
  - replace (S k - 1) with k by lia. reflexivity.
Qed.

Lemma puts_cons W H t c s : puts W H t (c :: s) = puts W H (put W H t c) s.
Proof. reflexivity. Qed.

(** writing a string with the cursor at the end of the partly written row [r] *)
Lemma puts_app_state W H : 1 <= W -> 1 <= H -> forall s d r k v,
  length r <= W -> v <= H - 1 ->
  puts W H (app_state d r k v) s =
    let R := chunk_acc W r s in
    app_state (d ++ removelast R) (last R []) (k - (length R - 1))
              (Nat.min (H - 1) (v + (length R - 1))).
Proof.
  intros HW HH s; induction s as [|c s IH]; intros d r k v Hr Hv.
  - cbn. rewrite app_nil_r. replace (k - (1 - 1)) with k by lia.
    replace (v + (1 - 1)) with v by lia.
    replace (Nat.min (H - 1) v) with v by lia. reflexivity.
  - rewrite puts_cons. cbn [chunk_acc].
    destruct (Nat.leb_spec W (length r)) as [Hfull|Hlt].
    + rewrite put_wrap by assumption. rewrite IH by (cbn; lia).
      cbv zeta. pose proof (chunk_acc_length_pos W [c] s) as Hpos.
      rewrite removelast_cons, last_cons by apply chunk_acc_nonempty.
      cbn [length]. rewrite <- app_assoc. cbn [app].
      f_equal; lia.
    + rewrite put_app by assumption. rewrite IH by (try rewrite app_length; cbn; lia).
      reflexivity.
Qed.

Lemma exec_line_app_state W H : 1 <= W -> 1 <= H -> forall s d r k v,
  length r <= W -> v <= H - 1 ->
  exec W H (app_state d r k v) (TLine s) =
    let R := chunk_acc W r s in
    app_state (d ++ R) [] (k - length R) (Nat.min (H - 1) (v + length R)).
Proof.
  intros HW HH s d r k v Hr Hv. cbn [exec]. rewrite puts_app_state by assumption.
  cbv zeta. pose proof (chunk_acc_length_pos W r s) as Hpos.
  pose proof (chunk_acc_nonempty W r s) as Hne.
  set (R := chunk_acc W r s) in *.
  unfold app_state, line_feed. cbn [t_col t_above t_cur t_below t_vis].
  rewrite line_feed_vis by lia.
  assert (Hrev : last R [] :: rev (d ++ removelast R) = rev (d ++ R)).
  { transitivity (rev ((d ++ removelast R) ++ [last R []])).
    - rewrite (rev_app_distr (d ++ removelast R) [last R []]). reflexivity.
    - rewrite <- app_assoc, <- app_removelast_last by exact Hne. reflexivity. }
  destruct (k - (length R - 1)) as [|k'] eqn:Hk; cbn [repeat].
  - rewrite Hrev. replace (k - length R) with 0 by lia. cbn [repeat length]. f_equal. lia.
  - rewrite Hrev. replace (k - length R) with k' by lia. cbn [length]. f_equal. lia.
Qed.

Lemma run_ops_cons W H t o ops : run_ops W H t (o :: ops) = run_ops W H (exec W H t o) ops.
Proof. reflexivity. Qed.
Lemma run_ops_app W H t a b : run_ops W H t (a ++ b) = run_ops W H (run_ops W H t a) b.
Proof. unfold run_ops. apply fold_left_app. Qed.
Lemma run_ops_nil W H t : run_ops W H t [] = t.
Proof. reflexivity. Qed.

(* ------------------------------------------------------------------ cursor movement *)
Lemma move_up_shape : forall k t, k <= t_vis t -> k <= length (t_above t) ->
  exists x ys, length ys = k /\
    move_up k t = mkterm (skipn k (t_above t)) x (ys ++ t_below t) (t_col t) (t_vis t - k).
Proof.
  induction k as [|k IH]; intros t Hv Hl.
  - exists (t_cur t), []. split; [reflexivity|]. cbn. rewrite Nat.sub_0_r. now destruct t.
  - cbn [move_up]. destruct (t_above t) as [|a ab] eqn:Hab; [cbn in Hl; lia|].
    destruct (IH (mkterm ab a (t_cur t :: t_below t) (t_col t) (t_vis t - 1))) as (x & ys & Hlen & Heq).
    + cbn. lia.
    + cbn in *. lia.
    + exists x, (ys ++ [t_cur t]). split; [rewrite app_length; cbn; lia|].
      rewrite Heq. cbn [t_above t_below t_col t_vis skipn]. rewrite <- app_assoc. cbn [app].
      f_equal. lia.
Qed.

Lemma move_up_blank : forall j A B c v,
  move_up j (mkterm (repeat [] j ++ A) [] B c (v + j)) = mkterm A [] (repeat [] j ++ B) c v.
Proof.
  induction j as [|j IH]; intros A B c v.
  - cbn. now rewrite Nat.add_0_r.
  - cbn [move_up repeat app t_above t_cur t_below t_col t_vis].
    replace (v + S j - 1) with (v + j) by lia. rewrite IH.
    now rewrite repeat_app_cons.
Qed.

(** the clear loop started on the first of [k] rows: all of them blank, cursor on the last *)
Lemma clear_loop_spec W H : forall k A x ys B c v,
  1 <= k -> length ys = k - 1 -> v + (k - 1) <= H - 1 ->
  run_ops W H (mkterm A x (ys ++ B) c v) (clear_loop k)
  = mkterm (repeat [] (k - 1) ++ A) [] B 0 (v + (k - 1)).
Proof.
  induction k as [|k IH]; intros A x ys B c v Hk Hys Hv; [lia|].
  destruct k as [|k].
  - destruct ys; [|cbn in Hys; lia]. cbn. now rewrite Nat.add_0_r.
  - destruct ys as [|y ys]; [cbn in Hys; lia|].
    change (clear_loop (S (S k))) with (TClear :: TDown 1 :: clear_loop (S k)).
    rewrite !run_ops_cons.
    cbn [exec t_above t_cur t_below t_col t_vis].
    replace (Nat.min (N.to_nat 1) (H - 1 - v)) with 1 by lia.
    cbn [move_down app t_above t_cur t_below t_col t_vis].
    rewrite IH; [| lia | cbn in Hys; lia | lia].
    replace (S (S k) - 1) with (S (S k - 1)) by lia. cbn [repeat].
    rewrite repeat_app_cons. f_equal. lia.
Qed.

(** clear_ops n from the last of n rows: exactly those rows are blank afterwards, everything
    above untouched, cursor at column 0 of the first of them *)
Lemma erase_raw W H (n : N) t : (1 <= n)%N ->
  N.to_nat n - 1 <= t_vis t -> N.to_nat n - 1 <= length (t_above t) -> t_vis t <= H - 1 ->
  run_ops W H t (clear_ops n)
  = mkterm (skipn (N.to_nat n - 1) (t_above t)) []
           (repeat [] (N.to_nat n - 1) ++ t_below t) 0 (t_vis t - (N.to_nat n - 1)).
Proof.
  intros Hn Hv Hl Hh. unfold clear_ops.
  rewrite run_ops_cons, run_ops_app, run_ops_cons, run_ops_nil.
  cbn [exec]. replace (N.to_nat (n - 1)) with (N.to_nat n - 1) by lia.
  set (j := N.to_nat n - 1) in *.
  replace (Nat.min j (t_vis t)) with j by lia.
  destruct (move_up_shape j t Hv Hl) as (x & ys & Hys & Heq). rewrite Heq.
  rewrite (clear_loop_spec W H (N.to_nat n)); [| lia | lia | lia].
  fold j. cbn [t_vis]. replace (Nat.min j (t_vis t - j + j)) with j by lia.
  rewrite move_up_blank. reflexivity.
Qed.

Lemma clear_ops_zero W H t : run_ops W H t (clear_ops 0) = t.
Proof. cbn. now destruct t. Qed.

(* ------------------------------------------------------------------ more on chunks: filler, heights *)
Lemma chunks_total_le W s : 1 <= W -> length s <= length (chunks W s) * W.
Proof.
  intros HW. remember (length s) as n eqn:Hn. revert s Hn.
  induction n as [n IH] using lt_wf_ind. intros s Hn.
  rewrite chunks_unfold by assumption. rewrite <- Hn.
  destruct (Nat.leb_spec n W) as [Hle|Hgt]; cbn [length].
  - lia.
  - specialize (IH (n - W) ltac:(lia) (skipn W s) ltac:(rewrite skipn_length; lia)). lia.
Qed.

Lemma chunks_filler_equiv W : 1 <= W -> forall s m,
  length s + m = length (chunks W s) * W ->
  rows_equiv W (chunks W (s ++ repeat SP m)) (chunks W s)
  /\ length (chunks W (s ++ repeat SP m)) = length (chunks W s)
  /\ Forall (fun x => length x = W) (chunks W (s ++ repeat SP m)).
Proof.
  intros HW s. remember (length s) as n eqn:Hn. revert s Hn.
  induction n as [n IH] using lt_wf_ind. intros s Hn m Hm.
  rewrite (chunks_unfold W s) in * by assumption. rewrite <- Hn in *.
  rewrite (chunks_unfold W (s ++ repeat SP m)) by assumption.
  rewrite app_length, repeat_length, <- Hn.
  destruct (Nat.leb_spec n W) as [Hle|Hgt].
  - cbn [length] in Hm. destruct (Nat.leb_spec (n + m) W); [|lia].
    unfold rows_equiv. cbn [map length]. unfold pad.
    rewrite app_length, repeat_length, <- Hn.
    replace (W - (n + m)) with 0 by lia. replace (W - n) with m by lia.
    cbn [repeat]. rewrite app_nil_r. repeat split.
    constructor; [|constructor]. rewrite app_length, repeat_length. lia.
  - cbn [length] in Hm. destruct (Nat.leb_spec (n + m) W); [lia|].
    rewrite firstn_app, skipn_app. replace (W - length s) with 0 by lia.
    cbn [firstn skipn]. rewrite app_nil_r.
    destruct (IH (n - W) ltac:(lia) (skipn W s) ltac:(rewrite skipn_length; lia) m) as (He & Hl & Hf).
    { lia. }
    unfold rows_equiv in *. cbn [map length]. rewrite He, Hl. repeat split.
    constructor; [|exact Hf]. rewrite firstn_length. lia.
Qed.

Local Open Scope N_scope.
Lemma wrapped_height_chunks (l : line) (W : N) : 1 <= W ->
  wrapped_height l W = N.of_nat (length (chunks (N.to_nat W) (lt l))).
Proof.
  intros HW. unfold wrapped_height, lwidth, tlen.
  rewrite chunks_length by lia.
  rewrite Nat2N.inj_max, Nat2N.inj_div. f_equal. f_equal; lia.
Qed.

Lemma filler_length (l : line) (W : N) : 1 <= W ->
  (length (lt l) + length (filler l W))%nat
  = (length (chunks (N.to_nat W) (lt l)) * N.to_nat W)%nat.
Proof.
  intros HW. unfold filler, spaces. rewrite repeat_length.
  rewrite wrapped_height_chunks by assumption. unfold lwidth, tlen.
  pose proof (chunks_total_le (N.to_nat W) (lt l) ltac:(lia)) as Hle.
  nia.
Qed.

Lemma visual_line_count_acc ls W : forall a,
  fold_left (fun acc l => acc + wrapped_height l W) ls a = a + visual_line_count ls W.
Proof.
  unfold visual_line_count. induction ls as [|l ls IH]; intros a; cbn [fold_left].
  - lia.
  - rewrite IH, (IH (0 + _)). lia.
Qed.

Lemma visual_line_count_cons l ls W :
  visual_line_count (l :: ls) W = wrapped_height l W + visual_line_count ls W.
Proof. unfold visual_line_count at 1. cbn [fold_left]. now rewrite visual_line_count_acc. Qed.

Lemma visual_line_count_app a b W :
  visual_line_count (a ++ b) W = visual_line_count a W + visual_line_count b W.
Proof.
  induction a as [|x a IH]; cbn [app]; [reflexivity|].
  rewrite !visual_line_count_cons, IH. lia.
Qed.

(** C19 (a): [visual_line_count] is the number of rows [wrap] produces *)
Lemma visual_line_count_wrap ls W : 1 <= W ->
  visual_line_count ls W = N.of_nat (length (wrap (N.to_nat W) (map lt ls))).
Proof.
  intros HW. induction ls as [|l ls IH].
  - reflexivity.
  - rewrite visual_line_count_cons, IH. unfold wrap. cbn [map concat].
    rewrite app_length, wrapped_height_chunks by assumption. lia.
Qed.
Local Open Scope nat_scope.

(* ------------------------------------------------------------------ (a) str_spec / line_spec *)
Lemma ready_vis W H C t : ready W H C t -> t_vis t <= H - 1.
Proof. intros [k v Hv | d r k v _ _ Hv]; exact Hv. Qed.

Lemma ready_row W H C t : 1 <= W -> ready W H C t ->
  next_cell W t = (length C, 0).
Proof.
  intros HW [k v Hv | d r k v HC Hr Hv]; unfold next_cell, t_row, app_state;
    cbn [t_col t_above length].
  - destruct (Nat.leb_spec W 0); [lia|]. now rewrite rev_length.
  - destruct (Nat.leb_spec W (length r)); [|lia].
    rewrite rev_length, HC, app_length. cbn [length]. f_equal. lia.
Qed.

Lemma ready_all_rows W H C t : ready W H C t ->
  exists k, all_rows t = C ++ repeat [] k.
Proof.
  intros [k v Hv | d r k v HC Hr Hv]; unfold all_rows, app_state; cbn [t_above t_cur t_below].
  - exists (S k). now rewrite rev_involutive.
  - exists k. rewrite rev_involutive, HC, <- app_assoc. reflexivity.
Qed.

(** the cursor at the end of the last row of the written rows [X] *)
Definition at_end (X : list row) (k v : nat) : term := app_state (removelast X) (last X []) k v.

Lemma at_end_app X R k v : R <> [] ->
  app_state (X ++ removelast R) (last R []) k v = at_end (X ++ R) k v.
Proof.
  intros HR. unfold at_end. rewrite removelast_app by assumption.
  rewrite last_app_ne by assumption. reflexivity.
Qed.

(** (a) writing a string from a ready cursor appends exactly its chunking into rows of W cells
    (an empty string only from column 0) *)
Lemma str_spec W H C t x : 1 <= W -> 1 <= H -> ready W H C t -> (x <> [] \/ t_col t = 0) ->
  exists k, puts W H t x
    = at_end (C ++ chunks W x) k (Nat.min (H - 1) (reach t + length (chunks W x) - 1)).
Proof.
  intros HW HH Hr Hx. pose proof (chunk_acc_length_pos W [] x) as Hpos. fold (chunks W x) in Hpos.
  destruct Hr as [k v Hv | d r k v HC Hlen Hv].
  - rewrite puts_app_state by (cbn; lia). cbv zeta. fold (chunks W x).
    eexists. rewrite at_end_app by apply chunk_acc_nonempty.
    unfold reach, app_state. cbn [t_vis t_col length Nat.eqb]. f_equal. lia.
  - destruct Hx as [Hx | Hx]; [| unfold app_state in Hx; cbn in Hx; lia].
    rewrite puts_app_state by lia. cbv zeta. rewrite chunk_acc_full by (assumption || lia).
    rewrite removelast_cons, last_cons by apply chunk_acc_nonempty.
    eexists. rewrite HC, <- !app_assoc. cbn [app].
    change (d ++ r :: removelast (chunks W x)) with (d ++ [r] ++ removelast (chunks W x)).
    rewrite app_assoc, at_end_app by apply chunk_acc_nonempty.
    rewrite <- app_assoc. unfold reach, app_state. cbn [t_vis t_col length].
    destruct (Nat.eqb_spec (length r) 0); [lia|]. f_equal. lia.
Qed.

Lemma exec_line_at_end W H X k v s : 1 <= W -> 1 <= H -> X <> [] ->
  length (last X []) <= W -> v <= H - 1 ->
  exec W H (at_end X k v) (TLine s)
  = app_state (removelast X ++ chunk_acc W (last X []) s) []
      (k - length (chunk_acc W (last X []) s))
      (Nat.min (H - 1) (v + length (chunk_acc W (last X []) s))).
Proof. intros HW HH HX Hl Hv. unfold at_end. now rewrite exec_line_app_state. Qed.

(** (a) write_line from a ready cursor: the rows of the chunking, then column 0 of the next row *)
Lemma line_spec W H C t x : 1 <= W -> 1 <= H -> ready W H C t -> (x <> [] \/ t_col t = 0) ->
  let t' := exec W H t (TLine x) in
  ready W H (C ++ chunks W x) t' /\ t_col t' = 0
  /\ reach t' = Nat.min (H - 1) (reach t + length (chunks W x)).
Proof.
  intros HW HH Hr Hx. pose proof (chunk_acc_length_pos W [] x) as Hpos. fold (chunks W x) in Hpos.
  destruct Hr as [k v Hv | d r k v HC Hlen Hv]; cbv zeta.
  - rewrite exec_line_app_state by (cbn; lia). cbv zeta. fold (chunks W x).
    split; [apply ready_start; lia|]. split; [reflexivity|].
    unfold reach, app_state. cbn [t_vis t_col length Nat.eqb]. lia.
  - destruct Hx as [Hx | Hx]; [| unfold app_state in Hx; cbn in Hx; lia].
    rewrite exec_line_app_state by lia. cbv zeta. rewrite chunk_acc_full by (assumption || lia).
    match goal with |- context [app_state ?a [] _ _] =>
      replace a with (C ++ chunks W x) by (rewrite HC, <- app_assoc; reflexivity) end.
    split; [apply ready_start; lia|]. split; [reflexivity|].
    unfold reach, app_state. cbn [t_vis t_col length Nat.eqb].
    destruct (Nat.eqb_spec (length r) 0); [lia|]. lia.
Qed.

(** terminal semantics: an EMPTY line written at the right edge only resolves the pending wrap *)
Lemma line_spec_edge_empty W H C t : 1 <= W -> 1 <= H -> ready W H C t -> t_col t <> 0 ->
  let t' := exec W H t (TLine []) in
  ready W H C t' /\ t_col t' = 0 /\ reach t' = Nat.min (H - 1) (reach t).
Proof.
  intros HW HH Hr Hc. destruct Hr as [k v Hv | d r k v HC Hlen Hv]; cbv zeta.
  - unfold app_state in Hc. cbn in Hc. congruence.
  - rewrite exec_line_app_state by lia. cbv zeta. cbn [chunk_acc length].
    rewrite <- HC. split; [apply ready_start; lia|]. split; [reflexivity|].
    unfold reach, app_state. cbn [t_vis t_col length Nat.eqb].
    destruct (Nat.eqb_spec (length r) 0); lia.
Qed.

(* ------------------------------------------------------------------ (b) erase_spec *)
(** (b) the erase phase of draw_to_term: [F] = the n rows to erase, the last rows written.
    Without the [below] flag the cursor is on the last of them (wrap-pending: [t_col t <> 0]),
    with it on the blank row below them ([t_col t = 0]); n <= reach: cursor-up is not clamped.
    Exactly the rows of [F] are blanked, [C] is untouched, the cursor is at column 0 of the
    first erased row.  n = 0: nothing happens. *)
Lemma erase_spec W H C F t (n : N) (below : bool) : 1 <= W -> 1 <= H ->
  ready W H (C ++ F) t -> length F = N.to_nat n -> N.to_nat n <= reach t ->
  (1 <= n)%N -> (if below then t_col t = 0 else t_col t <> 0) ->
  let t' := run_ops W H t ((if below && (0 <? n)%N then [TUp 1] else []) ++ clear_ops n) in
  ready W H C t' /\ t_col t' = 0 /\ reach t' = reach t - N.to_nat n.
Proof.
  intros HW HH Hr HF Hn Hpos Hb. cbv zeta. rewrite run_ops_app.
  destruct (N.ltb_spec 0 n) as [_|]; [|lia]. rewrite andb_true_r.
  destruct Hr as [k v Hv | d r k v HC Hlen Hv].
  - destruct below; [|unfold app_state in Hb; cbn in Hb; congruence].
    unfold reach, app_state in Hn. cbn [t_vis t_col Nat.eqb length] in Hn.
    assert (HFne : F <> []) by (destruct F; [cbn in HF; lia | discriminate]).
    rewrite run_ops_cons, run_ops_nil. unfold app_state.
    cbn [exec t_vis length]. replace (Nat.min (N.to_nat 1) v) with 1 by lia.
    assert (Hrev : rev (C ++ F) = last F [] :: rev (C ++ removelast F)).
    { rewrite (app_removelast_last [] HFne) at 1. rewrite app_assoc, rev_app_distr. reflexivity. }
    rewrite Hrev. cbn [move_up t_above t_cur t_below t_col t_vis].
    rewrite erase_raw; cbn [t_above t_cur t_below t_col t_vis];
      try rewrite rev_length, app_length, removelast_length; try lia.
    rewrite rev_app_distr, skipn_app, rev_length, removelast_length, HF.
    rewrite skipn_all2 by (rewrite rev_length, removelast_length; lia).
    replace (N.to_nat n - 1 - (N.to_nat n - 1)) with 0 by lia. cbn [skipn app].
    change ([] :: repeat [] k) with (repeat (@nil N) (S k)). rewrite <- repeat_app.
    change (mkterm (rev C) [] (repeat [] (N.to_nat n - 1 + S k)) 0 (v - 1 - (N.to_nat n - 1)))
      with (app_state C [] (N.to_nat n - 1 + S k) (v - 1 - (N.to_nat n - 1))).
    split; [apply ready_start; lia|]. split; [reflexivity|].
    unfold reach, app_state. cbn [t_vis t_col length Nat.eqb]. lia.
  - destruct below; [unfold app_state in Hb; cbn in Hb; lia|].
    rewrite run_ops_nil.
    unfold reach, app_state in Hn. cbn [t_vis t_col] in Hn.
    destruct (Nat.eqb_spec (length r) 0) as [|_]; [lia|].
    assert (HFne : F <> []) by (destruct F; [cbn in HF; lia | discriminate]).
    assert (Hd : d = C ++ removelast F).
    { apply (f_equal (@removelast _)) in HC. rewrite removelast_app in HC by assumption.
      rewrite removelast_last in HC. congruence. }
    rewrite erase_raw; unfold app_state; cbn [t_above t_cur t_below t_col t_vis];
      try rewrite rev_length, Hd, app_length, removelast_length; try lia.
    rewrite Hd at 1. rewrite rev_app_distr, skipn_app, rev_length, removelast_length, HF.
    rewrite skipn_all2 by (rewrite rev_length, removelast_length; lia).
    replace (N.to_nat n - 1 - (N.to_nat n - 1)) with 0 by lia. cbn [skipn app].
    rewrite <- repeat_app.
    change (mkterm (rev C) [] (repeat [] (N.to_nat n - 1 + k)) 0 (v - (N.to_nat n - 1)))
      with (app_state C [] (N.to_nat n - 1 + k) (v - (N.to_nat n - 1))).
    split; [apply ready_start; lia|]. split; [reflexivity|].
    unfold reach, app_state. cbn [t_vis t_col length Nat.eqb].
    destruct (Nat.eqb_spec (length r) 0); lia.
Qed.

Lemma erase_spec_zero W H t (below : bool) :
  run_ops W H t ((if below && (0 <? 0)%N then [TUp 1] else []) ++ clear_ops 0) = t.
Proof. rewrite andb_false_r. cbn [app]. apply clear_ops_zero. Qed.

(* ------------------------------------------------------------------ (c) the paint loop *)
Lemma exec_str W H t s : exec W H t (TStr s) = puts W H t s.
Proof. reflexivity. Qed.

Lemma puts_app W H t a b : puts W H t (a ++ b) = puts W H (puts W H t a) b.
Proof. unfold puts. apply fold_left_app. Qed.

Lemma at_end_ready W H X k v : X <> [] -> length (last X []) = W -> v <= H - 1 ->
  ready W H X (at_end X k v).
Proof.
  intros HX Hl Hv. unfold at_end. apply ready_edge; [|assumption|assumption].
  now apply app_removelast_last.
Qed.

Lemma at_end_reach W X k v : 1 <= W -> length (last X []) = W -> reach (at_end X k v) = v + 1.
Proof.
  intros HW Hl. unfold reach, at_end, app_state. cbn [t_vis t_col]. rewrite Hl.
  destruct (Nat.eqb_spec W 0); lia.
Qed.

Lemma Forall_last {A} (P : A -> Prop) l d : l <> [] -> Forall P l -> P (last l d).
Proof.
  intros Hne Hf. induction Hf as [|x l Hx Hf IH]; [congruence|].
  destruct l as [|y l]; [exact Hx|]. rewrite last_cons by discriminate. apply IH. discriminate.
Qed.

Section Paint.
  Variable W H : N.
  Hypothesis HW : (1 <= W)%N.
  Hypothesis HH : (1 <= H)%N.
  Let Wn := N.to_nat W.
  Let Hn := N.to_nat H.

  (** the rows one painted line occupies: as many as [wrapped_height] says, the cells of its
      chunking (the filler only adds blanks), all of them full when the filler is written *)
  Lemma line_rows (l : line) (fill : bool) :
    let x := lt l ++ (if fill then filler l W else []) in
    length (chunks Wn x) = N.to_nat (wrapped_height l W)
    /\ rows_equiv Wn (chunks Wn x) (chunks Wn (lt l))
    /\ (fill = true -> Forall (fun r => length r = Wn) (chunks Wn x))
    /\ length (last (chunks Wn x) []) <= Wn
    /\ (fill = true -> x <> []).
  Proof using HW.
    clear HH Hn. cbv zeta. assert (HWn : 1 <= Wn) by (unfold Wn; lia).
    pose proof (chunk_acc_rows Wn HWn) as Hrows.
    destruct fill.
    - destruct (chunks_filler_equiv Wn HWn (lt l) (length (filler l W))) as (He & Hl & Hf).
      { apply filler_length. exact HW. }
      assert (Hfi : filler l W = repeat SP (length (filler l W))).
      { unfold filler, spaces. now rewrite repeat_length. }
      rewrite <- Hfi in He, Hl, Hf. rewrite Hl, wrapped_height_chunks by exact HW. rewrite Nat2N.id.
      repeat split; try assumption.
      + intros _. exact Hf.
      + destruct (Hrows (lt l ++ filler l W) [] ltac:(cbn; lia)) as (_ & Hb & _). exact Hb.
      + intros _ Hnil. pose proof (filler_length l W HW) as Hfl.
        rewrite <- app_length, Hnil in Hfl. cbn [length] in Hfl.
        pose proof (chunk_acc_length_pos (N.to_nat W) [] (lt l)) as Hp.
        unfold chunks in Hfl. nia.
    - rewrite app_nil_r, wrapped_height_chunks by exact HW. rewrite Nat2N.id.
      repeat split; try congruence.
      destruct (Hrows (lt l) [] ltac:(cbn; lia)) as (_ & Hb & _). exact Hb.
  Qed.

  (** the loop from element idx >= 1 on, the cursor at the end of the previous line *)
  Lemma paint_tail : forall ls idx real total X k v,
    (1 <= idx)%N -> total = (idx + N.of_nat (length ls))%N ->
    X <> [] -> length (last X []) <= Wn -> v <= Hn - 1 ->
    let P := painted ls W H real in
    let R := paint_rows W false (Nat.eqb (length P) (length ls)) P in
    run_ops Wn Hn (at_end X k v) (fst (paint ls idx total W H real))
      = at_end (X ++ R) (k - length R) (Nat.min (Hn - 1) (v + length R))
    /\ snd (paint ls idx total W H real) = (real + bar_rows P W)%N
    /\ length (last (X ++ R) []) <= Wn.
  Proof.
    assert (HWn : 1 <= Wn) by (unfold Wn; lia).
    assert (HHn : 1 <= Hn) by (unfold Hn; lia).
    induction ls as [|l r IH]; intros idx real total X k v Hidx Htot HX Hlast Hv; cbv zeta.
    - cbn [paint painted paint_rows fst snd length]. rewrite run_ops_nil, app_nil_r.
      replace (k - 0) with k by lia. replace (Nat.min (Hn - 1) (v + 0)) with v by lia.
      unfold bar_rows. cbn. repeat split; [lia | assumption].
    - cbn [paint painted].
      destruct (is_bar l && (H <? real + wrapped_height l W)%N) eqn:Hbrk.
      + cbn [paint_rows fst snd length]. rewrite run_ops_nil, app_nil_r.
        replace (k - 0) with k by lia. replace (Nat.min (Hn - 1) (v + 0)) with v by lia.
        unfold bar_rows. cbn. repeat split; [lia | assumption].
      + set (real' := if is_bar l then (real + wrapped_height l W)%N else real).
        destruct (paint r (idx + 1) total W H real') as [ops rf] eqn:Epaint.
        destruct (N.eqb_spec idx 0) as [|_]; [lia|].
        cbn [andb orb fst snd]. rewrite orb_false_r.
        set (P' := painted r W H real').
        set (fillp := (idx + 1 =? total)%N).
        assert (Hfill : fillp = (Nat.eqb (length (l :: P')) (length (l :: r))
                                 && match P' with [] => true | _ => false end)).
        { unfold fillp. cbn [length Nat.eqb]. destruct r as [|l2 r].
          - cbn [painted] in P'. subst P'. cbn. apply N.eqb_eq. cbn [length] in Htot. lia.
          - destruct P' as [|p P'']; cbn [length Nat.eqb andb].
            + apply N.eqb_neq. cbn [length] in Htot. lia.
            + rewrite andb_false_r. apply N.eqb_neq. cbn [length] in Htot. lia. }
        cbn [paint_rows]. rewrite orb_false_r, <- Hfill.
        set (x := lt l ++ (if fillp then filler l W else [])).
        destruct (line_rows l fillp) as (Hlen1 & _ & _ & Hlast1 & _). fold x in Hlen1, Hlast1.
        pose proof (chunk_acc_length_pos Wn [] x) as Hpos1. fold (chunks Wn x) in Hpos1.
        pose proof (chunk_acc_nonempty Wn [] x) as Hne1. fold (chunks Wn x) in Hne1.
        (* the calls of this element *)
        assert (Hrun : forall t, run_ops Wn Hn t
                   ([TLine []] ++ TStr (lt l) :: (if fillp then [TStr (filler l W)] else []) ++ ops)
                 = run_ops Wn Hn (puts Wn Hn (exec Wn Hn t (TLine [])) x) ops).
        { intros t. unfold x. cbn [app]. rewrite !run_ops_cons. rewrite exec_str.
          destruct fillp; cbn [app].
          - rewrite run_ops_cons, exec_str. now rewrite puts_app.
          - now rewrite app_nil_r. }
        unfold filler in Hrun. unfold spaces in Hrun at 1. fold (spaces) in Hrun.
        change (spaces (wrapped_height l W * W - lwidth l)) with (filler l W).
        rewrite Hrun. rewrite exec_line_at_end by assumption.
        cbn [chunk_acc length]. rewrite <- app_removelast_last by assumption.
        rewrite puts_app_state by (cbn; lia). cbv zeta. fold (chunks Wn x).
        rewrite at_end_app by assumption.
        specialize (IH (idx + 1)%N real' total (X ++ chunks Wn x)
                       (k - 1 - (length (chunks Wn x) - 1))
                       (Nat.min (Hn - 1) (Nat.min (Hn - 1) (v + 1) + (length (chunks Wn x) - 1)))).
        cbv zeta in IH. rewrite Epaint in IH. cbn [fst snd] in IH.
        destruct IH as (IHa & IHb & IHc).
        { lia. } { cbn [length] in Htot. lia. }
        { destruct X; [congruence | discriminate]. }
        { rewrite last_app_ne by assumption. exact Hlast1. }
        { lia. }
        fold P' in IHa, IHb, IHc.
        cbn [length Nat.eqb].
        set (R' := paint_rows W false (Nat.eqb (length P') (length r)) P') in *.
        rewrite IHa. rewrite <- app_assoc. rewrite app_length.
        unfold Wn in *.
        repeat split.
        * f_equal; lia.
        * rewrite IHb. unfold bar_rows, real'. cbn [filter].
          destruct (is_bar l); [rewrite visual_line_count_cons|]; lia.
        * rewrite <- app_assoc in IHc. exact IHc.
  Qed.
End Paint.

Lemma rows_equiv_app W a b c d : rows_equiv W a c -> rows_equiv W b d -> rows_equiv W (a ++ b) (c ++ d).
Proof. unfold rows_equiv. intros Ha Hb. now rewrite !map_app, Ha, Hb. Qed.

Lemma rows_equiv_refl W a : rows_equiv W a a.
Proof. reflexivity. Qed.

Lemma rows_equiv_length W a b : rows_equiv W a b -> length a = length b.
Proof. unfold rows_equiv. intros He. apply (f_equal (@length _)) in He. now rewrite !map_length in He. Qed.

Lemma painted_nil_or_cons ls W H real :
  painted ls W H real = [] \/ exists l r, ls = l :: r /\
    (is_bar l && (H <? real + wrapped_height l W)%N) = false /\
    painted ls W H real = l :: painted r W H (if is_bar l then (real + wrapped_height l W)%N else real).
Proof.
  destruct ls as [|l r]; [now left|]. cbn [painted].
  destruct (is_bar l && (H <? real + wrapped_height l W)%N) eqn:E; [now left|].
  right. now exists l, r.
Qed.

Section PaintSpec.
  Variable W H : N.
  Hypothesis HW : (1 <= W)%N.
  Hypothesis HH : (1 <= H)%N.
  Let Wn := N.to_nat W.
  Let Hn := N.to_nat H.

  Lemma paint_rows_nonempty first complete P : P <> [] -> paint_rows W first complete P <> [].
  Proof.
    destruct P as [|l P]; [congruence|]. intros _. cbn [paint_rows].
    intros Happ. apply app_eq_nil in Happ. destruct Happ as [Hc _].
    exact (chunk_acc_nonempty _ _ _ Hc).
  Qed.

  (** what the loop writes is, cell for cell, the wrapping of the painted lines (the fillers only
      add blanks), and occupies [visual_line_count] rows *)
  Lemma paint_rows_equiv : forall P first complete,
    rows_equiv Wn (paint_rows W first complete P) (wrap Wn (map lt P))
    /\ length (paint_rows W first complete P) = N.to_nat (visual_line_count P W).
  Proof using HW.
    clear HH Hn. induction P as [|l P IH]; intros first complete.
    - split; reflexivity.
    - cbn [paint_rows map]. unfold wrap. cbn [map concat]. fold (wrap Wn (map lt P)).
      destruct (IH false complete) as (He & Hl).
      match goal with |- context [if ?b then filler l W else []] =>
        destruct (line_rows W HW l b) as (Hl1 & He1 & _) end.
      split.
      + apply rows_equiv_app; assumption.
      + rewrite app_length, visual_line_count_cons, Hl, Hl1. lia.
  Qed.

  Lemma paint_rows_last_full : forall P first, P <> [] ->
    length (last (paint_rows W first true P) []) = Wn.
  Proof.
    induction P as [|l P IH]; intros first HP; [congruence|].
    cbn [paint_rows]. destruct P as [|l2 P].
    - cbn [paint_rows andb orb]. rewrite app_nil_r.
      destruct (line_rows W HW l true) as (_ & _ & Hf & _).
      apply (Forall_last (fun r => length r = Wn)); [apply chunk_acc_nonempty | now apply Hf].
    - rewrite last_app_ne by (apply paint_rows_nonempty; discriminate).
      apply IH. discriminate.
  Qed.

  (** (c) the paint loop from a ready cursor.  [P] = the lines painted before the [break]. *)
  Lemma paint_spec C t ls : ready Wn Hn C t ->
    let P := painted ls W H 0 in
    let complete := Nat.eqb (length P) (length ls) in
    let R := paint_rows W true complete P in
    let ops := fst (paint ls 0 (N.of_nat (length ls)) W H 0) in
    snd (paint ls 0 (N.of_nat (length ls)) W H 0) = bar_rows P W
    /\ (P = [] -> ops = [])
    /\ (P <> [] -> exists k,
          run_ops Wn Hn t ops = at_end (C ++ R) k (Nat.min (Hn - 1) (reach t + length R - 1))
          /\ length (last (C ++ R) []) <= Wn).
  Proof.
    assert (HWn : 1 <= Wn) by (unfold Wn; lia).
    assert (HHn : 1 <= Hn) by (unfold Hn; lia).
    intros Hr. cbv zeta.
    destruct ls as [|l r].
    - cbn. repeat split; congruence.
    - cbn [paint painted].
      destruct (is_bar l && (H <? 0 + wrapped_height l W)%N) eqn:Hbrk.
      + cbn [fst snd]. unfold bar_rows. cbn. repeat split; congruence.
      + set (real' := if is_bar l then (0 + wrapped_height l W)%N else 0%N).
        destruct (paint r (0 + 1) (N.of_nat (length (l :: r))) W H real') as [ops rf] eqn:Epaint.
        cbn [N.eqb andb orb fst snd app].
        set (P' := painted r W H real').
        set (fillp := ((0 + 1 =? N.of_nat (length (l :: r)))%N || (lwidth l =? 0)%N)).
        assert (Hfill : fillp = (Nat.eqb (length (l :: P')) (length (l :: r))
                                 && match P' with [] => true | _ => false end
                                 || true && (lwidth l =? 0)%N)).
        { unfold fillp. cbn [length Nat.eqb andb]. f_equal. destruct r as [|l2 r].
          - cbn [painted] in P'. subst P'. reflexivity.
          - destruct P' as [|p P'']; cbn [length Nat.eqb andb].
            + apply N.eqb_neq. lia.
            + rewrite andb_false_r. apply N.eqb_neq. lia. }
        cbn [paint_rows]. rewrite <- Hfill.
        set (x := lt l ++ (if fillp then filler l W else [])).
        destruct (line_rows W HW l fillp) as (Hlen1 & _ & _ & Hlast1 & Hxne). fold x in Hlen1, Hlast1, Hxne.
        pose proof (chunk_acc_nonempty (N.to_nat W) [] x) as Hne1. fold (chunks (N.to_nat W) x) in Hne1.
        pose proof (chunk_acc_length_pos (N.to_nat W) [] x) as Hpos1. fold (chunks (N.to_nat W) x) in Hpos1.
        assert (Hx : x <> [] \/ t_col t = 0).
        { left. destruct (lt l) as [|c s] eqn:Elt.
          - apply Hxne. unfold fillp, lwidth, tlen. try rewrite Elt. cbn. apply orb_true_r.
          - unfold x. try rewrite Elt. discriminate. }
        destruct (str_spec Wn Hn C t x HWn HHn Hr Hx) as (k1 & Hputs).
        destruct (paint_tail W H HW HH r (0 + 1)%N real' (N.of_nat (length (l :: r)))
                    (C ++ chunks Wn x) k1
                    (Nat.min (Hn - 1) (reach t + length (chunks Wn x) - 1))) as (Ta & Tb & Tc).
        { lia. } { cbn [length]. lia. }
        { destruct C; [cbn; exact Hne1 | discriminate]. }
        { rewrite last_app_ne by exact Hne1. exact Hlast1. }
        { lia. }
        rewrite Epaint in Ta, Tb. cbn [fst snd] in Ta, Tb. fold P' in Ta, Tb, Tc.
        cbn [length Nat.eqb].
        set (R' := paint_rows W false (Nat.eqb (length P') (length r)) P') in *.
        split; [|split; [congruence|]].
        * rewrite Tb. unfold bar_rows, real'. cbn [filter].
          destruct (is_bar l); [rewrite visual_line_count_cons|]; lia.
        * intros _. exists (k1 - length R').
          assert (Hrun : run_ops Wn Hn t
                   (TStr (lt l) :: (if fillp then [TStr (spaces (wrapped_height l W * W - lwidth l))] else []) ++ ops)
                   = run_ops Wn Hn (puts Wn Hn t x) ops).
          { unfold x, filler. rewrite run_ops_cons, exec_str. destruct fillp; cbn [app].
            - rewrite run_ops_cons, exec_str. now rewrite puts_app.
            - now rewrite app_nil_r. }
          rewrite Hrun, Hputs. unfold Wn, Hn in *. rewrite Ta.
          rewrite <- !app_assoc in *. rewrite app_length.
          split; [f_equal; lia | exact Tc].
  Qed.
End PaintSpec.

(* ------------------------------------------------------------------ (d) draw_to_term, Top alignment *)
Lemma paint_nil_painted W H : forall ls idx total real,
  match fst (paint ls idx total W H real) with [] => painted ls W H real = [] | _ => painted ls W H real <> [] end.
Proof.
  intros ls idx total real. destruct ls as [|l r]; [reflexivity|]. cbn [paint painted].
  destruct (is_bar l && (H <? real + wrapped_height l W)%N); [reflexivity|].
  destruct (paint r (idx + 1) total W H (if is_bar l then (real + wrapped_height l W)%N else real)) as [ops rf].
  cbn [fst]. destruct (idx =? 0)%N; cbn [app]; discriminate.
Qed.

(** the call list of draw_to_term under Top alignment; the count is capped at the height first (fix
    7d42cff); the new cursor_below flag: false iff the loop painted a line (fix dadbe71) *)
Lemma draw_to_term_top_eq_min ls n below W H :
  draw_to_term ls n Top below W H =
    ((if below && (0 <? N.min n H)%N then [TUp 1] else []) ++ clear_ops (N.min n H)
       ++ fst (paint ls 0 (N.of_nat (length ls)) W H 0) ++ [TFlush],
     snd (paint ls 0 (N.of_nat (length ls)) W H 0),
     match painted ls W H 0 with
     | [] => if (N.min n H =? 0)%N then below else true
     | _ => false
     end).
Proof.
  unfold draw_to_term. pose proof (paint_nil_painted W H ls 0 (N.of_nat (length ls)) 0) as Hp.
  destruct (paint ls 0 (N.of_nat (length ls)) W H 0) as [pops real].
  cbn [fst snd N.eqb negb orb N.to_nat repeat app] in *. rewrite N.add_0_r.
  assert (Hfp : full_pad ls 0 H = false) by (destruct ls; reflexivity). rewrite Hfp. cbn [negb].
  destruct pops as [|o pops].
  - rewrite Hp. destruct (N.min n H =? 0)%N; reflexivity.
  - destruct (painted ls W H 0); [congruence | reflexivity].
Qed.

Lemma draw_to_term_top_eq ls n below W H : (n <= H)%N ->
  draw_to_term ls n Top below W H =
    ((if below && (0 <? n)%N then [TUp 1] else []) ++ clear_ops n
       ++ fst (paint ls 0 (N.of_nat (length ls)) W H 0) ++ [TFlush],
     snd (paint ls 0 (N.of_nat (length ls)) W H 0),
     match painted ls W H 0 with
     | [] => if (n =? 0)%N then below else true
     | _ => false
     end).
Proof. intros Hn. rewrite draw_to_term_top_eq_min. now rewrite N.min_l by exact Hn. Qed.

Lemma run_ops_flush W H t ops : run_ops W H t (ops ++ [TFlush]) = run_ops W H t ops.
Proof. now rewrite run_ops_app. Qed.

Section DrawSpec.
  Variable W H : N.
  Hypothesis HW : (1 <= W)%N.
  Hypothesis HH : (1 <= H)%N.
  Let Wn := N.to_nat W.
  Let Hn := N.to_nat H.

  (** the erase phase for any n, from a ready cursor *)
  Lemma erase_phase C F t (n : N) (below : bool) :
    ready Wn Hn (C ++ F) t -> length F = N.to_nat n -> N.to_nat n <= reach t ->
    ((1 <= n)%N -> if below then t_col t = 0 else t_col t <> 0) ->
    let t1 := run_ops Wn Hn t ((if below && (0 <? n)%N then [TUp 1] else []) ++ clear_ops n) in
    ready Wn Hn C t1 /\ reach t1 = reach t - N.to_nat n
    /\ ((1 <= n)%N -> t_col t1 = 0) /\ (n = 0%N -> t1 = t).
  Proof using HW HH.
    assert (HWn : 1 <= Wn) by (unfold Wn; lia).
    assert (HHn : 1 <= Hn) by (unfold Hn; lia).
    intros Hr HF Hn' Hb. cbv zeta. destruct (N.eq_dec n 0) as [->|Hpos].
    - rewrite erase_spec_zero. destruct F; [|cbn in HF; lia]. rewrite app_nil_r in Hr.
      repeat split; [assumption | cbn; lia | lia].
    - destruct (erase_spec Wn Hn C F t n below HWn HHn Hr HF Hn' ltac:(lia) (Hb ltac:(lia)))
        as (Ha & Hc & Hd).
      repeat split; [assumption | assumption | intros _; assumption | lia].
  Qed.

  (** (d) one call of draw_to_term with Top alignment: [F] = the rows of the previous frame
      (n = last_line_count of them), [C] = everything written before.  [P] = painted lines. *)
  Lemma draw_to_term_spec_top C F t ls (n : N) (below : bool) :
    ready Wn Hn (C ++ F) t -> length F = N.to_nat n -> N.to_nat n <= reach t ->
    ((1 <= n)%N -> if below then t_col t = 0 else t_col t <> 0) ->
    let P := painted ls W H 0 in
    let R := paint_rows W true (Nat.eqb (length P) (length ls)) P in
    let t' := run_ops Wn Hn t (fst (fst (draw_to_term ls n Top below W H))) in
    snd (fst (draw_to_term ls n Top below W H)) = bar_rows P W
    /\ snd (draw_to_term ls n Top below W H)
       = match painted ls W H 0 with [] => if (n =? 0)%N then below else true | _ => false end
    /\ (P = [] -> ready Wn Hn C t' /\ reach t' = reach t - N.to_nat n
                  /\ ((1 <= n)%N -> t_col t' = 0) /\ (n = 0%N -> t' = t))
    /\ (P <> [] -> exists k,
          t' = at_end (C ++ R) k (Nat.min (Hn - 1) (reach t - N.to_nat n + length R - 1))
          /\ length (last (C ++ R) []) <= Wn)
    /\ (P <> [] -> P = ls ->
          ready Wn Hn (C ++ R) t' /\ t_col t' <> 0
          /\ reach t' = Nat.min Hn (reach t - N.to_nat n + length R)).
  Proof using HW HH.
    assert (HWn : 1 <= Wn) by (unfold Wn; lia).
    assert (HHn : 1 <= Hn) by (unfold Hn; lia).
    intros Hr HF Hn' Hb. cbv zeta.
    assert (HnH : (n <= H)%N).
    { pose proof (ready_vis _ _ _ _ Hr) as Hv. unfold reach in Hn'.
      destruct (Nat.eqb (t_col t) 0); unfold Hn in *; lia. }
    rewrite (draw_to_term_top_eq ls n below W H HnH). cbn [fst snd].
    rewrite !app_assoc, run_ops_flush, run_ops_app.
    destruct (erase_phase C F t n below Hr HF Hn' Hb) as (Hr1 & Hre1 & Hc1 & Hz1).
    set (t1 := run_ops Wn Hn t ((if below && (0 <? n)%N then [TUp 1] else []) ++ clear_ops n)) in *.
    destruct (paint_spec W H HW HH C t1 ls Hr1) as (Pa & Pb & Pc).
    fold Wn Hn in Pc.
    split; [exact Pa|]. split; [reflexivity|]. split; [|split].
    - intros HP. rewrite (Pb HP), run_ops_nil. repeat split; assumption.
    - intros HP. destruct (Pc HP) as (k & Hk & Hl). exists k. rewrite Hk, Hre1. split; [reflexivity | exact Hl].
    - intros HP Hall. destruct (Pc HP) as (k & Hk & Hl). rewrite Hk.
      rewrite Hall in *. rewrite Nat.eqb_refl in *.
      pose proof (paint_rows_last_full W HW ls true HP) as Hfull. fold Wn in Hfull.
      pose proof (paint_rows_nonempty W true true ls HP) as Hne.
      assert (Hlast : length (last (C ++ paint_rows W true true ls) []) = Wn)
        by (rewrite last_app_ne by exact Hne; exact Hfull).
      pose proof (chunk_acc_length_pos 0 [] []) as _.
      assert (Hlen : 1 <= length (paint_rows W true true ls))
        by (destruct (paint_rows W true true ls); [congruence | cbn; lia]).
      split; [|split].
      + apply at_end_ready; [destruct C; [exact Hne | discriminate] | exact Hlast | lia].
      + unfold at_end, app_state. cbn [t_col]. lia.
      + rewrite at_end_reach with (W := Wn) by assumption. lia.
  Qed.
End DrawSpec.

(* ------------------------------------------------------------------ facts about [painted] (C19) *)
Local Open Scope N_scope.
(** [painted] is the maximal prefix whose Bar lines fit: it is a prefix, its bar rows are at most
    H - real, and the first omitted line is a Bar line that does not fit *)
Lemma painted_prefix W H : forall ls real,
  exists rest, ls = painted ls W H real ++ rest
    /\ match rest with
       | [] => True
       | l :: _ => is_bar l = true /\ H < real + bar_rows (painted ls W H real) W + wrapped_height l W
       end.
Proof.
  induction ls as [|l r IH]; intros real.
  - exists []. split; [reflexivity | exact I].
  - cbn [painted]. destruct (is_bar l && (H <? real + wrapped_height l W)) eqn:E.
    + exists (l :: r). split; [reflexivity|]. apply andb_prop in E. destruct E as [Eb El].
      split; [exact Eb|]. unfold bar_rows. cbn. apply N.ltb_lt in El. lia.
    + destruct (IH (if is_bar l then real + wrapped_height l W else real)) as (rest & Heq & Hrest).
      exists rest. split; [cbn [app]; now rewrite <- Heq|].
      destruct rest as [|l2 rest]; [exact I|]. destruct Hrest as [Hb Hlt]. split; [exact Hb|].
      unfold bar_rows in *. cbn [filter]. destruct (is_bar l); [rewrite visual_line_count_cons|]; lia.
Qed.

Lemma painted_bar_rows_le W H : forall ls real, real <= H ->
  real + bar_rows (painted ls W H real) W <= H.
Proof.
  induction ls as [|l r IH]; intros real Hr.
  - unfold bar_rows. cbn. lia.
  - cbn [painted]. destruct (is_bar l && (H <? real + wrapped_height l W)) eqn:E.
    + unfold bar_rows. cbn. lia.
    + unfold bar_rows in *. cbn [filter]. destruct (is_bar l) eqn:Eb.
      * cbn [andb] in E. apply N.ltb_ge in E. rewrite visual_line_count_cons.
        specialize (IH (real + wrapped_height l W) E). lia.
      * apply IH. exact Hr.
Qed.

(** everything is painted as soon as the Bar lines fit: omitted bars appear when there is room *)
Lemma painted_all W H : forall ls real, real + bar_rows ls W <= H -> painted ls W H real = ls.
Proof.
  induction ls as [|l r IH]; intros real Hfit; [reflexivity|].
  cbn [painted]. unfold bar_rows in *. cbn [filter] in Hfit. destruct (is_bar l) eqn:Eb.
  - rewrite visual_line_count_cons in Hfit. cbn [andb].
    destruct (N.ltb_spec H (real + wrapped_height l W)); [lia|].
    f_equal. apply IH. lia.
  - cbn [andb]. f_equal. apply IH. exact Hfit.
Qed.
Local Open Scope nat_scope.
