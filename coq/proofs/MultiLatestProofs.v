(** MultiProgress: the per-member "latest drawn state" invariant and its consequences
    (C02_member_lines_latest, C02_frame_shows_latest, C02_orphans_once, C05_nothing_lost). *)
From IndModel Require Import MultiSpec MultiLatest.
From IndProofs Require Import MultiProofs MultiFrame.
From Coq Require Import Lia ZifyBool ZifyNat ZifyN.
Arguments N.add : simpl never.
Arguments N.sub : simpl never.
Arguments N.mul : simpl never.
Arguments N.div : simpl never.
Arguments N.modulo : simpl never.
Arguments N.min : simpl never.
Arguments nthN {A} l i d : simpl never.

(* ------------------------------------------------------------------ A. rendering depends on [logic] only *)
Lemma logic_fields x y : logic x = logic y ->
  b_pos x = b_pos y /\ b_len x = b_len y /\ b_tick x = b_tick y /\ b_status x = b_status y
  /\ b_msg x = b_msg y /\ b_prefix x = b_prefix y /\ b_tmpl x = b_tmpl y.
Proof. unfold logic. intros E. injection E. intuition. Qed.

Lemma expand_logic p x y : logic x = logic y -> expand p x = expand p y.
Proof.
  intros E. destruct (logic_fields x y E) as (E1 & E2 & E3 & E4 & E5 & E6 & E7).
  destruct p; cbn [expand]; unfold finished; rewrite ?E1, ?E2, ?E3, ?E4, ?E5, ?E6; reflexivity.
Qed.

Lemma render_parts_logic ps x y : logic x = logic y ->
  forall cur acc, render_parts ps x cur acc = render_parts ps y cur acc.
Proof.
  intros E. induction ps as [|p r IH]; intros cur acc; [reflexivity|].
  destruct p; cbn [render_parts]; rewrite ?IH; try reflexivity;
    match goal with |- context [expand ?p x] => rewrite (expand_logic p x y E) end; reflexivity.
Qed.

Lemma frame_of_logic x y : logic x = logic y -> frame_of x = frame_of y.
Proof.
  intros E. destruct (logic_fields x y E) as (_ & _ & _ & E4 & _ & _ & E7).
  unfold frame_of, render. rewrite E4, E7. destruct (b_status y); try reflexivity; apply render_parts_logic, E.
Qed.

(** bar lines are Bar lines, println lines are not *)
Lemma push_line_bar cur : all_bar (push_line cur).
Proof. unfold all_bar, push_line. apply Forall_map. apply Forall_forall. intros; reflexivity. Qed.

Lemma render_parts_bar ps x : forall cur acc, all_bar acc -> all_bar (render_parts ps x cur acc).
Proof.
  unfold all_bar. induction ps as [|p r IH]; intros cur acc Ha; cbn [render_parts].
  - destruct cur; [exact Ha|]. apply Forall_app. split; [exact Ha | apply push_line_bar].
  - destruct p; try (apply IH; exact Ha). apply IH. apply Forall_app. split; [exact Ha | apply push_line_bar].
Qed.

Lemma frame_of_bar x : all_bar (frame_of x).
Proof.
  unfold frame_of. destruct (b_status x); try (apply render_parts_bar; constructor). constructor.
Qed.

Lemma text_lines_text msg : all_text (text_lines msg).
Proof.
  unfold all_text, text_lines. destruct (lines_of msg) as [|l r].
  - repeat constructor.
  - apply Forall_map. apply Forall_forall. intros; reflexivity.
Qed.

(* ------------------------------------------------------------------ B. stored lines under the MultiState calls *)
(** [m'] keeps a sub-list of the ordering of [m] and the stored lines of the slots it keeps *)
Definition LSub (m m' : mstate) : Prop :=
  forall j, In j (ms_order m') -> In j (ms_order m) /\ lines_at m' j = lines_at m j.

Lemma LSub_refl m : LSub m m.
Proof. intros j Hj. auto. Qed.
Lemma LSub_trans m1 m2 m3 : LSub m1 m2 -> LSub m2 m3 -> LSub m1 m3.
Proof.
  intros A B j Hj. destruct (B j Hj) as [Hj2 E2]. destruct (A j Hj2) as [Hj1 E1]. split; [exact Hj1 | congruence].
Qed.
Lemma LSub_same m m' : same_core m m' -> LSub m m'.
Proof. intros (Em & _ & Eo) j Hj. unfold lines_at. rewrite Em, Eo. auto. Qed.

Lemma remove_LSub m i : LSub m (ms_remove_idx m i).
Proof.
  destruct (in_dec N.eq_dec i (ms_free m)) as [Hf|Hf].
  - rewrite remove_idx_free by exact Hf. apply LSub_refl.
  - destruct (remove_idx_fields m i Hf) as (Em & _ & Eo). intros j Hj. rewrite Eo in Hj.
    apply filter_neq_In in Hj. destruct Hj as [Hj Hn]. split; [exact Hj|].
    unfold lines_at. rewrite Em, nthN_updN_neq by congruence. reflexivity.
Qed.

Lemma fold_remove_LSub zs : forall m, LSub m (fold_left ms_remove_idx zs m).
Proof.
  induction zs as [|z r IH]; intros m; cbn [fold_left]; [apply LSub_refl|].
  eapply LSub_trans; [apply remove_LSub | apply IH].
Qed.

Section ActLines.
  Variable W H : N.
  Variable fails : N -> bool.

  Lemma draw_LSub m force extra now c : LSub m (fst4 (ms_draw W H fails m force extra now c)).
  Proof.
    destruct (ms_target m) as [|tg|i] eqn:Ht.
    - rewrite ms_draw_hidden by (rewrite Ht; discriminate). apply LSub_refl.
    - rewrite (ms_draw_unfold W H fails m force extra now c tg Ht). cbn zeta.
      destruct (fst (tt_allow _ _ now)); cbn [negb]; unfold fst4; cbn [fst].
      + match goal with |- context [fold_left ms_remove_idx ?zs ?m0] =>
          pose proof (fold_remove_LSub zs m0) as F; set (m2 := fold_left ms_remove_idx zs m0) in * end.
        assert (F0 : LSub m m2) by (eapply LSub_trans; [|exact F]; apply LSub_same; repeat split).
        destruct (ms_has_text m extra); [exact F0|].
        eapply LSub_trans; [exact F0|]. apply LSub_same. repeat split.
      + apply LSub_same. repeat split.
    - rewrite ms_draw_hidden by (rewrite Ht; discriminate). apply LSub_refl.
  Qed.

  Lemma clear_same m c : same_core m (fst4 (ms_clear W H fails m c)).
  Proof.
    unfold ms_clear. destruct (ms_target m) as [|tg|i]; [repeat split| |repeat split].
    destruct (term_draw W H fails _ [] c) as [[[tg2 e] c'] ok]. repeat split.
  Qed.

  Lemma sus_mid_same m c : same_core m (sus_mid W H fails m c).
  Proof.
    unfold sus_mid. pose proof (clear_same m c) as (A & B & C). unfold fst4 in *.
    repeat split; cbn; assumption.
  Qed.

  Lemma ms_suspend_draw m ws now c :
    fst (fst (ms_suspend W H fails m ws now c))
    = fst4 (ms_draw W H fails (sus_mid W H fails m c) true None now
              (snd (emit_each fails (snd (fst (ms_clear W H fails m c))) (map TLine ws)))).
  Proof.
    unfold ms_suspend, sus_mid, fst4.
    destruct (ms_clear W H fails m c) as [[[m1 e1] c1] ok1]. cbn [fst snd].
    destruct (emit_each fails c1 (map TLine ws)) as [e2 c2]. cbn [snd].
    destruct (ms_draw W H fails _ true None now c2) as [[[m3 e3] c3] ok3]. reflexivity.
  Qed.

  Lemma suspend_LSub m ws now c : LSub m (fst (fst (ms_suspend W H fails m ws now c))).
  Proof.
    rewrite ms_suspend_draw. eapply LSub_trans; [apply LSub_same, sus_mid_same | apply draw_LSub].
  Qed.

  Lemma mark_LSub m idx : LSub m (ms_mark_zombie W m idx).
  Proof.
    unfold ms_mark_zombie. destruct (ms_order m) as [|first rest] eqn:Ho; [apply LSub_refl|].
    destruct (negb (idx =? first)).
    - intros j Hj. cbn in Hj. split; [exact Hj|]. unfold lines_at. cbn [ms_members set_ms_members].
      destruct (N.eq_dec idx j) as [<-|Hn]; [|rewrite nthN_updN_neq by exact Hn; reflexivity].
      destruct (Nat.lt_ge_cases (N.to_nat idx) (length (ms_members m))) as [Hl|Hl].
      + rewrite nthN_updN_eq by exact Hl. reflexivity.
      + rewrite updN_oob by exact Hl. reflexivity.
    - eapply LSub_trans; [|apply remove_LSub]. apply LSub_same. repeat split.
  Qed.

  Lemma store_lines m idx texts bars j : (N.to_nat idx < length (ms_members m))%nat ->
    lines_at (ms_store m idx texts bars) j = if N.eqb j idx then Some bars else lines_at m j.
  Proof.
    intros Hl. unfold lines_at, ms_store. cbn [ms_members set_ms_orphans set_ms_members].
    destruct (N.eqb_spec j idx) as [->|Hn].
    - rewrite nthN_updN_eq by exact Hl. reflexivity.
    - rewrite nthN_updN_neq by congruence. reflexivity.
  Qed.

  Lemma exec1_LSub now m c a :
    match a with AStore _ _ _ | AInsert _ => False | _ => True end ->
    LSub m (fst4 (mp_exec1 W H fails now m c a)).
  Proof.
    destruct a; cbn [mp_exec1]; intros Ha; try contradiction; unfold fst4; cbn [fst];
      try apply LSub_refl.
    - apply (draw_LSub m force extra now c).
    - apply LSub_same, clear_same.
    - pose proof (suspend_LSub m ws now c) as S.
      destruct (ms_suspend W H fails m ws now c) as [[m' e] c']. exact S.
    - apply remove_LSub.
    - apply mark_LSub.
    - apply LSub_same. repeat split.
    - destruct (emit_each fails c (map TLine ws)) as [e c']. apply LSub_refl.
  Qed.
End ActLines.

(* ------------------------------------------------------------------ C. what a call does to the bar records *)
(** [y] is [x] up to the draw-target field, which stays of the same kind / slot *)
Definition tsim (y x : bar) : Prop := (exists t, y = set_b_target x t) /\ mslot y = mslot x.

Lemma tsim_refl x : tsim x x.
Proof. split; [exists (b_target x); destruct x; reflexivity | reflexivity]. Qed.
Lemma tsim_trans z y x : tsim z y -> tsim y x -> tsim z x.
Proof. intros [[t ->] E1] [[t' ->] E2]. split; [exists t; reflexivity | congruence]. Qed.
Lemma tsim_facts y x : tsim y x -> b_alive y = b_alive x /\ mslot y = mslot x /\ logic y = logic x.
Proof. intros [[t ->] E]. auto. Qed.

Definition bars_tsim (s' s : sys) : Prop := forall x, tsim (get_bar s' x) (get_bar s x).
Lemma bars_tsim_refl s' s : s_bars s' = s_bars s -> bars_tsim s' s.
Proof. intros E x. unfold get_bar. rewrite E. apply tsim_refl. Qed.
Lemma bars_tsim_trans s3 s2 s1 : bars_tsim s3 s2 -> bars_tsim s2 s1 -> bars_tsim s3 s1.
Proof. intros A B x. eapply tsim_trans; [apply A | apply B]. Qed.

(** replacing a terminal target by a terminal target *)
Lemma upd_term_tsim s b tg tg' : b_target (get_bar s b) = TTerm tg ->
  bars_tsim (upd_bar s b (fun x => set_b_target x (TTerm tg'))) s.
Proof.
  intros Ht x. destruct (N.eq_dec b x) as [<-|Hn].
  - destruct (Nat.lt_ge_cases (N.to_nat b) (length (s_bars s))) as [Hl|Hl].
    + rewrite get_upd_same by exact Hl. split; [eexists; reflexivity|]. unfold mslot. cbn. rewrite Ht. reflexivity.
    + rewrite upd_bar_oob by exact Hl. apply tsim_refl.
  - rewrite get_upd_other by exact Hn. apply tsim_refl.
Qed.

Section StepBars2.
  Variable W H : N.
  Variable fails : N -> bool.
  Local Notation step_sys := (step_sys W H fails).

  Lemma bar_draw_tsim s b force now : bars_tsim (fst (bar_draw W H fails s b force now)) s.
  Proof.
    unfold bar_draw. destruct (b_target (get_bar s b)) as [|tg|idx] eqn:Ht.
    - apply bars_tsim_refl. reflexivity.
    - destruct (tt_allow tg _ now) as [[|] tg1]; cbn [negb].
      + destruct (term_draw W H fails tg1 _ _) as [[[tg2 e] c'] ok]. cbn [fst].
        eapply bars_tsim_trans; [apply bars_tsim_refl; reflexivity | eapply upd_term_tsim; eauto].
      + cbn [fst]. eapply upd_term_tsim; eauto.
    - destruct (ms_draw W H fails _ _ None now (s_calls s)) as [[[m2 e] c'] ok]. apply bars_tsim_refl. reflexivity.
  Qed.

  Lemma bar_println_tsim s b m now : bars_tsim (fst (bar_println W H fails s b m now)) s.
  Proof.
    unfold bar_println. destruct (b_target (get_bar s b)) as [|tg|idx] eqn:Ht.
    - apply bars_tsim_refl. reflexivity.
    - destruct (term_draw W H fails tg _ _) as [[[tg2 e] c'] ok]. cbn [fst].
      eapply bars_tsim_trans; [apply bars_tsim_refl; reflexivity | eapply upd_term_tsim; eauto].
    - destruct (ms_draw W H fails _ true None now (s_calls s)) as [[[m2 e] c'] ok]. apply bars_tsim_refl. reflexivity.
  Qed.

  Lemma bar_suspend_tsim s b ws now : bars_tsim (fst (bar_suspend W H fails s b ws now)) s.
  Proof.
    unfold bar_suspend. destruct (b_target (get_bar s b)) as [|tg|idx] eqn:Ht.
    - destruct (emit_each fails (s_calls s) (map TLine ws)) as [e c']. apply bars_tsim_refl. reflexivity.
    - destruct (term_draw W H fails tg [] (s_calls s)) as [[[tg1 e1] c1] ok1].
      destruct (emit_each fails c1 (map TLine ws)) as [e2 c2].
      match goal with |- context [bar_draw W H fails ?s1 b true now] =>
        pose proof (bar_draw_tsim s1 b true now) as P; destruct (bar_draw W H fails s1 b true now) as [s2 e3] end.
      cbn [fst] in *. eapply bars_tsim_trans; [exact P|].
      eapply bars_tsim_trans; [apply bars_tsim_refl; reflexivity | eapply upd_term_tsim; eauto].
    - destruct (ms_suspend W H fails (s_mp s) ws now (s_calls s)) as [[m2 e] c']. apply bars_tsim_refl. reflexivity.
  Qed.

  (** update the record of bar [b], then BarState::draw *)
  Lemma upd_draw_bars s b f force now x : (N.to_nat b < length (s_bars s))%nat ->
    tsim (get_bar (fst (bar_draw W H fails (upd_bar s b f) b force now)) x)
         (if N.eqb x b then f (get_bar s b) else get_bar s x).
  Proof.
    intros Hl. eapply tsim_trans; [apply bar_draw_tsim|].
    destruct (N.eqb_spec x b) as [->|Hn].
    - rewrite get_upd_same by exact Hl. apply tsim_refl.
    - rewrite get_upd_other by congruence. apply tsim_refl.
  Qed.
End StepBars2.

Section StepBars3.
  Variable W H : N.
  Variable fails : N -> bool.
  Local Notation step_sys := (step_sys W H fails).

  Definition is_drop_of (o : op) (x : N) : bool := match o with ODrop b => N.eqb x b | _ => false end.

  Definition slot_after (s : sys) (o : op) (x : N) : option N :=
    match o with
    | OInsert _ b => if N.eqb x b then match insert_slot s o with Some i => Some i | None => mslot (get_bar s x) end
                     else mslot (get_bar s x)
    | ORemove b => if N.eqb x b then None else mslot (get_bar s x)
    | _ => mslot (get_bar s x)
    end.

  Definition logic_after (s : sys) (now : N) (o : op) (x : N) (cur : bar) :=
    match op_draw s now o with
    | Some (b, st) => if N.eqb x b then logic st else logic (get_bar s x)
    | None => if silent_change s now o x then logic cur else logic (get_bar s x)
    end.

  Definition BarFacts (s : sys) (now : N) (o : op) (s' : sys) : Prop :=
    forall x, alive s' x = alive s x && negb (is_drop_of o x)
              /\ mslot (get_bar s' x) = slot_after s o x
              /\ logic (get_bar s' x) = logic_after s now o x (get_bar s' x).

  (** generic case: [s' = bar_draw (upd_bar s b f) b ..] and [op_draw = Some (b, f (get_bar s b))] *)
  Lemma facts_upd_draw s now o b f force :
    alive s b = true -> keeps_slot f ->
    op_draw s now o = Some (b, f (get_bar s b)) ->
    (forall x, is_drop_of o x = false) -> (forall x, slot_after s o x = mslot (get_bar s x)) ->
    BarFacts s now o (fst (bar_draw W H fails (upd_bar s b f) b force now)).
  Proof.
    intros Ha Hf Hd Hnd Hsl x. pose proof (alive_inrange s b Ha) as Hl.
    pose proof (upd_draw_bars W H fails s b f force now x Hl) as T. apply tsim_facts in T.
    destruct T as (T1 & T2 & T3). unfold alive, logic_after. rewrite Hnd, Hsl, Hd, T1, T2, T3, andb_true_r.
    destruct (N.eqb_spec x b) as [->|Hn]; [|auto]. destruct (Hf (get_bar s b)) as [F1 F2]. auto.
  Qed.

  Lemma facts_tsim s now o s' :
    bars_tsim s' s -> op_draw s now o = None -> (forall x, silent_change s now o x = false) ->
    (forall x, is_drop_of o x = false) -> (forall x, slot_after s o x = mslot (get_bar s x)) ->
    BarFacts s now o s'.
  Proof.
    intros T Hd Hs Hnd Hsl x. destruct (tsim_facts _ _ (T x)) as (T1 & T2 & T3).
    unfold alive, logic_after. rewrite Hnd, Hsl, Hd, Hs, T1, T2, T3, andb_true_r. auto.
  Qed.

  Lemma facts_tsim_draw s now o s' b :
    bars_tsim s' s -> op_draw s now o = Some (b, get_bar s b) ->
    (forall x, is_drop_of o x = false) -> (forall x, slot_after s o x = mslot (get_bar s x)) ->
    BarFacts s now o s'.
  Proof.
    intros T Hd Hnd Hsl x. destruct (tsim_facts _ _ (T x)) as (T1 & T2 & T3).
    unfold alive, logic_after. rewrite Hnd, Hsl, Hd, T1, T2, T3, andb_true_r.
    destruct (N.eqb_spec x b) as [->|Hn]; auto.
  Qed.

  Lemma facts_pos s now o b f :
    alive s b = true ->
    op_draw s now o = option_map (pair b) (pos_draw (get_bar s b) f now) ->
    (forall x, silent_change s now o x = N.eqb b x && negb (fst (ap_allow (b_ap (get_bar s b)) now))) ->
    (forall x, is_drop_of o x = false) -> (forall x, slot_after s o x = mslot (get_bar s x)) ->
    BarFacts s now o (fst (bar_pos_update W H fails s b f now)).
  Proof.
    intros Ha Hd Hs Hnd Hsl x. pose proof (alive_inrange s b Ha) as Hl.
    unfold bar_pos_update. set (s1 := upd_bar s b (fun y => set_b_pos y (f (b_pos y)))).
    assert (Hl1 : (N.to_nat b < length (s_bars s1))%nat) by (unfold s1, upd_bar; cbn; rewrite updN_length; exact Hl).
    assert (G1 : get_bar s1 b = set_b_pos (get_bar s b) (f (b_pos (get_bar s b)))) by (apply get_upd_same; exact Hl).
    unfold logic_after. rewrite Hd, Hs, Hnd, Hsl, andb_true_r. unfold pos_draw. rewrite G1.
    change (b_ap (set_b_pos (get_bar s b) (f (b_pos (get_bar s b))))) with (b_ap (get_bar s b)).
    destruct (ap_allow (b_ap (get_bar s b)) now) as [[|] ap'] eqn:Hap; cbn [fst negb option_map].
    - unfold bar_tick. set (s2 := upd_bar s1 b (fun y => set_b_ap y ap')).
      assert (Hl2 : (N.to_nat b < length (s_bars s2))%nat) by (unfold s2, upd_bar; cbn; rewrite updN_length; exact Hl1).
      pose proof (upd_draw_bars W H fails s2 b (fun y => set_b_tick y (sat_add64 (b_tick y) 1)) false now x Hl2) as T.
      apply tsim_facts in T. destruct T as (T1 & T2 & T3). unfold alive. rewrite T1, T2, T3.
      destruct (N.eqb_spec x b) as [->|Hn].
      + unfold s2. rewrite get_upd_same by exact Hl1. rewrite G1. auto.
      + unfold s2, s1. rewrite !get_upd_other by congruence. auto.
    - cbn [fst]. rewrite andb_true_r. unfold alive.
      destruct (N.eqb_spec b x) as [<-|Hn].
      + rewrite get_upd_same by exact Hl1. rewrite G1. auto.
      + unfold s1. rewrite !get_upd_other by congruence. auto.
  Qed.
End StepBars3.

Lemma ok_alive s o b : op_ok s o = true -> op_bar o = Some b -> alive s b = true.
Proof. unfold op_ok. intros Hk Hb. rewrite Hb in Hk. apply andb_prop in Hk. tauto. Qed.

Section StepBars4.
  Variable W H : N.
  Variable fails : N -> bool.
  Local Notation step_sys := (step_sys W H fails).

  Lemma mark_zombie_bars s b : s_bars (mark_zombie W s b) = s_bars s.
  Proof. unfold mark_zombie. destruct (b_target (get_bar s b)); reflexivity. Qed.

  Lemma drop_tail_facts s1 b x :
    (N.to_nat b < length (s_bars s1))%nat ->
    let s' := upd_bar (mark_zombie W s1 b) b (fun y => set_b_alive y false) in
    alive s' x = alive s1 x && negb (N.eqb x b)
    /\ mslot (get_bar s' x) = mslot (get_bar s1 x) /\ logic (get_bar s' x) = logic (get_bar s1 x).
  Proof.
    intros Hl s'. pose proof (mark_zombie_bars s1 b) as Eb.
    assert (G : forall y, get_bar (mark_zombie W s1 b) y = get_bar s1 y) by (intros y; unfold get_bar; rewrite Eb; reflexivity).
    unfold alive, s'. destruct (N.eqb_spec x b) as [->|Hn].
    - rewrite get_upd_same by (rewrite Eb; exact Hl). rewrite G. cbn. rewrite andb_false_r. auto.
    - rewrite get_upd_other by congruence. rewrite G, andb_true_r. auto.
  Qed.

  Theorem step_bar_facts s now o : op_ok s o = true -> BarFacts s now o (step_sys s now o).
  Proof.
    intros Hk.
    assert (Hal : forall b, op_bar o = Some b -> alive s b = true) by (intros b; apply ok_alive; exact Hk).
    unfold MultiSpec.step_sys.
    destruct o; cbn [step fst];
      try (apply facts_upd_draw; [apply Hal; reflexivity | intros y; split; reflexivity | reflexivity | reflexivity | reflexivity]);
      try (apply facts_pos; [apply Hal; reflexivity | reflexivity | reflexivity | reflexivity | reflexivity]).
    - (* OSetStyle *)
      intros x. pose proof (alive_inrange s b (Hal b eq_refl)) as Hl.
      unfold alive, logic_after. cbn [op_draw silent_change is_drop_of slot_after negb]. rewrite andb_true_r.
      destruct (N.eqb_spec b x) as [<-|Hn].
      + rewrite get_upd_same by exact Hl. auto.
      + rewrite get_upd_other by exact Hn. auto.
    - (* OPrintln *)
      apply (facts_tsim_draw s now (OPrintln b m) _ b); try reflexivity. apply bar_println_tsim.
    - (* OSuspend *)
      apply facts_tsim; try reflexivity. apply bar_suspend_tsim.
    - apply facts_tsim; try reflexivity. apply bars_tsim_refl. reflexivity.
    - apply facts_tsim; try reflexivity. apply bars_tsim_refl. reflexivity.
    - (* OFinish *)
      unfold bar_finish.
      change (fun x : bar => match k with
                             | FAndLeave => _ | FWithMessage m1 => _ | FAndClear => _
                             | FAbandon => _ | FAbandonWithMessage m2 => _ end) with (finish_upd k).
      apply facts_upd_draw; [apply Hal; reflexivity | apply finish_upd_keeps | reflexivity | reflexivity | reflexivity].
    - (* OFinishUsingStyle *)
      unfold bar_finish.
      change (fun x : bar => match b_on_finish (get_bar s b) with
                             | FAndLeave => _ | FWithMessage m1 => _ | FAndClear => _
                             | FAbandon => _ | FAbandonWithMessage m2 => _ end) with (finish_upd (b_on_finish (get_bar s b))).
      apply facts_upd_draw; [apply Hal; reflexivity | apply finish_upd_keeps | reflexivity | reflexivity | reflexivity].
    - apply (facts_tsim_draw s now (OForceDraw b) _ b); try reflexivity. apply bar_draw_tsim.
    - apply (facts_tsim_draw s now (OSetTabWidth b) _ b); try reflexivity. apply bar_draw_tsim.
    - (* ODrop *)
      pose proof (alive_inrange s b (Hal b eq_refl)) as Hl. unfold bar_drop. intros x.
      unfold logic_after. cbn [op_draw silent_change is_drop_of slot_after].
      destruct (finished (get_bar s b)) eqn:Hf; cbn [fst].
      + destruct (drop_tail_facts s b x Hl) as (A & B & C). rewrite A, B, C. auto.
      + unfold bar_finish.
        change (fun x : bar => match b_on_finish (get_bar s b) with
                               | FAndLeave => _ | FWithMessage m1 => _ | FAndClear => _
                               | FAbandon => _ | FAbandonWithMessage m2 => _ end) with (finish_upd (b_on_finish (get_bar s b))).
        pose proof (upd_draw_bars W H fails s b (finish_upd (b_on_finish (get_bar s b))) true now) as T.
        destruct (bar_draw W H fails (upd_bar s b (finish_upd (b_on_finish (get_bar s b)))) b true now) as [s1 e] eqn:Hd.
        cbn [fst] in *.
        assert (Hl1 : (N.to_nat b < length (s_bars s1))%nat).
        { destruct (Nat.lt_ge_cases (N.to_nat b) (length (s_bars s1))) as [Hl1|Hl1]; [exact Hl1|].
          specialize (T b Hl). rewrite N.eqb_refl in T. apply tsim_facts in T. destruct T as (T1 & _).
          rewrite get_bar_oob in T1 by exact Hl1. destruct (finish_upd_keeps (b_on_finish (get_bar s b)) (get_bar s b)) as [F1 _].
          rewrite F1 in T1. pose proof (Hal b eq_refl) as Ha. unfold alive in Ha. rewrite Ha in T1. discriminate. }
        destruct (drop_tail_facts s1 b x Hl1) as (A & B & C). rewrite A, B, C.
        specialize (T x Hl). apply tsim_facts in T. destruct T as (T1 & T2 & T3). unfold alive. rewrite T1, T2, T3.
        destruct (N.eqb_spec x b) as [->|Hn]; [|auto].
        destruct (finish_upd_keeps (b_on_finish (get_bar s b)) (get_bar s b)) as [F1 F2]. rewrite F1. auto.
    - (* OInsert *)
      unfold op_ok in Hk. cbn [op_bar] in Hk. apply andb_prop in Hk. destruct Hk as [Ha _].
      pose proof (alive_inrange s b Ha) as Hl.
      intros x. unfold logic_after, slot_after, insert_slot. cbn [op_draw silent_change is_drop_of negb].
      fold (bloc_iloc s loc). rewrite andb_true_r.
      assert (E : forall idx s1, s_bars s1 = s_bars s ->
                  let s' := upd_bar s1 b (fun y => set_b_target y (TMulti idx)) in
                  alive s' x = alive s x
                  /\ mslot (get_bar s' x) = (if (x =? b) then Some idx else mslot (get_bar s x))
                  /\ logic (get_bar s' x) = logic (get_bar s x)).
      { intros idx s1 Eb s'. assert (G : forall y, get_bar s1 y = get_bar s y) by (intros y; unfold get_bar; rewrite Eb; reflexivity).
        unfold alive, s'. destruct (N.eqb_spec x b) as [->|Hn].
        - rewrite get_upd_same by (rewrite Eb; exact Hl). rewrite G. auto.
        - rewrite get_upd_other by congruence. rewrite G. auto. }
      destruct (b_target (get_bar s b)) as [|tg|idx0] eqn:Ht;
        [| |cbn [fst]; destruct (N.eqb x b); auto];
        (destruct (bloc_iloc s loc) as [l|]; [|cbn [fst]; destruct (N.eqb x b); auto];
         destruct (ms_insert (s_mp s) l) as [[m1 idx]|]; cbn [option_map snd fst]; [|destruct (N.eqb x b); auto];
         unfold bar_set_target; change (get_bar (set_s_mp s m1) b) with (get_bar s b); rewrite Ht;
         cbn [fst]; apply E; reflexivity).
    - (* ORemove *)
      pose proof (alive_inrange s b (Hal b eq_refl)) as Hl.
      intros x. unfold logic_after, slot_after. cbn [op_draw silent_change is_drop_of negb]. rewrite andb_true_r.
      destruct (b_target (get_bar s b)) as [|tg|idx] eqn:Ht; cbn [fst].
      + destruct (N.eqb_spec x b) as [->|Hn]; [|auto]. unfold mslot. rewrite Ht. auto.
      + destruct (N.eqb_spec x b) as [->|Hn]; [|auto]. unfold mslot. rewrite Ht. auto.
      + destruct (ms_draw W H fails _ true None now _) as [[[m2 e] c'] ok]. cbn [fst].
        unfold alive, get_bar. cbn [s_bars set_s_calls set_s_mp].
        fold (get_bar (upd_bar s b (fun x0 => set_b_target x0 THidden)) x).
        destruct (N.eqb_spec x b) as [->|Hn].
        * rewrite get_upd_same by exact Hl. auto.
        * rewrite get_upd_other by congruence. auto.
    - (* OMPrintln *)
      apply facts_tsim; try reflexivity.
      destruct (ms_draw W H fails (s_mp s) true _ now (s_calls s)) as [[[m2 e] c'] ok]. apply bars_tsim_refl. reflexivity.
    - apply facts_tsim; try reflexivity.
      destruct (ms_suspend W H fails (s_mp s) ws now (s_calls s)) as [[m2 e] c']. apply bars_tsim_refl. reflexivity.
    - apply facts_tsim; try reflexivity.
      destruct (ms_clear W H fails (s_mp s) (s_calls s)) as [[[m2 e] c'] ok]. apply bars_tsim_refl. reflexivity.
    - apply facts_tsim; try reflexivity. apply bars_tsim_refl. reflexivity.
  Qed.
End StepBars4.

(* ------------------------------------------------------------------ D. the invariant *)
(** [n] = number of calls made so far *)
Record LInv (s : sys) (g : lghost) (n : nat) : Prop := mkLI {
  (* the stored lines of every slot of the ordering are the rendering of the ghost state *)
  li_lines : forall i, In i (ms_order (s_mp s)) -> lines_at (s_mp s) i = ent_lines (lg_slot g i);
  (* the bar named by the ghost is the bar that sits in the slot *)
  li_owner : forall i e, In i (ms_order (s_mp s)) -> lg_slot g i = Some e -> mslot (get_bar s (le_bar e)) = Some i;
  li_live : forall b i e, alive s b = true -> mslot (get_bar s b) = Some i -> lg_slot g i = Some e -> le_bar e = b;
  (* in sync: the ghost state is the bar's current logic state *)
  li_sync : forall i e, In i (ms_order (s_mp s)) -> lg_slot g i = Some e -> le_sync e = true ->
                        logic (le_state e) = logic (get_bar s (le_bar e));
  (* the slot holds the bar's MOST RECENT draw step *)
  li_last : forall i e, In i (ms_order (s_mp s)) -> lg_slot g i = Some e -> lg_last g (le_bar e) = Some (le_step e);
  li_stamp_slot : forall i e, lg_slot g i = Some e -> (le_step e < n)%nat;
  li_stamp_last : forall b k, lg_last g b = Some k -> (k < n)%nat }.

Lemma LInv_pres s g n s' :
  LInv s g n ->
  LSub (s_mp s) (s_mp s') ->
  (forall x, alive s' x = true -> alive s x = true) ->
  (forall x i, mslot (get_bar s' x) = Some i -> mslot (get_bar s x) = Some i) ->
  (forall i e, In i (ms_order (s_mp s')) -> lg_slot g i = Some e ->
               mslot (get_bar s' (le_bar e)) = mslot (get_bar s (le_bar e))) ->
  (forall i e, In i (ms_order (s_mp s')) -> lg_slot g i = Some e -> le_sync e = true ->
               logic (get_bar s' (le_bar e)) = logic (get_bar s (le_bar e))) ->
  LInv s' g (S n).
Proof.
  intros [L1 L2 L3 L4 L5 L6 L7] HS Hal Hc1 Hc2 Hd. constructor.
  - intros i Hi. destruct (HS i Hi) as [Hi0 E]. rewrite E. auto.
  - intros i e Hi He. destruct (HS i Hi) as [Hi0 _]. rewrite (Hc2 i e Hi He). eauto.
  - intros b i e Ha Hm He. eauto.
  - intros i e Hi He Hs. destruct (HS i Hi) as [Hi0 _]. rewrite (Hd i e Hi He Hs). eauto.
  - intros i e Hi He. destruct (HS i Hi) as [Hi0 _]. eauto.
  - intros i e He. specialize (L6 i e He). lia.
  - intros b k Hb. specialize (L7 b k Hb). lia.
Qed.

Definition unsync (e : lent) : lent := mkle (le_bar e) (le_step e) (le_state e) false.

Lemma fupd_eq {A} (f : N -> A) i v : fupd f i v i = v.
Proof. unfold fupd. rewrite N.eqb_refl. reflexivity. Qed.
Lemma fupd_neq {A} (f : N -> A) i j v : j <> i -> fupd f i v j = f j.
Proof. intros Hn. unfold fupd. rewrite (proj2 (N.eqb_neq j i) Hn). reflexivity. Qed.

Lemma LInv_unsync s g n idx e0 :
  LInv s g n -> lg_slot g idx = Some e0 ->
  LInv s (mklg (fupd (lg_slot g) idx (Some (unsync e0))) (lg_last g)) n.
Proof.
  intros [L1 L2 L3 L4 L5 L6 L7] H0.
  assert (Hcase : forall i e, fupd (lg_slot g) idx (Some (unsync e0)) i = Some e ->
            exists e1, lg_slot g i = Some e1 /\ le_bar e = le_bar e1 /\ le_step e = le_step e1
                       /\ le_state e = le_state e1 /\ (le_sync e = true -> le_sync e1 = true)).
  { intros i e He. destruct (N.eq_dec i idx) as [->|Hn].
    - rewrite fupd_eq in He. injection He as <-. exists e0. cbn. repeat split; auto. discriminate.
    - rewrite fupd_neq in He by exact Hn. exists e. auto. }
  constructor; cbn [lg_slot lg_last].
  - intros i Hi. rewrite (L1 i Hi). destruct (N.eq_dec i idx) as [->|Hn].
    + rewrite fupd_eq, H0. reflexivity.
    + rewrite fupd_neq by exact Hn. reflexivity.
  - intros i e Hi He. destruct (Hcase i e He) as (e1 & A & -> & _). eauto.
  - intros b i e Ha Hm He. destruct (Hcase i e He) as (e1 & A & -> & _). eauto.
  - intros i e Hi He Hs. destruct (Hcase i e He) as (e1 & A & -> & _ & -> & B). eauto.
  - intros i e Hi He. destruct (Hcase i e He) as (e1 & A & -> & -> & _). eauto.
  - intros i e He. destruct (Hcase i e He) as (e1 & A & _ & -> & _). eauto.
  - exact L7.
Qed.

(* ------------------------------------------------------------------ E. the MultiState calls of a draw step / of the other calls *)
Definition plain (a : maction) : Prop := match a with AStore _ _ _ | AInsert _ => False | _ => True end.
Definition drop_tail (o : op) (idx : N) : list maction := match o with ODrop _ => [AMark idx] | _ => [] end.

Lemma op_draw_bar s now o b st : op_draw s now o = Some (b, st) -> op_bar o = Some b.
Proof.
  destruct o; cbn [op_draw op_bar]; try discriminate; try (intros [= <- _]; reflexivity).
  - destruct (pos_draw _ _ now); cbn; [intros [= <- _]; reflexivity | discriminate].
  - destruct (pos_draw _ _ now); cbn; [intros [= <- _]; reflexivity | discriminate].
  - destruct (pos_draw _ _ now); cbn; [intros [= <- _]; reflexivity | discriminate].
  - destruct (finished (get_bar s b0)); [discriminate | intros [= <- _]; reflexivity].
Qed.

Section Shapes.
  Variable W H : N.
  Variable fails : N -> bool.
  Local Notation mp_run := (mp_run W H fails).

  Lemma mp_run_LSub now acts : Forall plain acts -> forall m c, LSub m (fst (fst (mp_run now m c acts))).
  Proof.
    induction 1 as [|a r Ha Hr IH]; intros m c; cbn [MultiSpec.mp_run]; [apply LSub_refl|].
    pose proof (exec1_LSub W H fails now m c a) as E. unfold fst4 in E.
    destruct (mp_exec1 W H fails now m c a) as [[[m1 e1] c1] ok1]. cbn [fst] in E.
    specialize (IH m1 c1). destruct (mp_run now m1 c1 r) as [[m2 e2] c2]. cbn [fst] in *.
    eapply LSub_trans; [apply E; destruct a; try exact I; contradiction | exact IH].
  Qed.

  Lemma draw_actions_shape s b f force : (N.to_nat b < length (s_bars s))%nat -> keeps_target f ->
    draw_actions W (upd_bar s b f) b force =
    match b_target (get_bar s b) with
    | TMulti idx => [AStore idx [] (stored_frame W (s_mp s) (f (get_bar s b)));
                     ADraw (force || finished (f (get_bar s b))) None]
    | _ => []
    end.
  Proof.
    intros Hl Hf. unfold draw_actions. rewrite get_upd_same by exact Hl. rewrite Hf. reflexivity.
  Qed.

  Lemma draw_op_actions s now o b st : op_ok s o = true -> op_draw s now o = Some (b, st) ->
    match b_target (get_bar s b) with
    | TMulti idx => exists force, op_actions W s now o
                      = AStore idx (op_texts o) (stored_frame W (s_mp s) st) :: ADraw force None :: drop_tail o idx
    | _ => op_actions W s now o = []
    end.
  Proof.
    intros Hk Hd. pose proof (ok_alive s o b Hk (op_draw_bar s now o b st Hd)) as Ha.
    pose proof (alive_inrange s b Ha) as Hl.
    assert (Gen : forall f frc, keeps_target f -> st = f (get_bar s b) ->
              match b_target (get_bar s b) with
              | TMulti idx => exists force, draw_actions W (upd_bar s b f) b frc
                                = [AStore idx [] (stored_frame W (s_mp s) st); ADraw force None]
              | _ => draw_actions W (upd_bar s b f) b frc = []
              end).
    { intros f frc Hf ->. rewrite draw_actions_shape by assumption.
      destruct (b_target (get_bar s b)); eauto. }
    assert (Pos : forall f, option_map (pair b) (pos_draw (get_bar s b) f now) = Some (b, st) ->
              match b_target (get_bar s b) with
              | TMulti idx => exists force, pos_actions W s b f now
                                = [AStore idx [] (stored_frame W (s_mp s) st); ADraw force None]
              | _ => pos_actions W s b f now = []
              end).
    { intros f Hp. unfold pos_actions, pos_draw in *.
      rewrite get_upd_same by exact Hl.
      change (b_ap (set_b_pos (get_bar s b) (f (b_pos (get_bar s b))))) with (b_ap (get_bar s b)) in *.
      destruct (ap_allow (b_ap (get_bar s b)) now) as [[|] ap']; [|discriminate Hp].
      cbn [option_map] in Hp. injection Hp as <-. unfold tick_actions.
      set (s2 := upd_bar (upd_bar s b _) b _).
      assert (Hl2 : (N.to_nat b < length (s_bars s2))%nat) by (unfold s2, upd_bar; cbn; rewrite !updN_length; exact Hl).
      rewrite draw_actions_shape by (auto; intros y; reflexivity).
      assert (G2 : get_bar s2 b = set_b_ap (set_b_pos (get_bar s b) (f (b_pos (get_bar s b)))) ap').
      { unfold s2. rewrite get_upd_same by (unfold upd_bar; cbn; rewrite updN_length; exact Hl).
        rewrite get_upd_same by exact Hl. reflexivity. }
      rewrite G2. cbn [b_target set_b_ap set_b_pos].
      destruct (b_target (get_bar s b)); eauto. }
    destruct o; cbn [op_draw] in Hd; try discriminate Hd;
      try (injection Hd as <- <-; cbn [op_actions op_texts drop_tail];
           first [ apply Gen; [intros y; reflexivity | reflexivity] ]);
      try (assert (Hb : b0 = b) by (destruct (pos_draw (get_bar s b0) _ now); cbn in Hd; [injection Hd as <- _; reflexivity | discriminate]);
           subst b0; cbn [op_actions op_texts drop_tail]; apply Pos; exact Hd).
    - (* OPrintln *) injection Hd as <- <-. cbn [op_actions op_texts drop_tail]. destruct (b_target (get_bar s b0)); eauto.
    - (* OFinish *) injection Hd as <- <-. cbn [op_actions op_texts drop_tail]. unfold finish_actions. apply Gen; [|reflexivity].
      intros y. destruct k; cbn; destruct (b_len y); reflexivity.
    - injection Hd as <- <-. cbn [op_actions op_texts drop_tail]. unfold finish_actions. apply Gen; [|reflexivity].
      intros y. destruct (b_on_finish (get_bar s b0)); cbn; destruct (b_len y); reflexivity.
    - (* OForceDraw *) injection Hd as <- <-. cbn [op_actions op_texts drop_tail]. unfold draw_actions. destruct (b_target (get_bar s b0)); eauto.
    - injection Hd as <- <-. cbn [op_actions op_texts drop_tail]. unfold draw_actions. destruct (b_target (get_bar s b0)); eauto.
    - (* ODrop *)
      destruct (finished (get_bar s b0)) eqn:Hf; [discriminate|]. injection Hd as <- <-.
      cbn [op_actions op_texts drop_tail]. rewrite Hf. unfold finish_actions.
      pose proof (Gen (finish_upd (b_on_finish (get_bar s b0))) true) as G.
      destruct (b_target (get_bar s b0)) as [|tg|idx].
      + rewrite G; [reflexivity| |reflexivity]. intros y. destruct (b_on_finish (get_bar s b0)); cbn; destruct (b_len y); reflexivity.
      + rewrite G; [reflexivity| |reflexivity]. intros y. destruct (b_on_finish (get_bar s b0)); cbn; destruct (b_len y); reflexivity.
      + destruct G as [force G]; [|reflexivity|].
        { intros y. destruct (b_on_finish (get_bar s b0)); cbn; destruct (b_len y); reflexivity. }
        exists force. rewrite G. reflexivity.
  Qed.
End Shapes.

Section Shapes2.
  Variable W : N.

  Lemma nodraw_op_actions s now o : op_ok s o = true -> op_draw s now o = None -> insert_slot s o = None ->
    Forall plain (op_actions W s now o).
  Proof.
    intros Hk Hd Hi.
    assert (Pos : forall b f, alive s b = true -> option_map (pair b) (pos_draw (get_bar s b) f now) = None ->
                              pos_actions W s b f now = []).
    { intros b f Ha Hp. pose proof (alive_inrange s b Ha) as Hl. unfold pos_actions, pos_draw in *.
      rewrite get_upd_same by exact Hl.
      change (b_ap (set_b_pos (get_bar s b) (f (b_pos (get_bar s b))))) with (b_ap (get_bar s b)) in *.
      destruct (ap_allow (b_ap (get_bar s b)) now) as [[|] ap']; [discriminate Hp | reflexivity]. }
    destruct o; cbn [op_draw] in Hd; try discriminate Hd; cbn [op_actions];
      try (rewrite Pos; [constructor | eapply ok_alive; [exact Hk | reflexivity] | exact Hd]);
      try (repeat constructor; fail).
    - destruct (b_target (get_bar s b)); repeat constructor.
    - destruct (finished (get_bar s b)); [|discriminate Hd]. cbn [app].
      destruct (b_target (get_bar s b)); repeat constructor.
    - unfold insert_slot in Hi. fold (bloc_iloc s loc).
      destruct (b_target (get_bar s b)); [| |constructor];
        (destruct (bloc_iloc s loc) as [l|]; [|constructor];
         destruct (ms_insert (s_mp s) l) as [[m1 idx]|]; [discriminate Hi | constructor]).
    - destruct (b_target (get_bar s b)); repeat constructor.
  Qed.

  Lemma insert_op_actions s now loc b idx : op_ok s (OInsert loc b) = true ->
    insert_slot s (OInsert loc b) = Some idx ->
    exists l m1, bloc_iloc s loc = Some l /\ ms_insert (s_mp s) l = Some (m1, idx)
                 /\ op_actions W s now (OInsert loc b) = [AInsert l].
  Proof.
    intros Hk Hi.
    unfold insert_slot in Hi. cbn [op_actions]. fold (bloc_iloc s loc).
    destruct (b_target (get_bar s b)); [| |discriminate Hi];
      (destruct (bloc_iloc s loc) as [l|]; [|discriminate Hi];
       destruct (ms_insert (s_mp s) l) as [[m1 idx']|] eqn:Hm; [|discriminate Hi]; cbn in Hi; injection Hi as ->;
       exists l, m1; split; [reflexivity|]; split; [exact Hm|]; reflexivity).
  Qed.
End Shapes2.

(* ------------------------------------------------------------------ F. the invariant is preserved by every possible call *)
Lemma slot_after_draw s now o p x : op_draw s now o = Some p -> slot_after s o x = mslot (get_bar s x).
Proof. destruct o; cbn [op_draw slot_after]; try discriminate; reflexivity. Qed.

Lemma silent_bar s now o x : silent_change s now o x = true -> op_bar o = Some x.
Proof.
  destruct o; cbn [silent_change op_bar]; try discriminate; intros Hs;
    try (apply andb_prop in Hs; destruct Hs as [Hs _]); apply N.eqb_eq in Hs; congruence.
Qed.

Section StepInv.
  Variable W H : N.
  Variable fails : N -> bool.
  Local Notation step_sys := (step_sys W H fails).

  Lemma visible_width s : mp_visible s -> forall st, stored_frame W (s_mp s) st = frame_of st.
  Proof. intros [tg Ht] st. unfold stored_frame, ms_width. rewrite Ht. reflexivity. Qed.

  Lemma step_mp_eq s now o :
    s_mp (step_sys s now o) = fst (fst (mp_run W H fails now (s_mp s) (s_calls s) (op_actions W s now o))).
  Proof. destruct (step_mp W H fails s now o) as [A _]. exact A. Qed.

  (** a draw step of a member: the ghost entry of its slot is replaced *)
  Lemma lat_step_store s g n now o b st idx :
    MInv s -> mp_visible s -> LInv s g n -> op_ok s o = true ->
    op_draw s now o = Some (b, st) -> b_target (get_bar s b) = TMulti idx ->
    LInv (step_sys s now o)
         (mklg (fupd (lg_slot g) idx (Some (mkle b n st true))) (fupd (lg_last g) b (Some n))) (S n).
  Proof.
    intros MI Vis [L1 L2 L3 L4 L5 L6 L7] Hk Hd Ht.
    pose proof (step_bar_facts W H fails s now o Hk) as BF.
    pose proof (ok_alive s o b Hk (op_draw_bar s now o b st Hd)) as Ha.
    destruct (mi_alive s MI b idx Ha Ht) as [Hio _]. pose proof (MInv_core s MI) as CI.
    assert (Hl : (N.to_nat idx < length (ms_members (s_mp s)))%nat) by (apply (ci_bound _ CI); auto).
    assert (Hmb : mslot (get_bar s b) = Some idx) by (apply mslot_Some; exact Ht).
    assert (Hsl : forall x, mslot (get_bar (step_sys s now o) x) = mslot (get_bar s x)).
    { intros x. destruct (BF x) as (_ & B & _). rewrite B. eapply slot_after_draw; eauto. }
    assert (Hal : forall x, alive (step_sys s now o) x = true -> alive s x = true).
    { intros x Hx. destruct (BF x) as (A & _). rewrite A in Hx. apply andb_prop in Hx. tauto. }
    assert (Hlg : forall x, logic (get_bar (step_sys s now o) x) = if N.eqb x b then logic st else logic (get_bar s x)).
    { intros x. destruct (BF x) as (_ & _ & C). unfold logic_after in C. rewrite Hd in C. exact C. }
    (* the MultiState side *)
    assert (HS : forall j, In j (ms_order (s_mp (step_sys s now o))) ->
               In j (ms_order (s_mp s))
               /\ lines_at (s_mp (step_sys s now o)) j = if N.eqb j idx then Some (frame_of st) else lines_at (s_mp s) j).
    { pose proof (draw_op_actions W s now o b st Hk Hd) as Sh. rewrite Ht in Sh. destruct Sh as [force Sh].
      rewrite step_mp_eq, Sh. cbn [mp_run mp_exec1]. rewrite (visible_width s Vis).
      set (m1 := ms_store (s_mp s) idx (op_texts o) (frame_of st)).
      pose proof (mp_run_LSub W H fails now (ADraw force None :: drop_tail o idx)) as LS.
      specialize (LS ltac:(destruct o; repeat constructor) m1 (s_calls s)). cbn [mp_run mp_exec1] in LS.
      destruct (ms_draw W H fails m1 force None now (s_calls s)) as [[[m2 e2] c2] ok2].
      destruct (mp_run W H fails now m2 c2 (drop_tail o idx)) as [[m3 e3] c3]. cbn [fst] in *.
      intros j Hj. destruct (LS j Hj) as [Hj1 E]. split; [exact Hj1|]. rewrite E. unfold m1. apply store_lines. exact Hl. }
    assert (Hnb : forall i e, i <> idx -> In i (ms_order (s_mp s)) -> lg_slot g i = Some e -> le_bar e <> b).
    { intros i e Hn Hi He Hc. specialize (L2 i e Hi He). rewrite Hc, Hmb in L2. congruence. }
    constructor; cbn [lg_slot lg_last].
    - intros j Hj. destruct (HS j Hj) as [Hj0 E]. rewrite E. destruct (N.eqb_spec j idx) as [->|Hn].
      + rewrite fupd_eq. reflexivity.
      + rewrite fupd_neq by exact Hn. auto.
    - intros i e Hi He. destruct (HS i Hi) as [Hi0 _]. rewrite Hsl. destruct (N.eq_dec i idx) as [->|Hn].
      + rewrite fupd_eq in He. injection He as <-. exact Hmb.
      + rewrite fupd_neq in He by exact Hn. eauto.
    - intros x i e Hx Hm He. rewrite Hsl in Hm. apply Hal in Hx. destruct (N.eq_dec i idx) as [->|Hn].
      + rewrite fupd_eq in He. injection He as <-. cbn. eapply (mi_distinct s MI); eauto. apply mslot_Some; exact Hm.
      + rewrite fupd_neq in He by exact Hn. eauto.
    - intros i e Hi He Hs. destruct (HS i Hi) as [Hi0 _]. rewrite Hlg. destruct (N.eq_dec i idx) as [->|Hn].
      + rewrite fupd_eq in He. injection He as <-. cbn. rewrite N.eqb_refl. reflexivity.
      + rewrite fupd_neq in He by exact Hn. rewrite (proj2 (N.eqb_neq _ _) (Hnb i e Hn Hi0 He)). eauto.
    - intros i e Hi He. destruct (HS i Hi) as [Hi0 _]. destruct (N.eq_dec i idx) as [->|Hn].
      + rewrite fupd_eq in He. injection He as <-. cbn. apply fupd_eq.
      + rewrite fupd_neq in He by exact Hn. rewrite fupd_neq by (exact (Hnb i e Hn Hi0 He)). eauto.
    - intros i e He. destruct (N.eq_dec i idx) as [->|Hn].
      + rewrite fupd_eq in He. injection He as <-. cbn. lia.
      + rewrite fupd_neq in He by exact Hn. specialize (L6 i e He). lia.
    - intros x k Hx. destruct (N.eq_dec x b) as [->|Hn].
      + rewrite fupd_eq in Hx. injection Hx as <-. lia.
      + rewrite fupd_neq in Hx by exact Hn. specialize (L7 x k Hx). lia.
  Qed.
End StepInv.

Section StepInv2.
  Variable W H : N.
  Variable fails : N -> bool.
  Local Notation step_sys := (step_sys W H fails).

  (** add / insert*: the allocated slot starts without a ghost entry (nothing drawn yet) *)
  Lemma lat_step_insert s g n now loc b idx :
    MInv s -> LInv s g n -> op_ok s (OInsert loc b) = true ->
    insert_slot s (OInsert loc b) = Some idx ->
    LInv (step_sys s now (OInsert loc b)) (mklg (fupd (lg_slot g) idx None) (lg_last g)) (S n).
  Proof.
    intros MI [L1 L2 L3 L4 L5 L6 L7] Hk Hi.
    pose proof (step_bar_facts W H fails s now _ Hk) as BF. pose proof (MInv_core s MI) as CI.
    destruct (insert_op_actions W s now loc b idx Hk Hi) as (l & m1 & Hloc & Hins & Sh).
    destruct (ms_insert_spec (s_mp s) l m1 idx CI Hins) as (Hfresh & Hlins & _ & Hdef & Hmem & _).
    pose proof (l_ins_In _ _ _ _ Hlins) as HIn.
    assert (Emp : s_mp (step_sys s now (OInsert loc b)) = m1).
    { rewrite step_mp_eq, Sh. cbn [mp_run mp_exec1]. rewrite Hins. reflexivity. }
    assert (Hnm : mslot (get_bar s b) = None).
    { pose proof Hi as Hi2. unfold insert_slot in Hi2.
      unfold mslot. destruct (b_target (get_bar s b)); try reflexivity. discriminate Hi2. }
    assert (Hsl : forall x, mslot (get_bar (step_sys s now (OInsert loc b)) x)
                            = if N.eqb x b then Some idx else mslot (get_bar s x)).
    { intros x. destruct (BF x) as (_ & B & _). rewrite B. unfold slot_after. rewrite Hi. reflexivity. }
    assert (Hal : forall x, alive (step_sys s now (OInsert loc b)) x = alive s x).
    { intros x. destruct (BF x) as (A & _). rewrite A. cbn. apply andb_true_r. }
    assert (Hlg : forall x, logic (get_bar (step_sys s now (OInsert loc b)) x) = logic (get_bar s x)).
    { intros x. destruct (BF x) as (_ & _ & C). exact C. }
    assert (Hold : forall i e, fupd (lg_slot g) idx None i = Some e -> i <> idx /\ lg_slot g i = Some e).
    { intros i e He. destruct (N.eq_dec i idx) as [->|Hn]; [rewrite fupd_eq in He; discriminate|].
      rewrite fupd_neq in He by exact Hn. auto. }
    assert (Hord : forall i, i <> idx -> In i (ms_order m1) -> In i (ms_order (s_mp s))).
    { intros i Hn Hi'. apply HIn in Hi'. destruct Hi'; [congruence | assumption]. }
    assert (Hnb : forall i e, In i (ms_order (s_mp s)) -> lg_slot g i = Some e -> le_bar e <> b).
    { intros i e Hi' He Hc. specialize (L2 i e Hi' He). rewrite Hc, Hnm in L2. discriminate. }
    constructor; cbn [lg_slot lg_last]; rewrite ?Emp.
    - intros j Hj. destruct (N.eq_dec j idx) as [->|Hn].
      + rewrite fupd_eq. unfold lines_at. rewrite Hdef. reflexivity.
      + rewrite fupd_neq by exact Hn. pose proof (Hord j Hn Hj) as Hj0. unfold lines_at. rewrite Hmem by exact Hj0. apply L1, Hj0.
    - intros i e Hi' He. destruct (Hold i e He) as [Hn He0]. pose proof (Hord i Hn Hi') as Hi0.
      rewrite Hsl, (proj2 (N.eqb_neq _ _) (Hnb i e Hi0 He0)). eauto.
    - intros x i e Hx Hm He. destruct (Hold i e He) as [Hn He0]. rewrite Hal in Hx. rewrite Hsl in Hm.
      destruct (N.eqb_spec x b) as [->|Hxb]; [congruence | eauto].
    - intros i e Hi' He Hs. destruct (Hold i e He) as [Hn He0]. rewrite Hlg. eauto.
    - intros i e Hi' He. destruct (Hold i e He) as [Hn He0]. eauto.
    - intros i e He. destruct (Hold i e He) as [Hn He0]. specialize (L6 i e He0). lia.
    - intros x k Hx. specialize (L7 x k Hx). lia.
  Qed.
End StepInv2.

Section StepInv3.
  Variable W H : N.
  Variable fails : N -> bool.
  Local Notation step_sys := (step_sys W H fails).

  Lemma remove_order s now b idx i : MInv s -> alive s b = true -> b_target (get_bar s b) = TMulti idx ->
    In i (ms_order (s_mp (step_sys s now (ORemove b)))) -> i <> idx.
  Proof.
    intros MI Ha Ht Hi. destruct (mi_alive s MI b idx Ha Ht) as [Hio _].
    assert (Hnf : ~ In idx (ms_free (s_mp s))) by (apply (mi_disj s MI); exact Hio).
    destruct (remove_idx_fields (s_mp s) idx Hnf) as (_ & _ & Eo).
    rewrite step_mp_eq in Hi. cbn [op_actions] in Hi. rewrite Ht in Hi. cbn [mp_run mp_exec1] in Hi.
    pose proof (draw_LSub W H fails (ms_remove_idx (s_mp s) idx) true None now (s_calls s)) as LS. unfold fst4 in LS.
    destruct (ms_draw W H fails (ms_remove_idx (s_mp s) idx) true None now (s_calls s)) as [[[m2 e2] c2] ok2].
    cbn [fst] in *. destruct (LS i Hi) as [Hi1 _]. rewrite Eo in Hi1. apply filter_neq_In in Hi1. tauto.
  Qed.

  (** a call without a draw step that allocates no slot: the ghost is kept *)
  Lemma lat_step_keep s g n now o :
    MInv s -> LInv s g n -> op_ok s o = true ->
    op_draw s now o = None -> insert_slot s o = None ->
    (forall i e, In i (ms_order (s_mp s)) -> lg_slot g i = Some e -> le_sync e = true ->
                 silent_change s now o (le_bar e) = false) ->
    LInv (step_sys s now o) g (S n).
  Proof.
    intros MI LI Hk Hd Hi Hsil.
    pose proof (step_bar_facts W H fails s now o Hk) as BF.
    assert (LS : LSub (s_mp s) (s_mp (step_sys s now o))).
    { rewrite step_mp_eq. apply mp_run_LSub. apply nodraw_op_actions; assumption. }
    assert (Hsl : forall x, mslot (get_bar (step_sys s now o) x) = slot_after s o x) by (intros x; apply BF).
    apply (LInv_pres s g n _ LI LS).
    - intros x Hx. destruct (BF x) as (A & _). rewrite A in Hx. apply andb_prop in Hx. tauto.
    - intros x i. rewrite Hsl. unfold slot_after. destruct o; try (intros E; exact E).
      + rewrite Hi. destruct (N.eqb x b); intros E; exact E.
      + destruct (N.eqb x b); [discriminate | intros E; exact E].
    - intros i e Hi' He. rewrite Hsl. unfold slot_after. destruct o; try reflexivity.
      + rewrite Hi. destruct (N.eqb (le_bar e) b); reflexivity.
      + destruct (N.eqb_spec (le_bar e) b) as [Hc|Hn]; [|reflexivity].
        destruct (LS i Hi') as [Hi0 _]. pose proof (li_owner _ _ _ LI i e Hi0 He) as Ho. rewrite Hc in Ho.
        apply mslot_Some in Ho. exfalso.
        refine (remove_order s now b i i MI _ Ho Hi' eq_refl). eapply ok_alive; [exact Hk | reflexivity].
    - intros i e Hi' He Hs. destruct (LS i Hi') as [Hi0 _]. destruct (BF (le_bar e)) as (_ & _ & C).
      unfold logic_after in C. rewrite Hd, (Hsil i e Hi0 He Hs) in C. exact C.
  Qed.

  (** a draw step of a bar that is not a member *)
  Lemma lat_step_nonmember s g n now o b st :
    MInv s -> LInv s g n -> op_ok s o = true ->
    op_draw s now o = Some (b, st) -> mslot (get_bar s b) = None ->
    LInv (step_sys s now o) g (S n).
  Proof.
    intros MI LI Hk Hd Hnm.
    pose proof (step_bar_facts W H fails s now o Hk) as BF.
    assert (Emp : s_mp (step_sys s now o) = s_mp s).
    { rewrite step_mp_eq. pose proof (draw_op_actions W s now o b st Hk Hd) as Sh.
      unfold mslot in Hnm. destruct (b_target (get_bar s b)); try discriminate Hnm; rewrite Sh; reflexivity. }
    assert (Hsl : forall x, mslot (get_bar (step_sys s now o) x) = mslot (get_bar s x)).
    { intros x. destruct (BF x) as (_ & B & _). rewrite B. eapply slot_after_draw; eauto. }
    apply (LInv_pres s g n _ LI).
    - rewrite Emp. apply LSub_refl.
    - intros x Hx. destruct (BF x) as (A & _). rewrite A in Hx. apply andb_prop in Hx. tauto.
    - intros x i. rewrite Hsl. auto.
    - intros i e _ _. apply Hsl.
    - intros i e Hi' He _. rewrite Emp in Hi'. destruct (BF (le_bar e)) as (_ & _ & C).
      unfold logic_after in C. rewrite Hd in C. rewrite C.
      destruct (N.eqb_spec (le_bar e) b) as [Hc|Hn]; [|reflexivity].
      pose proof (li_owner _ _ _ LI i e Hi' He) as Ho. rewrite Hc, Hnm in Ho. discriminate.
  Qed.
End StepInv3.

Section StepInv4.
  Variable W H : N.
  Variable fails : N -> bool.
  Local Notation step_sys := (step_sys W H fails).

  Theorem lat_step_inv s g n now o :
    MInv s -> mp_visible s -> LInv s g n -> op_ok s o = true ->
    LInv (step_sys s now o) (lat_step s now o n g) (S n).
  Proof.
    intros MI Vis LI Hk. unfold lat_step.
    destruct (op_draw s now o) as [[b st]|] eqn:Hd.
    - destruct (b_target (get_bar s b)) as [|tg|idx] eqn:Ht.
      + eapply lat_step_nonmember; eauto. unfold mslot. rewrite Ht. reflexivity.
      + eapply lat_step_nonmember; eauto. unfold mslot. rewrite Ht. reflexivity.
      + eapply lat_step_store; eauto.
    - destruct (insert_slot s o) as [idx|] eqn:Hi.
      + destruct o; try discriminate Hi. apply lat_step_insert; assumption.
      + assert (Gen : forall g0 b, LInv s g0 n -> op_bar o = Some b ->
                  (forall i e, In i (ms_order (s_mp s)) -> lg_slot g0 i = Some e -> le_sync e = true -> le_bar e <> b) ->
                  LInv (step_sys s now o) g0 (S n)).
        { intros g0 b LI0 Hb Hne. apply lat_step_keep; try assumption.
          intros i e Hi' He Hs. destruct (silent_change s now o (le_bar e)) eqn:Hsc; [|reflexivity].
          apply silent_bar in Hsc. exfalso. apply (Hne i e Hi' He Hs). congruence. }
        destruct (op_bar o) as [b|] eqn:Hb.
        * destruct (silent_change s now o b) eqn:Hs.
          -- destruct (b_target (get_bar s b)) as [|tg|idx] eqn:Ht.
             ++ apply (Gen g b LI eq_refl). intros i e Hi' He _ Hc.
                pose proof (li_owner _ _ _ LI i e Hi' He) as Ho. rewrite Hc in Ho. apply mslot_Some in Ho. congruence.
             ++ apply (Gen g b LI eq_refl). intros i e Hi' He _ Hc.
                pose proof (li_owner _ _ _ LI i e Hi' He) as Ho. rewrite Hc in Ho. apply mslot_Some in Ho. congruence.
             ++ destruct (lg_slot g idx) as [e0|] eqn:He0.
                ** apply (Gen _ b (LInv_unsync s g n idx e0 LI He0) eq_refl). cbn [lg_slot].
                   intros i e Hi' He Hsy Hc. destruct (N.eq_dec i idx) as [->|Hn].
                   --- rewrite fupd_eq in He. injection He as <-. discriminate Hsy.
                   --- rewrite fupd_neq in He by exact Hn.
                       pose proof (li_owner _ _ _ LI i e Hi' He) as Ho. rewrite Hc in Ho. apply mslot_Some in Ho. congruence.
                ** apply (Gen g b LI eq_refl). intros i e Hi' He _ Hc.
                   pose proof (li_owner _ _ _ LI i e Hi' He) as Ho. rewrite Hc in Ho. apply mslot_Some in Ho.
                   assert (i = idx) by congruence. subst i. congruence.
          -- apply lat_step_keep; try assumption.
             intros i e Hi' He Hsy. destruct (silent_change s now o (le_bar e)) eqn:Hsc; [|reflexivity].
             pose proof (silent_bar _ _ _ _ Hsc) as Hb'. rewrite Hb in Hb'. injection Hb' as ->. congruence.
        * apply lat_step_keep; try assumption.
          intros i e Hi' He Hsy. destruct (silent_change s now o (le_bar e)) eqn:Hsc; [|reflexivity].
          apply silent_bar in Hsc. congruence.
  Qed.

  (** the MultiProgress target stays a terminal *)
  Lemma draw_visible m force extra now c : visible (fst4 (ms_draw W H fails m force extra now c)) = visible m.
  Proof.
    unfold fst4. destruct (ms_target m) as [|tg|i] eqn:Ht.
    - rewrite ms_draw_hidden by (rewrite Ht; discriminate). reflexivity.
    - rewrite (ms_draw_unfold W H fails m force extra now c tg Ht). cbn zeta.
      destruct (fst (tt_allow _ _ now)); cbn [negb fst]; unfold visible; rewrite ?Ht; [|reflexivity].
      match goal with |- context [fold_left ms_remove_idx ?zs ?m0] =>
        destruct (fold_remove_other zs m0) as (_ & _ & _ & Ft) end.
      destruct (ms_has_text m extra); cbn [ms_target set_ms_zombie_lines set_ms_target]; rewrite ?Ft; reflexivity.
    - rewrite ms_draw_hidden by (rewrite Ht; discriminate). reflexivity.
  Qed.

  Lemma clear_visible m c : visible (fst4 (ms_clear W H fails m c)) = visible m.
  Proof.
    unfold ms_clear, visible, fst4. destruct (ms_target m) as [|tg|i] eqn:Ht; cbn; rewrite ?Ht; try reflexivity.
    destruct (term_draw W H fails _ [] c) as [[[tg2 e] c'] ok]. reflexivity.
  Qed.

  Lemma sus_mid_visible m c : visible (sus_mid W H fails m c) = visible m.
  Proof.
    unfold sus_mid. rewrite <- (clear_visible m c). unfold fst4, visible. cbn.
    destruct (ms_target (fst (fst (fst (ms_clear W H fails m c))))); reflexivity.
  Qed.

  Lemma exec1_visible now m c a : visible (fst4 (mp_exec1 W H fails now m c a)) = visible m.
  Proof.
    destruct a; cbn [mp_exec1]; try reflexivity.
    - apply draw_visible.
    - apply clear_visible.
    - pose proof (ms_suspend_draw W H fails m ws now c) as E.
      destruct (ms_suspend W H fails m ws now c) as [[m' e] c']. unfold fst4 at 1. cbn [fst] in *.
      rewrite E, draw_visible. apply sus_mid_visible.
    - unfold fst4. cbn [fst]. destruct (remove_idx_other m idx) as (_ & _ & _ & Et). unfold visible. rewrite Et. reflexivity.
    - unfold fst4. cbn [fst]. unfold ms_insert. destruct (ms_free m); destruct loc; cbn; try reflexivity;
        destruct (posN _ _); reflexivity.
    - unfold fst4. cbn [fst]. unfold ms_mark_zombie, visible. destruct (ms_order m) as [|f r]; [reflexivity|].
      destruct (negb (idx =? f)); [reflexivity|].
      match goal with |- context [ms_remove_idx ?m0 idx] => destruct (remove_idx_other m0 idx) as (_ & _ & _ & Et) end.
      rewrite Et. cbn. destruct (ms_target m); reflexivity.
    - destruct (emit_each fails c (map TLine ws)). reflexivity.
  Qed.

  Lemma mp_run_visible now acts : forall m c, visible (fst (fst (mp_run W H fails now m c acts))) = visible m.
  Proof.
    induction acts as [|a r IH]; intros m c; cbn [mp_run]; [reflexivity|].
    pose proof (exec1_visible now m c a) as E. unfold fst4 in E.
    destruct (mp_exec1 W H fails now m c a) as [[[m1 e1] c1] ok1]. cbn [fst] in E.
    specialize (IH m1 c1). destruct (mp_run W H fails now m1 c1 r) as [[m2 e2] c2]. cbn [fst] in *. congruence.
  Qed.

  Lemma visible_iff s : mp_visible s <-> visible (s_mp s) = true.
  Proof.
    unfold mp_visible, visible. destruct (ms_target (s_mp s)) as [|tg|i]; split; try discriminate; eauto;
      intros [tg' Ht]; discriminate.
  Qed.

  Lemma step_visible s now o : mp_visible s -> mp_visible (step_sys s now o).
  Proof. rewrite !visible_iff, step_mp_eq, mp_run_visible. auto. Qed.
End StepInv4.

(* ------------------------------------------------------------------ G. histories *)
Section LRunsP.
  Variable W H : N.
  Variable fails : N -> bool.
  Local Notation step_sys := (step_sys W H fails).
  Local Notation run := (run W H fails).
  Local Notation hist_ok := (hist_ok W H fails).
  Local Notation lrun := (lrun W H fails).

  Lemma run_app h1 : forall s h2, run s (h1 ++ h2) = run (run s h1) h2.
  Proof. induction h1 as [|[now o] r IH]; intros s h2; cbn [MultiSpec.run app]; [reflexivity | apply IH]. Qed.

  Lemma hist_ok_app h1 : forall s h2, hist_ok s (h1 ++ h2) <-> hist_ok s h1 /\ hist_ok (run s h1) h2.
  Proof.
    induction h1 as [|[now o] r IH]; intros s h2; cbn [MultiSpec.hist_ok MultiSpec.run app]; [tauto|].
    rewrite IH. tauto.
  Qed.

  Lemma lrun_app h1 : forall s n g h2,
    lrun s n g (h1 ++ h2) = let '(s1, n1, g1) := lrun s n g h1 in lrun s1 n1 g1 h2.
  Proof.
    induction h1 as [|[now o] r IH]; intros s n g h2; cbn [MultiLatest.lrun app]; [reflexivity | apply IH].
  Qed.

  Lemma lrun_fst h : forall s n g, fst (fst (lrun s n g h)) = run s h /\ snd (fst (lrun s n g h)) = (n + length h)%nat.
  Proof.
    induction h as [|[now o] r IH]; intros s n g; cbn [MultiLatest.lrun MultiSpec.run length]; [cbn; split; [reflexivity | lia]|].
    destruct (IH (step_sys s now o) (S n) (lat_step s now o n g)) as [A B]. rewrite A, B. split; [reflexivity | lia].
  Qed.

  (** the invariants along every valid history *)
  Lemma lrun_inv h : forall s a g n, MInv s -> Refines s a -> mp_visible s -> LInv s g n -> hist_ok s h ->
    let r := lrun s n g h in
    MInv (fst (fst r)) /\ mp_visible (fst (fst r)) /\ LInv (fst (fst r)) (snd r) (snd (fst r))
    /\ exists a', Refines (fst (fst r)) a'.
  Proof.
    induction h as [|[now o] rest IH]; intros s a g n MI RF Vis LI Hh; cbn [MultiLatest.lrun].
    - cbn. eauto.
    - destruct Hh as [Hk Hr]. destruct (step_sim W H fails s a now o MI RF Hk) as (r & MI' & RF').
      eapply IH; eauto.
      + apply step_visible; assumption.
      + apply lat_step_inv; assumption.
  Qed.

End LRunsP.

Lemma LInv_init s : ms_order (s_mp s) = [] -> LInv s lg_empty 0.
Proof. intros Eo. constructor; cbn; try discriminate; rewrite Eo; intros i []. Qed.

(** where the entries of the new ghost come from *)
Lemma lat_step_entries s now o k g i e : lg_slot (lat_step s now o k g) i = Some e ->
  (exists e0, lg_slot g i = Some e0 /\ le_bar e = le_bar e0 /\ le_step e = le_step e0 /\ le_state e = le_state e0
              /\ (le_sync e = true -> e = e0))
  \/ (exists b st, op_draw s now o = Some (b, st) /\ b_target (get_bar s b) = TMulti i /\ e = mkle b k st true).
Proof.
  unfold lat_step. intros He.
  assert (Old : lg_slot g i = Some e -> exists e0, lg_slot g i = Some e0 /\ le_bar e = le_bar e0 /\ le_step e = le_step e0
                 /\ le_state e = le_state e0 /\ (le_sync e = true -> e = e0)) by (intros E; exists e; auto).
  destruct (op_draw s now o) as [[b st]|].
  - destruct (b_target (get_bar s b)) as [|tg|idx] eqn:Ht; try (left; auto; fail).
    cbn [lg_slot] in He. destruct (N.eq_dec i idx) as [->|Hn].
    + rewrite fupd_eq in He. injection He as <-. right. eauto.
    + rewrite fupd_neq in He by exact Hn. left; auto.
  - left. destruct (insert_slot s o) as [idx|].
    + cbn [lg_slot] in He. destruct (N.eq_dec i idx) as [->|Hn]; [rewrite fupd_eq in He; discriminate|].
      rewrite fupd_neq in He by exact Hn. auto.
    + destruct (op_bar o) as [b|]; [|auto]. destruct (silent_change s now o b); [|auto].
      destruct (b_target (get_bar s b)) as [|tg|idx]; try (auto; fail).
      destruct (lg_slot g idx) as [e0|] eqn:He0; [|auto]. cbn [lg_slot] in He.
      destruct (N.eq_dec i idx) as [->|Hn].
      * rewrite fupd_eq in He. injection He as <-. exists e0. cbn. repeat split; auto. discriminate.
      * rewrite fupd_neq in He by exact Hn. auto.
Qed.

(** the per-bar "most recent draw step" only moves forward *)
Lemma lat_step_last s now o k g b k0 : lg_last g b = Some k0 ->
  lg_last (lat_step s now o k g) b = Some k0 \/ lg_last (lat_step s now o k g) b = Some k.
Proof.
  intros Hb. unfold lat_step. destruct (op_draw s now o) as [[b' st]|].
  - destruct (b_target (get_bar s b')); auto. cbn [lg_last]. destruct (N.eq_dec b b') as [->|Hn].
    + rewrite fupd_eq. auto.
    + rewrite fupd_neq by exact Hn. auto.
  - destruct (insert_slot s o); [auto|]. destruct (op_bar o) as [b'|]; [|auto].
    destruct (silent_change s now o b'); [|auto]. destruct (b_target (get_bar s b')); auto.
    destruct (lg_slot g _); auto.
Qed.

Section HistFacts.
  Variable W H : N.
  Variable fails : N -> bool.
  Local Notation step_sys := (step_sys W H fails).
  Local Notation run := (run W H fails).
  Local Notation hist_ok := (hist_ok W H fails).
  Local Notation lrun := (lrun W H fails).

  (** every ghost state is a state the bar really had: its logic state right after the call
      with the recorded number *)
  Definition HistFact (s0 : sys) (h : list (N * op)) (g : lghost) : Prop :=
    forall i e, lg_slot g i = Some e ->
      (le_step e < length h)%nat
      /\ logic (le_state e) = logic (get_bar (run s0 (firstn (S (le_step e)) h)) (le_bar e)).

  Lemma hist_fact h : forall s0, hist_ok s0 h -> HistFact s0 h (snd (lrun s0 0 lg_empty h)).
  Proof.
    induction h as [|[now o] rest IH] using rev_ind; intros s0 Hh.
    - intros i e He. discriminate He.
    - apply hist_ok_app in Hh. destruct Hh as [Hh1 [Hk _]]. specialize (IH s0 Hh1).
      rewrite lrun_app. destruct (lrun_fst W H fails rest s0 0 lg_empty) as [Es En].
      destruct (lrun s0 0 lg_empty rest) as [[s n] g]. cbn [fst snd] in *. cbn [MultiLatest.lrun snd]. subst s n.
      intros i e He. rewrite app_length. cbn [length].
      destruct (lat_step_entries _ _ _ _ _ _ _ He) as [(e0 & He0 & -> & -> & -> & _)|(b & st & Hd & Ht & ->)].
      + destruct (IH i e0 He0) as [A B]. split; [lia|]. rewrite firstn_app.
        replace (S (le_step e0) - length rest)%nat with 0%nat by lia. cbn [firstn]. rewrite app_nil_r. exact B.
      + cbn [le_step le_state le_bar]. split; [lia|].
        replace (S (0 + length rest)) with (length (rest ++ [(now, o)])) by (rewrite app_length; cbn; lia).
        rewrite firstn_all, run_app. cbn [MultiSpec.run].
        destruct (step_bar_facts W H fails (run s0 rest) now o Hk b) as (_ & _ & C).
        unfold logic_after in C. rewrite Hd, N.eqb_refl in C. symmetry. exact C.
  Qed.

  (** monotone: a later ghost never names an older draw step of a bar *)
  Lemma last_mono h2 : forall s n g b k1, lg_last g b = Some k1 -> (k1 < n)%nat ->
    exists k2, lg_last (snd (lrun s n g h2)) b = Some k2 /\ (k1 <= k2)%nat.
  Proof.
    induction h2 as [|[now o] rest IH]; intros s n g b k1 Hb Hlt; cbn [MultiLatest.lrun].
    - exists k1. cbn. auto.
    - destruct (lat_step_last s now o n g b k1 Hb) as [E|E].
      + apply (IH _ (S n) _ b k1 E). lia.
      + destruct (IH (step_sys s now o) (S n) _ b n E) as (k2 & A & B); [lia|]. exists k2. split; [exact A | lia].
  Qed.
End HistFacts.

(* ------------------------------------------------------------------ H. what every composed frame shows *)
Lemma lat_step_last_eq s now o k g x :
  lg_last (lat_step s now o k g) x =
  match op_draw s now o with
  | Some (b, _) => match b_target (get_bar s b) with
                   | TMulti _ => if N.eqb x b then Some k else lg_last g x
                   | _ => lg_last g x
                   end
  | None => lg_last g x
  end.
Proof.
  unfold lat_step. destruct (op_draw s now o) as [[b st]|].
  - destruct (b_target (get_bar s b)); reflexivity.
  - destruct (insert_slot s o); [reflexivity|]. destruct (op_bar o) as [b'|]; [|reflexivity].
    destruct (silent_change s now o b'); [|reflexivity]. destruct (b_target (get_bar s b')); try reflexivity.
    destruct (lg_slot g _); reflexivity.
Qed.

Lemma lat_step_nodraw_lines s now o k g i : op_draw s now o = None -> insert_slot s o = None ->
  ent_lines (lg_slot (lat_step s now o k g) i) = ent_lines (lg_slot g i).
Proof.
  intros Hd Hi. unfold lat_step. rewrite Hd, Hi. destruct (op_bar o) as [b|]; [|reflexivity].
  destruct (silent_change s now o b); [|reflexivity]. destruct (b_target (get_bar s b)) as [|tg|idx]; try reflexivity.
  destruct (lg_slot g idx) as [e0|] eqn:He0; [|reflexivity]. cbn [lg_slot].
  destruct (N.eq_dec i idx) as [->|Hn].
  - rewrite fupd_eq, He0. reflexivity.
  - rewrite fupd_neq by exact Hn. reflexivity.
Qed.

Lemma member_lines_shown m g i : lines_at m i = ent_lines (lg_slot g i) -> member_lines (ms_members m) i = shown g i.
Proof.
  unfold lines_at, member_lines, shown, ent_lines. intros E. rewrite E. destruct (lg_slot g i); reflexivity.
Qed.

Section Frames.
  Variable W H : N.
  Variable fails : N -> bool.
  Local Notation step_sys := (step_sys W H fails).
  Local Notation run := (run W H fails).
  Local Notation hist_ok := (hist_ok W H fails).
  Local Notation lrun := (lrun W H fails).

  Lemma mp_draws_LSub now acts : Forall plain acts -> forall m c m' f ex,
    In (m', f, ex) (mp_draws W H fails now m c acts) -> LSub m m'.
  Proof.
    induction 1 as [|a r Ha Hr IH]; intros m c m' f ex Hin; cbn [mp_draws] in Hin; [destruct Hin|].
    pose proof (exec1_LSub W H fails now m c a) as E. unfold fst4 in E.
    destruct (mp_exec1 W H fails now m c a) as [[[m1 e1] c1] ok1]. cbn [fst] in E.
    apply in_app_or in Hin. destruct Hin as [Hin|Hin].
    - destruct a; cbn in Hin; try contradiction.
      + destruct Hin as [[= <- _ _]|[]]. apply LSub_refl.
      + destruct Hin as [[= <- _ _]|[]]. apply LSub_same, sus_mid_same.
    - eapply LSub_trans; [apply E; destruct a; try exact I; contradiction | eapply IH; eauto].
  Qed.

  (** the stored lines at every MultiState::draw of a call are the rendering of the ghost AFTER the call *)
  Lemma step_draws_lines s g n now o m f ex :
    MInv s -> mp_visible s -> LInv s g n -> op_ok s o = true ->
    In (m, f, ex) (step_draws W H fails s now o) ->
    forall i, In i (ms_order m) ->
      In i (ms_order (s_mp s)) /\ lines_at m i = ent_lines (lg_slot (lat_step s now o n g) i).
  Proof.
    intros MI Vis LI Hk Hin i Hi. unfold step_draws in Hin.
    destruct (op_draw s now o) as [[b st]|] eqn:Hd.
    - pose proof (draw_op_actions W s now o b st Hk Hd) as Sh. unfold lat_step. rewrite Hd.
      destruct (b_target (get_bar s b)) as [|tg|idx] eqn:Ht; try (rewrite Sh in Hin; destruct Hin).
      destruct Sh as [force Sh]. rewrite Sh in Hin. cbn [mp_draws mp_exec1] in Hin.
      rewrite (visible_width W s Vis) in Hin.
      set (m1 := ms_store (s_mp s) idx (op_texts o) (frame_of st)) in *.
      destruct (ms_draw W H fails m1 force None now (s_calls s)) as [[[m2 e2] c2] ok2].
      cbn [app] in Hin. destruct Hin as [[= <- _ _]|Hin].
      + pose proof (ok_alive s o b Hk (op_draw_bar s now o b st Hd)) as Ha.
        destruct (mi_alive s MI b idx Ha Ht) as [Hio _].
        assert (Hl : (N.to_nat idx < length (ms_members (s_mp s)))%nat) by (apply (ci_bound _ (MInv_core s MI)); auto).
        split; [exact Hi|]. unfold m1. rewrite store_lines by exact Hl. cbn [lg_slot].
        destruct (N.eqb_spec i idx) as [->|Hn].
        * rewrite fupd_eq. reflexivity.
        * rewrite fupd_neq by exact Hn. apply (li_lines _ _ _ LI). exact Hi.
      + exfalso. destruct o; cbn [drop_tail mp_draws] in Hin; try contradiction.
    - destruct (insert_slot s o) as [idx|] eqn:Hs.
      + destruct o; try discriminate Hs. destruct (insert_op_actions W s now loc b idx Hk Hs) as (l & m1 & _ & _ & Sh).
        rewrite Sh in Hin. cbn in Hin. contradiction.
      + pose proof (mp_draws_LSub now _ (nodraw_op_actions W s now o Hk Hd Hs) _ _ _ _ _ Hin i Hi) as [Hi0 E].
        split; [exact Hi0|]. rewrite E, lat_step_nodraw_lines by assumption. apply (li_lines _ _ _ LI). exact Hi0.
  Qed.

  (** facts about the ghost after the call, for the slots that were in the ordering before it *)
  Lemma lat_step_pre s g n now o i e :
    LInv s g n -> In i (ms_order (s_mp s)) -> lg_slot (lat_step s now o n g) i = Some e ->
    mslot (get_bar s (le_bar e)) = Some i /\ lg_last (lat_step s now o n g) (le_bar e) = Some (le_step e)
    /\ (le_step e <= n)%nat.
  Proof.
    intros LI Hi He. rewrite lat_step_last_eq.
    destruct (lat_step_entries _ _ _ _ _ _ _ He) as [(e0 & He0 & Eb & Es & _)|(b & st & Hd & Ht & ->)].
    - rewrite Eb, Es. pose proof (li_owner _ _ _ LI i e0 Hi He0) as Ho. split; [exact Ho|].
      pose proof (li_stamp_slot _ _ _ LI i e0 He0) as Hs. split; [|lia].
      destruct (op_draw s now o) as [[b st]|] eqn:Hd; [|apply (li_last _ _ _ LI i e0 Hi He0)].
      destruct (b_target (get_bar s b)) as [|tg|idx] eqn:Ht; try apply (li_last _ _ _ LI i e0 Hi He0).
      destruct (N.eqb_spec (le_bar e0) b) as [Hc|Hn]; [|apply (li_last _ _ _ LI i e0 Hi He0)].
      (* the bar drew in this call: then its slot is [i] and the entry is the new one *)
      exfalso. rewrite Hc in Ho. apply mslot_Some in Ho. rewrite Ht in Ho. injection Ho as ->.
      unfold lat_step in He. rewrite Hd, Ht in He. cbn [lg_slot] in He. rewrite fupd_eq in He. injection He as E.
      rewrite <- E in Es. cbn in Es. lia.
    - cbn [le_bar le_step]. rewrite Hd, Ht, N.eqb_refl. split; [apply mslot_Some; exact Ht|]. split; [reflexivity | lia].
  Qed.
End Frames.

(* ------------------------------------------------------------------ top-level forms used by props/C02.v, props/C05.v *)
Lemma lrun_all (W H : N) (fails : N -> bool) (s0 : sys) (h : list (N * op)) :
  init_ok s0 -> mp_visible s0 -> hist_ok W H fails s0 h ->
  let r := lrun W H fails s0 0 lg_empty h in
  fst (fst r) = run W H fails s0 h /\ snd (fst r) = length h
  /\ MInv (fst (fst r)) /\ mp_visible (fst (fst r)) /\ LInv (fst (fst r)) (snd r) (length h)
  /\ HistFact W H fails s0 h (snd r).
Proof.
  intros Hi Vis Hh. cbn zeta. destruct (init_inv H fails s0 Hi) as [MI RF].
  destruct (lrun_fst W H fails h s0 0 lg_empty) as [A B].
  destruct (lrun_inv W H fails h s0 _ lg_empty 0 MI RF Vis (LInv_init s0 (proj1 (proj2 (proj2 Hi)))) Hh) as (C & D & E & _).
  rewrite B in E. cbn in B, E.
  split; [exact A|]. split; [exact B|]. split; [exact C|]. split; [exact D|]. split; [exact E|]. apply hist_fact. exact Hh.
Qed.

Theorem member_lines_latest (W H : N) (fails : N -> bool) (s0 : sys) (h : list (N * op)) :
  init_ok s0 -> mp_visible s0 -> hist_ok W H fails s0 h ->
  let r := lrun W H fails s0 0 lg_empty h in
  let s := fst (fst r) in let g := snd r in
  s = run W H fails s0 h
  /\ (forall i, In i (ms_order (s_mp s)) ->
        member_lines (ms_members (s_mp s)) i = shown g i
        /\ forall e, lg_slot g i = Some e ->
             b_target (get_bar s (le_bar e)) = TMulti i
             /\ lg_last g (le_bar e) = Some (le_step e) /\ (le_step e < length h)%nat
             /\ logic (le_state e) = logic (get_bar (run W H fails s0 (firstn (S (le_step e)) h)) (le_bar e))
             /\ (le_sync e = true -> logic (le_state e) = logic (get_bar s (le_bar e))))
  /\ (forall b i, alive s b = true -> b_target (get_bar s b) = TMulti i ->
        In i (ms_order (s_mp s)) /\ forall e, lg_slot g i = Some e -> le_bar e = b).
Proof.
  intros Hi Vis Hh. destruct (lrun_all W H fails s0 h Hi Vis Hh) as (A & B & MI & V & LI & HF). cbn zeta in *.
  split; [exact A|]. split.
  - intros i Hio. split; [apply member_lines_shown, (li_lines _ _ _ LI), Hio|].
    intros e He. destruct (HF i e He) as [F1 F2].
    split; [apply mslot_Some, (li_owner _ _ _ LI i e Hio He)|].
    split; [apply (li_last _ _ _ LI i e Hio He)|]. split; [exact F1|]. split; [exact F2|].
    apply (li_sync _ _ _ LI i e Hio He).
  - intros b i Ha Ht. split; [apply (mi_alive _ MI b i Ha Ht)|].
    intros e He. apply (li_live _ _ _ LI b i e Ha); [apply mslot_Some; exact Ht | exact He].
Qed.

(** after a draw step of a member the stored lines are the rendering of its CURRENT state *)
Theorem draw_step_current (W H : N) (fails : N -> bool) (s0 : sys) (h : list (N * op)) (now : N) (o : op)
    (b : N) (st : bar) (i : N) :
  init_ok s0 -> mp_visible s0 -> hist_ok W H fails s0 (h ++ [(now, o)]) ->
  let s := run W H fails s0 h in let s' := step_sys W H fails s now o in
  op_draw s now o = Some (b, st) -> b_target (get_bar s b) = TMulti i -> In i (ms_order (s_mp s')) ->
  member_lines (ms_members (s_mp s')) i = frame_of (get_bar s' b) /\ logic (get_bar s' b) = logic st.
Proof.
  intros Hi Vis Hh. cbn zeta. intros Hd Ht Hio.
  apply hist_ok_app in Hh. destruct Hh as [Hh [Hk _]].
  destruct (lrun_all W H fails s0 h Hi Vis Hh) as (A & B & MI & V & LI & _). cbn zeta in *.
  set (r := lrun W H fails s0 0 lg_empty h) in *. rewrite A in MI, V, LI.
  pose proof (lat_step_store W H fails _ (snd r) (length h) now o b st i MI V LI Hk Hd Ht) as LI'.
  pose proof (li_lines _ _ _ LI' i Hio) as E1. cbn [lg_slot] in E1. rewrite fupd_eq in E1. cbn in E1.
  pose proof (li_sync _ _ _ LI' i _ Hio (fupd_eq _ _ _) eq_refl) as E2. cbn in E2.
  split; [|symmetry; exact E2]. unfold member_lines. unfold lines_at in E1. rewrite E1. apply frame_of_logic. exact E2.
Qed.

(** only a draw step or a call of the "silent" list changes the logic state of a bar *)
Theorem logic_change (W H : N) (fails : N -> bool) (s : sys) (now : N) (o : op) (x : N) :
  op_ok s o = true ->
  logic (get_bar (step_sys W H fails s now o) x) <> logic (get_bar s x) ->
  (exists st, op_draw s now o = Some (x, st)) \/ silent_change s now o x = true.
Proof.
  intros Hk Hne. destruct (step_bar_facts W H fails s now o Hk x) as (_ & _ & C). unfold logic_after in C.
  destruct (op_draw s now o) as [[b st]|].
  - destruct (N.eqb_spec x b) as [->|Hn]; [eauto | contradiction].
  - destruct (silent_change s now o x); [auto | contradiction].
Qed.

Lemma firstn_app_le {A} (l1 l2 : list A) k : (k <= length l1)%nat -> firstn k (l1 ++ l2) = firstn k l1.
Proof.
  intros Hk. rewrite firstn_app. replace (k - length l1)%nat with 0%nat by lia. cbn. apply app_nil_r.
Qed.

(** every MultiState::draw of every call of every valid history composes
    text ++ (for each slot of the ordering, the rendering of the owning bar's state at its most
    recent draw step) *)
Theorem frame_shows_latest (W H : N) (fails : N -> bool) (s0 : sys) (h1 h2 : list (N * op)) (now : N) (o : op) :
  init_ok s0 -> mp_visible s0 -> hist_ok W H fails s0 (h1 ++ (now, o) :: h2) ->
  let r := lrun W H fails s0 0 lg_empty h1 in
  let s := fst (fst r) in
  let g' := lat_step s now o (length h1) (snd r) in
  s = run W H fails s0 h1 /\
  forall m f ex, In (m, f, ex) (step_draws W H fails s now o) ->
    ms_frame m ex = (match ex with Some e => e | None => [] end ++ ms_orphans m)
                    ++ concat (map (shown g') (ms_order m))
    /\ forall i e, In i (ms_order m) -> lg_slot g' i = Some e ->
         b_target (get_bar s (le_bar e)) = TMulti i
         /\ lg_last g' (le_bar e) = Some (le_step e) /\ (le_step e <= length h1)%nat
         /\ logic (le_state e)
            = logic (get_bar (run W H fails s0 (firstn (S (le_step e)) (h1 ++ (now, o) :: h2))) (le_bar e)).
Proof.
  intros Hi Vis Hh. cbn zeta.
  change (h1 ++ (now, o) :: h2) with (h1 ++ [(now, o)] ++ h2) in *. rewrite app_assoc in Hh.
  apply hist_ok_app in Hh. destruct Hh as [Hh12 _].
  pose proof Hh12 as Hh12'. apply hist_ok_app in Hh12'. destruct Hh12' as [Hh1 [Hk _]].
  destruct (lrun_all W H fails s0 h1 Hi Vis Hh1) as (A & B & MI & V & LI & _). cbn zeta in *.
  pose proof (hist_fact W H fails (h1 ++ [(now, o)]) s0 Hh12) as HF.
  rewrite lrun_app in HF. set (r := lrun W H fails s0 0 lg_empty h1) in *.
  destruct r as [[s n] g] eqn:Er. cbn [fst snd] in *. cbn [lrun snd] in HF. subst n.
  split; [exact A|]. rewrite <- A in Hk.
  intros m f ex Hin.
  pose proof (step_draws_lines W H fails s g (length h1) now o m f ex MI V LI Hk Hin) as SL.
  split.
  - unfold ms_frame. rewrite app_assoc. f_equal. f_equal. apply map_ext_in. intros i Hio.
    apply member_lines_shown. apply SL. exact Hio.
  - intros i e Hio He. destruct (SL i Hio) as [Hi0 _].
    destruct (lat_step_pre fails s g (length h1) now o i e LI Hi0 He) as (P1 & P2 & P3).
    split; [apply mslot_Some; exact P1|]. split; [exact P2|]. split; [exact P3|].
    destruct (HF i e He) as [F1 F2]. rewrite F2. rewrite app_assoc, (firstn_app_le (h1 ++ [(now, o)]) h2); [reflexivity|].
    rewrite app_length. cbn. lia.
Qed.

(** never older: the most recent draw step of a bar only moves forward along a history *)
Theorem latest_monotone (W H : N) (fails : N -> bool) (s0 : sys) (h1 h2 : list (N * op)) (b : N) (k1 : nat) :
  init_ok s0 -> mp_visible s0 -> hist_ok W H fails s0 (h1 ++ h2) ->
  lg_last (snd (lrun W H fails s0 0 lg_empty h1)) b = Some k1 ->
  exists k2, lg_last (snd (lrun W H fails s0 0 lg_empty (h1 ++ h2))) b = Some k2 /\ (k1 <= k2)%nat.
Proof.
  intros Hi Vis Hh Hb. apply hist_ok_app in Hh. destruct Hh as [Hh1 _].
  destruct (lrun_all W H fails s0 h1 Hi Vis Hh1) as (_ & B & _ & _ & LI & _). cbn zeta in *.
  rewrite lrun_app. destruct (lrun W H fails s0 0 lg_empty h1) as [[s n] g]. cbn [fst snd] in *.
  apply last_mono; [exact Hb|]. subst n. apply (li_stamp_last _ _ _ LI b k1 Hb).
Qed.

(* ------------------------------------------------------------------ I. orphan lines *)
Lemma vlc_ge ls W : forall acc, acc <= fold_left (fun a l => a + wrapped_height l W) ls acc.
Proof.
  induction ls as [|l r IH]; intros acc; cbn [fold_left]; [lia|].
  specialize (IH (acc + wrapped_height l W)). lia.
Qed.

Lemma vlc_pos ls W : ls <> [] -> (0 <? visual_line_count ls W) = true.
Proof.
  destruct ls as [|l r]; [congruence|]. intros _. unfold visual_line_count. cbn [fold_left].
  pose proof (vlc_ge r W (0 + wrapped_height l W)). unfold wrapped_height in *. lia.
Qed.

Section Orphans.
  Variable W H : N.
  Variable fails : N -> bool.

  (** pending orphan lines force the draw *)
  Lemma orphans_attempt m force extra now : visible m = true -> ms_orphans m <> [] ->
    ms_attempt W m force extra now = true.
  Proof.
    unfold visible, ms_attempt. destruct (ms_target m) as [|tg|i]; try discriminate. intros _ Hne.
    rewrite (vlc_pos _ W Hne), orb_true_r. reflexivity.
  Qed.

  Lemma draw_orphans m force extra now c :
    ms_orphans (fst4 (ms_draw W H fails m force extra now c))
    = if ms_attempt W m force extra now then [] else ms_orphans m.
  Proof.
    unfold fst4, ms_attempt. destruct (ms_target m) as [|tg|i] eqn:Ht.
    - rewrite ms_draw_hidden by (rewrite Ht; discriminate). reflexivity.
    - rewrite (ms_draw_unfold W H fails m force extra now c tg Ht). cbn zeta. fold (ms_has_text m extra).
      destruct (fst (tt_allow _ _ now)); cbn [negb fst]; [|reflexivity].
      match goal with |- context [fold_left ms_remove_idx ?zs ?m0] =>
        destruct (fold_remove_other zs m0) as (_ & Fo & _ & _) end.
      destruct (ms_has_text m extra); cbn [ms_orphans set_ms_zombie_lines set_ms_target]; rewrite Fo; reflexivity.
    - rewrite ms_draw_hidden by (rewrite Ht; discriminate). reflexivity.
  Qed.

  Lemma draw_orphans_nil m force extra now c : visible m = true ->
    ms_orphans (fst4 (ms_draw W H fails m force extra now c)) = [].
  Proof.
    intros V. rewrite draw_orphans. destruct (ms_attempt W m force extra now) eqn:Ha; [reflexivity|].
    destruct (ms_orphans m) as [|l r] eqn:Ho; [reflexivity|].
    rewrite orphans_attempt in Ha; [discriminate | exact V | rewrite Ho; discriminate].
  Qed.

  Lemma sus_mid_orphans m c : ms_orphans (sus_mid W H fails m c) = ms_orphans m.
  Proof.
    unfold sus_mid, ms_clear. destruct (ms_target m) as [|tg|i]; try reflexivity.
    destruct (term_draw W H fails _ [] c) as [[[tg2 e] c'] ok]. reflexivity.
  Qed.

  Lemma exec1_orphans_nil now m c a : visible m = true -> ms_orphans m = [] ->
    match a with AStore _ _ _ => False | _ => True end ->
    ms_orphans (fst4 (mp_exec1 W H fails now m c a)) = [].
  Proof.
    intros V Ho Ha. destruct a; try contradiction; cbn [mp_exec1].
    - apply draw_orphans_nil, V.
    - unfold fst4, ms_clear. destruct (ms_target m) as [|tg|i]; try exact Ho.
      destruct (term_draw W H fails _ [] c) as [[[tg2 e] c'] ok]. exact Ho.
    - pose proof (ms_suspend_draw W H fails m ws now c) as E.
      destruct (ms_suspend W H fails m ws now c) as [[m' e] c']. unfold fst4 at 1. cbn [fst] in *.
      rewrite E. apply draw_orphans_nil. rewrite sus_mid_visible. exact V.
    - unfold fst4. cbn [fst]. destruct (remove_idx_other m idx) as (_ & Eo & _). rewrite Eo. exact Ho.
    - unfold fst4. cbn [fst]. unfold ms_insert. destruct (ms_free m); destruct loc; cbn; try exact Ho;
        destruct (posN _ _); exact Ho.
    - unfold fst4. cbn [fst]. unfold ms_mark_zombie. destruct (ms_order m) as [|f r]; [exact Ho|].
      destruct (negb (idx =? f)); [exact Ho|].
      match goal with |- context [ms_remove_idx ?m0 idx] => destruct (remove_idx_other m0 idx) as (_ & Eo & _) end.
      rewrite Eo. exact Ho.
    - exact Ho.
    - destruct (emit_each fails c (map TLine ws)). exact Ho.
  Qed.

  Definition nostore (a : maction) : Prop := match a with AStore _ _ _ => False | _ => True end.

  Lemma mp_run_orphans_nil now acts : Forall nostore acts -> forall m c, visible m = true -> ms_orphans m = [] ->
    ms_orphans (fst (fst (mp_run W H fails now m c acts))) = []
    /\ forall m' f ex, In (m', f, ex) (mp_draws W H fails now m c acts) -> ms_orphans m' = [] /\ visible m' = true.
  Proof.
    induction 1 as [|a r Ha Hr IH]; intros m c V Ho; cbn [mp_run mp_draws]; [split; [exact Ho | intros ? ? ? []]|].
    pose proof (exec1_orphans_nil now m c a V Ho Ha) as E. pose proof (exec1_visible W H fails now m c a) as E2.
    unfold fst4 in E, E2. destruct (mp_exec1 W H fails now m c a) as [[[m1 e1] c1] ok1]. cbn [fst] in E, E2.
    rewrite V in E2. destruct (IH m1 c1 E2 E) as [I1 I2].
    destruct (mp_run W H fails now m1 c1 r) as [[m2 e2] c2]. cbn [fst] in *. split; [exact I1|].
    intros m' f ex Hin. apply in_app_or in Hin. destruct Hin as [Hin|Hin]; [|eauto].
    destruct a; cbn in Hin; try contradiction.
    - destruct Hin as [[= <- _ _]|[]]. auto.
    - destruct Hin as [[= <- _ _]|[]]. rewrite sus_mid_orphans, sus_mid_visible. auto.
  Qed.
End Orphans.

Section Orphans2.
  Variable W H : N.
  Variable fails : N -> bool.
  Local Notation step_sys := (step_sys W H fails).

  Lemma plain_nostore acts : Forall plain acts -> Forall nostore acts.
  Proof. apply Forall_impl. intros a; destruct a; cbn; tauto. Qed.

  Lemma store_visible m idx t b : visible (ms_store m idx t b) = visible m.
  Proof. reflexivity. Qed.

  Lemma step_orphans s now o : mp_visible s -> ms_orphans (s_mp s) = [] -> op_ok s o = true ->
    ms_orphans (s_mp (step_sys s now o)) = []
    /\ (forall m f ex, In (m, f, ex) (step_draws W H fails s now o) ->
          ms_orphans m = member_texts s o /\ visible m = true)
    /\ (member_texts s o <> [] ->
          exists m f, step_draws W H fails s now o = [(m, f, None)] /\ ms_attempt W m f None now = true).
  Proof.
    intros Vis Ho Hk. apply visible_iff in Vis. rewrite step_mp_eq. unfold step_draws.
    destruct (op_draw s now o) as [[b st]|] eqn:Hd.
    - pose proof (draw_op_actions W s now o b st Hk Hd) as Sh.
      destruct (b_target (get_bar s b)) as [|tg|idx] eqn:Ht.
      + rewrite Sh. cbn. split; [exact Ho|]. split; [intros ? ? ? []|].
        intros Hne. exfalso. apply Hne. destruct o; try reflexivity. cbn in Hd. injection Hd as <- _.
        cbn. unfold is_member. rewrite Ht. reflexivity.
      + rewrite Sh. cbn. split; [exact Ho|]. split; [intros ? ? ? []|].
        intros Hne. exfalso. apply Hne. destruct o; try reflexivity. cbn in Hd. injection Hd as <- _.
        cbn. unfold is_member. rewrite Ht. reflexivity.
      + destruct Sh as [force Sh]. rewrite Sh. cbn [mp_run mp_draws mp_exec1].
        set (m1 := ms_store (s_mp s) idx (op_texts o) _).
        assert (Hmt : member_texts s o = op_texts o).
        { destruct o; try reflexivity. cbn in Hd. injection Hd as <- _. cbn. unfold is_member. rewrite Ht. reflexivity. }
        assert (Ho1 : ms_orphans m1 = member_texts s o) by (unfold m1, ms_store; cbn; rewrite Ho, Hmt; reflexivity).
        assert (V1 : visible m1 = true) by exact Vis.
        pose proof (draw_orphans_nil W H fails m1 force None now (s_calls s) V1) as Dn.
        pose proof (draw_visible W H fails m1 force None now (s_calls s)) as Dv. unfold fst4 in Dn, Dv.
        destruct (ms_draw W H fails m1 force None now (s_calls s)) as [[[m2 e2] c2] ok2]. cbn [fst] in Dn, Dv.
        assert (Hnd : mp_draws W H fails now m2 c2 (drop_tail o idx) = []) by (destruct o; reflexivity).
        rewrite Hnd. cbn [app].
        assert (Hfin : ms_orphans (fst (fst (mp_run W H fails now m2 c2 (drop_tail o idx)))) = []).
        { apply mp_run_orphans_nil; [destruct o; repeat constructor | congruence | exact Dn]. }
        destruct (mp_run W H fails now m2 c2 (drop_tail o idx)) as [[m3 e3] c3]. cbn [fst] in *.
        split; [exact Hfin|]. split.
        * intros m f ex [[= <- _ _]|[]]. auto.
        * intros Hne. exists m1, force. split; [reflexivity|]. apply orphans_attempt; [exact V1 | congruence].
    - assert (Hmt : member_texts s o = []) by (destruct o; try reflexivity; discriminate Hd).
      assert (Hns : Forall nostore (op_actions W s now o)).
      { destruct (insert_slot s o) as [idx|] eqn:Hs.
        - destruct o; try discriminate Hs. destruct (insert_op_actions W s now loc b idx Hk Hs) as (l & m1 & _ & _ & Sh).
          rewrite Sh. repeat constructor.
        - apply plain_nostore, nodraw_op_actions; assumption. }
      destruct (mp_run_orphans_nil W H fails now _ Hns (s_mp s) (s_calls s) Vis Ho) as [A B].
      split; [exact A|]. split; [|rewrite Hmt; congruence].
      intros m f ex Hin. rewrite Hmt. eauto.
  Qed.

  Lemma run_orphans h : forall s, mp_visible s -> ms_orphans (s_mp s) = [] -> hist_ok W H fails s h ->
    mp_visible (run W H fails s h) /\ ms_orphans (s_mp (run W H fails s h)) = [].
  Proof.
    induction h as [|[now o] r IH]; intros s V Ho Hh; cbn [run]; [auto|].
    destruct Hh as [Hk Hr]. apply IH; [apply step_visible, V | apply step_orphans; assumption | exact Hr].
  Qed.

  Lemma mp_draws_extra now acts : forall m c m' f ex, In (m', f, ex) (mp_draws W H fails now m c acts) ->
    ex = None \/ In (ADraw f ex) acts.
  Proof.
    induction acts as [|a r IH]; intros m c m' f ex Hin; cbn [mp_draws] in Hin; [destruct Hin|].
    destruct (mp_exec1 W H fails now m c a) as [[[m1 e1] c1] ok1].
    apply in_app_or in Hin. destruct Hin as [Hin|Hin].
    - destruct a; cbn in Hin; try contradiction.
      + destruct Hin as [[= _ <- <-]|[]]. right. left. reflexivity.
      + destruct Hin as [[= _ _ <-]|[]]. auto.
    - destruct (IH _ _ _ _ _ Hin); [auto | right; right; assumption].
  Qed.

  Lemma op_actions_extra s now o f e : In (ADraw f (Some e)) (op_actions W s now o) -> all_text e.
  Proof.
    intros Hin.
    destruct o; cbn [op_actions] in Hin; unfold pos_actions, tick_actions, finish_actions, draw_actions in Hin;
    repeat match type of Hin with context [match ?x with _ => _ end] => destruct x end;
    cbn [In app] in Hin; repeat (destruct Hin as [Hin|Hin]; try discriminate Hin); try contradiction;
    try (injection Hin as _ <-; unfold all_text; first [repeat constructor; fail | apply Forall_map, Forall_forall; intros; reflexivity]).
  Qed.
End Orphans2.

(* ------------------------------------------------------------------ J. in-sync entries show the CURRENT state *)
Lemma lat_step_sync_pre (W H : N) (fails : N -> bool) s g n now o i e :
  LInv s g n -> op_ok s o = true -> In i (ms_order (s_mp s)) ->
  lg_slot (lat_step s now o n g) i = Some e -> le_sync e = true ->
  logic (le_state e) = logic (get_bar (step_sys W H fails s now o) (le_bar e)).
Proof.
  intros LI Hk Hi He Hs. destruct (step_bar_facts W H fails s now o Hk (le_bar e)) as (_ & _ & C).
  unfold logic_after in C.
  destruct (lat_step_entries _ _ _ _ _ _ _ He) as [(e0 & He0 & _ & _ & _ & Eq)|(b & st & Hd & Ht & ->)].
  - specialize (Eq Hs). subst e0.
    pose proof (li_owner _ _ _ LI i e Hi He0) as Ho. pose proof (li_sync _ _ _ LI i e Hi He0 Hs) as Hy.
    destruct (op_draw s now o) as [[b st]|] eqn:Hd.
    + destruct (N.eqb_spec (le_bar e) b) as [Hc|Hn]; [|congruence].
      exfalso. rewrite Hc in Ho. apply mslot_Some in Ho.
      unfold lat_step in He. rewrite Hd, Ho in He. cbn [lg_slot] in He. rewrite fupd_eq in He. injection He as E.
      pose proof (li_stamp_slot _ _ _ LI i e He0) as Hst. rewrite <- E in Hst. cbn in Hst. lia.
    + destruct (silent_change s now o (le_bar e)) eqn:Hsc; [|congruence].
      exfalso. pose proof (silent_bar _ _ _ _ Hsc) as Hb. apply mslot_Some in Ho.
      assert (Hins : insert_slot s o = None) by (destruct o; try reflexivity; discriminate Hsc).
      unfold lat_step in He. rewrite Hd, Hins, Hb, Hsc, Ho, He0 in He. cbn [lg_slot] in He.
      rewrite fupd_eq in He. injection He as E. rewrite <- E in Hs. discriminate Hs.
  - cbn [le_bar le_state]. rewrite Hd, N.eqb_refl in C. symmetry. exact C.
Qed.

Theorem orphans_once (W H : N) (fails : N -> bool) (s0 : sys) (h1 h2 : list (N * op)) (now : N) (o : op) :
  init_ok s0 -> mp_visible s0 -> ms_orphans (s_mp s0) = [] -> hist_ok W H fails s0 (h1 ++ (now, o) :: h2) ->
  let s := run W H fails s0 h1 in
  ms_orphans (s_mp s) = [] /\ ms_orphans (s_mp (step_sys W H fails s now o)) = []
  /\ (forall m f ex, In (m, f, ex) (step_draws W H fails s now o) ->
        ms_orphans m = member_texts s o
        /\ exists B, ms_frame m ex = (match ex with Some e => e | None => [] end ++ member_texts s o) ++ B
                     /\ all_text (match ex with Some e => e | None => [] end ++ member_texts s o) /\ all_bar B)
  /\ (member_texts s o <> [] ->
        exists m f, step_draws W H fails s now o = [(m, f, None)] /\ ms_attempt W m f None now = true).
Proof.
  intros Hi Vis Ho0 Hh. cbn zeta.
  destruct (frame_shows_latest W H fails s0 h1 h2 now o Hi Vis Hh) as [Es FS]. cbn zeta in FS.
  apply hist_ok_app in Hh. destruct Hh as [Hh1 [Hk _]].
  destruct (run_orphans W H fails h1 s0 Vis Ho0 Hh1) as [V Ho].
  destruct (step_orphans W H fails _ now o V Ho Hk) as (A & B & C).
  split; [exact Ho|]. split; [exact A|]. split; [|exact C].
  intros m f ex Hin. destruct (B m f ex Hin) as [B1 _]. split; [exact B1|].
  rewrite <- Es in Hin. destruct (FS m f ex Hin) as [F1 _]. rewrite Es in F1. rewrite B1 in F1.
  eexists. split; [exact F1|]. split.
  - apply Forall_app. split.
    + destruct ex as [e|]; [|constructor]. rewrite Es in Hin.
      destruct (mp_draws_extra W H fails now _ _ _ _ _ _ Hin) as [Hc|Hc]; [discriminate|].
      eapply op_actions_extra; eauto.
    + unfold member_texts. destruct o; try constructor. destruct (is_member _ b); [apply text_lines_text | constructor].
  - unfold all_bar. apply Forall_concat. apply Forall_map. apply Forall_forall. intros i _.
    unfold shown. destruct (lg_slot _ i); [apply frame_of_bar | constructor].
Qed.

(** C05, MultiProgress members: whatever the refresh limiter did to earlier requests, every composed
    frame shows each member's most recent draw step, and for an in-sync member its CURRENT state *)
Theorem nothing_lost_multi (W H : N) (fails : N -> bool) (s0 : sys) (h1 h2 : list (N * op)) (now : N) (o : op) :
  init_ok s0 -> mp_visible s0 -> hist_ok W H fails s0 (h1 ++ (now, o) :: h2) ->
  let r := lrun W H fails s0 0 lg_empty h1 in
  let s := fst (fst r) in
  let s' := step_sys W H fails s now o in
  let g' := lat_step s now o (length h1) (snd r) in
  forall m f ex, In (m, f, ex) (step_draws W H fails s now o) ->
    ms_frame m ex = (match ex with Some e => e | None => [] end ++ ms_orphans m)
                    ++ concat (map (shown g') (ms_order m))
    /\ forall i e, In i (ms_order m) -> lg_slot g' i = Some e ->
         b_target (get_bar s (le_bar e)) = TMulti i
         /\ lg_last g' (le_bar e) = Some (le_step e)
         /\ (le_sync e = true -> shown g' i = frame_of (get_bar s' (le_bar e))).
Proof.
  intros Hi Vis Hh. cbn zeta.
  destruct (frame_shows_latest W H fails s0 h1 h2 now o Hi Vis Hh) as [Es FS]. cbn zeta in FS.
  change (h1 ++ (now, o) :: h2) with (h1 ++ [(now, o)] ++ h2) in Hh.
  apply hist_ok_app in Hh. destruct Hh as [Hh1 Hh2]. cbn [app hist_ok] in Hh2. destruct Hh2 as [Hk _].
  destruct (lrun_all W H fails s0 h1 Hi Vis Hh1) as (A & B & MI & V & LI & _). cbn zeta in *.
  intros m f ex Hin. destruct (FS m f ex Hin) as [F1 F2]. split; [exact F1|].
  intros i e Hio He. destruct (F2 i e Hio He) as (G1 & G2 & _). split; [exact G1|]. split; [exact G2|].
  intros Hs. unfold shown. rewrite He. apply frame_of_logic.
  rewrite <- A in Hk.
  pose proof (step_draws_lines W H fails _ _ _ now o m f ex MI V LI Hk Hin i Hio) as [Hi0 _].
  eapply lat_step_sync_pre; eauto.
Qed.

(* ------------------------------------------------------------------ K. the out-of-sync class is inhabited *)
Definition wit_bar (c : N) : bar :=
  new_bar (Some 100) FAndLeave [PLit [c; 58]; PPos; PLit [47]; PLen; PLit [32]; PMsg] THidden 0.
Definition wit_s0 : sys := mksys [wit_bar 65; wit_bar 66] (new_ms (TTerm (new_ttarget (Some 1) 0))) 0.
(** add A, add B, eleven A.inc(1) within one millisecond: the eleventh is refused by A's position limiter *)
Definition wit_h : list (N * op) :=
  [(0, OInsert BEnd 0); (0, OInsert BEnd 1)] ++ map (fun _ => (5, OInc 0 1)) (seq 0 11).

(** "the next painted frame shows the latest position" fails for a member whose last position
    update was swallowed by its own position limiter when ANOTHER member triggers the frame *)
Theorem multi_stale_refuted :
  exists (s0 : sys) (h : list (N * op)) (now : N) (o : op),
    init_ok s0 /\ mp_visible s0 /\ hist_ok 40 20 (fun _ => false) s0 (h ++ [(now, o)]) /\
    let s := run 40 20 (fun _ => false) s0 h in
    let s' := step_sys 40 20 (fun _ => false) s now o in
    exists m f ex, In (m, f, ex) (step_draws 40 20 (fun _ => false) s now o)
      /\ ms_attempt 40 m f ex now = true
      /\ alive s' 0 = true /\ b_target (get_bar s' 0) = TMulti 0 /\ In 0 (ms_order m)
      /\ silent_change (run 40 20 (fun _ => false) s0 (firstn 12 h)) 5 (OInc 0 1) 0 = true
      /\ member_lines (ms_members m) 0 <> frame_of (get_bar s' 0).
Proof.
  exists wit_s0, wit_h, 6, (OTick 1). split; [|split; [|split]].
  - repeat split. intros b. unfold is_member, get_bar, nthN. destruct (N.to_nat b) as [|[|[|n]]]; reflexivity.
  - eexists. reflexivity.
  - vm_compute. repeat split.
  - cbn zeta.
    destruct (step_draws 40 20 (fun _ => false) (run 40 20 (fun _ => false) wit_s0 wit_h) 6 (OTick 1))
      as [|[[m f] ex] r] eqn:E; [vm_compute in E; discriminate E|].
    exists m, f, ex. split; [left; reflexivity|].
    vm_compute in E. injection E as <- <- <- _.
    split; [vm_compute; reflexivity|]. split; [vm_compute; reflexivity|]. split; [vm_compute; reflexivity|].
    split; [vm_compute; auto|]. split; [vm_compute; reflexivity|]. vm_compute. discriminate.
Qed.

(* ------------------------------------------------------------------ L. a refused request is not lost: persistence of the entry *)
Lemma lat_step_slot_keep s g n now o i e :
  MInv s -> LInv s g n -> op_ok s o = true ->
  alive s (le_bar e) = true -> mslot (get_bar s (le_bar e)) = Some i -> lg_slot g i = Some e ->
  (forall st, op_draw s now o <> Some (le_bar e, st)) -> silent_change s now o (le_bar e) = false ->
  lg_slot (lat_step s now o n g) i = Some e.
Proof.
  intros MI LI Hk Ha Hm He Hnd Hns. unfold lat_step.
  assert (Hown : forall b', alive s b' = true -> b_target (get_bar s b') = TMulti i -> b' = le_bar e).
  { intros b' Ha' Ht'. symmetry. eapply (li_live _ _ _ LI); eauto. apply mslot_Some; exact Ht'. }
  destruct (op_draw s now o) as [[b st]|] eqn:Hd.
  - destruct (b_target (get_bar s b)) as [|tg|idx] eqn:Ht; try exact He. cbn [lg_slot].
    destruct (N.eq_dec i idx) as [<-|Hn]; [|rewrite fupd_neq by exact Hn; exact He].
    exfalso. pose proof (ok_alive s o b Hk (op_draw_bar s now o b st Hd)) as Hab.
    apply (Hnd st). rewrite (Hown b Hab Ht). reflexivity.
  - destruct (insert_slot s o) as [idx|] eqn:Hi.
    + cbn [lg_slot]. destruct (N.eq_dec i idx) as [<-|Hn]; [|rewrite fupd_neq by exact Hn; exact He].
      exfalso. destruct o; try discriminate Hi.
      destruct (insert_op_actions 0 s now loc b i Hk Hi) as (l & m1 & _ & Hins & _).
      destruct (ms_insert_spec (s_mp s) l m1 i (MInv_core s MI) Hins) as (Hfresh & _).
      apply Hfresh. eapply (mi_alive s MI); eauto. apply mslot_Some; exact Hm.
    + destruct (op_bar o) as [b|] eqn:Hb; [|exact He].
      destruct (silent_change s now o b) eqn:Hs; [|exact He].
      destruct (b_target (get_bar s b)) as [|tg|idx] eqn:Ht; try exact He.
      destruct (lg_slot g idx) as [e0|] eqn:He0; [|exact He]. cbn [lg_slot].
      destruct (N.eq_dec i idx) as [<-|Hn]; [|rewrite fupd_neq by exact Hn; exact He].
      exfalso. pose proof (ok_alive s o b Hk Hb) as Hab. rewrite (Hown b Hab Ht) in Hs. congruence.
Qed.

Section Persist.
  Variable W H : N.
  Variable fails : N -> bool.
  Local Notation step_sys := (step_sys W H fails).
  Local Notation run := (run W H fails).
  Local Notation hist_ok := (hist_ok W H fails).
  Local Notation lrun := (lrun W H fails).

  Lemma alive_back s now o x : op_ok s o = true -> alive (step_sys s now o) x = true -> alive s x = true.
  Proof.
    intros Hk Hx. destruct (step_bar_facts W H fails s now o Hk x) as (A & _). rewrite A in Hx.
    apply andb_prop in Hx. tauto.
  Qed.

  Lemma alive_back_run h : forall s x, hist_ok s h -> alive (run s h) x = true -> alive s x = true.
  Proof.
    induction h as [|[now o] r IH]; intros s x Hh Hx; cbn [MultiSpec.run] in Hx; [exact Hx|].
    destruct Hh as [Hk Hr]. eapply alive_back; eauto.
  Qed.

  Lemma persist h : forall s a g n b i e,
    MInv s -> Refines s a -> mp_visible s -> LInv s g n -> hist_ok s h -> quiet W H fails s b h ->
    alive (run s h) b = true -> mslot (get_bar s b) = Some i -> lg_slot g i = Some e -> le_bar e = b ->
    lg_slot (snd (lrun s n g h)) i = Some e /\ mslot (get_bar (run s h) b) = Some i.
  Proof.
    induction h as [|[now o] r IH]; intros s a g n b i e MI RF Vis LI Hh Hq Ha Hm He Hb;
      cbn [MultiLatest.lrun MultiSpec.run]; [auto|].
    destruct Hh as [Hk Hr]. destruct Hq as (Q1 & Q2 & Q3 & Q4).
    destruct (step_sim W H fails s a now o MI RF Hk) as (rr & MI' & RF').
    cbn [MultiSpec.run] in Ha. pose proof (alive_back_run r _ b Hr Ha) as Ha1. pose proof (alive_back s now o b Hk Ha1) as Ha0.
    eapply IH; eauto.
    - apply step_visible; assumption.
    - apply lat_step_inv; assumption.
    - destruct (step_bar_facts W H fails s now o Hk b) as (_ & B & _). rewrite B. unfold slot_after.
      destruct o; try exact Hm.
      + (* OInsert *)
        destruct (N.eqb_spec b b0) as [->|Hn]; [|exact Hm].
        (* b0 is a member already: the call has no effect (fix bee77c9) *)
        unfold insert_slot. pose proof Hm as Hm2. apply mslot_Some in Hm2. rewrite Hm2. exact Hm.
      + destruct (N.eqb_spec b b0) as [->|Hn]; [congruence | exact Hm].
    - subst b. apply lat_step_slot_keep; assumption.
  Qed.
End Persist.

(** C05: a draw request of member [b] - painted OR refused by the refresh limiter of the MultiProgress
    target - is not lost: as long as nothing touches [b] afterwards ([quiet]), every frame composed by
    a later call of another member or of the MultiProgress shows [frame_of] the state [b] had at that
    request, which is still its current state *)
Theorem nothing_lost_target_limiter (W H : N) (fails : N -> bool) (s0 : sys) (h1 h2 h3 : list (N * op))
    (now now2 : N) (o o2 : op) (b i : N) (st : bar) :
  init_ok s0 -> mp_visible s0 ->
  hist_ok W H fails s0 (h1 ++ (now, o) :: h2 ++ (now2, o2) :: h3) ->
  let s1 := run W H fails s0 h1 in
  let s1' := step_sys W H fails s1 now o in
  let s2 := run W H fails s1' h2 in
  let s2' := step_sys W H fails s2 now2 o2 in
  op_draw s1 now o = Some (b, st) -> b_target (get_bar s1 b) = TMulti i ->
  quiet W H fails s1' b (h2 ++ [(now2, o2)]) -> alive s2' b = true ->
  forall m f ex, In (m, f, ex) (step_draws W H fails s2 now2 o2) -> In i (ms_order m) ->
    member_lines (ms_members m) i = frame_of (get_bar s2' b)
    /\ logic (get_bar s2' b) = logic st.
Proof.
  intros Hi Vis Hh. cbn zeta. intros Hd Ht Hq Ha m f ex Hin Hio.
  (* split the history *)
  assert (Hh' : hist_ok W H fails s0 ((h1 ++ [(now, o)]) ++ (h2 ++ [(now2, o2)]) ++ h3)).
  { rewrite <- !app_assoc. exact Hh. }
  apply hist_ok_app in Hh'. destruct Hh' as [HhA HhB]. apply hist_ok_app in HhB. destruct HhB as [HhB _].
  pose proof HhA as HhA'. apply hist_ok_app in HhA'. destruct HhA' as [Hh1 [Hk _]].
  rewrite run_app in HhB. cbn [run] in HhB.
  destruct (lrun_all W H fails s0 h1 Hi Vis Hh1) as (A1 & B1 & MI1 & V1 & LI1 & _). cbn zeta in *.
  destruct (lrun_all W H fails s0 (h1 ++ [(now, o)]) Hi Vis HhA) as (A & B & MI & V & LI & HF). cbn zeta in *.
  rewrite lrun_app in A, MI, V, LI, HF. set (r1 := lrun W H fails s0 0 lg_empty h1) in *.
  destruct r1 as [[s1 n1] g1] eqn:Er1. cbn [fst snd] in *. cbn [lrun fst snd] in A, MI, V, LI, HF. subst s1 n1.
  set (s1 := run W H fails s0 h1) in *. set (s1' := step_sys W H fails s1 now o) in *.
  set (g1' := lat_step s1 now o (length h1) g1) in *. rewrite app_length in LI. cbn [length] in LI.
  (* the entry written by the request *)
  assert (He : lg_slot g1' i = Some (mkle b (length h1) st true)).
  { unfold g1', lat_step. rewrite Hd, Ht. cbn [lg_slot]. apply fupd_eq. }
  assert (Hm' : mslot (get_bar s1' b) = Some i).
  { destruct (step_bar_facts W H fails s1 now o Hk b) as (_ & Bs & _). unfold s1'. rewrite Bs, (slot_after_draw _ _ _ _ _ Hd).
    apply mslot_Some. exact Ht. }
  destruct (init_inv H fails s0 Hi) as [MI0 RF0].
  destruct (sim_run_end W H fails _ _ _ (sim_run W H fails _ s0 _ MI0 RF0 HhA)) as (a' & _ & RF').
  rewrite run_app in RF'. cbn [run] in RF'. fold s1 s1' in RF'.
  assert (Ha2 : alive (run W H fails s1' (h2 ++ [(now2, o2)])) b = true) by (rewrite run_app; exact Ha).
  destruct (persist W H fails (h2 ++ [(now2, o2)]) s1' a' g1' _ b i _ MI RF' V LI HhB Hq Ha2 Hm' He eq_refl) as [P1 P2].
  (* the state and ghost before the later call *)
  assert (Hfull : hist_ok W H fails s0 ((h1 ++ (now, o) :: h2) ++ (now2, o2) :: h3)).
  { rewrite <- app_assoc. exact Hh. }
  apply hist_ok_app in Hfull. destruct Hfull as [Hh12 [Hk2 _]].
  destruct (lrun_all W H fails s0 (h1 ++ (now, o) :: h2) Hi Vis Hh12) as (A2 & B2 & MI2 & V2 & LI2 & _). cbn zeta in *.
  rewrite run_app in A2, Hk2. cbn [run] in A2, Hk2. fold s1 s1' in A2, Hk2.
  set (r2 := lrun W H fails s0 0 lg_empty (h1 ++ (now, o) :: h2)) in *.
  destruct r2 as [[s2 n2] g2] eqn:Er2. cbn [fst snd] in *. subst s2 n2.
  (* the ghost after the later call is the one [persist] speaks about *)
  assert (Eg : lat_step (run W H fails s1' h2) now2 o2 (length (h1 ++ (now, o) :: h2)) g2
               = snd (lrun W H fails s1' (length h1 + 1) g1' (h2 ++ [(now2, o2)]))).
  { assert (E2 : g2 = snd (lrun W H fails s0 0 lg_empty (h1 ++ (now, o) :: h2))) by (unfold r2 in Er2; rewrite Er2; reflexivity).
    rewrite E2. change (h1 ++ (now, o) :: h2) with (h1 ++ [(now, o)] ++ h2). rewrite app_assoc.
    rewrite (lrun_app W H fails (h1 ++ [(now, o)])), (lrun_app W H fails h1). unfold r1 in Er1. rewrite Er1. cbn [lrun].
    fold s1 s1' g1'. rewrite (lrun_app W H fails h2).
    destruct (lrun_fst W H fails h2 s1' (S (length h1)) g1') as [E1 E3].
    replace (length h1 + 1)%nat with (S (length h1)) by lia.
    destruct (lrun W H fails s1' (S (length h1)) g1' h2) as [[sx nx] gx]. cbn [fst snd] in *. cbn [lrun snd].
    subst sx nx. rewrite !app_length. cbn [length]. f_equal. lia. }
  destruct (step_draws_lines W H fails _ g2 _ now2 o2 m f ex MI2 V2 LI2 Hk2 Hin i Hio) as [Hi2 SL].
  rewrite Eg, P1 in SL. cbn [ent_lines le_state] in SL.
  assert (P1' : lg_slot (lat_step (run W H fails s1' h2) now2 o2 (length (h1 ++ (now, o) :: h2)) g2) i
                = Some (mkle b (length h1) st true)) by (rewrite Eg; exact P1).
  pose proof (lat_step_sync_pre W H fails _ g2 _ now2 o2 i _ LI2 Hk2 Hi2 P1' eq_refl) as Hl. cbn [le_state le_bar] in Hl.
  split; [|symmetry; exact Hl].
  unfold member_lines. unfold lines_at in SL. rewrite SL. apply frame_of_logic. exact Hl.
Qed.

(* ------------------------------------------------------------------ M. a position update one interval after the last reaching one reaches BarState *)
From IndGen Require Import Constants.

Lemma ap_allow_after a now :
  ap_start a <= now -> now - ap_start a < U64 -> ap_prev a + AP_INTERVAL_NS <= now - ap_start a ->
  fst (ap_allow a now) = true.
Proof.
  intros H1 H2 H3. unfold ap_allow.
  destruct (N.ltb_spec now (ap_start a)) as [Hc|_]; [lia|].
  rewrite (N.mod_small (now - ap_start a) U64) by exact H2.
  destruct (N.ltb_spec (now - ap_start a - ap_prev a) AP_INTERVAL_NS) as [Hc|_]; [lia|].
  rewrite andb_false_r. reflexivity.
Qed.

(** inc / dec / set_position at least AP_INTERVAL_NS (1 ms) after the instant [ap_prev] of the bar's
    position limiter (its last reaching update or reset, rounded down to the grid) IS a draw step,
    with the new position *)
Theorem pos_draw_reaches x f now :
  ap_start (b_ap x) <= now -> now - ap_start (b_ap x) < U64 ->
  ap_prev (b_ap x) + AP_INTERVAL_NS <= now - ap_start (b_ap x) ->
  exists st, pos_draw x f now = Some st /\ b_pos st = f (b_pos x) /\ b_len st = b_len x /\ b_msg st = b_msg x.
Proof.
  intros H1 H2 H3. unfold pos_draw. cbn [b_ap set_b_pos].
  pose proof (ap_allow_after (b_ap x) now H1 H2 H3) as Ha.
  destruct (ap_allow (b_ap x) now) as [a ap']. cbn [fst] in Ha. subst a. eexists. split; [reflexivity|]. cbn. auto.
Qed.
