(** Proofs about model/TabsEnv.v (C16): every text the numeric / time keys write is TAB-free,
    for every snapshot - so [env_ok] holds for every environment built from the C11 dispatch
    (Keys.v) over the C15 formatters (Fmt.v), and C16_no_tab needs no hypothesis about them. *)
From IndModel Require Import Base Tabs TabsEnv.
From IndModel Require Keys Fmt FmtSpec.
From IndGen Require Import Constants.
From IndProofs Require Import TabsProofs.
From IndProofs Require FmtProofs.
From Coq Require Import NArith Lia List Bool String SpecFloat.
Open Scope N_scope.

(** ** small facts *)
Lemma notab_cons c s : c <> TAB -> notab s -> notab (c :: s).
Proof. intros Hc Hs [H | H]; [apply Hc; exact H | exact (Hs H)]. Qed.

Lemma notab_single c : c <> TAB -> notab [c].
Proof. intros Hc. apply notab_cons; [exact Hc | apply notab_nil]. Qed.

Lemma digits_notab l : Forall FmtSpec.is_digit l -> notab l.
Proof.
  intros H Hin. rewrite Forall_forall in H. specialize (H _ Hin).
  unfold FmtSpec.is_digit, Fmt.CH_0, TAB in H. lia.
Qed.

Lemma repeat_notab c k : c <> TAB -> notab (repeat c k).
Proof. intros Hc H. apply repeat_spec in H. apply Hc. symmetry. exact H. Qed.

(* a constant string: decided by computation *)
Lemma str_notab s : has_tab (Fmt.str s) = false -> notab (Fmt.str s).
Proof. apply has_tab_in. Qed.

(** ** decimal numerals *)
Lemma dec_notab n : notab (Fmt.dec n).
Proof. apply digits_notab, FmtProofs.dec_digits. Qed.

Lemma uint_text_notab d : notab (Keys.uint_text d).
Proof.
  induction d; cbn [Keys.uint_text]; try apply notab_nil;
    (apply notab_cons; [unfold TAB; discriminate | assumption]).
Qed.

Lemma dec_text_notab n : notab (Keys.dec_text n).
Proof. apply uint_text_notab. Qed.

Lemma pad0_notab w s : notab s -> notab (Fmt.pad0 w s).
Proof. intros H. unfold Fmt.pad0. apply notab_app; [apply repeat_notab; discriminate | exact H]. Qed.

(** ** HumanCount: the comma loop only adds commas *)
Lemma group_loop_in cs : forall ln idx t x,
  Fmt.group_loop ln idx cs = Ok t -> In x t -> In x cs \/ x = Fmt.CH_COMMA.
Proof.
  induction cs as [|c r IH]; intros ln idx t x H Hx; cbn [Fmt.group_loop] in H.
  - inversion H; subst. destruct Hx.
  - destruct (ln <? idx + 1); [discriminate|].
    destruct (Fmt.group_loop ln (idx + 1) r) as [t'|k] eqn:E; [| discriminate].
    inversion H; subst. destruct Hx as [Hx | Hx]; [left; left; exact Hx|].
    apply in_app_or in Hx. destruct Hx as [Hx | Hx].
    + destruct ((0 <? ln - idx - 1) && ((ln - idx - 1) mod 3 =? 0)); [| destruct Hx].
      destruct Hx as [Hx | []]. right. symmetry. exact Hx.
    + destruct (IH _ _ _ _ E Hx) as [H1 | H1]; [left; right; exact H1 | right; exact H1].
Qed.

Lemma group_loop_notab cs ln idx t : notab cs -> Fmt.group_loop ln idx cs = Ok t -> notab t.
Proof.
  intros Hc H Hx. destruct (group_loop_in _ _ _ _ _ H Hx) as [H1 | H1]; [exact (Hc H1) | discriminate H1].
Qed.

Lemma human_count_notab n : notab (ok_or_nil (Fmt.human_count n)).
Proof.
  unfold Fmt.human_count. destruct (Fmt.group_loop _ 0 (Fmt.dec n)) as [t|k] eqn:E; cbn [ok_or_nil];
    [| apply notab_nil]. eapply group_loop_notab; [apply dec_notab | exact E].
Qed.

(** ** FormattedDuration *)
Lemma formatted_duration_notab secs nanos : notab (Fmt.formatted_duration secs nanos).
Proof.
  unfold Fmt.formatted_duration.
  assert (Hhms : forall a b c, notab (Fmt.pad0 2 (Fmt.dec a) ++ [Fmt.CH_COLON] ++ Fmt.pad0 2 (Fmt.dec b)
                                       ++ [Fmt.CH_COLON] ++ Fmt.pad0 2 (Fmt.dec c))).
  { intros a b c.
    apply notab_app; [apply pad0_notab, dec_notab|]. apply notab_app; [apply notab_single; discriminate|].
    apply notab_app; [apply pad0_notab, dec_notab|]. apply notab_app; [apply notab_single; discriminate|].
    apply pad0_notab, dec_notab. }
  destruct (0 <? _); [| apply Hhms].
  apply notab_app; [apply dec_notab|]. apply notab_app; [apply str_notab; reflexivity | apply Hhms].
Qed.

(** ** HumanDuration: a numeral and a unit name of the table *)
Definition units_okb : bool :=
  forallb (fun e : N * string * string =>
             let '(_, n, a) := e in negb (has_tab (Fmt.str n)) && negb (has_tab (Fmt.str a))) UNITS.

Lemma human_duration_notab secs nanos alt : notab (ok_or_nil (Fmt.human_duration secs nanos alt)).
Proof.
  unfold Fmt.human_duration.
  destruct (Fmt.hd_loop _ 0 UNITS 0) as [idx|k]; [| apply notab_nil].
  destruct (nth_error UNITS idx) as [[[unit name] al]|] eqn:E; [| apply notab_nil].
  destruct (List.length UNITS =? 0)%nat; [apply notab_nil|].
  assert (Hu : units_okb = true) by (vm_compute; reflexivity).
  unfold units_okb in Hu. rewrite forallb_forall in Hu. specialize (Hu _ (nth_error_In _ _ E)).
  cbn beta iota in Hu. apply andb_true_iff in Hu. destruct Hu as [Hn Ha].
  apply negb_true_iff in Hn, Ha.
  cbn [ok_or_nil]. destruct alt.
  - apply notab_app; [apply dec_notab | apply has_tab_in; exact Ha].
  - destruct (_ =? 1).
    + apply notab_app; [apply dec_notab|]. apply notab_app; [apply notab_single; discriminate | apply has_tab_in; exact Hn].
    + apply notab_app; [apply dec_notab|]. apply notab_app; [apply notab_single; discriminate|].
      apply notab_app; [apply has_tab_in; exact Hn | apply str_notab; reflexivity].
Qed.

(** ** `{:.p}` of a float *)
Lemma fixed_digits_notab p q : notab (Fmt.fixed_digits p q).
Proof.
  rewrite FmtProofs.fixed_digits_spec. apply notab_app; [apply dec_notab|].
  destruct (p =? 0); [apply notab_nil|].
  apply notab_cons; [discriminate | apply digits_notab, FmtProofs.lastdigs_digits].
Qed.

Lemma sign_str_notab s : notab (Fmt.sign_str s).
Proof. destruct s; [apply notab_single; discriminate | apply notab_nil]. Qed.

Lemma fmt_fixed_notab p x : notab (Fmt.fmt_fixed p x).
Proof.
  destruct x as [s|s| |s m e]; cbn [Fmt.fmt_fixed].
  - apply notab_app; [apply sign_str_notab | apply fixed_digits_notab].
  - apply notab_app; [apply sign_str_notab | apply str_notab; reflexivity].
  - apply str_notab. reflexivity.
  - apply notab_app; [apply sign_str_notab | apply fixed_digits_notab].
Qed.

(** ** HumanBytes / DecimalBytes / BinaryBytes *)
Definition syms_okb : bool :=
  forallb (fun s => negb (has_tab (Fmt.str s))) (Fmt.SYM_BINARY ++ Fmt.SYM_DECIMAL).

Lemma bytes_fmt_notab binary n : notab (ok_or_nil (Fmt.bytes_fmt binary n)).
Proof.
  unfold Fmt.bytes_fmt. destruct (Fmt.number_prefix _ _) as [number prefix].
  destruct (prefix =? 0); cbn [ok_or_nil].
  - apply notab_app; [apply fmt_fixed_notab | apply str_notab; reflexivity].
  - destruct (nth_error _ _) as [sym|] eqn:E; cbn [ok_or_nil]; [| apply notab_nil].
    assert (Hs : syms_okb = true) by (vm_compute; reflexivity).
    unfold syms_okb in Hs. rewrite forallb_forall in Hs.
    assert (Hin : In sym (Fmt.SYM_BINARY ++ Fmt.SYM_DECIMAL)).
    { apply nth_error_In in E. apply in_or_app. destruct binary; [left | right]; exact E. }
    specialize (Hs _ Hin). apply negb_true_iff in Hs.
    apply notab_app; [apply fmt_fixed_notab|]. apply notab_app; [apply notab_single; discriminate|].
    apply notab_app; [apply has_tab_in; exact Hs | apply str_notab; reflexivity].
Qed.

(** ** HumanFloatCount: pieces of the `{:.p}` text, commas, a dot, a minus sign *)
Lemma split_once_in c s : forall a b x, Fmt.split_once c s = Some (a, b) -> In x a \/ In x b -> In x s.
Proof.
  induction s as [|y r IH]; intros a b x H Hx; cbn [Fmt.split_once] in H; [discriminate|].
  destruct (y =? c).
  - inversion H; subst. destruct Hx as [[] | Hx]. right. exact Hx.
  - destruct (Fmt.split_once c r) as [[a' b']|] eqn:E; [| discriminate]. inversion H; subst.
    destruct Hx as [[Hx | Hx] | Hx]; [left; exact Hx | right; eapply IH; [reflexivity | left; exact Hx]
                                      | right; eapply IH; [reflexivity | right; exact Hx]].
Qed.

Lemma fmt_trim_end_in c s x : In x (Fmt.trim_end c s) -> In x s.
Proof.
  induction s as [|y r IH]; [intros []|]. cbn [Fmt.trim_end].
  destruct (Fmt.trim_end c r) as [|z t] eqn:E.
  - destruct (y =? c); [intros [] | intros [H | []]; left; exact H].
  - intros [H | H]; [left; exact H | right; apply IH; exact H].
Qed.

Lemma human_float_count_sf_notab p x : notab (ok_or_nil (Fmt.human_float_count_sf p x)).
Proof.
  unfold Fmt.human_float_count_sf.
  set (num := Fmt.fmt_fixed _ x). assert (Hnum : notab num) by apply fmt_fixed_notab.
  assert (Hparts : forall ip fp, (match Fmt.split_once Fmt.CH_DOT num with Some (a, b) => (a, b) | None => (num, []) end) = (ip, fp)
                                 -> notab ip /\ notab fp).
  { intros ip fp H. destruct (Fmt.split_once Fmt.CH_DOT num) as [[a b]|] eqn:E; inversion H; subst.
    - split; eapply notab_incl; try exact Hnum; intros y Hy; eapply split_once_in; try exact E; auto.
    - split; [exact Hnum | apply notab_nil]. }
  destruct (match Fmt.split_once Fmt.CH_DOT num with Some (a, b) => (a, b) | None => (num, []) end) as [ip fp] eqn:E.
  destruct (Hparts ip fp eq_refl) as [Hip Hfp].
  assert (Hfin : forall sgn ip', notab sgn -> notab ip' ->
            notab (ok_or_nil (match Fmt.group_loop (Fmt.len ip') 0 ip' with
                              | Panic s => Panic s
                              | Ok grouped =>
                                  let frac_trimmed := Fmt.trim_end Fmt.CH_0 fp in
                                  Ok (sgn ++ grouped ++ (if (List.length frac_trimmed =? 0)%nat then []
                                                         else Fmt.CH_DOT :: frac_trimmed))
                              end))).
  { intros sgn ip' Hs Hi. destruct (Fmt.group_loop (Fmt.len ip') 0 ip') as [g|k] eqn:Eg; cbn [ok_or_nil];
      [| apply notab_nil].
    apply notab_app; [exact Hs|]. apply notab_app; [eapply group_loop_notab; eassumption|].
    cbv zeta. destruct (List.length _ =? 0)%nat; [apply notab_nil|].
    apply notab_cons; [discriminate|]. eapply notab_incl; [| exact Hfp]. intros y. apply fmt_trim_end_in. }
  destruct ip as [|c digits].
  - apply Hfin; [apply notab_nil | apply notab_nil].
  - destruct (c =? Fmt.CH_MINUS).
    + apply Hfin; [apply notab_single; discriminate|]. intros H. apply Hip. right. exact H.
    + apply Hfin; [apply notab_nil | exact Hip].
Qed.

Lemma human_float_count_notab p bits : notab (ok_or_nil (Fmt.human_float_count p bits)).
Proof. apply human_float_count_sf_notab. Qed.

(** ** the dispatch: every numeric / time key *)
Lemma per_s_notab t : notab t -> notab (t ++ Keys.per_s).
Proof. intros H. apply notab_app; [exact H|]. apply notab_cons; [discriminate | apply notab_single; discriminate]. Qed.

Theorem keys_num_notab dec32 snap d id w : notab (keys_num dec32 snap d id w).
Proof.
  unfold keys_num. destruct (num_bkey id) as [b|] eqn:E; [| apply notab_nil].
  unfold num_bkey in E. destruct (Keys.key_id _) as [b'|]; [| discriminate].
  destruct (is_numeric b') eqn:En; inversion E; subst b'. clear E.
  destruct b; try discriminate En;
    cbn [Keys.builtin_value fst fmt_formatters Keys.f_count Keys.f_hbytes Keys.f_dbytes Keys.f_bbytes
         Keys.f_fdur Keys.f_hdur Keys.f_hfloat Keys.f_percent];
    try apply dec_text_notab; try apply human_count_notab; try apply fmt_fixed_notab;
    try apply bytes_fmt_notab; try apply formatted_duration_notab; try apply human_duration_notab;
    try (apply per_s_notab; apply bytes_fmt_notab).
  destruct w; apply per_s_notab; apply human_float_count_notab.
Qed.

(** [env_ok] is discharged for every environment built this way *)
Theorem keys_env_ok cols termw geom dec32 snap : env_ok (keys_env cols termw geom dec32 snap).
Proof. intros d id w. apply keys_num_notab. Qed.

Theorem no_tab_keys cols termw geom dec32 snap ops :
  Forall op_ok ops -> Forall out_notab (snd (run (keys_env cols termw geom dec32 snap) bar_init ops)).
Proof. intros H. apply no_tab; [apply keys_env_ok | exact H]. Qed.
